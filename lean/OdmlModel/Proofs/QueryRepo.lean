/-
C20, exports *with* repositories: the case analysis of the triples of the flat graph when Documents
and Sections may have a repository (terminology nodes `tnode url`, typed by the IRI `url`, linked
from the Hub and from the object), and from it `GFacts` (`Proofs/QueryFull.lean`) for every
well-formed, representable document set whose repositories are set to non-empty values that are
not one of the three odML class IRIs (`RepoOK`).  Property theorem: `C20.query_sound_complete_full`.
-/
import OdmlModel.Proofs.QueryFull

set_option linter.unusedSimpArgs false
set_option linter.unusedVariables false
set_option linter.unusedSectionVars false
set_option linter.constructorNameAsVariable false

namespace Query
open Rdf List

/-! ## 1. The hypothesis on repositories -/

/-- **RepoOK**: a repository that is set is set to a value that is exported (Python-true: a
    non-empty text), and its URL is not the IRI of one of the three odML classes (the terminology
    node is typed by the URL; `saveRepositoryNode` documents the same assumption). -/
def RepoOK (ds : List DocT) : Prop :=
  ∀ v ∈ repoVals ds, v.truthy = true ∧ Term.iri v.lex ≠ docT ∧ Term.iri v.lex ≠ secT ∧
    Term.iri v.lex ≠ propT

theorem repoOK_of_B {ds : List DocT} (h : repoOKB ds = true) : RepoOK ds := by
  simp only [repoOKB, all_eq_true, Bool.and_eq_true, Bool.not_eq_true', contains_eq_mem,
    decide_eq_false_iff_not] at h
  intro v hv
  obtain ⟨h1, h2⟩ := h v hv
  refine ⟨h1, ?_, ?_, ?_⟩ <;>
    (intro e; apply h2; simp only [Term.iri.injEq] at e; rw [e]; simp [classIris])

theorem repoOK_of_noRepo {ds : List DocT} (nr : NoRepo ds) : RepoOK ds := by
  intro v hv
  simp only [repoVals, mem_append, mem_filterMap] at hv
  rcases hv with ⟨d, hd, e⟩ | ⟨s, hs, e⟩
  · rw [nr.1 d hd] at e; cases e
  · rw [nr.2 s hs] at e; cases e

theorem mem_repoVals_doc {ds : List DocT} {d : DocT} (hd : d ∈ ds) {v : PyVal}
    (h : d.attrs.lookup "repository" = some v) : v ∈ repoVals ds :=
  mem_append_left _ (mem_filterMap.mpr ⟨d, hd, h⟩)

theorem mem_repoVals_sec {ds : List DocT} {s : SecT} (hs : s ∈ docSecs ds) {v : PyVal}
    (h : s.attrs.lookup "repository" = some v) : v ∈ repoVals ds :=
  mem_append_right _ (mem_filterMap.mpr ⟨s, hs, h⟩)

/-! ## 2. The triples of one step, repositories included -/

/-- The two triples of a repository step that do not start at the object: the type of the
    terminology node and its link from the Hub. -/
def Aux (a : Attrs) (t : Triple) : Prop :=
  ∃ v, a.lookup "repository" = some v ∧ v.truthy = true ∧
    (t = ⟨.tnode v.lex, rdfType, .iri v.lex⟩ ∨ t = ⟨hub, hasTerminology, .tnode v.lex⟩)

def isLitOrT (o : Term) : Prop := isLit o ∨ ∃ u, o = .tnode u

theorem saveSecAttr_cases {n : Term} {a : Attrs} {kp : String × String} {t : Triple}
    (h : t ∈ saveSecAttr n a kp) :
    (t.s = n ∧ t.p = .iri kp.2.toList ∧ isLitOrT t.o) ∨ Aux a t := by
  unfold saveSecAttr at h
  cases hl : a.lookup kp.1 with
  | none => simp [hl] at h
  | some v =>
    simp only [hl] at h
    cases ht : v.truthy with
    | false => simp [ht] at h
    | true =>
      simp only [ht, Bool.not_true, Bool.false_eq_true, if_false] at h
      split at h
      · rename_i e
        have e' : kp.1 = "repository" := by simpa using e
        have hl' : a.lookup "repository" = some v := by rw [← e']; exact hl
        simp only [saveRepositoryNode, mem_cons, mem_nil_iff, or_false] at h
        rcases h with rfl | rfl | rfl
        · exact .inr ⟨v, hl', ht, .inl rfl⟩
        · exact .inr ⟨v, hl', ht, .inr rfl⟩
        · exact .inl ⟨rfl, rfl, .inr ⟨_, rfl⟩⟩
      · simp only [mem_cons, mem_nil_iff, or_false] at h
        subst h
        exact .inl ⟨rfl, rfl, .inl (toLit_isLit v)⟩

theorem saveDocAttr_cases {n : Term} {a : Attrs} {kp : String × String} {t : Triple}
    (h : t ∈ saveDocAttr n a kp) :
    (t.s = n ∧ t.p = .iri kp.2.toList ∧ isLitOrT t.o) ∨ Aux a t := by
  unfold saveDocAttr at h
  cases hl : a.lookup kp.1 with
  | none => simp [hl] at h
  | some v =>
    simp only [hl] at h
    cases ht : v.truthy with
    | false => simp [ht] at h
    | true =>
      simp only [ht, Bool.not_true, Bool.false_eq_true, if_false] at h
      split at h
      · rename_i e
        have e' : kp.1 = "repository" := by simpa using e
        have hl' : a.lookup "repository" = some v := by rw [← e']; exact hl
        simp only [saveRepositoryNode, mem_cons, mem_nil_iff, or_false] at h
        rcases h with rfl | rfl | rfl
        · exact .inr ⟨v, hl', ht, .inl rfl⟩
        · exact .inr ⟨v, hl', ht, .inr rfl⟩
        · exact .inl ⟨rfl, rfl, .inr ⟨_, rfl⟩⟩
      · split at h <;>
          (simp only [mem_cons, mem_nil_iff, or_false] at h; subst h)
        · exact .inl ⟨rfl, rfl, .inl (toDateLit_isLit v)⟩
        · exact .inl ⟨rfl, rfl, .inl (toLit_isLit v)⟩

/-- Triples of a Document step: at the Document node with the predicate of the entry (a child
    Section node for `sections`, a literal or a terminology node otherwise), or the two other
    triples of the repository. -/
theorem ownDocStep_cases' {d : DocT} {kp : String × String} {t : Triple} (h : t ∈ ownDocStep d kp) :
    (t.s = node d.id ∧ t.p = .iri kp.2.toList ∧
      ((kp.1 = "sections" ∧ ∃ c ∈ d.secs, t.o = node c.id) ∨ (kp.1 ≠ "sections" ∧ isLitOrT t.o))) ∨
    Aux d.attrs t := by
  unfold ownDocStep at h
  split at h
  · simp at h
  · split at h
    · rename_i e
      simp only [mem_map, secLink] at h
      obtain ⟨c, hc, rfl⟩ := h
      exact .inl ⟨rfl, rfl, .inl ⟨by simpa using e, c, hc, rfl⟩⟩
    · rename_i e
      rcases saveDocAttr_cases h with ⟨h1, h2, h3⟩ | h'
      · exact .inl ⟨h1, h2, .inr ⟨by simpa using e, h3⟩⟩
      · exact .inr h'

theorem ownSecStep_cases' {n : Term} {a : Attrs} {ps : List PropT} {ss : List SecT}
    {kp : String × String} {t : Triple} (h : t ∈ ownSecStep n a ps ss kp) :
    (t.s = n ∧ t.p = .iri kp.2.toList ∧
      ((kp.1 = "sections" ∧ ∃ c ∈ ss, t.o = node c.id) ∨
       (kp.1 = "properties" ∧ ∃ c ∈ ps, t.o = node c.id) ∨
       (kp.1 ≠ "sections" ∧ kp.1 ≠ "properties" ∧ isLitOrT t.o))) ∨
    Aux a t := by
  unfold ownSecStep at h
  split at h
  · simp at h
  · split at h
    · rename_i e
      simp only [mem_map, secLink] at h
      obtain ⟨c, hc, rfl⟩ := h
      exact .inl ⟨rfl, rfl, .inl ⟨by simpa using e, c, hc, rfl⟩⟩
    · split at h
      · rename_i e
        simp only [mem_map, propLink] at h
        obtain ⟨c, hc, rfl⟩ := h
        exact .inl ⟨rfl, rfl, .inr (.inl ⟨by simpa using e, c, hc, rfl⟩)⟩
      · rename_i e1 e2
        rcases saveSecAttr_cases h with ⟨h1, h2, h3⟩ | h'
        · exact .inl ⟨h1, h2, .inr (.inr ⟨by simpa using e1, by simpa using e2, h3⟩)⟩
        · exact .inr h'

theorem rdfType_ne_hasTerminology : rdfType ≠ hasTerminology := by decide
theorem hasTerminology_ne_hs : hasTerminology ≠ .iri hsS.toList := by decide
theorem hasTerminology_ne_hp : hasTerminology ≠ .iri hpS.toList := by decide

/-! ## 3. Types and containment links of the export, repositories included -/

section cases'
variable (ok : QTablesOK) {ds : List DocT}
include ok

/-- Every `rdf:type` triple of the export types a Document, Section or Property node with its
    class, a value sequence with `rdf:Seq`, or a terminology node with its URL. -/
theorem type_triple_cases' {x o : Term} (h : (⟨x, rdfType, o⟩ : Triple) ∈ flatGraph cfg0 ds) :
    (∃ d ∈ ds, x = node d.id ∧ o = docT) ∨ (∃ s ∈ docSecs ds, x = node s.id ∧ o = secT) ∨
    (∃ p ∈ docProps ds, x = node p.id ∧ o = propT) ∨ (∃ p ∈ docProps ds, x = .seqn p.id ∧ o = rdfSeq) ∨
    (∃ v ∈ repoVals ds, x = .tnode v.lex ∧ o = .iri v.lex) := by
  rcases mem_flat_cases h with ⟨d, hd, h⟩ | ⟨d, hd, kp, hkp, h⟩ | ⟨s, hs, h⟩ | ⟨s, hs, kp, hkp, h⟩ |
    ⟨p, hp, h⟩ | ⟨p, hp, kp, hkp, h⟩
  · simp only [docHead, mem_cons, mem_nil_iff, or_false, Triple.mk.injEq] at h
    rcases h with ⟨rfl, _, rfl⟩ | ⟨_, e, _⟩ | ⟨_, e, _⟩
    · exact .inl ⟨d, hd, rfl, rfl⟩
    · exact absurd e rdfType_ne_hasDocument
    · exact absurd e.symm (by decide)
  · rcases ownDocStep_cases' h with c | ⟨v, hl, _, e | e⟩
    · exact absurd c.2.1.symm (ok.base.doc.notMeta kp hkp).1
    · simp only [Triple.mk.injEq] at e
      exact .inr (.inr (.inr (.inr ⟨v, mem_repoVals_doc hd hl, e.1, e.2.2⟩)))
    · simp only [Triple.mk.injEq] at e
      exact absurd e.2.1 rdfType_ne_hasTerminology
  · simp only [Triple.mk.injEq] at h
    exact .inr (.inl ⟨s, hs, h.1, h.2.2⟩)
  · rcases ownSecStep_cases' h with c | ⟨v, hl, _, e | e⟩
    · exact absurd c.2.1.symm (ok.base.sec.notMeta kp hkp).1
    · simp only [Triple.mk.injEq] at e
      exact .inr (.inr (.inr (.inr ⟨v, mem_repoVals_sec hs hl, e.1, e.2.2⟩)))
    · simp only [Triple.mk.injEq] at e
      exact absurd e.2.1 rdfType_ne_hasTerminology
  · simp only [Triple.mk.injEq] at h
    exact .inr (.inr (.inl ⟨p, hp, h.1, h.2.2⟩))
  · rcases savePropertyKey_cases h with ⟨_, e, _⟩ | ⟨e0, ⟨_, e⟩ | ⟨k, e⟩⟩
    · exact absurd e.symm (ok.base.prop.notMeta kp hkp).1
    · exact .inr (.inr (.inr (.inl ⟨p, hp, e0, e⟩)))
    · exact absurd e.symm (li_ne_rdfType k)

/-- Every `hasSection` triple links a Document or Section node to the node of one of its
    direct child Sections. -/
theorem hasSection_cases' {x y : Term} (h : (⟨x, .iri hsS.toList, y⟩ : Triple) ∈ flatGraph cfg0 ds) :
    (∃ d ∈ ds, x = node d.id ∧ ∃ c ∈ d.secs, y = node c.id) ∨
    (∃ s ∈ docSecs ds, x = node s.id ∧ ∃ c ∈ s.subs, y = node c.id) := by
  have mD := ok.base.doc.notMeta _ ok.docSecs
  rcases mem_flat_cases h with ⟨d, hd, h⟩ | ⟨d, hd, kp, hkp, h⟩ | ⟨s, hs, h⟩ | ⟨s, hs, kp, hkp, h⟩ |
    ⟨p, hp, h⟩ | ⟨p, hp, kp, hkp, h⟩
  · exfalso
    simp only [docHead, mem_cons, mem_nil_iff, or_false, Triple.mk.injEq] at h
    rcases h with ⟨_, e, _⟩ | ⟨_, e, _⟩ | ⟨_, e, _⟩
    · exact mD.1 e
    · exact mD.2.2.1 e
    · exact mD.2.2.2 e
  · rcases ownDocStep_cases' h with ⟨e1, e2, c⟩ | ⟨v, _, _, e | e⟩
    · have := entry_eq_of_pred ok.base.doc.keys.predsNodup hkp ok.docSecs (iri_toList_inj e2.symm)
      subst this
      rcases c with ⟨_, c, hc, e3⟩ | ⟨e, _⟩
      · exact .inl ⟨d, hd, e1, c, hc, e3⟩
      · exact absurd rfl e
    · simp only [Triple.mk.injEq] at e
      exact absurd e.2.1 mD.1
    · simp only [Triple.mk.injEq] at e
      exact absurd e.2.1.symm hasTerminology_ne_hs
  · simp only [Triple.mk.injEq] at h
    exact absurd h.2.1 (ok.base.sec.notMeta _ ok.secSecs).1
  · rcases ownSecStep_cases' h with ⟨e1, e2, c⟩ | ⟨v, _, _, e | e⟩
    · have := entry_eq_of_pred ok.base.sec.keys.predsNodup hkp ok.secSecs (iri_toList_inj e2.symm)
      subst this
      rcases c with ⟨_, c, hc, e3⟩ | ⟨e, _⟩ | ⟨e, _⟩
      · exact .inr ⟨s, hs, e1, c, hc, e3⟩
      · exact absurd e (by decide)
      · exact absurd rfl e
    · simp only [Triple.mk.injEq] at e
      exact absurd e.2.1 mD.1
    · simp only [Triple.mk.injEq] at e
      exact absurd e.2.1.symm hasTerminology_ne_hs
  · simp only [Triple.mk.injEq] at h
    exact absurd h.2.1 (ok.base.sec.notMeta _ ok.secSecs).1
  · exfalso
    rcases savePropertyKey_cases h with ⟨_, e, _⟩ | ⟨_, ⟨e, _⟩ | ⟨k, e⟩⟩
    · have := iri_toList_inj e
      exact ok.hsNotProp (this ▸ mem_map_of_mem (f := (·.2)) hkp)
    · exact (ok.base.sec.notMeta _ ok.secSecs).1 e
    · rw [← ok.hsIri] at e; exact li_ne_odml k _ e.symm

/-- Every `hasProperty` triple links a Section node to the node of one of its Properties. -/
theorem hasProperty_cases' {x y : Term} (h : (⟨x, .iri hpS.toList, y⟩ : Triple) ∈ flatGraph cfg0 ds) :
    ∃ s ∈ docSecs ds, x = node s.id ∧ ∃ c ∈ s.props, y = node c.id := by
  have mS := ok.base.sec.notMeta _ ok.secProps
  rcases mem_flat_cases h with ⟨d, hd, h⟩ | ⟨d, hd, kp, hkp, h⟩ | ⟨s, hs, h⟩ | ⟨s, hs, kp, hkp, h⟩ |
    ⟨p, hp, h⟩ | ⟨p, hp, kp, hkp, h⟩
  · exfalso
    simp only [docHead, mem_cons, mem_nil_iff, or_false, Triple.mk.injEq] at h
    rcases h with ⟨_, e, _⟩ | ⟨_, e, _⟩ | ⟨_, e, _⟩
    · exact mS.1 e
    · exact mS.2.2.1 e
    · exact mS.2.2.2 e
  · exfalso
    rcases ownDocStep_cases' h with ⟨_, e2, _⟩ | ⟨v, _, _, e | e⟩
    · have := iri_toList_inj e2
      exact ok.hpNotDoc (this ▸ mem_map_of_mem (f := (·.2)) hkp)
    · simp only [Triple.mk.injEq] at e
      exact mS.1 e.2.1
    · simp only [Triple.mk.injEq] at e
      exact hasTerminology_ne_hp e.2.1.symm
  · simp only [Triple.mk.injEq] at h
    exact absurd h.2.1 mS.1
  · rcases ownSecStep_cases' h with ⟨e1, e2, c⟩ | ⟨v, _, _, e | e⟩
    · have := entry_eq_of_pred ok.base.sec.keys.predsNodup hkp ok.secProps (iri_toList_inj e2.symm)
      subst this
      rcases c with ⟨e, _⟩ | ⟨_, c, hc, e3⟩ | ⟨_, e, _⟩
      · exact absurd e (by decide)
      · exact ⟨s, hs, e1, c, hc, e3⟩
      · exact absurd rfl e
    · simp only [Triple.mk.injEq] at e
      exact absurd e.2.1 mS.1
    · simp only [Triple.mk.injEq] at e
      exact absurd e.2.1.symm hasTerminology_ne_hp
  · simp only [Triple.mk.injEq] at h
    exact absurd h.2.1 mS.1
  · exfalso
    rcases savePropertyKey_cases h with ⟨_, e, _⟩ | ⟨_, ⟨e, _⟩ | ⟨k, e⟩⟩
    · have := iri_toList_inj e
      exact ok.hpNotProp (this ▸ mem_map_of_mem (f := (·.2)) hkp)
    · exact mS.1 e
    · rw [← ok.hpIri] at e; exact li_ne_odml k _ e.symm

end cases'


/-! ## 4. Attribute triples (the lemmas of `Proofs/Query.lean` do not depend on `NoRepo`) -/

section attrs'
variable {ds : List DocT} (r : RdfRepr ds) {g : Graph} (F : Facts g ds)
include r F

theorem doc_attrs_iff' {d : DocT} (hd : d ∈ ds) (l : List Pair) (hs : ∀ y ∈ l, safePair .doc y) :
    AttrTriples g .doc (node d.id) l ↔ carriesAll d.attrs l = true := by
  unfold AttrTriples carriesAll
  simp only [all_eq_true]
  refine forall_congr' (fun y => forall_congr' (fun hy => ?_))
  obtain ⟨f1, f2, f3, f4, f5, f6, f7, f8, f9⟩ := safeAttrs_facts .doc _ (hs y hy).2
  have hu : String.ofList y.attr ≠ "uncertainty" := by
    rcases f4 with h | h
    · cases h
    · exact h
  cases hl : (tableOf .doc).lookup (String.ofList y.attr) with
  | none => simp [hl] at f1
  | some pred =>
    have hkp := mem_of_lookup_str hl
    have hperm := F.docAttr d hd _ hkp f6 f7
    simp only [Option.some.injEq, forall_eq']
    simp only [← mem_objects, hperm.mem_iff]
    unfold carries
    exact obj_mem_attrObjs (chk := PyVal.truthy) (conv := docConv) (truthy_of_repr hu)
      (fun h1 _ s => by
        have h1' : (String.ofList y.attr == "date") = false := by simpa using h1
        have h5' : (String.ofList y.attr == "repository") = false := by simpa using f5
        simp [docConv, h1', h5', PyVal.toLit])
      (fun pv => by
        have h5' : (String.ofList y.attr == "repository") = false := by simpa using f5
        simp only [docConv, h5', Bool.false_eq_true, if_false]
        split
        · exact strOf_toDateLit pv
        · exact strOf_toLit pv)
      (fun pv h => (r.docs d hd _ pv h).2 f2) (shape_of_safe (hs y hy))

theorem sec_attrs_iff' {s : SecT} (hsm : s ∈ docSecs ds) (l : List Pair) (hs : ∀ y ∈ l, safePair .sec y) :
    AttrTriples g .sec (node s.id) l ↔ carriesAll s.attrs l = true := by
  unfold AttrTriples carriesAll
  simp only [all_eq_true]
  refine forall_congr' (fun y => forall_congr' (fun hy => ?_))
  obtain ⟨f1, f2, f3, f4, f5, f6, f7, f8, f9⟩ := safeAttrs_facts .sec _ (hs y hy).2
  have hu : String.ofList y.attr ≠ "uncertainty" := by
    rcases f4 with h | h
    · cases h
    · exact h
  cases hl : (tableOf .sec).lookup (String.ofList y.attr) with
  | none => simp [hl] at f1
  | some pred =>
    have hkp := mem_of_lookup_str hl
    have hperm := F.secAttr s hsm _ hkp f6 f7 f8
    simp only [Option.some.injEq, forall_eq']
    simp only [← mem_objects, hperm.mem_iff]
    unfold carries
    have h5' : (String.ofList y.attr == "repository") = false := by simpa using f5
    exact obj_mem_attrObjs (chk := PyVal.truthy) (conv := secConv) (truthy_of_repr hu)
      (fun _ _ s => by simp [secConv, h5', PyVal.toLit])
      (fun pv => by
        simp only [secConv, h5', Bool.false_eq_true, if_false]
        exact strOf_toLit pv)
      (fun pv h => ((r.secs s hsm).1 _ pv h).2 f2) (shape_of_safe (hs y hy))

theorem prop_attrs_iff' {p : PropT} (hpm : p ∈ docProps ds) (l : List Pair) (hs : ∀ y ∈ l, safePair .prop y) :
    AttrTriples g .prop (node p.id) l ↔ propCarriesAll p l = true := by
  unfold AttrTriples propCarriesAll
  simp only [all_eq_true]
  refine forall_congr' (fun y => forall_congr' (fun hy => ?_))
  obtain ⟨f1, f2, f3, f4, f5, f6, f7, f8, f9⟩ := safeAttrs_facts .prop _ (hs y hy).2
  have hv : (y.attr == "value".toList) = false := attr_ne_value f9
  cases hl : (tableOf .prop).lookup (String.ofList y.attr) with
  | none => simp [hl] at f1
  | some pred =>
    have hkp := mem_of_lookup_str hl
    have hperm := F.propAttr p hpm _ hkp f6 f9
    simp only [Option.some.injEq, forall_eq', hv, Bool.false_eq_true, if_false]
    simp only [← mem_objects, hperm.mem_iff]
    unfold carries
    exact obj_mem_attrObjs (chk := PyVal.isSet) (conv := propConv) (fun pv h => isSet_of_repr pv h)
      (fun _ _ s => by simp [propConv, PyVal.toLit])
      (fun pv => by simp only [propConv]; exact strOf_toLit pv)
      (fun pv h => ((r.props p hpm).1 _ pv h).2 f2) (shape_of_safe (hs y hy))

end attrs'

/-! ## 5. Types, links, values and terminology nodes of the export, as iff statements -/

section parts'
variable (ok2 : QTablesOK2) {ds : List DocT} (wf : WFDocs ds) (ro : RepoOK ds)
  {g : Graph} (hg : ∀ t, t ∈ g ↔ t ∈ flatGraph cfg0 ds) (F : Facts g ds)
include ok2 wf ro hg F

theorem doc_type_iff' (x : Term) : (⟨x, rdfType, docT⟩ : Triple) ∈ g ↔ ∃ d ∈ ds, x = node d.id := by
  have ok := ok2.base
  rw [hg]
  constructor
  · intro h
    rcases type_triple_cases' ok h with ⟨d, hd, e, _⟩ | ⟨_, _, _, e⟩ | ⟨_, _, _, e⟩ | ⟨_, _, _, e⟩ |
      ⟨v, hv, _, e⟩
    · exact ⟨d, hd, e⟩
    · exact absurd e ok.typesDistinct.1
    · exact absurd e ok.typesDistinct.2.1
    · exact absurd e ok.typesDistinct.2.2.2.1
    · exact absurd e.symm (ro v hv).2.1
  · rintro ⟨d, hd, rfl⟩
    exact mem_flat_of_doc hd (by simp [ownDoc, docHead])

theorem sec_type_iff' (x : Term) : (⟨x, rdfType, secT⟩ : Triple) ∈ g ↔ ∃ s ∈ docSecs ds, x = node s.id := by
  have ok := ok2.base
  rw [hg]
  constructor
  · intro h
    rcases type_triple_cases' ok h with ⟨_, _, _, e⟩ | ⟨s, hs, e, _⟩ | ⟨_, _, _, e⟩ | ⟨_, _, _, e⟩ |
      ⟨v, hv, _, e⟩
    · exact absurd e.symm ok.typesDistinct.1
    · exact ⟨s, hs, e⟩
    · exact absurd e ok.typesDistinct.2.2.1
    · exact absurd e ok.typesDistinct.2.2.2.2.1
    · exact absurd e.symm (ro v hv).2.2.1
  · rintro ⟨s, hs, rfl⟩
    obtain ⟨id, a, ps, ss⟩ := s
    exact mem_flat_of_sec hs (by simp [ownSec, sectionTypeTriples, cfg0, SecT.id])

theorem prop_type_iff' (x : Term) : (⟨x, rdfType, propT⟩ : Triple) ∈ g ↔ ∃ p ∈ docProps ds, x = node p.id := by
  have ok := ok2.base
  rw [hg]
  constructor
  · intro h
    rcases type_triple_cases' ok h with ⟨_, _, _, e⟩ | ⟨_, _, _, e⟩ | ⟨p, hp, e, _⟩ | ⟨_, _, _, e⟩ |
      ⟨v, hv, _, e⟩
    · exact absurd e.symm ok.typesDistinct.2.1
    · exact absurd e.symm ok.typesDistinct.2.2.1
    · exact ⟨p, hp, e⟩
    · exact absurd e ok.typesDistinct.2.2.2.2.2
    · exact absurd e.symm (ro v hv).2.2.2
  · rintro ⟨p, hp, rfl⟩
    exact mem_flat_of_prop hp (by simp [saveProperty])

theorem hasSection_iff' (x : Term) {s : SecT} (hs : s ∈ docSecs ds) :
    (⟨x, .iri hsS.toList, node s.id⟩ : Triple) ∈ g ↔ (x, s) ∈ allSecsWithParent ds := by
  have ok := ok2.base
  rw [hg, mem_allSecsWithParent]
  constructor
  · intro h
    rcases hasSection_cases' ok h with ⟨d, hd, e, c, hc, e2⟩ | ⟨s0, hs0, e, c, hc, e2⟩
    · have hcm : c ∈ docSecs ds := mem_docSecs_of_doc hd (mem_allSecsL_of_mem _ _ hc)
      have := eq_of_nodup_map (wf_secs_nodup wf) hs hcm (node_inj e2)
      subst this
      exact .inl ⟨d, hd, e, hc⟩
    · have hcm : c ∈ docSecs ds := allSecsL_trans _ s0 hs0 _ hc
      have := eq_of_nodup_map (wf_secs_nodup wf) hs hcm (node_inj e2)
      subst this
      exact .inr ⟨s0, hs0, e, hc⟩
  · rintro (⟨d, hd, e, hc⟩ | ⟨s0, hs0, e, hc⟩)
    · simp only at e hc
      subst e
      refine mem_flat_of_doc hd ?_
      unfold ownDoc
      refine mem_append_right _ (mem_flatMap.mpr ⟨_, ok.docSecs, ?_⟩)
      simp only [ownDocStep, show (("sections" : String) == "id") = false by decide,
        Bool.false_eq_true, if_false, beq_self_eq_true, if_true, mem_map, secLink]
      exact ⟨s, hc, rfl⟩
    · simp only at e hc
      subst e
      obtain ⟨id0, a0, ps0, ss0⟩ := s0
      refine mem_flat_of_sec hs0 ?_
      unfold ownSec
      refine mem_append_right _ (mem_flatMap.mpr ⟨_, ok.secSecs, ?_⟩)
      simp only [ownSecStep, show (("sections" : String) == "id") = false by decide,
        Bool.false_eq_true, if_false, beq_self_eq_true, if_true, mem_map, secLink, SecT.id]
      exact ⟨s, hc, rfl⟩

theorem hasProperty_iff' (x : Term) {p : PropT} (hp : p ∈ docProps ds) :
    (⟨x, .iri hpS.toList, node p.id⟩ : Triple) ∈ g ↔ ∃ s ∈ docSecs ds, x = node s.id ∧ p ∈ s.props := by
  have ok := ok2.base
  rw [hg]
  constructor
  · intro h
    obtain ⟨s, hs, e, c, hc, e2⟩ := hasProperty_cases' ok h
    have hcm : c ∈ docProps ds := mem_flatMap.mpr ⟨s, hs, hc⟩
    have := eq_of_nodup_map (wf_props_nodup wf) hp hcm (node_inj e2)
    subst this
    exact ⟨s, hs, e, hc⟩
  · rintro ⟨s, hs, rfl, hc⟩
    obtain ⟨id0, a0, ps0, ss0⟩ := s
    refine mem_flat_of_sec hs ?_
    unfold ownSec
    refine mem_append_right _ (mem_flatMap.mpr ⟨_, ok.secProps, ?_⟩)
    simp only [ownSecStep, show (("properties" : String) == "id") = false by decide,
      show (("properties" : String) == "sections") = false by decide,
      Bool.false_eq_true, if_false, beq_self_eq_true, if_true, mem_map, propLink, SecT.id]
    exact ⟨p, hc, rfl⟩

/-- The members of the value node of a Property are its values. -/
theorem member_iff' {p : PropT} (hp : p ∈ docProps ds) (s : Str) :
    (∃ t ∈ g, t.s = .seqn p.id ∧ isMemberPred t.p = true ∧ strOf t.o = some s) ↔
      ∃ l ∈ p.values, l.lex = s := by
  constructor
  · rintro ⟨t, ht, hs, e2, e3⟩
    rcases mem_flat_cases ((hg t).mp ht) with ⟨d, hd, h⟩ | ⟨d, hd, kp, hkp, h⟩ | ⟨s0, hs0, h⟩ |
      ⟨s0, hs0, kp, hkp, h⟩ | ⟨p0, hp0, h⟩ | ⟨p0, hp0, kp, hkp, h⟩
    · exfalso
      simp only [docHead, mem_cons, mem_nil_iff, or_false] at h
      rcases h with rfl | rfl | rfl <;> simp [node, hub] at hs
    · exfalso
      rcases ownDocStep_cases' h with c | ⟨v, _, _, e | e⟩
      · rw [c.1] at hs; simp [node] at hs
      · rw [e] at hs; simp at hs
      · rw [e] at hs; simp [hub] at hs
    · exfalso; subst h; simp [node] at hs
    · exfalso
      rcases ownSecStep_cases' h with c | ⟨v, _, _, e | e⟩
      · rw [c.1] at hs; simp [node] at hs
      · rw [e] at hs; simp at hs
      · rw [e] at hs; simp [hub] at hs
    · exfalso; subst h; simp [node] at hs
    · obtain ⟨v, hvm, e⟩ := savePropertyKey_member h hs e2
      have hid : p0.id = p.id := by
        rcases savePropertyKey_cases h with ⟨c, _⟩ | ⟨c, _⟩
        · rw [c] at hs; simp [node] at hs
        · rw [c] at hs; simpa using hs
      have := eq_of_nodup_map (wf_props_nodup wf) hp0 hp hid
      subst this
      refine ⟨v, hvm, ?_⟩
      rw [e] at e3
      simpa [Lit.toTerm, strOf] using e3
  · rintro ⟨l, hl, rfl⟩
    obtain ⟨j, hj⟩ := seqItems_of_mem (seq := .seqn p.id) (k := 1) hl
    have hne : p.values.isEmpty = false := by
      cases hvs : p.values with
      | nil => rw [hvs] at hl; simp at hl
      | cons a r => rfl
    refine ⟨⟨.seqn p.id, li j, l.toTerm⟩, ?_, rfl, isMemberPred_li j, by simp [Lit.toTerm, strOf]⟩
    refine (hg _).mpr (mem_flat_of_prop hp ?_)
    unfold saveProperty
    refine mem_cons_of_mem _ (mem_flatMap.mpr ⟨_, ok2.propValue, ?_⟩)
    simp only [savePropertyKey, beq_self_eq_true, if_true, hne, Bool.false_eq_true, if_false, saveValues]
    exact mem_cons_of_mem _ (mem_cons_of_mem _ hj)

/-- The types of a terminology node: its URL (objects with the same URL share the node). -/
theorem tnode_type_iff (u : Str) (o : Term) (h : (⟨.tnode u, rdfType, o⟩ : Triple) ∈ g) : o = .iri u := by
  rcases type_triple_cases' ok2.base ((hg _).mp h) with ⟨_, _, e, _⟩ | ⟨_, _, e, _⟩ | ⟨_, _, e, _⟩ |
    ⟨_, _, e, _⟩ | ⟨v, _, e, e2⟩
  · simp [node] at e
  · simp [node] at e
  · simp [node] at e
  · simp at e
  · simp only [Term.tnode.injEq] at e
    rw [e2, e]

/-- The repository FILTER at a Document node: the Document's own repository, as text, is `s`. -/
theorem docRepo_iff {d : DocT} (hd : d ∈ ds) (s : Str) :
    (∃ m u, (⟨node d.id, .iri htS.toList, m⟩ : Triple) ∈ g ∧ (⟨m, rdfType, u⟩ : Triple) ∈ g ∧
        strOf u = some s) ↔ carriesKey d.attrs "repository" s = true := by
  simp only [repo_objs_doc ok2 F hd, attrObjs, carriesKey]
  cases hl : d.attrs.lookup "repository" with
  | none => simp
  | some v =>
    have ht := (ro v (mem_repoVals_doc hd hl)).1
    simp only [ht, if_true, mem_cons, mem_nil_iff, or_false, beq_iff_eq]
    have hc : docConv "repository" v = .tnode v.lex := rfl
    rw [hc]
    constructor
    · rintro ⟨m, u, rfl, hu, e⟩
      have := tnode_type_iff ok2 wf ro hg F _ _ hu
      rw [this] at e
      simpa [strOf] using e
    · rintro rfl
      refine ⟨_, .iri v.lex, rfl, ?_, rfl⟩
      refine (hg _).mpr (mem_flat_of_doc hd ?_)
      unfold ownDoc
      refine mem_append_right _ (mem_flatMap.mpr ⟨_, ok2.docRepo, ?_⟩)
      simp only [ownDocStep, show (("repository" : String) == "id") = false by decide,
        show (("repository" : String) == "sections") = false by decide,
        Bool.false_eq_true, if_false, saveDocAttr, hl, ht, Bool.not_true, beq_self_eq_true, if_true,
        saveRepositoryNode, mem_cons, true_or]

/-- The repository FILTER at a Section node: the Section's own repository, as text, is `s`. -/
theorem secRepo_iff {c : SecT} (hc : c ∈ docSecs ds) (s : Str) :
    (∃ m u, (⟨node c.id, .iri htS.toList, m⟩ : Triple) ∈ g ∧ (⟨m, rdfType, u⟩ : Triple) ∈ g ∧
        strOf u = some s) ↔ carriesKey c.attrs "repository" s = true := by
  simp only [repo_objs_sec ok2 F hc, attrObjs, carriesKey]
  cases hl : c.attrs.lookup "repository" with
  | none => simp
  | some v =>
    have ht := (ro v (mem_repoVals_sec hc hl)).1
    simp only [ht, if_true, mem_cons, mem_nil_iff, or_false, beq_iff_eq]
    have hcv : secConv "repository" v = .tnode v.lex := rfl
    rw [hcv]
    constructor
    · rintro ⟨m, u, rfl, hu, e⟩
      have := tnode_type_iff ok2 wf ro hg F _ _ hu
      rw [this] at e
      simpa [strOf] using e
    · rintro rfl
      refine ⟨_, .iri v.lex, rfl, ?_, rfl⟩
      obtain ⟨id0, a0, ps0, ss0⟩ := c
      simp only [SecT.attrs] at hl
      refine (hg _).mpr (mem_flat_of_sec hc ?_)
      unfold ownSec
      refine mem_append_right _ (mem_flatMap.mpr ⟨_, ok2.secRepo, ?_⟩)
      simp only [ownSecStep, show (("repository" : String) == "id") = false by decide,
        show (("repository" : String) == "sections") = false by decide,
        show (("repository" : String) == "properties") = false by decide,
        Bool.false_eq_true, if_false, saveSecAttr, hl, ht, Bool.not_true, beq_self_eq_true, if_true,
        saveRepositoryNode, mem_cons, true_or]

end parts'

/-- `GFacts` holds of the export (no sub-classing) of every well-formed, representable document
    set whose repositories are `RepoOK`. -/
theorem gfacts_repo (ok2 : QTablesOK2) {ds : List DocT} (wf : WFDocs ds) (r : RdfRepr ds)
    (ro : RepoOK ds) : GFacts (exportRdf cfg0 ds) ds := by
  have ok := ok2.base
  have hperm := export_flat cfg0 ok.base.secOK ok.base.docOK ds
  have hg : ∀ t, t ∈ exportRdf cfg0 ds ↔ t ∈ flatGraph cfg0 ds := fun t => hperm.mem_iff
  have F := facts_export cfg0 wf ok.base (Perm.refl (exportRdf cfg0 ds))
  exact {
    docType := doc_type_iff' ok2 wf ro hg F
    secType := sec_type_iff' ok2 wf ro hg F
    propType := prop_type_iff' ok2 wf ro hg F
    hasSec := fun x s hs => hasSection_iff' ok2 wf ro hg F x hs
    hasProp := fun x p hp => hasProperty_iff' ok2 wf ro hg F x hp
    docAttrs := fun d hd l hs => doc_attrs_iff' r F hd l hs
    secAttrs := fun s hs l hl => sec_attrs_iff' r F hs l hl
    propAttrs := fun p hp l hl => prop_attrs_iff' r F hp l hl
    hasValue := fun p hp y => hasValue_of_facts ok2 F hp y
    member := fun p hp s => member_iff' ok2 wf ro hg F hp s
    docRepo := fun d hd s => docRepo_iff ok2 wf ro hg F hd s
    secRepo := fun c hc s => secRepo_iff ok2 wf ro hg F hc s }

/-- **Sound and complete, repositories included**: on the export of a well-formed, representable
    document set with `RepoOK` repositories, for a query over any searchable attributes. -/
theorem sound_complete_full (ok2 : QTablesOK2) (ds : List DocT) (q : QParams) (wf : WFDocs ds)
    (r : RdfRepr ds) (ro : RepoOK ds) (full : QueryFull q) (row : Row) :
    ∃ rows, queryRows (exportRdf cfg0 ds) q = .ok rows ∧ (row ∈ rows ↔ row ∈ directEval' ds q) :=
  sound_complete_gen ok2 (gfacts_repo ok2 wf r ro) q full row


/-! ## 6. The reported blocks of a search -/

theorem isEmpty_congr {α} {a b : List α} (h : ∀ x, x ∈ a ↔ x ∈ b) : a.isEmpty = b.isEmpty := by
  cases a with
  | nil =>
    cases b with
    | nil => rfl
    | cons y r => exact absurd ((h y).mpr (by simp)) (by simp)
  | cons x r =>
    cases b with
    | nil => exact absurd ((h x).mp (by simp)) (by simp)
    | cons y r' => rfl

/-- If every executed combination is exact, the reported blocks are exactly the combinations with
    a hit on the documents, in execution order, each with exactly the rows of its hits. -/
theorem findRows_go_exact (g : Graph) (ds : List DocT) : ∀ (L : List (List Pair)),
    (∀ c ∈ L, ∀ row, ∃ rows, queryRows g (groupPairs c) = .ok rows ∧
      (row ∈ rows ↔ row ∈ directEval' ds (groupPairs c))) →
    ∃ out, findRows.go g L = .ok out ∧
      out.map (·.1) = (L.filter fun c => !(directEval' ds (groupPairs c)).isEmpty).map groupPairs ∧
      ∀ blk ∈ out, ∀ row, row ∈ blk.2 ↔ row ∈ directEval' ds blk.1
  | [], _ => ⟨[], by simp [findRows.go], by simp, by simp⟩
  | c :: r, h => by
    obtain ⟨out, ho, hm, hb⟩ := findRows_go_exact g ds r (fun c' hc' => h c' (by simp [hc']))
    obtain ⟨rows, hq, _⟩ := h c (by simp) (none, none, none)
    have hrows : ∀ row, row ∈ rows ↔ row ∈ directEval' ds (groupPairs c) := by
      intro row
      obtain ⟨rows', hq', hi⟩ := h c (by simp) row
      rw [hq] at hq'; cases hq'
      exact hi
    have he := isEmpty_congr hrows
    refine ⟨if rows.isEmpty then out else (groupPairs c, rows) :: out, by simp [findRows.go, hq, ho], ?_, ?_⟩
    · rw [filter_cons]
      by_cases hemp : rows.isEmpty = true
      · have : (directEval' ds (groupPairs c)).isEmpty = true := by rw [← he]; exact hemp
        simp only [hemp, if_true, this, Bool.not_true, Bool.false_eq_true, if_false]
        exact hm
      · have hemp' : rows.isEmpty = false := by simpa using hemp
        have : (directEval' ds (groupPairs c)).isEmpty = false := by rw [← he]; exact hemp'
        simp only [hemp', Bool.false_eq_true, if_false, this, Bool.not_false, if_true, map_cons, hm]
    · intro blk hblk row
      by_cases hemp : rows.isEmpty = true
      · simp only [hemp, if_true] at hblk
        exact hb blk hblk row
      · have hemp' : rows.isEmpty = false := by simpa using hemp
        simp only [hemp', Bool.false_eq_true, if_false, mem_cons] at hblk
        rcases hblk with rfl | hblk
        · exact hrows row
        · exact hb blk hblk row

end Query
