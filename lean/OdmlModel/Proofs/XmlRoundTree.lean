/-
Whole-document XML round trip, part 4: Sections, the Section tree, the Document.

* `readKids_props`, `readKids_childSec`  child elements are parsed as objects of their own;
* `appendSecs_ok`, `appendProps_ok`      `SmartList.append` never refuses a child when the names
  are distinct after trimming (`distinctTrimmed` of `xmlRepr`);
* `sec_step`, `createSec_of`, `sec_core` one Section element given its sub-Sections;
* `sec_round` / `secs_round`             mutual structural induction over the Section tree;
* `doc_step`, `createDoc_of`, `doc_round` the Document: `readXml m lib (writeTree d) = (trimDoc d, 0)`.

The only facts taken from the regenerated format tables are membership / lookup facts about
individual keys and `Nodup` of the key lists, all discharged by `decide`; the folds themselves are
generic (`readKids_keys`), so a reordered table does not affect the proofs.
-/
import OdmlModel.Proofs.XmlRoundProp
set_option linter.unusedSimpArgs false

namespace Xml
open Py Py.Csv

/-! ### child elements -/

/-- table facts about a key whose elements are parsed as objects of their own -/
def childOK (κ : Kind) (t : String) : Bool :=
  (fmtOf κ).keys.contains (lowerS t) && readerTags.contains (lowerS t) &&
  (fmtOf κ).mapKeys.contains (lowerS t)

/-- `extra_args` after `n` children of one kind -/
def extraN : Nat → String → List String → List String
  | 0, _, e => e
  | n + 1, a, e => extraN n a (a :: e)

theorem readKids_childProp (m : Mode) (lib : TokLib) (κ : Kind) (tag : String) (p : PropT)
    (rest : List X) (st : PT) (hκ : childOK κ Gen.Format.propertyName = true)
    (hwf : propWf lib p = true) (hrepr : propRepr p = true) (hlow : propLower p = true) :
    readKids m lib κ tag (writeProp p :: rest) st =
      readKids m lib κ tag rest
        { st with extra := (fmtOf κ).pyName (lowerS Gen.Format.propertyName) :: st.extra,
                  props := st.props ++ [trimProp p] } := by
  simp only [childOK, Bool.and_eq_true] at hκ
  have hk : kindOfTag (lowerS Gen.Format.propertyName) = .prop := by decide
  have := prop_roundtrip m lib (lowerS Gen.Format.propertyName) p st.warns hwf hrepr hlow
  rw [writeProp] at this ⊢
  rw [readKids.eq_2]
  simp only [hκ.1.1, hκ.1.2, hκ.2, Bool.and_self, if_true, hk, this]

theorem readKids_props (m : Mode) (lib : TokLib) (κ : Kind) (tag : String)
    (hκ : childOK κ Gen.Format.propertyName = true) (rest : List X) :
    ∀ (ps : List PropT) (st : PT),
      (∀ p ∈ ps, propWf lib p = true ∧ propRepr p = true ∧ propLower p = true) →
      readKids m lib κ tag (ps.map writeProp ++ rest) st =
        readKids m lib κ tag rest
          { st with extra := extraN ps.length ((fmtOf κ).pyName (lowerS Gen.Format.propertyName)) st.extra,
                    props := st.props ++ ps.map trimProp } := by
  intro ps
  induction ps with
  | nil => intro st _; simp [extraN]
  | cons p ps ih =>
    intro st h
    obtain ⟨h1, h2, h3⟩ := h p (by simp)
    simp only [List.map_cons, List.cons_append]
    rw [readKids_childProp m lib κ tag p _ st hκ h1 h2 h3, ih _ (fun q hq => h q (by simp [hq]))]
    simp [extraN]

theorem writeSec_elem (s : SecT) : ∃ kids, writeSec s = .elem Gen.Format.sectionName [] none kids := by
  cases s; exact ⟨_, by rw [writeSec]⟩

theorem readKids_childSec (m : Mode) (lib : TokLib) (κ : Kind) (tag : String) (s : SecT)
    (rest : List X) (st : PT) (hκ : childOK κ Gen.Format.sectionName = true)
    (hs : ∀ w, readTag m lib .sec (lowerS Gen.Format.sectionName) (writeSec s) w =
      .ok (.sec (trimSec s), w)) :
    readKids m lib κ tag (writeSec s :: rest) st =
      readKids m lib κ tag rest
        { st with extra := (fmtOf κ).pyName (lowerS Gen.Format.sectionName) :: st.extra,
                  secs := st.secs ++ [trimSec s] } := by
  simp only [childOK, Bool.and_eq_true] at hκ
  have hk : kindOfTag (lowerS Gen.Format.sectionName) = .sec := by decide
  have := hs st.warns
  obtain ⟨kids, hk'⟩ := writeSec_elem s
  rw [hk'] at this ⊢
  rw [readKids.eq_2]
  simp only [hκ.1.1, hκ.1.2, hκ.2, Bool.and_self, if_true, hk, this]

/-! ### `SmartList.append` of children with distinct names -/

theorem appendSecs_ok (m : Mode) : ∀ (cs have_ : List SecT) (w : Nat),
    ((have_ ++ cs).map SecT.effName).Nodup → appendSecs m have_ cs w = .ok (have_ ++ cs, w) := by
  intro cs
  induction cs with
  | nil => intro h w _; simp [appendSecs]
  | cons c cs ih =>
    intro h w hn
    have hnot : (h.map SecT.effName).contains c.effName = false := by
      simp only [List.map_append, List.map_cons] at hn
      have := (List.nodup_append.mp hn).2.2
      simp only [List.contains_eq_mem, decide_eq_false_iff_not]
      intro hm
      exact this _ hm _ (by simp) rfl
    have := ih (h ++ [c]) w (by simpa using hn)
    rw [appendSecs]
    simp only [hnot, Bool.and_false, Bool.false_eq_true, if_false, this, List.append_assoc, List.singleton_append]

theorem appendProps_ok (m : Mode) : ∀ (cs have_ : List PropT) (w : Nat),
    ((have_ ++ cs).map PropT.effName).Nodup → appendProps m have_ cs w = .ok (have_ ++ cs, w) := by
  intro cs
  induction cs with
  | nil => intro h w _; simp [appendProps]
  | cons c cs ih =>
    intro h w hn
    have hnot : (h.map PropT.effName).contains c.effName = false := by
      simp only [List.map_append, List.map_cons] at hn
      have := (List.nodup_append.mp hn).2.2
      simp only [List.contains_eq_mem, decide_eq_false_iff_not]
      intro hm
      exact this _ hm _ (by simp) rfl
    have := ih (h ++ [c]) w (by simpa using hn)
    rw [appendProps]
    simp only [hnot, Bool.and_false, Bool.false_eq_true, if_false, this, List.append_assoc, List.singleton_append]

theorem effNames_trimSecs : ∀ (ss : List SecT) (lib : TokLib), secsWf lib ss = true →
    (trimSecs ss).map SecT.effName = (secNames ss).map (Option.map strip) := by
  intro ss lib
  induction ss with
  | nil => intro _; simp [trimSecs, secNames]
  | cons s ss ih =>
    intro h
    obtain ⟨id, name, type, defn, ref, link, repo, incl, secs, props, sc, pc⟩ := s
    simp only [secsWf, secWf, Bool.and_eq_true] at h
    have hname : name.isSome = true := h.1.1.1.1.1.1.2
    cases name with
    | none => simp at hname
    | some n =>
      simp [trimSecs, trimSec, secNames, SecT.effName, effName, SecT.name, SecT.id, ih h.2]

theorem effNames_trimProps (lib : TokLib) : ∀ (ps : List PropT), (∀ p ∈ ps, propWf lib p = true) →
    (ps.map trimProp).map PropT.effName = (ps.map (·.name)).map (Option.map strip) := by
  intro ps
  induction ps with
  | nil => intro _; rfl
  | cons p ps ih =>
    intro h
    have hp := h p (by simp)
    simp only [propWf, Bool.and_eq_true] at hp
    have hname : p.name.isSome = true := hp.1.1.2
    cases hn : p.name with
    | none => rw [hn] at hname; simp at hname
    | some n =>
      simp [trimProp, PropT.effName, effName, hn, ih (fun q hq => h q (by simp [hq]))]

/-! ### One Section element -/

def secArg (id name type defn ref link repo incl : Option Str) (sc pc : Card.Card) (k : String) :
    Option ArgV :=
  match k with
  | "id" => some (textArg (shown id))
  | "type" => type.map textArg
  | "name" => some (textArg (shown (name <|> id)))
  | "definition" => defn.map textArg
  | "reference" => ref.map textArg
  | "link" => link.map textArg
  | "repository" => repo.map textArg
  | "include" => incl.map textArg
  | "sec_cardinality" => sc.map cardArg
  | "prop_cardinality" => pc.map cardArg
  | _ => none

def kidsExtra (κ : Kind) (nsecs nprops : Nat) (k : String) (e : List String) : List String :=
  match k with
  | "section" => extraN nsecs ((fmtOf κ).pyName (lowerS Gen.Format.sectionName)) e
  | "property" => extraN nprops ((fmtOf κ).pyName (lowerS Gen.Format.propertyName)) e
  | _ => e

def kidsSecs (secs : List SecT) (k : String) : List SecT :=
  match k with
  | "section" => trimSecs secs
  | _ => []

def kidsProps (props : List PropT) (k : String) : List PropT :=
  match k with
  | "property" => props.map trimProp
  | _ => []

def secSpec (id name type defn ref link repo incl : Option Str) (secs : List SecT)
    (props : List PropT) (sc pc : Card.Card) : KeySpec :=
  { arg := secArg id name type defn ref link repo incl sc pc,
    extra := kidsExtra .sec secs.length props.length,
    secs := kidsSecs secs, props := kidsProps props }

/-- what the section loop does with the sub-Sections (the induction hypothesis of the tree) -/
def SecsRead (m : Mode) (lib : TokLib) (κ : Kind) (secs : List SecT) : Prop :=
  ∀ (tag : String) (rest : List X) (st : PT),
    readKids m lib κ tag (writeSecs secs ++ rest) st =
      readKids m lib κ tag rest
        { st with extra := extraN secs.length ((fmtOf κ).pyName (lowerS Gen.Format.sectionName)) st.extra,
                  secs := st.secs ++ trimSecs secs }

theorem sec_step (m : Mode) (lib : TokLib) (tag : String)
    (id name type defn ref link repo incl : Option Str) (secs : List SecT) (props : List PropT)
    (sc pc : Card.Card) (hsecs : SecsRead m lib .sec secs)
    (hprops : ∀ p ∈ props, propWf lib p = true ∧ propRepr p = true ∧ propLower p = true)
    (k : String) (rest : List X) (st : PT)
    (hn : st.args.lookup ((fmtOf .sec).pyName k) = none) :
    readKids m lib .sec tag
        (secKey id name type defn ref link repo incl (writeSecs secs) (props.map writeProp) sc pc k ++ rest) st =
      readKids m lib .sec tag rest
        ((secSpec id name type defn ref link repo incl secs props sc pc).apply (fmtOf .sec) st k) := by
  unfold secKey
  split
  · rw [apply_leafOnly _ _ _ _ rfl rfl rfl]; exact step_text m lib .sec tag "id" (by decide) _ rest st hn
  · rw [apply_leafOnly _ _ _ _ rfl rfl rfl]; exact step_optText m lib .sec tag "type" (by decide) _ rest st hn
  · rw [apply_leafOnly _ _ _ _ rfl rfl rfl]; exact step_text m lib .sec tag "name" (by decide) _ rest st hn
  · rw [apply_leafOnly _ _ _ _ rfl rfl rfl]; exact step_optText m lib .sec tag "definition" (by decide) _ rest st hn
  · rw [apply_leafOnly _ _ _ _ rfl rfl rfl]; exact step_optText m lib .sec tag "reference" (by decide) _ rest st hn
  · rw [apply_leafOnly _ _ _ _ rfl rfl rfl]; exact step_optText m lib .sec tag "link" (by decide) _ rest st hn
  · rw [apply_leafOnly _ _ _ _ rfl rfl rfl]; exact step_optText m lib .sec tag "repository" (by decide) _ rest st hn
  · rw [hsecs tag rest st]
    simp [KeySpec.apply, KeySpec.entry, secSpec, secArg, kidsExtra, kidsSecs, kidsProps]
  · rw [apply_leafOnly _ _ _ _ rfl rfl rfl]; exact step_optText m lib .sec tag "include" (by decide) _ rest st hn
  · rw [readKids_props m lib .sec tag (by decide) rest props st hprops]
    simp [KeySpec.apply, KeySpec.entry, secSpec, secArg, kidsExtra, kidsSecs, kidsProps]
  · rw [apply_leafOnly _ _ _ _ rfl rfl rfl]; exact step_card m lib .sec tag "sec_cardinality" (by decide) _ rest st hn
  · rw [apply_leafOnly _ _ _ _ rfl rfl rfl]; exact step_card m lib .sec tag "prop_cardinality" (by decide) _ rest st hn
  · have h1 : secArg id name type defn ref link repo incl sc pc k = none := by
      unfold secArg
      split <;> first | rfl | (exfalso; simp_all)
    have h2 : kidsExtra .sec secs.length props.length k st.extra = st.extra := by
      unfold kidsExtra
      split <;> first | rfl | (exfalso; simp_all)
    have h3 : kidsSecs secs k = [] := by
      unfold kidsSecs
      split <;> first | rfl | (exfalso; simp_all)
    have h4 : kidsProps props k = [] := by
      unfold kidsProps
      split <;> first | rfl | (exfalso; simp_all)
    simp [KeySpec.apply, KeySpec.entry, secSpec, h1, h2, h3, h4]

theorem flatMap_single {α β} [DecidableEq α] (g : α → List β) (k0 : α) :
    ∀ (L : List α), L.Nodup → k0 ∈ L → (∀ k, k ≠ k0 → g k = []) → L.flatMap g = g k0 := by
  intro L
  induction L with
  | nil => intro _ h; simp at h
  | cons a as ih =>
    intro hn hm hg
    simp only [List.nodup_cons] at hn
    by_cases ha : a = k0
    · subst ha
      have : as.flatMap g = [] := by
        simp only [List.flatMap_eq_nil_iff]
        intro x hx
        exact hg x (by rintro rfl; exact hn.1 hx)
      simp [this]
    · have hm' : k0 ∈ as := by
        rcases List.mem_cons.mp hm with h | h
        · exact absurd h.symm ha
        · exact h
      simp [hg a ha, ih hn.2 hm' hg]

theorem createSec_of (a : Args) (id name type defn ref link repo incl : Option Str)
    (sc pc : Card.Card) (hid : idOk id = true) (hname : name.isSome = true)
    (htype : type.isSome = true) (hsc : cardOk sc = true) (hpc : cardOk pc = true)
    (hnr : nameRepr name = true)
    (h : ∀ k ∈ (fmtOf .sec).keys, a.lookup ((fmtOf .sec).pyName k) =
      secArg id name type defn ref link repo incl sc pc k) :
    createSec a = .ok (.mk id (name.map strip) (normText type) (normText defn) (normText ref)
      (normText link) (normText repo) (normText incl) [] [] sc pc) := by
  have e1 := h "id" (by decide)
  have e2 := h "type" (by decide)
  have e3 := h "name" (by decide)
  have e4 := h "definition" (by decide)
  have e5 := h "reference" (by decide)
  have e6 := h "link" (by decide)
  have e7 := h "repository" (by decide)
  have e8 := h "include" (by decide)
  have e9 := h "sec_cardinality" (by decide)
  have e10 := h "prop_cardinality" (by decide)
  rw [show (fmtOf .sec).pyName "id" = "oid" by decide] at e1
  rw [show (fmtOf .sec).pyName "type" = "type" by decide] at e2
  rw [show (fmtOf .sec).pyName "name" = "name" by decide] at e3
  rw [show (fmtOf .sec).pyName "definition" = "definition" by decide] at e4
  rw [show (fmtOf .sec).pyName "reference" = "reference" by decide] at e5
  rw [show (fmtOf .sec).pyName "link" = "link" by decide] at e6
  rw [show (fmtOf .sec).pyName "repository" = "repository" by decide] at e7
  rw [show (fmtOf .sec).pyName "include" = "include" by decide] at e8
  rw [show (fmtOf .sec).pyName "sec_cardinality" = "sec_cardinality" by decide] at e9
  rw [show (fmtOf .sec).pyName "prop_cardinality" = "prop_cardinality" by decide] at e10
  have g1 := getText_of_some a "oid" _ e1
  have g3 := getText_of_some a "name" _ e3
  have g4 := getText_of_map a "definition" _ e4
  have g5 := getText_of_map a "reference" _ e5
  have g6 := getText_of_map a "link" _ e6
  have g7 := getText_of_map a "repository" _ e7
  have g8 := getText_of_map a "include" _ e8
  have g9 := loadCard_of_map a "sec_cardinality" sc hsc e9
  have g10 := loadCard_of_map a "prop_cardinality" pc hpc e10
  unfold createSec
  simp only [g1, e2, g3, g4, g5, g6, g7, g8, g9, g10, idOk_facts id hid,
    name_facts name id hname hnr]
  cases type with
  | none => simp at htype
  | some s => rfl

theorem kidsSecs_other (secs : List SecT) (k : String) (h : k ≠ "section") : kidsSecs secs k = [] := by
  unfold kidsSecs
  split
  · exact absurd rfl h
  · rfl

theorem kidsProps_other (props : List PropT) (k : String) (h : k ≠ "property") :
    kidsProps props k = [] := by
  unfold kidsProps
  split
  · exact absurd rfl h
  · rfl

theorem nodup_of_distinctTrimmed {names : List (Option Str)} (h : distinctTrimmed names = true) :
    (names.map (Option.map strip)).Nodup := by
  simpa [distinctTrimmed] using h

/-- **One Section element**, given that its sub-Sections are read back correctly. -/
theorem sec_core (m : Mode) (lib : TokLib) (tag : String)
    (id name type defn ref link repo incl : Option Str) (secs : List SecT) (props : List PropT)
    (sc pc : Card.Card) (w : Nat) (hsecs : SecsRead m lib .sec secs)
    (hwf : secWf lib (.mk id name type defn ref link repo incl secs props sc pc) = true)
    (hrepr : secRepr (.mk id name type defn ref link repo incl secs props sc pc) = true)
    (hlow : props.all propLower = true) :
    readTag m lib .sec tag (writeSec (.mk id name type defn ref link repo incl secs props sc pc)) w =
      .ok (.sec (trimSec (.mk id name type defn ref link repo incl secs props sc pc)), w) := by
  simp only [secWf, Bool.and_eq_true, List.all_eq_true] at hwf
  obtain ⟨⟨⟨⟨⟨⟨hid, hname⟩, htype⟩, hsc⟩, hpc⟩, hpwf⟩, hswf⟩ := hwf
  simp only [secRepr, Bool.and_eq_true, List.all_eq_true] at hrepr
  obtain ⟨⟨⟨⟨hnr, hprepr⟩, hpd⟩, hsd⟩, _⟩ := hrepr
  have hprops : ∀ p ∈ props, propWf lib p = true ∧ propRepr p = true ∧ propLower p = true :=
    fun p hp => ⟨hpwf p hp, hprepr p hp, List.all_eq_true.mp hlow p hp⟩
  let S := secSpec id name type defn ref link repo incl secs props sc pc
  have hnd : ((fmtOf .sec).keys.map (fmtOf .sec).pyName).Nodup := by decide
  have hnk : (fmtOf .sec).keys.Nodup := by decide
  have hfold := readKids_keys m lib .sec tag S
    (secKey id name type defn ref link repo incl (writeSecs secs) (props.map writeProp) sc pc) []
    (fmtOf .sec).keys ⟨[], [], [], [], w⟩ hnd (fun _ _ => rfl)
    (fun k _ rest st hn => sec_step m lib tag id name type defn ref link repo incl secs props sc pc
      hsecs hprops k rest st hn)
  simp only [List.append_nil] at hfold
  have hkids : readKids m lib .sec tag (Gen.Format.sectionArgs.flatMap fun kv =>
        secKey id name type defn ref link repo incl (writeSecs secs) (props.map writeProp) sc pc kv.1)
      ⟨[], [], [], [], w⟩ = .ok ((fmtOf .sec).keys.foldl (S.apply (fmtOf .sec)) ⟨[], [], [], [], w⟩) := by
    rw [flatMap_keys]
    exact hfold.trans (by simp [readKids])
  have hlook := fun k hk => lookup_foldl S (fmtOf .sec) (fmtOf .sec).keys w hnd k hk
  have hreq : ∀ kr ∈ (fmtOf .sec).args, kr.2 ≠ 0 → kr.1 = "id" ∨ kr.1 = "name" ∨ kr.1 = "type" := by
    decide
  have hkeys : ∀ kr ∈ (fmtOf .sec).args, kr.1 ∈ (fmtOf .sec).keys := fun kr h =>
    List.mem_map.mpr ⟨kr, h, rfl⟩
  have hsecsF : ((fmtOf .sec).keys.foldl (S.apply (fmtOf .sec)) ⟨[], [], [], [], w⟩).secs = trimSecs secs := by
    rw [foldl_apply_secs]
    exact flatMap_single _ "section" _ hnk (by decide) (kidsSecs_other secs)
  have hpropsF : ((fmtOf .sec).keys.foldl (S.apply (fmtOf .sec)) ⟨[], [], [], [], w⟩).props =
      props.map trimProp := by
    rw [foldl_apply_props]
    exact flatMap_single _ "property" _ hnk (by decide) (kidsProps_other props)
  have happS : appendSecs m [] (trimSecs secs) w = .ok (trimSecs secs, w) := by
    have := appendSecs_ok m (trimSecs secs) [] w
      (by simpa [effNames_trimSecs secs lib hswf] using nodup_of_distinctTrimmed hsd)
    simpa using this
  have happP : appendProps m [] (props.map trimProp) w = .ok (props.map trimProp, w) := by
    have := appendProps_ok m (props.map trimProp) [] w
      (by simpa [effNames_trimProps lib props hpwf] using nodup_of_distinctTrimmed hpd)
    simpa using this
  rw [writeSec, readTag.eq_1]
  simp only [attrLoop, hkids]
  rw [mandatory_ok]
  · simp only [foldl_apply_warns, hsecsF, hpropsF]
    rw [createSec_of _ id name type defn ref link repo incl sc pc hid hname htype hsc hpc hnr hlook]
    simp only [happS, happP, trimSec]
  · intro kr hkr hreq'
    apply List.mem_append_left
    apply mem_keys_of_lookup
    rw [hlook kr.1 (hkeys kr hkr)]
    rcases hreq kr hkr hreq' with h | h | h <;> rw [h]
    · rfl
    · rfl
    · cases type with
      | none => simp at htype
      | some s => rfl

/-! ### The Section tree -/

mutual
/-- every dtype in the tree is stored in lower case (what `Property.dtype` always holds) -/
def secLower : SecT → Bool
  | .mk _ _ _ _ _ _ _ _ secs props _ _ => props.all propLower && secsLower secs
def secsLower : List SecT → Bool
  | [] => true
  | s :: ss => secLower s && secsLower ss
end

def docLower (d : DocT) : Bool := secsLower d.secs

mutual
/-- **A Section at any depth** (mutual structural induction over the tree). -/
theorem sec_round (m : Mode) (lib : TokLib) : (s : SecT) → secWf lib s = true → secRepr s = true →
    secLower s = true → ∀ (tag : String) (w : Nat),
      readTag m lib .sec tag (writeSec s) w = .ok (.sec (trimSec s), w)
  | .mk id name type defn ref link repo incl secs props sc pc => by
    intro hwf hrepr hlow tag w
    have hwf' := hwf
    have hrepr' := hrepr
    simp only [secWf, Bool.and_eq_true] at hwf'
    simp only [secRepr, Bool.and_eq_true] at hrepr'
    simp only [secLower, Bool.and_eq_true] at hlow
    have hsub := secs_round m lib secs hwf'.2 hrepr'.2 hlow.2 .sec (by decide)
    exact sec_core m lib tag id name type defn ref link repo incl secs props sc pc w hsub hwf hrepr hlow.1
theorem secs_round (m : Mode) (lib : TokLib) : (ss : List SecT) → secsWf lib ss = true →
    secsRepr ss = true → secsLower ss = true →
    ∀ (κ : Kind), childOK κ Gen.Format.sectionName = true → SecsRead m lib κ ss
  | [] => by
    intro _ _ _ κ _ tag rest st
    simp [writeSecs, extraN, trimSecs]
  | s :: ss => by
    intro hwf hrepr hlow κ hκ tag rest st
    simp only [secsWf, Bool.and_eq_true] at hwf
    simp only [secsRepr, Bool.and_eq_true] at hrepr
    simp only [secsLower, Bool.and_eq_true] at hlow
    have h1 := sec_round m lib s hwf.1 hrepr.1 hlow.1
    have h2 := secs_round m lib ss hwf.2 hrepr.2 hlow.2 κ hκ
    simp only [writeSecs, List.cons_append]
    rw [readKids_childSec m lib κ tag s _ st hκ (fun w => h1 _ w), h2 tag rest _]
    simp [extraN, trimSecs]
end

/-! ### The Document element -/

def docArg (d : DocT) (k : String) : Option ArgV :=
  match k with
  | "id" => some (textArg (shown d.id))
  | "version" => d.version.map textArg
  | "author" => d.author.map textArg
  | "date" => d.date.map textArg
  | "repository" => d.repository.map textArg
  | _ => none

def docSpec (d : DocT) : KeySpec :=
  { arg := docArg d, extra := kidsExtra .doc d.secs.length 0,
    secs := kidsSecs d.secs, props := fun _ => [] }

theorem doc_step (m : Mode) (lib : TokLib) (tag : String) (d : DocT)
    (hsecs : SecsRead m lib .doc d.secs) (k : String) (rest : List X) (st : PT)
    (hn : st.args.lookup ((fmtOf .doc).pyName k) = none) :
    readKids m lib .doc tag (docKey d k ++ rest) st =
      readKids m lib .doc tag rest ((docSpec d).apply (fmtOf .doc) st k) := by
  unfold docKey
  split
  · rw [apply_leafOnly _ _ _ _ rfl rfl rfl]; exact step_text m lib .doc tag "id" (by decide) _ rest st hn
  · rw [apply_leafOnly _ _ _ _ rfl rfl rfl]; exact step_optText m lib .doc tag "version" (by decide) _ rest st hn
  · rw [apply_leafOnly _ _ _ _ rfl rfl rfl]; exact step_optText m lib .doc tag "author" (by decide) _ rest st hn
  · rw [apply_leafOnly _ _ _ _ rfl rfl rfl]; exact step_optText m lib .doc tag "date" (by decide) _ rest st hn
  · rw [hsecs tag rest st]
    simp [KeySpec.apply, KeySpec.entry, docSpec, docArg, kidsExtra, kidsSecs]
  · rw [apply_leafOnly _ _ _ _ rfl rfl rfl]; exact step_optText m lib .doc tag "repository" (by decide) _ rest st hn
  · have h1 : docArg d k = none := by
      unfold docArg
      split <;> first | rfl | (exfalso; simp_all)
    have h2 : kidsExtra .doc d.secs.length 0 k st.extra = st.extra := by
      unfold kidsExtra
      split <;> first | rfl | (exfalso; simp_all)
    have h3 : kidsSecs d.secs k = [] := by
      unfold kidsSecs
      split <;> first | rfl | (exfalso; simp_all)
    simp [KeySpec.apply, KeySpec.entry, docSpec, h1, h2, h3]

theorem createDoc_of (lib : TokLib) (a : Args) (d : DocT) (hid : idOk d.id = true)
    (hdate : dateOk lib d.date = true)
    (h : ∀ k ∈ (fmtOf .doc).keys, a.lookup ((fmtOf .doc).pyName k) = docArg d k) :
    createDoc lib a = .ok { trimDoc d with secs := [] } := by
  have e1 := h "id" (by decide)
  have e2 := h "version" (by decide)
  have e3 := h "author" (by decide)
  have e4 := h "date" (by decide)
  have e5 := h "repository" (by decide)
  rw [show (fmtOf .doc).pyName "id" = "oid" by decide] at e1
  rw [show (fmtOf .doc).pyName "version" = "version" by decide] at e2
  rw [show (fmtOf .doc).pyName "author" = "author" by decide] at e3
  rw [show (fmtOf .doc).pyName "date" = "date" by decide] at e4
  rw [show (fmtOf .doc).pyName "repository" = "repository" by decide] at e5
  have g1 := getText_of_some a "oid" _ e1
  have g2 := getText_of_map a "version" _ e2
  have g3 := getText_of_map a "author" _ e3
  have g4 := getText_of_map a "date" _ e4
  have g5 := getText_of_map a "repository" _ e5
  unfold createDoc
  simp only [g1, g2, g3, g4, g5, idOk_facts d.id hid]
  cases hd : d.date with
  | none => simp [normText, trimDoc, hd]
  | some t =>
    rw [hd] at hdate
    simp only [dateOk, tokOk, Bool.and_eq_true, Bool.not_eq_true', beq_iff_eq] at hdate
    obtain ⟨⟨h1, h2⟩, h3⟩ := hdate
    simp [normText, trimDoc, hd, h1, h2, h3]

/-- **The whole document, any size, any depth, either reader mode.** -/
theorem doc_round (m : Mode) (lib : TokLib) (d : DocT) (hwf : wfDoc lib d = true)
    (hrepr : xmlRepr d = true) (hlow : docLower d = true) :
    readXml m lib (writeTree d) = .ok (trimDoc d, 0) := by
  simp only [wfDoc, Bool.and_eq_true] at hwf
  obtain ⟨⟨hid, hdate⟩, hswf⟩ := hwf
  simp only [xmlRepr, Bool.and_eq_true] at hrepr
  obtain ⟨hsd, hsrepr⟩ := hrepr
  have hsecs : SecsRead m lib .doc d.secs := secs_round m lib d.secs hswf hsrepr hlow .doc (by decide)
  have hnd : ((fmtOf .doc).keys.map (fmtOf .doc).pyName).Nodup := by decide
  have hnk : (fmtOf .doc).keys.Nodup := by decide
  have hfold := readKids_keys m lib .doc "odML" (docSpec d) (docKey d) []
    (fmtOf .doc).keys ⟨[], [], [], [], 0⟩ hnd (fun _ _ => rfl)
    (fun k _ rest st hn => doc_step m lib "odML" d hsecs k rest st hn)
  simp only [List.append_nil] at hfold
  have hkids : readKids m lib .doc "odML" (Gen.Format.documentArgs.flatMap fun kv => docKey d kv.1)
      ⟨[], [], [], [], 0⟩ =
      .ok ((fmtOf .doc).keys.foldl ((docSpec d).apply (fmtOf .doc)) ⟨[], [], [], [], 0⟩) := by
    rw [flatMap_keys]
    exact hfold.trans (by simp [readKids])
  have hlook := fun k hk => lookup_foldl (docSpec d) (fmtOf .doc) (fmtOf .doc).keys 0 hnd k hk
  have hreq : ∀ kr ∈ (fmtOf .doc).args, kr.2 ≠ 0 → kr.1 = "id" := by decide
  have hkeys : ∀ kr ∈ (fmtOf .doc).args, kr.1 ∈ (fmtOf .doc).keys := fun kr h =>
    List.mem_map.mpr ⟨kr, h, rfl⟩
  have hsecsF : ((fmtOf .doc).keys.foldl ((docSpec d).apply (fmtOf .doc)) ⟨[], [], [], [], 0⟩).secs =
      trimSecs d.secs := by
    rw [foldl_apply_secs]
    exact flatMap_single _ "section" _ hnk (by decide) (kidsSecs_other d.secs)
  have happS : appendSecs m [] (trimSecs d.secs) 0 = .ok (trimSecs d.secs, 0) := by
    have := appendSecs_ok m (trimSecs d.secs) [] 0
      (by simpa [effNames_trimSecs d.secs lib hswf] using nodup_of_distinctTrimmed hsd)
    simpa using this
  have hname : Gen.Format.documentName = "odML" := by decide
  have hmand : mandatoryLoop m (fmtOf .doc)
      (((fmtOf .doc).keys.foldl ((docSpec d).apply (fmtOf .doc)) ⟨[], [], [], [], 0⟩).args.map (·.1) ++
        ((fmtOf .doc).keys.foldl ((docSpec d).apply (fmtOf .doc)) ⟨[], [], [], [], 0⟩).extra)
      (fmtOf .doc).args 0 = .ok 0 := by
    apply mandatory_ok
    intro kr hkr hreq'
    apply List.mem_append_left
    apply mem_keys_of_lookup
    rw [hlook kr.1 (hkeys kr hkr), hreq kr hkr hreq']
    rfl
  unfold readXml
  rw [writeTree, hname]
  simp only [bne_self_eq_false, Bool.false_eq_true, if_false, List.lookup, beq_self_eq_true]
  rw [readTag.eq_1]
  have hattr : attrLoop m "odML" [("version", Gen.Format.formatVersion.toList)] 0 = .ok 0 := by
    have : (lowerS "version" == "version") = true := by decide
    simp [attrLoop, this]
  simp only [hattr, hkids, foldl_apply_warns, hmand, hsecsF]
  rw [createDoc_of lib _ d hid hdate hlook]
  simp only [happS]
  rfl

end Xml
