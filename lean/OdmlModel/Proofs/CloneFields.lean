/-
C11 helper lemmas, part 7: the fields of the copy. `clone` changes, of the shallow copy it starts
from, only the parent reference, the two child lists, the value list and (unless `keep_id`) the id.
-/
import OdmlModel.Proofs.CloneSep
namespace Clone

/-- Same object up to the child lists. -/
def SameBut (n m : Node) : Prop :=
  m.kind = n.kind ∧ m.name = n.name ∧ m.id = n.id ∧ m.attrs = n.attrs ∧ m.parent = n.parent ∧
  m.vals = n.vals ∧ m.merged = n.merged ∧ m.mattrs = n.mattrs

theorem SameBut.refl (n : Node) : SameBut n n := ⟨rfl, rfl, rfl, rfl, rfl, rfl, rfl, rfl⟩
theorem SameBut.trans {a b c : Node} (h1 : SameBut a b) (h2 : SameBut b c) : SameBut a c := by
  obtain ⟨a1, a2, a3, a4, a5, a6, a7, a8⟩ := h1
  obtain ⟨b1, b2, b3, b4, b5, b6, b7, b8⟩ := h2
  exact ⟨b1.trans a1, b2.trans a2, b3.trans a3, b4.trans a4, b5.trans a5, b6.trans a6, b7.trans a7, b8.trans a8⟩

theorem cloneLoop_fields {rec} (hrec : RecSpec rec) (c : Nat) :
    ∀ (l : List Nat) (h h' : H), c < h.nN → cloneLoop rec h c l = (h', none) →
      SameBut (h.node c) (h'.node c) ∧ h.nextId ≤ h'.nextId ∧ h.nN ≤ h'.nN := by
  intro l
  induction l with
  | nil =>
    intro h h' _ hl
    simp only [cloneLoop, Prod.mk.injEq, and_true] at hl
    subst hl; exact ⟨SameBut.refl _, Nat.le_refl _, Nat.le_refl _⟩
  | cons s rest ih =>
    intro h h' hc hl
    simp only [cloneLoop] at hl
    split at hl
    · simp at hl
    · rename_i h1 sc hr
      split at hl
      · simp at hl
      · rename_i h2 hat
        obtain ⟨e1, _, hsc, _, _⟩ := hrec h s h1 sc hr
        have hh2 := attach_ok hat
        have m1 := e1.1
        unfold Mono at m1
        have hne : c ≠ sc := by omega
        have n2c : SameBut (h.node c) (h2.node c) := by
          rw [hh2, updN_other _ _ _ _ hne]
          simp only [setChildList, updN_same, e1.2.1 c hc]
          split <;> exact SameBut.refl _
        have sz2 : h2.nN = h1.nN ∧ h2.nextId = h1.nextId := by rw [hh2]; simp [setChildList]
        obtain ⟨sb, nx, nn⟩ := ih h2 h' (by omega) hl
        exact ⟨n2c.trans sb, by omega, by omega⟩

theorem loopOpt_fields {rec} (hrec : RecSpec rec) (c : Nat) (ch : Bool) (l : List Nat) (h h' : H) (hc : c < h.nN)
    (hl : (if ch = true then cloneLoop rec h c l else (h, none)) = (h', none)) :
    SameBut (h.node c) (h'.node c) ∧ h.nextId ≤ h'.nextId ∧ h.nN ≤ h'.nN := by
  cases ch with
  | true => exact cloneLoop_fields hrec c l h h' hc (by simpa using hl)
  | false =>
    simp only [Bool.false_eq_true, if_false, Prod.mk.injEq, and_true] at hl
    subst hl; exact ⟨SameBut.refl _, Nat.le_refl _, Nat.le_refl _⟩

/-- The fields of the copy of a Section / Document. -/
structure RootEq (h h' : H) (x c : Nat) (keep : Bool) : Prop where
  kind : (h'.node c).kind = (h.node x).kind
  name : (h'.node c).name = (h.node x).name
  attrs : (h'.node c).attrs = (h.node x).attrs
  merged : (h'.node c).merged = (h.node x).merged
  mattrs : (h'.node c).mattrs = (h.node x).mattrs   -- `_merged_attrs`: the SAME dict (copy.copy)
  parent : (h'.node c).parent = none
  idKept : keep = true → (h'.node c).id = (h.node x).id
  idFresh : keep = false → h.nextId ≤ (h'.node c).id ∧ (h'.node c).id < h'.nextId

theorem cloneBody_fields {rec} (hrec : RecSpec rec) (h : H) (x : Nat) (ch keep : Bool) (h' : H) (c : Nat)
    (hb : cloneBody rec h x ch keep = (h', .ok c)) : RootEq h h' x c keep := by
  unfold cloneBody at hb
  simp only [allocN_ret] at hb
  generalize hh3 : updN (updN (allocN h (h.node x)).1 h.nN (fun n => { n with parent := none })) h.nN
      (fun n => { n with secs := [] }) = h3 at hb
  have n3 : h3.node h.nN = { h.node x with parent := none, secs := [] } := by
    rw [← hh3]; simp [allocN_node]
  have sz3 : h3.nN = h.nN + 1 ∧ h3.nextId = h.nextId := by rw [← hh3]; simp
  split at hb
  · simp at hb
  · rename_i h4 hl4
    obtain ⟨sb4, nx4, nn4⟩ := loopOpt_fields hrec h.nN ch _ h3 h4 (by omega) hl4
    rw [n3] at sb4
    obtain ⟨k4, na4, id4, at4, pa4, _, me4, ma4⟩ := sb4
    generalize hh5 : (if keep = true then h4 else newId h4 h.nN) = h5 at hb
    have n5 : SameBut { h4.node h.nN with id := (h5.node h.nN).id } (h5.node h.nN) := by
      rw [← hh5]; split
      · exact SameBut.refl _
      · simp only [newId_node, if_true]; exact SameBut.refl _
    have id5k : keep = true → (h5.node h.nN).id = (h.node x).id := by
      intro hk; rw [← hh5, if_pos hk]; exact id4
    have id5f : keep = false → (h5.node h.nN).id = h4.nextId ∧ h5.nextId = h4.nextId + 1 := by
      intro hk; rw [← hh5]; simp [hk, newId_node]
    have nx5 : h4.nextId ≤ h5.nextId := by rw [← hh5]; split <;> simp
    have nn5 : h5.nN = h4.nN := by rw [← hh5]; split <;> simp
    obtain ⟨k5, na5, _, at5, pa5, _, me5, ma5⟩ := n5
    simp only at k5 na5 at5 pa5 me5 ma5
    have fin : ∀ h7 : H, SameBut (h5.node h.nN) (h7.node h.nN) → h5.nextId ≤ h7.nextId → RootEq h h7 x h.nN keep := by
      intro h7 sb nx
      obtain ⟨k7, na7, id7, at7, pa7, _, me7, ma7⟩ := sb
      refine ⟨by rw [k7, k5, k4], by rw [na7, na5, na4], by rw [at7, at5, at4], by rw [me7, me5, me4],
        by rw [ma7, ma5, ma4], by rw [pa7, pa5, pa4], fun hk => by rw [id7]; exact id5k hk, fun hk => ?_⟩
      obtain ⟨a, b⟩ := id5f hk
      rw [id7, a]; omega
    split at hb
    · simp only [Prod.mk.injEq, Res.ok.injEq] at hb
      obtain ⟨rfl, rfl⟩ := hb
      exact fin _ (SameBut.refl _) (Nat.le_refl _)
    · generalize hh6 : updN h5 h.nN (fun n => { n with props := [] }) = h6 at hb
      have n6 : SameBut (h5.node h.nN) (h6.node h.nN) := by rw [← hh6]; simp; exact SameBut.refl _
      have sz6 : h6.nN = h5.nN ∧ h6.nextId = h5.nextId := by rw [← hh6]; simp
      split at hb
      · simp at hb
      · rename_i h7 hl7
        simp only [Prod.mk.injEq, Res.ok.injEq] at hb
        obtain ⟨rfl, rfl⟩ := hb
        obtain ⟨sb7, nx7, _⟩ := loopOpt_fields hrec h.nN ch _ h6 h7 (by omega) hl7
        exact fin _ (n6.trans sb7) (by omega)

theorem cloneProp_fields (h : H) (x : Nat) (keep : Bool) :
    RootEq h (cloneProp h x keep).1 x (cloneProp h x keep).2 keep := by
  have s := cloneProp_spec h x keep
  refine ⟨by rw [s.node], by rw [s.node], by rw [s.node], by rw [s.node], by rw [s.node], by rw [s.node],
    fun hk => by rw [s.node]; simp [hk], fun hk => ?_⟩
  rw [s.node, s.nextId]; simp [hk]

theorem cloneF_fields (f : Nat) (h : H) (x : Nat) (ch keep : Bool) (h' : H) (c : Nat)
    (hc : cloneF f h x ch keep = (h', .ok c)) : RootEq h h' x c keep := by
  cases f with
  | zero => simp [cloneF] at hc
  | succ f =>
    simp only [cloneF] at hc
    split at hc
    · simp only [Prod.mk.injEq, Res.ok.injEq] at hc
      obtain ⟨rfl, rfl⟩ := hc
      exact cloneProp_fields h x keep
    · exact cloneBody_fields (cloneF_recSpec f keep) h x ch keep h' c hc

end Clone
