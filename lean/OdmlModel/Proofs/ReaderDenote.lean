/-
C16 — the denotation of an XML input tree (`denoteTag`, `tagProblems`, `tagRepeats`) and the proof
that `parseTag` computes it for every tree (`parseTag_spec`). See `Proofs/ReaderSpec.lean`.
-/
import OdmlModel.Model.Reader
import OdmlModel.Proofs.Reader
import OdmlModel.Proofs.ReaderSpec

set_option linter.unusedSimpArgs false
set_option linter.unusedVariables false

namespace Reader

/-! ## One argument element `<t>text</t>` -/

/-- `from_csv` refuses the text of a `<value>` element -/
def argProblem (env : Env) (kind : Kind) (t : Str) (text : Option Str) : Nat :=
  if mapName kind t == "values".toList && (curText text).truthy && env.csvFails (text.getD []) then 1
  else 0

/-- "Element is given multiple times" -/
def argRepeat (kind : Kind) (t : Str) (a : Args) : Nat :=
  if a.has (mapName kind t) then 1 else 0

/-- the keyword arguments after the element -/
def argOf (env : Env) (kind : Kind) (t : Str) (text : Option Str) (a : Args) : Args :=
  let an := mapName kind t
  let cur := curText text
  let raw := text.getD []
  if an == "values".toList && cur.truthy then
    if env.csvFails raw then a else a.set an (.values raw)
  else if endsWith an "_cardinality".toList && cur.truthy then
    a.set an (.card (Card.parseCardText raw))
  else a.set an cur

theorem argStep_spec (g : Guards) (hcsv : g.guardCsv = true) (hdec : g.decimalCard = true)
    (env : Env) (m : Mode) (kind : Kind) (t : Str) (text : Option Str) (st : Loop) :
    argStep g env m kind t text st
      = outcome m (argProblem env kind t text)
          { st with args := argOf env kind t text st.args,
                    w := st.w + argRepeat kind t st.args + argProblem env kind t text } := by
  unfold argStep argProblem argOf argRepeat
  simp only [hcsv, hdec, if_true, Bool.not_true, Bool.false_and]
  by_cases h1 : (mapName kind t == "values".toList && (curText text).truthy) = true
  · simp only [h1, if_true, Bool.true_and]
    by_cases h2 : env.csvFails (text.getD []) = true
    · simp only [h2, if_true]
      cases m
      · simp [raiseOrWarn, outcome]; rfl
      · simp [raiseOrWarn, outcome]
        show Except.ok _ = Except.ok _
        cases st; simp
        split <;> rfl
    · simp only [h2, Bool.false_eq_true, if_false]
      rw [pure_eq_outcome m]
      refine outcome_congr m rfl ?_
      cases st; simp
      split <;> rfl
  · simp only [h1, Bool.false_eq_true, if_false]
    have h0 : (if (false && env.csvFails (text.getD [])) = true then 1 else 0) = 0 := by simp
    by_cases h3 : (endsWith (mapName kind t) "_cardinality".toList && (curText text).truthy) = true
    · simp only [h3, if_true, Bool.false_and, Bool.false_eq_true, if_false]
      rw [pure_eq_outcome m]
      refine outcome_congr m rfl ?_
      cases st; simp
      split <;> rfl
    · simp only [h3, Bool.false_and, Bool.false_eq_true, if_false]
      rw [pure_eq_outcome m]
      refine outcome_congr m rfl ?_
      cases st; simp
      split <;> rfl

/-! ## The child elements of an object element -/

/-- What the child loop of `parse_tag` does with an element whose lower-cased tag is `t`. -/
inductive KidClass where
  | object (k : Kind)     -- an odML object of its own: `parse_element(node)`
  | arg                   -- an argument of the enclosing object
  | unknown               -- not an element of this format
  deriving DecidableEq, Repr

def kidClass (kind : Kind) (t : Str) : KidClass :=
  if isArgKey kind t then
    match kindOfTag t, inMapKeys kind t with
    | some k', true => .object k'
    | _, _ => .arg
  else .unknown

/-- the keyword arguments collected from the argument elements, in document order -/
def specArgs (env : Env) (kind : Kind) : List Xml → Args → Args
  | [], a => a
  | .other _ :: rest, a => specArgs env kind rest a
  | .elem t0 _ text _ :: rest, a =>
    match kidClass kind (Py.lower t0) with
    | .arg => specArgs env kind rest (argOf env kind (Py.lower t0) text a)
    | _ => specArgs env kind rest a

/-- the keys of `extra_args`: one per object child -/
def specExtra (kind : Kind) : List Xml → List Str
  | [] => []
  | .other _ :: rest => specExtra kind rest
  | .elem t0 _ _ _ :: rest =>
    match kidClass kind (Py.lower t0) with
    | .object _ => mapName kind (Py.lower t0) :: specExtra kind rest
    | _ => specExtra kind rest

/-- The object `fmt.create(**args)` gives; the default object when it raises. -/
def created (env : Env) (kind : Kind) (args : Args) : Obj Str :=
  if env.createFails kind args then Obj.mk kind Name.fresh false [] []
  else Obj.mk kind (objName env kind args) true [] []

/-- `insert_children`: attach the valid ones of the parsed children -/
def attach (insert : Bool) (base : Obj Str) (children : List (Obj Str)) : Obj Str :=
  if insert then keepValid (· == ·) base children else base

mutual
/-- **The valid parts of an element**: the object made from its argument elements, with the valid
    parts of its Section / Property children attached unless the parent cannot hold the sort or
    an earlier kept sibling of the sort has the name. -/
def denoteTag (env : Env) (kind : Kind) (insert : Bool) : Xml → Obj Str
  | .other _ => Obj.mk kind Name.fresh false [] []
  | .elem _ _ _ kids =>
    attach insert (created env kind (specArgs env kind kids [])) (denoteKids env kind kids)
/-- the valid parts of the object children of an element of kind `kind`, in document order -/
def denoteKids (env : Env) (kind : Kind) : List Xml → List (Obj Str)
  | [] => []
  | .other _ :: rest => denoteKids env kind rest
  | .elem t0 attrs text kids :: rest =>
    match kidClass kind (Py.lower t0) with
    | .object k' => denoteTag env k' (k' != .prop) (.elem t0 attrs text kids) :: denoteKids env kind rest
    | _ => denoteKids env kind rest
end

mutual
/-- **The problems of an element** (each one a call of `self.error`): unsupported attributes,
    unknown child elements (reported twice), values `from_csv` refuses, missing mandatory elements,
    a constructor that refuses the arguments, children that cannot be attached — of the element and
    of every object element below it. -/
def tagProblems (env : Env) (kind : Kind) (insert : Bool) (tag : Str) : Xml → Nat
  | .other _ => 0
  | .elem _ attrs _ kids =>
    attrProblems tag attrs + kidsProblems env kind kids
      + mandatoryMissing kind ((specArgs env kind kids []).map (·.1) ++ specExtra kind kids) (argTable kind)
      + (if env.createFails kind (specArgs env kind kids []) then 1 else 0)
      + (if insert then
          refusedCount (· == ·) (created env kind (specArgs env kind kids [])) (denoteKids env kind kids)
         else 0)
def kidsProblems (env : Env) (kind : Kind) : List Xml → Nat
  | [] => 0
  | .other _ :: rest => kidsProblems env kind rest
  | .elem t0 attrs text kids :: rest =>
    match kidClass kind (Py.lower t0) with
    | .object k' =>
      tagProblems env k' (k' != .prop) (Py.lower t0) (.elem t0 attrs text kids) + kidsProblems env kind rest
    | .arg => argProblem env kind (Py.lower t0) text + kidsProblems env kind rest
    | .unknown => 2 + kidsProblems env kind rest
end

mutual
/-- The "given multiple times" warnings of an element and of every object element below it. -/
def tagRepeats (env : Env) (kind : Kind) : Xml → Nat
  | .other _ => 0
  | .elem _ _ _ kids => kidsRepeats env kind kids []
def kidsRepeats (env : Env) (kind : Kind) : List Xml → Args → Nat
  | [], _ => 0
  | .other _ :: rest, a => kidsRepeats env kind rest a
  | .elem t0 attrs text kids :: rest, a =>
    match kidClass kind (Py.lower t0) with
    | .object k' => tagRepeats env k' (.elem t0 attrs text kids) + kidsRepeats env kind rest a
    | .arg => argRepeat kind (Py.lower t0) a
        + kidsRepeats env kind rest (argOf env kind (Py.lower t0) text a)
    | .unknown => kidsRepeats env kind rest a
end

/-! ## Equations of the child loop, by class of the child -/

theorem parseKids_nil (g : Guards) (env : Env) (m : Mode) (kind : Kind) (st : Loop) :
    parseKids g env m kind [] st = pure st := by
  unfold parseKids; rfl

theorem parseKids_other (g : Guards) (hg : g.skipNonElem = true) (env : Env) (m : Mode) (kind : Kind)
    (k : NodeKind) (rest : List Xml) (st : Loop) :
    parseKids g env m kind (.other k :: rest) st = parseKids g env m kind rest st := by
  rw [parseKids]; simp [hg]

theorem parseKids_object (g : Guards) (env : Env) (m : Mode) (kind : Kind) (t0 : Str)
    (attrs : List (Str × Str)) (text : Option Str) (kids rest : List Xml) (st : Loop) (k' : Kind)
    (h : kidClass kind (Py.lower t0) = .object k') :
    parseKids g env m kind (.elem t0 attrs text kids :: rest) st
      = (parseTag g env m k' (k' != .prop) (Py.lower t0) (.elem t0 attrs text kids) st.w >>= fun p =>
          parseKids g env m kind rest
            { st with extra := st.extra ++ [mapName kind (Py.lower t0)],
                      children := st.children ++ [p.1], w := p.2 }) := by
  rw [parseKids]
  unfold kidClass at h
  split at h
  · rename_i ha
    simp only [ha, if_true]
    split at h
    · rename_i k'' hk hm
      cases h
      simp only [hk, hm]
    · cases h
  · cases h

theorem parseKids_arg (g : Guards) (env : Env) (m : Mode) (kind : Kind) (t0 : Str)
    (attrs : List (Str × Str)) (text : Option Str) (kids rest : List Xml) (st : Loop)
    (h : kidClass kind (Py.lower t0) = .arg) :
    parseKids g env m kind (.elem t0 attrs text kids :: rest) st
      = (argStep g env m kind (Py.lower t0) text st >>= fun st' => parseKids g env m kind rest st') := by
  rw [parseKids]
  unfold kidClass at h
  split at h
  · rename_i ha
    simp only [ha, if_true]
    split at h
    · cases h
    · rename_i hno
      split
      · rename_i k'' hk hm
        exact absurd hm (by intro hm; exact hno k'' hk hm)
      · rfl
  · cases h

theorem parseKids_unknown (g : Guards) (env : Env) (m : Mode) (kind : Kind) (t0 : Str)
    (attrs : List (Str × Str)) (text : Option Str) (kids rest : List Xml) (st : Loop)
    (h : kidClass kind (Py.lower t0) = .unknown) :
    parseKids g env m kind (.elem t0 attrs text kids :: rest) st
      = (raiseOrWarn m st.w >>= fun w1 => raiseOrWarn m w1 >>= fun w2 =>
          parseKids g env m kind rest { st with w := w2 }) := by
  rw [parseKids]
  unfold kidClass at h
  split at h
  · split at h <;> cases h
  · rename_i ha
    simp only [ha]
    rfl

/-! ## The part of `parse_tag` after the child loop -/

theorem finishTag_spec (g : Guards) (hg : g.guardAppend = true) (env : Env) (m : Mode) (kind : Kind)
    (insert : Bool) (st : Loop) :
    finishTag g env m kind insert st
      = outcome m
          (mandatoryMissing kind (st.args.map (·.1) ++ st.extra) (argTable kind)
            + ((if env.createFails kind st.args then 1 else 0)
              + (if insert then refusedCount (· == ·) (created env kind st.args) st.children else 0)))
          (attach insert (created env kind st.args) st.children,
           st.w + mandatoryMissing kind (st.args.map (·.1) ++ st.extra) (argTable kind)
            + ((if env.createFails kind st.args then 1 else 0)
              + (if insert then refusedCount (· == ·) (created env kind st.args) st.children else 0))) := by
  unfold finishTag
  rw [checkMandatory_spec]
  refine (outcome_bind m _ _ _ _ _ ?_).trans (outcome_congr m rfl rfl)
  by_cases hc : env.createFails kind st.args = true
  · simp only [hc, if_true, created, attach]
    have hinner : ∀ w1 : Nat, (raiseOrWarn m w1 >>= fun w' =>
        (pure (Obj.mk kind Name.fresh false [] [], w') : Except Err (Obj Str × Nat)))
          = outcome m 1 (Obj.mk kind Name.fresh false [] [], w1 + 1) := by
      intro w1
      rw [raiseOrWarn_eq_outcome]
      exact outcome_bind m 1 0 _ _ _ (pure_eq_outcome m _)
    rw [hinner]
    refine outcome_bind m 1 _ _ _ _ ?_
    cases insert with
    | true =>
      simp only [if_true]
      rw [insertChildren_eq g hg]
      exact outcome_congr m rfl (by congr 1; omega)
    | false =>
      simp only [Bool.false_eq_true, if_false]
      rw [pure_eq_outcome m]
      try exact outcome_congr m rfl (by congr 1)
  · simp only [hc, Bool.false_eq_true, if_false, created, attach]
    rw [pure_eq_outcome m]
    refine (outcome_bind m 0 _ _ _ _ ?_).trans (outcome_congr m rfl rfl)
    cases insert with
    | true =>
      simp only [if_true]
      rw [insertChildren_eq g hg]
      exact outcome_congr m (by omega) (by congr 1; omega)
    | false =>
      simp only [Bool.false_eq_true, if_false]
      rw [pure_eq_outcome m]
      try exact outcome_congr m rfl (by congr 1)

/-! ## The reader computes the denotation -/

/-- state of the child loop after the children `ks`, started in `st` -/
def loopAfter (env : Env) (kind : Kind) (ks : List Xml) (st : Loop) : Loop :=
  { args := specArgs env kind ks st.args,
    extra := st.extra ++ specExtra kind ks,
    children := st.children ++ denoteKids env kind ks,
    w := st.w + kidsProblems env kind ks + kidsRepeats env kind ks st.args }

theorem parse_spec_aux (g : Guards) (hg : g.XmlOk) (env : Env) (m : Mode) (x : Xml) :
    ∀ (kind : Kind) (insert : Bool) (tag : Str) (w : Nat), (∃ t a tx ks, x = .elem t a tx ks) →
      parseTag g env m kind insert tag x w
        = outcome m (tagProblems env kind insert tag x)
            (denoteTag env kind insert x,
             w + tagProblems env kind insert tag x + tagRepeats env kind x) := by
  obtain ⟨h1, h2, h3, h4⟩ := hg
  induction x using Xml.rec
    (motive_2 := fun ks => ∀ (kind : Kind) (st : Loop),
      parseKids g env m kind ks st = outcome m (kidsProblems env kind ks) (loopAfter env kind ks st)) with
  | other k =>
    intro kind insert tag w ⟨t, a, tx, ks, h⟩
    cases h
  | elem t a tx ks ih =>
    intro kind insert tag w _
    rw [parseTag]
    show (attrLoop m tag a w >>= fun w0 =>
      parseKids g env m kind ks ⟨[], [], [], w0⟩ >>= fun st => finishTag g env m kind insert st) = _
    rw [attrLoop_spec]
    refine (outcome_bind m _ ?Xq3 _ ?Xb3 _ ?Xh3).trans (outcome_congr m ?Xhp3 ?Xha3)
    case Xh3 =>
      rw [ih kind]
      exact outcome_bind m _ _ _ _ _ (finishTag_spec g h2 env m kind insert _)
    case Xhp3 =>
      simp only [loopAfter, List.nil_append, tagProblems, Nat.add_assoc]
    case Xha3 =>
      simp only [loopAfter, List.nil_append, denoteTag, tagProblems, tagRepeats]
      congr 1
      simp only [Nat.add_assoc, Nat.add_comm, Nat.add_left_comm]
      rfl
  | nil =>
    rename_i kind st
    rw [parseKids_nil, pure_eq_outcome m]
    refine outcome_congr m (by simp [kidsProblems]) ?_
    simp [loopAfter, specArgs, specExtra, denoteKids, kidsProblems, kidsRepeats]
  | cons x rest ihx ihr =>
    rename_i kind st
    cases x with
    | other k =>
      rw [parseKids_other g h1, ihr kind st]
      refine outcome_congr m (by simp [kidsProblems]) ?_
      simp [loopAfter, specArgs, specExtra, denoteKids, kidsProblems, kidsRepeats]
    | elem t0 attrs text kids =>
      cases hc : kidClass kind (Py.lower t0) with
      | object k' =>
        rw [parseKids_object g env m kind t0 attrs text kids rest st k' hc,
          ihx k' (k' != .prop) (Py.lower t0) st.w ⟨_, _, _, _, rfl⟩]
        refine (outcome_bind m _ ?Xq4 _ ?Xb4 _ ?Xh4).trans (outcome_congr m ?Xhp4 ?Xha4)
        case Xh4 => exact ihr kind _
        case Xhp4 => simp only [kidsProblems, hc]
        case Xha4 =>
          simp only [loopAfter, specArgs, specExtra, denoteKids, kidsProblems, kidsRepeats, hc,
            List.append_assoc, List.singleton_append]
          congr 1
          omega
      | arg =>
        rw [parseKids_arg g env m kind t0 attrs text kids rest st hc, argStep_spec g h3 h4]
        refine (outcome_bind m _ ?Xq5 _ ?Xb5 _ ?Xh5).trans (outcome_congr m ?Xhp5 ?Xha5)
        case Xh5 => exact ihr kind _
        case Xhp5 => simp only [kidsProblems, hc]
        case Xha5 =>
          simp only [loopAfter, specArgs, specExtra, denoteKids, kidsProblems, kidsRepeats, hc]
          congr 1
          omega
      | unknown =>
        rw [parseKids_unknown g env m kind t0 attrs text kids rest st hc, raiseOrWarn_eq_outcome]
        refine (outcome_bind m 1 ?Xq6 _ ?Xb6 _ ?Xh6).trans (outcome_congr m ?Xhp6 ?Xha6)
        case Xh6 =>
          rw [raiseOrWarn_eq_outcome]
          refine outcome_bind m 1 ?q2 _ ?b2 _ ?h2
          case h2 => exact ihr kind _
        case Xhp6 =>
          simp only [kidsProblems, hc]
          omega
        case Xha6 =>
          simp only [loopAfter, specArgs, specExtra, denoteKids, kidsProblems, kidsRepeats, hc]
          congr 1
          omega

/-- **The XML reader returns the denotation of its input** — for every element tree of any depth,
    every mode, every `Env` and guards with the four XML repairs: the valid parts, one warning per
    problem and per repeated element; in strict mode a ParserException iff there is a problem. -/
theorem parseTag_spec (g : Guards) (hg : g.XmlOk) (env : Env) (m : Mode) (kind : Kind) (insert : Bool)
    (tag : Str) (t : Str) (a : List (Str × Str)) (tx : Option Str) (ks : List Xml) (w : Nat) :
    parseTag g env m kind insert tag (.elem t a tx ks) w
      = outcome m (tagProblems env kind insert tag (.elem t a tx ks))
          (denoteTag env kind insert (.elem t a tx ks),
           w + tagProblems env kind insert tag (.elem t a tx ks) + tagRepeats env kind (.elem t a tx ks)) :=
  parse_spec_aux g hg env m _ kind insert tag w ⟨_, _, _, _, rfl⟩

end Reader
