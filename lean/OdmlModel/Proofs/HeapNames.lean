/-
Names and ids through the editing operations (the non-structural half of C04):
every operation leaves names and ids alone, except `rename` (the renamed object) and the
constructors (the new object).
-/
import OdmlModel.Proofs.HeapStep

set_option linter.unusedSimpArgs false
set_option linter.unusedVariables false

namespace Heap

/-- Same size, same names, same ids. -/
def FrameNI (h h' : H) : Prop :=
  h'.size = h.size ∧ ∀ i, (h'.node i).name = (h.node i).name ∧ (h'.node i).id = (h.node i).id

theorem FrameNI.refl (h : H) : FrameNI h h := ⟨rfl, fun _ => ⟨rfl, rfl⟩⟩

theorem FrameNI.trans {a b c : H} (h1 : FrameNI a b) (h2 : FrameNI b c) : FrameNI a c :=
  ⟨h2.1.trans h1.1, fun i => ⟨(h2.2 i).1.trans (h1.2 i).1, (h2.2 i).2.trans (h1.2 i).2⟩⟩

theorem FrameNI.upd {h : H} {i : Nat} {f : Node → Node}
    (hf : ∀ n, (f n).name = n.name ∧ (f n).id = n.id) : FrameNI h (upd h i f) := by
  refine ⟨rfl, fun j => ?_⟩
  unfold Heap.upd; dsimp only
  split
  · exact hf _
  · exact ⟨rfl, rfl⟩

theorem FrameNI.upd_of {h g : H} (hg : FrameNI h g) {i : Nat} {f : Node → Node}
    (hf : ∀ n, (f n).name = n.name ∧ (f n).id = n.id) : FrameNI h (Heap.upd g i f) :=
  hg.trans (FrameNI.upd hf)

theorem removeChild_frame {h h1 : H} {q x : Nat} (hr : removeChild h q x = some h1) :
    FrameNI h h1 := by
  unfold removeChild at hr
  split at hr
  · split at hr
    · cases hr
    · cases hr
      refine FrameNI.upd_of (FrameNI.upd_of (FrameNI.refl _) (by intro n; exact ⟨rfl, rfl⟩)) (by intro n; exact ⟨rfl, rfl⟩)
  · split at hr
    · cases hr
    · split at hr
      · cases hr
      · cases hr
        refine FrameNI.upd_of (FrameNI.upd_of (FrameNI.refl _) (by intro n; exact ⟨rfl, rfl⟩)) (by intro n; exact ⟨rfl, rfl⟩)
  · cases hr

theorem adopt_frame {h h1 : H} {p x : Nat} (hr : adopt h p x = some h1) : FrameNI h h1 := by
  unfold adopt at hr
  split at hr
  · split at hr
    · cases hr; refine FrameNI.upd_of (FrameNI.refl _) (by intro n; exact ⟨rfl, rfl⟩)
    · split at hr
      · cases hr
      · rename_i h2 hrem
        cases hr
        refine FrameNI.upd_of (removeChild_frame hrem) (by intro n; exact ⟨rfl, rfl⟩)
  · cases hr; refine FrameNI.upd_of (FrameNI.refl _) (by intro n; exact ⟨rfl, rfl⟩)

theorem append_frame (h : H) (p x : Nat) : FrameNI h (append h p x).1 := by
  unfold append
  split
  · exact FrameNI.refl _
  · exact FrameNI.refl _
  · exact FrameNI.refl _
  · split
    · exact FrameNI.refl _
    · split
      · exact FrameNI.refl _
      · simp only
        split
        · rename_i h2 had
          exact (FrameNI.upd_of (FrameNI.refl _) (by intro n; exact ⟨rfl, rfl⟩)).trans (adopt_frame had)
        · refine FrameNI.upd_of (FrameNI.refl _) (by intro n; exact ⟨rfl, rfl⟩)
  · split
    · exact FrameNI.refl _
    · simp only
      split
      · rename_i h2 had
        exact (FrameNI.upd_of (FrameNI.refl _) (by intro n; exact ⟨rfl, rfl⟩)).trans (adopt_frame had)
      · refine FrameNI.upd_of (FrameNI.refl _) (by intro n; exact ⟨rfl, rfl⟩)

theorem insert_frame (h : H) (p : Nat) (pos : Int) (x : Nat) : FrameNI h (insert h p pos x).1 := by
  unfold insert
  split
  · exact FrameNI.refl _
  · exact FrameNI.refl _
  · exact FrameNI.refl _
  · split
    · exact FrameNI.refl _
    · split
      · exact FrameNI.refl _
      · simp only
        split
        · rename_i h2 had
          exact (FrameNI.upd_of (FrameNI.refl _) (by intro n; exact ⟨rfl, rfl⟩)).trans (adopt_frame had)
        · refine FrameNI.upd_of (FrameNI.refl _) (by intro n; exact ⟨rfl, rfl⟩)
  · split
    · exact FrameNI.refl _
    · simp only
      split
      · rename_i h2 had
        exact (FrameNI.upd_of (FrameNI.refl _) (by intro n; exact ⟨rfl, rfl⟩)).trans (adopt_frame had)
      · refine FrameNI.upd_of (FrameNI.refl _) (by intro n; exact ⟨rfl, rfl⟩)

theorem appendAll_frame (p : Nat) : ∀ (xs : List Nat) (h : H), FrameNI h (appendAll h p xs).1 := by
  intro xs
  induction xs with
  | nil => intro h; exact FrameNI.refl _
  | cons x xs ih =>
    intro h
    simp only [appendAll]
    have hf := append_frame h p x
    cases ha : append h p x with
    | mk h1 out =>
      rw [ha] at hf
      cases out with
      | ok => exact hf.trans (ih h1)
      | raised e => exact hf

theorem extend_frame (h : H) (p : Nat) (xs : List Nat) : FrameNI h (extend h p xs).1 := by
  unfold extend
  split
  · exact FrameNI.refl _
  · split
    · exact FrameNI.refl _
    · exact appendAll_frame p xs h

theorem remove_frame (h : H) (p x : Nat) : FrameNI h (remove h p x).1 := by
  unfold remove
  split
  · exact FrameNI.refl _
  · split
    · rename_i h1 hr; exact removeChild_frame hr
    · exact FrameNI.refl _

theorem setParent_frame (h : H) (x : Nat) (np : Option Nat) : FrameNI h (setParent h x np).1 := by
  unfold setParent
  split
  · exact FrameNI.refl _
  · split
    · exact FrameNI.refl _
    · split
      · rename_i h1 hr; exact removeChild_frame hr
      · exact FrameNI.refl _
    · rename_i oldv p
      split
      · exact FrameNI.refl _
      · simp only
        generalize (if (h.node x).kind = Kind.sec then nameIn h (h.node p).secs (h.node x).name
          else nameIn h (h.node p).props (h.node x).name) = clash
        by_cases c1 : (decide ((h.node x).parent ≠ some p) && clash) = true
        · rw [if_pos c1]; exact FrameNI.refl _
        rw [if_neg c1]
        by_cases c2 : (decide ((h.node x).parent ≠ some p) && decide ((h.node x).kind = Kind.sec) && cycleCheck h p x) = true
        · rw [if_pos c2]; exact FrameNI.refl _
        rw [if_neg c2]
        split
        · exact FrameNI.refl _
        · rename_i h1 hr
          have f1 : FrameNI h h1 := by
            split at hr
            · exact removeChild_frame hr
            · cases hr; exact FrameNI.refl _
          exact (FrameNI.upd_of f1 (by intro n; exact ⟨rfl, rfl⟩)).trans (append_frame _ p x)

theorem setItem_frame (h : H) (p : Nat) (s : Bool) (key : Int) (v : Nat) :
    FrameNI h (setItem h p s key v).1 := by
  unfold setItem
  cases s with
  | true =>
    simp only [if_true, Bool.not_true, Bool.false_and, Bool.or_false]
    by_cases hp0 : (h.node p).kind = .prop
    · simp only [hp0, decide_true, if_true]; exact FrameNI.refl _
    simp only [hp0, decide_false, Bool.false_eq_true, if_false]
    by_cases hvk' : (h.node v).kind ≠ .sec
    · rw [if_pos hvk']; exact FrameNI.refl _
    rw [if_neg hvk']
    cases hidx : pyIndex (h.node p).secs.length key with
    | none => exact FrameNI.refl _
    | some idx =>
    simp only
    cases hr : (h.node p).secs[idx]? with
    | none => exact FrameNI.refl _
    | some r =>
    simp only
    by_cases hrv : r = v
    · rw [if_pos hrv]; exact FrameNI.refl _
    rw [if_neg hrv]
    by_cases hclash : ((h.node p).secs.any fun o => o != r && (h.node o).name == (h.node v).name) = true
    · rw [if_pos hclash]; exact FrameNI.refl _
    rw [if_neg hclash]
    by_cases hcyc : meetsUp h (h.size + 1) (h.node r).parent v = true
    · rw [if_pos hcyc]; exact FrameNI.refl _
    rw [if_neg hcyc]
    try simp only [Bool.false_eq_true, if_false]
    split
    · exact FrameNI.refl _
    · rename_i h1 hrm
      have f1 : FrameNI h h1 := by
        split at hrm
        · exact removeChild_frame hrm
        · cases hrm; exact FrameNI.refl _
      refine FrameNI.upd_of (FrameNI.upd_of (FrameNI.upd_of f1 (by intro n; exact ⟨rfl, rfl⟩))
        (by intro n; exact ⟨rfl, rfl⟩)) (by intro n; exact ⟨rfl, rfl⟩)
  | false =>
    simp only [Bool.false_eq_true, if_false, Bool.not_false, Bool.true_and]
    by_cases hp0 : (decide ((h.node p).kind = Kind.prop) || decide ((h.node p).kind = Kind.doc)) = true
    · simp only [hp0, if_true]; exact FrameNI.refl _
    simp only [hp0, if_false]
    by_cases hvk' : (h.node v).kind ≠ .prop
    · rw [if_pos hvk']; exact FrameNI.refl _
    rw [if_neg hvk']
    cases hidx : pyIndex (h.node p).props.length key with
    | none => exact FrameNI.refl _
    | some idx =>
    simp only
    cases hr : (h.node p).props[idx]? with
    | none => exact FrameNI.refl _
    | some r =>
    simp only
    by_cases hrv : r = v
    · rw [if_pos hrv]; exact FrameNI.refl _
    rw [if_neg hrv]
    by_cases hclash : ((h.node p).props.any fun o => o != r && (h.node o).name == (h.node v).name) = true
    · rw [if_pos hclash]; exact FrameNI.refl _
    rw [if_neg hclash]
    by_cases hcyc : meetsUp h (h.size + 1) (h.node r).parent v = true
    · rw [if_pos hcyc]; exact FrameNI.refl _
    rw [if_neg hcyc]
    try simp only [Bool.false_eq_true, if_false]
    split
    · exact FrameNI.refl _
    · rename_i h1 hrm
      have f1 : FrameNI h h1 := by
        split at hrm
        · exact removeChild_frame hrm
        · cases hrm; exact FrameNI.refl _
      refine FrameNI.upd_of (FrameNI.upd_of (FrameNI.upd_of f1 (by intro n; exact ⟨rfl, rfl⟩))
        (by intro n; exact ⟨rfl, rfl⟩)) (by intro n; exact ⟨rfl, rfl⟩)

theorem reorder_frame (h : H) (x : Nat) (ni : Int) : FrameNI h (reorder h x ni).1 := by
  unfold reorder
  split
  · exact FrameNI.refl _
  · split
    · exact FrameNI.refl _
    · split
      · exact FrameNI.refl _
      · split
        · split
          · exact FrameNI.refl _
          · refine FrameNI.upd_of (FrameNI.refl _) (by intro n; exact ⟨rfl, rfl⟩)
        · split
          · exact FrameNI.refl _
          · split
            · exact FrameNI.refl _
            · refine FrameNI.upd_of (FrameNI.refl _) (by intro n; exact ⟨rfl, rfl⟩)

/-! ### Names and ids are never empty -/

/-- Every allocated object has a non-empty name and a non-empty id. -/
def NamesNE (h : H) : Prop := ∀ x, x < h.size → (h.node x).name ≠ "" ∧ (h.node x).id ≠ ""

/-- The id texts an operation brings in are non-empty (they are rendered UUIDs). -/
def Op.IdsOk : Op → Prop
  | .construct _ _ id _ _ => id ≠ ""
  | .newId _ (some s) => s ≠ ""
  | _ => True

theorem NamesNE.of_frame {h h' : H} (w : NamesNE h) (f : FrameNI h h') : NamesNE h' := by
  intro x hx
  rw [f.1] at hx
  rw [(f.2 x).1, (f.2 x).2]
  exact w x hx

theorem namesNE_empty : NamesNE empty := by
  intro x hx; exact absurd hx (Nat.not_lt_zero _)

theorem namesNE_alloc {h : H} (w : NamesNE h) (k : Kind) (name id : String) (hid : id ≠ "") :
    NamesNE (alloc h k name id).1 := by
  intro x hx
  by_cases hxs : x = h.size
  · subst hxs
    simp only [alloc, if_true]
    refine ⟨?_, hid⟩
    split
    · exact hid
    · rename_i hn; exact hn
  · have : x < h.size := by simp [alloc] at hx; omega
    simp only [alloc, hxs, if_false]
    exact w x this

theorem rename_result (h : H) (x : Nat) (new : String) :
    (rename h x new).1 = h ∨
    (rename h x new).1 = upd h x (fun n => { n with name := if new = "" then (h.node x).id else new }) := by
  unfold rename
  by_cases hkd : (h.node x).kind = .doc
  · simp only [hkd, if_true]; exact Or.inl trivial
  simp only [hkd, if_false]
  by_cases hsame : (h.node x).name = new
  · simp only [hsame, if_true]; exact Or.inl trivial
  simp only [hsame, if_false]
  generalize (if new = "" then (h.node x).id else new) = new'
  by_cases hc2 : (decide (new = "") && decide ((h.node x).name = new')) = true
  · simp only [hc2, if_true]; exact Or.inl trivial
  simp only [hc2, if_false]
  (repeat' split) <;> first | exact Or.inl rfl | exact Or.inr rfl

theorem namesNE_rename {h : H} (w : NamesNE h) {x : Nat} (new : String) (hxs : x < h.size) :
    NamesNE (rename h x new).1 := by
  rcases rename_result h x new with e | e
  · rw [e]; exact w
  · rw [e]
    intro y hy
    have hy' : y < h.size := hy
    by_cases hyx : y = x
    · subst hyx
      simp only [upd_same]
      refine ⟨?_, (w y hy').2⟩
      split
      · exact (w y hy').2
      · rename_i hn; exact hn
    · rw [upd_other _ _ _ _ hyx]; exact w y hy'

theorem namesNE_step {h : H} (w : NamesNE h) (op : Op) (hid : op.IdsOk) : NamesNE (step h op).1 := by
  unfold step
  by_cases hh : op.handles.any (fun i => i ≥ h.size) = true
  · simp only [hh, if_true]; exact w
  simp only [hh, if_false]
  have hlt : ∀ i ∈ op.handles, i < h.size := by
    intro i hi
    rcases Nat.lt_or_ge i h.size with h1 | h1
    · exact h1
    · exfalso; apply hh; rw [List.any_eq_true]; exact ⟨i, hi, by simpa using h1⟩
  cases op with
  | construct k name id parent argsOk =>
    unfold construct
    cases argsOk with
    | false => exact w
    | true =>
      have wa := namesNE_alloc w k name id hid
      simp only [Bool.not_true, Bool.false_eq_true, if_false]
      cases k with
      | doc => exact wa
      | sec =>
        cases parent with
        | none => exact wa
        | some p =>
          simp only
          have f := setParent_frame (alloc h .sec name id).1 (alloc h .sec name id).2 (some p)
          cases hs : setParent (alloc h .sec name id).1 (alloc h .sec name id).2 (some p) with
          | mk h2 out =>
            rw [hs] at f
            cases out with
            | ok => exact wa.of_frame f
            | raised e => exact w
      | prop =>
        cases parent with
        | none => exact wa
        | some p =>
          simp only
          have f := setParent_frame (alloc h .prop name id).1 (alloc h .prop name id).2 (some p)
          cases hs : setParent (alloc h .prop name id).1 (alloc h .prop name id).2 (some p) with
          | mk h2 out =>
            rw [hs] at f
            cases out with
            | ok => exact wa.of_frame f
            | raised e => exact w
  | append p x => exact w.of_frame (append_frame h p x)
  | insert p pos x => exact w.of_frame (insert_frame h p pos x)
  | extend p xs => exact w.of_frame (extend_frame h p xs)
  | remove p x => exact w.of_frame (remove_frame h p x)
  | setParent x np => exact w.of_frame (setParent_frame h x np)
  | setItem p s key v => exact w.of_frame (setItem_frame h p s key v)
  | reorder x i => exact w.of_frame (reorder_frame h x i)
  | rename x new => exact namesNE_rename w new (hlt x (by simp [Op.handles]))
  | newId x idText =>
    show NamesNE (newId h x idText).1
    unfold newId
    cases idText with
    | none => exact w
    | some s =>
      intro y hy
      have hy' : y < h.size := hy
      by_cases hyx : y = x
      · subst hyx; simp only [upd_same]; exact ⟨(w y hy').1, hid⟩
      · rw [upd_other _ _ _ _ hyx]; exact w y hy'

end Heap
