/-
Lemmas about the recursion budget (`fuel`) of the compound operations of `Model/HeapExt.lean`.

Part A: more budget never changes an answer that is not `.fuel` (no hypothesis at all).
Part B: unmerge / clean answer without `.fuel` once the budget is `3 * size + 2` (well-formed heap).
Part C: merge answers without `.fuel` once the budget is `2 * size + 2`, when destination and
        source are not one below the other.
Part D: the link setter.
-/
import OdmlModel.Proofs.HeapExt

set_option linter.unusedSimpArgs false
set_option linter.unusedVariables false

namespace Heap

/-! ## Part A: more budget does not change an answer -/

theorem kidsLoop_mono {rec rec' : X → Nat → X × Nat × XOut}
    (hr : ∀ t k, (rec t k).2.2 ≠ .fuel → rec' t k = rec t k) (c : Nat) :
    ∀ (ks : List Nat) (s : X), (kidsLoop rec c ks s).2 ≠ .fuel →
      kidsLoop rec' c ks s = kidsLoop rec c ks s := by
  intro ks
  induction ks with
  | nil => intro s _; rfl
  | cons k ks ih =>
    intro s h
    rcases hrk : rec s k with ⟨s1, ck, o⟩
    have hne : o ≠ .fuel := by
      intro ho; subst ho; simp [kidsLoop, hrk] at h
    have e' : rec' s k = (s1, ck, o) := by rw [hr s k (by rw [hrk]; exact hne), hrk]
    cases o with
    | ok =>
      simp only [kidsLoop, hrk, e'] at h ⊢
      rcases hp : s1.prim (.append c ck) with ⟨s2, o2⟩
      cases o2 with
      | ok => simp only [hp] at h ⊢; exact ih s2 h
      | _ => simp only [hp]
    | fuel => exact absurd rfl hne
    | _ => simp only [kidsLoop, hrk, e']

theorem kidsIf_mono {rec rec' : X → Nat → X × Nat × XOut}
    (hr : ∀ t k, (rec t k).2.2 ≠ .fuel → rec' t k = rec t k) (ch : Bool) (c : Nat)
    (ks : List Nat) (s : X) (h : (kidsIf ch rec c ks s).2 ≠ .fuel) :
    kidsIf ch rec' c ks s = kidsIf ch rec c ks s := by
  unfold kidsIf at h ⊢
  cases ch with
  | true => simp only [if_true] at h ⊢; exact kidsLoop_mono hr c ks s h
  | false => rfl

theorem cloneAux_mono (O : Oracle) : ∀ (fuel : Nat) (s : X) (x : Nat) (ch kid : Bool),
    (cloneAux O fuel s x ch kid).2.2 ≠ .fuel →
      cloneAux O (fuel + 1) s x ch kid = cloneAux O fuel s x ch kid := by
  intro fuel
  induction fuel with
  | zero => intro s x ch kid h; simp [cloneAux] at h
  | succ f ih =>
    intro s x ch kid h
    have hr : ∀ (t : X) (k : Nat), ((fun t k => cloneAux O f t k true kid) t k).2.2 ≠ .fuel →
        (fun t k => cloneAux O (f + 1) t k true kid) t k = (fun t k => cloneAux O f t k true kid) t k :=
      fun t k hk => ih t k true kid hk
    rw [cloneAux.eq_2 O s x ch kid (f + 1), cloneAux.eq_2 O s x ch kid f]
    rw [cloneAux.eq_2 O s x ch kid f] at h
    rcases hc : copyObj s x with ⟨s1, c, o⟩
    cases o with
    | ok =>
      simp only [hc] at h ⊢
      by_cases hk : (s.h.node x).kind = .prop
      · simp only [hk, if_true]
      · simp only [hk, if_false] at h ⊢
        rcases h2 : kidsIf ch (fun t k => cloneAux O f t k true kid) c (s.h.node x).secs s1 with ⟨s2, o2⟩
        have hne2 : o2 ≠ .fuel := by
          intro ho; subst ho; simp [h2] at h
        have e2 := kidsIf_mono hr ch c (s.h.node x).secs s1 (by rw [h2]; exact hne2)
        rw [h2] at e2
        cases o2 with
        | ok =>
          simp only [h2, e2] at h ⊢
          rcases h3 : newIdUnless kid O s2 c with ⟨s3, o3⟩
          cases o3 with
          | ok =>
            simp only [h3] at h ⊢
            by_cases hk2 : (s.h.node x).kind = .sec ∧ ch = true
            · simp only [hk2, and_self, if_true] at h ⊢
              rcases h4 : kidsLoop (fun t k => cloneAux O f t k true kid) c (s.h.node x).props s3 with ⟨s4, o4⟩
              have hne4 : o4 ≠ .fuel := by
                intro ho; subst ho; simp [h4] at h
              have e4 := kidsLoop_mono hr c (s.h.node x).props s3 (by rw [h4]; exact hne4)
              rw [h4] at e4
              simp only [e4]
            · simp only [hk2, if_false]
          | _ => simp only [h3]
        | fuel => exact absurd rfl hne2
        | _ => simp only [h2, e2]
    | _ => simp only [hc]

theorem checkAll_mono {rec rec' : Nat → Option Bool} (hr : ∀ o, rec o ≠ none → rec' o = rec o) :
    ∀ (l : List Nat), checkAll rec l ≠ none → checkAll rec' l = checkAll rec l := by
  intro l
  induction l with
  | nil => intro _; rfl
  | cons o os ih =>
    intro h
    rcases hro : rec o with _ | b
    · simp [checkAll, hro] at h
    · have e' : rec' o = some b := by rw [hr o (by rw [hro]; simp), hro]
      cases b with
      | true => simp only [checkAll, hro, e'] at h ⊢; exact ih h
      | false => simp only [checkAll, hro, e']

/-- The two loop bodies of `merge_check`, named. -/
def mcSec (O : Oracle) (f : Nat) (s : X) (dest : Nat) : Nat → Option Bool := fun obj =>
  match containsS O s dest obj with
  | some mine => mergeCheck O f s mine obj
  | none => some true

def mcProp (O : Oracle) (s : X) (dest : Nat) : Nat → Option Bool := fun obj =>
  match containsP s dest obj with
  | some mine => some (O.propOk (s.orig mine) (s.orig obj))
  | none => some true

theorem mergeCheck_succ (O : Oracle) (f : Nat) (s : X) (dest src : Nat) :
    mergeCheck O (f + 1) s dest src =
      if !O.secOk (s.orig dest) (s.orig src) then some false
      else match checkAll (mcSec O f s dest) (s.h.node src).secs with
        | some true => checkAll (mcProp O s dest) (s.h.node src).props
        | r => r := by
  rw [mergeCheck.eq_2]; rfl

theorem mergeCheck_mono (O : Oracle) : ∀ (fuel : Nat) (s : X) (dest src : Nat),
    mergeCheck O fuel s dest src ≠ none →
      mergeCheck O (fuel + 1) s dest src = mergeCheck O fuel s dest src := by
  intro fuel
  induction fuel with
  | zero => intro s dest src h; simp [mergeCheck] at h
  | succ f ih =>
    intro s dest src h
    rw [mergeCheck_succ O (f + 1), mergeCheck_succ O f]
    rw [mergeCheck_succ O f] at h
    cases hs : (!O.secOk (s.orig dest) (s.orig src)) with
    | true => rfl
    | false =>
      simp only [hs, Bool.false_eq_true, if_false] at h ⊢
      have hr : ∀ obj, mcSec O f s dest obj ≠ none → mcSec O (f + 1) s dest obj = mcSec O f s dest obj := by
        intro obj hh
        unfold mcSec at hh ⊢
        cases hcs : containsS O s dest obj with
        | none => rfl
        | some mine => simp only [hcs] at hh ⊢; exact ih s mine obj hh
      rcases h1 : checkAll (mcSec O f s dest) (s.h.node src).secs with _ | b
      · simp [h1] at h
      · have e1 := checkAll_mono hr (s.h.node src).secs (by rw [h1]; simp)
        rw [h1] at e1
        simp only [h1, e1]

theorem nameCheck_mono (O : Oracle) : ∀ (fuel : Nat) (s : X) (dest src : Nat),
    nameCheck O fuel s dest src ≠ none →
      nameCheck O (fuel + 1) s dest src = nameCheck O fuel s dest src := by
  intro fuel
  induction fuel with
  | zero => intro s dest src h; simp [nameCheck] at h
  | succ f ih =>
    intro s dest src h
    rw [nameCheck.eq_2 O s dest src (f + 1), nameCheck.eq_2 O s dest src f]
    rw [nameCheck.eq_2 O s dest src f] at h
    refine checkAll_mono ?_ _ h
    intro obj hh
    cases hcs : containsS O s dest obj with
    | none => rfl
    | some mine => simp only [hcs] at hh ⊢; exact ih s mine obj hh

theorem liveLoop_mono {σ : Type} (lst : σ → List Nat) {body body' : σ → Nat → σ × XOut}
    (hb : ∀ t o, (body t o).2 ≠ .fuel → body' t o = body t o) :
    ∀ (fuel i : Nat) (t : σ), (liveLoop lst body fuel i t).2 ≠ .fuel →
      liveLoop lst body' (fuel + 1) i t = liveLoop lst body fuel i t := by
  intro fuel
  induction fuel with
  | zero => intro i t h; simp [liveLoop] at h
  | succ f ih =>
    intro i t h
    rw [liveLoop.eq_2 lst body' i t (f + 1), liveLoop.eq_2 lst body i t f]
    rw [liveLoop.eq_2 lst body i t f] at h
    cases hl : (lst t)[i]? with
    | none => rfl
    | some obj =>
      simp only [hl] at h ⊢
      rcases hbo : body t obj with ⟨t1, o⟩
      have hne : o ≠ .fuel := by
        intro ho; subst ho; simp [hbo] at h
      have e' : body' t obj = (t1, o) := by rw [hb t obj (by rw [hbo]; exact hne), hbo]
      cases o with
      | ok => simp only [hbo, e'] at h ⊢; exact ih (i + 1) t1 h
      | fuel => exact absurd rfl hne
      | _ => simp only [hbo, e']

theorem cloneAppend_mono (O : Oracle) (f : Nat) (t : X) (dest obj : Nat) (mark : Option Bool)
    (h : (cloneAppend O f t dest obj mark).2 ≠ .fuel) :
    cloneAppend O (f + 1) t dest obj mark = cloneAppend O f t dest obj mark := by
  unfold cloneAppend at h ⊢
  rcases hc : cloneAux O f t obj true false with ⟨t1, c, o⟩
  have hne : o ≠ .fuel := by
    intro ho; subst ho; simp [hc] at h
  have e' := cloneAux_mono O f t obj true false (by rw [hc]; exact hne)
  rw [hc] at e'
  simp only [e']

theorem mergeSecBody_mono (O : Oracle) (f : Nat) {rec rec' : X → Bool → Nat → Nat → X × XOut}
    (hr : ∀ t b m o, (rec t b m o).2 ≠ .fuel → rec' t b m o = rec t b m o)
    (record : Bool) (dest : Nat) (t : X) (obj : Nat)
    (h : (mergeSecBody O f rec record dest t obj).2 ≠ .fuel) :
    mergeSecBody O (f + 1) rec' record dest t obj = mergeSecBody O f rec record dest t obj := by
  unfold mergeSecBody at h ⊢
  cases hcs : containsS O t dest obj with
  | none => simp only [hcs] at h ⊢; exact cloneAppend_mono O f t dest obj _ h
  | some mine => simp only [hcs] at h ⊢; exact hr _ _ _ _ h

theorem mergePropBody_mono (O : Oracle) (f : Nat) (dest : Nat) (t : X) (obj : Nat)
    (h : (mergePropBody O f dest t obj).2 ≠ .fuel) :
    mergePropBody O (f + 1) dest t obj = mergePropBody O f dest t obj := by
  unfold mergePropBody at h ⊢
  cases hcs : containsP t dest obj with
  | none => simp only [hcs] at h ⊢; exact cloneAppend_mono O f t dest obj _ h
  | some mine => rfl

theorem mergeAux_mono (O : Oracle) : ∀ (fuel : Nat) (s : X) (record : Bool) (dest src : Nat),
    (mergeAux O fuel s record dest src).2 ≠ .fuel →
      mergeAux O (fuel + 1) s record dest src = mergeAux O fuel s record dest src := by
  intro fuel
  induction fuel with
  | zero => intro s record dest src h; simp [mergeAux] at h
  | succ f ih =>
    intro s record dest src h
    rw [mergeAux.eq_2 O s record dest src (f + 1), mergeAux.eq_2 O s record dest src f]
    rw [mergeAux.eq_2 O s record dest src f] at h
    rcases h1 : mergeCheck O f s dest src with _ | b1
    · simp [h1] at h
    have e1 := mergeCheck_mono O f s dest src (by rw [h1]; simp)
    rw [h1] at e1
    cases b1 with
    | false => simp only [h1, e1]
    | true =>
    simp only [h1, e1] at h ⊢
    rcases h2 : nameCheck O f s dest src with _ | b2
    · simp [h2] at h
    have e2 := nameCheck_mono O f s dest src (by rw [h2]; simp)
    rw [h2] at e2
    cases b2 with
    | false => simp only [h2, e2]
    | true =>
    simp only [h2, e2] at h ⊢
    rcases h3 : liveLoop (fun t => (t.h.node src).secs)
        (mergeSecBody O f (mergeAux O f) record dest) f 0 s with ⟨s1, o1⟩
    have hne3 : o1 ≠ .fuel := by
      intro ho; subst ho; simp [h3] at h
    have e3 := liveLoop_mono (fun t : X => (t.h.node src).secs)
      (body := mergeSecBody O f (mergeAux O f) record dest)
      (body' := mergeSecBody O (f + 1) (mergeAux O (f + 1)) record dest)
      (fun t o ho => mergeSecBody_mono O f (fun t b m o hh => ih t b m o hh) record dest t o ho)
      f 0 s (by rw [h3]; exact hne3)
    rw [h3] at e3
    cases o1 with
    | ok =>
      simp only [h3, e3] at h ⊢
      rcases h4 : liveLoop (fun t => (t.h.node src).props) (mergePropBody O f dest) f 0 s1 with ⟨s2, o2⟩
      have hne4 : o2 ≠ .fuel := by
        intro ho; subst ho; simp [h4] at h
      have e4 := liveLoop_mono (fun t : X => (t.h.node src).props)
        (body := mergePropBody O f dest) (body' := mergePropBody O (f + 1) dest)
        (fun t o ho => mergePropBody_mono O f dest t o ho) f 0 s1 (by rw [h4]; exact hne4)
      rw [h4] at e4
      simp only [e4, h4]
    | fuel => exact absurd rfl hne3
    | _ => simp only [h3, e3]

theorem unmergeSecBody_mono (O : Oracle) {rec rec' : X → Nat → Nat → X × XOut}
    (hr : ∀ t a b, (rec t a b).2 ≠ .fuel → rec' t a b = rec t a b) (self : Nat)
    (t : X × List Nat) (obj : Nat) (h : (unmergeSecBody O rec self t obj).2 ≠ .fuel) :
    unmergeSecBody O rec' self t obj = unmergeSecBody O rec self t obj := by
  unfold unmergeSecBody at h ⊢
  cases hcs : containsS O t.1 self obj with
  | none => rfl
  | some mine =>
    simp only [hcs] at h ⊢
    by_cases he : O.eq (t.1.orig mine) (t.1.orig obj) = true
    · simp only [he, if_true]
    · simp only [he, if_false] at h ⊢
      rw [hr _ _ _ h]

theorem unmergeAux_mono (O : Oracle) : ∀ (fuel : Nat) (s : X) (self target : Nat),
    (unmergeAux O fuel s self target).2 ≠ .fuel →
      unmergeAux O (fuel + 1) s self target = unmergeAux O fuel s self target := by
  intro fuel
  induction fuel with
  | zero => intro s self target h; simp [unmergeAux] at h
  | succ f ih =>
    intro s self target h
    rw [unmergeAux.eq_2 O s self target (f + 1), unmergeAux.eq_2 O s self target f]
    rw [unmergeAux.eq_2 O s self target f] at h
    by_cases he : O.eq (s.orig self) (s.orig target) = true
    · simp only [he, if_true]
    · simp only [he, if_false] at h ⊢
      rcases h1 : liveLoop (fun t : X × List Nat => (t.1.h.node target).secs)
          (unmergeSecBody O (unmergeAux O f) self) f 0 (s, []) with ⟨t1, o1⟩
      have hne1 : o1 ≠ .fuel := by
        intro ho; subst ho; simp [h1] at h
      have e1 := liveLoop_mono (fun t : X × List Nat => (t.1.h.node target).secs)
        (body := unmergeSecBody O (unmergeAux O f) self)
        (body' := unmergeSecBody O (unmergeAux O (f + 1)) self)
        (fun t o ho => unmergeSecBody_mono O (fun t a b hh => ih t a b hh) self t o ho)
        f 0 (s, []) (by rw [h1]; exact hne1)
      rw [h1] at e1
      cases o1 with
      | ok =>
        simp only [h1, e1] at h ⊢
        rcases h2 : liveLoop (fun t : X × List Nat => (t.1.h.node target).props)
            (unmergePropBody O self) f 0 t1 with ⟨t2, o2⟩
        have hne2 : o2 ≠ .fuel := by
          intro ho; subst ho; simp [h2] at h
        have e2 := liveLoop_mono (fun t : X × List Nat => (t.1.h.node target).props)
          (body := unmergePropBody O self) (body' := unmergePropBody O self)
          (fun t o ho => rfl) f 0 t1 (by rw [h2]; exact hne2)
        rw [h2] at e2
        simp only [e2, h2]
      | fuel => exact absurd rfl hne1
      | _ => simp only [h1, e1]

theorem unmergeIfMerged_mono (O : Oracle) (f : Nat) (s : X) (x : Nat)
    (h : (unmergeIfMerged O f s x).2 ≠ .fuel) :
    unmergeIfMerged O (f + 1) s x = unmergeIfMerged O f s x := by
  unfold unmergeIfMerged at h ⊢
  split
  · rename_i t hk hm
    simp only [hk, hm] at h
    exact unmergeAux_mono O f s x t h
  · rfl

theorem cleanAux_mono (O : Oracle) : ∀ (fuel : Nat) (s : X) (x : Nat),
    (cleanAux O fuel s x).2 ≠ .fuel → cleanAux O (fuel + 1) s x = cleanAux O fuel s x := by
  intro fuel
  induction fuel with
  | zero => intro s x h; simp [cleanAux] at h
  | succ f ih =>
    intro s x h
    rw [cleanAux.eq_2 O s x (f + 1), cleanAux.eq_2 O s x f]
    rw [cleanAux.eq_2 O s x f] at h
    rcases h1 : unmergeIfMerged O f s x with ⟨s1, o1⟩
    have hne1 : o1 ≠ .fuel := by
      intro ho; subst ho; simp [h1] at h
    have e1 := unmergeIfMerged_mono O f s x (by rw [h1]; exact hne1)
    rw [h1] at e1
    cases o1 with
    | ok =>
      simp only [h1, e1] at h ⊢
      exact liveLoop_mono (fun t : X => (t.h.node x).secs)
        (body := fun t i => cleanAux O f t i) (body' := fun t i => cleanAux O (f + 1) t i)
        (fun t o ho => ih t o ho) f 0 s1 h
    | fuel => exact absurd rfl hne1
    | _ => simp only [h1, e1]

theorem cleanIfLinked_mono (O : Oracle) (f : Nat) (s : X) (x : Nat)
    (h : (cleanIfLinked O f s x).2 ≠ .fuel) :
    cleanIfLinked O (f + 1) s x = cleanIfLinked O f s x := by
  unfold cleanIfLinked at h ⊢
  split
  · rename_i hl; simp only [hl, if_true] at h; exact cleanAux_mono O f s x h
  · rfl

theorem relinkAux_mono (O : Oracle) : ∀ (fuel : Nat) (s : X) (x : Nat),
    (relinkAux O fuel s x).2 ≠ .fuel → relinkAux O (fuel + 1) s x = relinkAux O fuel s x := by
  intro fuel
  induction fuel with
  | zero => intro s x h; simp [relinkAux] at h
  | succ f ih =>
    intro s x h
    rw [relinkAux.eq_2 O s x (f + 1), relinkAux.eq_2 O s x f]
    rw [relinkAux.eq_2 O s x f] at h
    cases ho : O.oldLink x with
    | none => rfl
    | some t0 =>
      simp only [ho] at h ⊢
      rcases h1 : cleanIfLinked O f s x with ⟨s1, o1⟩
      have hne1 : o1 ≠ .fuel := by
        intro ho; subst ho; simp [h1] at h
      have e1 := cleanIfLinked_mono O f s x (by rw [h1]; exact hne1)
      rw [h1] at e1
      cases o1 with
      | ok =>
        simp only [h1, e1] at h ⊢
        rcases h2 : mergeAux O f s1 true x t0 with ⟨s2, o2⟩
        have hne2 : o2 ≠ .fuel := by
          intro ho; subst ho; simp [h2] at h
        have e2 := mergeAux_mono O f s1 true x t0 (by rw [h2]; exact hne2)
        rw [h2] at e2
        cases o2 with
        | ok => simp only [h2, e2]
        | fuel => exact absurd rfl hne2
        | raised e =>
          simp only [h2, e2] at h ⊢
          cases hres : s.resolved x with
          | true =>
            simp only [hres, if_true] at h ⊢
            rcases h3 : relinkAux O f s2 x with ⟨s3, o3⟩
            have hne3 : o3 ≠ .fuel := by
              intro ho; subst ho; simp [h3] at h
            have e3 := ih s2 x (by rw [h3]; exact hne3)
            rw [h3] at e3
            simp only [h3, e3]
          | false => rfl
        | runtime =>
          simp only [h2, e2] at h ⊢
          cases hres : s.resolved x with
          | true =>
            simp only [hres, if_true] at h ⊢
            rcases h3 : relinkAux O f s2 x with ⟨s3, o3⟩
            have hne3 : o3 ≠ .fuel := by
              intro ho; subst ho; simp [h3] at h
            have e3 := ih s2 x (by rw [h3]; exact hne3)
            rw [h3] at e3
            simp only [h3, e3]
          | false => rfl
      | fuel => exact absurd rfl hne1
      | _ => simp only [h1, e1]

theorem setLinkAux_mono (O : Oracle) (f : Nat) (s : X) (x : Nat) (v : LinkVal)
    (h : (setLinkAux O f s x v).2 ≠ .fuel) :
    setLinkAux O (f + 1) s x v = setLinkAux O f s x v := by
  unfold setLinkAux at h ⊢
  cases hp : (s.h.node x).parent with
  | none => rfl
  | some p =>
    simp only [hp] at h ⊢
    cases v with
    | none => exact cleanAux_mono O f _ x h
    | falsy => exact cleanAux_mono O f _ x h
    | path tt =>
      cases tt with
      | none => rfl
      | some t =>
        simp only at h ⊢
        rcases h1 : cleanIfLinked O f s x with ⟨s1, o1⟩
        have hne1 : o1 ≠ .fuel := by
          intro ho; subst ho; simp [h1] at h
        have e1 := cleanIfLinked_mono O f s x (by rw [h1]; exact hne1)
        rw [h1] at e1
        cases o1 with
        | ok =>
          simp only [h1, e1] at h ⊢
          rcases h2 : mergeAux O f s1 true x t with ⟨s2, o2⟩
          have hne2 : o2 ≠ .fuel := by
            intro ho; subst ho; simp [h2] at h
          have e2 := mergeAux_mono O f s1 true x t (by rw [h2]; exact hne2)
          rw [h2] at e2
          cases o2 with
          | ok => simp only [h2, e2]
          | fuel => exact absurd rfl hne2
          | raised e =>
            simp only [h2, e2] at h ⊢
            cases hres : s.resolved x with
            | true =>
              simp only [hres, if_true] at h ⊢
              rcases h3 : relinkAux O f s2 x with ⟨s3, o3⟩
              have hne3 : o3 ≠ .fuel := by
                intro ho; subst ho; simp [h3] at h
              have e3 := relinkAux_mono O f s2 x (by rw [h3]; exact hne3)
              rw [h3] at e3
              simp only [h3, e3]
            | false => rfl
          | runtime =>
            simp only [h2, e2] at h ⊢
            cases hres : s.resolved x with
            | true =>
              simp only [hres, if_true] at h ⊢
              rcases h3 : relinkAux O f s2 x with ⟨s3, o3⟩
              have hne3 : o3 ≠ .fuel := by
                intro ho; subst ho; simp [h3] at h
              have e3 := relinkAux_mono O f s2 x (by rw [h3]; exact hne3)
              rw [h3] at e3
              simp only [h3, e3]
            | false => rfl
        | fuel => exact absurd rfl hne1
        | _ => simp only [h1, e1]

/-- One operation of a history: an answer that is not `.fuel` is the answer for every larger budget. -/
theorem stepX_mono (f : Nat) (s : X) (O : Oracle) (op : XOp) (h : (stepX f s O op).2 ≠ .fuel) :
    stepX (f + 1) s O op = stepX f s O op := by
  unfold stepX at h ⊢
  simp only at h ⊢
  split
  · rfl
  · rename_i hg
    simp only [hg, if_false] at h
    cases op with
    | prim p => rfl
    | clone x ch kid =>
      simp only at h ⊢
      rw [cloneAux_mono O f _ x ch kid h]
    | merge dest src =>
      simp only at h ⊢
      split
      · rfl
      · rename_i hk
        simp only [hk, if_false] at h
        exact mergeAux_mono O f _ _ dest src h
    | setLink x v =>
      simp only at h ⊢
      split
      · rfl
      · rename_i hk
        simp only [hk, if_false] at h
        exact setLinkAux_mono O f _ x v h
    | clean x =>
      simp only at h ⊢
      split
      · rfl
      · rename_i hk
        simp only [hk, if_false] at h
        exact cleanAux_mono O f _ x h

/-- From one step of budget to any larger budget. -/
theorem mono_le {α : Type} (F : Nat → α) (good : α → Prop)
    (h : ∀ f, good (F f) → F (f + 1) = F f) :
    ∀ f f', f ≤ f' → good (F f) → F f' = F f := by
  intro f f' hle hg
  induction f' with
  | zero => have : f = 0 := by omega
            subst this; rfl
  | succ n ih =>
    by_cases hn : f = n + 1
    · subst hn; rfl
    · have e := ih (by omega)
      rw [← e] at hg
      rw [h n hg, e]

/-! ## Part B: the budget of unmerge / clean suffices -/

/-- A live loop over a list that never gets longer than `N`, whose rounds keep an invariant and do
    not run out of budget, does not run out of budget when it has `N + 1` rounds. -/
theorem liveLoop_no_fuel {σ : Type} (lst : σ → List Nat) (body : σ → Nat → σ × XOut)
    (Inv : σ → Prop) (N : Nat) (hl : ∀ t, Inv t → (lst t).length ≤ N)
    (hb : ∀ t o, Inv t → o ∈ lst t →
      (body t o).2 ≠ .fuel ∧ ((body t o).2 = .ok → Inv (body t o).1)) :
    ∀ (fuel i : Nat) (t : σ), Inv t → i ≤ N → N + 1 ≤ fuel + i →
      (liveLoop lst body fuel i t).2 ≠ .fuel := by
  intro fuel
  induction fuel with
  | zero => intro i t _ h1 h2; omega
  | succ f ih =>
    intro i t hi h1 h2
    rw [liveLoop.eq_2]
    cases hg : (lst t)[i]? with
    | none => simp
    | some obj =>
      simp only
      have hmem : obj ∈ lst t := List.mem_of_getElem? hg
      have hlt : i < (lst t).length := by
        rcases Nat.lt_or_ge i (lst t).length with h | h
        · exact h
        · rw [List.getElem?_eq_none h] at hg; cases hg
      have hN := hl t hi
      obtain ⟨hnf, hinv⟩ := hb t obj hi hmem
      rcases hbo : body t obj with ⟨t1, o⟩
      rw [hbo] at hnf hinv
      cases o with
      | ok => simp only; exact ih (i + 1) t1 (hinv rfl) (by omega) (by omega)
      | fuel => exact absurd rfl hnf
      | _ => simp

theorem removeAll_no_fuel (self : Nat) : ∀ (l : List Nat) (s : X), (removeAll self l s).2 ≠ .fuel := by
  intro l
  induction l with
  | nil => intro s; simp [removeAll]
  | cons o os ih =>
    intro s
    unfold removeAll
    have hp := prim_no_fuel s (.remove self o)
    rcases hpo : s.prim (.remove self o) with ⟨s1, o1⟩
    rw [hpo] at hp
    cases o1 with
    | ok => simp only; exact ih s1
    | fuel => exact absurd rfl hp
    | _ => simp

/-- Child lists of a well-formed heap are no longer than the number of objects. -/
theorem secs_length_le {h : H} (w : WF h) (p : Nat) : (h.node p).secs.length ≤ h.size :=
  length_le_of_nodup_lt (w.nodupS p) (fun c hc => w.child_lt ((w.memS p c).mp hc).1)

theorem props_length_le {h : H} (w : WF h) (p : Nat) : (h.node p).props.length ≤ h.size :=
  length_le_of_nodup_lt (w.nodupP p) (fun c hc => w.child_lt ((w.memP p c).mp hc).1)

/-- A child Section in a heap that only lost entries relative to `h0` is one step further down
    in `h0`. -/
theorem below_child_detached {h0 h : H} (w0 : WF h0) (hd : Detaches h0 h) {x k : Nat}
    {path : List Nat} (hb : x < h0.size → Below h0 x path) (hk : k ∈ (h.node x).secs) :
    Below h0 k (x :: path) := by
  have hk0 : k ∈ (h0.node x).secs := (hd.2 x).2.2.2.1.subset hk
  have hp : (h0.node k).parent = some x := ((w0.memS x k).mp hk0).1
  exact (hb (w0.parent_lt hp)).child w0 hp

theorem unmergeAux_no_fuel (O : Oracle) {h0 : H} (w0 : WF h0) :
    ∀ (fuel : Nat) (s : X) (self target : Nat) (path : List Nat),
      CInv h0 s.h → (target < h0.size → Below h0 target path) → path.length + 1 ≤ h0.size →
      2 * h0.size + 1 ≤ fuel + path.length →
      (unmergeAux O fuel s self target).2 ≠ .fuel := by
  intro fuel
  induction fuel with
  | zero => intro s self target path _ _ h1 h2; omega
  | succ f ih =>
    intro s self target path hc hb hlen hf
    have hrecinv : ∀ (t : X) (a b : Nat), CInv h0 t.h → CInv h0 (unmergeAux O f t a b).1.h :=
      fun t a b ht => unmergeAux_inv (cinv_remove h0) O f t a b ht
    rw [unmergeAux.eq_2]
    split
    · simp
    · have hsz : ∀ t : X × List Nat, CInv h0 t.1.h → t.1.h.size = h0.size := fun t ht => ht.2.1
      -- the loop over the child Sections of the target
      have f1 := liveLoop_no_fuel (fun t : X × List Nat => (t.1.h.node target).secs)
        (unmergeSecBody O (unmergeAux O f) self) (fun t => CInv h0 t.1.h) h0.size
        (fun t ht => by have := secs_length_le ht.1 target; rw [hsz t ht] at this; exact this)
        (by
          intro t obj ht hm
          refine ⟨?_, fun _ => unmergeSecBody_inv O hrecinv self t obj ht⟩
          unfold unmergeSecBody
          split
          · simp
          · split
            · simp
            · rename_i mine _ _
              have hb' := below_child_detached w0 ht.2 hb hm
              exact ih t.1 mine obj (target :: path) ht (fun _ => hb') (hb'.length w0)
                (by simp only [List.length_cons]; omega))
        f 0 (s, []) hc (Nat.zero_le _) (by omega)
      have i1 := liveLoop_inv (P := CInv h0) (fun t : X × List Nat => t.1.h)
        (fun t => (t.1.h.node target).secs) (unmergeSecBody O (unmergeAux O f) self)
        (fun t o ht => unmergeSecBody_inv O hrecinv self t o ht) f 0 (s, []) hc
      split
      · rename_i t1 heq
        rw [heq] at i1
        have f2 := liveLoop_no_fuel (fun t : X × List Nat => (t.1.h.node target).props)
          (unmergePropBody O self) (fun t => CInv h0 t.1.h) h0.size
          (fun t ht => by have := props_length_le ht.1 target; rw [hsz t ht] at this; exact this)
          (by
            intro t obj ht hm
            refine ⟨?_, fun _ => unmergePropBody_inv O self t obj ht⟩
            unfold unmergePropBody
            split
            · simp
            · split <;> simp)
          f 0 t1 i1 (Nat.zero_le _) (by omega)
        split
        · rename_i t2 heq2
          have f3 := removeAll_no_fuel self t2.2 t2.1
          split
          · split <;> simp
          · rename_i r hne; exact f3
        · rename_i t2 o hne heq2
          rw [heq2] at f2; exact f2
      · rename_i t1 o hne heq
        rw [heq] at f1; exact f1

theorem cleanAux_no_fuel (O : Oracle) {h0 : H} (w0 : WF h0) :
    ∀ (fuel : Nat) (s : X) (x : Nat) (path : List Nat),
      CInv h0 s.h → Below h0 x path → 3 * h0.size + 2 ≤ fuel + path.length →
      (cleanAux O fuel s x).2 ≠ .fuel := by
  intro fuel
  induction fuel with
  | zero => intro s x path _ hb hf; have := hb.length w0; omega
  | succ f ih =>
    intro s x path hc hb hf
    have hlen := hb.length w0
    rw [cleanAux.eq_2]
    have f1 : (unmergeIfMerged O f s x).2 ≠ .fuel := by
      unfold unmergeIfMerged
      split
      · rename_i t _ _
        exact unmergeAux_no_fuel O w0 f s x t [] hc
          (fun ht => ⟨ht, fun p hp => absurd hp List.not_mem_nil, List.nodup_nil⟩)
          (by simp only [List.length_nil]; omega) (by simp only [List.length_nil]; omega)
      · simp
    have i1 := unmergeIfMerged_inv (cinv_remove h0) O f s x hc
    split
    · rename_i s1 heq
      rw [heq] at i1
      exact liveLoop_no_fuel (fun t : X => (t.h.node x).secs) (fun t i => cleanAux O f t i)
        (fun t => CInv h0 t.h) h0.size
        (fun t ht => by have := secs_length_le ht.1 x; rw [ht.2.1] at this; exact this)
        (by
          intro t i ht hm
          refine ⟨?_, fun _ => cleanAux_inv (cinv_remove h0) O f t i ht⟩
          exact ih t i (x :: path) ht (below_child_detached w0 ht.2 (fun _ => hb) hm)
            (by simp only [List.length_cons]; omega))
        f 0 s1 i1 (Nat.zero_le _) (by omega)
    · rename_i r hne
      rcases hr : unmergeIfMerged O f s x with ⟨s1, o1⟩
      rw [hr] at f1
      cases o1 with
      | ok => exact absurd hr (hne s1)
      | fuel => exact absurd rfl f1
      | _ => simp

/-! ## Part C: the budget of merge suffices when destination and source are apart -/

theorem Adds.mono {n m : Nat} {a b : H} (h : Adds n a b) (hm : m ≤ n) : Adds m a b := by
  refine ⟨h.1, fun i hi => ?_⟩
  obtain ⟨k, nm, id', p, ⟨l, e, hl⟩, ⟨q, e2, hq⟩⟩ := h.2 i (by omega)
  exact ⟨k, nm, id', p, ⟨l, e, fun x hx => Nat.le_trans hm (hl x hx)⟩,
    ⟨q, e2, fun x hx => Nat.le_trans hm (hq x hx)⟩⟩

/-- Walking up from an object that existed before additions: the chain is the old chain. -/
theorem anc_adds_old {h h' : H} (w : WF h) (ha : Adds h.size h h') {a i : Nat} (hanc : Anc h' a i)
    (hi : i < h.size) : Anc h a i := by
  induction hanc with
  | refl => exact Anc.refl _
  | @step p c hp _ ih =>
    have hp0 : (h.node c).parent = some p := by rw [← (ha.2 c hi).2.2.2.1]; exact hp
    exact Anc.step hp0 (ih (w.parent_lt hp0))

theorem Anc.above {h : H} {a c p : Nat} (hac : Anc h a c) (hp : (h.node a).parent = some p) :
    Anc h p c := by
  induction hac with
  | refl => exact Anc.step hp (Anc.refl _)
  | step hq _ ih => exact Anc.step hq ih

/-- Two objects above the same object are one above the other. -/
theorem anc_comparable {h : H} {a b x : Nat} (ha : Anc h a x) (hb : Anc h b x) :
    Anc h a b ∨ Anc h b a := by
  induction ha with
  | refl => exact Or.inr hb
  | @step p c hp hap ih =>
    cases hb with
    | refl => exact Or.inl (Anc.step hp hap)
    | step hp' hb' => rw [hp] at hp'; cases hp'; exact ih hb'

/-- Result of a merge into `dest` started in `h`: well-formed, only additions, and nothing that is
    not at or below `dest` has been touched. -/
def MFr (h : H) (dest : Nat) (h' : H) : Prop :=
  MInv h.size h h' ∧ ∀ i, i < h.size → ¬ Anc h dest i → h'.node i = h.node i

theorem MFr.refl {h : H} (w : WF h) (dest : Nat) : MFr h dest h :=
  ⟨⟨w, Adds.refl _ _⟩, fun _ _ _ => rfl⟩

theorem MFr.child {h h1 h2 : H} (w : WF h) {dest mine : Nat} (a : MFr h dest h1)
    (hm : mine ∈ (h1.node dest).secs) (b : MFr h1 mine h2) : MFr h dest h2 := by
  have hsz : h.size ≤ h1.size := a.1.2.1
  refine ⟨⟨b.1.1, a.1.2.trans (b.1.2.mono hsz)⟩, fun i hi hna => ?_⟩
  rw [b.2 i (by omega) ?_, a.2 i hi hna]
  intro hanc
  have hp : (h1.node mine).parent = some dest := ((a.1.1.memS dest mine).mp hm).1
  exact hna (anc_adds_old w a.1.2 (hanc.above hp) hi)

theorem cloneAppend_frame (O : Oracle) (f : Nat) (t : X) (dest obj : Nat) (mark : Option Bool)
    (w : WF t.h) : ∀ i, i < t.h.size → i ≠ dest →
      (cloneAppend O f t dest obj mark).1.h.node i = t.h.node i := by
  intro i hi hne
  unfold cloneAppend
  have h1 := cloneAux_spec O f t obj true false w
  split
  · rename_i t1 c heq
    rw [heq] at h1
    have hck : c < t1.h.size := (h1.ok rfl).1
    have hdet : (t1.h.node c).parent = none := (h1.ok rfl).2
    have hroot : c = t.h.size := h1.root
    rw [prim_h, markCopy_h]
    rcases step_append_detached (p := dest) h1.wf hck hdet with he | ⟨_, _, _, hoth, _, _⟩
    · rw [he]; exact h1.same.2 i hi
    · rw [hoth i hne (by omega)]; exact h1.same.2 i hi
  · rename_i t1 _ o _ heq
    rw [heq] at h1
    exact h1.same.2 i hi

theorem cloneAppend_mfr (O : Oracle) (f : Nat) {h : H} {dest : Nat} (t : X) (obj : Nat)
    (mark : Option Bool) (a : MFr h dest t.h) : MFr h dest (cloneAppend O f t dest obj mark).1.h := by
  refine ⟨cloneAppend_adds O f (Nat.le_refl _) t dest obj mark a.1, fun i hi hna => ?_⟩
  rw [cloneAppend_frame O f t dest obj mark a.1.1 i (Nat.lt_of_lt_of_le hi a.1.2.1)
    (fun e => hna (e ▸ Anc.refl _))]
  exact a.2 i hi hna

theorem containsS_mem {O : Oracle} {t : X} {dest obj mine : Nat} (hc : containsS O t dest obj = some mine) :
    mine ∈ (t.h.node dest).secs := by
  unfold containsS at hc
  exact List.mem_of_find?_eq_some hc

theorem mergeSecBody_mfr (O : Oracle) (f : Nat) {rec : X → Bool → Nat → Nat → X × XOut}
    (hrec : ∀ t b m o, WF t.h → MFr t.h m (rec t b m o).1.h) {h : H} (w : WF h) (record : Bool)
    (dest : Nat) (t : X) (obj : Nat) (a : MFr h dest t.h) :
    MFr h dest (mergeSecBody O f rec record dest t obj).1.h := by
  unfold mergeSecBody
  split
  · rename_i mine hc
    exact a.child w (containsS_mem hc) (hrec _ _ _ _ a.1.1)
  · exact cloneAppend_mfr O f t obj _ a

theorem mergePropBody_mfr (O : Oracle) (f : Nat) {h : H} (dest : Nat) (t : X) (obj : Nat)
    (a : MFr h dest t.h) : MFr h dest (mergePropBody O f dest t obj).1.h := by
  unfold mergePropBody
  split
  · split <;> exact a
  · exact cloneAppend_mfr O f t obj _ a

theorem mergeAux_frame (O : Oracle) : ∀ (fuel : Nat) (t : X) (record : Bool) (dest src : Nat),
    WF t.h → MFr t.h dest (mergeAux O fuel t record dest src).1.h := by
  intro fuel
  induction fuel with
  | zero => intro t record dest src w; exact MFr.refl w dest
  | succ f ih =>
    intro t record dest src w
    rw [mergeAux.eq_2]
    split
    · exact MFr.refl w dest
    · exact MFr.refl w dest
    · split
      · exact MFr.refl w dest
      · exact MFr.refl w dest
      · have h1 := liveLoop_inv (P := MFr t.h dest) (fun t : X => t.h) (fun t => (t.h.node src).secs)
          (mergeSecBody O f (mergeAux O f) record dest)
          (fun t' o ht => mergeSecBody_mfr O f (fun t b m o wt => ih t b m o wt) w record dest t' o ht)
          f 0 t (MFr.refl w dest)
        split
        · rename_i s1 heq
          rw [heq] at h1
          have h2 := liveLoop_inv (P := MFr t.h dest) (fun t : X => t.h) (fun t => (t.h.node src).props)
            (mergePropBody O f dest) (fun t' o ht => mergePropBody_mfr O f dest t' o ht) f 0 s1 h1
          split
          · rename_i s2 heq2; rw [heq2] at h2
            split <;> exact h2
          · rename_i r hne; exact h2
        · rename_i r hne; exact h1

/-- A set of objects of `h0` that is closed under children (the subtree of the source). -/
structure Prot (h0 : H) (P : Nat → Prop) : Prop where
  lt : ∀ x, P x → x < h0.size
  secs : ∀ x, P x → ∀ c ∈ (h0.node x).secs, P c
  props : ∀ x, P x → ∀ c ∈ (h0.node x).props, P c

/-- `cloneAux_no_fuel` for a state in which only the protected objects are known to be as in `h0`
    (the rest of the heap may have grown): a budget of `h0.size` suffices for a protected object. -/
theorem cloneAux_no_fuel_P (O : Oracle) {h0 : H} (w0 : WF h0) {P : Nat → Prop} (hP : Prot h0 P) :
    ∀ (fuel : Nat) (s : X) (x : Nat) (ch kid : Bool) (path : List Nat),
      WF s.h → h0.size ≤ s.h.size → (∀ y, P y → s.h.node y = h0.node y) → P x →
      Below h0 x path → h0.size ≤ fuel + path.length →
      (cloneAux O fuel s x ch kid).2.2 ≠ .fuel := by
  intro fuel
  induction fuel with
  | zero =>
    intro s x ch kid path w hsz hs px b hf
    have := b.length w0; omega
  | succ fuel ih =>
    intro s x ch kid path w hsz hs px b hf
    have hrec : ∀ (t : X) (k : Nat), WF t.h →
        CloneRes t ((fun t k => cloneAux O fuel t k true kid) t k) :=
      fun t k wt => cloneAux_spec O fuel t k true kid wt
    obtain ⟨hc, hok, hh⟩ := copyObj_spec s x
    have hnode : s.h.node x = h0.node x := hs x px
    have hkids : ∀ k, P k → (h0.node k).parent = some x → ∀ t, CloneInv s.h.size s.h.size s.h t.h →
        (cloneAux O fuel t k true kid).2.2 ≠ .fuel := by
      intro k pk hk t inv
      refine ih t k true kid (x :: path) inv.wf (Nat.le_trans hsz inv.same.1) ?_ pk (b.child w0 hk) ?_
      · intro y py
        rw [inv.same.2 y (Nat.lt_of_lt_of_le (hP.lt y py) hsz)]; exact hs y py
      · simp only [List.length_cons]; omega
    unfold cloneAux
    split
    · rename_i s1 c heq
      rw [heq] at hc hh
      simp only at hc hh
      have inv1 : CloneInv s.h.size c s.h s1.h := by
        rw [hh, hc]
        refine ⟨wf_alloc w _ _ _, ⟨by rw [alloc_size]; omega, ?_⟩, by rw [alloc_size]; omega,
          alloc_new_parent _ _ _ _⟩
        intro i hi; exact alloc_other _ _ _ _ (by omega)
      have hcn : s.h.size ≤ c := by omega
      subst hc
      split
      · split
        rename_i s2 o heq2
        have := newIdUnless_no_fuel kid O s1 s.h.size
        rw [heq2] at this; exact this
      · have hS : ∀ k ∈ (s.h.node x).secs, ∀ t, CloneInv s.h.size s.h.size s.h t.h →
            ((fun t k => cloneAux O fuel t k true kid) t k).2.2 ≠ .fuel := by
          intro k hk t inv
          rw [hnode] at hk
          exact hkids k (hP.secs x px k hk) ((w0.memS x k).mp hk).1 t inv
        have hPp : ∀ k ∈ (s.h.node x).props, ∀ t, CloneInv s.h.size s.h.size s.h t.h →
            ((fun t k => cloneAux O fuel t k true kid) t k).2.2 ≠ .fuel := by
          intro k hk t inv
          rw [hnode] at hk
          exact hkids k (hP.props x px k hk) ((w0.memP x k).mp hk).1 t inv
        have h2 := kidsIf_spec hrec hcn ch (s.h.node x).secs s1 inv1
        have f2 : (kidsIf ch (fun t k => cloneAux O fuel t k true kid) s.h.size
            (s.h.node x).secs s1).2 ≠ .fuel := by
          unfold kidsIf
          split
          · exact kidsLoop_no_fuel hrec hcn _ s1 inv1 hS
          · simp
        split
        · rename_i s2 heq2
          rw [heq2] at h2
          have h3 := newIdUnless_spec hcn kid O s2 h2
          have f3 := newIdUnless_no_fuel kid O s2 s.h.size
          split
          · rename_i s3 heq3
            rw [heq3] at h3
            split
            · have f4 := kidsLoop_no_fuel hrec hcn (s.h.node x).props s3 h3 hPp
              split
              rename_i s4 o heq4; rw [heq4] at f4; exact f4
            · simp
          · rename_i s3 o _ heq3; rw [heq3] at f3; exact f3
        · rename_i s2 o _ heq2; rw [heq2] at f2; exact f2
    · rename_i r hne
      exfalso; apply hne; rw [← hok]

theorem checkAll_ne_none {rec : Nat → Option Bool} :
    ∀ (l : List Nat), (∀ o ∈ l, rec o ≠ none) → checkAll rec l ≠ none := by
  intro l
  induction l with
  | nil => intro _; simp [checkAll]
  | cons o os ih =>
    intro h
    have ho := h o List.mem_cons_self
    unfold checkAll
    rcases hro : rec o with _ | b
    · exact absurd hro ho
    · cases b with
      | true => simp only; exact ih (fun o' ho' => h o' (List.mem_cons_of_mem _ ho'))
      | false => simp

theorem mergeCheck_no_fuel (O : Oracle) {h0 : H} (w0 : WF h0) {P : Nat → Prop} (hP : Prot h0 P) :
    ∀ (fuel : Nat) (s : X) (dest src : Nat) (path : List Nat),
      (∀ y, P y → s.h.node y = h0.node y) → P src → Below h0 src path →
      h0.size ≤ fuel + path.length → mergeCheck O fuel s dest src ≠ none := by
  intro fuel
  induction fuel with
  | zero => intro s dest src path hs ps b hf; have := b.length w0; omega
  | succ f ih =>
    intro s dest src path hs ps b hf
    rw [mergeCheck_succ]
    split
    · simp
    · have h1 : checkAll (mcSec O f s dest) (s.h.node src).secs ≠ none := by
        apply checkAll_ne_none
        intro obj hobj
        rw [hs src ps] at hobj
        unfold mcSec
        split
        · rename_i mine _
          exact ih s mine obj (src :: path) hs (hP.secs src ps obj hobj)
            (b.child w0 ((w0.memS src obj).mp hobj).1) (by simp only [List.length_cons]; omega)
        · simp
      have h2 : checkAll (mcProp O s dest) (s.h.node src).props ≠ none := by
        apply checkAll_ne_none
        intro obj _
        unfold mcProp
        split <;> simp
      rcases hc : checkAll (mcSec O f s dest) (s.h.node src).secs with _ | bb
      · exact absurd hc h1
      · cases bb with
        | true => simp only; exact h2
        | false => simp

theorem nameCheck_no_fuel (O : Oracle) {h0 : H} (w0 : WF h0) {P : Nat → Prop} (hP : Prot h0 P) :
    ∀ (fuel : Nat) (s : X) (dest src : Nat) (path : List Nat),
      (∀ y, P y → s.h.node y = h0.node y) → P src → Below h0 src path →
      h0.size ≤ fuel + path.length → nameCheck O fuel s dest src ≠ none := by
  intro fuel
  induction fuel with
  | zero => intro s dest src path hs ps b hf; have := b.length w0; omega
  | succ f ih =>
    intro s dest src path hs ps b hf
    rw [nameCheck.eq_2]
    apply checkAll_ne_none
    intro obj hobj
    rw [hs src ps] at hobj
    split
    · rename_i mine _
      exact ih s mine obj (src :: path) hs (hP.secs src ps obj hobj)
        (b.child w0 ((w0.memS src obj).mp hobj).1) (by simp only [List.length_cons]; omega)
    · simp

theorem cloneAppend_no_fuel (O : Oracle) (f : Nat) (t : X) (dest obj : Nat) (mark : Option Bool)
    (h : (cloneAux O f t obj true false).2.2 ≠ .fuel) : (cloneAppend O f t dest obj mark).2 ≠ .fuel := by
  unfold cloneAppend
  split
  · exact prim_no_fuel _ _
  · rename_i t1 c o _ heq
    rw [heq] at h; exact h

/-- The budget of `merge` suffices. `h0` is the heap in which the protected set `P` (the source
    and everything below it) was fixed; the current heap agrees with it on `P`, and nothing of `P`
    is at or below the destination. -/
theorem mergeAux_no_fuel (O : Oracle) {h0 : H} (w0 : WF h0) {P : Nat → Prop} (hP : Prot h0 P) :
    ∀ (fuel : Nat) (t : X) (record : Bool) (dest src : Nat) (path : List Nat),
      WF t.h → h0.size ≤ t.h.size → (∀ y, P y → t.h.node y = h0.node y) →
      (∀ y, P y → ¬ Anc t.h dest y) → P src → Below h0 src path →
      2 * h0.size + 2 ≤ fuel + path.length →
      (mergeAux O fuel t record dest src).2 ≠ .fuel := by
  intro fuel
  induction fuel with
  | zero => intro t record dest src path w hsz hs hna ps b hf; have := b.length w0; omega
  | succ f ih =>
    intro t record dest src path w hsz hs hna ps b hf
    have hlen := b.length w0
    -- what every intermediate state of the two loops satisfies
    have hs' : ∀ t' : X, MFr t.h dest t'.h → ∀ y, P y → t'.h.node y = h0.node y := by
      intro t' a y py
      rw [a.2 y (Nat.lt_of_lt_of_le (hP.lt y py) hsz) (hna y py)]; exact hs y py
    have hsz' : ∀ t' : X, MFr t.h dest t'.h → h0.size ≤ t'.h.size :=
      fun t' a => Nat.le_trans hsz a.1.2.1
    have hclone : ∀ (t' : X) (obj : Nat) (mark : Option Bool), MFr t.h dest t'.h → P obj →
        (h0.node obj).parent = some src → (cloneAppend O f t' dest obj mark).2 ≠ .fuel := by
      intro t' obj mark a pobj hpar
      exact cloneAppend_no_fuel O f t' dest obj mark
        (cloneAux_no_fuel_P O w0 hP f t' obj true false (src :: path) a.1.1 (hsz' t' a) (hs' t' a)
          pobj (b.child w0 hpar) (by simp only [List.length_cons]; omega))
    rw [mergeAux.eq_2]
    have c1 := mergeCheck_no_fuel O w0 hP f t dest src path hs ps b (by omega)
    have c2 := nameCheck_no_fuel O w0 hP f t dest src path hs ps b (by omega)
    split
    · rename_i hc; exact absurd hc c1
    · simp
    · split
      · rename_i hc; exact absurd hc c2
      · simp
      · have f1 := liveLoop_no_fuel (fun t' : X => (t'.h.node src).secs)
          (mergeSecBody O f (mergeAux O f) record dest) (fun t' => MFr t.h dest t'.h) h0.size
          (fun t' a => by rw [hs' t' a src ps]; exact secs_length_le w0 src)
          (by
            intro t' obj a hm
            rw [hs' t' a src ps] at hm
            refine ⟨?_, fun _ => mergeSecBody_mfr O f
              (fun t b m o wt => mergeAux_frame O f t b m o wt) w record dest t' obj a⟩
            have hpar : (h0.node obj).parent = some src := ((w0.memS src obj).mp hm).1
            unfold mergeSecBody
            split
            · rename_i mine hc
              have hp : (t'.h.node mine).parent = some dest :=
                ((a.1.1.memS dest mine).mp (containsS_mem hc)).1
              exact ih t' _ mine obj (src :: path) a.1.1 (hsz' t' a) (hs' t' a)
                (fun y py hanc => hna y py (anc_adds_old w a.1.2 (hanc.above hp)
                  (Nat.lt_of_lt_of_le (hP.lt y py) hsz)))
                (hP.secs src ps obj hm) (b.child w0 hpar) (by simp only [List.length_cons]; omega)
            · exact hclone t' obj _ a (hP.secs src ps obj hm) hpar)
          f 0 t (MFr.refl w dest) (Nat.zero_le _) (by omega)
        have i1 := liveLoop_inv (P := MFr t.h dest) (fun t : X => t.h) (fun t => (t.h.node src).secs)
          (mergeSecBody O f (mergeAux O f) record dest)
          (fun t' o ht => mergeSecBody_mfr O f (fun t b m o wt => mergeAux_frame O f t b m o wt)
            w record dest t' o ht) f 0 t (MFr.refl w dest)
        split
        · rename_i s1 heq
          rw [heq] at i1
          have f2 := liveLoop_no_fuel (fun t' : X => (t'.h.node src).props)
            (mergePropBody O f dest) (fun t' => MFr t.h dest t'.h) h0.size
            (fun t' a => by rw [hs' t' a src ps]; exact props_length_le w0 src)
            (by
              intro t' obj a hm
              rw [hs' t' a src ps] at hm
              refine ⟨?_, fun _ => mergePropBody_mfr O f dest t' obj a⟩
              have hpar : (h0.node obj).parent = some src := ((w0.memP src obj).mp hm).1
              unfold mergePropBody
              split
              · split <;> simp
              · exact hclone t' obj _ a (hP.props src ps obj hm) hpar)
            f 0 s1 i1 (Nat.zero_le _) (by omega)
          split
          · simp
          · rename_i r hne
            rcases hr : liveLoop (fun t' : X => (t'.h.node src).props) (mergePropBody O f dest) f 0 s1
              with ⟨s2, o2⟩
            rw [hr] at f2
            cases o2 with
            | ok => exact absurd hr (hne s2)
            | fuel => exact absurd rfl f2
            | _ => simp
        · rename_i r hne
          rcases hr : liveLoop (fun t' : X => (t'.h.node src).secs)
              (mergeSecBody O f (mergeAux O f) record dest) f 0 t with ⟨s1, o1⟩
          rw [hr] at f1
          cases o1 with
          | ok => exact absurd hr (hne s1)
          | fuel => exact absurd rfl f1
          | _ => simp

/-! ## Part D: the link setter

After `clean()` the Section is not resolved (`_merged is None`), a refused merge does not change
that, and so the `except` branch (`relinkAux`) does not nest: one more `clean()` and one more merge. -/

/-- An invariant of the loop state that every round keeps. -/
theorem liveLoop_keep {σ : Type} (lst : σ → List Nat) (body : σ → Nat → σ × XOut) (Inv : σ → Prop)
    (hb : ∀ t o, Inv t → o ∈ lst t → Inv (body t o).1) :
    ∀ (fuel i : Nat) (t : σ), Inv t → Inv (liveLoop lst body fuel i t).1 := by
  intro fuel
  induction fuel with
  | zero => intro i t h; exact h
  | succ f ih =>
    intro i t h
    rw [liveLoop.eq_2]
    cases hg : (lst t)[i]? with
    | none => exact h
    | some obj =>
      simp only
      have h1 := hb t obj h (List.mem_of_getElem? hg)
      rcases hbo : body t obj with ⟨t1, o⟩
      rw [hbo] at h1
      cases o with
      | ok => simp only; exact ih (i + 1) t1 h1
      | _ => exact h1

/-! ### unmerge / clean never set `_merged` to a Section -/

theorem removeAll_merged (self : Nat) : ∀ (l : List Nat) (s : X), (removeAll self l s).1.merged = s.merged := by
  intro l
  induction l with
  | nil => intro s; rfl
  | cons o os ih =>
    intro s
    unfold removeAll
    have hp : (s.prim (.remove self o)).1.merged = s.merged := prim_merged _ _
    rcases hpo : s.prim (.remove self o) with ⟨s1, o1⟩
    rw [hpo] at hp
    cases o1 with
    | ok => simp only; rw [ih s1]; exact hp
    | _ => exact hp

theorem setMerged_none_keeps (s : X) (i j : Nat) (h : s.merged j = none) :
    (s.setMerged i none).merged j = none := by
  unfold X.setMerged
  simp only
  split
  · rfl
  · exact h

theorem unmergeAux_none (O : Oracle) (j : Nat) : ∀ (fuel : Nat) (s : X) (self target : Nat),
    s.merged j = none → (unmergeAux O fuel s self target).1.merged j = none := by
  intro fuel
  induction fuel with
  | zero => intro s self target h; exact h
  | succ f ih =>
    intro s self target h
    rw [unmergeAux.eq_2]
    split
    · exact h
    · have i1 := liveLoop_keep (fun t : X × List Nat => (t.1.h.node target).secs)
        (unmergeSecBody O (unmergeAux O f) self) (fun t => t.1.merged j = none)
        (by
          intro t o ht _
          unfold unmergeSecBody
          split
          · exact ht
          · split
            · exact ht
            · exact ih _ _ _ ht) f 0 (s, []) h
      split
      · rename_i t1 heq
        rw [heq] at i1
        have i2 := liveLoop_keep (fun t : X × List Nat => (t.1.h.node target).props)
          (unmergePropBody O self) (fun t => t.1.merged j = none)
          (by
            intro t o ht _
            unfold unmergePropBody
            split
            · exact ht
            · split <;> exact ht) f 0 t1 i1
        split
        · rename_i t2 heq2
          rw [heq2] at i2
          have i3 : (removeAll self t2.2 t2.1).1.merged j = none := by
            rw [removeAll_merged]; exact i2
          split
          · rename_i s3 heq3
            rw [heq3] at i3
            split
            · exact i3
            · exact setMerged_none_keeps _ _ _ i3
          · rename_i r hne; exact i3
        · rename_i t2 o hne heq2; rw [heq2] at i2; exact i2
      · rename_i t1 o hne heq; rw [heq] at i1; exact i1

/-- An `unmerge` that succeeds leaves `self._merged = None`. -/
theorem unmergeAux_ok_self (O : Oracle) (fuel : Nat) (s : X) (self target : Nat)
    (h : (unmergeAux O fuel s self target).2 = .ok) :
    (unmergeAux O fuel s self target).1.merged self = none := by
  cases fuel with
  | zero => simp [unmergeAux] at h
  | succ f =>
    rw [unmergeAux.eq_2] at h ⊢
    split at h
    · cases h
    · rename_i he
      simp only [he, if_false] at ⊢
      rcases h1 : liveLoop (fun t : X × List Nat => (t.1.h.node target).secs)
          (unmergeSecBody O (unmergeAux O f) self) f 0 (s, []) with ⟨t1, o1⟩
      rw [h1] at h
      cases o1 with
      | ok =>
        simp only at h ⊢
        rcases h2 : liveLoop (fun t : X × List Nat => (t.1.h.node target).props)
            (unmergePropBody O self) f 0 t1 with ⟨t2, o2⟩
        rw [h2] at h
        cases o2 with
        | ok =>
          simp only at h ⊢
          rcases h3 : removeAll self t2.2 t2.1 with ⟨s3, o3⟩
          rw [h3] at h
          cases o3 with
          | ok =>
            simp only at h ⊢
            split at h
            · cases h
            · rename_i hc
              simp only [hc, if_false]
              unfold X.setMerged
              simp
          | _ => simp at h
        | _ => simp at h
      | _ => simp at h

theorem unmergeIfMerged_none (O : Oracle) (j : Nat) (f : Nat) (s : X) (x : Nat)
    (h : s.merged j = none) : (unmergeIfMerged O f s x).1.merged j = none := by
  unfold unmergeIfMerged
  split
  · exact unmergeAux_none O j f s x _ h
  · exact h

theorem cleanAux_none (O : Oracle) (j : Nat) : ∀ (fuel : Nat) (s : X) (x : Nat),
    s.merged j = none → (cleanAux O fuel s x).1.merged j = none := by
  intro fuel
  induction fuel with
  | zero => intro s x h; exact h
  | succ f ih =>
    intro s x h
    rw [cleanAux.eq_2]
    have h1 := unmergeIfMerged_none O j f s x h
    split
    · rename_i s1 heq
      rw [heq] at h1
      exact liveLoop_keep (fun t : X => (t.h.node x).secs) (fun t i => cleanAux O f t i)
        (fun t => t.merged j = none) (fun t o ht _ => ih t o ht) f 0 s1 h1
    · rename_i r hne; exact h1

/-- A `clean()` of a Section that succeeds leaves it unresolved. -/
theorem cleanAux_ok_self (O : Oracle) (fuel : Nat) (s : X) (x : Nat) (hk : (s.h.node x).kind = .sec)
    (h : (cleanAux O fuel s x).2 = .ok) : (cleanAux O fuel s x).1.merged x = none := by
  cases fuel with
  | zero => simp [cleanAux] at h
  | succ f =>
    rw [cleanAux.eq_2] at h ⊢
    have h1 : (unmergeIfMerged O f s x).2 = .ok → (unmergeIfMerged O f s x).1.merged x = none := by
      unfold unmergeIfMerged
      cases hm : s.merged x with
      | none =>
        intro _
        split
        · rename_i t _ hh; cases hh
        · exact hm
      | some t =>
        simp only [hk]
        exact unmergeAux_ok_self O f s x t
    rcases hu : unmergeIfMerged O f s x with ⟨s1, o1⟩
    rw [hu] at h h1
    cases o1 with
    | ok =>
      simp only at h ⊢
      exact liveLoop_keep (fun t : X => (t.h.node x).secs) (fun t i => cleanAux O f t i)
        (fun t => t.merged x = none) (fun t o ht _ => cleanAux_none O x f t o ht) f 0 s1 (h1 rfl)
    | _ => simp at h

/-! ### clone and merge set `_merged` only on copies and strictly below the destination -/

theorem copyObj_merged (s : X) (x i : Nat) (hi : i ≠ s.h.size) :
    (copyObj s x).1.merged i = s.merged i := by
  unfold copyObj
  simp only
  split
  · simp only [hi, if_false]
    rename_i s1 heq
    have : s1.merged = s.merged := by rw [← prim_merged s, heq]
    rw [this]
  · rename_i s1 o hne heq
    have : s1.merged = s.merged := by rw [← prim_merged s, heq]
    rw [this]

theorem newIdUnless_merged (kid : Bool) (O : Oracle) (s : X) (c : Nat) :
    (newIdUnless kid O s c).1.merged = s.merged := by
  unfold newIdUnless
  split
  · rfl
  · exact prim_merged _ _

theorem kidsLoop_merged {rec : X → Nat → X × Nat × XOut}
    (hrec : ∀ t k, WF t.h → CloneRes t (rec t k)) {n c : Nat} {h0 : H} (hcn : n ≤ c) {i : Nat}
    (hrm : ∀ t k, CloneInv n c h0 t.h → (rec t k).1.merged i = t.merged i) :
    ∀ (ks : List Nat) (s : X), CloneInv n c h0 s.h → (kidsLoop rec c ks s).1.merged i = s.merged i := by
  intro ks
  induction ks with
  | nil => intro s _; rfl
  | cons k ks ih =>
    intro s h
    obtain ⟨inv1, inv2⟩ := kids_step_inv hrec hcn s k h
    have hm := hrm s k h
    unfold kidsLoop
    split
    · rename_i s1 ck heq
      rw [heq] at inv2 hm
      have i2 := inv2 rfl
      simp only at i2 hm
      have hpm : (s1.prim (.append c ck)).1.merged = s1.merged := prim_merged _ _
      split
      · rename_i s2 heq2
        rw [heq2] at i2 hpm
        rw [ih s2 i2, hpm]; exact hm
      · rename_i s2 o hne heq2
        rw [heq2] at hpm
        simp only at hpm ⊢
        rw [hpm]; exact hm
    · rename_i s1 _ o hne heq
      rw [heq] at hm; exact hm

theorem cloneAux_merged_old (O : Oracle) : ∀ (fuel : Nat) (s : X) (x : Nat) (ch kid : Bool),
    WF s.h → ∀ i, i < s.h.size → (cloneAux O fuel s x ch kid).1.merged i = s.merged i := by
  intro fuel
  induction fuel with
  | zero => intro s x ch kid w i hi; rfl
  | succ fuel ih =>
    intro s x ch kid w i hi
    have hrec : ∀ (t : X) (k : Nat), WF t.h →
        CloneRes t ((fun t k => cloneAux O fuel t k true kid) t k) :=
      fun t k wt => cloneAux_spec O fuel t k true kid wt
    obtain ⟨hc, hok, hh⟩ := copyObj_spec s x
    have hcm := copyObj_merged s x i (Nat.ne_of_lt hi)
    unfold cloneAux
    split
    · rename_i s1 c heq
      rw [heq] at hc hh hcm
      simp only at hc hh hcm
      have inv1 : CloneInv s.h.size c s.h s1.h := by
        rw [hh, hc]
        refine ⟨wf_alloc w _ _ _, ⟨by rw [alloc_size]; omega, ?_⟩, by rw [alloc_size]; omega,
          alloc_new_parent _ _ _ _⟩
        intro j hj; exact alloc_other _ _ _ _ (by omega)
      have hcn : s.h.size ≤ c := by omega
      have hrm : ∀ (t : X) (k : Nat), CloneInv s.h.size c s.h t.h →
          ((fun t k => cloneAux O fuel t k true kid) t k).1.merged i = t.merged i :=
        fun t k inv => ih t k true kid inv.wf i (Nat.lt_of_lt_of_le hi inv.same.1)
      split
      · split
        rename_i s2 o heq2
        have := newIdUnless_merged kid O s1 c
        rw [heq2] at this
        simp only at this ⊢
        rw [this]; exact hcm
      · have h2 := kidsIf_spec hrec hcn ch (s.h.node x).secs s1 inv1
        have m2 : (kidsIf ch (fun t k => cloneAux O fuel t k true kid) c
            (s.h.node x).secs s1).1.merged i = s1.merged i := by
          unfold kidsIf
          split
          · exact kidsLoop_merged hrec hcn hrm _ s1 inv1
          · rfl
        split
        · rename_i s2 heq2
          rw [heq2] at h2 m2
          simp only at m2
          have h3 := newIdUnless_spec hcn kid O s2 h2
          have m3 := newIdUnless_merged kid O s2 c
          split
          · rename_i s3 heq3
            rw [heq3] at h3 m3
            simp only at m3
            split
            · have m4 := kidsLoop_merged hrec hcn hrm (s.h.node x).props s3 h3
              split
              rename_i s4 o heq4
              rw [heq4] at m4
              simp only at m4 ⊢
              rw [m4, m3, m2]; exact hcm
            · simp only; rw [m3, m2]; exact hcm
          · rename_i s3 o _ heq3
            rw [heq3] at m3
            simp only at m3 ⊢
            rw [m3, m2]; exact hcm
        · rename_i s2 o _ heq2
          rw [heq2] at m2
          simp only at m2 ⊢
          rw [m2]; exact hcm
    · rename_i r hne
      exfalso; apply hne; rw [← hok]

theorem cloneAppend_merged (O : Oracle) (f : Nat) (t : X) (dest obj : Nat) (mark : Option Bool)
    (w : WF t.h) (i : Nat) (hi : i < t.h.size) :
    (cloneAppend O f t dest obj mark).1.merged i = t.merged i := by
  unfold cloneAppend
  have h1 := cloneAux_spec O f t obj true false w
  have hm := cloneAux_merged_old O f t obj true false w i hi
  split
  · rename_i t1 c heq
    rw [heq] at h1 hm
    have hroot : c = t.h.size := h1.root
    rw [prim_merged]
    simp only at hm
    cases mark with
    | none => exact hm
    | some record =>
      unfold X.markCopy X.setMerged
      simp only
      rw [if_neg (by omega)]; exact hm
  · rename_i t1 _ o _ heq
    rw [heq] at hm; exact hm

/-- No object is below one of its own children. -/
theorem not_anc_child {h : H} (w : WF h) {c p : Nat} (hp : (h.node c).parent = some p) :
    ¬ Anc h c p := by
  intro ha
  obtain ⟨d, hd⟩ := w.rank
  have h1 := Anc.rank_le hd ha
  have h2 := hd c p hp
  omega

/-- `_merged` of an object that is not strictly below the destination is not changed by a merge;
    that of the destination itself is not changed by a merge that does not succeed. -/
theorem mergeAux_keep (O : Oracle) : ∀ (fuel : Nat) (t : X) (record : Bool) (dest src i : Nat),
    WF t.h → i < t.h.size → (¬ Anc t.h dest i ∨ i = dest) →
    (i = dest → (mergeAux O fuel t record dest src).2 ≠ .ok) →
    (mergeAux O fuel t record dest src).1.merged i = t.merged i := by
  intro fuel
  induction fuel with
  | zero => intro t record dest src i w hi hd hne; rfl
  | succ f ih =>
    intro t record dest src i w hi hd hne
    -- the invariant of both loops
    have hcl : ∀ (t' : X) (obj : Nat) (mark : Option Bool),
        (MFr t.h dest t'.h ∧ t'.merged i = t.merged i) →
        (MFr t.h dest (cloneAppend O f t' dest obj mark).1.h ∧
          (cloneAppend O f t' dest obj mark).1.merged i = t.merged i) := by
      intro t' obj mark a
      refine ⟨cloneAppend_mfr O f t' obj mark a.1, ?_⟩
      rw [cloneAppend_merged O f t' dest obj mark a.1.1.1 i (Nat.lt_of_lt_of_le hi a.1.1.2.1)]
      exact a.2
    have i1 := liveLoop_keep (fun t' : X => (t'.h.node src).secs)
      (mergeSecBody O f (mergeAux O f) record dest)
      (fun t' => MFr t.h dest t'.h ∧ t'.merged i = t.merged i)
      (by
        intro t' obj a _
        refine ⟨mergeSecBody_mfr O f (fun t b m o wt => mergeAux_frame O f t b m o wt) w record
          dest t' obj a.1, ?_⟩
        unfold mergeSecBody
        split
        · rename_i mine hc
          have hp : (t'.h.node mine).parent = some dest :=
            ((a.1.1.1.memS dest mine).mp (containsS_mem hc)).1
          have hna : ¬ Anc t'.h mine i := by
            rcases hd with hd | hd
            · exact fun hanc => hd (anc_adds_old w a.1.1.2 (hanc.above hp) hi)
            · rw [hd]; exact not_anc_child a.1.1.1 hp
          rw [ih t' _ mine obj i a.1.1.1 (Nat.lt_of_lt_of_le hi a.1.1.2.1) (Or.inl hna)
            (fun e => absurd (e ▸ Anc.refl _) hna)]
          exact a.2
        · exact (hcl t' obj _ a).2) f 0 t ⟨MFr.refl w dest, rfl⟩
    rw [mergeAux.eq_2] at hne ⊢
    split
    · rfl
    · rfl
    · rename_i hmc
      simp only [hmc] at hne
      split
      · rfl
      · rfl
      · rename_i hnc
        simp only [hnc] at hne
        rcases h1 : liveLoop (fun t' : X => (t'.h.node src).secs)
            (mergeSecBody O f (mergeAux O f) record dest) f 0 t with ⟨s1, o1⟩
        rw [h1] at i1 hne
        cases o1 with
        | ok =>
          simp only at hne ⊢
          have i2 := liveLoop_keep (fun t' : X => (t'.h.node src).props)
            (mergePropBody O f dest) (fun t' => MFr t.h dest t'.h ∧ t'.merged i = t.merged i)
            (by
              intro t' obj a _
              unfold mergePropBody
              split
              · split <;> exact a
              · exact hcl t' obj _ a) f 0 s1 i1
          rcases h2 : liveLoop (fun t' : X => (t'.h.node src).props)
              (mergePropBody O f dest) f 0 s1 with ⟨s2, o2⟩
          rw [h2] at i2 hne
          cases o2 with
          | ok =>
            simp only at hne ⊢
            have hid : i ≠ dest := fun e => hne e rfl
            split
            · unfold X.setMerged
              simp only [hid, if_false]; exact i2.2
            · exact i2.2
          | _ => exact i2.2
        | _ => exact i1.2

/-! ### The hypothesis "apart" and the top-level statements -/

theorem anc_detaches {h0 h : H} (hd : Detaches h0 h) {a c : Nat} (ha : Anc h a c) : Anc h0 a c := by
  induction ha with
  | refl => exact Anc.refl _
  | @step p c hp _ ih =>
    rcases (hd.2 c).2.2.1 with e | e
    · rw [e] at hp; exact Anc.step hp ih
    · rw [e] at hp; cases hp

/-- `a` and `b` are not one below the other (nor the same object): the library's own
    `_check_no_cycle` walk, from each of the two, does not meet the other. -/
def apart (h : H) (a b : Nat) : Bool := !cycleCheck h a b && !cycleCheck h b a

theorem apart_spec {h : H} (w : WF h) {a b : Nat} (hab : apart h a b = true) :
    ¬ Anc h b a ∧ ¬ Anc h a b := by
  unfold apart at hab
  simp only [Bool.and_eq_true, Bool.not_eq_true'] at hab
  exact ⟨meetsUp_false w hab.1, meetsUp_false w hab.2⟩

/-- The objects at or below `src` form a protected set. -/
theorem prot_subtree {h : H} (w : WF h) {src : Nat} (hs : src < h.size) :
    Prot h (fun x => Anc h src x) := by
  refine ⟨?_, ?_, ?_⟩
  · intro x ha
    cases ha with
    | refl => exact hs
    | step hp _ => exact w.child_lt hp
  · intro x ha c hc
    exact Anc.step ((w.memS x c).mp hc).1 ha
  · intro x ha c hc
    exact Anc.step ((w.memP x c).mp hc).1 ha

/-- `merge` terminates when source and destination are apart: a budget of `2 * size + 2`. -/
theorem mergeAux_no_fuel_apart (O : Oracle) (fuel : Nat) (t : X) (record : Bool) (dest src : Nat)
    (w : WF t.h) (hs : src < t.h.size) (h1 : ¬ Anc t.h src dest) (h2 : ¬ Anc t.h dest src)
    (hf : 2 * t.h.size + 2 ≤ fuel) : (mergeAux O fuel t record dest src).2 ≠ .fuel :=
  mergeAux_no_fuel O w (prot_subtree w hs) fuel t record dest src [] w (Nat.le_refl _)
    (fun _ _ => rfl)
    (fun y hy hd => by
      rcases anc_comparable hy hd with h | h
      · exact h1 h
      · exact h2 h)
    (Anc.refl _) ⟨hs, fun p hp => absurd hp List.not_mem_nil, List.nodup_nil⟩
    (by simpa using hf)

theorem cleanIfLinked_no_fuel (O : Oracle) (fuel : Nat) (s : X) (x : Nat) (w : WF s.h)
    (hx : x < s.h.size) (hf : 3 * s.h.size + 2 ≤ fuel) : (cleanIfLinked O fuel s x).2 ≠ .fuel := by
  unfold cleanIfLinked
  split
  · exact cleanAux_no_fuel O w fuel s x [] ⟨w, Detaches.refl _⟩
      ⟨hx, fun p hp => absurd hp List.not_mem_nil, List.nodup_nil⟩ (by simpa using hf)
  · simp

/-- The `except` branch of the link setter, started from a Section that is not resolved: one
    `clean()` and one merge, no nesting. -/
theorem relinkAux_no_fuel_unresolved (O : Oracle) (fuel : Nat) (s : X) (x : Nat) (w : WF s.h)
    (hx : x < s.h.size) (hr : s.resolved x = false)
    (ho : ∀ t0, O.oldLink x = some t0 → t0 < s.h.size ∧ ¬ Anc s.h t0 x ∧ ¬ Anc s.h x t0)
    (hf : 3 * s.h.size + 3 ≤ fuel) : (relinkAux O fuel s x).2 ≠ .fuel := by
  cases fuel with
  | zero => omega
  | succ f =>
    rw [relinkAux.eq_2]
    cases hol : O.oldLink x with
    | none => simp
    | some t0 =>
      simp only
      obtain ⟨ht0, ha1, ha2⟩ := ho t0 hol
      have c1 := cleanIfLinked_no_fuel O f s x w hx (by omega)
      have i1 : CInv s.h (cleanIfLinked O f s x).1.h :=
        cleanIfLinked_inv (cinv_remove s.h) O f s x ⟨w, Detaches.refl _⟩
      rcases hcl : cleanIfLinked O f s x with ⟨s1, o1⟩
      rw [hcl] at c1 i1
      cases o1 with
      | ok =>
        simp only
        have hsz : s1.h.size = s.h.size := i1.2.1
        have m1 := mergeAux_no_fuel_apart O f s1 true x t0 i1.1 (by rw [hsz]; exact ht0)
          (fun h => ha1 (anc_detaches i1.2 h)) (fun h => ha2 (anc_detaches i1.2 h))
          (by rw [hsz]; omega)
        rcases hm : mergeAux O f s1 true x t0 with ⟨s2, o2⟩
        rw [hm] at m1
        cases o2 with
        | ok => simp
        | fuel => exact absurd rfl m1
        | raised e => simp only [hr]; simp
        | runtime => simp only [hr]; simp
      | fuel => exact absurd rfl c1
      | _ => simp

/-- The budget that suffices for `x.link = v`: for a path that designates a Section `t`, three times
    the number of objects after the merge of `t` (run with the budget of the plain case) plus 3;
    `3 * size + 2` otherwise. -/
def linkBudget (O : Oracle) (s : X) (x : Nat) : LinkVal → Nat
  | .path (some t) =>
    3 * (mergeAux O (3 * s.h.size + 2) (cleanIfLinked O (3 * s.h.size + 2) s x).1 true x t).1.h.size + 3
  | _ => 3 * s.h.size + 2

theorem setLinkAux_no_fuel (O : Oracle) (fuel : Nat) (s : X) (x : Nat) (v : LinkVal) (w : WF s.h)
    (hx : x < s.h.size) (hk : (s.h.node x).kind = .sec)
    (hv : ∀ t, v = .path (some t) → t < s.h.size ∧ ¬ Anc s.h t x ∧ ¬ Anc s.h x t)
    (ho : s.resolved x = true →
      ∀ t0, O.oldLink x = some t0 → t0 < s.h.size ∧ ¬ Anc s.h t0 x ∧ ¬ Anc s.h x t0)
    (hf : linkBudget O s x v ≤ fuel) : (setLinkAux O fuel s x v).2 ≠ .fuel := by
  unfold setLinkAux
  cases hp : (s.h.node x).parent with
  | none => simp
  | some p =>
    simp only
    have hclean : ∀ fuel', 3 * s.h.size + 2 ≤ fuel' →
        (cleanAux O fuel' (s.setLink x false) x).2 ≠ .fuel := fun fuel' hf' =>
      cleanAux_no_fuel O w fuel' (s.setLink x false) x [] ⟨w, Detaches.refl _⟩
        ⟨hx, fun p hp => absurd hp List.not_mem_nil, List.nodup_nil⟩ (by simpa using hf')
    cases v with
    | none => exact hclean fuel hf
    | falsy => exact hclean fuel hf
    | path tt =>
      cases tt with
      | none => simp
      | some t =>
        simp only
        obtain ⟨ht, ha1, ha2⟩ := hv t rfl
        -- the run with the base budget
        have c0 := cleanIfLinked_no_fuel O (3 * s.h.size + 2) s x w hx (Nat.le_refl _)
        have i0 : CInv s.h (cleanIfLinked O (3 * s.h.size + 2) s x).1.h :=
          cleanIfLinked_inv (cinv_remove s.h) O _ s x ⟨w, Detaches.refl _⟩
        have hsz1 : (cleanIfLinked O (3 * s.h.size + 2) s x).1.h.size = s.h.size := i0.2.1
        have m0 := mergeAux_no_fuel_apart O (3 * s.h.size + 2)
          (cleanIfLinked O (3 * s.h.size + 2) s x).1 true x t i0.1 (by rw [hsz1]; exact ht)
          (fun h => ha1 (anc_detaches i0.2 h)) (fun h => ha2 (anc_detaches i0.2 h))
          (by rw [hsz1]; omega)
        have fr0 := mergeAux_frame O (3 * s.h.size + 2)
          (cleanIfLinked O (3 * s.h.size + 2) s x).1 true x t i0.1
        have hge : s.h.size ≤ (mergeAux O (3 * s.h.size + 2)
            (cleanIfLinked O (3 * s.h.size + 2) s x).1 true x t).1.h.size := by
          have := fr0.1.2.1; omega
        have hf' : 3 * (mergeAux O (3 * s.h.size + 2)
            (cleanIfLinked O (3 * s.h.size + 2) s x).1 true x t).1.h.size + 3 ≤ fuel := hf
        have hfb : 3 * s.h.size + 2 ≤ fuel := by omega
        -- the same results with the actual budget
        have e1 : cleanIfLinked O fuel s x = cleanIfLinked O (3 * s.h.size + 2) s x :=
          mono_le (fun f => cleanIfLinked O f s x) (fun r => r.2 ≠ .fuel)
            (fun f hh => cleanIfLinked_mono O f s x hh) _ _ hfb c0
        rw [e1]
        rcases h1 : cleanIfLinked O (3 * s.h.size + 2) s x with ⟨s1, o1⟩
        rw [h1] at c0 i0 hsz1 m0 fr0 hge hf'
        simp only at i0 hsz1 m0 fr0 hge hf'
        cases o1 with
        | ok =>
          simp only
          have e2 : mergeAux O fuel s1 true x t = mergeAux O (3 * s.h.size + 2) s1 true x t :=
            mono_le (fun f => mergeAux O f s1 true x t) (fun r => r.2 ≠ .fuel)
              (fun f hh => mergeAux_mono O f s1 true x t hh) _ _ hfb m0
          rw [e2]
          -- after a successful clean the Section is not resolved
          have hm1 : s.resolved x = true → s1.merged x = none := by
            intro hres
            have hl : s.link x = true := by
              unfold X.resolved at hres
              simp only [Bool.and_eq_true] at hres
              exact hres.2
            have hc : cleanIfLinked O (3 * s.h.size + 2) s x = cleanAux O (3 * s.h.size + 2) s x := by
              unfold cleanIfLinked; simp only [hl, if_true]
            have := cleanAux_ok_self O (3 * s.h.size + 2) s x hk (by rw [← hc, h1])
            rw [← hc, h1] at this; exact this
          have hk1 := mergeAux_keep O (3 * s.h.size + 2) s1 true x t x i0.1 (by rw [hsz1]; exact hx)
            (Or.inr rfl)
          rcases h2 : mergeAux O (3 * s.h.size + 2) s1 true x t with ⟨s2, o2⟩
          rw [h2] at m0 fr0 hge hf' hk1
          simp only at m0 fr0 hge hf' hk1
          have hrel : o2 ≠ .ok → s.resolved x = true → (relinkAux O fuel s2 x).2 ≠ .fuel := by
            intro hne hres
            have hm2 : s2.merged x = none := by rw [hk1 (fun _ => hne)]; exact hm1 hres
            refine relinkAux_no_fuel_unresolved O fuel s2 x fr0.1.1 (by omega) ?_ ?_ hf'
            · unfold X.resolved; rw [hm2]; rfl
            · intro t0 hol
              obtain ⟨ht0, hb1, hb2⟩ := ho hres t0 hol
              refine ⟨by omega, ?_, ?_⟩
              · intro h
                exact hb1 (anc_detaches i0.2 (anc_adds_old i0.1 fr0.1.2 h (by rw [hsz1]; exact hx)))
              · intro h
                exact hb2 (anc_detaches i0.2 (anc_adds_old i0.1 fr0.1.2 h (by rw [hsz1]; exact ht0)))
          cases o2 with
          | ok => simp
          | fuel => exact absurd rfl m0
          | raised e =>
            simp only
            cases hres : s.resolved x with
            | false => simp
            | true =>
              simp only [if_true]
              have := hrel (by simp) hres
              rcases h3 : relinkAux O fuel s2 x with ⟨s3, o3⟩
              rw [h3] at this
              cases o3 with
              | fuel => exact absurd rfl this
              | _ => simp
          | runtime =>
            simp only
            cases hres : s.resolved x with
            | false => simp
            | true =>
              simp only [if_true]
              have := hrel (by simp) hres
              rcases h3 : relinkAux O fuel s2 x with ⟨s3, o3⟩
              rw [h3] at this
              cases o3 with
              | fuel => exact absurd rfl this
              | _ => simp
        | fuel => exact absurd rfl c0
        | _ => simp

/-- The plain case of the link setter: the Section is not resolved when the assignment begins
    (it has no link, or one that is only stored). Budget `3 * size + 2`. -/
theorem setLinkAux_no_fuel_unresolved (O : Oracle) (fuel : Nat) (s : X) (x : Nat) (v : LinkVal)
    (w : WF s.h) (hx : x < s.h.size) (hr : s.resolved x = false)
    (hv : ∀ t, v = .path (some t) → t < s.h.size ∧ ¬ Anc s.h t x ∧ ¬ Anc s.h x t)
    (hf : 3 * s.h.size + 2 ≤ fuel) : (setLinkAux O fuel s x v).2 ≠ .fuel := by
  unfold setLinkAux
  cases hp : (s.h.node x).parent with
  | none => simp
  | some p =>
    simp only
    have hclean : (cleanAux O fuel (s.setLink x false) x).2 ≠ .fuel :=
      cleanAux_no_fuel O w fuel (s.setLink x false) x [] ⟨w, Detaches.refl _⟩
        ⟨hx, fun p hp => absurd hp List.not_mem_nil, List.nodup_nil⟩ (by simpa using hf)
    cases v with
    | none => exact hclean
    | falsy => exact hclean
    | path tt =>
      cases tt with
      | none => simp
      | some t =>
        simp only
        obtain ⟨ht, ha1, ha2⟩ := hv t rfl
        have c0 := cleanIfLinked_no_fuel O fuel s x w hx hf
        have i0 : CInv s.h (cleanIfLinked O fuel s x).1.h :=
          cleanIfLinked_inv (cinv_remove s.h) O _ s x ⟨w, Detaches.refl _⟩
        rcases h1 : cleanIfLinked O fuel s x with ⟨s1, o1⟩
        rw [h1] at c0 i0
        cases o1 with
        | ok =>
          simp only
          have hsz1 : s1.h.size = s.h.size := i0.2.1
          have m0 := mergeAux_no_fuel_apart O fuel s1 true x t i0.1 (by rw [hsz1]; exact ht)
            (fun h => ha1 (anc_detaches i0.2 h)) (fun h => ha2 (anc_detaches i0.2 h))
            (by rw [hsz1]; omega)
          rcases h2 : mergeAux O fuel s1 true x t with ⟨s2, o2⟩
          rw [h2] at m0
          cases o2 with
          | ok => simp
          | fuel => exact absurd rfl m0
          | raised e => simp only [hr]; simp
          | runtime => simp only [hr]; simp
        | fuel => exact absurd rfl c0
        | _ => simp

/-- The decidable form of the hypothesis of the link setter theorems: the Section designated by a
    path is apart from `x`, and - only needed when the link of `x` is resolved, so that a refused
    merge makes the setter resolve the previous link again - so is the Section the previous link
    designates. -/
def linkApart (O : Oracle) (s : X) (x : Nat) (v : LinkVal) : Bool :=
  (match v with
   | .path (some t) => apart s.h x t
   | _ => true) &&
  (!s.resolved x ||
   match O.oldLink x with
   | some t0 => decide (t0 < s.h.size) && apart s.h x t0
   | none => true)

theorem linkApart_spec {O : Oracle} {s : X} {x : Nat} {v : LinkVal} (w : WF s.h)
    (h : linkApart O s x v = true) :
    (∀ t, v = .path (some t) → ¬ Anc s.h t x ∧ ¬ Anc s.h x t) ∧
    (s.resolved x = true →
      ∀ t0, O.oldLink x = some t0 → t0 < s.h.size ∧ ¬ Anc s.h t0 x ∧ ¬ Anc s.h x t0) := by
  unfold linkApart at h
  simp only [Bool.and_eq_true] at h
  obtain ⟨h1, h2⟩ := h
  refine ⟨?_, ?_⟩
  · intro t hv
    subst hv
    exact apart_spec w h1
  · intro hres t0 hol
    rw [hres, hol] at h2
    simp only [Bool.not_true, Bool.false_or, Bool.and_eq_true, decide_eq_true_eq] at h2
    exact ⟨h2.1, apart_spec w h2.2⟩
