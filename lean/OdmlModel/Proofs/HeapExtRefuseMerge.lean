/-
Refusals of the compound operations (property C06), part 2c: a merge whose pre-checks pass
never raises.

`merge_check` and `_merge_name_check` are evaluated once, before the first change; the loops of
`_merge` run later, in states in which the destination has already grown. The checks answer for
the later states as well, because (i) what the recursion into a child `mine` of the destination
changes lies below `mine` (`mergeAux_frame`), the checks for another pair `(mine', obj')` only read
below `mine'` and `obj'` (`mergeCheck_congr`), and different children have disjoint subtrees;
(ii) the copies appended to the destination carry the names of earlier children of the source,
which differ from the names of the later ones (`WF.namesS`, `WF.namesP`). Needed for that: the
source does not lie inside the destination nor the destination inside the source.
-/
import OdmlModel.Proofs.HeapExtRefuseFrame

set_option linter.unusedSimpArgs false
set_option linter.unusedVariables false

namespace Heap.Refuse

/-! ### lists -/

theorem find_append_congr {p q : Nat → Bool} : ∀ (l1 l2 : List Nat), (∀ m ∈ l1, p m = q m) →
    (∀ c ∈ l2, p c = false) → (l1 ++ l2).find? p = l1.find? q := by
  intro l1
  induction l1 with
  | nil =>
    intro l2 _ h2
    rw [List.nil_append, List.find?_nil, List.find?_eq_none]
    intro x hx; simp [h2 x hx]
  | cons a l1 ih =>
    intro l2 h1 h2
    have ha := h1 a List.mem_cons_self
    simp only [List.cons_append, List.find?_cons, ha]
    cases q a
    · exact ih l2 (fun m hm => h1 m (List.mem_cons_of_mem _ hm)) h2
    · rfl

theorem nodup_getElem?_inj : ∀ {l : List Nat}, l.Nodup → ∀ {i k a : Nat}, l[i]? = some a →
    l[k]? = some a → i = k := by
  intro l
  induction l with
  | nil => intro _ i k a hi _; simp at hi
  | cons b l ih =>
    intro hn i k a hi hk
    obtain ⟨hnb, hnl⟩ := List.nodup_cons.mp hn
    cases i with
    | zero =>
      cases k with
      | zero => rfl
      | succ k =>
        simp at hi hk; subst hi
        exact absurd (List.mem_of_getElem? hk) hnb
    | succ i =>
      cases k with
      | zero =>
        simp at hi hk; subst hk
        exact absurd (List.mem_of_getElem? hi) hnb
      | succ k =>
        simp at hi hk
        rw [ih hnl hi hk]

/-! ### the checking loops -/

theorem checkAll_true {rec : Nat → Option Bool} : ∀ (l : List Nat), checkAll rec l = some true →
    ∀ o ∈ l, rec o = some true := by
  intro l
  induction l with
  | nil => intro _ o ho; cases ho
  | cons a l ih =>
    intro h o ho
    unfold checkAll at h
    split at h
    · rename_i heq
      rcases List.mem_cons.mp ho with e | e
      · rw [e]; exact heq
      · exact ih h o e
    · rename_i hne
      exact absurd h hne

theorem checkAll_congr {rec rec' : Nat → Option Bool} : ∀ (l : List Nat),
    (∀ o ∈ l, rec o = rec' o) → checkAll rec l = checkAll rec' l := by
  intro l
  induction l with
  | nil => intro _; rfl
  | cons a l ih =>
    intro h
    unfold checkAll
    rw [h a List.mem_cons_self, ih (fun o ho => h o (List.mem_cons_of_mem _ ho))]

/-- the loop bodies of `merge_check` / `_merge_name_check`, named -/
def mcSec (O : Oracle) (f : Nat) (s : X) (dest : Nat) : Nat → Option Bool := fun obj =>
  match containsS O s dest obj with
  | some mine => mergeCheck O f s mine obj
  | none => some true

def mcProp (O : Oracle) (s : X) (dest : Nat) : Nat → Option Bool := fun obj =>
  match containsP s dest obj with
  | some mine => some (O.propOk (s.orig mine) (s.orig obj))
  | none => some true

def ncSec (O : Oracle) (f : Nat) (s : X) (dest : Nat) : Nat → Option Bool := fun obj =>
  match containsS O s dest obj with
  | some mine => nameCheck O f s mine obj
  | none => some (!nameIn s.h (s.h.node dest).secs (s.h.node obj).name)

theorem mergeCheck_succ (O : Oracle) (f : Nat) (s : X) (dest src : Nat) :
    mergeCheck O (f + 1) s dest src =
      if !O.secOk (s.orig dest) (s.orig src) then some false
      else
        match checkAll (mcSec O f s dest) (s.h.node src).secs with
        | some true => checkAll (mcProp O s dest) (s.h.node src).props
        | r => r := rfl

theorem nameCheck_succ (O : Oracle) (f : Nat) (s : X) (dest src : Nat) :
    nameCheck O (f + 1) s dest src = checkAll (ncSec O f s dest) (s.h.node src).secs := rfl

theorem mergeCheck_pass {O : Oracle} {f : Nat} {s : X} {dest src : Nat}
    (h : mergeCheck O (f + 1) s dest src = some true) :
    (∀ obj ∈ (s.h.node src).secs, mcSec O f s dest obj = some true) ∧
    (∀ obj ∈ (s.h.node src).props, mcProp O s dest obj = some true) := by
  rw [mergeCheck_succ] at h
  split at h
  · cases h
  · split at h
    · rename_i heq
      exact ⟨checkAll_true _ heq, checkAll_true _ h⟩
    · rename_i hne
      exact absurd h hne

theorem nameCheck_pass {O : Oracle} {f : Nat} {s : X} {dest src : Nat}
    (h : nameCheck O (f + 1) s dest src = some true) :
    ∀ obj ∈ (s.h.node src).secs, ncSec O f s dest obj = some true := by
  rw [nameCheck_succ] at h
  exact checkAll_true _ h

/-! ### `contains` in a later state -/

theorem containsS_ext {O : Oracle} {s t : X} {dest obj : Nat} {l : List Nat}
    (hd : (t.h.node dest).secs = (s.h.node dest).secs ++ l)
    (hobj : (t.h.node obj).name = (s.h.node obj).name ∧ t.orig obj = s.orig obj)
    (hk : ∀ m ∈ (s.h.node dest).secs,
      (t.h.node m).name = (s.h.node m).name ∧ t.orig m = s.orig m)
    (hl : ∀ c ∈ l, (t.h.node c).name ≠ (s.h.node obj).name) :
    containsS O t dest obj = containsS O s dest obj := by
  unfold containsS
  rw [hd]
  apply find_append_congr
  · intro m hm
    rw [hobj.1, hobj.2, (hk m hm).1, (hk m hm).2]
  · intro c hc
    have : ((t.h.node obj).name == (t.h.node c).name) = false := by
      rw [hobj.1]; exact beq_false_of_ne (Ne.symm (hl c hc))
    rw [this, Bool.false_and]

theorem containsP_ext {s t : X} {dest obj : Nat} {l : List Nat}
    (hd : (t.h.node dest).props = (s.h.node dest).props ++ l)
    (hobj : (t.h.node obj).name = (s.h.node obj).name)
    (hk : ∀ m ∈ (s.h.node dest).props, (t.h.node m).name = (s.h.node m).name)
    (hl : ∀ c ∈ l, (t.h.node c).name ≠ (s.h.node obj).name) :
    containsP t dest obj = containsP s dest obj := by
  unfold containsP
  rw [hd]
  apply find_append_congr
  · intro m hm
    rw [hobj, hk m hm]
  · intro c hc
    rw [hobj]; exact beq_false_of_ne (Ne.symm (hl c hc))

/-- `t` agrees with `s` on everything at or below `a`. -/
def AgreeBelow (s t : X) (a : Nat) : Prop :=
  ∀ j, Anc s.h a j → t.h.node j = s.h.node j ∧ t.orig j = s.orig j

theorem AgreeBelow.child {s t : X} {a c : Nat} (h : AgreeBelow s t a)
    (hp : (s.h.node c).parent = some a) : AgreeBelow s t c :=
  fun j hj => h j (anc_trans (Anc.step hp (Anc.refl a)) hj)

theorem containsS_agree {O : Oracle} {s t : X} {dest obj : Nat} (w : WF s.h)
    (hd : AgreeBelow s t dest)
    (hobj : t.h.node obj = s.h.node obj ∧ t.orig obj = s.orig obj) :
    containsS O t dest obj = containsS O s dest obj := by
  apply containsS_ext (l := [])
  · rw [(hd dest (Anc.refl _)).1, List.append_nil]
  · exact ⟨by rw [hobj.1], hobj.2⟩
  · intro m hm
    have := hd m (Anc.step ((w.memS dest m).mp hm).1 (Anc.refl _))
    exact ⟨by rw [this.1], this.2⟩
  · intro c hc; cases hc

theorem containsP_agree {s t : X} {dest obj : Nat} (w : WF s.h)
    (hd : AgreeBelow s t dest) (hobj : t.h.node obj = s.h.node obj) :
    containsP t dest obj = containsP s dest obj := by
  apply containsP_ext (l := [])
  · rw [(hd dest (Anc.refl _)).1, List.append_nil]
  · rw [hobj]
  · intro m hm
    have := hd m (Anc.step ((w.memP dest m).mp hm).1 (Anc.refl _))
    rw [this.1]
  · intro c hc; cases hc

/-- `merge_check(dest, src)` only reads at and below `dest` and `src`. -/
theorem mergeCheck_congr (O : Oracle) : ∀ (f : Nat) (s t : X) (dest src : Nat), WF s.h →
    AgreeBelow s t dest → AgreeBelow s t src →
    mergeCheck O f t dest src = mergeCheck O f s dest src := by
  intro f
  induction f with
  | zero => intro s t dest src _ _ _; rfl
  | succ f ih =>
    intro s t dest src w hd hs
    rw [mergeCheck_succ, mergeCheck_succ]
    have hsn := (hs src (Anc.refl _)).1
    have hS : checkAll (mcSec O f t dest) (t.h.node src).secs =
        checkAll (mcSec O f s dest) (s.h.node src).secs := by
      rw [hsn]
      apply checkAll_congr
      intro obj hobj
      have hop := ((w.memS src obj).mp hobj).1
      have hso := hs.child hop
      unfold mcSec
      rw [containsS_agree w hd (hso obj (Anc.refl _))]
      split
      · rename_i mine hc
        exact ih s t mine obj w (hd.child ((w.memS dest mine).mp (containsS_mem hc).1).1) hso
      · rfl
    have hP : checkAll (mcProp O t dest) (t.h.node src).props =
        checkAll (mcProp O s dest) (s.h.node src).props := by
      rw [hsn]
      apply checkAll_congr
      intro obj hobj
      have hop := ((w.memP src obj).mp hobj).1
      have hso := hs.child hop
      unfold mcProp
      rw [containsP_agree w hd (hso obj (Anc.refl _)).1]
      split
      · rename_i mine hc
        have hm := hd mine (Anc.step ((w.memP dest mine).mp (containsP_mem hc).1).1 (Anc.refl _))
        rw [hm.2, (hso obj (Anc.refl _)).2]
      · rfl
    rw [hS, hP, (hd dest (Anc.refl _)).2, (hs src (Anc.refl _)).2]

theorem nameCheck_congr (O : Oracle) : ∀ (f : Nat) (s t : X) (dest src : Nat), WF s.h →
    AgreeBelow s t dest → AgreeBelow s t src →
    nameCheck O f t dest src = nameCheck O f s dest src := by
  intro f
  induction f with
  | zero => intro s t dest src _ _ _; rfl
  | succ f ih =>
    intro s t dest src w hd hs
    rw [nameCheck_succ, nameCheck_succ]
    have hsn := (hs src (Anc.refl _)).1
    rw [hsn]
    apply checkAll_congr
    intro obj hobj
    have hop := ((w.memS src obj).mp hobj).1
    have hso := hs.child hop
    unfold ncSec
    rw [containsS_agree w hd (hso obj (Anc.refl _))]
    split
    · rename_i mine hc
      exact ih s t mine obj w (hd.child ((w.memS dest mine).mp (containsS_mem hc).1).1) hso
    · rw [(hd dest (Anc.refl _)).1, (hso obj (Anc.refl _)).1]
      congr 2
      apply nameIn_congr
      intro m hm
      rw [(hd m (Anc.step ((w.memS dest m).mp hm).1 (Anc.refl _))).1]

end Heap.Refuse
