/-
Deadlock freedom of M-Loader (C18 `progress`).

Invariant `InvP`: every `loading` entry and every `join` frame names an existing (hence
started) loader thread whose root key is the joined key; the bottom frame of a loader thread
is a frame of the `_load` body for its root key.  Together with `Inv` (stack invariant: every
frame above another one loads an include of the lower frame's document) the waits-for edges
go strictly down `rank`, so a chain of blocked threads ends in an enabled one.
-/
import OdmlModel.Model.Loader
import OdmlModel.Proofs.Loader

set_option linter.unusedSimpArgs false
set_option linter.unusedVariables false

namespace Loader

/-! ## Thread references -/

/-- `t` is the id of an existing loader thread that was started for key `k`. -/
def ThrRef (ts : List Thr) (k : Key) (t : Nat) : Prop :=
  ∃ i, t = i + 1 ∧ (ts.map (·.root))[i]? = some k

theorem setThr_roots (ts : List Thr) (i : Nat) (st : List Frame) :
    (setThr ts i st).map (·.root) = ts.map (·.root) := by
  induction ts generalizing i with
  | nil => rfl
  | cons th ts ih =>
    cases i with
    | zero => simp [setThr]
    | succ i => simp [setThr, ih]

theorem setThr_length (ts : List Thr) (i : Nat) (st : List Frame) :
    (setThr ts i st).length = ts.length := by
  have := congrArg List.length (setThr_roots ts i st)
  simpa using this

theorem thrRef_setThr (ts : List Thr) (i : Nat) (st : List Frame) (k : Key) (t : Nat)
    (h : ThrRef ts k t) : ThrRef (setThr ts i st) k t := by
  obtain ⟨j, rfl, hj⟩ := h
  exact ⟨j, rfl, by rw [setThr_roots]; exact hj⟩

theorem thrRef_append (ts xs : List Thr) (k : Key) (t : Nat) (h : ThrRef ts k t) :
    ThrRef (ts ++ xs) k t := by
  obtain ⟨j, rfl, hj⟩ := h
  refine ⟨j, rfl, ?_⟩
  rw [List.map_append]
  have hlt : j < (ts.map (·.root)).length := by
    rcases Nat.lt_or_ge j (ts.map (·.root)).length with h | h
    · exact h
    · rw [List.getElem?_eq_none h] at hj; cases hj
  rw [List.getElem?_append_left hlt]
  exact hj

theorem thrRef_new (ts : List Thr) (k : Key) (st : List Frame) :
    ThrRef (ts ++ [⟨k, st⟩]) k (ts.length + 1) := by
  refine ⟨ts.length, rfl, ?_⟩
  simp [List.map_append]

theorem thrRef_get (ts : List Thr) (k : Key) (t : Nat) (h : ThrRef ts k t) :
    ∃ i th, t = i + 1 ∧ ts[i]? = some th ∧ th.root = k := by
  obtain ⟨j, rfl, hj⟩ := h
  rw [List.getElem?_map] at hj
  cases hth : ts[j]? with
  | none => rw [hth] at hj; cases hj
  | some th =>
    rw [hth] at hj
    simp only [Option.map_some, Option.some.injEq] at hj
    exact ⟨j, th, rfl, hth, hj⟩

/-- The thread list after the transition of thread `t`. -/
def threadsAfter (ts : List Thr) (t : Nat) (st : List Frame) (sp : Option Key) : List Thr :=
  (match t with | 0 => ts | i + 1 => setThr ts i st) ++
    (match sp with | none => [] | some k => [⟨k, [.start k]⟩])

theorem spawn_threads (s : State) (sh' : Shared) (t : Nat) (st : List Frame) (sp : Option Key) :
    (spawnThread (setStack { s with sh := sh' } t st) sp).threads = threadsAfter s.threads t st sp := by
  cases sp <;> cases t <;> simp [spawnThread, setStack, threadsAfter]

theorem thrRef_after (ts : List Thr) (t : Nat) (st : List Frame) (sp : Option Key) (k : Key) (j : Nat)
    (h : ThrRef ts k j) : ThrRef (threadsAfter ts t st sp) k j := by
  unfold threadsAfter
  apply thrRef_append
  cases t with
  | zero => exact h
  | succ i => exact thrRef_setThr _ _ _ _ _ h

theorem thrRef_after_new (ts : List Thr) (t : Nat) (st : List Frame) (k : Key) :
    ThrRef (threadsAfter ts t st (some k)) k (ts.length + 1) := by
  unfold threadsAfter
  cases t with
  | zero => exact thrRef_new ts k _
  | succ i =>
    have := thrRef_new (setThr ts i st) k [.start k]
    rw [setThr_length] at this
    exact this

/-! ## Frames of the `_load` body -/

/-- Frames of the `_load` body: what a loader thread's bottom frame can be. -/
def IsBody : Frame → Prop
  | .start _ => True
  | .fin _ _ _ _ _ => True
  | .pub _ _ => True
  | _ => False

theorem advance_body (k : Key) (todo : List Url) (acc : List Tree) (id : Nat) :
    IsBody (advance k todo acc id) := by
  cases todo <;> simp [advance, IsBody]

theorem beginLoad_body (g : Url → Res) (sh : Shared) (k : Key) (sh' : Shared) (fs : List Frame)
    (hb : beginLoad g sh k = (sh', .cont fs)) : ∀ x ∈ fs, IsBody x := by
  unfold beginLoad at hb
  generalize fetch g sh k = p at hb
  obtain ⟨sh1, r⟩ := p
  cases r with
  | missing => simp at hb
  | garbage =>
    simp only at hb
    split at hb
    · simp at hb
    · simp only [Prod.mk.injEq, Next.cont.injEq] at hb
      obtain ⟨_, rfl⟩ := hb
      intro x hx
      simp at hx
      subst hx
      simp [IsBody]
  | doc incs =>
    simp only [Prod.mk.injEq, Next.cont.injEq] at hb
    obtain ⟨_, rfl⟩ := hb
    intro x hx
    simp at hx
    subst hx
    exact advance_body _ _ _ _

/-- What the frames put on the stack by one transition can be: body frames, `load`, `pop`, or
    a `join` of the thread recorded in `loading`. -/
def NewFrameOK (sh : Shared) : Frame → Prop
  | .join k t => sh.loading k = some t
  | _ => True

theorem body_newFrameOK (sh : Shared) (x : Frame) (h : IsBody x) : NewFrameOK sh x := by
  cases x <;> simp [IsBody] at h <;> simp [NewFrameOK]

theorem topStep_new (g : Url → Res) (sh : Shared) (ntid : Nat) (f : Frame)
    (sh' : Shared) (fs : List Frame) (sp : Option Key)
    (hs : topStep g sh ntid f = (sh', .cont fs, sp)) :
    (∀ x ∈ fs, NewFrameOK sh x) ∧ (IsBody f → ∀ x, fs.getLast? = some x → IsBody x) := by
  cases f with
  | start k =>
    simp only [topStep] at hs
    generalize hb : beginLoad g sh k = p at hs
    obtain ⟨s, n⟩ := p
    simp only [Prod.mk.injEq] at hs
    obtain ⟨rfl, rfl, _⟩ := hs
    have := beginLoad_body g sh k _ _ hb
    exact ⟨fun x hx => body_newFrameOK sh x (this x hx),
           fun _ x hx => this x (List.mem_of_getLast? hx)⟩
  | load k =>
    simp only [topStep] at hs
    cases hl : sh.loaded k with
    | some v => simp [hl] at hs
    | none =>
      cases hlg : sh.loading k with
      | some t =>
        simp only [hl, hlg, Prod.mk.injEq, Next.cont.injEq] at hs
        obtain ⟨_, rfl, _⟩ := hs
        refine ⟨?_, fun h => by simp [IsBody] at h⟩
        intro x hx
        simp at hx
        subst hx
        exact hlg
      | none =>
        simp only [hl, hlg] at hs
        generalize hb : beginLoad g sh k = p at hs
        obtain ⟨s, n⟩ := p
        simp only [Prod.mk.injEq] at hs
        obtain ⟨rfl, rfl, _⟩ := hs
        have := beginLoad_body g sh k _ _ hb
        exact ⟨fun x hx => body_newFrameOK sh x (this x hx), fun h => by simp [IsBody] at h⟩
  | join k t =>
    simp only [topStep, Prod.mk.injEq, Next.cont.injEq] at hs
    obtain ⟨_, rfl, _⟩ := hs
    refine ⟨?_, fun h => by simp [IsBody] at h⟩
    intro x hx; simp at hx; subst hx; trivial
  | pop k =>
    simp only [topStep, Prod.mk.injEq, Next.cont.injEq] at hs
    obtain ⟨_, rfl, _⟩ := hs
    refine ⟨?_, fun h => by simp [IsBody] at h⟩
    intro x hx; simp at hx; subst hx; trivial
  | fin k todo acc id aw =>
    cases aw with
    | true =>
      simp only [topStep, Prod.mk.injEq, Next.cont.injEq] at hs
      obtain ⟨_, rfl, _⟩ := hs
      refine ⟨?_, ?_⟩
      · intro x hx; simp at hx; subst hx; trivial
      · intro _ x hx; simp at hx; subst hx; trivial
    | false =>
      cases todo with
      | nil =>
        simp only [topStep, Prod.mk.injEq, Next.cont.injEq] at hs
        obtain ⟨_, rfl, _⟩ := hs
        refine ⟨?_, ?_⟩
        · intro x hx; simp at hx; subst hx
          exact body_newFrameOK sh _ (advance_body _ _ _ _)
        · intro _ x hx; simp at hx; subst hx; exact advance_body _ _ _ _
      | cons u todo =>
        simp only [topStep] at hs
        generalize deferSection sh ntid (tkey u) = p at hs
        obtain ⟨s, spw⟩ := p
        simp only [Prod.mk.injEq, Next.cont.injEq] at hs
        obtain ⟨_, rfl, _⟩ := hs
        refine ⟨?_, ?_⟩
        · intro x hx
          simp at hx
          rcases hx with rfl | rfl <;> trivial
        · intro _ x hx
          simp [List.getLast?_cons_cons] at hx
          subst hx; trivial
  | pub k v =>
    simp only [topStep] at hs
    cases hl : sh.loaded k <;> simp [hl] at hs
  | defer k =>
    simp only [topStep] at hs
    generalize deferSection sh ntid k = p at hs
    obtain ⟨s, spw⟩ := p
    simp at hs
  | clear k =>
    simp only [topStep, Prod.mk.injEq, Next.cont.injEq] at hs
    obtain ⟨_, rfl, _⟩ := hs
    refine ⟨?_, fun h => by simp [IsBody] at h⟩
    intro x hx; simp at hx; subst hx; trivial

/-! ## The invariant -/

def JoinsOK (ts : List Thr) (st : List Frame) : Prop :=
  ∀ k t, Frame.join k t ∈ st → ThrRef ts k t

def BodyBot (st : List Frame) (k : Key) : Prop :=
  ∀ f, st.getLast? = some f → f.key = k ∧ IsBody f

/-- The part of `InvP` that also holds between the picked thread's transition and the caller's
    bookkeeping. -/
structure InvQ (s : State) : Prop where
  loadingThr : ∀ k t, s.sh.loading k = some t → ThrRef s.threads k t
  callerJoin : JoinsOK s.threads s.caller
  thrJoin : ∀ th ∈ s.threads, JoinsOK s.threads th.stack
  thrBot : ∀ th ∈ s.threads, BodyBot th.stack th.root

structure InvP (s : State) : Prop extends InvQ s where
  callerProg : s.caller = [] → s.prog = []

/-- New stack of the picked thread: joins are fine, the bottom stays a body frame for `root`. -/
theorem applyNext_stack (g : Url → Res) (rank : Url → Nat) (sh sh' : Shared) (ntid : Nat)
    (f : Frame) (rest : List Frame) (nx : Next) (sp : Option Key)
    (hs : topStep g sh ntid f = (sh', nx, sp)) (tf : TopFacts g rank sh sh' f nx sp ntid)
    (st : List Frame) (bottom : Option Val) (ha : applyNext nx rest = some (st, bottom)) :
    (∀ x ∈ st, x ∈ rest ∨ NewFrameOK sh x) ∧
    (∀ root, BodyBot (f :: rest) root → BodyBot st root) ∧
    (bottom = none → st ≠ []) := by
  cases nx with
  | cont fs =>
    simp only [applyNext, Option.some.injEq, Prod.mk.injEq] at ha
    obtain ⟨rfl, rfl⟩ := ha
    obtain ⟨hnew, hbody⟩ := topStep_new g sh ntid f sh' fs sp hs
    have hne : fs ≠ [] := by
      rcases tf.cont fs rfl with ⟨f1, rfl, _⟩ | ⟨k, u, todo, acc, id, _, rfl⟩ <;> simp
    have hkey : ∀ x, fs.getLast? = some x → x.key = f.key := by
      intro x hx
      rcases tf.cont fs rfl with ⟨f1, rfl, _, hk, _⟩ | ⟨k, u, todo, acc, id, rfl, rfl⟩
      · simp at hx; subst hx; exact hk
      · simp [List.getLast?_cons_cons] at hx; subst hx; rfl
    refine ⟨?_, ?_, ?_⟩
    · intro x hx
      rcases List.mem_append.mp hx with h | h
      · right; exact hnew x h
      · left; exact h
    · intro root hb x hx
      cases rest with
      | nil =>
        simp only [List.append_nil] at hx
        have hf := hb f (by simp)
        exact ⟨by rw [hkey x hx]; exact hf.1, hbody hf.2 x hx⟩
      | cons f' r =>
        rw [List.getLast?_append] at hx
        have hx : (f' :: r).getLast? = some x := by
          cases hl : (f' :: r).getLast? with
          | none => simp at hl
          | some y => rw [hl] at hx; simpa using hx
        apply hb x
        rw [List.getLast?_cons_cons]
        exact hx
    · intro _ h
      cases fs with
      | nil => exact hne rfl
      | cons a b => simp at h
  | ret v =>
    cases rest with
    | nil =>
      simp only [applyNext, Option.some.injEq, Prod.mk.injEq] at ha
      obtain ⟨rfl, rfl⟩ := ha
      refine ⟨by intro x hx; simp at hx, ?_, by intro h; cases h⟩
      intro root _ x hx
      simp at hx
    | cons f' r =>
      cases f' with
      | fin k todo acc id aw =>
        cases todo with
        | nil => simp [applyNext, deliver] at ha
        | cons u todo =>
          cases aw with
          | false => simp [applyNext, deliver] at ha
          | true =>
            simp only [applyNext, deliver, Option.map_some, Option.some.injEq, Prod.mk.injEq] at ha
            obtain ⟨rfl, rfl⟩ := ha
            refine ⟨?_, ?_, by intro _ h; cases h⟩
            · intro x hx
              simp only [List.mem_cons] at hx
              rcases hx with rfl | hx
              · right; exact body_newFrameOK sh _ (advance_body _ _ _ _)
              · left; simp [hx]
            · intro root hb x hx
              cases r with
              | nil =>
                simp at hx
                subst hx
                have := hb (.fin k (u :: todo) acc id true) (by simp [List.getLast?_cons_cons])
                exact ⟨by rw [(advance_key k todo _ id).1]; exact this.1, advance_body _ _ _ _⟩
              | cons f'' r' =>
                rw [List.getLast?_cons_cons] at hx
                apply hb x
                rw [List.getLast?_cons_cons, List.getLast?_cons_cons]
                exact hx
      | _ => simp [applyNext, deliver] at ha

theorem getElem?_setThr (ts : List Thr) (i : Nat) (st : List Frame) (x : Thr)
    (hx : x ∈ setThr ts i st) :
    x ∈ ts ∨ ∃ th, ts[i]? = some th ∧ x = { th with stack := st } := by
  induction ts generalizing i with
  | nil => simp [setThr] at hx
  | cons th ts ih =>
    cases i with
    | zero =>
      simp only [setThr, List.mem_cons] at hx
      rcases hx with rfl | hx
      · right; exact ⟨th, by simp, rfl⟩
      · left; simp [hx]
    | succ i =>
      simp only [setThr, List.mem_cons] at hx
      rcases hx with rfl | hx
      · left; simp
      · rcases ih i hx with h | ⟨th', h1, h2⟩
        · left; simp [h]
        · right; exact ⟨th', by simpa using h1, h2⟩

theorem mid_invQ (g : Url → Res) (rank : Url → Nat) (cache0 : Url → CacheSt) (h : Acyclic g rank)
    (s : State) (hi : Inv g rank cache0 s) (hq : InvQ s) (t : Nat) (f : Frame) (rest : List Frame)
    (hstk : stackOf s t = f :: rest) (sh' : Shared) (nx : Next) (sp : Option Key)
    (hts : topStep g s.sh (s.threads.length + 1) f = (sh', nx, sp))
    (st : List Frame) (bottom : Option Val) (ha : applyNext nx rest = some (st, bottom)) :
    InvQ (spawnThread (setStack { s with sh := sh' } t st) sp) ∧
    (bottom = none → st ≠ []) := by
  have hstack : StackOK g rank (f :: rest) := by
    cases t with
    | zero => simp only [stackOf] at hstk; rw [← hstk]; exact hi.callerSt
    | succ i =>
      simp only [stackOf] at hstk
      cases hth : s.threads[i]? with
      | none => simp [hth] at hstk
      | some th =>
        simp only [hth] at hstk
        rw [← hstk]
        exact hi.thrSt th (List.mem_of_getElem? hth)
  have tf := topStep_facts g rank h s.sh _ f hi.table (hstack.1 f (by simp)) sh' nx sp hts
  obtain ⟨hfr, hbot, hne⟩ := applyNext_stack g rank s.sh sh' _ f rest nx sp hts tf st bottom ha
  refine ⟨?_, hne⟩
  have hshared : (spawnThread (setStack { s with sh := sh' } t st) sp).sh = sh' := by
    cases sp <;> cases t <;> rfl
  have hcaller : (spawnThread (setStack { s with sh := sh' } t st) sp).caller =
      (match t with | 0 => st | _ + 1 => s.caller) := by
    cases sp <;> cases t <;> rfl
  have hthreads := spawn_threads s sh' t st sp
  -- joins of the old stack of the picked thread
  have holdJ : JoinsOK s.threads (f :: rest) := by
    cases t with
    | zero => simp only [stackOf] at hstk; rw [← hstk]; exact hq.callerJoin
    | succ i =>
      simp only [stackOf] at hstk
      cases hth : s.threads[i]? with
      | none => simp [hth] at hstk
      | some th =>
        simp only [hth] at hstk
        rw [← hstk]
        exact hq.thrJoin th (List.mem_of_getElem? hth)
  have hext : ∀ k j, ThrRef s.threads k j → ThrRef (threadsAfter s.threads t st sp) k j :=
    fun k j hr => thrRef_after _ _ _ _ _ _ hr
  have hnewJ : JoinsOK (threadsAfter s.threads t st sp) st := by
    intro k j hj
    rcases hfr _ hj with h1 | h1
    · exact hext k j (holdJ k j (by simp [h1]))
    · exact hext k j (hq.loadingThr k j h1)
  have hliftJ : ∀ stk, JoinsOK s.threads stk → JoinsOK (threadsAfter s.threads t st sp) stk :=
    fun stk hj k j hm => hext k j (hj k j hm)
  refine ⟨?_, ?_, ?_, ?_⟩
  · rw [hshared, hthreads]
    intro k j hl
    rcases tf.loadingOld k j hl with h1 | ⟨h1, h2⟩
    · exact hext k j (hq.loadingThr k j h1)
    · subst h1; subst h2
      exact thrRef_after_new _ _ _ _
  · rw [hcaller, hthreads]
    cases t with
    | zero => exact hnewJ
    | succ i => exact hliftJ _ hq.callerJoin
  · rw [hthreads]
    intro th hth
    unfold threadsAfter at hth
    rcases List.mem_append.mp hth with h1 | h1
    · cases t with
      | zero => exact hliftJ _ (hq.thrJoin th h1)
      | succ i =>
        rcases getElem?_setThr _ _ _ _ h1 with h2 | ⟨th0, _, rfl⟩
        · exact hliftJ _ (hq.thrJoin th h2)
        · exact hnewJ
    · cases sp with
      | none => simp at h1
      | some k =>
        simp at h1
        subst h1
        intro k' j hj
        simp at hj
  · rw [hthreads]
    intro th hth
    unfold threadsAfter at hth
    rcases List.mem_append.mp hth with h1 | h1
    · cases t with
      | zero => exact hq.thrBot th h1
      | succ i =>
        rcases getElem?_setThr _ _ _ _ h1 with h2 | ⟨th0, hth0, rfl⟩
        · exact hq.thrBot th h2
        · simp only [stackOf, hth0] at hstk
          have := hq.thrBot th0 (List.mem_of_getElem? hth0)
          rw [hstk] at this
          exact hbot _ this
    · cases sp with
      | none => simp at h1
      | some k =>
        simp at h1
        subst h1
        intro x hx
        simp at hx
        subst hx
        exact ⟨rfl, trivial⟩

theorem startOp_facts (s : State) (hc : s.caller = []) :
    (startOp s).threads = s.threads ∧ (startOp s).sh.loading = s.sh.loading ∧
    (∀ k t, Frame.join k t ∉ (startOp s).caller) ∧
    ((startOp s).caller = [] → (startOp s).prog = []) := by
  unfold startOp
  rw [hc]
  cases hp : s.prog with
  | nil => simp [hc, hp]
  | cons op rest =>
    cases op <;> simp

theorem finishOp_facts (s : State) (v : Val) (hc : s.caller = []) :
    (finishOp s v).threads = s.threads ∧ (finishOp s v).sh.loading = s.sh.loading ∧
    (∀ k t, Frame.join k t ∉ (finishOp s v).caller) ∧
    ((finishOp s v).caller = [] → (finishOp s v).prog = []) := by
  unfold finishOp
  cases hp : s.prog with
  | nil => simp [hc, hp]
  | cons op rest =>
    cases op with
    | load k =>
      simp only
      exact startOp_facts
        { s with prog := rest, caller := [], results := ⟨.load k, v, s.sh.epoch⟩ :: s.results } rfl
    | deferred k =>
      simp only
      exact startOp_facts
        { s with prog := rest, caller := [], results := ⟨.deferred k, v, s.sh.epoch⟩ :: s.results } rfl
    | refresh k =>
      simp only
      exact startOp_facts
        { s with sh := { s.sh with reload := false }, prog := rest, caller := [],
                 results := ⟨.refresh k, v, s.sh.epoch⟩ :: s.results } rfl

theorem init_invP (cache0 : Url → CacheSt) (prog : List Op) : InvP (init cache0 prog) := by
  unfold init
  have := startOp_facts
    { sh := initShared cache0, caller := [], prog := prog, results := [], threads := [] } rfl
  obtain ⟨h1, h2, h3, h4⟩ := this
  refine ⟨⟨?_, ?_, ?_, ?_⟩, h4⟩
  · intro k t hl; rw [h2] at hl; simp [initShared] at hl
  · intro k t hj; exact absurd hj (h3 k t)
  · intro th hth; rw [h1] at hth; simp at hth
  · intro th hth; rw [h1] at hth; simp at hth

theorem step_invP (g : Url → Res) (rank : Url → Nat) (cache0 : Url → CacheSt) (h : Acyclic g rank)
    (s : State) (hi : Inv g rank cache0 s) (hp : InvP s) (t : Nat) : InvP (step g s t) := by
  unfold step
  split
  · split
    · exact hp
    · rename_i f rest hstk
      generalize hts : topStep g s.sh (s.threads.length + 1) f = p
      obtain ⟨sh', nx, sp⟩ := p
      simp only
      cases ha : applyNext nx rest with
      | none =>
        simp only
        exact ⟨⟨hp.loadingThr, hp.callerJoin, hp.thrJoin, hp.thrBot⟩, hp.callerProg⟩
      | some q =>
        obtain ⟨st, bottom⟩ := q
        obtain ⟨hmid, hne⟩ := mid_invQ g rank cache0 h s hi hp.toInvQ t f rest hstk sh' nx sp hts st bottom ha
        have hcaller : (spawnThread (setStack { s with sh := sh' } t st) sp).caller =
            (match t with | 0 => st | _ + 1 => s.caller) := by
          cases sp <;> cases t <;> rfl
        have hprog : (spawnThread (setStack { s with sh := sh' } t st) sp).prog = s.prog := by
          cases sp <;> cases t <;> rfl
        have hkeep : t ≠ 0 →
            ((spawnThread (setStack { s with sh := sh' } t st) sp).caller = [] →
             (spawnThread (setStack { s with sh := sh' } t st) sp).prog = []) := by
          intro ht
          rw [hcaller, hprog]
          cases t with
          | zero => exact absurd rfl ht
          | succ i => exact hp.callerProg
        cases bottom with
        | none =>
          simp only
          refine ⟨hmid, ?_⟩
          cases t with
          | zero =>
            rw [hcaller]
            intro hst
            exact absurd hst (hne rfl)
          | succ i => exact hkeep (by simp)
        | some v =>
          cases t with
          | succ i => simp only; exact ⟨hmid, hkeep (by simp)⟩
          | zero =>
            simp only
            -- the caller's bottom frame returned: its stack is empty now
            have hstack : StackOK g rank (f :: rest) := by
              simp only [stackOf] at hstk; rw [← hstk]; exact hi.callerSt
            have tf := topStep_facts g rank h s.sh _ f hi.table (hstack.1 f (by simp)) sh' nx sp hts
            obtain ⟨_, _, hbv⟩ := stack_step g rank h s.sh sh' f rest nx sp _ hstack tf st (some v) ha
            obtain ⟨_, _, rfl⟩ := hbv v rfl
            have hc0 : (spawnThread (setStack { s with sh := sh' } 0 []) sp).caller = [] := by
              rw [hcaller]
            obtain ⟨f1, f2, f3, f4⟩ := finishOp_facts _ v hc0
            refine ⟨⟨?_, ?_, ?_, ?_⟩, f4⟩
            · intro k j hl; rw [f2] at hl; rw [f1]; exact hmid.loadingThr k j hl
            · intro k j hj; exact absurd hj (f3 k j)
            · rw [f1]; exact hmid.thrJoin
            · rw [f1]; exact hmid.thrBot
  · exact hp

theorem runSched_invP (g : Url → Res) (rank : Url → Nat) (cache0 : Url → CacheSt)
    (h : Acyclic g rank) (sched : List Nat) :
    ∀ s, Inv g rank cache0 s → InvP s → InvP (runSched g s sched) := by
  induction sched with
  | nil => intro s _ hp; exact hp
  | cons t ts ih =>
    intro s hi hp
    exact ih _ (step_inv g rank cache0 h s hi t) (step_invP g rank cache0 h s hi hp t)

/-! ## Waits-for edges go strictly down `rank` -/

/-- In a well-formed stack the key of the top frame is an include (transitively) of the key of
    the bottom frame. -/
theorem rank_top_lt_bot (g : Url → Res) (rank : Url → Nat) (h : Acyclic g rank) :
    ∀ (rest : List Frame) (f b : Frame), StackOK g rank (f :: rest) → rest.getLast? = some b →
      rank f.key.url < rank b.key.url := by
  intro rest
  induction rest with
  | nil => intro f b _ hb; simp at hb
  | cons f' r ih =>
    intro f b hst hb
    obtain ⟨hfr, ⟨⟨k, u, todo, acc, id, rfl, hku, _⟩, hl⟩⟩ := hst
    have hf' : FrameOK g rank (.fin k (u :: todo) acc id true) := hfr _ (by simp)
    obtain ⟨done, hg, _, _⟩ := hf'
    have hlt : rank u < rank k.url := h k.url _ u hg (by simp)
    have h1 : rank f.key.url < rank k.url := by rw [hku]; exact hlt
    cases r with
    | nil =>
      simp at hb
      subst hb
      exact h1
    | cons f'' r' =>
      rw [List.getLast?_cons_cons] at hb
      have h2 : rank k.url < rank b.key.url := ih (.fin k (u :: todo) acc id true) b
        ⟨fun x hx => hfr x (by simp [hx]), hl⟩ hb
      omega

theorem finished_false (s : State) (i : Nat) (th : Thr) (hth : s.threads[i]? = some th)
    (hf : finished s (i + 1) = false) : th.stack ≠ [] := by
  simp only [finished, hth] at hf
  intro he
  rw [he] at hf
  simp at hf

/-- A chain of blocked loader threads ends in an enabled thread. -/
theorem unfinished_thread_enabled (g : Url → Res) (rank : Url → Nat) (cache0 : Url → CacheSt)
    (h : Acyclic g rank) (s : State) (hi : Inv g rank cache0 s) (hp : InvP s) :
    ∀ (n i : Nat) (th : Thr), s.threads[i]? = some th → th.stack ≠ [] → rank th.root.url < n →
      ∃ t, enabled s t = true := by
  intro n
  induction n with
  | zero => intro i th _ _ hr; omega
  | succ n ih =>
    intro i th hth hne hr
    have hmem := List.mem_of_getElem? hth
    cases hstk : th.stack with
    | nil => exact absurd hstk hne
    | cons f rest =>
      have hen : ∀ (hnj : ∀ k j, f ≠ .join k j), enabled s (i + 1) = true := by
        intro hnj
        simp only [enabled, stackOf, hth, hstk]
      cases f with
      | join k j =>
        by_cases hfin : finished s j = true
        · exact ⟨i + 1, by simp only [enabled, stackOf, hth, hstk]; exact hfin⟩
        · have hfin' : finished s j = false := by simpa using hfin
          have hj := hp.thrJoin th hmem k j (by rw [hstk]; simp)
          obtain ⟨i', th', rfl, hth', hroot⟩ := thrRef_get _ _ _ hj
          have hne' := finished_false s i' th' hth' hfin'
          -- the bottom frame of `th` is a body frame for its root, so not this join
          have hbot := hp.thrBot th hmem
          rw [hstk] at hbot
          cases hr' : rest.getLast? with
          | none =>
            have : rest = [] := by simpa using hr'
            subst this
            have := (hbot (.join k (i' + 1)) (by simp)).2
            simp [IsBody] at this
          | some b =>
            have hb := hbot b (by
              cases rest with
              | nil => simp at hr'
              | cons a r => rw [List.getLast?_cons_cons]; exact hr')
            have hst : StackOK g rank (.join k (i' + 1) :: rest) := by
              rw [← hstk]; exact hi.thrSt th hmem
            have hlt := rank_top_lt_bot g rank h rest _ b hst hr'
            rw [hb.1] at hlt
            simp only [Frame.key] at hlt
            exact ih i' th' hth' hne' (by rw [hroot]; omega)
      | start k => exact ⟨_, hen (by intro _ _ hh; cases hh)⟩
      | load k => exact ⟨_, hen (by intro _ _ hh; cases hh)⟩
      | pop k => exact ⟨_, hen (by intro _ _ hh; cases hh)⟩
      | fin k todo acc id aw => exact ⟨_, hen (by intro _ _ hh; cases hh)⟩
      | pub k v => exact ⟨_, hen (by intro _ _ hh; cases hh)⟩
      | defer k => exact ⟨_, hen (by intro _ _ hh; cases hh)⟩
      | clear k => exact ⟨_, hen (by intro _ _ hh; cases hh)⟩

/-- Deadlock freedom on invariant states. -/
theorem progress_of_inv (g : Url → Res) (rank : Url → Nat) (cache0 : Url → CacheSt)
    (h : Acyclic g rank) (s : State) (hi : Inv g rank cache0 s) (hp : InvP s) :
    allDone s = true ∨ ∃ t, enabled s t = true := by
  by_cases hall : (s.threads.all fun th => th.stack.isEmpty) = true
  · -- all loader threads finished: the caller is done or enabled
    cases hc : s.caller with
    | nil =>
      left
      have := hp.callerProg hc
      simp [allDone, hc, this, hall]
    | cons f rest =>
      right
      refine ⟨0, ?_⟩
      cases f with
      | join k j =>
        simp only [enabled, stackOf, hc]
        have hj := hp.callerJoin k j (by rw [hc]; simp)
        obtain ⟨i', th', rfl, hth', _⟩ := thrRef_get _ _ _ hj
        simp only [finished, hth']
        exact (List.all_eq_true.mp hall) th' (List.mem_of_getElem? hth')
      | _ => simp [enabled, stackOf, hc]
  · right
    have : ∃ th ∈ s.threads, th.stack.isEmpty = false := by
      simpa [List.all_eq_true] using hall
    obtain ⟨th, hmem, hne⟩ := this
    obtain ⟨i, hi'⟩ := List.getElem?_of_mem hmem
    exact unfinished_thread_enabled g rank cache0 h s hi hp (rank th.root.url + 1) i th hi'
      (by intro he; rw [he] at hne; simp at hne) (by omega)

end Loader
