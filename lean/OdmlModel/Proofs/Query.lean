/-
Helper lemmas for C20 (searches over the exported RDF graph).  Property theorems: `Props/C20.lean`.
-/
import OdmlModel.Model.Query
import OdmlModel.Proofs.Rdf

set_option linter.unusedSimpArgs false
set_option linter.unusedVariables false
set_option linter.unusedSectionVars false
set_option linter.constructorNameAsVariable false

namespace Query
open Rdf List

/-! ## 1. Basic graph patterns: the evaluator against a declarative semantics -/

/-- The pattern position denotes the term under the binding: the constant itself, what the
    variable is bound to, or (helper variable with a `STR` filter) any term with that text. -/
def denotes (b : Binding) : PT → Term → Prop
  | .const c, t => c = t
  | .var x, t => b.get x = some t
  | .str s, t => strOf t = some s

/-- `b'` extends `b`. -/
def Binding.le (b b' : Binding) : Prop := ∀ x t, b.get x = some t → b'.get x = some t

theorem Binding.le_refl (b : Binding) : b.le b := fun _ _ h => h
theorem Binding.le_trans {a b c : Binding} (h1 : a.le b) (h2 : b.le c) : a.le c :=
  fun x t h => h2 x t (h1 x t h)

theorem get_set_same (b : Binding) (x : Var) (t : Term) : (b.set x t).get x = some t := by
  cases x <;> rfl

theorem get_set_other (b : Binding) {x y : Var} (t : Term) (h : y ≠ x) :
    (b.set x t).get y = b.get y := by
  cases x <;> cases y <;> first | rfl | exact absurd rfl h

/-- Matching one position: the result extends the binding, denotes the term, and binds nothing
    but (possibly) the variable of the position. -/
theorem matchPT_spec {b b1 : Binding} {pt : PT} {t : Term} (h : matchPT b pt t = some b1) :
    b.le b1 ∧ denotes b1 pt t ∧
    (∀ y, (∀ x, pt = .var x → y ≠ x) → b1.get y = b.get y) := by
  cases pt with
  | const c =>
    simp only [matchPT] at h
    split at h
    · cases h; rename_i e; exact ⟨Binding.le_refl _, by simp [denotes, e], fun _ _ => rfl⟩
    · cases h
  | var x =>
    simp only [matchPT] at h
    cases hb : b.get x with
    | some u =>
      simp only [hb] at h
      split at h
      · cases h; rename_i e; exact ⟨Binding.le_refl _, by simp [denotes, hb, e], fun _ _ => rfl⟩
      · cases h
    | none =>
      simp only [hb] at h
      cases h
      refine ⟨?_, by simp [denotes, get_set_same], fun y hy => get_set_other b t (hy x rfl)⟩
      intro y u hy
      by_cases e : y = x
      · subst e; rw [hb] at hy; cases hy
      · rw [get_set_other b t e]; exact hy
  | str s =>
    simp only [matchPT] at h
    split at h
    · cases h; rename_i e; exact ⟨Binding.le_refl _, e, fun _ _ => rfl⟩
    · cases h

/-- Conversely a position matches under `b` whenever some extension `b'` of `b` denotes `t`
    there, and the result is still below `b'`. -/
theorem matchPT_complete {b b' : Binding} {pt : PT} {t : Term} (hle : b.le b')
    (hi : denotes b' pt t) : ∃ b1, matchPT b pt t = some b1 ∧ b1.le b' := by
  cases pt with
  | const c =>
    simp only [denotes] at hi
    exact ⟨b, by simp [matchPT, hi], hle⟩
  | var x =>
    simp only [denotes] at hi
    cases hb : b.get x with
    | some u =>
      have := hle x u hb
      rw [hi] at this
      cases this
      exact ⟨b, by simp [matchPT, hb], hle⟩
    | none =>
      refine ⟨b.set x t, by simp [matchPT, hb], ?_⟩
      intro y u hy
      by_cases e : y = x
      · subst e; rw [get_set_same] at hy; cases hy; exact hi
      · rw [get_set_other b t e] at hy; exact hle y u hy
  | str s =>
    simp only [denotes] at hi
    exact ⟨b, by simp [matchPT, hi], hle⟩

theorem denotes_mono {b b' : Binding} (h : b.le b') {pt : PT} {t : Term} (hi : denotes b pt t) :
    denotes b' pt t := by
  cases pt with
  | const c => exact hi
  | var x => exact h x t hi
  | str s => exact hi

/-- All three positions of the pattern denote the triple. -/
def instPat (b : Binding) (pat : Pat) (t : Triple) : Prop :=
  denotes b pat.s t.s ∧ denotes b pat.p t.p ∧ denotes b pat.o t.o

theorem matchPat_spec {b b3 : Binding} {pat : Pat} {t : Triple} (h : matchPat b pat t = some b3) :
    b.le b3 ∧ instPat b3 pat t := by
  unfold matchPat at h
  cases h1 : matchPT b pat.s t.s with
  | none => simp [h1] at h
  | some b1 =>
    simp only [h1] at h
    cases h2 : matchPT b1 pat.p t.p with
    | none => simp [h2] at h
    | some b2 =>
      simp only [h2] at h
      obtain ⟨l1, i1, _⟩ := matchPT_spec h1
      obtain ⟨l2, i2, _⟩ := matchPT_spec h2
      obtain ⟨l3, i3, _⟩ := matchPT_spec h
      exact ⟨Binding.le_trans l1 (Binding.le_trans l2 l3),
        denotes_mono (Binding.le_trans l2 l3) i1, denotes_mono l3 i2, i3⟩

theorem matchPat_complete {b b' : Binding} {pat : Pat} {t : Triple} (hle : b.le b')
    (hi : instPat b' pat t) : ∃ b3, matchPat b pat t = some b3 ∧ b3.le b' := by
  obtain ⟨b1, m1, l1⟩ := matchPT_complete hle hi.1
  obtain ⟨b2, m2, l2⟩ := matchPT_complete l1 hi.2.1
  obtain ⟨b3, m3, l3⟩ := matchPT_complete l2 hi.2.2
  exact ⟨b3, by simp [matchPat, m1, m2, m3], l3⟩

/-- Derivations of the nested-loop evaluation. -/
inductive Ext (g : Graph) : List Pat → Binding → Binding → Prop
  | nil {b} : Ext g [] b b
  | cons {pat rest b b1 b'} {t : Triple} : t ∈ g → matchPat b pat t = some b1 → Ext g rest b1 b' →
      Ext g (pat :: rest) b b'

theorem mem_evalBGP {g : Graph} : ∀ {pats : List Pat} {bs : List Binding} {b' : Binding},
    b' ∈ evalBGP g pats bs ↔ ∃ b ∈ bs, Ext g pats b b'
  | [], bs, b' => by
    simp only [evalBGP]
    constructor
    · intro h; exact ⟨b', h, Ext.nil⟩
    · rintro ⟨b, hb, e⟩; cases e; exact hb
  | pat :: rest, bs, b' => by
    simp only [evalBGP]
    rw [mem_evalBGP (pats := rest)]
    constructor
    · rintro ⟨b1, hb1, e⟩
      simp only [mem_flatMap, mem_filterMap] at hb1
      obtain ⟨b, hb, t, ht, hm⟩ := hb1
      exact ⟨b, hb, Ext.cons ht hm e⟩
    · rintro ⟨b, hb, e⟩
      cases e with
      | cons ht hm e' =>
        refine ⟨_, ?_, e'⟩
        simp only [mem_flatMap, mem_filterMap]
        exact ⟨b, hb, _, ht, hm⟩

theorem ext_sound {g : Graph} {pats : List Pat} {b b' : Binding} (h : Ext g pats b b') :
    b.le b' ∧ ∀ pat ∈ pats, ∃ t ∈ g, instPat b' pat t := by
  induction h with
  | nil => exact ⟨Binding.le_refl _, fun _ h => by simp at h⟩
  | cons ht hm _ ih =>
    obtain ⟨l1, i1⟩ := matchPat_spec hm
    refine ⟨Binding.le_trans l1 ih.1, ?_⟩
    intro pat hp
    simp only [mem_cons] at hp
    rcases hp with rfl | hp
    · exact ⟨_, ht, denotes_mono ih.1 i1.1, denotes_mono ih.1 i1.2.1, denotes_mono ih.1 i1.2.2⟩
    · exact ih.2 pat hp

theorem ext_complete {g : Graph} : ∀ {pats : List Pat} {b b' : Binding}, b.le b' →
    (∀ pat ∈ pats, ∃ t ∈ g, instPat b' pat t) → ∃ b'', Ext g pats b b'' ∧ b''.le b'
  | [], b, b', hle, _ => ⟨b, Ext.nil, hle⟩
  | pat :: rest, b, b', hle, h => by
    obtain ⟨t, ht, hi⟩ := h pat (by simp)
    obtain ⟨b1, m1, l1⟩ := matchPat_complete hle hi
    obtain ⟨b'', e, l2⟩ := ext_complete (pats := rest) l1 (fun p hp => h p (by simp [hp]))
    exact ⟨b'', Ext.cons ht m1 e, l2⟩

/-! ## 2. Combinations -/

/-- No two pairs ask for the same attribute of the same kind of object. -/
def NoClashL (l : List Pair) : Prop :=
  l.Pairwise (fun a b => ¬ (b.kind = a.kind ∧ b.attr = a.attr))

theorem noClash_iff (path : List Pair) (x : Pair) :
    noClash path x = true ↔ ∀ i ∈ path, ¬ (x.kind = i.kind ∧ x.attr = i.attr) := by
  simp only [noClash, all_eq_true, Bool.not_eq_true', Bool.and_eq_false_iff, beq_eq_false_iff_ne]
  constructor
  · intro h i hi ⟨e1, e2⟩
    rcases h i hi with a | a
    · exact a e1
    · exact a e2
  · intro h i hi
    by_cases e1 : x.kind = i.kind
    · right; intro e2; exact h i hi ⟨e1, e2⟩
    · left; exact e1

theorem noClashL_append_single {path : List Pair} {x : Pair} :
    NoClashL (path ++ [x]) ↔ NoClashL path ∧ noClash path x = true := by
  simp only [NoClashL, pairwise_append, pairwise_cons, mem_singleton, noClash_iff]
  constructor
  · rintro ⟨h1, _, h3⟩
    exact ⟨h1, fun i hi => h3 i hi x rfl⟩
  · rintro ⟨h1, h2⟩
    refine ⟨h1, ⟨by simp, Pairwise.nil⟩, ?_⟩
    intro a ha b hb
    subst hb
    exact h2 a ha

/-- The DFS enumerates exactly the clash-free extensions of the path by a non-empty
    subsequence of the remaining pairs. -/
theorem mem_dfsLoop : ∀ (rest path : List Pair) (l : List Pair), NoClashL path →
    (l ∈ dfsLoop rest path ↔ ∃ ext, ext ≠ [] ∧ ext.Sublist rest ∧ l = path ++ ext ∧ NoClashL l)
  | [], path, l, _ => by
    simp only [dfsLoop, not_mem_nil, false_iff]
    rintro ⟨ext, hne, hs, _⟩
    exact hne (sublist_nil.mp hs)
  | x :: rest, path, l, hp => by
    simp only [dfsLoop, mem_append]
    constructor
    · rintro (h | h)
      · split at h
        · rename_i hc
          have hp' : NoClashL (path ++ [x]) := noClashL_append_single.mpr ⟨hp, hc⟩
          simp only [mem_cons] at h
          rcases h with rfl | h
          · exact ⟨[x], by simp, by simp, rfl, hp'⟩
          · obtain ⟨ext, hne, hs, rfl, hn⟩ := (mem_dfsLoop rest (path ++ [x]) l hp').mp h
            exact ⟨x :: ext, by simp, hs.cons_cons x, by simp, hn⟩
        · simp at h
      · obtain ⟨ext, hne, hs, rfl, hn⟩ := (mem_dfsLoop rest path l hp).mp h
        exact ⟨ext, hne, hs.cons x, rfl, hn⟩
    · rintro ⟨ext, hne, hs, rfl, hn⟩
      cases hs with
      | cons _ hs' => exact .inr ((mem_dfsLoop rest path _ hp).mpr ⟨ext, hne, hs', rfl, hn⟩)
      | cons_cons _ hs' =>
        rename_i ext'
        left
        have hn' : NoClashL ((path ++ [x]) ++ ext') := by simpa using hn
        have hp' : NoClashL (path ++ [x]) := (pairwise_append.mp hn').1
        have hc := (noClashL_append_single.mp hp').2
        simp only [hc, if_true, mem_cons]
        by_cases he : ext' = []
        · subst he; left; simp
        · right
          have e : path ++ x :: ext' = (path ++ [x]) ++ ext' := by simp
          rw [e]
          exact (mem_dfsLoop rest (path ++ [x]) _ hp').mpr ⟨ext', he, hs', rfl, hn'⟩

theorem lenGe_trans (a b c : List Pair) (h1 : lenGe a b = true) (h2 : lenGe b c = true) :
    lenGe a c = true := by
  simp only [lenGe, decide_eq_true_eq] at *; omega

theorem lenGe_total (a b : List Pair) : (lenGe a b || lenGe b a) = true := by
  simp only [lenGe, Bool.or_eq_true, decide_eq_true_eq]; omega

/-! ## 3. Query construction -/

theorem lookup_isSome_of_key {tbl : List (String × String)} {k : String}
    (h : k ∈ tbl.map (·.1)) : (tbl.lookup k).isSome := by
  induction tbl with
  | nil => simp at h
  | cons x l ih =>
    obtain ⟨x1, x2⟩ := x
    simp only [map_cons, mem_cons] at h
    by_cases e : k = x1
    · subst e; simp [List.lookup]
    · have : (k == x1) = false := by simpa using e
      rcases h with h | h
      · exact absurd h e
      · simp [List.lookup, this, ih h]

theorem attrPat_ok_of_key (x : Pair) (k : String) (hk : x.attr = k.toList)
    (h : k ∈ (tableOf x.kind).map (·.1)) : ∃ ps, attrPat x = .ok ps := by
  unfold attrPat
  split
  · split <;> exact ⟨_, rfl⟩
  · have := lookup_isSome_of_key h
    rw [hk, String.ofList_toList]
    cases hl : (tableOf x.kind).lookup k with
    | none => simp [hl] at this
    | some p =>
      simp only
      cases shapeOf x.kind k.toList <;> exact ⟨_, rfl⟩

theorem attrPats_ok (l : List Pair)
    (h : ∀ x ∈ l, ∃ k : String, x.attr = k.toList ∧ k ∈ (tableOf x.kind).map (·.1)) :
    ∃ ps, attrPats l = .ok ps := by
  induction l with
  | nil => exact ⟨[], rfl⟩
  | cons x r ih =>
    obtain ⟨k, hk, hm⟩ := h x (by simp)
    obtain ⟨a, ha⟩ := attrPat_ok_of_key x k hk hm
    obtain ⟨b, hb⟩ := ih (fun y hy => h y (by simp [hy]))
    exact ⟨a ++ b, by simp [attrPats, ha, hb]⟩


/-! ## 4. Which triples the exported graph contains (no repositories, no sub-classing) -/

def cfg0 : Cfg := ⟨false, []⟩

/-- No object has a repository (their terminology nodes are typed by arbitrary IRIs). -/
def NoRepo (ds : List DocT) : Prop :=
  (∀ d ∈ ds, d.attrs.lookup "repository" = none) ∧
  (∀ s ∈ docSecs ds, s.attrs.lookup "repository" = none)

def isLit : Term → Prop
  | .lit _ _ => True
  | _ => False

theorem saveSecAttr_norepo {n : Term} {a : Attrs} {kp : String × String} {t : Triple}
    (nr : a.lookup "repository" = none) (h : t ∈ saveSecAttr n a kp) :
    ∃ v, a.lookup kp.1 = some v ∧ v.truthy = true ∧ t = ⟨n, .iri kp.2.toList, v.toLit⟩ := by
  unfold saveSecAttr at h
  cases hl : a.lookup kp.1 with
  | none => simp [hl] at h
  | some v =>
    simp only [hl] at h
    cases ht : v.truthy with
    | false => simp [ht] at h
    | true =>
      simp only [ht, Bool.not_true, Bool.false_eq_true, if_false] at h
      split at h
      · rename_i e
        have : kp.1 = "repository" := by simpa using e
        rw [this, nr] at hl; cases hl
      · simp only [mem_cons, mem_nil_iff, or_false] at h
        exact ⟨v, rfl, ht, h⟩

theorem saveDocAttr_norepo {n : Term} {a : Attrs} {kp : String × String} {t : Triple}
    (nr : a.lookup "repository" = none) (h : t ∈ saveDocAttr n a kp) :
    ∃ v, a.lookup kp.1 = some v ∧ v.truthy = true ∧
      t = ⟨n, .iri kp.2.toList, if kp.1 == "date" then v.toDateLit else v.toLit⟩ := by
  unfold saveDocAttr at h
  cases hl : a.lookup kp.1 with
  | none => simp [hl] at h
  | some v =>
    simp only [hl] at h
    cases ht : v.truthy with
    | false => simp [ht] at h
    | true =>
      simp only [ht, Bool.not_true, Bool.false_eq_true, if_false] at h
      split at h
      · rename_i e
        have : kp.1 = "repository" := by simpa using e
        rw [this, nr] at hl; cases hl
      · split at h <;> rename_i e <;>
          (simp only [mem_cons, mem_nil_iff, or_false] at h; exact ⟨v, rfl, ht, by simp [h, e]⟩)

theorem toLit_isLit (v : PyVal) : isLit v.toLit := by cases v <;> trivial
theorem toDateLit_isLit (v : PyVal) : isLit v.toDateLit := by cases v <;> trivial

/-- Triples of a Document step: all at the Document node with the predicate of the entry;
    the object is a child Section node for `sections`, a literal otherwise. -/
theorem ownDocStep_cases {d : DocT} {kp : String × String} {t : Triple}
    (nr : d.attrs.lookup "repository" = none) (h : t ∈ ownDocStep d kp) :
    t.s = node d.id ∧ t.p = .iri kp.2.toList ∧
    ((kp.1 = "sections" ∧ ∃ c ∈ d.secs, t.o = node c.id) ∨ (kp.1 ≠ "sections" ∧ isLit t.o)) := by
  unfold ownDocStep at h
  split at h
  · simp at h
  · split at h
    · rename_i e
      simp only [mem_map, secLink] at h
      obtain ⟨c, hc, rfl⟩ := h
      exact ⟨rfl, rfl, .inl ⟨by simpa using e, c, hc, rfl⟩⟩
    · rename_i e
      obtain ⟨v, _, _, rfl⟩ := saveDocAttr_norepo nr h
      refine ⟨rfl, rfl, .inr ⟨by simpa using e, ?_⟩⟩
      simp only
      split
      · exact toDateLit_isLit v
      · exact toLit_isLit v

theorem ownSecStep_cases {n : Term} {a : Attrs} {ps : List PropT} {ss : List SecT}
    {kp : String × String} {t : Triple}
    (nr : a.lookup "repository" = none) (h : t ∈ ownSecStep n a ps ss kp) :
    t.s = n ∧ t.p = .iri kp.2.toList ∧
    ((kp.1 = "sections" ∧ ∃ c ∈ ss, t.o = node c.id) ∨
     (kp.1 = "properties" ∧ ∃ c ∈ ps, t.o = node c.id) ∨
     (kp.1 ≠ "sections" ∧ kp.1 ≠ "properties" ∧ isLit t.o)) := by
  unfold ownSecStep at h
  split at h
  · simp at h
  · split at h
    · rename_i e
      simp only [mem_map, secLink] at h
      obtain ⟨c, hc, rfl⟩ := h
      exact ⟨rfl, rfl, .inl ⟨by simpa using e, c, hc, rfl⟩⟩
    · split at h
      · rename_i e
        simp only [mem_map, propLink] at h
        obtain ⟨c, hc, rfl⟩ := h
        exact ⟨rfl, rfl, .inr (.inl ⟨by simpa using e, c, hc, rfl⟩)⟩
      · rename_i e1 e2
        obtain ⟨v, _, _, rfl⟩ := saveSecAttr_norepo nr h
        exact ⟨rfl, rfl, .inr (.inr ⟨by simpa using e1, by simpa using e2, toLit_isLit v⟩)⟩

/-- Triples of a Property step: a literal (or the sequence node) at the Property node with the
    predicate of the entry, or triples of the sequence node (its type `rdf:Seq`, its members). -/
theorem savePropertyKey_cases {p : PropT} {kp : String × String} {t : Triple}
    (h : t ∈ savePropertyKey p kp) :
    (t.s = node p.id ∧ t.p = .iri kp.2.toList ∧ (isLit t.o ∨ t.o = .seqn p.id)) ∨
    (t.s = .seqn p.id ∧ ((t.p = rdfType ∧ t.o = rdfSeq) ∨ ∃ k, t.p = li k)) := by
  unfold savePropertyKey at h
  simp only at h
  split at h
  · split at h
    · simp at h
    · simp only [saveValues, mem_cons] at h
      rcases h with rfl | rfl | h
      · exact .inr ⟨rfl, .inl ⟨rfl, rfl⟩⟩
      · exact .inl ⟨rfl, rfl, .inr rfl⟩
      · exact .inr ⟨mem_seqItems h, .inr (pred_seqItems h)⟩
  · split at h
    · simp at h
    · split at h
      · simp at h
      · split at h
        · simp only [mem_cons, mem_nil_iff, or_false] at h
          subst h
          exact .inl ⟨rfl, rfl, .inl (toLit_isLit _)⟩
        · simp at h

/-- Case analysis of a triple of the flat graph exported without sub-classing. -/
theorem mem_flat_cases {ds : List DocT} {t : Triple} (h : t ∈ flatGraph cfg0 ds) :
    (∃ d ∈ ds, t ∈ docHead d) ∨
    (∃ d ∈ ds, ∃ kp ∈ Gen.Format.documentRdfMap, t ∈ ownDocStep d kp) ∨
    (∃ s ∈ docSecs ds, t = ⟨node s.id, rdfType, .iri Gen.Format.sectionRdfType.toList⟩) ∨
    (∃ s ∈ docSecs ds, ∃ kp ∈ Gen.Format.sectionRdfMap,
      t ∈ ownSecStep (node s.id) s.attrs s.props s.subs kp) ∨
    (∃ p ∈ docProps ds, t = ⟨node p.id, rdfType, .iri Gen.Format.propertyRdfType.toList⟩) ∨
    (∃ p ∈ docProps ds, ∃ kp ∈ Gen.Format.propertyRdfMap, t ∈ savePropertyKey p kp) := by
  rw [flatGraph_eq] at h
  simp only [mem_append, mem_flatMap] at h
  rcases h with ⟨d, hd, h⟩ | ⟨s, hs, h⟩ | ⟨p, hp, h⟩
  · unfold ownDoc at h
    simp only [mem_append, mem_flatMap] at h
    rcases h with h | ⟨kp, hkp, h⟩
    · exact .inl ⟨d, hd, h⟩
    · exact .inr (.inl ⟨d, hd, kp, hkp, h⟩)
  · obtain ⟨id, a, ps, ss⟩ := s
    unfold ownSec at h
    simp only [mem_append, mem_flatMap] at h
    rcases h with h | ⟨kp, hkp, h⟩
    · simp only [sectionTypeTriples, cfg0, Bool.false_eq_true, if_false, mem_cons, mem_nil_iff,
        or_false] at h
      exact .inr (.inr (.inl ⟨_, hs, h⟩))
    · exact .inr (.inr (.inr (.inl ⟨_, hs, kp, hkp, h⟩)))
  · unfold saveProperty at h
    simp only [mem_cons, mem_flatMap] at h
    rcases h with h | ⟨kp, hkp, h⟩
    · exact .inr (.inr (.inr (.inr (.inl ⟨p, hp, h⟩))))
    · exact .inr (.inr (.inr (.inr (.inr ⟨p, hp, kp, hkp, h⟩))))


def hsS : String := "https://g-node.org/odml-rdf#hasSection"
def hpS : String := "https://g-node.org/odml-rdf#hasProperty"
abbrev docT : Term := .iri Gen.Format.documentRdfType.toList
abbrev secT : Term := .iri Gen.Format.sectionRdfType.toList
abbrev propT : Term := .iri Gen.Format.propertyRdfType.toList

/-- What the queries need of the regenerated tables (decidable; discharged in `Props/C20`). -/
structure QTablesOK : Prop where
  base : TablesOK
  docSecs : ("sections", hsS) ∈ Gen.Format.documentRdfMap
  secSecs : ("sections", hsS) ∈ Gen.Format.sectionRdfMap
  secProps : ("properties", hpS) ∈ Gen.Format.sectionRdfMap
  hsNotProp : hsS ∉ Gen.Format.propertyRdfMap.map (·.2)
  hpNotDoc : hpS ∉ Gen.Format.documentRdfMap.map (·.2)
  hpNotProp : hpS ∉ Gen.Format.propertyRdfMap.map (·.2)
  hsIri : odmlIri "hasSection" = .iri hsS.toList
  hpIri : odmlIri "hasProperty" = .iri hpS.toList
  docIri : odmlIri "Document" = docT
  secIri : odmlIri "Section" = secT
  propIri : odmlIri "Property" = propT
  typesDistinct : docT ≠ secT ∧ docT ≠ propT ∧ secT ≠ propT ∧ docT ≠ rdfSeq ∧ secT ≠ rdfSeq ∧ propT ≠ rdfSeq

theorem li_ne_odml (k : Nat) (l : String) : li k ≠ odmlIri l := by
  intro e
  simp only [li, odmlIri, Term.iri.injEq, liPrefix, append_assoc] at e
  exact rdfNs_ne_ns _ _ e

theorem li_ne_rdfType (k : Nat) : li k ≠ rdfType := by
  intro e
  simp only [li, rdfType, Term.iri.injEq, liPrefix, append_assoc] at e
  have := append_cancel_left e
  simp at this

theorem entry_eq_of_pred {tbl : List (String × String)} (nd : (tbl.map (·.2)).Nodup)
    {a b : String × String} (ha : a ∈ tbl) (hb : b ∈ tbl) (h : a.2 = b.2) : a = b := by
  induction tbl with
  | nil => simp at ha
  | cons x l ih =>
    simp only [map_cons, nodup_cons] at nd
    simp only [mem_cons] at ha hb
    rcases ha with rfl | ha <;> rcases hb with rfl | hb
    · rfl
    · exact absurd (h ▸ mem_map_of_mem (f := (·.2)) hb) nd.1
    · exact absurd (h ▸ mem_map_of_mem (f := (·.2)) ha) nd.1
    · exact ih nd.2 ha hb

theorem iri_toList_inj {a b : String} (h : Term.iri a.toList = Term.iri b.toList) : a = b := by
  simp only [Term.iri.injEq] at h
  exact String.toList_inj.mp h

section cases
variable (ok : QTablesOK) {ds : List DocT} (nr : NoRepo ds)
include ok nr

/-- Every `rdf:type` triple of the export types a Document, Section or Property node with its
    class, or a value sequence with `rdf:Seq`. -/
theorem type_triple_cases {x o : Term} (h : (⟨x, rdfType, o⟩ : Triple) ∈ flatGraph cfg0 ds) :
    (∃ d ∈ ds, x = node d.id ∧ o = docT) ∨ (∃ s ∈ docSecs ds, x = node s.id ∧ o = secT) ∨
    (∃ p ∈ docProps ds, x = node p.id ∧ o = propT) ∨ o = rdfSeq := by
  rcases mem_flat_cases h with ⟨d, hd, h⟩ | ⟨d, hd, kp, hkp, h⟩ | ⟨s, hs, h⟩ | ⟨s, hs, kp, hkp, h⟩ |
    ⟨p, hp, h⟩ | ⟨p, hp, kp, hkp, h⟩
  · simp only [docHead, mem_cons, mem_nil_iff, or_false, Triple.mk.injEq] at h
    rcases h with ⟨rfl, _, rfl⟩ | ⟨_, e, _⟩ | ⟨_, e, _⟩
    · exact .inl ⟨d, hd, rfl, rfl⟩
    · exact absurd e rdfType_ne_hasDocument
    · exact absurd e.symm (by decide)
  · have c := ownDocStep_cases (nr.1 d hd) h
    exact absurd c.2.1.symm (ok.base.doc.notMeta kp hkp).1
  · simp only [Triple.mk.injEq] at h
    exact .inr (.inl ⟨s, hs, h.1, h.2.2⟩)
  · have c := ownSecStep_cases (nr.2 s hs) h
    exact absurd c.2.1.symm (ok.base.sec.notMeta kp hkp).1
  · simp only [Triple.mk.injEq] at h
    exact .inr (.inr (.inl ⟨p, hp, h.1, h.2.2⟩))
  · rcases savePropertyKey_cases h with ⟨_, e, _⟩ | ⟨_, ⟨_, e⟩ | ⟨k, e⟩⟩
    · exact absurd e.symm (ok.base.prop.notMeta kp hkp).1
    · exact .inr (.inr (.inr e))
    · exact absurd e.symm (li_ne_rdfType k)

/-- Every `hasSection` triple links a Document or Section node to the node of one of its
    direct child Sections. -/
theorem hasSection_cases {x y : Term} (h : (⟨x, .iri hsS.toList, y⟩ : Triple) ∈ flatGraph cfg0 ds) :
    (∃ d ∈ ds, x = node d.id ∧ ∃ c ∈ d.secs, y = node c.id) ∨
    (∃ s ∈ docSecs ds, x = node s.id ∧ ∃ c ∈ s.subs, y = node c.id) := by
  have mD := ok.base.doc.notMeta _ ok.docSecs
  rcases mem_flat_cases h with ⟨d, hd, h⟩ | ⟨d, hd, kp, hkp, h⟩ | ⟨s, hs, h⟩ | ⟨s, hs, kp, hkp, h⟩ |
    ⟨p, hp, h⟩ | ⟨p, hp, kp, hkp, h⟩
  · exfalso
    simp only [docHead, mem_cons, mem_nil_iff, or_false, Triple.mk.injEq] at h
    rcases h with ⟨_, e, _⟩ | ⟨_, e, _⟩ | ⟨_, e, _⟩
    · exact mD.1 e
    · exact mD.2.2.1 e
    · exact mD.2.2.2 e
  · obtain ⟨e1, e2, c⟩ := ownDocStep_cases (nr.1 d hd) h
    have := entry_eq_of_pred ok.base.doc.keys.predsNodup hkp ok.docSecs (iri_toList_inj e2.symm)
    subst this
    rcases c with ⟨_, c, hc, e3⟩ | ⟨e, _⟩
    · exact .inl ⟨d, hd, e1, c, hc, e3⟩
    · exact absurd rfl e
  · simp only [Triple.mk.injEq] at h
    exact absurd h.2.1 (ok.base.sec.notMeta _ ok.secSecs).1
  · obtain ⟨e1, e2, c⟩ := ownSecStep_cases (nr.2 s hs) h
    have := entry_eq_of_pred ok.base.sec.keys.predsNodup hkp ok.secSecs (iri_toList_inj e2.symm)
    subst this
    rcases c with ⟨_, c, hc, e3⟩ | ⟨e, _⟩ | ⟨e, _⟩
    · exact .inr ⟨s, hs, e1, c, hc, e3⟩
    · exact absurd e (by decide)
    · exact absurd rfl e
  · simp only [Triple.mk.injEq] at h
    exact absurd h.2.1 (ok.base.sec.notMeta _ ok.secSecs).1
  · exfalso
    rcases savePropertyKey_cases h with ⟨_, e, _⟩ | ⟨_, ⟨e, _⟩ | ⟨k, e⟩⟩
    · have := iri_toList_inj e
      exact ok.hsNotProp (this ▸ mem_map_of_mem (f := (·.2)) hkp)
    · exact (ok.base.sec.notMeta _ ok.secSecs).1 e
    · rw [← ok.hsIri] at e; exact li_ne_odml k _ e.symm

/-- Every `hasProperty` triple links a Section node to the node of one of its Properties. -/
theorem hasProperty_cases {x y : Term} (h : (⟨x, .iri hpS.toList, y⟩ : Triple) ∈ flatGraph cfg0 ds) :
    ∃ s ∈ docSecs ds, x = node s.id ∧ ∃ c ∈ s.props, y = node c.id := by
  have mS := ok.base.sec.notMeta _ ok.secProps
  rcases mem_flat_cases h with ⟨d, hd, h⟩ | ⟨d, hd, kp, hkp, h⟩ | ⟨s, hs, h⟩ | ⟨s, hs, kp, hkp, h⟩ |
    ⟨p, hp, h⟩ | ⟨p, hp, kp, hkp, h⟩
  · exfalso
    simp only [docHead, mem_cons, mem_nil_iff, or_false, Triple.mk.injEq] at h
    rcases h with ⟨_, e, _⟩ | ⟨_, e, _⟩ | ⟨_, e, _⟩
    · exact mS.1 e
    · exact mS.2.2.1 e
    · exact mS.2.2.2 e
  · exfalso
    obtain ⟨_, e2, _⟩ := ownDocStep_cases (nr.1 d hd) h
    have := iri_toList_inj e2
    exact ok.hpNotDoc (this ▸ mem_map_of_mem (f := (·.2)) hkp)
  · simp only [Triple.mk.injEq] at h
    exact absurd h.2.1 mS.1
  · obtain ⟨e1, e2, c⟩ := ownSecStep_cases (nr.2 s hs) h
    have := entry_eq_of_pred ok.base.sec.keys.predsNodup hkp ok.secProps (iri_toList_inj e2.symm)
    subst this
    rcases c with ⟨e, _⟩ | ⟨_, c, hc, e3⟩ | ⟨_, e, _⟩
    · exact absurd e (by decide)
    · exact ⟨s, hs, e1, c, hc, e3⟩
    · exact absurd rfl e
  · simp only [Triple.mk.injEq] at h
    exact absurd h.2.1 mS.1
  · exfalso
    rcases savePropertyKey_cases h with ⟨_, e, _⟩ | ⟨_, ⟨e, _⟩ | ⟨k, e⟩⟩
    · have := iri_toList_inj e
      exact ok.hpNotProp (this ▸ mem_map_of_mem (f := (·.2)) hkp)
    · exact mS.1 e
    · rw [← ok.hpIri] at e; exact li_ne_odml k _ e.symm

end cases


/-! ## 5. Containment, attributes, safe queries -/

theorem mem_objects {g : Graph} {n q o : Term} : o ∈ objects g n q ↔ (⟨n, q, o⟩ : Triple) ∈ g := by
  unfold objects
  simp only [mem_map, mem_filter, Bool.and_eq_true, beq_iff_eq]
  constructor
  · rintro ⟨t, ⟨ht, e1, e2⟩, e3⟩
    obtain ⟨ts, tp, to⟩ := t
    simp only at e1 e2 e3
    subst e1 e2 e3
    exact ht
  · intro h
    exact ⟨_, ⟨h, rfl, rfl⟩, rfl⟩

mutual
theorem mem_secsWithParent (par : Term) : ∀ (s : SecT) (x : Term × SecT),
    x ∈ secsWithParent par s ↔ x = (par, s) ∨ ∃ s0 ∈ allSecs s, x.1 = node s0.id ∧ x.2 ∈ s0.subs
  | .mk id a ps ss, x => by
    rw [secsWithParent, allSecs]
    simp only [mem_cons]
    rw [mem_secsWithParentL (node id) ss x]
    constructor
    · rintro (h | h | ⟨s0, hs0, h⟩)
      · exact .inl h
      · exact .inr ⟨.mk id a ps ss, .inl rfl, by simp [h.1, SecT.id], by simpa [SecT.subs] using h.2⟩
      · exact .inr ⟨s0, .inr hs0, h⟩
    · rintro (h | ⟨s0, hs0, h⟩)
      · exact .inl h
      · rcases hs0 with rfl | hs0
        · exact .inr (.inl ⟨by simpa [SecT.id] using h.1, by simpa [SecT.subs] using h.2⟩)
        · exact .inr (.inr ⟨s0, hs0, h⟩)
theorem mem_secsWithParentL (par : Term) : ∀ (ss : List SecT) (x : Term × SecT),
    x ∈ secsWithParentL par ss ↔ (x.1 = par ∧ x.2 ∈ ss) ∨
      ∃ s0 ∈ allSecsL ss, x.1 = node s0.id ∧ x.2 ∈ s0.subs
  | [], x => by simp [secsWithParentL, allSecsL]
  | s :: r, x => by
    rw [secsWithParentL, allSecsL_cons]
    simp only [mem_append, mem_cons]
    rw [mem_secsWithParent par s x, mem_secsWithParentL par r x]
    constructor
    · rintro ((h | ⟨s0, hs0, h⟩) | (h | ⟨s0, hs0, h⟩))
      · exact .inl ⟨by rw [h], .inl (by rw [h])⟩
      · exact .inr ⟨s0, .inl hs0, h⟩
      · exact .inl ⟨h.1, .inr h.2⟩
      · exact .inr ⟨s0, .inr hs0, h⟩
    · rintro (⟨h1, h2 | h2⟩ | ⟨s0, hs0 | hs0, h⟩)
      · exact .inl (.inl (Prod.ext h1 h2))
      · exact .inr (.inl ⟨h1, h2⟩)
      · exact .inl (.inr ⟨s0, hs0, h⟩)
      · exact .inr (.inr ⟨s0, hs0, h⟩)
end

/-- `(parent node, section)` is listed iff the Section is a direct child of that Document or
    Section. -/
theorem mem_allSecsWithParent (ds : List DocT) (x : Term × SecT) :
    x ∈ allSecsWithParent ds ↔
      (∃ d ∈ ds, x.1 = node d.id ∧ x.2 ∈ d.secs) ∨
      (∃ s0 ∈ docSecs ds, x.1 = node s0.id ∧ x.2 ∈ s0.subs) := by
  unfold allSecsWithParent docSecs
  induction ds with
  | nil => simp [allSecsL]
  | cons d r ih =>
    simp only [flatMap_cons, mem_append, allSecsL_append, mem_cons]
    rw [ih, mem_secsWithParentL]
    constructor
    · rintro ((h | ⟨s0, hs0, h⟩) | (⟨d', hd', h⟩ | ⟨s0, hs0, h⟩))
      · exact .inl ⟨d, .inl rfl, h⟩
      · exact .inr ⟨s0, .inl hs0, h⟩
      · exact .inl ⟨d', .inr hd', h⟩
      · exact .inr ⟨s0, .inr hs0, h⟩
    · rintro (⟨d', rfl | hd', h⟩ | ⟨s0, hs0 | hs0, h⟩)
      · exact .inl (.inl h)
      · exact .inr (.inl ⟨d', hd', h⟩)
      · exact .inl (.inr ⟨s0, hs0, h⟩)
      · exact .inr (.inr ⟨s0, hs0, h⟩)

mutual
theorem subs_mem_allSecs : ∀ (s : SecT), ∀ c ∈ s.subs, c ∈ allSecs s
  | .mk id a ps ss, c, hc => by
    rw [allSecs]
    exact mem_cons_of_mem _ (mem_allSecsL_of_mem ss c hc)
theorem mem_allSecsL_of_mem : ∀ (ss : List SecT), ∀ c ∈ ss, c ∈ allSecsL ss
  | [], c, h => by simp at h
  | s :: r, c, h => by
    rw [allSecsL_cons]
    simp only [mem_cons] at h
    rcases h with rfl | h
    · exact mem_append_left _ (mem_allSecs_self _)
    · exact mem_append_right _ (mem_allSecsL_of_mem r c h)
end

mutual
theorem allSecs_trans : ∀ (s : SecT), ∀ x ∈ allSecs s, ∀ c ∈ x.subs, c ∈ allSecs s
  | .mk id a ps ss, x, hx, c, hc => by
    rw [allSecs] at hx ⊢
    simp only [mem_cons] at hx
    rcases hx with rfl | hx
    · exact mem_cons_of_mem _ (mem_allSecsL_of_mem ss c hc)
    · exact mem_cons_of_mem _ (allSecsL_trans ss x hx c hc)
theorem allSecsL_trans : ∀ (ss : List SecT), ∀ x ∈ allSecsL ss, ∀ c ∈ x.subs, c ∈ allSecsL ss
  | [], x, hx, _, _ => by simp [allSecsL] at hx
  | s :: r, x, hx, c, hc => by
    rw [allSecsL_cons] at hx ⊢
    simp only [mem_append] at hx ⊢
    rcases hx with hx | hx
    · exact .inl (allSecs_trans s x hx c hc)
    · exact .inr (allSecsL_trans r x hx c hc)
end

/-- Children listed with a parent are Sections of the document set. -/
theorem child_mem_docSecs {ds : List DocT} {x : Term × SecT} (h : x ∈ allSecsWithParent ds) :
    x.2 ∈ docSecs ds := by
  rcases (mem_allSecsWithParent ds x).mp h with ⟨d, hd, _, hc⟩ | ⟨s0, hs0, _, hc⟩
  · exact mem_docSecs_of_doc hd (mem_allSecsL_of_mem _ _ hc)
  · exact allSecsL_trans _ s0 hs0 _ hc

def safePair (k : Kind) (x : Pair) : Prop := x.kind = k ∧ String.ofList x.attr ∈ safeAttrs k

/-- **QuerySafe**: every pair sits under its own key and asks for a string-valued attribute. -/
def QuerySafe (q : QParams) : Prop :=
  (∀ x ∈ q.doc, safePair .doc x) ∧ (∀ x ∈ q.sec, safePair .sec x) ∧ (∀ x ∈ q.prop, safePair .prop x)

theorem safeAttrs_facts : ∀ (K : Kind) (k : String), k ∈ safeAttrs K →
    ((tableOf K).lookup k).isSome ∧ k ∈ cmpKeys ∧
    ((shapeOf K k.toList = .plain ∧ k ≠ "date" ∧ k ≠ "uncertainty") ∨ shapeOf K k.toList = .text) ∧
    (K = .prop ∨ k ≠ "uncertainty") ∧
    k ≠ "repository" ∧ k ≠ "id" ∧ k ≠ "sections" ∧ k ≠ "properties" ∧ k ≠ "value" := by
  intro K k hk
  cases K <;> simp only [safeAttrs, mem_cons, mem_nil_iff, or_false] at hk
  · rcases hk with rfl | rfl | rfl <;> decide
  · rcases hk with rfl | rfl | rfl | rfl <;> decide
  · rcases hk with rfl | rfl | rfl | rfl | rfl | rfl | rfl <;> decide

theorem mem_of_lookup_str {k v : String} : ∀ {tbl : List (String × String)},
    tbl.lookup k = some v → (k, v) ∈ tbl
  | [], h => by simp [List.lookup] at h
  | (k', v') :: l, h => by
    simp only [List.lookup] at h
    by_cases e : k = k'
    · subst e; simp at h; subst h; simp
    · have : (k == k') = false := by simpa using e
      simp only [this] at h
      exact mem_cons_of_mem _ (mem_of_lookup_str h)

/-- What the object position of the pattern of a pair asks for: any term with the text of the
    value (`date`, `uncertainty`), the plain string literal otherwise. -/
def ObjMatch (y : Pair) (o : Term) : Prop :=
  match shapeOf y.kind y.attr with
  | .text => strOf o = some y.val
  | _ => Term.lit y.val [] = o

theorem strOf_toLit (v : PyVal) : strOf v.toLit = some v.lex := by cases v <;> rfl
theorem strOf_toDateLit (v : PyVal) : strOf v.toDateLit = some v.lex := by cases v <;> rfl

theorem reprVal_str {k : String} {pv : PyVal} (hd : k ≠ "date") (hu : k ≠ "uncertainty")
    (h : reprVal k pv = true) : ∃ s, pv = .str s := by
  have hd' : (k == "date") = false := by simpa using hd
  have hu' : (k == "uncertainty") = false := by simpa using hu
  cases pv with
  | str s => exact ⟨s, rfl⟩
  | float r => simp [reprVal, hu'] at h
  | date d => simp [reprVal, hd'] at h
  | int i => simp [reprVal] at h

/-- For a representable attribute: the node has a triple `pred o` with an object the pattern of
    the pair asks for iff the object carries the value for that attribute (its Python value, as
    text, is the searched string). -/
theorem obj_mem_attrObjs {chk : PyVal → Bool} {conv : String → PyVal → Term} {a : Attrs} {k : String}
    {y : Pair}
    (hchk : ∀ pv, reprVal k pv = true → chk pv = true)
    (hconvP : k ≠ "date" → k ≠ "uncertainty" → ∀ s, conv k (.str s) = .lit s [])
    (hconvT : ∀ pv, strOf (conv k pv) = some pv.lex)
    (repr : ∀ pv, a.lookup k = some pv → reprVal k pv = true)
    (hshape : (shapeOf y.kind y.attr = .plain ∧ k ≠ "date" ∧ k ≠ "uncertainty") ∨
      shapeOf y.kind y.attr = .text) :
    (∃ o, ObjMatch y o ∧ o ∈ attrObjs chk conv a k) ↔
      (match a.lookup k with | some pv => pv.lex == y.val | none => false) = true := by
  unfold attrObjs
  cases hl : a.lookup k with
  | none => simp
  | some pv =>
    have hr := repr pv hl
    simp only [hchk pv hr, if_true, mem_cons, mem_nil_iff, or_false, beq_iff_eq]
    rcases hshape with ⟨hsh, hd, hu⟩ | hsh
    · obtain ⟨s, rfl⟩ := reprVal_str hd hu hr
      simp only [ObjMatch, hsh, hconvP hd hu, PyVal.lex]
      constructor
      · rintro ⟨o, e1, e2⟩
        rw [e2] at e1
        simp only [Term.lit.injEq, and_true] at e1
        exact e1.symm
      · intro e; exact ⟨_, by rw [e], rfl⟩
    · simp only [ObjMatch, hsh]
      constructor
      · rintro ⟨o, e1, e2⟩
        rw [e2, hconvT] at e1
        exact Option.some.inj e1
      · intro e; exact ⟨_, by rw [hconvT, e], rfl⟩


/-! ## 6. The three parts of a query on the exported graph -/

theorem eq_of_nodup_map {α} {f : α → Str} : ∀ {l : List α}, (l.map f).Nodup → ∀ {a b : α},
    a ∈ l → b ∈ l → f a = f b → a = b
  | [], _, _, _, h, _, _ => by simp at h
  | x :: l, nd, a, b, ha, hb, e => by
    simp only [map_cons, nodup_cons] at nd
    simp only [mem_cons] at ha hb
    rcases ha with rfl | ha <;> rcases hb with rfl | hb
    · rfl
    · exact absurd (e ▸ mem_map_of_mem (f := f) hb) nd.1
    · exact absurd (e.symm ▸ mem_map_of_mem (f := f) ha) nd.1
    · exact eq_of_nodup_map nd.2 ha hb e

theorem mem_flat_of_doc {ds : List DocT} {d : DocT} (hd : d ∈ ds) {t : Triple} (h : t ∈ ownDoc d) :
    t ∈ flatGraph cfg0 ds := by
  rw [flatGraph_eq]
  exact mem_append_left _ (mem_flatMap.mpr ⟨d, hd, h⟩)

theorem mem_flat_of_sec {ds : List DocT} {s : SecT} (hs : s ∈ docSecs ds) {t : Triple}
    (h : t ∈ ownSec cfg0 s) : t ∈ flatGraph cfg0 ds := by
  rw [flatGraph_eq]
  exact mem_append_right _ (mem_append_left _ (mem_flatMap.mpr ⟨s, hs, h⟩))

theorem mem_flat_of_prop {ds : List DocT} {p : PropT} (hp : p ∈ docProps ds) {t : Triple}
    (h : t ∈ saveProperty p) : t ∈ flatGraph cfg0 ds := by
  rw [flatGraph_eq]
  exact mem_append_right _ (mem_append_right _ (mem_flatMap.mpr ⟨p, hp, h⟩))

theorem shape_of_safe {K : Kind} {y : Pair} (hs : safePair K y) :
    (shapeOf y.kind y.attr = .plain ∧ String.ofList y.attr ≠ "date" ∧
      String.ofList y.attr ≠ "uncertainty") ∨ shapeOf y.kind y.attr = .text := by
  have := (safeAttrs_facts K _ hs.2).2.2.1
  rw [String.toList_ofList, ← hs.1] at this
  exact this

theorem truthy_of_repr {k : String} (hu : k ≠ "uncertainty") (pv : PyVal) (h : reprVal k pv = true) :
    pv.truthy = true := by
  have hu' : (k == "uncertainty") = false := by simpa using hu
  cases pv with
  | str s => simp only [reprVal, Bool.and_eq_true, Bool.not_eq_true'] at h; simp [PyVal.truthy, h.1]
  | float r => simp [reprVal, hu'] at h
  | date d => rfl
  | int i => simp [reprVal] at h

theorem isSet_of_repr {k : String} (pv : PyVal) (h : reprVal k pv = true) : pv.isSet = true := by
  cases pv with
  | str s => simp only [reprVal, Bool.and_eq_true, Bool.not_eq_true'] at h; simp [PyVal.isSet, h.1]
  | float r => rfl
  | date d => rfl
  | int i => rfl

section parts
variable (ok : QTablesOK) {ds : List DocT} (wf : WFDocs ds) (r : RdfRepr ds) (nr : NoRepo ds)
  {g : Graph} (hg : ∀ t, t ∈ g ↔ t ∈ flatGraph cfg0 ds) (F : Facts g ds)
include ok wf r nr hg F

/-- The attribute patterns of one kind at a node, as triples of the graph. -/
def AttrTriples (g : Graph) (K : Kind) (x : Term) (l : List Pair) : Prop :=
  ∀ y ∈ l, ∀ pred, (tableOf K).lookup (String.ofList y.attr) = some pred →
    ∃ o, ObjMatch y o ∧ (⟨x, .iri pred.toList, o⟩ : Triple) ∈ g

theorem doc_attrs_iff {d : DocT} (hd : d ∈ ds) (l : List Pair) (hs : ∀ y ∈ l, safePair .doc y) :
    AttrTriples g .doc (node d.id) l ↔ carriesAll d.attrs l = true := by
  unfold AttrTriples carriesAll
  simp only [all_eq_true]
  refine forall_congr' (fun y => forall_congr' (fun hy => ?_))
  obtain ⟨f1, f2, f3, f4, f5, f6, f7, f8, f9⟩ := safeAttrs_facts .doc _ (hs y hy).2
  have hu : String.ofList y.attr ≠ "uncertainty" := by
    rcases f4 with h | h
    · cases h
    · exact h
  cases hl : (tableOf .doc).lookup (String.ofList y.attr) with
  | none => simp [hl] at f1
  | some pred =>
    have hkp := mem_of_lookup_str hl
    have hperm := F.docAttr d hd _ hkp f6 f7
    simp only [Option.some.injEq, forall_eq']
    simp only [← mem_objects, hperm.mem_iff]
    unfold carries
    exact obj_mem_attrObjs (chk := PyVal.truthy) (conv := docConv) (truthy_of_repr hu)
      (fun h1 _ s => by
        have h1' : (String.ofList y.attr == "date") = false := by simpa using h1
        have h5' : (String.ofList y.attr == "repository") = false := by simpa using f5
        simp [docConv, h1', h5', PyVal.toLit])
      (fun pv => by
        have h5' : (String.ofList y.attr == "repository") = false := by simpa using f5
        simp only [docConv, h5', Bool.false_eq_true, if_false]
        split
        · exact strOf_toDateLit pv
        · exact strOf_toLit pv)
      (fun pv h => (r.docs d hd _ pv h).2 f2) (shape_of_safe (hs y hy))

theorem sec_attrs_iff {s : SecT} (hsm : s ∈ docSecs ds) (l : List Pair) (hs : ∀ y ∈ l, safePair .sec y) :
    AttrTriples g .sec (node s.id) l ↔ carriesAll s.attrs l = true := by
  unfold AttrTriples carriesAll
  simp only [all_eq_true]
  refine forall_congr' (fun y => forall_congr' (fun hy => ?_))
  obtain ⟨f1, f2, f3, f4, f5, f6, f7, f8, f9⟩ := safeAttrs_facts .sec _ (hs y hy).2
  have hu : String.ofList y.attr ≠ "uncertainty" := by
    rcases f4 with h | h
    · cases h
    · exact h
  cases hl : (tableOf .sec).lookup (String.ofList y.attr) with
  | none => simp [hl] at f1
  | some pred =>
    have hkp := mem_of_lookup_str hl
    have hperm := F.secAttr s hsm _ hkp f6 f7 f8
    simp only [Option.some.injEq, forall_eq']
    simp only [← mem_objects, hperm.mem_iff]
    unfold carries
    have h5' : (String.ofList y.attr == "repository") = false := by simpa using f5
    exact obj_mem_attrObjs (chk := PyVal.truthy) (conv := secConv) (truthy_of_repr hu)
      (fun _ _ s => by simp [secConv, h5', PyVal.toLit])
      (fun pv => by
        simp only [secConv, h5', Bool.false_eq_true, if_false]
        exact strOf_toLit pv)
      (fun pv h => ((r.secs s hsm).1 _ pv h).2 f2) (shape_of_safe (hs y hy))

theorem prop_attrs_iff {p : PropT} (hpm : p ∈ docProps ds) (l : List Pair) (hs : ∀ y ∈ l, safePair .prop y) :
    AttrTriples g .prop (node p.id) l ↔ propCarriesAll p l = true := by
  unfold AttrTriples propCarriesAll
  simp only [all_eq_true]
  refine forall_congr' (fun y => forall_congr' (fun hy => ?_))
  obtain ⟨f1, f2, f3, f4, f5, f6, f7, f8, f9⟩ := safeAttrs_facts .prop _ (hs y hy).2
  have hv : (y.attr == "value".toList) = false := by
    have : y.attr ≠ "value".toList := by
      intro e; apply f9; rw [e]; exact String.ofList_toList
    simpa using this
  cases hl : (tableOf .prop).lookup (String.ofList y.attr) with
  | none => simp [hl] at f1
  | some pred =>
    have hkp := mem_of_lookup_str hl
    have hperm := F.propAttr p hpm _ hkp f6 f9
    simp only [Option.some.injEq, forall_eq', hv, Bool.false_eq_true, if_false]
    simp only [← mem_objects, hperm.mem_iff]
    unfold carries
    exact obj_mem_attrObjs (chk := PyVal.isSet) (conv := propConv) (fun pv h => isSet_of_repr pv h)
      (fun _ _ s => by simp [propConv, PyVal.toLit])
      (fun pv => by simp only [propConv]; exact strOf_toLit pv)
      (fun pv h => ((r.props p hpm).1 _ pv h).2 f2) (shape_of_safe (hs y hy))

theorem doc_type_iff (x : Term) : (⟨x, rdfType, docT⟩ : Triple) ∈ g ↔ ∃ d ∈ ds, x = node d.id := by
  rw [hg]
  constructor
  · intro h
    rcases type_triple_cases ok nr h with ⟨d, hd, e, _⟩ | ⟨_, _, _, e⟩ | ⟨_, _, _, e⟩ | e
    · exact ⟨d, hd, e⟩
    · exact absurd e ok.typesDistinct.1
    · exact absurd e ok.typesDistinct.2.1
    · exact absurd e ok.typesDistinct.2.2.2.1
  · rintro ⟨d, hd, rfl⟩
    exact mem_flat_of_doc hd (by simp [ownDoc, docHead])

theorem sec_type_iff (x : Term) : (⟨x, rdfType, secT⟩ : Triple) ∈ g ↔ ∃ s ∈ docSecs ds, x = node s.id := by
  rw [hg]
  constructor
  · intro h
    rcases type_triple_cases ok nr h with ⟨_, _, _, e⟩ | ⟨s, hs, e, _⟩ | ⟨_, _, _, e⟩ | e
    · exact absurd e.symm ok.typesDistinct.1
    · exact ⟨s, hs, e⟩
    · exact absurd e ok.typesDistinct.2.2.1
    · exact absurd e ok.typesDistinct.2.2.2.2.1
  · rintro ⟨s, hs, rfl⟩
    obtain ⟨id, a, ps, ss⟩ := s
    exact mem_flat_of_sec hs (by simp [ownSec, sectionTypeTriples, cfg0, SecT.id])

theorem prop_type_iff (x : Term) : (⟨x, rdfType, propT⟩ : Triple) ∈ g ↔ ∃ p ∈ docProps ds, x = node p.id := by
  rw [hg]
  constructor
  · intro h
    rcases type_triple_cases ok nr h with ⟨_, _, _, e⟩ | ⟨_, _, _, e⟩ | ⟨p, hp, e, _⟩ | e
    · exact absurd e.symm ok.typesDistinct.2.1
    · exact absurd e.symm ok.typesDistinct.2.2.1
    · exact ⟨p, hp, e⟩
    · exact absurd e ok.typesDistinct.2.2.2.2.2
  · rintro ⟨p, hp, rfl⟩
    exact mem_flat_of_prop hp (by simp [saveProperty])

/-- `?d hasSection ?s` for a Section `s`: `?d` is what directly contains it. -/
theorem hasSection_iff (x : Term) {s : SecT} (hs : s ∈ docSecs ds) :
    (⟨x, .iri hsS.toList, node s.id⟩ : Triple) ∈ g ↔ (x, s) ∈ allSecsWithParent ds := by
  rw [hg, mem_allSecsWithParent]
  constructor
  · intro h
    rcases hasSection_cases ok nr h with ⟨d, hd, e, c, hc, e2⟩ | ⟨s0, hs0, e, c, hc, e2⟩
    · have hcm : c ∈ docSecs ds := mem_docSecs_of_doc hd (mem_allSecsL_of_mem _ _ hc)
      have := eq_of_nodup_map (wf_secs_nodup wf) hs hcm (node_inj e2)
      subst this
      exact .inl ⟨d, hd, e, hc⟩
    · have hcm : c ∈ docSecs ds := allSecsL_trans _ s0 hs0 _ hc
      have := eq_of_nodup_map (wf_secs_nodup wf) hs hcm (node_inj e2)
      subst this
      exact .inr ⟨s0, hs0, e, hc⟩
  · rintro (⟨d, hd, e, hc⟩ | ⟨s0, hs0, e, hc⟩)
    · simp only at e hc
      subst e
      refine mem_flat_of_doc hd ?_
      unfold ownDoc
      refine mem_append_right _ (mem_flatMap.mpr ⟨_, ok.docSecs, ?_⟩)
      simp only [ownDocStep, show (("sections" : String) == "id") = false by decide,
        Bool.false_eq_true, if_false, beq_self_eq_true, if_true, mem_map, secLink]
      exact ⟨s, hc, rfl⟩
    · simp only at e hc
      subst e
      obtain ⟨id0, a0, ps0, ss0⟩ := s0
      refine mem_flat_of_sec hs0 ?_
      unfold ownSec
      refine mem_append_right _ (mem_flatMap.mpr ⟨_, ok.secSecs, ?_⟩)
      simp only [ownSecStep, show (("sections" : String) == "id") = false by decide,
        Bool.false_eq_true, if_false, beq_self_eq_true, if_true, mem_map, secLink, SecT.id]
      exact ⟨s, hc, rfl⟩

/-- `?s hasProperty ?p` for a Property `p`: `?s` is the Section that holds it. -/
theorem hasProperty_iff (x : Term) {p : PropT} (hp : p ∈ docProps ds) :
    (⟨x, .iri hpS.toList, node p.id⟩ : Triple) ∈ g ↔ ∃ s ∈ docSecs ds, x = node s.id ∧ p ∈ s.props := by
  rw [hg]
  constructor
  · intro h
    obtain ⟨s, hs, e, c, hc, e2⟩ := hasProperty_cases ok nr h
    have hcm : c ∈ docProps ds := mem_flatMap.mpr ⟨s, hs, hc⟩
    have := eq_of_nodup_map (wf_props_nodup wf) hp hcm (node_inj e2)
    subst this
    exact ⟨s, hs, e, hc⟩
  · rintro ⟨s, hs, rfl, hc⟩
    obtain ⟨id0, a0, ps0, ss0⟩ := s
    refine mem_flat_of_sec hs ?_
    unfold ownSec
    refine mem_append_right _ (mem_flatMap.mpr ⟨_, ok.secProps, ?_⟩)
    simp only [ownSecStep, show (("properties" : String) == "id") = false by decide,
      show (("properties" : String) == "sections") = false by decide,
      Bool.false_eq_true, if_false, beq_self_eq_true, if_true, mem_map, propLink, SecT.id]
    exact ⟨p, hc, rfl⟩

end parts


/-! ## 7. Frame: variables a pattern does not mention stay as they are -/

def mentions (pat : Pat) (y : Var) : Prop := pat.s = .var y ∨ pat.p = .var y ∨ pat.o = .var y

theorem matchPat_frame {b b3 : Binding} {pat : Pat} {t : Triple} (h : matchPat b pat t = some b3)
    {y : Var} (hy : ¬ mentions pat y) : b3.get y = b.get y := by
  unfold matchPat at h
  cases h1 : matchPT b pat.s t.s with
  | none => simp [h1] at h
  | some b1 =>
    simp only [h1] at h
    cases h2 : matchPT b1 pat.p t.p with
    | none => simp [h2] at h
    | some b2 =>
      simp only [h2] at h
      have f1 := (matchPT_spec h1).2.2 y (fun x e e2 => hy (.inl (e2 ▸ e)))
      have f2 := (matchPT_spec h2).2.2 y (fun x e e2 => hy (.inr (.inl (e2 ▸ e))))
      have f3 := (matchPT_spec h).2.2 y (fun x e e2 => hy (.inr (.inr (e2 ▸ e))))
      rw [f3, f2, f1]

theorem ext_frame {g : Graph} {pats : List Pat} {b b' : Binding} (h : Ext g pats b b') {y : Var}
    (hy : ∀ pat ∈ pats, ¬ mentions pat y) : b'.get y = b.get y := by
  induction h with
  | nil => rfl
  | cons _ hm _ ih =>
    rw [ih (fun p hp => hy p (by simp [hp])), matchPat_frame hm (hy _ (by simp))]

/-! ## 8. Patterns of a safe query -/

/-- The object position of the pattern of a pair. -/
def objPT (x : Pair) : PT :=
  match shapeOf x.kind x.attr with
  | .text => .str x.val
  | _ => .const (.lit x.val [])

def patOf (x : Pair) (pred : String) : Pat :=
  ⟨.var (varOf x.kind), .const (.iri pred.toList), objPT x⟩

theorem denotes_objPT (b : Binding) (y : Pair) (o : Term) : denotes b (objPT y) o ↔ ObjMatch y o := by
  unfold objPT ObjMatch
  cases shapeOf y.kind y.attr <;> simp [denotes]

theorem objPT_not_var (y : Pair) (v : Var) : objPT y ≠ .var v := by
  unfold objPT
  cases shapeOf y.kind y.attr <;> simp

theorem attr_ne_value {y : Pair} (f9 : String.ofList y.attr ≠ "value") :
    (y.attr == "value".toList) = false := by
  have : y.attr ≠ "value".toList := by
    intro e; apply f9; rw [e]; exact String.ofList_toList
  simpa using this

theorem attrPat_safe {K : Kind} {y : Pair} (hs : safePair K y) :
    ∃ pred, (tableOf K).lookup (String.ofList y.attr) = some pred ∧ attrPat y = .ok [patOf y pred] ∧
      attrFlt y = [] := by
  obtain ⟨f1, _, _, _, _, _, _, _, f9⟩ := safeAttrs_facts K _ hs.2
  have hsh := shape_of_safe hs
  have hk := hs.1
  subst hk
  have hv2 := attr_ne_value f9
  cases hl : (tableOf y.kind).lookup (String.ofList y.attr) with
  | none => simp [hl] at f1
  | some pred =>
    refine ⟨pred, rfl, ?_, ?_⟩
    · unfold attrPat patOf objPT
      simp only [hv2, Bool.and_false, Bool.false_eq_true, if_false, hl]
      rcases hsh with ⟨h, _⟩ | h <;> simp only [h]
    · unfold attrFlt
      simp only [hv2, Bool.and_false, Bool.false_eq_true, if_false, hl]
      rcases hsh with ⟨h, _⟩ | h <;> simp only [h]

theorem attrPats_safe {K : Kind} : ∀ (l : List Pair), (∀ y ∈ l, safePair K y) →
    ∃ ps, attrPats l = .ok ps ∧ ∀ pat, pat ∈ ps ↔
      ∃ y ∈ l, ∃ pred, (tableOf K).lookup (String.ofList y.attr) = some pred ∧ pat = patOf y pred
  | [], _ => ⟨[], rfl, by simp⟩
  | y :: r, hs => by
    obtain ⟨pred, hl, hp, _⟩ := attrPat_safe (hs y (by simp))
    obtain ⟨ps, hps, hm⟩ := attrPats_safe r (fun z hz => hs z (by simp [hz]))
    refine ⟨patOf y pred :: ps, by simp [attrPats, hp, hps], ?_⟩
    intro pat
    simp only [mem_cons, hm]
    constructor
    · rintro (rfl | ⟨z, hz, pr, h1, h2⟩)
      · exact ⟨y, .inl rfl, pred, hl, rfl⟩
      · exact ⟨z, .inr hz, pr, h1, h2⟩
    · rintro ⟨z, rfl | hz, pr, h1, h2⟩
      · rw [hl] at h1; cases h1; exact .inl h2
      · exact .inr ⟨z, hz, pr, h1, h2⟩

theorem flatMap_attrFlt_safe {K : Kind} (l : List Pair) (hs : ∀ y ∈ l, safePair K y) :
    l.flatMap attrFlt = [] := by
  rw [flatMap_eq_nil_iff]
  intro y hy
  exact (attrPat_safe (hs y hy)).choose_spec.2.2

/-- A query over the attributes of `QuerySafe` has no FILTER on the variables of the rows. -/
theorem prepareFilters_safe {q : QParams}
    (safe : (∀ x ∈ q.doc, safePair .doc x) ∧ (∀ x ∈ q.sec, safePair .sec x) ∧
      (∀ x ∈ q.prop, safePair .prop x)) : prepareFilters q = [] := by
  unfold prepareFilters
  rw [flatMap_attrFlt_safe q.doc safe.1, flatMap_attrFlt_safe q.sec safe.2.1,
    flatMap_attrFlt_safe q.prop safe.2.2]
  rfl

theorem filtered_nil (g : Graph) (pats : List Pat) : filtered g pats [] = solutions g pats := by
  simp [filtered]

/-- A binding satisfies the patterns in the graph. -/
def Sat (g : Graph) (pats : List Pat) (b : Binding) : Prop := ∀ pat ∈ pats, ∃ t ∈ g, instPat b pat t

theorem sat_append {g : Graph} {p1 p2 : List Pat} {b : Binding} :
    Sat g (p1 ++ p2) b ↔ Sat g p1 b ∧ Sat g p2 b := by
  unfold Sat
  simp only [mem_append]
  constructor
  · intro h; exact ⟨fun p hp => h p (.inl hp), fun p hp => h p (.inr hp)⟩
  · rintro ⟨h1, h2⟩ p (hp | hp)
    · exact h1 p hp
    · exact h2 p hp

theorem sat_vcc {g : Graph} {b : Binding} {v : Var} {c1 c2 : Term} :
    (∃ t ∈ g, instPat b ⟨.var v, .const c1, .const c2⟩ t) ↔
      ∃ x, b.get v = some x ∧ (⟨x, c1, c2⟩ : Triple) ∈ g := by
  constructor
  · rintro ⟨⟨ts, tp, to⟩, ht, h1, h2, h3⟩
    simp only [denotes] at h1 h2 h3
    subst h2 h3
    exact ⟨ts, h1, ht⟩
  · rintro ⟨x, hx, ht⟩
    exact ⟨_, ht, hx, rfl, rfl⟩

theorem sat_vcx {g : Graph} {b : Binding} {v : Var} {c1 : Term} {pt : PT} :
    (∃ t ∈ g, instPat b ⟨.var v, .const c1, pt⟩ t) ↔
      ∃ x o, b.get v = some x ∧ denotes b pt o ∧ (⟨x, c1, o⟩ : Triple) ∈ g := by
  constructor
  · rintro ⟨⟨ts, tp, to⟩, ht, h1, h2, h3⟩
    simp only [denotes] at h1 h2
    subst h2
    exact ⟨ts, to, h1, h3, ht⟩
  · rintro ⟨x, o, hx, ho, ht⟩
    exact ⟨_, ht, hx, rfl, ho⟩

theorem sat_vcv {g : Graph} {b : Binding} {v w : Var} {c : Term} :
    (∃ t ∈ g, instPat b ⟨.var v, .const c, .var w⟩ t) ↔
      ∃ x y, b.get v = some x ∧ b.get w = some y ∧ (⟨x, c, y⟩ : Triple) ∈ g := by
  constructor
  · rintro ⟨⟨ts, tp, to⟩, ht, h1, h2, h3⟩
    simp only [denotes] at h1 h2 h3
    subst h2
    exact ⟨ts, to, h1, h3, ht⟩
  · rintro ⟨x, y, hx, hy, ht⟩
    exact ⟨_, ht, hx, rfl, hy⟩

/-- Satisfaction of the attribute patterns of one kind. -/
theorem sat_attrs {g : Graph} {K : Kind} {l : List Pair} {ps : List Pat} {b : Binding}
    (hm : ∀ pat, pat ∈ ps ↔
      ∃ y ∈ l, ∃ pred, (tableOf K).lookup (String.ofList y.attr) = some pred ∧ pat = patOf y pred)
    (hk : ∀ y ∈ l, y.kind = K) {x : Term} (hx : b.get (varOf K) = some x) :
    Sat g ps b ↔ AttrTriples g K x l := by
  unfold Sat AttrTriples
  constructor
  · intro h y hy pred hl
    have := h (patOf y pred) ((hm _).mpr ⟨y, hy, pred, hl, rfl⟩)
    unfold patOf at this
    obtain ⟨x', o, hx', ho, ht⟩ := sat_vcx.mp this
    rw [hk y hy, hx] at hx'
    cases hx'
    exact ⟨o, (denotes_objPT b y o).mp ho, ht⟩
  · intro h pat hp
    obtain ⟨y, hy, pred, hl, rfl⟩ := (hm pat).mp hp
    unfold patOf
    obtain ⟨o, ho, ht⟩ := h y hy pred hl
    exact sat_vcx.mpr ⟨x, o, by rw [hk y hy]; exact hx, (denotes_objPT b y o).mpr ho, ht⟩

mutual
theorem mem_allSecs_cases : ∀ (s : SecT), ∀ x ∈ allSecs s, x = s ∨ ∃ s0 ∈ allSecs s, x ∈ s0.subs
  | .mk id a ps ss, x, hx => by
    rw [allSecs] at hx
    simp only [mem_cons] at hx
    rcases hx with rfl | hx
    · exact .inl rfl
    · right
      rcases mem_allSecsL_cases ss x hx with h | ⟨s0, hs0, h⟩
      · exact ⟨.mk id a ps ss, mem_allSecs_self _, h⟩
      · exact ⟨s0, by rw [allSecs]; exact mem_cons_of_mem _ hs0, h⟩
theorem mem_allSecsL_cases : ∀ (ss : List SecT), ∀ x ∈ allSecsL ss,
    x ∈ ss ∨ ∃ s0 ∈ allSecsL ss, x ∈ s0.subs
  | [], x, hx => by simp [allSecsL] at hx
  | s :: r, x, hx => by
    rw [allSecsL_cons] at hx ⊢
    simp only [mem_append] at hx
    rcases hx with hx | hx
    · rcases mem_allSecs_cases s x hx with rfl | ⟨s0, hs0, h⟩
      · exact .inl (by simp)
      · exact .inr ⟨s0, mem_append_left _ hs0, h⟩
    · rcases mem_allSecsL_cases r x hx with h | ⟨s0, hs0, h⟩
      · exact .inl (by simp [h])
      · exact .inr ⟨s0, mem_append_right _ hs0, h⟩
end

/-- Every Section of the document set is listed with what contains it. -/
theorem exists_parent {ds : List DocT} {s : SecT} (hs : s ∈ docSecs ds) :
    ∃ par, (par, s) ∈ allSecsWithParent ds := by
  unfold docSecs at hs
  rcases mem_allSecsL_cases _ s hs with h | ⟨s0, hs0, h⟩
  · obtain ⟨d, hd, hc⟩ := mem_flatMap.mp h
    exact ⟨node d.id, (mem_allSecsWithParent ds _).mpr (.inl ⟨d, hd, rfl, hc⟩)⟩
  · exact ⟨node s0.id, (mem_allSecsWithParent ds _).mpr (.inr ⟨s0, hs0, rfl, h⟩)⟩


/-! ## 9. Soundness and completeness of the generated query -/

def PD (ds : List DocT) (q : QParams) (b : Binding) : Prop :=
  q.doc = [] ∨ ∃ d ∈ ds, b.d = some (node d.id) ∧ carriesAll d.attrs q.doc = true
def PS (ds : List DocT) (q : QParams) (b : Binding) : Prop :=
  q.sec = [] ∨ ∃ ps ∈ allSecsWithParent ds, b.d = some ps.1 ∧ b.s = some (node ps.2.id) ∧
    carriesAll ps.2.attrs q.sec = true
def PP (ds : List DocT) (q : QParams) (b : Binding) : Prop :=
  q.prop = [] ∨ ∃ ps ∈ allSecsWithParent ds, b.s = some (node ps.2.id) ∧
    ∃ p ∈ ps.2.props, b.p = some (node p.id) ∧ propCarriesAll p q.prop = true

theorem sat_cons {g : Graph} {p : Pat} {ps : List Pat} {b : Binding} :
    Sat g (p :: ps) b ↔ (∃ t ∈ g, instPat b p t) ∧ Sat g ps b := by
  unfold Sat
  simp only [mem_cons, forall_eq_or_imp]

def docPats (q : QParams) (dp : List Pat) : List Pat :=
  if q.doc.isEmpty then [] else ⟨.var .d, .const rdfType, .const (odmlIri "Document")⟩ :: dp
def secPats (q : QParams) (sp : List Pat) : List Pat :=
  if q.sec.isEmpty then [] else
    ⟨.var .d, .const (odmlIri "hasSection"), .var .s⟩ ::
    ⟨.var .s, .const rdfType, .const (odmlIri "Section")⟩ :: sp
def propPats (q : QParams) (pp : List Pat) : List Pat :=
  if q.prop.isEmpty then [] else
    ⟨.var .s, .const (odmlIri "hasProperty"), .var .p⟩ ::
    ⟨.var .p, .const rdfType, .const (odmlIri "Property")⟩ :: pp

theorem prepareQuery_eq {q : QParams} {dp sp pp : List Pat} (h1 : attrPats q.doc = .ok dp)
    (h2 : attrPats q.sec = .ok sp) (h3 : attrPats q.prop = .ok pp) :
    prepareQuery q = .ok (docPats q dp ++ secPats q sp ++ propPats q pp) := by
  unfold prepareQuery docPats secPats propPats
  simp only [h1, h2, h3]

section main
variable (ok : QTablesOK) {ds : List DocT} (wf : WFDocs ds) (r : RdfRepr ds) (nr : NoRepo ds)
  {g : Graph} (hg : ∀ t, t ∈ g ↔ t ∈ flatGraph cfg0 ds) (F : Facts g ds)
  {q : QParams} (safe : QuerySafe q)
include ok wf r nr hg F safe

theorem satD_iff {dp : List Pat}
    (hm : ∀ pat, pat ∈ dp ↔ ∃ y ∈ q.doc, ∃ pred,
      (tableOf .doc).lookup (String.ofList y.attr) = some pred ∧ pat = patOf y pred) (b : Binding) :
    Sat g (docPats q dp) b ↔ PD ds q b := by
  unfold docPats PD
  by_cases he : q.doc = []
  · simp [he, Sat]
  · have he' : q.doc.isEmpty = false := by simpa using he
    simp only [he', Bool.false_eq_true, if_false, he, false_or]
    rw [sat_cons, sat_vcc, ok.docIri]
    constructor
    · rintro ⟨⟨x, hx, ht⟩, hs⟩
      obtain ⟨d, hd, rfl⟩ := (doc_type_iff ok wf r nr hg F x).mp ht
      refine ⟨d, hd, hx, ?_⟩
      rw [← doc_attrs_iff ok wf r nr hg F hd q.doc safe.1]
      exact (sat_attrs hm (fun y hy => (safe.1 y hy).1) hx).mp hs
    · rintro ⟨d, hd, hx, hc⟩
      refine ⟨⟨node d.id, hx, (doc_type_iff ok wf r nr hg F _).mpr ⟨d, hd, rfl⟩⟩, ?_⟩
      exact (sat_attrs hm (fun y hy => (safe.1 y hy).1) hx).mpr
        ((doc_attrs_iff ok wf r nr hg F hd q.doc safe.1).mpr hc)

theorem satS_iff {sp : List Pat}
    (hm : ∀ pat, pat ∈ sp ↔ ∃ y ∈ q.sec, ∃ pred,
      (tableOf .sec).lookup (String.ofList y.attr) = some pred ∧ pat = patOf y pred) (b : Binding) :
    Sat g (secPats q sp) b ↔ PS ds q b := by
  unfold secPats PS
  by_cases he : q.sec = []
  · simp [he, Sat]
  · have he' : q.sec.isEmpty = false := by simpa using he
    simp only [he', Bool.false_eq_true, if_false, he, false_or]
    rw [sat_cons, sat_cons, sat_vcv, sat_vcc, ok.secIri, ok.hsIri]
    constructor
    · rintro ⟨⟨x, y, hx, hy, ht⟩, ⟨y', hy', ht'⟩, hs⟩
      have : y' = y := by
        have h1 : b.get .s = some y := hy
        have h2 : b.get .s = some y' := hy'
        rw [h1] at h2; cases h2; rfl
      subst this
      obtain ⟨s, hsm, rfl⟩ := (sec_type_iff ok wf r nr hg F y').mp ht'
      have hpar := (hasSection_iff ok wf r nr hg F x hsm).mp ht
      refine ⟨(x, s), hpar, hx, hy, ?_⟩
      rw [← sec_attrs_iff ok wf r nr hg F hsm q.sec safe.2.1]
      exact (sat_attrs hm (fun y hy => (safe.2.1 y hy).1) hy).mp hs
    · rintro ⟨⟨x, s⟩, hpar, hx, hy, hc⟩
      have hsm : s ∈ docSecs ds := child_mem_docSecs hpar
      simp only at hx hy hc
      refine ⟨⟨x, node s.id, hx, hy, (hasSection_iff ok wf r nr hg F x hsm).mpr hpar⟩,
        ⟨node s.id, hy, (sec_type_iff ok wf r nr hg F _).mpr ⟨s, hsm, rfl⟩⟩, ?_⟩
      exact (sat_attrs hm (fun y hy => (safe.2.1 y hy).1) hy).mpr
        ((sec_attrs_iff ok wf r nr hg F hsm q.sec safe.2.1).mpr hc)

theorem satP_iff {pp : List Pat}
    (hm : ∀ pat, pat ∈ pp ↔ ∃ y ∈ q.prop, ∃ pred,
      (tableOf .prop).lookup (String.ofList y.attr) = some pred ∧ pat = patOf y pred) (b : Binding) :
    Sat g (propPats q pp) b ↔ PP ds q b := by
  unfold propPats PP
  by_cases he : q.prop = []
  · simp [he, Sat]
  · have he' : q.prop.isEmpty = false := by simpa using he
    simp only [he', Bool.false_eq_true, if_false, he, false_or]
    rw [sat_cons, sat_cons, sat_vcv, sat_vcc, ok.propIri, ok.hpIri]
    constructor
    · rintro ⟨⟨x, y, hx, hy, ht⟩, ⟨y', hy', ht'⟩, hs⟩
      have : y' = y := by
        have h1 : b.get .p = some y := hy
        have h2 : b.get .p = some y' := hy'
        rw [h1] at h2; cases h2; rfl
      subst this
      obtain ⟨p, hpm, rfl⟩ := (prop_type_iff ok wf r nr hg F y').mp ht'
      obtain ⟨s, hsm, rfl, hps⟩ := (hasProperty_iff ok wf r nr hg F x hpm).mp ht
      obtain ⟨par, hpar⟩ := exists_parent hsm
      refine ⟨(par, s), hpar, hx, p, hps, hy, ?_⟩
      rw [← prop_attrs_iff ok wf r nr hg F hpm q.prop safe.2.2]
      exact (sat_attrs hm (fun y hy => (safe.2.2 y hy).1) hy).mp hs
    · rintro ⟨⟨par, s⟩, hpar, hx, p, hps, hy, hc⟩
      have hsm : s ∈ docSecs ds := child_mem_docSecs hpar
      have hpm : p ∈ docProps ds := mem_flatMap.mpr ⟨s, hsm, hps⟩
      simp only at hx hps
      refine ⟨⟨node s.id, node p.id, hx, hy,
          (hasProperty_iff ok wf r nr hg F _ hpm).mpr ⟨s, hsm, rfl, hps⟩⟩,
        ⟨node p.id, hy, (prop_type_iff ok wf r nr hg F _).mpr ⟨p, hpm, rfl⟩⟩, ?_⟩
      exact (sat_attrs hm (fun y hy => (safe.2.2 y hy).1) hy).mpr
        ((prop_attrs_iff ok wf r nr hg F hpm q.prop safe.2.2).mpr hc)

end main


theorem partD_iff (ds : List DocT) (q : QParams) (b : Binding) :
    partD ds q b.d = true ↔ PD ds q b := by
  simp only [partD, PD, Bool.or_eq_true, isEmpty_iff, any_eq_true, Bool.and_eq_true, beq_iff_eq]

theorem partS_iff (ds : List DocT) (q : QParams) (b : Binding) :
    partS ds q b.d b.s = true ↔ PS ds q b := by
  simp only [partS, PS, Bool.or_eq_true, isEmpty_iff, any_eq_true, Bool.and_eq_true, beq_iff_eq,
    and_assoc]

theorem partP_iff (ds : List DocT) (q : QParams) (b : Binding) :
    partP ds q b.s b.p = true ↔ PP ds q b := by
  simp only [partP, PP, Bool.or_eq_true, isEmpty_iff, any_eq_true, Bool.and_eq_true, beq_iff_eq]

theorem mem_candidates (ds : List DocT) (row : Row) :
    row ∈ candidates ds ↔
      (row.1 = none ∨ (∃ d ∈ ds, row.1 = some (node d.id)) ∨
        ∃ ps ∈ allSecsWithParent ds, row.1 = some ps.1) ∧
      (row.2.1 = none ∨ ∃ ps ∈ allSecsWithParent ds, row.2.1 = some (node ps.2.id)) ∧
      (row.2.2 = none ∨ ∃ ps ∈ allSecsWithParent ds, ∃ p ∈ ps.2.props, row.2.2 = some (node p.id)) := by
  obtain ⟨a, b, c⟩ := row
  simp only [candidates, mem_flatMap, mem_map, mem_cons, mem_append, Prod.mk.injEq]
  constructor
  · rintro ⟨d, hd, s, hs, p, hp, rfl, rfl, rfl⟩
    refine ⟨?_, ?_, ?_⟩
    · rcases hd with (rfl | ⟨x, hx, rfl⟩) | ⟨x, hx, rfl⟩
      · exact .inl rfl
      · exact .inr (.inl ⟨x, hx, rfl⟩)
      · exact .inr (.inr ⟨x, hx, rfl⟩)
    · rcases hs with rfl | ⟨x, hx, rfl⟩
      · exact .inl rfl
      · exact .inr ⟨x, hx, rfl⟩
    · rcases hp with rfl | ⟨x, hx, y, hy, rfl⟩
      · exact .inl rfl
      · exact .inr ⟨x, hx, y, hy, rfl⟩
  · rintro ⟨hd, hs, hp⟩
    refine ⟨a, ?_, b, ?_, c, ?_, rfl, rfl, rfl⟩
    · rcases hd with h | ⟨x, hx, h⟩ | ⟨x, hx, h⟩
      · exact .inl (.inl h)
      · exact .inl (.inr ⟨x, hx, h.symm⟩)
      · exact .inr ⟨x, hx, h.symm⟩
    · rcases hs with h | ⟨x, hx, h⟩
      · exact .inl h
      · exact .inr ⟨x, hx, h.symm⟩
    · rcases hp with h | ⟨x, hx, y, hy, h⟩
      · exact .inl h
      · exact .inr ⟨x, hx, y, hy, h.symm⟩

theorem mentions_patOf {y : Pair} {pred : String} {v : Var} (h : mentions (patOf y pred) v) :
    v = varOf y.kind := by
  unfold mentions patOf at h
  rcases h with h | h | h
  · cases h; rfl
  · cases h
  · exact absurd h (objPT_not_var y v)

/-- **Sound and complete**: on the export of a well-formed, representable document set without
    repositories, for a query over string-valued attributes, a row is returned by the generated
    query iff it is a row of the direct evaluation on the documents. -/
theorem sound_complete (ok : QTablesOK) (ds : List DocT) (q : QParams) (wf : WFDocs ds)
    (r : RdfRepr ds) (nr : NoRepo ds) (safe : QuerySafe q) (row : Row) :
    ∃ rows, queryRows (exportRdf cfg0 ds) q = .ok rows ∧ (row ∈ rows ↔ row ∈ directEval ds q) := by
  obtain ⟨dp, hdp, mdp⟩ := attrPats_safe q.doc safe.1
  obtain ⟨sp, hsp, msp⟩ := attrPats_safe q.sec safe.2.1
  obtain ⟨pp, hpp, mpp⟩ := attrPats_safe q.prop safe.2.2
  have hq := prepareQuery_eq hdp hsp hpp
  have hperm := export_flat cfg0 ok.base.secOK ok.base.docOK ds
  have hg : ∀ t, t ∈ exportRdf cfg0 ds ↔ t ∈ flatGraph cfg0 ds := fun t => hperm.mem_iff
  have F := facts_export cfg0 wf ok.base (Perm.refl (exportRdf cfg0 ds))
  have hsat : ∀ b, Sat (exportRdf cfg0 ds) (docPats q dp ++ secPats q sp ++ propPats q pp) b ↔
      PD ds q b ∧ PS ds q b ∧ PP ds q b := by
    intro b
    rw [sat_append, sat_append, satD_iff ok wf r nr hg F safe mdp, satS_iff ok wf r nr hg F safe msp,
      satP_iff ok wf r nr hg F safe mpp, and_assoc]
  refine ⟨(solutions (exportRdf cfg0 ds) (docPats q dp ++ secPats q sp ++ propPats q pp)).map
    (fun b => (b.d, b.s, b.p)), by simp only [queryRows, hq, prepareFilters_safe safe, filtered_nil], ?_⟩
  -- which variables the patterns mention
  have mD : ∀ pat ∈ docPats q dp, ∀ v, mentions pat v → v = .d := by
    intro pat hp v hv
    unfold docPats at hp
    split at hp
    · simp at hp
    · simp only [mem_cons] at hp
      rcases hp with rfl | hp
      · rcases hv with h | h | h <;> cases h; rfl
      · obtain ⟨y, hy, pred, _, rfl⟩ := (mdp pat).mp hp
        rw [mentions_patOf hv, (safe.1 y hy).1]; rfl
  have mS : ∀ pat ∈ secPats q sp, ∀ v, mentions pat v → v = .d ∨ v = .s := by
    intro pat hp v hv
    unfold secPats at hp
    split at hp
    · simp at hp
    · simp only [mem_cons] at hp
      rcases hp with rfl | rfl | hp
      · rcases hv with h | h | h <;> cases h
        · exact .inl rfl
        · exact .inr rfl
      · rcases hv with h | h | h <;> cases h; exact .inr rfl
      · obtain ⟨y, hy, pred, _, rfl⟩ := (msp pat).mp hp
        rw [mentions_patOf hv, (safe.2.1 y hy).1]; exact .inr rfl
  have mP : ∀ pat ∈ propPats q pp, ∀ v, mentions pat v → v = .s ∨ v = .p := by
    intro pat hp v hv
    unfold propPats at hp
    split at hp
    · simp at hp
    · simp only [mem_cons] at hp
      rcases hp with rfl | rfl | hp
      · rcases hv with h | h | h <;> cases h
        · exact .inl rfl
        · exact .inr rfl
      · rcases hv with h | h | h <;> cases h; exact .inr rfl
      · obtain ⟨y, hy, pred, _, rfl⟩ := (mpp pat).mp hp
        rw [mentions_patOf hv, (safe.2.2 y hy).1]; exact .inr rfl
  have eD : q.doc = [] → docPats q dp = [] := fun h => by simp [docPats, h]
  have eS : q.sec = [] → secPats q sp = [] := fun h => by simp [secPats, h]
  have eP : q.prop = [] → propPats q pp = [] := fun h => by simp [propPats, h]
  simp only [mem_map]
  constructor
  · -- soundness
    rintro ⟨b, hb, rfl⟩
    obtain ⟨b0, hb0, hext⟩ := mem_evalBGP.mp hb
    simp only [mem_cons, mem_nil_iff, or_false] at hb0
    subst hb0
    have hs := (hsat b).mp (ext_sound hext).2
    have fd : q.doc = [] → q.sec = [] → b.d = none := by
      intro h1 h2
      have := ext_frame hext (y := .d) (by
        intro pat hp hm
        rw [eD h1, eS h2, nil_append, nil_append] at hp
        rcases mP pat hp _ hm with h | h <;> cases h)
      exact this
    have fs : q.sec = [] → q.prop = [] → b.s = none := by
      intro h1 h2
      have := ext_frame hext (y := .s) (by
        intro pat hp hm
        rw [eS h1, eP h2, append_nil, append_nil] at hp
        have := mD pat hp _ hm
        cases this)
      exact this
    have fp : q.prop = [] → b.p = none := by
      intro h1
      have := ext_frame hext (y := .p) (by
        intro pat hp hm
        rw [eP h1, append_nil, mem_append] at hp
        rcases hp with hp | hp
        · have := mD pat hp _ hm; cases this
        · rcases mS pat hp _ hm with h | h <;> cases h)
      exact this
    unfold directEval
    rw [mem_filter]
    refine ⟨(mem_candidates ds _).mpr ⟨?_, ?_, ?_⟩, ?_⟩
    · rcases hs.1 with h1 | ⟨d, hd, e, _⟩
      · rcases hs.2.1 with h2 | ⟨ps, hps, e, _⟩
        · exact .inl (fd h1 h2)
        · exact .inr (.inr ⟨ps, hps, e⟩)
      · exact .inr (.inl ⟨d, hd, e⟩)
    · rcases hs.2.1 with h1 | ⟨ps, hps, _, e, _⟩
      · rcases hs.2.2 with h2 | ⟨ps, hps, e, _⟩
        · exact .inl (fs h1 h2)
        · exact .inr ⟨ps, hps, e⟩
      · exact .inr ⟨ps, hps, e⟩
    · rcases hs.2.2 with h1 | ⟨ps, hps, _, p, hp, e, _⟩
      · exact .inl (fp h1)
      · exact .inr ⟨ps, hps, p, hp, e⟩
    · simp only [rowOK, Bool.and_eq_true]
      refine ⟨⟨⟨(partD_iff ds q b).mpr hs.1, (partS_iff ds q b).mpr hs.2.1⟩,
        (partP_iff ds q b).mpr hs.2.2⟩, ?_⟩
      simp only [unboundOK, Bool.and_eq_true, Bool.or_eq_true, Bool.not_eq_true', isEmpty_eq_false_iff,
        beq_iff_eq]
      refine ⟨⟨?_, ?_⟩, ?_⟩
      · by_cases h1 : q.doc = []
        · by_cases h2 : q.sec = []
          · exact .inr (fd h1 h2)
          · exact .inl (.inr h2)
        · exact .inl (.inl h1)
      · by_cases h1 : q.sec = []
        · by_cases h2 : q.prop = []
          · exact .inr (fs h1 h2)
          · exact .inl (.inr h2)
        · exact .inl (.inl h1)
      · by_cases h1 : q.prop = []
        · exact .inr (fp h1)
        · exact .inl h1
  · -- completeness
    intro hrow
    unfold directEval at hrow
    rw [mem_filter] at hrow
    obtain ⟨_, hok⟩ := hrow
    obtain ⟨od, os, op⟩ := row
    simp only [rowOK, Bool.and_eq_true] at hok
    obtain ⟨⟨⟨h1, h2⟩, h3⟩, h4⟩ := hok
    let b' : Binding := ⟨od, os, op, none⟩
    have hs' : Sat (exportRdf cfg0 ds) (docPats q dp ++ secPats q sp ++ propPats q pp) b' :=
      (hsat b').mpr ⟨(partD_iff ds q b').mp h1, (partS_iff ds q b').mp h2, (partP_iff ds q b').mp h3⟩
    obtain ⟨b, hext, hle⟩ := ext_complete (b := {}) (b' := b')
      (fun x t hx => by cases x <;> cases hx) hs'
    refine ⟨b, mem_evalBGP.mpr ⟨{}, by simp, hext⟩, ?_⟩
    have hs := (hsat b).mp (ext_sound hext).2
    simp only [unboundOK, Bool.and_eq_true, Bool.or_eq_true, Bool.not_eq_true', isEmpty_eq_false_iff,
      beq_iff_eq] at h4
    obtain ⟨⟨u1, u2⟩, u3⟩ := h4
    have hd : b.d = od := by
      cases hbd : b.d with
      | some t => exact (hle .d t hbd).symm
      | none =>
        rcases u1 with (h | h) | h
        · rcases hs.1 with e | ⟨d, _, e, _⟩
          · exact absurd e h
          · rw [hbd] at e; cases e
        · rcases hs.2.1 with e | ⟨ps, _, e, _⟩
          · exact absurd e h
          · rw [hbd] at e; cases e
        · exact h.symm
    have hsv : b.s = os := by
      cases hbs : b.s with
      | some t => exact (hle .s t hbs).symm
      | none =>
        rcases u2 with (h | h) | h
        · rcases hs.2.1 with e | ⟨ps, _, _, e, _⟩
          · exact absurd e h
          · rw [hbs] at e; cases e
        · rcases hs.2.2 with e | ⟨ps, _, e, _⟩
          · exact absurd e h
          · rw [hbs] at e; cases e
        · exact h.symm
    have hpv : b.p = op := by
      cases hbp : b.p with
      | some t => exact (hle .p t hbp).symm
      | none =>
        rcases u3 with h | h
        · rcases hs.2.2 with e | ⟨ps, _, _, p, _, e, _⟩
          · exact absurd e h
          · rw [hbp] at e; cases e
        · exact h.symm
    rw [hd, hsv, hpv]


/-! ## 10. The FILTER of a searched value on the export -/

theorem seqItems_obj {seq : Term} {t : Triple} : ∀ {k : Nat} {vs : List Lit},
    t ∈ seqItems seq k vs → ∃ v ∈ vs, t.o = v.toTerm
  | _, [], h => by simp [seqItems] at h
  | k, v :: vs, h => by
    simp only [seqItems, mem_cons] at h
    rcases h with rfl | h
    · exact ⟨v, by simp, rfl⟩
    · obtain ⟨w, hw, e⟩ := seqItems_obj h
      exact ⟨w, by simp [hw], e⟩

theorem seqItems_of_mem {seq : Term} {v : Lit} : ∀ {k : Nat} {vs : List Lit},
    v ∈ vs → ∃ j, (⟨seq, li j, v.toTerm⟩ : Triple) ∈ seqItems seq k vs
  | _, [], h => by simp at h
  | k, w :: vs, h => by
    simp only [mem_cons] at h
    rcases h with rfl | h
    · exact ⟨k, by simp [seqItems]⟩
    · obtain ⟨j, hj⟩ := seqItems_of_mem (seq := seq) (k := k + 1) h
      exact ⟨j, by simp [seqItems, hj]⟩

theorem isMemberPred_li (j : Nat) : isMemberPred (li j) = true := by
  simp [isMemberPred, li, strOf, stripPrefix_append]

theorem isMemberPred_rdfType : isMemberPred rdfType = false := by decide

/-- A member triple of a value sequence node among the triples of a Property step. -/
theorem savePropertyKey_member {p : PropT} {kp : String × String} {t : Triple} {n : Str}
    (h : t ∈ savePropertyKey p kp) (hs : t.s = .seqn n) (hm : isMemberPred t.p = true) :
    ∃ v ∈ p.values, t.o = v.toTerm := by
  unfold savePropertyKey at h
  simp only at h
  split at h
  · split at h
    · simp at h
    · simp only [saveValues, mem_cons] at h
      rcases h with rfl | rfl | h
      · simp only at hm; rw [isMemberPred_rdfType] at hm; cases hm
      · simp only [node] at hs; cases hs
      · exact seqItems_obj h
  · split at h
    · simp at h
    · split at h
      · simp at h
      · split at h
        · simp only [mem_cons, mem_nil_iff, or_false] at h
          subst h
          simp only [node] at hs; cases hs
        · simp at h

/-- **The FILTER of a searched value is exact** on every export (no sub-classing, no
    repositories) of a well-formed document set: with `?v` bound to the value node of a Property,
    `FILTER EXISTS { ?v ?t1 ?t2 . FILTER (STRSTARTS(STR(?t1), "…#_") && STR(?t2) = "s") }` holds iff
    `s` is the text of one of the values of that Property. -/
theorem value_filter_exact (ok : QTablesOK) {ds : List DocT} (wf : WFDocs ds) (nr : NoRepo ds)
    {p : PropT} (hp : p ∈ docProps ds) (hv : ∃ pred, ("value", pred) ∈ Gen.Format.propertyRdfMap)
    (b : Binding) (hb : b.get .v = some (.seqn p.id)) (s : Str) :
    (Flt.member .v s).holds (exportRdf cfg0 ds) b = true ↔ ∃ l ∈ p.values, l.lex = s := by
  have hperm := export_flat cfg0 ok.base.secOK ok.base.docOK ds
  simp only [Flt.holds, boundTo, hb, any_eq_true, Bool.and_eq_true, beq_iff_eq]
  constructor
  · rintro ⟨t, ht, ⟨e1, e2⟩, e3⟩
    have hs : t.s = .seqn p.id := e1.symm
    rcases mem_flat_cases (hperm.mem_iff.mp ht) with ⟨d, hd, h⟩ | ⟨d, hd, kp, hkp, h⟩ | ⟨s0, hs0, h⟩ | ⟨s0, hs0, kp, hkp, h⟩ |
      ⟨p0, hp0, h⟩ | ⟨p0, hp0, kp, hkp, h⟩
    · exfalso
      simp only [docHead, mem_cons, mem_nil_iff, or_false] at h
      rcases h with rfl | rfl | rfl <;> simp [node, hub] at hs
    · exfalso
      have c := ownDocStep_cases (nr.1 d hd) h
      rw [c.1] at hs; simp [node] at hs
    · exfalso; subst h; simp [node] at hs
    · exfalso
      have c := ownSecStep_cases (nr.2 s0 hs0) h
      rw [c.1] at hs; simp [node] at hs
    · exfalso; subst h; simp [node] at hs
    · obtain ⟨v, hvm, e⟩ := savePropertyKey_member h hs e2
      have hid : p0.id = p.id := by
        rcases savePropertyKey_cases h with ⟨c, _⟩ | ⟨c, _⟩
        · rw [c] at hs; simp [node] at hs
        · rw [c] at hs; simpa using hs
      have := eq_of_nodup_map (wf_props_nodup wf) hp0 hp hid
      subst this
      refine ⟨v, hvm, ?_⟩
      rw [e] at e3
      simpa [Lit.toTerm, strOf] using e3
  · rintro ⟨l, hl, rfl⟩
    obtain ⟨pred, hpred⟩ := hv
    obtain ⟨j, hj⟩ := seqItems_of_mem (seq := .seqn p.id) (k := 1) hl
    have hne : p.values.isEmpty = false := by
      cases hvs : p.values with
      | nil => rw [hvs] at hl; simp at hl
      | cons a r => rfl
    refine ⟨⟨.seqn p.id, li j, l.toTerm⟩, ?_, ⟨rfl, isMemberPred_li j⟩, by simp [Lit.toTerm, strOf]⟩
    refine hperm.mem_iff.mpr (mem_flat_of_prop hp ?_)
    unfold saveProperty
    refine mem_cons_of_mem _ (mem_flatMap.mpr ⟨_, hpred, ?_⟩)
    simp only [savePropertyKey, beq_self_eq_true, if_true, hne, Bool.false_eq_true, if_false, saveValues]
    exact mem_cons_of_mem _ (mem_cons_of_mem _ hj)

theorem querySafe_of_B {q : QParams} (h : querySafeB q = true) : QuerySafe q := by
  simp only [querySafeB, Bool.and_eq_true, all_eq_true, safePairB, beq_iff_eq, contains_iff_mem] at h
  exact ⟨fun x hx => h.1.1 x hx, fun x hx => h.1.2 x hx, fun x hx => h.2 x hx⟩

theorem noRepo_of_B {ds : List DocT} (h : noRepoB ds = true) : NoRepo ds := by
  simp only [noRepoB, Bool.and_eq_true, all_eq_true, Option.isNone_iff_eq_none] at h
  exact h

end Query
