/-
M-Loader (C18): a document object is only ever built from a parsed document, so every object
in a table, in a `pub` frame or returned by an operation carries a `node` tree, never `fail`.
Consequence: `load` of a resource that cannot be fetched or parsed returns `None` itself (not an
object with empty content).
-/
import OdmlModel.Model.Loader
import OdmlModel.Proofs.Loader
import OdmlModel.Proofs.LoaderProgress

set_option linter.unusedSimpArgs false
set_option linter.unusedVariables false

namespace Loader

/-- A value is `None` or a document object (with a `node` tree). -/
def NodeVal (v : Val) : Prop := ∀ o, v = some o → ∃ u kids, o.tree = .node u kids

def FrameNV : Frame → Prop
  | .pub _ v => NodeVal v
  | _ => True

theorem nodeVal_none : NodeVal none := by intro o h; cases h

theorem advance_nv (k : Key) (todo : List Url) (acc : List Tree) (id : Nat) :
    FrameNV (advance k todo acc id) := by
  cases todo with
  | nil =>
    simp only [advance, FrameNV]
    intro o ho
    cases ho
    exact ⟨_, _, rfl⟩
  | cons u t => simp [advance, FrameNV]

theorem beginLoad_nv (g : Url → Res) (sh : Shared) (k : Key) (sh' : Shared) (nx : Next)
    (hb : beginLoad g sh k = (sh', nx)) :
    sh'.loaded = sh.loaded ∧ (∀ fs, nx = .cont fs → ∀ x ∈ fs, FrameNV x) ∧
    (∀ v, nx = .ret v → v = none) := by
  unfold beginLoad at hb
  have hs := (fetch_shared g sh k).1
  generalize fetch g sh k = p at hb hs
  obtain ⟨sh1, r⟩ := p
  simp only at hb hs
  cases r with
  | missing =>
    simp only [Prod.mk.injEq] at hb
    obtain ⟨rfl, rfl⟩ := hb
    exact ⟨hs, (by intro fs h; cases h), by intro v h; cases h; rfl⟩
  | garbage =>
    simp only at hb
    split at hb
    · simp only [Prod.mk.injEq] at hb
      obtain ⟨rfl, rfl⟩ := hb
      exact ⟨hs, (by intro fs h; cases h), by intro v h; cases h; rfl⟩
    · simp only [Prod.mk.injEq] at hb
      obtain ⟨rfl, rfl⟩ := hb
      refine ⟨hs, ?_, by intro v h; cases h⟩
      intro fs h x hx
      cases h
      simp at hx
      subst hx
      exact nodeVal_none
  | doc incs =>
    simp only [Prod.mk.injEq] at hb
    obtain ⟨rfl, rfl⟩ := hb
    refine ⟨hs, ?_, by intro v h; cases h⟩
    intro fs h x hx
    cases h
    simp at hx
    subst hx
    exact advance_nv _ _ _ _

def TableNV (sh : Shared) : Prop := ∀ k v, sh.loaded k = some v → NodeVal v

theorem deferSection_loaded (sh : Shared) (ntid : Nat) (k : Key) :
    (deferSection sh ntid k).1.loaded = sh.loaded := by
  unfold deferSection
  split <;> rfl

theorem topStep_nv (g : Url → Res) (sh : Shared) (ntid : Nat) (f : Frame) (ht : TableNV sh)
    (hf : FrameNV f) (sh' : Shared) (nx : Next) (sp : Option Key)
    (hs : topStep g sh ntid f = (sh', nx, sp)) :
    TableNV sh' ∧ (∀ fs, nx = .cont fs → ∀ x ∈ fs, FrameNV x) ∧ (∀ v, nx = .ret v → NodeVal v) := by
  cases f with
  | start k =>
    simp only [topStep] at hs
    generalize hb : beginLoad g sh k = p at hs
    obtain ⟨s, n⟩ := p
    simp only [Prod.mk.injEq] at hs
    obtain ⟨rfl, rfl, _⟩ := hs
    obtain ⟨h1, h2, h3⟩ := beginLoad_nv g sh k _ _ hb
    exact ⟨(by intro k' v hv; rw [h1] at hv; exact ht k' v hv), h2,
           by intro v hv; rw [h3 v hv]; exact nodeVal_none⟩
  | load k =>
    simp only [topStep] at hs
    cases hl : sh.loaded k with
    | some v =>
      simp only [hl, Prod.mk.injEq] at hs
      obtain ⟨rfl, rfl, _⟩ := hs
      exact ⟨ht, (by intro fs h; cases h), by intro v' h; cases h; exact ht k v hl⟩
    | none =>
      cases hlg : sh.loading k with
      | some t =>
        simp only [hl, hlg, Prod.mk.injEq] at hs
        obtain ⟨rfl, rfl, _⟩ := hs
        refine ⟨ht, ?_, by intro v h; cases h⟩
        intro fs h x hx; cases h; simp at hx; subst hx; trivial
      | none =>
        simp only [hl, hlg] at hs
        generalize hb : beginLoad g sh k = p at hs
        obtain ⟨s, n⟩ := p
        simp only [Prod.mk.injEq] at hs
        obtain ⟨rfl, rfl, _⟩ := hs
        obtain ⟨h1, h2, h3⟩ := beginLoad_nv g sh k _ _ hb
        exact ⟨(by intro k' v hv; rw [h1] at hv; exact ht k' v hv), h2,
               by intro v hv; rw [h3 v hv]; exact nodeVal_none⟩
  | join k t =>
    simp only [topStep, Prod.mk.injEq] at hs
    obtain ⟨rfl, rfl, _⟩ := hs
    refine ⟨ht, ?_, by intro v h; cases h⟩
    intro fs h x hx; cases h; simp at hx; subst hx; trivial
  | pop k =>
    simp only [topStep, Prod.mk.injEq] at hs
    obtain ⟨rfl, rfl, _⟩ := hs
    refine ⟨ht, ?_, by intro v h; cases h⟩
    intro fs h x hx; cases h; simp at hx; subst hx; trivial
  | fin k todo acc id aw =>
    cases aw with
    | true =>
      simp only [topStep, Prod.mk.injEq] at hs
      obtain ⟨rfl, rfl, _⟩ := hs
      refine ⟨ht, ?_, by intro v h; cases h⟩
      intro fs h x hx; cases h; simp at hx; subst hx; trivial
    | false =>
      cases todo with
      | nil =>
        simp only [topStep, Prod.mk.injEq] at hs
        obtain ⟨rfl, rfl, _⟩ := hs
        refine ⟨ht, ?_, by intro v h; cases h⟩
        intro fs h x hx; cases h; simp at hx; subst hx; exact advance_nv _ _ _ _
      | cons u todo =>
        simp only [topStep] at hs
        have hl := deferSection_loaded sh ntid (tkey u)
        generalize deferSection sh ntid (tkey u) = p at hs hl
        obtain ⟨s, spw⟩ := p
        simp only [Prod.mk.injEq] at hs
        obtain ⟨rfl, rfl, _⟩ := hs
        refine ⟨(by intro k' v hv; rw [hl] at hv; exact ht k' v hv), ?_, by intro v h; cases h⟩
        intro fs h x hx
        cases h
        simp at hx
        rcases hx with rfl | rfl <;> trivial
  | pub k v =>
    simp only [topStep] at hs
    cases hl : sh.loaded k with
    | some v' =>
      simp only [hl, Prod.mk.injEq] at hs
      obtain ⟨rfl, rfl, _⟩ := hs
      exact ⟨ht, (by intro fs h; cases h), by intro v'' h; cases h; exact ht k v' hl⟩
    | none =>
      simp only [hl, Prod.mk.injEq] at hs
      obtain ⟨rfl, rfl, _⟩ := hs
      refine ⟨?_, (by intro fs h; cases h), by intro v'' h; cases h; exact hf⟩
      intro k' v' hv
      by_cases hkk : k' = k
      · subst hkk
        simp at hv
        subst hv
        exact hf
      · simp only [upd_other _ _ _ _ hkk] at hv
        exact ht k' v' hv
  | defer k =>
    simp only [topStep] at hs
    have hl := deferSection_loaded sh ntid k
    generalize deferSection sh ntid k = p at hs hl
    obtain ⟨s, spw⟩ := p
    simp only [Prod.mk.injEq] at hs
    obtain ⟨rfl, rfl, _⟩ := hs
    exact ⟨(by intro k' v hv; rw [hl] at hv; exact ht k' v hv), (by intro fs h; cases h),
           by intro v h; cases h; exact nodeVal_none⟩
  | clear k =>
    simp only [topStep, Prod.mk.injEq] at hs
    obtain ⟨rfl, rfl, _⟩ := hs
    refine ⟨?_, ?_, by intro v h; cases h⟩
    · intro k' v hv
      simp only at hv
      split at hv
      · exact ht k' v hv
      · cases hv
    · intro fs h x hx; cases h; simp at hx; subst hx; trivial

theorem applyNext_nv (nx : Next) (rest st : List Frame) (bottom : Option Val)
    (ha : applyNext nx rest = some (st, bottom))
    (hfs : ∀ fs, nx = .cont fs → ∀ x ∈ fs, FrameNV x) (hrest : ∀ x ∈ rest, FrameNV x) :
    (∀ x ∈ st, FrameNV x) ∧ (∀ v, bottom = some v → nx = .ret v) := by
  cases nx with
  | cont fs =>
    simp only [applyNext, Option.some.injEq, Prod.mk.injEq] at ha
    obtain ⟨rfl, rfl⟩ := ha
    refine ⟨?_, by intro v h; cases h⟩
    intro x hx
    rcases List.mem_append.mp hx with h | h
    · exact hfs fs rfl x h
    · exact hrest x h
  | ret v =>
    cases rest with
    | nil =>
      simp only [applyNext, Option.some.injEq, Prod.mk.injEq] at ha
      obtain ⟨rfl, rfl⟩ := ha
      exact ⟨(by intro x hx; simp at hx), by intro v' h; cases h; rfl⟩
    | cons f' r =>
      cases f' with
      | fin k todo acc id aw =>
        cases todo with
        | nil => simp [applyNext, deliver] at ha
        | cons u todo =>
          cases aw with
          | false => simp [applyNext, deliver] at ha
          | true =>
            simp only [applyNext, deliver, Option.map_some, Option.some.injEq, Prod.mk.injEq] at ha
            obtain ⟨rfl, rfl⟩ := ha
            refine ⟨?_, by intro v' h; cases h⟩
            intro x hx
            simp only [List.mem_cons] at hx
            rcases hx with rfl | hx
            · exact advance_nv _ _ _ _
            · exact hrest x (by simp [hx])
      | _ => simp [applyNext, deliver] at ha

structure Inv3 (s : State) : Prop where
  tableNV : TableNV s.sh
  callerNV : ∀ f ∈ s.caller, FrameNV f
  thrNV : ∀ th ∈ s.threads, ∀ f ∈ th.stack, FrameNV f
  resNV : ∀ r ∈ s.results, NodeVal r.val

theorem startOp_inv3 (s : State) (hi : Inv3 s) (hc : s.caller = []) : Inv3 (startOp s) := by
  unfold startOp
  rw [hc]
  cases hp : s.prog with
  | nil => simp only; exact hi
  | cons op rest =>
    cases op with
    | load k =>
      exact ⟨hi.tableNV, (by intro f hf; simp at hf; subst hf; trivial), hi.thrNV, hi.resNV⟩
    | deferred k =>
      exact ⟨hi.tableNV, (by intro f hf; simp at hf; subst hf; trivial), hi.thrNV, hi.resNV⟩
    | refresh k =>
      exact ⟨hi.tableNV, (by intro f hf; simp at hf; subst hf; trivial), hi.thrNV, hi.resNV⟩

theorem finishOp_inv3 (s : State) (hi : Inv3 s) (v : Val) (hv : NodeVal v) : Inv3 (finishOp s v) := by
  unfold finishOp
  cases hp : s.prog with
  | nil => simp only; exact hi
  | cons op rest =>
    have hres : ∀ r ∈ (⟨op, v, s.sh.epoch⟩ :: s.results : List Result), NodeVal r.val := by
      intro r hr
      simp only [List.mem_cons] at hr
      rcases hr with rfl | hr
      · exact hv
      · exact hi.resNV r hr
    cases op with
    | load k =>
      simp only
      exact startOp_inv3 _ ⟨hi.tableNV, (by intro f hf; simp at hf), hi.thrNV, hres⟩ rfl
    | deferred k =>
      simp only
      exact startOp_inv3 _ ⟨hi.tableNV, (by intro f hf; simp at hf), hi.thrNV, hres⟩ rfl
    | refresh k =>
      simp only
      exact startOp_inv3 _ ⟨hi.tableNV, (by intro f hf; simp at hf), hi.thrNV, hres⟩ rfl

theorem init_inv3 (cache0 : Url → CacheSt) (prog : List Op) : Inv3 (init cache0 prog) := by
  unfold init
  apply startOp_inv3
  · refine ⟨?_, ?_, ?_, ?_⟩
    · intro k v hv; simp [initShared] at hv
    · intro f hf; simp at hf
    · intro th hth; simp at hth
    · intro r hr; simp at hr
  · rfl

theorem step_inv3 (g : Url → Res) (s : State) (hi : Inv3 s) (t : Nat) : Inv3 (step g s t) := by
  unfold step
  split
  · split
    · exact hi
    · rename_i f rest hstk
      have hold : ∀ x ∈ f :: rest, FrameNV x := by
        cases t with
        | zero => simp only [stackOf] at hstk; rw [← hstk]; exact hi.callerNV
        | succ i =>
          simp only [stackOf] at hstk
          cases hth : s.threads[i]? with
          | none => simp [hth] at hstk
          | some th =>
            simp only [hth] at hstk
            rw [← hstk]
            exact hi.thrNV th (List.mem_of_getElem? hth)
      generalize hts : topStep g s.sh (s.threads.length + 1) f = p
      obtain ⟨sh', nx, sp⟩ := p
      simp only
      obtain ⟨htab, hfs, hretv⟩ := topStep_nv g s.sh _ f hi.tableNV (hold f (by simp)) sh' nx sp hts
      cases ha : applyNext nx rest with
      | none =>
        simp only
        exact ⟨hi.tableNV, hi.callerNV, hi.thrNV, hi.resNV⟩
      | some q =>
        obtain ⟨st, bottom⟩ := q
        obtain ⟨hst, hbot⟩ := applyNext_nv nx rest st bottom ha hfs (fun x hx => hold x (by simp [hx]))
        have hmid : Inv3 (spawnThread (setStack { s with sh := sh' } t st) sp) := by
          have hshared : (spawnThread (setStack { s with sh := sh' } t st) sp).sh = sh' := by
            cases sp <;> cases t <;> rfl
          have hres : (spawnThread (setStack { s with sh := sh' } t st) sp).results = s.results := by
            cases sp <;> cases t <;> rfl
          refine ⟨(by rw [hshared]; exact htab), ?_, ?_, by rw [hres]; exact hi.resNV⟩
          · cases t with
            | zero =>
              have : (spawnThread (setStack { s with sh := sh' } 0 st) sp).caller = st := by
                cases sp <;> rfl
              rw [this]; exact hst
            | succ i =>
              have : (spawnThread (setStack { s with sh := sh' } (i + 1) st) sp).caller = s.caller := by
                cases sp <;> rfl
              rw [this]; exact hi.callerNV
          · rw [spawn_threads]
            intro th hth
            unfold threadsAfter at hth
            rcases List.mem_append.mp hth with h1 | h1
            · cases t with
              | zero => exact hi.thrNV th h1
              | succ i =>
                rcases mem_setThr _ _ _ _ h1 with h2 | h2
                · exact hi.thrNV th h2
                · rw [h2]; exact hst
            · cases sp with
              | none => simp at h1
              | some k =>
                simp at h1
                subst h1
                intro x hx
                simp at hx
                subst hx
                trivial
        cases bottom with
        | none => simp only; exact hmid
        | some v =>
          cases t with
          | succ i => simp only; exact hmid
          | zero =>
            simp only
            exact finishOp_inv3 _ hmid v (hretv v (hbot v rfl))
  · exact hi

theorem runSched_inv3 (g : Url → Res) (sched : List Nat) :
    ∀ s, Inv3 s → Inv3 (runSched g s sched) := by
  induction sched with
  | nil => intro s hi; exact hi
  | cons t ts ih => intro s hi; exact ih _ (step_inv3 g s hi t)

end Loader
