/-
Helper lemmas for C08 / C19 (validation): the duplicate scans, the id walk as a scan over the
document order, which objects a validation visits, which rule yields which issue id.
-/
import OdmlModel.Model.Valid
import OdmlModel.Model.Registry
set_option linter.unusedSimpArgs false
namespace Valid

/-! ## scanM -/

theorem scanM_seen {R K : Type} [BEq K] [LawfulBEq K] (l : List (R × K)) :
    ∀ (seen : List K) (k : K), k ∈ (scanM seen l).2 ↔ k ∈ seen ∨ k ∈ l.map (·.2) := by
  induction l with
  | nil => intro seen k; simp [scanM]
  | cons x xs ih =>
    intro seen k
    obtain ⟨r, k'⟩ := x
    simp only [scanM]
    split
    · rename_i h
      simp only [ih, List.map_cons, List.mem_cons]
      have : k' ∈ seen := by simpa using h
      constructor
      · rintro (h | h)
        · exact Or.inl h
        · exact Or.inr (Or.inr h)
      · rintro (h | h | h)
        · exact Or.inl h
        · subst h; exact Or.inl this
        · exact Or.inr h
    · simp only [ih, List.map_cons, List.mem_cons]
      constructor
      · rintro ((h | h) | h)
        · exact Or.inr (Or.inl h)
        · exact Or.inl h
        · exact Or.inr (Or.inr h)
      · rintro (h | h | h)
        · exact Or.inl (Or.inr h)
        · exact Or.inl (Or.inl h)
        · exact Or.inr h

theorem mem_scanM {R K : Type} [BEq K] [LawfulBEq K] (l : List (R × K)) :
    ∀ (seen : List K) (r : R), r ∈ (scanM seen l).1 ↔
      ∃ pre k post, l = pre ++ (r, k) :: post ∧ (k ∈ seen ∨ k ∈ pre.map (·.2)) := by
  induction l with
  | nil => intro seen r; simp [scanM]
  | cons x xs ih =>
    intro seen r
    obtain ⟨r', k'⟩ := x
    simp only [scanM]
    split
    · rename_i h
      have hk : k' ∈ seen := by simpa using h
      simp only [List.mem_cons, ih]
      constructor
      · rintro (h | ⟨pre, k, post, hl, hk2⟩)
        · subst h; exact ⟨[], k', xs, by simp, Or.inl hk⟩
        · refine ⟨(r', k') :: pre, k, post, by simp [hl], ?_⟩
          rcases hk2 with h | h
          · exact Or.inl h
          · exact Or.inr (by simp [h])
      · rintro ⟨pre, k, post, hl, hk2⟩
        cases pre with
        | nil =>
          simp at hl
          exact Or.inl hl.1.1.symm
        | cons p pre' =>
          simp only [List.cons_append, List.cons.injEq] at hl
          obtain ⟨hp, hl⟩ := hl
          subst hp
          right
          refine ⟨pre', k, post, hl, ?_⟩
          rcases hk2 with h | h
          · exact Or.inl h
          · simp only [List.map_cons, List.mem_cons] at h
            rcases h with h | h
            · subst h; exact Or.inl hk
            · exact Or.inr h
    · rename_i h
      have hk : k' ∉ seen := by simpa using h
      simp only [ih]
      constructor
      · rintro ⟨pre, k, post, hl, hk2⟩
        refine ⟨(r', k') :: pre, k, post, by simp [hl], ?_⟩
        simp only [List.mem_cons] at hk2
        rcases hk2 with (h | h) | h
        · exact Or.inr (by simp [h])
        · exact Or.inl h
        · exact Or.inr (by simp [h])
      · rintro ⟨pre, k, post, hl, hk2⟩
        cases pre with
        | nil =>
          simp at hl
          obtain ⟨⟨h1, h2⟩, _⟩ := hl
          subst h2
          simp at hk2
          exact absurd hk2 hk
        | cons p pre' =>
          simp only [List.cons_append, List.cons.injEq] at hl
          obtain ⟨hp, hl⟩ := hl
          subst hp
          refine ⟨pre', k, post, hl, ?_⟩
          simp only [List.map_cons, List.mem_cons] at hk2 ⊢
          rcases hk2 with h | h | h
          · exact Or.inl (Or.inr h)
          · exact Or.inl (Or.inl h)
          · exact Or.inr h

theorem scanM_append {R K : Type} [BEq K] (a : List (R × K)) :
    ∀ (seen : List K) (b : List (R × K)),
      scanM seen (a ++ b) =
        ((scanM seen a).1 ++ (scanM (scanM seen a).2 b).1, (scanM (scanM seen a).2 b).2) := by
  induction a with
  | nil => intro seen b; simp [scanM]
  | cons x xs ih =>
    intro seen b
    obtain ⟨r, k⟩ := x
    simp only [List.cons_append, scanM]
    split
    · simp [ih]
    · simp [ih]



theorem labelled_eq {α R K : Type} (lab : Nat → R) (key : α → K) (l : List α) :
    ∀ i, ∀ pre x post, l = pre ++ x :: post →
      labelled lab key i l =
        labelled lab key i pre ++ (lab (i + pre.length), key x) :: labelled lab key (i + pre.length + 1) post := by
  intro i pre
  induction pre generalizing i l with
  | nil => intro x post h; subst h; simp [labelled]
  | cons p pre ih =>
    intro x post h
    subst h
    simp only [List.cons_append, labelled, List.length_cons]
    rw [ih (pre ++ x :: post) (i + 1) x post rfl]
    simp [Nat.add_assoc, Nat.add_comm 1]

theorem labelled_map_snd {α R K : Type} (lab : Nat → R) (key : α → K) (l : List α) :
    ∀ i, (labelled lab key i l).map (·.2) = l.map key := by
  induction l with
  | nil => intro i; simp [labelled]
  | cons x xs ih => intro i; simp [labelled, ih]

theorem labelled_split {α R K : Type} (lab : Nat → R) (key : α → K) (l : List α) :
    ∀ i (P : List (R × K)) (r : R) (k : K) (Q : List (R × K)),
      labelled lab key i l = P ++ (r, k) :: Q →
      ∃ pre x post, l = pre ++ x :: post ∧ P = labelled lab key i pre ∧
        r = lab (i + pre.length) ∧ k = key x := by
  induction l with
  | nil => intro i P r k Q h; simp [labelled] at h
  | cons a as ih =>
    intro i P r k Q h
    cases P with
    | nil =>
      simp only [labelled, List.nil_append, List.cons.injEq, Prod.mk.injEq] at h
      exact ⟨[], a, as, by simp, by simp [labelled], by simp [h.1.1], h.1.2.symm⟩
    | cons p P' =>
      simp only [labelled, List.cons_append, List.cons.injEq] at h
      obtain ⟨hp, h⟩ := h
      obtain ⟨pre, x, post, hl, hP, hr, hk⟩ := ih (i + 1) P' r k Q h
      refine ⟨a :: pre, x, post, by simp [hl], by simp [labelled, hp, hP], ?_, hk⟩
      simp [hr, Nat.add_assoc, Nat.add_comm 1]

/-- The duplicates a `names`-scan over a child list reports. -/
theorem mem_scan_labelled {α R K : Type} [BEq K] [LawfulBEq K] (lab : Nat → R) (key : α → K)
    (l : List α) (r : R) :
    r ∈ (scanM [] (labelled lab key 0 l)).1 ↔
      ∃ pre x post, l = pre ++ x :: post ∧ r = lab pre.length ∧ ∃ y ∈ pre, key y = key x := by
  rw [mem_scanM]
  constructor
  · rintro ⟨P, k, Q, h, hk⟩
    obtain ⟨pre, x, post, hl, hP, hr, hkx⟩ := labelled_split lab key l 0 P r k Q h
    refine ⟨pre, x, post, hl, by simpa using hr, ?_⟩
    simp only [List.not_mem_nil, false_or] at hk
    rw [hP, labelled_map_snd] at hk
    simp only [List.mem_map] at hk
    obtain ⟨y, hy, hyk⟩ := hk
    exact ⟨y, hy, by rw [hyk, hkx]⟩
  · rintro ⟨pre, x, post, hl, hr, y, hy, hyk⟩
    refine ⟨labelled lab key 0 pre, key x, labelled lab key (0 + pre.length + 1) post, ?_, ?_⟩
    · rw [labelled_eq lab key l 0 pre x post hl, hr]; simp
    · right
      rw [labelled_map_snd]
      exact List.mem_map.mpr ⟨y, hy, hyk⟩

/-! ## unique ids: the recursive walk is a scan over the document order -/

theorem propUniqueIds_eq (path : List Nat) (l : List Prp) :
    ∀ seen i, propUniqueIds path seen i l = scanM seen (propIdEntries path i l) := by
  induction l with
  | nil => intro seen i; simp [propUniqueIds, propIdEntries, scanM]
  | cons p ps ih =>
    intro seen i
    simp only [propUniqueIds, propIdEntries, scanM]
    split <;> simp [ih]

theorem secUniqueIds_eq (s : Sec) :
    ∀ path seen, secUniqueIds path seen s = scanM seen (secIdEntries path s) := by
  induction s using Sec.rec
    (motive_2 := fun l => ∀ path seen i, secsUniqueIds path seen i l = scanM seen (secsIdEntries path i l)) with
  | mk i n t sc pc props subs ih =>
    intro path seen
    simp only [secUniqueIds, secIdEntries]
    rw [scanM_append, propUniqueIds_eq]
    simp only [scanM]
    split <;> simp [ih]
  | nil => simp [secsUniqueIds, secsIdEntries, scanM]
  | cons s ss ihs ihl =>
    simp only [secsUniqueIds, secsIdEntries]
    rw [scanM_append, ihs, ihl]

theorem secsUniqueIds_eq (l : List Sec) :
    ∀ path seen i, secsUniqueIds path seen i l = scanM seen (secsIdEntries path i l) := by
  induction l with
  | nil => intro path seen i; simp [secsUniqueIds, secsIdEntries, scanM]
  | cons s ss ih =>
    intro path seen i
    simp only [secsUniqueIds, secsIdEntries]
    rw [scanM_append, secUniqueIds_eq, ih]


/-! ## which objects are visited -/

theorem mem_propVisits (path : List Nat) (all : List Prp) (l : List Prp) :
    ∀ i v, v ∈ propVisits path all i l ↔
      ∃ k q, l[k]? = some q ∧ v = ⟨.prop path (i + k), .prop (some all) q⟩ := by
  induction l with
  | nil => intro i v; simp [propVisits]
  | cons p ps ih =>
    intro i v
    simp only [propVisits, List.mem_cons, ih]
    constructor
    · rintro (h | ⟨k, q, hk, hv⟩)
      · exact ⟨0, p, by simp, by simpa using h⟩
      · exact ⟨k + 1, q, by simpa using hk, by rw [hv]; simp [Nat.add_assoc, Nat.add_comm 1]⟩
    · rintro ⟨k, q, hk, hv⟩
      cases k with
      | zero => left; simp at hk; subst hk; simpa using hv
      | succ k =>
        right
        exact ⟨k, q, by simpa using hk, by rw [hv]; simp [Nat.add_assoc, Nat.add_comm 1]⟩

/-- The visits below a Section, in the vocabulary of paths. -/
def SecVisitSpec (pre : List Nat) (s : Sec) (v : Visit) : Prop :=
  (∃ p t, s.secAt p = some t ∧ v = ⟨.sec (pre ++ p), .sec t⟩) ∨
  (∃ p t k q, s.secAt p = some t ∧ t.props[k]? = some q ∧
    v = ⟨.prop (pre ++ p) k, .prop (some t.props) q⟩)

theorem secAt_nil (s : Sec) : s.secAt [] = some s := by
  cases s; rfl

theorem secAt_cons (s : Sec) (j : Nat) (p : List Nat) :
    s.secAt (j :: p) = match s.subs[j]? with
      | some t => t.secAt p
      | none => none := by
  cases s; rfl

theorem SecVisitSpec.lift {pre : List Nat} {j : Nat} {s c : Sec} {v : Visit}
    (hc : s.subs[j]? = some c) (h : SecVisitSpec (pre ++ [j]) c v) : SecVisitSpec pre s v := by
  rcases h with ⟨p, t, ht, hv⟩ | ⟨p, t, k, q, ht, hq, hv⟩
  · exact Or.inl ⟨j :: p, t, by rw [secAt_cons, hc]; exact ht, by simpa [List.append_assoc] using hv⟩
  · exact Or.inr ⟨j :: p, t, k, q, by rw [secAt_cons, hc]; exact ht, hq,
      by simpa [List.append_assoc] using hv⟩

theorem mem_secVisits (s : Sec) :
    ∀ pre v, v ∈ secVisits pre s ↔ SecVisitSpec pre s v := by
  induction s using Sec.rec
    (motive_2 := fun l => ∀ pre i v, v ∈ secsVisits pre i l ↔
      ∃ j c, l[j]? = some c ∧ SecVisitSpec (pre ++ [i + j]) c v) with
  | mk i n t sc pc props subs ih =>
    intro pre v
    simp only [secVisits, List.mem_cons, List.mem_append, mem_propVisits, ih]
    constructor
    · rintro (h | ⟨k, q, hk, hv⟩ | ⟨j, c, hc, hv⟩)
      · exact Or.inl ⟨[], _, secAt_nil _, by simpa using h⟩
      · exact Or.inr ⟨[], _, k, q, secAt_nil _, hk, by simpa [Sec.props] using hv⟩
      · exact SecVisitSpec.lift (s := .mk i n t sc pc props subs) (by simpa [Sec.subs] using hc)
          (by simpa using hv)
    · rintro (⟨p, t', ht, hv⟩ | ⟨p, t', k, q, ht, hq, hv⟩)
      · cases p with
        | nil =>
          rw [secAt_nil] at ht
          cases ht
          left; simpa using hv
        | cons j p =>
          rw [secAt_cons] at ht
          simp only [Sec.subs] at ht
          cases hc : subs[j]? with
          | none => simp [hc] at ht
          | some c =>
            simp only [hc] at ht
            right; right
            exact ⟨j, c, hc, Or.inl ⟨p, t', ht, by simpa [List.append_assoc] using hv⟩⟩
      · cases p with
        | nil =>
          rw [secAt_nil] at ht
          cases ht
          right; left
          exact ⟨k, q, by simpa [Sec.props] using hq, by simpa [Sec.props] using hv⟩
        | cons j p =>
          rw [secAt_cons] at ht
          simp only [Sec.subs] at ht
          cases hc : subs[j]? with
          | none => simp [hc] at ht
          | some c =>
            simp only [hc] at ht
            right; right
            exact ⟨j, c, hc, Or.inr ⟨p, t', k, q, ht, hq, by simpa [List.append_assoc] using hv⟩⟩
  | nil => simp [secsVisits]
  | cons s ss ihs ihl =>
    rename_i pre i v
    simp only [secsVisits, List.mem_append, ihs, ihl]
    constructor
    · rintro (h | ⟨j, c, hc, hv⟩)
      · exact ⟨0, s, by simp, by simpa using h⟩
      · exact ⟨j + 1, c, by simpa using hc, by simpa [Nat.add_assoc, Nat.add_comm 1] using hv⟩
    · rintro ⟨j, c, hc, hv⟩
      cases j with
      | zero => left; simp at hc; subst hc; simpa using hv
      | succ j =>
        right
        exact ⟨j, c, by simpa using hc, by simpa [Nat.add_assoc, Nat.add_comm 1] using hv⟩

theorem mem_secsVisits (l : List Sec) :
    ∀ pre i v, v ∈ secsVisits pre i l ↔
      ∃ j c, l[j]? = some c ∧ SecVisitSpec (pre ++ [i + j]) c v := by
  induction l with
  | nil => intro pre i v; simp [secsVisits]
  | cons s ss ih =>
    intro pre i v
    simp only [secsVisits, List.mem_append, mem_secVisits, ih]
    constructor
    · rintro (h | ⟨j, c, hc, hv⟩)
      · exact ⟨0, s, by simp, by simpa using h⟩
      · exact ⟨j + 1, c, by simpa using hc, by simpa [Nat.add_assoc, Nat.add_comm 1] using hv⟩
    · rintro ⟨j, c, hc, hv⟩
      cases j with
      | zero => left; simp at hc; subst hc; simpa using hv
      | succ j =>
        right
        exact ⟨j, c, by simpa using hc, by simpa [Nat.add_assoc, Nat.add_comm 1] using hv⟩


/-- The Property `q` is validated as `.prop p k`, and the rules reach the sibling list `sibs`
    from it.  The Properties of a stand-alone root Section are not validated. -/
def PropAt (n : Node) (p : List Nat) (k : Nat) (sibs : Option (List Prp)) (q : Prp) : Prop :=
  (∃ s, n.secAt p = some s ∧ (∀ r, n = .sec r → p ≠ []) ∧ s.props[k]? = some q ∧
    sibs = some s.props) ∨
  (n = .prop q ∧ p = [] ∧ k = 0 ∧ sibs = none)

theorem node_secAt_doc_cons (d : Doc) (j : Nat) (p : List Nat) :
    (Node.doc d).secAt (j :: p) = match d.secs[j]? with
      | some t => t.secAt p
      | none => none := rfl

theorem mem_visits (n : Node) (v : Visit) : v ∈ visits n ↔
    (∃ d, n = .doc d ∧ v = ⟨.doc, .doc d⟩) ∨
    (∃ p s, n.secAt p = some s ∧ v = ⟨.sec p, .sec s⟩) ∨
    (∃ p k sibs q, PropAt n p k sibs q ∧ v = ⟨.prop p k, .prop sibs q⟩) := by
  cases n with
  | doc d =>
    simp only [visits, List.mem_cons, mem_secsVisits, SecVisitSpec]
    constructor
    · rintro (h | ⟨j, c, hc, ⟨p, t, ht, hv⟩ | ⟨p, t, k, q, ht, hq, hv⟩⟩)
      · exact Or.inl ⟨d, rfl, h⟩
      · refine Or.inr (Or.inl ⟨j :: p, t, ?_, by simpa using hv⟩)
        rw [node_secAt_doc_cons, hc]; exact ht
      · refine Or.inr (Or.inr ⟨j :: p, k, some t.props, q, Or.inl ⟨t, ?_, by simp, hq, rfl⟩,
          by simpa using hv⟩)
        rw [node_secAt_doc_cons, hc]; exact ht
    · rintro (⟨d', hd, hv⟩ | ⟨p, s, hs, hv⟩ | ⟨p, k, sibs, q, hP, hv⟩)
      · cases hd; exact Or.inl hv
      · cases p with
        | nil => simp [Node.secAt] at hs
        | cons j p =>
          rw [node_secAt_doc_cons] at hs
          cases hc : d.secs[j]? with
          | none => simp [hc] at hs
          | some c =>
            simp only [hc] at hs
            exact Or.inr ⟨j, c, hc, Or.inl ⟨p, s, hs, by simpa using hv⟩⟩
      · rcases hP with ⟨s, hs, _, hq, hsibs⟩ | ⟨h, _⟩
        · cases p with
          | nil => simp [Node.secAt] at hs
          | cons j p =>
            rw [node_secAt_doc_cons] at hs
            cases hc : d.secs[j]? with
            | none => simp [hc] at hs
            | some c =>
              simp only [hc] at hs
              subst hsibs
              exact Or.inr ⟨j, c, hc, Or.inr ⟨p, s, k, q, hs, hq, by simpa using hv⟩⟩
        · cases h
  | sec s =>
    simp only [visits, List.mem_cons, mem_secsVisits, SecVisitSpec]
    constructor
    · rintro (h | ⟨j, c, hc, ⟨p, t, ht, hv⟩ | ⟨p, t, k, q, ht, hq, hv⟩⟩)
      · exact Or.inr (Or.inl ⟨[], s, secAt_nil s, h⟩)
      · refine Or.inr (Or.inl ⟨j :: p, t, ?_, by simpa using hv⟩)
        show s.secAt (j :: p) = some t
        rw [secAt_cons, hc]; exact ht
      · refine Or.inr (Or.inr ⟨j :: p, k, some t.props, q, Or.inl ⟨t, ?_, by simp, hq, rfl⟩,
          by simpa using hv⟩)
        show s.secAt (j :: p) = some t
        rw [secAt_cons, hc]; exact ht
    · rintro (⟨d', hd, _⟩ | ⟨p, t, ht, hv⟩ | ⟨p, k, sibs, q, hP, hv⟩)
      · cases hd
      · change s.secAt p = some t at ht
        cases p with
        | nil =>
          rw [secAt_nil] at ht; cases ht
          exact Or.inl hv
        | cons j p =>
          rw [secAt_cons] at ht
          cases hc : s.subs[j]? with
          | none => simp [hc] at ht
          | some c =>
            simp only [hc] at ht
            exact Or.inr ⟨j, c, hc, Or.inl ⟨p, t, ht, by simpa using hv⟩⟩
      · rcases hP with ⟨t, ht, hne, hq, hsibs⟩ | ⟨h, _⟩
        · change s.secAt p = some t at ht
          cases p with
          | nil => exact absurd rfl (hne s rfl)
          | cons j p =>
            rw [secAt_cons] at ht
            cases hc : s.subs[j]? with
            | none => simp [hc] at ht
            | some c =>
              simp only [hc] at ht
              subst hsibs
              exact Or.inr ⟨j, c, hc, Or.inr ⟨p, t, k, q, ht, hq, by simpa using hv⟩⟩
        · cases h
  | prop q =>
    simp only [visits, List.mem_singleton]
    constructor
    · intro h
      exact Or.inr (Or.inr ⟨[], 0, none, q, Or.inr ⟨rfl, rfl, rfl, rfl⟩, h⟩)
    · rintro (⟨d', hd, _⟩ | ⟨p, t, ht, _⟩ | ⟨p, k, sibs, q', hP, hv⟩)
      · cases hd
      · simp [Node.secAt] at ht
      · rcases hP with ⟨t, ht, _⟩ | ⟨h, hp, hk, hs⟩
        · simp [Node.secAt] at ht
        · cases h; subst hp hk hs; exact hv

/-! ## which rule yields which issue id -/

/-- The rule function in which an `IssueID` is used. -/
def IssueId.rule : IssueId → Option Rule
  | .objectRequiredAttributes => some .objectRequiredAttributes
  | .sectionTypeMustBeDefined => some .sectionTypeMustBeDefined
  | .sectionUniqueIds => some .documentUniqueIds
  | .propertyUniqueIds => some .documentUniqueIds
  | .sectionUniqueNameType => some .sectionUniqueNameType
  | .propertyUniqueName => some .propertyUniqueNames
  | .objectNameReadable => some .objectNameReadable
  | .propertyDependencyCheck => some .propertyDependencyCheck
  | .propertyValuesCheck => some .propertyValuesCheck
  | .propertyValuesStringCheck => some .propertyValuesStringCheck
  | .sectionPropertiesCardinality => some .sectionPropertiesCardinality
  | .sectionSectionsCardinality => some .sectionSectionsCardinality
  | .propertyValuesCardinality => some .propertyValuesCardinality
  | .custom => none

/-- The documented rank of an issue kind. -/
def IssueId.rank : IssueId → Rank
  | .objectRequiredAttributes | .sectionUniqueIds | .propertyUniqueIds
  | .sectionUniqueNameType | .propertyUniqueName => .error
  | _ => .warning

theorem cardRule_mem {ref : Ref} {id : IssueId} {c : Card.Card} {n : Nat} {iss : Issue}
    (h : iss ∈ cardRule ref id c n) : iss = ⟨ref, id, .warning⟩ := by
  unfold cardRule at h
  split at h <;> simp at h
  exact h

theorem idIssue_id (r : Ref) : (idIssue r).rank = .error ∧
    ((idIssue r).id = .sectionUniqueIds ∨ (idIssue r).id = .propertyUniqueIds) := by
  cases r <;> simp [idIssue]

/-- Every issue a rule yields carries an id of that rule and the documented rank of the id. -/
theorem applyRule_sound (r : Rule) (v : Visit) (iss : Issue) (h : iss ∈ applyRule r v) :
    iss.id.rule = some r ∧ iss.rank = iss.id.rank := by
  cases r
  case documentUniqueIds =>
    simp only [applyRule, ruleDocumentUniqueIds] at h
    split at h
    · simp only [List.mem_map] at h
      obtain ⟨x, _, hx⟩ := h
      subst hx
      cases x <;> simp [idIssue, IssueId.rule, IssueId.rank]
    · simp at h
  case objectNameReadable =>
    simp only [applyRule, ruleNameReadable] at h
    split at h
    · split at h <;> simp at h; subst h; simp [IssueId.rule, IssueId.rank]
    · split at h <;> simp at h; subst h; simp [IssueId.rule, IssueId.rank]
    · simp at h
  case objectRequiredAttributes =>
    simp only [applyRule, ruleRequired, List.mem_map] at h
    obtain ⟨_, _, hx⟩ := h
    subst hx; simp [IssueId.rule, IssueId.rank]
  case propertyDependencyCheck =>
    simp only [applyRule, ruleDependency] at h
    split at h
    · split at h
      · simp at h
      · split at h
        · simp at h; subst h; simp [IssueId.rule, IssueId.rank]
        · split at h
          · simp at h
          · split at h <;> simp at h; subst h; simp [IssueId.rule, IssueId.rank]
    · simp at h
  case propertyUniqueNames =>
    simp only [applyRule, ruleUniquePropNames] at h
    split at h
    · simp only [List.mem_map] at h
      obtain ⟨_, _, hx⟩ := h
      subst hx; simp [IssueId.rule, IssueId.rank]
    · simp at h
  case propertyValuesCardinality =>
    simp only [applyRule, ruleValsCard] at h
    split at h
    · rw [cardRule_mem h]; simp [IssueId.rule, IssueId.rank]
    · simp at h
  case propertyValuesCheck =>
    simp only [applyRule, ruleValuesCheck] at h
    split at h
    · simp only [List.mem_replicate] at h
      rw [h.2]; simp [IssueId.rule, IssueId.rank]
    · simp at h
  case propertyValuesStringCheck =>
    simp only [applyRule, ruleValuesStringCheck] at h
    split at h
    · split at h <;> simp at h; subst h; simp [IssueId.rule, IssueId.rank]
    · simp at h
  case sectionPropertiesCardinality =>
    simp only [applyRule, rulePropsCard] at h
    split at h
    · rw [cardRule_mem h]; simp [IssueId.rule, IssueId.rank]
    · simp at h
  case sectionSectionsCardinality =>
    simp only [applyRule, ruleSecsCard] at h
    split at h
    · rw [cardRule_mem h]; simp [IssueId.rule, IssueId.rank]
    · simp at h
  case sectionTypeMustBeDefined =>
    simp only [applyRule, ruleTypeDefined] at h
    split at h
    · split at h <;> simp at h; subst h; simp [IssueId.rule, IssueId.rank]
    · simp at h
  case sectionUniqueNameType =>
    simp only [applyRule, ruleUniqueNameType] at h
    split at h
    · simp only [List.mem_map] at h
      obtain ⟨_, _, hx⟩ := h
      subst hx; simp [IssueId.rule, IssueId.rank]
    · simp only [List.mem_map] at h
      obtain ⟨_, _, hx⟩ := h
      subst hx; simp [IssueId.rule, IssueId.rank]
    · simp at h


/-! ## default registry, evaluated; rule-shaped membership lemmas (used by Props/C08) -/

theorem mem_issues' (n : Node) (iss : Issue) :
    iss ∈ issues n ↔ ∃ v ∈ visits n, ∃ r ∈ defaultReg v.obj.klass, iss ∈ applyRule r v := by
  simp [issues, issuesWith, List.mem_flatMap]

theorem defaultReg_odML : defaultReg .odML =
    [.documentUniqueIds, .objectRequiredAttributes, .sectionUniqueNameType] := by decide
theorem defaultReg_property : defaultReg .property =
    [.objectNameReadable, .objectRequiredAttributes, .propertyDependencyCheck,
     .propertyValuesCardinality, .propertyValuesCheck, .propertyValuesStringCheck] := by decide
theorem defaultReg_section : defaultReg .section =
    [.objectNameReadable, .objectRequiredAttributes, .propertyUniqueNames,
     .sectionPropertiesCardinality, .sectionSectionsCardinality, .sectionTypeMustBeDefined,
     .sectionUniqueNameType] := by decide

theorem mem_issues_rule (n : Node) (iss : Issue) (r : Rule) (hr : iss.id.rule = some r) :
    iss ∈ issues n ↔ ∃ v ∈ visits n, r ∈ defaultReg v.obj.klass ∧ iss ∈ applyRule r v := by
  rw [mem_issues']
  constructor
  · rintro ⟨v, hv, r', hr', hi⟩
    have := (applyRule_sound r' v iss hi).1
    rw [hr] at this
    cases this
    exact ⟨v, hv, hr', hi⟩
  · rintro ⟨v, hv, hr', hi⟩
    exact ⟨v, hv, r, hr', hi⟩

theorem attrMissing_sec_name (s : Sec) : attrMissing (.sec s) "name" = s.name.isEmpty := rfl
theorem attrMissing_sec_type (s : Sec) : attrMissing (.sec s) "type" = falsy s.type := rfl
theorem attrMissing_prop_name (sibs : Option (List Prp)) (q : Prp) :
    attrMissing (.prop sibs q) "name" = q.name.isEmpty := rfl

theorem prop_rule (n : Node) (iss : Issue) (r : Rule) (hr : iss.id.rule = some r)
    (hreg : r ∈ defaultReg .property)
    (hdoc : ∀ ref d, applyRule r ⟨ref, .doc d⟩ = [])
    (hsec : ∀ ref s, applyRule r ⟨ref, .sec s⟩ = []) :
    iss ∈ issues n ↔
      ∃ p k sibs q, PropAt n p k sibs q ∧ iss ∈ applyRule r ⟨.prop p k, .prop sibs q⟩ := by
  rw [mem_issues_rule n iss r hr]
  constructor
  · rintro ⟨v, hv, _, hi⟩
    rw [mem_visits] at hv
    rcases hv with ⟨d, _, rfl⟩ | ⟨p, s, hs, rfl⟩ | ⟨p, k, sibs, q, hq, rfl⟩
    · simp [hdoc] at hi
    · simp [hsec] at hi
    · exact ⟨p, k, sibs, q, hq, hi⟩
  · rintro ⟨p, k, sibs, q, hq, hi⟩
    exact ⟨⟨.prop p k, .prop sibs q⟩,
      (mem_visits _ _).mpr (Or.inr (Or.inr ⟨p, k, sibs, q, hq, rfl⟩)), hreg, hi⟩

theorem sec_rule (n : Node) (iss : Issue) (r : Rule) (hr : iss.id.rule = some r)
    (hreg : r ∈ defaultReg .section)
    (hdoc : ∀ ref d, applyRule r ⟨ref, .doc d⟩ = [])
    (hprop : ∀ ref sibs q, applyRule r ⟨ref, .prop sibs q⟩ = []) :
    iss ∈ issues n ↔ ∃ p s, n.secAt p = some s ∧ iss ∈ applyRule r ⟨.sec p, .sec s⟩ := by
  rw [mem_issues_rule n iss r hr]
  constructor
  · rintro ⟨v, hv, _, hi⟩
    rw [mem_visits] at hv
    rcases hv with ⟨d, _, rfl⟩ | ⟨p, s, hs, rfl⟩ | ⟨p, k, sibs, q, hq, rfl⟩
    · simp [hdoc] at hi
    · exact ⟨p, s, hs, hi⟩
    · simp [hprop] at hi
  · rintro ⟨p, s, hs, hi⟩
    exact ⟨⟨.sec p, .sec s⟩, (mem_visits _ _).mpr (Or.inr (Or.inl ⟨p, s, hs, rfl⟩)), hreg, hi⟩

theorem findProp_none (sibs : List Prp) (dep : Str) :
    findProp sibs dep = none ↔ ∀ t ∈ sibs, t.name ≠ dep := by
  simp [findProp, List.find?_eq_none]

theorem strClasses_some (vs : List Val) (cs : List StrClass) :
    strClasses vs = some cs ↔ ∃ ss : List Str, vs = ss.map Val.str ∧ cs = ss.map strClass := by
  induction vs generalizing cs with
  | nil =>
    simp only [strClasses, Option.some.injEq]
    constructor
    · rintro rfl; exact ⟨[], rfl, rfl⟩
    · rintro ⟨ss, h1, h2⟩
      cases ss with
      | nil => simpa using h2.symm
      | cons _ _ => simp at h1
  | cons v vs ih =>
    cases v
    case str s =>
      simp only [strClasses, Option.map_eq_some_iff]
      constructor
      · rintro ⟨cs', h, rfl⟩
        obtain ⟨ss, h1, h2⟩ := (ih cs').mp h
        exact ⟨s :: ss, by simp [h1], by simp [h2]⟩
      · rintro ⟨ss, h1, h2⟩
        cases ss with
        | nil => simp at h1
        | cons s' ss' =>
          simp only [List.map_cons, List.cons.injEq, Val.str.injEq] at h1
          obtain ⟨rfl, h1⟩ := h1
          exact ⟨ss'.map strClass, (ih _).mpr ⟨ss', h1, rfl⟩, by simp [h2]⟩
    all_goals
      simp only [strClasses, reduceCtorEq, false_iff, not_exists, not_and]
      intro ss h1
      cases ss with
      | nil => simp at h1
      | cons s' ss' => simp at h1

theorem cardRule_iff (ref ref' : Ref) (id : IssueId) (c : Card.Card) (k : Nat) :
    (⟨ref', id, .warning⟩ : Issue) ∈ cardRule ref id c k ↔
      ref' = ref ∧ (Card.cardIssue c k).isSome = true := by
  unfold cardRule
  cases Card.cardIssue c k <;> simp

theorem childSecs_iff (n : Node) (p : List Nat) (l : List Sec) :
    n.childSecs p = some l ↔
      (∃ d, n = .doc d ∧ p = [] ∧ l = d.secs) ∨ (∃ s, n.secAt p = some s ∧ l = s.subs) := by
  cases n with
  | doc d =>
    cases p with
    | nil => simp [Node.childSecs, Node.secAt, eq_comm]
    | cons j p =>
      simp only [Node.childSecs, Option.map_eq_some_iff, reduceCtorEq, false_and, and_false,
        exists_false, false_or]
      constructor
      · rintro ⟨s, hs, rfl⟩; exact ⟨s, hs, rfl⟩
      · rintro ⟨s, hs, rfl⟩; exact ⟨s, hs, rfl⟩
  | sec s =>
    simp only [Node.childSecs, Option.map_eq_some_iff, reduceCtorEq, false_and, exists_false,
      false_or]
    constructor
    · rintro ⟨t, ht, rfl⟩; exact ⟨t, ht, rfl⟩
    · rintro ⟨t, ht, rfl⟩; exact ⟨t, ht, rfl⟩
  | prop q => simp [Node.childSecs, Node.secAt]

theorem inferDtype_not_tuple (v : Val) : isTupleDtype (inferDtype v) = false := by
  cases v with
  | str s =>
    simp only [inferDtype]
    split <;> decide
  | _ => simp only [inferDtype] <;> decide

/-! ## the id walk lists exactly the visited Sections and Properties -/

def Obj.id : Obj → Str
  | .doc d => d.id
  | .sec s => s.id
  | .prop _ p => p.id

theorem mem_propIdEntries (path : List Nat) (all : List Prp) (l : List Prp) :
    ∀ i r k, (r, k) ∈ propIdEntries path i l ↔
      ∃ v ∈ propVisits path all i l, v.ref = r ∧ v.obj.id = k := by
  induction l with
  | nil => intro i r k; simp [propIdEntries, propVisits]
  | cons p ps ih =>
    intro i r k
    simp only [propIdEntries, propVisits, List.mem_cons, Prod.mk.injEq, ih, exists_eq_or_imp,
      Obj.id]
    constructor
    · rintro (⟨rfl, rfl⟩ | h)
      · exact Or.inl ⟨rfl, rfl⟩
      · exact Or.inr h
    · rintro (⟨rfl, rfl⟩ | h)
      · exact Or.inl ⟨rfl, rfl⟩
      · exact Or.inr h

theorem mem_secIdEntries (s : Sec) :
    ∀ path r k, (r, k) ∈ secIdEntries path s ↔
      ∃ v ∈ secVisits path s, v.ref = r ∧ v.obj.id = k := by
  induction s using Sec.rec
    (motive_2 := fun l => ∀ path i r k, (r, k) ∈ secsIdEntries path i l ↔
      ∃ v ∈ secsVisits path i l, v.ref = r ∧ v.obj.id = k) with
  | mk i n t sc pc props subs ih =>
    intro path r k
    simp only [secIdEntries, secVisits, List.mem_append, List.mem_cons, Prod.mk.injEq,
      mem_propIdEntries path props props, ih, exists_eq_or_imp, Obj.id, Sec.id]
    constructor
    · rintro (⟨v, hv, h⟩ | ⟨rfl, rfl⟩ | ⟨v, hv, h⟩)
      · exact Or.inr ⟨v, Or.inl hv, h⟩
      · exact Or.inl ⟨rfl, rfl⟩
      · exact Or.inr ⟨v, Or.inr hv, h⟩
    · rintro (⟨rfl, rfl⟩ | ⟨v, hv | hv, h⟩)
      · exact Or.inr (Or.inl ⟨rfl, rfl⟩)
      · exact Or.inl ⟨v, hv, h⟩
      · exact Or.inr (Or.inr ⟨v, hv, h⟩)
  | nil => simp [secsIdEntries, secsVisits]
  | cons s ss ihs ihl =>
    rename_i path i r k
    simp only [secsIdEntries, secsVisits, List.mem_append, ihs, ihl]
    constructor
    · rintro (⟨v, hv, h⟩ | ⟨v, hv, h⟩)
      · exact ⟨v, Or.inl hv, h⟩
      · exact ⟨v, Or.inr hv, h⟩
    · rintro ⟨v, hv | hv, h⟩
      · exact Or.inl ⟨v, hv, h⟩
      · exact Or.inr ⟨v, hv, h⟩

theorem mem_secsIdEntries (l : List Sec) :
    ∀ path i r k, (r, k) ∈ secsIdEntries path i l ↔
      ∃ v ∈ secsVisits path i l, v.ref = r ∧ v.obj.id = k := by
  induction l with
  | nil => intro path i r k; simp [secsIdEntries, secsVisits]
  | cons s ss ih =>
    intro path i r k
    simp only [secsIdEntries, secsVisits, List.mem_append, mem_secIdEntries, ih]
    constructor
    · rintro (⟨v, hv, h⟩ | ⟨v, hv, h⟩)
      · exact ⟨v, Or.inl hv, h⟩
      · exact ⟨v, Or.inr hv, h⟩
    · rintro ⟨v, hv | hv, h⟩
      · exact Or.inl ⟨v, hv, h⟩
      · exact Or.inr ⟨v, hv, h⟩

end Valid

/-! # Registry (C19) -/

namespace Registry
open Valid

theorem flatMap_perm_pointwise {α β : Type} (l : List α) (f g : α → List β)
    (h : ∀ a ∈ l, (f a).Perm (g a)) : (l.flatMap f).Perm (l.flatMap g) := by
  induction l with
  | nil => simp
  | cons a as ih =>
    simp only [List.flatMap_cons]
    exact List.Perm.append (h a (by simp)) (ih (fun b hb => h b (by simp [hb])))

theorem runOps_append (st : State) (a b : List Op) :
    runOps st (a ++ b) = runOps (runOps st a) b := by
  simp [runOps, List.foldl_append]

theorem privateCheck_run (st : State) (k : Klass) (r : Rule) :
    runOps st (privateCheck st.insts.length k r) =
      { st with insts := st.insts ++ [some (Table.empty.add k (.rule r))] } := by
  simp [runOps, privateCheck, step, List.getElem?_append_right]

theorem defaultCheck_run (st : State) :
    runOps st (defaultCheck st.insts.length) = { st with insts := st.insts ++ [none] } := by
  simp [runOps, defaultCheck, step]

/-- What a library macro does to the state: it only appends validation objects. -/
def Macro.newObjects : Macro → List (Option Table)
  | .defaultValidation => [none]
  | .customValidation => [some Table.empty]
  | .constructSection =>
    [some (Table.empty.add .section (.rule .sectionSectionsCardinality)),
     some (Table.empty.add .section (.rule .sectionPropertiesCardinality)), none]
  | .constructProperty true =>
    [some (Table.empty.add .property (.rule .propertyValuesCardinality)),
     some (Table.empty.add .property (.rule .propertyValuesCardinality)), none]
  | .constructProperty false =>
    [some (Table.empty.add .property (.rule .propertyValuesCardinality)), none]
  | .setSecCardinality => [some (Table.empty.add .section (.rule .sectionSectionsCardinality))]
  | .setPropCardinality => [some (Table.empty.add .section (.rule .sectionPropertiesCardinality))]
  | .setValCardinality => [some (Table.empty.add .property (.rule .propertyValuesCardinality))]
  | .assignValues => [some (Table.empty.add .property (.rule .propertyValuesCardinality))]
  | .save => [none]
  | .load => [none]

theorem lib_run (st : State) (m : Macro) :
    act st (.lib m) = { st with insts := st.insts ++ m.newObjects } := by
  have len1 : ∀ (s : State) (x : Option Table),
      ({ s with insts := s.insts ++ [x] } : State).insts.length = s.insts.length + 1 := by
    intro s x; simp
  cases m with
  | defaultValidation => simp [act, Macro.expand, defaultCheck_run, Macro.newObjects]
  | customValidation => simp [act, Macro.expand, runOps, step, Macro.newObjects]
  | constructSection =>
    simp only [act, Macro.expand, runOps_append, privateCheck_run, Macro.newObjects]
    rw [← len1 st (some (Table.empty.add .section (.rule .sectionSectionsCardinality))),
      privateCheck_run]
    simp only [List.length_append, List.length_cons, List.length_nil, Nat.zero_add,
      List.append_assoc, List.cons_append, List.nil_append]
    have := defaultCheck_run { st with insts := st.insts ++
      [some (Table.empty.add .section (.rule .sectionSectionsCardinality)),
       some (Table.empty.add .section (.rule .sectionPropertiesCardinality))] }
    simp only [List.length_append, List.length_cons, List.length_nil, Nat.zero_add,
      List.append_assoc, List.cons_append, List.nil_append] at this
    rw [this]
  | constructProperty v =>
    cases v with
    | true =>
      simp only [act, Macro.expand, runOps_append, privateCheck_run, Macro.newObjects]
      rw [← len1 st (some (Table.empty.add .property (.rule .propertyValuesCardinality))),
        privateCheck_run]
      simp only [List.length_append, List.length_cons, List.length_nil, Nat.zero_add,
        List.append_assoc, List.cons_append, List.nil_append]
      have := defaultCheck_run { st with insts := st.insts ++
        [some (Table.empty.add .property (.rule .propertyValuesCardinality)),
         some (Table.empty.add .property (.rule .propertyValuesCardinality))] }
      simp only [List.length_append, List.length_cons, List.length_nil, Nat.zero_add,
        List.append_assoc, List.cons_append, List.nil_append] at this
      rw [this]
    | false =>
      simp only [act, Macro.expand, runOps_append, privateCheck_run, Macro.newObjects]
      rw [← len1 st (some (Table.empty.add .property (.rule .propertyValuesCardinality))),
        defaultCheck_run]
      simp
  | setSecCardinality => simp [act, Macro.expand, privateCheck_run, Macro.newObjects]
  | setPropCardinality => simp [act, Macro.expand, privateCheck_run, Macro.newObjects]
  | setValCardinality => simp [act, Macro.expand, privateCheck_run, Macro.newObjects]
  | assignValues => simp [act, Macro.expand, privateCheck_run, Macro.newObjects]
  | save =>
    simp only [act, Macro.expand, runOps_append, defaultCheck_run, Macro.newObjects]
    simp [runOps, step]
  | load =>
    simp only [act, Macro.expand, runOps_append, defaultCheck_run, Macro.newObjects]
    simp [runOps, step]

theorem mem_add {t : Table} {k k' : Klass} {h h' : Handler} (hm : h ∈ t.add k' h' k) :
    h ∈ t k ∨ h = h' := by
  unfold Table.add at hm
  split at hm
  · rename_i hk
    subst hk
    split at hm
    · exact Or.inl hm
    · simp only [List.mem_append, List.mem_singleton] at hm
      exact hm
  · exact Or.inl hm

theorem newObjects_no_custom (m : Macro) (c : Nat) (t : Table) (ht : some t ∈ m.newObjects)
    (k : Klass) : Handler.custom c ∉ t k := by
  have hadd : ∀ (k' : Klass) (r : Rule), Handler.custom c ∉ (Table.empty.add k' (.rule r)) k := by
    intro k' r hm
    rcases mem_add hm with h | h
    · simp [Table.empty] at h
    · cases h
  cases m with
  | constructProperty v =>
    cases v <;> simp only [Macro.newObjects, List.mem_cons, Option.some.injEq, List.not_mem_nil,
      or_false, reduceCtorEq] at ht
    · subst ht; exact hadd _ _
    · rcases ht with rfl | rfl <;> exact hadd _ _
  | constructSection =>
    simp only [Macro.newObjects, List.mem_cons, Option.some.injEq, List.not_mem_nil, or_false,
      reduceCtorEq] at ht
    rcases ht with rfl | rfl <;> exact hadd _ _
  | customValidation =>
    simp only [Macro.newObjects, List.mem_cons, Option.some.injEq, List.not_mem_nil,
      or_false] at ht
    subst ht; simp [Table.empty]
  | defaultValidation => simp [Macro.newObjects] at ht
  | save => simp [Macro.newObjects] at ht
  | load => simp [Macro.newObjects] at ht
  | setSecCardinality =>
    simp only [Macro.newObjects, List.mem_cons, Option.some.injEq, List.not_mem_nil,
      or_false] at ht
    subst ht; exact hadd _ _
  | setPropCardinality =>
    simp only [Macro.newObjects, List.mem_cons, Option.some.injEq, List.not_mem_nil,
      or_false] at ht
    subst ht; exact hadd _ _
  | setValCardinality =>
    simp only [Macro.newObjects, List.mem_cons, Option.some.injEq, List.not_mem_nil,
      or_false] at ht
    subst ht; exact hadd _ _
  | assignValues =>
    simp only [Macro.newObjects, List.mem_cons, Option.some.injEq, List.not_mem_nil,
      or_false] at ht
    subst ht; exact hadd _ _

theorem isReset_iff (st : State) (i : Nat) :
    isReset st i = true ↔ ∃ t, st.insts[i]? = some (some t) := by
  unfold isReset
  cases h : st.insts[i]? with
  | none => simp
  | some t => cases t <;> simp

end Registry
