/-
C02 helper lemmas: what the writer's refusal (`writeRefused`, ParserException on a tuple item
containing a comma) decides. On a valid document the writer refuses exactly the documents the
bracketed tuple text cannot represent, so "refused or round trip" holds.
-/
import OdmlModel.Model.Dict
import OdmlModel.Model.DictDoc
import OdmlModel.Proofs.DictRound

namespace Dict

theorem itemHasComma_eq (v : J) : itemHasComma v = !tupleItemRepr v := by
  cases v <;> simp [itemHasComma, tupleItemRepr]

theorem valHasComma_eq (v : J) : valHasComma v = !valRepr v := by
  cases v <;> simp [valHasComma, valRepr]
  rename_i items
  induction items with
  | nil => simp
  | cons a r ih => simp [List.any_cons, List.all_cons, itemHasComma_eq, ih, Bool.not_and]

theorem valRepr_of_not_arr (v : J) (h : ∀ items, v ≠ .arr items) : valRepr v = true := by
  cases v <;> simp [valRepr]
  rename_i items
  exact absurd rfl (h items)

/-- A stored value of a non-tuple dtype class is not a list. -/
theorem valOk_not_arr (lib : Lib) (k : DtKind) (v : J) (hk : notTupleKind k = true)
    (hv : valOk lib k v = true) : ∀ items, v ≠ .arr items := by
  intro items he
  subst he
  cases k <;> simp [valOk, notTupleKind] at hv hk

/-- On a valid Property the writer's refusal test is exact: not refused means every value can be
    carried by the bracketed text form. -/
theorem valuesRepr_of_not_refused (lib : Lib) (p : Prp) (hwf : wfProp lib p = true)
    (hnr : propWriteRefused p = false) : p.values.all valRepr = true := by
  simp only [wfProp, Bool.and_eq_true] at hwf
  obtain ⟨_, hvals⟩ := hwf
  cases hd : p.dtype with
  | none =>
    simp only [hd] at hvals
    have : p.values = [] := by simpa using hvals
    simp [this]
  | some dt =>
    simp only [hd, Bool.and_eq_true] at hvals
    obtain ⟨⟨⟨hne, _⟩, hlow⟩, hall⟩ := hvals
    by_cases ht : isTupleDtype dt = true
    · -- tuple dtype: the refusal test looked at every value
      simp only [propWriteRefused, hd, hne, ht, Bool.and_self, Bool.true_and] at hnr
      by_cases he : p.values = []
      · simp [he]
      · have hemp : p.values.isEmpty = false := by
          cases hv : p.values with
          | nil => exact absurd hv he
          | cons _ _ => rfl
        simp only [hemp, Bool.not_false, Bool.true_and] at hnr
        rw [List.all_eq_true]
        intro v hv
        have := (List.any_eq_false.1 hnr) v hv
        simpa [valHasComma_eq] using this
    · -- any other dtype: stored values are scalars
      have ht' : isTupleDtype dt = false := by simpa using ht
      have hlow' : lowerStr dt = dt := by simpa using hlow
      have hk := classify_not_tuple_of hlow' ht'
      rw [List.all_eq_true]
      intro v hv
      exact valRepr_of_not_arr v (valOk_not_arr lib _ v hk ((List.all_eq_true.1 hall) v hv))

theorem reprProp_of_not_refused (lib : Lib) (p : Prp) (hwf : wfProp lib p = true)
    (ha : atomsProp p = true) (hnr : propWriteRefused p = false) : reprProp p = true := by
  simp only [atomsProp, Bool.and_eq_true] at ha
  simp only [reprProp, Bool.and_eq_true]
  exact ⟨ha, valuesRepr_of_not_refused lib p hwf hnr⟩

theorem reprProps_of_not_refused (lib : Lib) (ps : List Prp) (hwf : ps.all (wfProp lib) = true)
    (ha : ps.all atomsProp = true) (hnr : ps.any propWriteRefused = false) :
    ps.all reprProp = true := by
  induction ps with
  | nil => rfl
  | cons p r ih =>
    simp only [List.all_cons, Bool.and_eq_true] at hwf ha
    simp only [List.any_cons, Bool.or_eq_false_iff] at hnr
    simp only [List.all_cons, Bool.and_eq_true]
    exact ⟨reprProp_of_not_refused lib p hwf.1 ha.1 hnr.1, ih hwf.2 ha.2 hnr.2⟩

mutual
theorem reprSec_of_not_refused (lib : Lib) : (s : Sec) → wfSec lib s = true → atomsSec s = true →
    secWriteRefused s = false → reprSec s = true
  | .mk _ _ _ _ _ _ _ _ _ _ props secs, hwf, ha, hnr => by
    simp only [wfSec, Bool.and_eq_true] at hwf
    simp only [atomsSec, Bool.and_eq_true] at ha
    simp only [secWriteRefused, Bool.or_eq_false_iff] at hnr
    simp only [reprSec, Bool.and_eq_true]
    exact ⟨⟨ha.1.1, reprProps_of_not_refused lib props hwf.1.1.1.2 ha.1.2 hnr.1⟩,
      reprSecs_of_not_refused lib secs hwf.1.2 ha.2 hnr.2⟩
theorem reprSecs_of_not_refused (lib : Lib) : (l : List Sec) → wfSecs lib l = true →
    atomsSecs l = true → secsWriteRefused l = false → reprSecs l = true
  | [], _, _, _ => rfl
  | s :: r, hwf, ha, hnr => by
    simp only [wfSecs, Bool.and_eq_true] at hwf
    simp only [atomsSecs, Bool.and_eq_true] at ha
    simp only [secsWriteRefused, Bool.or_eq_false_iff] at hnr
    simp only [reprSecs, Bool.and_eq_true]
    exact ⟨reprSec_of_not_refused lib s hwf.1 ha.1 hnr.1, reprSecs_of_not_refused lib r hwf.2 ha.2 hnr.2⟩
end

theorem dictRepr_of_not_refused (lib : Lib) (d : Doc) (hwf : wfDoc lib d = true)
    (ha : atomsDoc d = true) (hnr : writeRefused d = false) : dictRepr d = true := by
  simp only [wfDoc, Bool.and_eq_true] at hwf
  simp only [atomsDoc, Bool.and_eq_true] at ha
  simp only [dictRepr, Bool.and_eq_true]
  exact ⟨ha.1, reprSecs_of_not_refused lib d.secs hwf.1.2 ha.2 hnr⟩

/-- A document inside `dictRepr` is never refused by the writer. -/
theorem not_refused_of_reprProps (ps : List Prp) (h : ps.all reprProp = true) :
    ps.any propWriteRefused = false := by
  rw [List.any_eq_false]
  intro p hp
  have hr := (List.all_eq_true.1 h) p hp
  simp only [reprProp, Bool.and_eq_true] at hr
  have hv := hr.2
  have : p.values.any valHasComma = false := by
    rw [List.any_eq_false]
    intro v hv'
    simp [valHasComma_eq, (List.all_eq_true.1 hv) v hv']
  simp [propWriteRefused, this]

mutual
theorem not_refused_of_reprSec : (s : Sec) → reprSec s = true → secWriteRefused s = false
  | .mk _ _ _ _ _ _ _ _ _ _ props secs, hr => by
    simp only [reprSec, Bool.and_eq_true] at hr
    simp only [secWriteRefused, Bool.or_eq_false_iff]
    exact ⟨not_refused_of_reprProps props hr.1.2, not_refused_of_reprSecs secs hr.2⟩
theorem not_refused_of_reprSecs : (l : List Sec) → reprSecs l = true → secsWriteRefused l = false
  | [], _ => rfl
  | s :: r, hr => by
    simp only [reprSecs, Bool.and_eq_true] at hr
    simp only [secsWriteRefused, Bool.or_eq_false_iff]
    exact ⟨not_refused_of_reprSec s hr.1, not_refused_of_reprSecs r hr.2⟩
end

theorem not_refused_of_dictRepr (d : Doc) (h : dictRepr d = true) : writeRefused d = false := by
  simp only [dictRepr, Bool.and_eq_true] at h
  exact not_refused_of_reprSecs d.secs h.2

end Dict
