/-
Helper lemmas for the extended operations (`Model/HeapExt.lean`).

Part A: every property of heaps that is kept by each primitive `Heap.step` is kept by clone,
merge, the link setter, clean and by whole histories over the extended operation set - because
the heap component only ever changes through `X.prim`. Instantiated with `WF` (the invariant) and
with `Reach h₀` (reachability by primitive operations: the refinement statement).

Part B: frame facts on well-formed heaps: what a clone and a merge leave untouched.
-/
import OdmlModel.Model.HeapExt
import OdmlModel.Proofs.HeapStep

set_option linter.unusedSimpArgs false
set_option linter.unusedVariables false

namespace Heap

/-! ## Part A: invariants of `step` are invariants of the extended operations -/

theorem prim_h (s : X) (op : Op) : (s.prim op).1.h = (step s.h op).1 := rfl
theorem prim_merged (s : X) (op : Op) : (s.prim op).1.merged = s.merged := rfl
theorem prim_link (s : X) (op : Op) : (s.prim op).1.link = s.link := rfl
theorem prim_orig (s : X) (op : Op) : (s.prim op).1.orig = s.orig := rfl
@[simp] theorem setMerged_h (s : X) (i v) : (s.setMerged i v).h = s.h := rfl
@[simp] theorem setLink_h (s : X) (i v) : (s.setLink i v).h = s.h := rfl

theorem copyObj_h (s : X) (x : Nat) :
    (copyObj s x).1.h =
      (step s.h (.construct (s.h.node x).kind (s.h.node x).name (s.h.node x).id none true)).1 := by
  unfold copyObj
  simp only
  split
  · rename_i s1 heq; rw [← prim_h]; rw [heq]
  · rename_i s1 o hne heq; rw [← prim_h]; rw [heq]

section invR
/-! Loops, and unmerge / clean, which change the heap by `remove` only. -/
variable {P : H → Prop}

theorem liveLoop_inv {σ : Type} (π : σ → H) (lst : σ → List Nat) (body : σ → Nat → σ × XOut)
    (hbody : ∀ t o, P (π t) → P (π (body t o).1)) :
    ∀ (fuel i : Nat) (t : σ), P (π t) → P (π (liveLoop lst body fuel i t).1) := by
  intro fuel
  induction fuel with
  | zero => intro i t h; exact h
  | succ fuel ih =>
    intro i t h
    unfold liveLoop
    split
    · exact h
    · rename_i obj _
      have h1 := hbody t obj h
      split
      · rename_i t1 heq; rw [heq] at h1; exact ih _ _ h1
      · rename_i r hne; exact h1

section withR
variable (hR : ∀ h p x, P h → P (step h (.remove p x)).1)
include hR

theorem removeAll_inv (self : Nat) : ∀ (l : List Nat) (s : X), P s.h → P (removeAll self l s).1.h := by
  intro l
  induction l with
  | nil => intro s h; exact h
  | cons o os ih =>
    intro s h
    unfold removeAll
    have h1 : P (s.prim (.remove self o)).1.h := hR _ self o h
    split
    · rename_i s1 heq; rw [heq] at h1; exact ih _ h1
    · rename_i r hne; exact h1

omit hR in
theorem unmergeSecBody_inv (O : Oracle) {rec : X → Nat → Nat → X × XOut}
    (hrec : ∀ t a b, P t.h → P (rec t a b).1.h) (self : Nat) (t : X × List Nat) (obj : Nat)
    (h : P t.1.h) : P (unmergeSecBody O rec self t obj).1.1.h := by
  unfold unmergeSecBody
  split
  · exact h
  · split
    · exact h
    · exact hrec _ _ _ h

omit hR in
theorem unmergePropBody_inv (O : Oracle) (self : Nat) (t : X × List Nat) (obj : Nat)
    (h : P t.1.h) : P (unmergePropBody O self t obj).1.1.h := by
  unfold unmergePropBody
  split
  · exact h
  · split <;> exact h

theorem unmergeAux_inv (O : Oracle) : ∀ (fuel : Nat) (s : X) (self target : Nat),
    P s.h → P (unmergeAux O fuel s self target).1.h := by
  intro fuel
  induction fuel with
  | zero => intro s self target h; exact h
  | succ fuel ih =>
    intro s self target h
    unfold unmergeAux
    split
    · exact h
    · have h1 := liveLoop_inv (P := P) (fun t : X × List Nat => t.1.h)
        (fun t => (t.1.h.node target).secs) (unmergeSecBody O (unmergeAux O fuel) self)
        (fun t o ht => unmergeSecBody_inv O (fun t a b ht => ih t a b ht) self t o ht)
        fuel 0 (s, []) h
      split
      · rename_i t1 heq
        rw [heq] at h1
        have h2 := liveLoop_inv (P := P) (fun t : X × List Nat => t.1.h)
          (fun t => (t.1.h.node target).props) (unmergePropBody O self)
          (fun t o ht => unmergePropBody_inv O self t o ht) fuel 0 t1 h1
        split
        · rename_i t2 heq2
          rw [heq2] at h2
          have h3 := removeAll_inv hR self t2.2 t2.1 h2
          split
          · rename_i s3 heq3
            rw [heq3] at h3
            split
            · exact h3
            · exact h3
          · rename_i r hne; exact h3
        · rename_i t2 o _ heq2; rw [heq2] at h2; exact h2
      · rename_i t1 o _ heq; rw [heq] at h1; exact h1

theorem unmergeIfMerged_inv (O : Oracle) (fuel : Nat) (s : X) (x : Nat) (h : P s.h) :
    P (unmergeIfMerged O fuel s x).1.h := by
  unfold unmergeIfMerged
  split
  · exact unmergeAux_inv hR O fuel s x _ h
  · exact h

theorem cleanAux_inv (O : Oracle) : ∀ (fuel : Nat) (s : X) (x : Nat),
    P s.h → P (cleanAux O fuel s x).1.h := by
  intro fuel
  induction fuel with
  | zero => intro s x h; exact h
  | succ fuel ih =>
    intro s x h
    unfold cleanAux
    have h1 := unmergeIfMerged_inv hR O fuel s x h
    split
    · rename_i s1 heq
      rw [heq] at h1
      exact liveLoop_inv (P := P) (fun t : X => t.h) _ _ (fun t o ht => ih _ _ ht) fuel 0 s1 h1
    · rename_i r hne; exact h1

theorem cleanIfLinked_inv (O : Oracle) (fuel : Nat) (s : X) (x : Nat) (h : P s.h) :
    P (cleanIfLinked O fuel s x).1.h := by
  unfold cleanIfLinked
  split
  · exact cleanAux_inv hR O fuel s x h
  · exact h

end withR
end invR

section inv
variable {P : H → Prop} (hP : ∀ h op, P h → P (step h op).1)
include hP

theorem prim_inv {s : X} (op : Op) (h : P s.h) : P (s.prim op).1.h := hP _ _ h

theorem copyObj_inv {s : X} (x : Nat) (h : P s.h) : P (copyObj s x).1.h := by
  rw [copyObj_h]; exact hP _ _ h

theorem kidsLoop_inv {rec : X → Nat → X × Nat × XOut} (hrec : ∀ t k, P t.h → P (rec t k).1.h)
    (c : Nat) : ∀ (ks : List Nat) (s : X), P s.h → P (kidsLoop rec c ks s).1.h := by
  intro ks
  induction ks with
  | nil => intro s h; exact h
  | cons k ks ih =>
    intro s h
    unfold kidsLoop
    have h1 := hrec s k h
    split
    · rename_i s1 ck heq
      rw [heq] at h1
      have h2 := prim_inv hP (.append c ck) h1
      split
      · rename_i s2 heq2; rw [heq2] at h2; exact ih s2 h2
      · rename_i s2 o _ heq2; rw [heq2] at h2; exact h2
    · rename_i s1 _ o _ heq; rw [heq] at h1; exact h1

theorem kidsIf_inv {rec : X → Nat → X × Nat × XOut} (hrec : ∀ t k, P t.h → P (rec t k).1.h)
    (ch : Bool) (c : Nat) (ks : List Nat) (s : X) (h : P s.h) : P (kidsIf ch rec c ks s).1.h := by
  unfold kidsIf
  split
  · exact kidsLoop_inv hP hrec c ks s h
  · exact h

theorem newIdUnless_inv (kid : Bool) (O : Oracle) (s : X) (c : Nat) (h : P s.h) :
    P (newIdUnless kid O s c).1.h := by
  unfold newIdUnless
  split
  · exact h
  · exact prim_inv hP _ h

theorem cloneAux_inv (O : Oracle) : ∀ (fuel : Nat) (s : X) (x : Nat) (ch kid : Bool),
    P s.h → P (cloneAux O fuel s x ch kid).1.h := by
  intro fuel
  induction fuel with
  | zero => intro s x ch kid h; exact h
  | succ fuel ih =>
    intro s x ch kid h
    unfold cloneAux
    have h1 := copyObj_inv hP x h
    have hrec : ∀ (t : X) (k : Nat), P t.h → P ((fun t k => cloneAux O fuel t k true kid) t k).1.h :=
      fun t k ht => ih t k true kid ht
    split
    · rename_i s1 c heq
      rw [heq] at h1
      split
      · have h2 := newIdUnless_inv hP kid O s1 c h1
        split
        rename_i s2 o heq2; rw [heq2] at h2; exact h2
      · -- container
        have h2 := kidsIf_inv hP hrec ch c (s.h.node x).secs s1 h1
        split
        · rename_i s2 heq2
          rw [heq2] at h2
          have h3 := newIdUnless_inv hP kid O s2 c h2
          split
          · rename_i s3 heq3
            rw [heq3] at h3
            split
            · have h4 := kidsLoop_inv hP hrec c (s.h.node x).props s3 h3
              split
              rename_i s4 o heq4; rw [heq4] at h4; exact h4
            · exact h3
          · rename_i s3 o _ heq3; rw [heq3] at h3; exact h3
        · rename_i s2 o _ heq2; rw [heq2] at h2; exact h2
    · rename_i r hne; exact h1

omit hP in
theorem markCopy_h (t : X) (c obj : Nat) (mm : Option Bool) : (t.markCopy c obj mm).h = t.h := by
  cases mm <;> rfl

theorem cloneAppend_inv (O : Oracle) (fuel : Nat) (t : X) (dest obj : Nat) (mm : Option Bool)
    (h : P t.h) : P (cloneAppend O fuel t dest obj mm).1.h := by
  unfold cloneAppend
  have h1 := cloneAux_inv hP O fuel t obj true false h
  split
  · rename_i t1 c heq
    rw [heq] at h1
    apply prim_inv hP
    rw [markCopy_h]; exact h1
  · rename_i t1 _ o _ heq; rw [heq] at h1; exact h1

theorem mergeSecBody_inv (O : Oracle) (fuel : Nat) {rec : X → Bool → Nat → Nat → X × XOut}
    (hrec : ∀ t r a b, P t.h → P (rec t r a b).1.h) (record : Bool) (dest : Nat) (t : X) (obj : Nat)
    (h : P t.h) : P (mergeSecBody O fuel rec record dest t obj).1.h := by
  unfold mergeSecBody
  split
  · exact hrec _ _ _ _ h
  · exact cloneAppend_inv hP O fuel t dest obj (some record) h

theorem mergePropBody_inv (O : Oracle) (fuel : Nat) (dest : Nat) (t : X) (obj : Nat) (h : P t.h) :
    P (mergePropBody O fuel dest t obj).1.h := by
  unfold mergePropBody
  split
  · split <;> exact h
  · exact cloneAppend_inv hP O fuel t dest obj none h

theorem mergeAux_inv (O : Oracle) : ∀ (fuel : Nat) (s : X) (record : Bool) (dest src : Nat),
    P s.h → P (mergeAux O fuel s record dest src).1.h := by
  intro fuel
  induction fuel with
  | zero => intro s record dest src h; exact h
  | succ fuel ih =>
    intro s record dest src h
    unfold mergeAux
    split
    · exact h
    · exact h
    · split
      · exact h
      · exact h
      · have h1 := liveLoop_inv (P := P) (fun t : X => t.h) (fun t => (t.h.node src).secs)
          (mergeSecBody O fuel (mergeAux O fuel) record dest)
          (fun t o ht => mergeSecBody_inv hP O fuel (fun t r a b ht => ih t r a b ht) record dest t o ht)
          fuel 0 s h
        split
        · rename_i s1 heq
          rw [heq] at h1
          have h2 := liveLoop_inv (P := P) (fun t : X => t.h) (fun t => (t.h.node src).props)
            (mergePropBody O fuel dest)
            (fun t o ht => mergePropBody_inv hP O fuel dest t o ht) fuel 0 s1 h1
          split
          · rename_i s2 heq2; rw [heq2] at h2
            split
            · exact h2
            · exact h2
          · rename_i r hne; exact h2
        · rename_i r hne; exact h1

theorem mergePub_inv (O : Oracle) (fuel : Nat) (s : X) (dest src : Nat) (h : P s.h) :
    P (mergePub O fuel s dest src).1.h :=
  mergeAux_inv hP O fuel s _ dest src h

theorem relinkAux_inv (O : Oracle) (fuel : Nat) (s : X) (x : Nat) (h : P s.h) :
    P (relinkAux O fuel s x).1.h := by
  induction fuel generalizing s with
  | zero => exact h
  | succ fuel ih =>
    unfold relinkAux
    split
    · exact h
    · rename_i t0 _
      have h1 := cleanIfLinked_inv (fun h p x => hP h (.remove p x)) O fuel s x h
      split
      · rename_i s1 heq; rw [heq] at h1
        have h2 := mergeAux_inv hP O fuel s1 true x t0 h1
        split
        · rename_i s2 heq2; rw [heq2] at h2; exact h2
        · rename_i s2 heq2; rw [heq2] at h2; exact h2
        · rename_i s2 out _ _ heq2; rw [heq2] at h2
          split
          · have h3 := ih s2 h2
            split
            · rename_i s3 heq3; rw [heq3] at h3; exact h3
            · rename_i r hne; exact h3
          · exact h2
      · rename_i r hne; exact h1

theorem relinkLegacy_inv (O : Oracle) (fuel : Nat) (s : X) (x : Nat) (h : P s.h) :
    P (relinkLegacy O fuel s x).1.h := by
  induction fuel generalizing s with
  | zero => exact h
  | succ fuel ih =>
    unfold relinkLegacy
    split
    · exact h
    · rename_i t0 _
      have h1 := cleanIfLinked_inv (fun h p x => hP h (.remove p x)) O fuel s x h
      split
      · rename_i s1 heq; rw [heq] at h1
        have h2 := mergeAux_inv hP O fuel s1 true x t0 h1
        split
        · rename_i s2 heq2; rw [heq2] at h2; exact h2
        · rename_i s2 heq2; rw [heq2] at h2; exact h2
        · rename_i s2 out _ _ heq2; rw [heq2] at h2; exact ih s2 h2
      · rename_i r hne; exact h1

theorem setLinkAux_inv (O : Oracle) (fuel : Nat) (s : X) (x : Nat) (v : LinkVal) (h : P s.h) :
    P (setLinkAux O fuel s x v).1.h := by
  unfold setLinkAux
  split
  · exact h
  · split
    · exact cleanAux_inv (fun h p x => hP h (.remove p x)) O fuel _ x h
    · exact cleanAux_inv (fun h p x => hP h (.remove p x)) O fuel _ x h
    · exact h
    · rename_i t
      have h1 := cleanIfLinked_inv (fun h p x => hP h (.remove p x)) O fuel s x h
      split
      · rename_i s1 heq; rw [heq] at h1
        have h2 := mergeAux_inv hP O fuel s1 true x t h1
        split
        · rename_i s2 heq2; rw [heq2] at h2; exact h2
        · rename_i s2 heq2; rw [heq2] at h2; exact h2
        · rename_i s2 out _ _ heq2; rw [heq2] at h2
          split
          · have h3 := relinkAux_inv hP O fuel s2 x h2
            split
            · rename_i s3 heq3; rw [heq3] at h3; exact h3
            · rename_i r hne; exact h3
          · exact h2
      · rename_i r hne; exact h1

theorem stepX_inv (fuel : Nat) (s : X) (O : Oracle) (op : XOp) (h : P s.h) :
    P (stepX fuel s O op).1.h := by
  unfold stepX
  simp only
  split
  · exact h
  · split
    · exact prim_inv hP _ h
    · exact cloneAux_inv hP O fuel _ _ _ _ h
    · split
      · exact h
      · exact mergePub_inv hP O fuel _ _ _ h
    · split
      · exact h
      · exact setLinkAux_inv hP O fuel _ _ _ h
    · split
      · exact h
      · exact cleanAux_inv (fun h p x => hP h (.remove p x)) O fuel _ _ h

theorem runX_inv (fuel : Nat) : ∀ (ops : List (Oracle × XOp)) (s : X), P s.h → P (runX fuel s ops).h := by
  intro ops
  induction ops with
  | nil => intro s h; exact h
  | cons op ops ih =>
    intro s h
    exact ih _ (stepX_inv hP fuel s op.1 op.2 h)

end inv

/-! ### Reachability by primitive operations -/

/-- `h'` is reached from `h` by some finite sequence of primitive operations. -/
def Reach (h h' : H) : Prop := ∃ ops : List Op, run h ops = h'

theorem Reach.refl (h : H) : Reach h h := ⟨[], rfl⟩

theorem Reach.step {h0 h : H} (r : Reach h0 h) (op : Op) : Reach h0 (step h op).1 := by
  obtain ⟨ops, rfl⟩ := r
  exact ⟨ops ++ [op], by simp [run, List.foldl_append]⟩

theorem wf_step' (h : H) (op : Op) (w : WF h) : WF (step h op).1 := by
  rcases step_spec w op with ⟨e, he⟩ | ⟨h', he, wh⟩
  · rw [he]; exact w
  · rw [he]; exact wh

theorem Reach.wf {h h' : H} (r : Reach h h') (w : WF h) : WF h' := by
  obtain ⟨ops, rfl⟩ := r
  induction ops generalizing h with
  | nil => exact w
  | cons op ops ih => exact ih (wf_step' h op w)

/-! ## Part B: what a clone and a merge leave untouched (on well-formed heaps) -/

/-- The objects below `n` are exactly as before and no handle is given up. -/
def Same (n : Nat) (h h' : H) : Prop := h.size ≤ h'.size ∧ ∀ i, i < n → h'.node i = h.node i

theorem Same.refl (n : Nat) (h : H) : Same n h h := ⟨Nat.le_refl _, fun _ _ => rfl⟩

theorem Same.trans {n : Nat} {a b c : H} (h1 : Same n a b) (h2 : Same n b c) : Same n a c :=
  ⟨Nat.le_trans h1.1 h2.1, fun i hi => by rw [h2.2 i hi, h1.2 i hi]⟩

theorem Same.mono {n m : Nat} {a b : H} (h : Same n a b) (hm : m ≤ n) : Same m a b :=
  ⟨h.1, fun i hi => h.2 i (Nat.lt_of_lt_of_le hi hm)⟩

theorem step_construct_none (h : H) (k : Kind) (name id : String) :
    step h (.construct k name id none true) = ((alloc h k name id).1, .ok) := by
  unfold step
  simp only [Op.handles, Option.toList, List.any_nil, Bool.false_eq_true, if_false]
  unfold construct
  cases k <;> simp

theorem alloc_size (h : H) (k : Kind) (name id : String) : (alloc h k name id).1.size = h.size + 1 := rfl

theorem alloc_other (h : H) (k : Kind) (name id : String) {j : Nat} (hj : j ≠ h.size) :
    (alloc h k name id).1.node j = h.node j := by
  simp [alloc, hj]

theorem alloc_new_parent (h : H) (k : Kind) (name id : String) :
    ((alloc h k name id).1.node h.size).parent = none := by
  simp [alloc]

theorem alloc_new_kind (h : H) (k : Kind) (name id : String) :
    ((alloc h k name id).1.node h.size).kind = k := by
  simp [alloc]

theorem step_newId (h : H) (c : Nat) (t : String) (hc : c < h.size) :
    step h (.newId c (some t)) = (upd h c (fun n => { n with id := t }), .ok) := by
  unfold step
  have : ¬ (c ≥ h.size) := by omega
  simp [Op.handles, this, newId]

/-- `copy.copy`: the copy is the next free handle, detached, of the kind of the original;
    nothing else changes. -/
theorem copyObj_spec (s : X) (x : Nat) :
    (copyObj s x).2.1 = s.h.size ∧ (copyObj s x).2.2 = .ok ∧
    (copyObj s x).1.h = (alloc s.h (s.h.node x).kind (s.h.node x).name (s.h.node x).id).1 := by
  unfold copyObj X.prim
  simp [step_construct_none, XOut.ofOutcome]

/-- The outcome of `p.append(x)` for a detached `x` on a well-formed heap. -/
def Appended (h h' : H) (p x : Nat) : Prop :=
  h'.size = h.size ∧ x ≠ p ∧ (∀ j, j ≠ p → j ≠ x → h'.node j = h.node j) ∧
  h'.node x = { h.node x with parent := some p } ∧
  (h'.node p = { h.node p with secs := (h.node p).secs ++ [x] } ∨
   h'.node p = { h.node p with props := (h.node p).props ++ [x] })

theorem attach_appended {h : H} {p x : Nat} {ls lp : List Nat} (hxp : x ≠ p)
    (hl : (ls = (h.node p).secs ++ [x] ∧ lp = (h.node p).props) ∨
          (ls = (h.node p).secs ∧ lp = (h.node p).props ++ [x])) :
    Appended h (attach h p x ls lp) p x := by
  refine ⟨rfl, hxp, ?_, ?_, ?_⟩
  · intro j hjp hjx; simp [attach, upd, hjp, hjx]
  · simp [attach, upd, hxp]
  · rcases hl with ⟨h1, h2⟩ | ⟨h1, h2⟩
    · left; simp [attach, upd, Ne.symm hxp, h1, h2]
    · right; simp [attach, upd, Ne.symm hxp, h1, h2]

theorem step_append_detached {h : H} (w : WF h) {p x : Nat} (hxs : x < h.size)
    (hx : (h.node x).parent = none) :
    (step h (.append p x)).1 = h ∨
    ((step h (.append p x)).2 = .ok ∧ Appended h (step h (.append p x)).1 p x) := by
  unfold step
  by_cases hh : (Op.append p x).handles.any (fun i => i ≥ h.size) = true
  · rw [if_pos hh]; exact Or.inl rfl
  rw [if_neg hh]
  show (append h p x).1 = h ∨ ((append h p x).2 = .ok ∧ Appended h (append h p x).1 p x)
  have hps : p < h.size := by
    rcases Nat.lt_or_ge p h.size with h1 | h1
    · exact h1
    · exfalso; apply hh; simp [Op.handles, h1]
  have hdet : detachIf h x = h := by unfold detachIf; rw [hx]
  rcases append_spec w hps hxs with ⟨e, he⟩ | ⟨hk, hpk, hcyc, hnm, he⟩ | ⟨hk, hpk, hnm, he⟩
  · rw [he]; exact Or.inl rfl
  · rw [he]
    refine Or.inr ⟨rfl, ?_⟩
    have hxp : x ≠ p := fun e => (meetsUp_false w hcyc) (e ▸ Anc.refl _)
    unfold appendedS placedS
    rw [hdet]
    exact attach_appended hxp (Or.inl ⟨rfl, rfl⟩)
  · rw [he]
    refine Or.inr ⟨rfl, ?_⟩
    have hxp : x ≠ p := by intro e; subst e; rw [hk] at hpk; cases hpk
    unfold appendedP placedP
    rw [hdet]
    exact attach_appended hxp (Or.inr ⟨rfl, rfl⟩)

/-- What the loops of `clone` keep: the heap is well-formed, the objects that existed before the
    clone started are untouched, the copy `c` is allocated and still detached. -/
structure CloneInv (n c : Nat) (h0 h : H) : Prop where
  wf : WF h
  same : Same n h0 h
  lt : c < h.size
  det : (h.node c).parent = none

/-- Result of a (sub-)clone started in `t`. -/
structure CloneRes (t : X) (r : X × Nat × XOut) : Prop where
  wf : WF r.1.h
  same : Same t.h.size t.h r.1.h
  root : r.2.1 = t.h.size
  ok : r.2.2 = .ok → r.2.1 < r.1.h.size ∧ (r.1.h.node r.2.1).parent = none

theorem kidsLoop_spec {rec : X → Nat → X × Nat × XOut}
    (hrec : ∀ t k, WF t.h → CloneRes t (rec t k)) {n c : Nat} {h0 : H} (hcn : n ≤ c) :
    ∀ (ks : List Nat) (s : X), CloneInv n c h0 s.h → CloneInv n c h0 (kidsLoop rec c ks s).1.h := by
  intro ks
  induction ks with
  | nil => intro s h; exact h
  | cons k ks ih =>
    intro s h
    unfold kidsLoop
    have h1 := hrec s k h.wf
    have inv1 : CloneInv n c h0 (rec s k).1.h := by
      refine ⟨h1.wf, h.same.trans (h1.same.mono (Nat.le_trans hcn (Nat.le_of_lt h.lt))),
        Nat.lt_of_lt_of_le h.lt h1.same.1, ?_⟩
      rw [h1.same.2 c h.lt]; exact h.det
    split
    · rename_i s1 ck heq
      rw [heq] at h1 inv1
      have hck : ck < s1.h.size := (h1.ok rfl).1
      have hdet : (s1.h.node ck).parent = none := (h1.ok rfl).2
      have hroot : ck = s.h.size := h1.root
      have inv1 : CloneInv n c h0 s1.h := inv1
      have h2 := step_append_detached (p := c) inv1.wf hck hdet
      have inv2 : CloneInv n c h0 (s1.prim (.append c ck)).1.h := by
        rw [prim_h]
        rcases h2 with he | ⟨_, hsz, hne, hoth, hxn, hpn⟩
        · rw [he]; exact inv1
        · have hcck : c ≠ ck := by rw [hroot]; exact Nat.ne_of_lt h.lt
          refine ⟨wf_step' _ _ inv1.wf, ⟨by rw [hsz]; exact inv1.same.1, ?_⟩, by rw [hsz]; exact inv1.lt, ?_⟩
          · intro i hi
            rw [hoth i (by omega) (by rw [hroot]; have := h.lt; omega)]
            exact inv1.same.2 i hi
          · rcases hpn with hp | hp <;> rw [hp] <;> exact inv1.det
      split
      · rename_i s2 heq2; rw [heq2] at inv2; exact ih s2 inv2
      · rename_i s2 o _ heq2; rw [heq2] at inv2; exact inv2
    · rename_i s1 _ o _ heq; rw [heq] at inv1; exact inv1

theorem kidsIf_spec {rec : X → Nat → X × Nat × XOut}
    (hrec : ∀ t k, WF t.h → CloneRes t (rec t k)) {n c : Nat} {h0 : H} (hcn : n ≤ c)
    (ch : Bool) (ks : List Nat) (s : X) (h : CloneInv n c h0 s.h) :
    CloneInv n c h0 (kidsIf ch rec c ks s).1.h := by
  unfold kidsIf
  split
  · exact kidsLoop_spec hrec hcn ks s h
  · exact h

theorem newIdUnless_spec {n c : Nat} {h0 : H} (hcn : n ≤ c) (kid : Bool) (O : Oracle) (s : X)
    (h : CloneInv n c h0 s.h) : CloneInv n c h0 (newIdUnless kid O s c).1.h := by
  unfold newIdUnless
  split
  · exact h
  · rw [prim_h, step_newId _ _ _ h.lt]
    refine ⟨?_, ⟨h.same.1, ?_⟩, h.lt, ?_⟩
    · have := wf_step' s.h (.newId c (some (O.ids c))) h.wf
      rw [step_newId _ _ _ h.lt] at this; exact this
    · intro i hi
      rw [upd_other _ _ _ _ (by omega)]; exact h.same.2 i hi
    · rw [upd_same]; exact h.det

/-- The central fact about `clone`: see `CloneRes`. -/
theorem cloneAux_spec (O : Oracle) : ∀ (fuel : Nat) (s : X) (x : Nat) (ch kid : Bool),
    WF s.h → CloneRes s (cloneAux O fuel s x ch kid) := by
  intro fuel
  induction fuel with
  | zero =>
    intro s x ch kid w
    exact ⟨w, Same.refl _ _, rfl, fun h => by cases h⟩
  | succ fuel ih =>
    intro s x ch kid w
    have hrec : ∀ (t : X) (k : Nat), WF t.h →
        CloneRes t ((fun t k => cloneAux O fuel t k true kid) t k) := fun t k wt => ih t k true kid wt
    obtain ⟨hc, hok, hh⟩ := copyObj_spec s x
    unfold cloneAux
    split
    · rename_i s1 c heq
      rw [heq] at hc hh
      simp only at hc hh
      -- the state right after the copy
      have inv1 : CloneInv s.h.size c s.h s1.h := by
        rw [hh, hc]
        refine ⟨wf_alloc w _ _ _, ⟨by rw [alloc_size]; omega, ?_⟩, by rw [alloc_size]; omega,
          alloc_new_parent _ _ _ _⟩
        intro i hi; exact alloc_other _ _ _ _ (by omega)
      have hcn : s.h.size ≤ c := by omega
      have fin : ∀ (t : X) (o : XOut), CloneInv s.h.size c s.h t.h → CloneRes s (t, c, o) :=
        fun t o inv => ⟨inv.wf, inv.same, hc, fun _ => ⟨inv.lt, inv.det⟩⟩
      split
      · have h2 := newIdUnless_spec hcn kid O s1 inv1
        split
        rename_i s2 o heq2; rw [heq2] at h2; exact fin _ _ h2
      · have h2 := kidsIf_spec hrec hcn ch (s.h.node x).secs s1 inv1
        split
        · rename_i s2 heq2
          rw [heq2] at h2
          have h3 := newIdUnless_spec hcn kid O s2 h2
          split
          · rename_i s3 heq3
            rw [heq3] at h3
            split
            · have h4 := kidsLoop_spec hrec hcn (s.h.node x).props s3 h3
              split
              rename_i s4 o heq4; rw [heq4] at h4; exact fin _ _ h4
            · exact fin _ _ h3
          · rename_i s3 o _ heq3; rw [heq3] at h3; exact fin _ _ h3
        · rename_i s2 o _ heq2; rw [heq2] at h2; exact fin _ _ h2
    · rename_i r hne
      exfalso
      apply hne
      rw [← hok]

/-- Objects that existed before stay below the old size when one walks up from them: the new
    objects are never above an old one. -/
theorem anc_old {h h' : H} (w : WF h) (hs : Same h.size h h') {a i : Nat} (ha : Anc h' a i)
    (hi : i < h.size) : a < h.size := by
  induction ha with
  | refl => exact hi
  | @step p c hp _ ih =>
    apply ih
    rw [hs.2 c hi] at hp
    exact w.parent_lt hp

/-! ### merge only adds -/

/-- Relative to the objects below `n`: kinds, names, ids and parents are unchanged and the child
    lists only grow at the end, by objects that are not below `n`. -/
def Adds (n : Nat) (h h' : H) : Prop :=
  h.size ≤ h'.size ∧ ∀ i, i < n →
    (h'.node i).kind = (h.node i).kind ∧ (h'.node i).name = (h.node i).name ∧
    (h'.node i).id = (h.node i).id ∧ (h'.node i).parent = (h.node i).parent ∧
    (∃ l, (h'.node i).secs = (h.node i).secs ++ l ∧ ∀ x ∈ l, n ≤ x) ∧
    (∃ l, (h'.node i).props = (h.node i).props ++ l ∧ ∀ x ∈ l, n ≤ x)

theorem Adds.refl (n : Nat) (h : H) : Adds n h h :=
  ⟨Nat.le_refl _, fun _ _ => ⟨rfl, rfl, rfl, rfl, ⟨[], by simp⟩, ⟨[], by simp⟩⟩⟩

theorem Adds.trans {n : Nat} {a b c : H} (h1 : Adds n a b) (h2 : Adds n b c) : Adds n a c := by
  refine ⟨Nat.le_trans h1.1 h2.1, fun i hi => ?_⟩
  obtain ⟨k1, n1, i1, p1, ⟨l1, e1, m1⟩, ⟨q1, f1, o1⟩⟩ := h1.2 i hi
  obtain ⟨k2, n2, i2, p2, ⟨l2, e2, m2⟩, ⟨q2, f2, o2⟩⟩ := h2.2 i hi
  refine ⟨k2.trans k1, n2.trans n1, i2.trans i1, p2.trans p1, ⟨l1 ++ l2, ?_, ?_⟩, ⟨q1 ++ q2, ?_, ?_⟩⟩
  · rw [e2, e1, List.append_assoc]
  · intro x hx; rcases List.mem_append.mp hx with h | h
    · exact m1 x h
    · exact m2 x h
  · rw [f2, f1, List.append_assoc]
  · intro x hx; rcases List.mem_append.mp hx with h | h
    · exact o1 x h
    · exact o2 x h

theorem Same.adds {n : Nat} {a b : H} (h : Same n a b) : Adds n a b :=
  ⟨h.1, fun i hi => by rw [h.2 i hi]; exact ⟨rfl, rfl, rfl, rfl, ⟨[], by simp⟩, ⟨[], by simp⟩⟩⟩

theorem Appended.adds {n : Nat} {h h' : H} {p x : Nat} (ha : Appended h h' p x) (hx : n ≤ x) :
    Adds n h h' := by
  obtain ⟨hsz, hne, hoth, hxn, hpn⟩ := ha
  refine ⟨by rw [hsz]; exact Nat.le_refl _, fun i hi => ?_⟩
  by_cases hip : i = p
  · subst hip
    rcases hpn with hp | hp
    · rw [hp]; exact ⟨rfl, rfl, rfl, rfl, ⟨[x], rfl, by simpa using hx⟩, ⟨[], by simp⟩⟩
    · rw [hp]; exact ⟨rfl, rfl, rfl, rfl, ⟨[], by simp⟩, ⟨[x], rfl, by simpa using hx⟩⟩
  · rw [hoth i hip (by omega)]
    exact ⟨rfl, rfl, rfl, rfl, ⟨[], by simp⟩, ⟨[], by simp⟩⟩

/-- The invariant of `merge`: well-formed, and relative to the start `h0` only additions. -/
def MInv (n : Nat) (h0 h : H) : Prop := WF h ∧ Adds n h0 h

theorem cloneAppend_adds (O : Oracle) (fuel : Nat) {n : Nat} {h0 : H} (hn : n ≤ h0.size)
    (t : X) (dest obj : Nat) (mm : Option Bool) (h : MInv n h0 t.h) :
    MInv n h0 (cloneAppend O fuel t dest obj mm).1.h := by
  unfold cloneAppend
  have h1 := cloneAux_spec O fuel t obj true false h.1
  have hnt : n ≤ t.h.size := Nat.le_trans hn h.2.1
  split
  · rename_i t1 c heq
    rw [heq] at h1
    have hck : c < t1.h.size := (h1.ok rfl).1
    have hdet : (t1.h.node c).parent = none := (h1.ok rfl).2
    have hroot : c = t.h.size := h1.root
    have hwf1 : WF t1.h := h1.wf
    have inv1 : MInv n h0 t1.h := ⟨h1.wf, h.2.trans (h1.same.mono hnt).adds⟩
    rw [prim_h]
    rw [markCopy_h]
    rcases step_append_detached (p := dest) hwf1 hck hdet with he | ⟨_, ha⟩
    · rw [he]; exact inv1
    · exact ⟨wf_step' _ _ hwf1, inv1.2.trans (ha.adds (by omega))⟩
  · rename_i t1 _ o _ heq
    rw [heq] at h1
    exact ⟨h1.wf, h.2.trans (h1.same.mono hnt).adds⟩

theorem mergeAux_adds (O : Oracle) {n : Nat} {h0 : H} (hn : n ≤ h0.size) :
    ∀ (fuel : Nat) (s : X) (record : Bool) (dest src : Nat), MInv n h0 s.h →
      MInv n h0 (mergeAux O fuel s record dest src).1.h := by
  intro fuel
  induction fuel with
  | zero => intro s record dest src h; exact h
  | succ fuel ih =>
    intro s record dest src h
    unfold mergeAux
    split
    · exact h
    · exact h
    · split
      · exact h
      · exact h
      · have h1 := liveLoop_inv (P := MInv n h0) (fun t : X => t.h) (fun t => (t.h.node src).secs)
          (mergeSecBody O fuel (mergeAux O fuel) record dest)
          (by
            intro t o ht
            unfold mergeSecBody
            split
            · exact ih _ _ _ _ ht
            · exact cloneAppend_adds O fuel hn t dest o (some record) ht) fuel 0 s h
        split
        · rename_i s1 heq
          rw [heq] at h1
          have h2 := liveLoop_inv (P := MInv n h0) (fun t : X => t.h) (fun t => (t.h.node src).props)
            (mergePropBody O fuel dest)
            (by
              intro t o ht
              unfold mergePropBody
              split
              · split <;> exact ht
              · exact cloneAppend_adds O fuel hn t dest o none ht) fuel 0 s1 h1
          split
          · rename_i s2 heq2; rw [heq2] at h2
            split
            · exact h2
            · exact h2
          · rename_i r hne; exact h2
        · rename_i r hne; exact h1


/-! ### clean / unmerge only detach -/

/-- Relative to `h0`: the same objects with the same kinds and names; a parent is as before or gone;
    child lists are sublists of what they were. -/
def Detaches (h0 h : H) : Prop :=
  h.size = h0.size ∧ ∀ i,
    (h.node i).kind = (h0.node i).kind ∧ (h.node i).name = (h0.node i).name ∧
    ((h.node i).parent = (h0.node i).parent ∨ (h.node i).parent = none) ∧
    (h.node i).secs.Sublist (h0.node i).secs ∧ (h.node i).props.Sublist (h0.node i).props

theorem Detaches.refl (h : H) : Detaches h h :=
  ⟨rfl, fun _ => ⟨rfl, rfl, Or.inl rfl, List.Sublist.refl _, List.Sublist.refl _⟩⟩

theorem Detaches.trans {a b c : H} (h1 : Detaches a b) (h2 : Detaches b c) : Detaches a c := by
  refine ⟨h2.1.trans h1.1, fun i => ?_⟩
  obtain ⟨k1, n1, p1, s1, q1⟩ := h1.2 i
  obtain ⟨k2, n2, p2, s2, q2⟩ := h2.2 i
  refine ⟨k2.trans k1, n2.trans n1, ?_, s2.trans s1, q2.trans q1⟩
  rcases p2 with p2 | p2
  · rcases p1 with p1 | p1
    · exact Or.inl (p2.trans p1)
    · exact Or.inr (p2.trans p1)
  · exact Or.inr p2

theorem step_remove_detaches {h : H} (w : WF h) (p x : Nat) :
    Detaches h (step h (.remove p x)).1 := by
  unfold step
  by_cases hh : (Op.remove p x).handles.any (fun i => i ≥ h.size) = true
  · rw [if_pos hh]; exact Detaches.refl _
  rw [if_neg hh]
  show Detaches h (remove h p x).1
  rcases remove_spec w p x with ⟨e, he⟩ | ⟨hx, he⟩
  · rw [he]; exact Detaches.refl _
  · rw [he]
    refine ⟨rfl, fun i => ⟨detach_kind i, detach_name i, ?_, ?_, ?_⟩⟩
    · rw [detach_parent]; split
      · exact Or.inr rfl
      · exact Or.inl rfl
    · rw [detach_secs]; split
      · exact List.erase_sublist
      · exact List.Sublist.refl _
    · rw [detach_props]; split
      · exact List.erase_sublist
      · exact List.Sublist.refl _

/-- Invariant of clean / unmerge relative to the start `h0`. -/
def CInv (h0 h : H) : Prop := WF h ∧ Detaches h0 h

theorem cinv_remove (h0 : H) : ∀ h p x, CInv h0 h → CInv h0 (step h (.remove p x)).1 :=
  fun h p x hi => ⟨wf_step' h _ hi.1, hi.2.trans (step_remove_detaches hi.1 p x)⟩

/-! ### The recursion budget of `clone` suffices -/

theorem prim_no_fuel (s : X) (op : Op) : (s.prim op).2 ≠ .fuel := by
  unfold X.prim XOut.ofOutcome
  simp only
  split <;> simp

theorem newIdUnless_no_fuel (kid : Bool) (O : Oracle) (s : X) (c : Nat) :
    (newIdUnless kid O s c).2 ≠ .fuel := by
  unfold newIdUnless
  split
  · simp
  · exact prim_no_fuel _ _

theorem anc_lt {h : H} (w : WF h) {a c : Nat} (ha : Anc h a c) (hc : c < h.size) : a < h.size := by
  induction ha with
  | refl => exact hc
  | @step p c hp _ ih => exact ih (w.parent_lt hp)

/-- `path` lists proper ancestors of `x` (all different): the part of the tree above `x` that the
    recursion has already passed through. -/
structure Below (h0 : H) (x : Nat) (path : List Nat) : Prop where
  lt : x < h0.size
  anc : ∀ p ∈ path, Anc h0 p x ∧ p ≠ x
  nodup : path.Nodup

theorem Below.length {h0 : H} (w : WF h0) {x : Nat} {path : List Nat} (b : Below h0 x path) :
    path.length + 1 ≤ h0.size := by
  have hn : (x :: path).Nodup := by
    refine List.nodup_cons.mpr ⟨fun hm => (b.anc x hm).2 rfl, b.nodup⟩
  have := length_le_of_nodup_lt hn (n := h0.size) (by
    intro y hy
    rcases List.mem_cons.mp hy with e | hm
    · rw [e]; exact b.lt
    · exact anc_lt w (b.anc y hm).1 b.lt)
  simpa using this

theorem Below.child {h0 : H} (w : WF h0) {x k : Nat} {path : List Nat} (b : Below h0 x path)
    (hk : (h0.node k).parent = some x) : Below h0 k (x :: path) := by
  obtain ⟨d, hd⟩ := w.rank
  refine ⟨w.child_lt hk, ?_, List.nodup_cons.mpr ⟨fun hm => (b.anc x hm).2 rfl, b.nodup⟩⟩
  intro p hp
  rcases List.mem_cons.mp hp with e | hm
  · rw [e]; exact ⟨Anc.step hk (Anc.refl x), w.parent_ne hk⟩
  · refine ⟨Anc.step hk (b.anc p hm).1, ?_⟩
    intro e
    have h1 := Anc.rank_le hd (b.anc p hm).1
    have h2 := hd k x hk
    rw [e] at h1; omega

/-- One round of the loop of `clone` keeps `CloneInv`. -/
theorem kids_step_inv {rec : X → Nat → X × Nat × XOut}
    (hrec : ∀ t k, WF t.h → CloneRes t (rec t k)) {n c : Nat} {h0 : H} (hcn : n ≤ c)
    (s : X) (k : Nat) (h : CloneInv n c h0 s.h) :
    CloneInv n c h0 (rec s k).1.h ∧
    ((rec s k).2.2 = .ok → CloneInv n c h0 ((rec s k).1.prim (.append c (rec s k).2.1)).1.h) := by
  have h1 := hrec s k h.wf
  have inv1 : CloneInv n c h0 (rec s k).1.h := by
    refine ⟨h1.wf, h.same.trans (h1.same.mono (Nat.le_trans hcn (Nat.le_of_lt h.lt))),
      Nat.lt_of_lt_of_le h.lt h1.same.1, ?_⟩
    rw [h1.same.2 c h.lt]; exact h.det
  refine ⟨inv1, fun hok => ?_⟩
  obtain ⟨hck, hdet⟩ := h1.ok hok
  have hroot := h1.root
  rw [prim_h]
  rcases step_append_detached (p := c) inv1.wf hck hdet with he | ⟨_, hsz, hne, hoth, hxn, hpn⟩
  · rw [he]; exact inv1
  · have hcck : c ≠ (rec s k).2.1 := by rw [hroot]; exact Nat.ne_of_lt h.lt
    refine ⟨wf_step' _ _ inv1.wf, ⟨by rw [hsz]; exact inv1.same.1, ?_⟩, by rw [hsz]; exact inv1.lt, ?_⟩
    · intro i hi
      rw [hoth i (by omega) (by rw [hroot]; have := h.lt; omega)]
      exact inv1.same.2 i hi
    · rcases hpn with hp | hp <;> rw [hp] <;> exact inv1.det

theorem kidsLoop_no_fuel {rec : X → Nat → X × Nat × XOut}
    (hrec : ∀ t k, WF t.h → CloneRes t (rec t k)) {n c : Nat} {h0 : H} (hcn : n ≤ c) :
    ∀ (ks : List Nat) (s : X), CloneInv n c h0 s.h →
      (∀ k ∈ ks, ∀ t, CloneInv n c h0 t.h → (rec t k).2.2 ≠ .fuel) →
      (kidsLoop rec c ks s).2 ≠ .fuel := by
  intro ks
  induction ks with
  | nil => intro s _ _; simp [kidsLoop]
  | cons k ks ih =>
    intro s h hk
    have hf := hk k (List.mem_cons_self) s h
    obtain ⟨inv1, inv2⟩ := kids_step_inv hrec hcn s k h
    unfold kidsLoop
    split
    · rename_i s1 ck heq
      rw [heq] at inv2
      have i2 := inv2 rfl
      split
      · rename_i s2 heq2
        rw [heq2] at i2
        exact ih s2 i2 (fun k' hk' => hk k' (List.mem_cons_of_mem _ hk'))
      · rename_i s2 o hne heq2
        have := prim_no_fuel s1 (.append c ck)
        rw [heq2] at this; exact this
    · rename_i s1 _ o hne heq
      rw [heq] at hf; exact hf

theorem cloneAux_no_fuel (O : Oracle) {h0 : H} (w0 : WF h0) :
    ∀ (fuel : Nat) (s : X) (x : Nat) (ch kid : Bool) (path : List Nat),
      WF s.h → Same h0.size h0 s.h → Below h0 x path → h0.size ≤ fuel + path.length →
      (cloneAux O fuel s x ch kid).2.2 ≠ .fuel := by
  intro fuel
  induction fuel with
  | zero =>
    intro s x ch kid path w hs b hf
    have := b.length w0; omega
  | succ fuel ih =>
    intro s x ch kid path w hs b hf
    have hrec : ∀ (t : X) (k : Nat), WF t.h →
        CloneRes t ((fun t k => cloneAux O fuel t k true kid) t k) :=
      fun t k wt => cloneAux_spec O fuel t k true kid wt
    obtain ⟨hc, hok, hh⟩ := copyObj_spec s x
    -- the children of x are those it has in h0, and the budget suffices for each of them
    have hnode : s.h.node x = h0.node x := hs.2 x b.lt
    have hkids : ∀ k, (h0.node k).parent = some x → ∀ t, CloneInv s.h.size s.h.size s.h t.h →
        (cloneAux O fuel t k true kid).2.2 ≠ .fuel := by
      intro k hk t inv
      refine ih t k true kid (x :: path) inv.wf (hs.trans (inv.same.mono hs.1)) (b.child w0 hk) ?_
      simp only [List.length_cons]; omega
    unfold cloneAux
    split
    · rename_i s1 c heq
      rw [heq] at hc hh
      simp only at hc hh
      have inv1 : CloneInv s.h.size c s.h s1.h := by
        rw [hh, hc]
        refine ⟨wf_alloc w _ _ _, ⟨by rw [alloc_size]; omega, ?_⟩, by rw [alloc_size]; omega,
          alloc_new_parent _ _ _ _⟩
        intro i hi; exact alloc_other _ _ _ _ (by omega)
      have hcn : s.h.size ≤ c := by omega
      subst hc
      split
      · split
        rename_i s2 o heq2
        have := newIdUnless_no_fuel kid O s1 s.h.size
        rw [heq2] at this; exact this
      · have hS : ∀ k ∈ (s.h.node x).secs, ∀ t, CloneInv s.h.size s.h.size s.h t.h →
            ((fun t k => cloneAux O fuel t k true kid) t k).2.2 ≠ .fuel := by
          intro k hk t inv
          rw [hnode] at hk
          exact hkids k ((w0.memS x k).mp hk).1 t inv
        have hP : ∀ k ∈ (s.h.node x).props, ∀ t, CloneInv s.h.size s.h.size s.h t.h →
            ((fun t k => cloneAux O fuel t k true kid) t k).2.2 ≠ .fuel := by
          intro k hk t inv
          rw [hnode] at hk
          exact hkids k ((w0.memP x k).mp hk).1 t inv
        have h2 := kidsIf_spec hrec hcn ch (s.h.node x).secs s1 inv1
        have f2 : (kidsIf ch (fun t k => cloneAux O fuel t k true kid) s.h.size
            (s.h.node x).secs s1).2 ≠ .fuel := by
          unfold kidsIf
          split
          · exact kidsLoop_no_fuel hrec hcn _ s1 inv1 hS
          · simp
        split
        · rename_i s2 heq2
          rw [heq2] at h2
          have h3 := newIdUnless_spec hcn kid O s2 h2
          have f3 := newIdUnless_no_fuel kid O s2 s.h.size
          split
          · rename_i s3 heq3
            rw [heq3] at h3
            split
            · have f4 := kidsLoop_no_fuel hrec hcn (s.h.node x).props s3 h3 hP
              split
              rename_i s4 o heq4; rw [heq4] at f4; exact f4
            · simp
          · rename_i s3 o _ heq3; rw [heq3] at f3; exact f3
        · rename_i s2 o _ heq2; rw [heq2] at f2; exact f2
    · rename_i r hne
      exfalso; apply hne; rw [← hok]

end Heap
