/-
Every editing operation of the heap model, on a well-formed heap, either raises and returns the
heap unchanged, or returns a heap built from the primitives of `HeapWF.lean`.
-/
import OdmlModel.Proofs.HeapWF

set_option linter.unusedSimpArgs false
set_option linter.unusedVariables false

namespace Heap

theorem H.ext' {a b : H} (hn : ∀ i, a.node i = b.node i) (hs : a.size = b.size) : a = b := by
  cases a; cases b; simp only [H.mk.injEq]; exact ⟨funext hn, hs⟩

theorem nameIn_false {h : H} {l : List Nat} {name : String} :
    nameIn h l name = false ↔ ∀ c ∈ l, (h.node c).name ≠ name := by
  simp [nameIn]

theorem nameIn_true {h : H} {l : List Nat} {name : String} :
    nameIn h l name = true ↔ ∃ c ∈ l, (h.node c).name = name := by
  simp [nameIn]

/-! ### `remove` -/

theorem removeChild_some {h : H} (w : WF h) {q x : Nat} (hx : (h.node x).parent = some q) :
    removeChild h q x = some (detach h q x) := by
  have hqx : q ≠ x := w.parent_ne hx
  unfold removeChild
  rcases w.kind_of_parent hx with hk | hk
  · have hm : x ∈ (h.node q).secs := (w.memS q x).mpr ⟨hx, hk⟩
    have hnp : x ∉ (h.node q).props := by
      intro hm'; have := ((w.memP q x).mp hm').2; rw [hk] at this; cases this
    obtain ⟨i, hi⟩ := indexOf?_of_mem hm
    simp only [hk, hi]
    congr 1
    refine H.ext' (fun j => ?_) rfl
    unfold detach upd
    dsimp only
    by_cases h1 : j = x
    · subst h1; simp [hqx.symm]
    · by_cases h2 : j = q
      · subst h2; simp [h1, delAt_indexOf hi, List.erase_of_not_mem hnp]
      · simp [h1, h2]
  · have hm : x ∈ (h.node q).props := (w.memP q x).mpr ⟨hx, hk⟩
    have hnp : x ∉ (h.node q).secs := by
      intro hm'; have := ((w.memS q x).mp hm').2; rw [hk] at this; cases this
    have hqk : (h.node q).kind = .sec := w.parP x q hx hk
    obtain ⟨i, hi⟩ := indexOf?_of_mem hm
    simp only [hk, hi, hqk]
    simp only [show ¬ (Kind.sec = Kind.doc) by decide, if_false]
    congr 1
    refine H.ext' (fun j => ?_) rfl
    unfold detach upd
    dsimp only
    by_cases h1 : j = x
    · subst h1; simp [hqx.symm]
    · by_cases h2 : j = q
      · subst h2; simp [h1, delAt_indexOf hi, List.erase_of_not_mem hnp]
      · simp [h1, h2]

theorem removeChild_none {h : H} (w : WF h) {q x : Nat} (hx : (h.node x).parent ≠ some q) :
    removeChild h q x = none := by
  unfold removeChild
  cases hk : (h.node x).kind with
  | doc => rfl
  | sec =>
    have : x ∉ (h.node q).secs := fun hm => hx ((w.memS q x).mp hm).1
    simp [indexOf?_none.mpr this]
  | prop =>
    have : x ∉ (h.node q).props := fun hm => hx ((w.memP q x).mp hm).1
    simp only [indexOf?_none.mpr this]
    split <;> rfl

/-- `container.remove(obj)`: refused without any change, or the object is detached. -/
theorem remove_spec {h : H} (w : WF h) (p x : Nat) :
    (∃ e, remove h p x = (h, .raised e)) ∨
    ((h.node x).parent = some p ∧ remove h p x = (detach h p x, .ok)) := by
  unfold remove
  split
  · exact Or.inl ⟨_, rfl⟩
  · by_cases hx : (h.node x).parent = some p
    · rw [removeChild_some w hx]; exact Or.inr ⟨hx, rfl⟩
    · rw [removeChild_none w hx]; exact Or.inl ⟨_, rfl⟩

/-! ### Ancestors in a changed heap -/

/-- Detaching removes an edge: ancestors in the new heap were ancestors before. -/
theorem Anc.of_detach {h : H} {q x a c : Nat} (ha : Anc (detach h q x) a c) : Anc h a c := by
  induction ha with
  | refl => exact Anc.refl _
  | step hp _ ih =>
    rw [detach_parent] at hp
    split at hp
    · cases hp
    · exact Anc.step hp ih

/-- The walk of the cycle check does not look at nodes it does not pass: if the walk from
    `cur` does not meet `z`, a heap that differs only at `z` gives the same answer. -/
theorem meetsUp_frame {h h' : H} {z : Nat}
    (hsame : ∀ i, i ≠ z → (h'.node i).kind = (h.node i).kind ∧ (h'.node i).parent = (h.node i).parent)
    {fuel : Nat} {cur : Option Nat} {obj : Nat}
    (hz : meetsUp h fuel cur z = false) : meetsUp h' fuel cur obj = meetsUp h fuel cur obj := by
  induction fuel generalizing cur with
  | zero => cases cur <;> rfl
  | succ fuel ih =>
    cases cur with
    | none => rfl
    | some c =>
      simp only [meetsUp] at hz ⊢
      split at hz
      · cases hz
      · rename_i hcz
        rw [(hsame c hcz).1, (hsame c hcz).2]
        split
        · rfl
        · exact ih hz

/-! ### Detach if attached -/

/-- `x` taken out of whatever container holds it. -/
def detachIf (h : H) (x : Nat) : H :=
  match (h.node x).parent with
  | some q => detach h q x
  | none => h

theorem wf_detachIf {h : H} (w : WF h) (x : Nat) : WF (detachIf h x) := by
  unfold detachIf
  split
  · rename_i q hq; exact wf_detach w hq
  · exact w

theorem detachIf_size (h : H) (x : Nat) : (detachIf h x).size = h.size := by
  unfold detachIf; split <;> rfl

theorem detachIf_parent (h : H) (x c : Nat) :
    ((detachIf h x).node c).parent = if c = x then none else (h.node c).parent := by
  unfold detachIf
  split
  · rw [detach_parent]
  · rename_i hx; split
    · rename_i hc; subst hc; exact hx
    · rfl

theorem detachIf_kind (h : H) (x c : Nat) : ((detachIf h x).node c).kind = (h.node c).kind := by
  unfold detachIf; split
  · rw [detach_kind]
  · rfl

theorem detachIf_name (h : H) (x c : Nat) : ((detachIf h x).node c).name = (h.node c).name := by
  unfold detachIf; split
  · rw [detach_name]
  · rfl

theorem detachIf_secs (h : H) (x p : Nat) (hp : (h.node x).parent ≠ some p) :
    ((detachIf h x).node p).secs = (h.node p).secs := by
  unfold detachIf; split
  · rename_i q hq; rw [detach_secs]; split
    · rename_i e; subst e; exact absurd hq hp
    · rfl
  · rfl

theorem detachIf_props (h : H) (x p : Nat) (hp : (h.node x).parent ≠ some p) :
    ((detachIf h x).node p).props = (h.node p).props := by
  unfold detachIf; split
  · rename_i q hq; rw [detach_props]; split
    · rename_i e; subst e; exact absurd hq hp
    · rfl
  · rfl

theorem Anc.of_detachIf {h : H} {x a c : Nat} (ha : Anc (detachIf h x) a c) : Anc h a c := by
  unfold detachIf at ha
  split at ha
  · exact Anc.of_detach ha
  · exact ha

/-! ### `append` -/

/-- `x` (a Section) moved into `p` with `ls` as the new Section list of `p`. -/
def placedS (h : H) (p x : Nat) (ls : List Nat) : H :=
  attach (detachIf h x) p x ls (h.node p).props

/-- `x` (a Property) moved into `p` with `lp` as the new Property list of `p`. -/
def placedP (h : H) (p x : Nat) (lp : List Nat) : H :=
  attach (detachIf h x) p x (h.node p).secs lp

/-- The heap after a successful `p.append(x)` for a Section / Property `x`. -/
def appendedS (h : H) (p x : Nat) : H := placedS h p x ((h.node p).secs ++ [x])
def appendedP (h : H) (p x : Nat) : H := placedP h p x ((h.node p).props ++ [x])

theorem wf_placedS {h : H} (w : WF h) {p x : Nat} {ls : List Nat} (hps : p < h.size) (hxs : x < h.size)
    (hk : (h.node x).kind = .sec) (hpk : (h.node p).kind ≠ .prop)
    (hanc : ¬ Anc h x p) (hnotp : (h.node x).parent ≠ some p)
    (hnm : nameIn h (h.node p).secs (h.node x).name = false)
    (hperm : ls.Perm (x :: (h.node p).secs)) : WF (placedS h p x ls) := by
  unfold placedS
  apply wf_attachS (wf_detachIf w x)
  · rw [detachIf_parent]; simp
  · rw [detachIf_kind]; exact hk
  · rw [detachIf_kind]; exact hpk
  · exact fun ha => hanc (Anc.of_detachIf ha)
  · rw [detachIf_size]; exact hxs
  · rw [detachIf_size]; exact hps
  · rw [detachIf_secs h x p hnotp]
    intro c hc
    rw [detachIf_name, detachIf_name]
    exact (nameIn_false.mp hnm) c hc
  · rw [detachIf_secs h x p hnotp]; exact hperm
  · rw [detachIf_props h x p hnotp]

theorem wf_placedP {h : H} (w : WF h) {p x : Nat} {lp : List Nat} (hps : p < h.size) (hxs : x < h.size)
    (hk : (h.node x).kind = .prop) (hpk : (h.node p).kind = .sec)
    (hnotp : (h.node x).parent ≠ some p)
    (hnm : nameIn h (h.node p).props (h.node x).name = false)
    (hperm : lp.Perm (x :: (h.node p).props)) : WF (placedP h p x lp) := by
  unfold placedP
  apply wf_attachP (wf_detachIf w x)
  · rw [detachIf_parent]; simp
  · rw [detachIf_kind]; exact hk
  · rw [detachIf_kind]; exact hpk
  · rw [detachIf_size]; exact hxs
  · rw [detachIf_size]; exact hps
  · rw [detachIf_props h x p hnotp]
    intro c hc
    rw [detachIf_name, detachIf_name]
    exact (nameIn_false.mp hnm) c hc
  · rw [detachIf_props h x p hnotp]; exact hperm
  · rw [detachIf_secs h x p hnotp]

theorem notp_of_nameS {h : H} (w : WF h) {p x : Nat} (hk : (h.node x).kind = .sec)
    (hnm : nameIn h (h.node p).secs (h.node x).name = false) : (h.node x).parent ≠ some p := by
  intro hp
  have hm := (w.memS p x).mpr ⟨hp, hk⟩
  exact (nameIn_false.mp hnm) x hm rfl

theorem notp_of_nameP {h : H} (w : WF h) {p x : Nat} (hk : (h.node x).kind = .prop)
    (hnm : nameIn h (h.node p).props (h.node x).name = false) : (h.node x).parent ≠ some p := by
  intro hp
  have hm := (w.memP p x).mpr ⟨hp, hk⟩
  exact (nameIn_false.mp hnm) x hm rfl

theorem wf_appendedS {h : H} (w : WF h) {p x : Nat} (hps : p < h.size) (hxs : x < h.size)
    (hk : (h.node x).kind = .sec) (hpk : (h.node p).kind ≠ .prop)
    (hcyc : cycleCheck h p x = false)
    (hnm : nameIn h (h.node p).secs (h.node x).name = false) : WF (appendedS h p x) :=
  wf_placedS w hps hxs hk hpk (meetsUp_false w hcyc) (notp_of_nameS w hk hnm) hnm
    (List.perm_append_singleton x (h.node p).secs)

theorem wf_appendedP {h : H} (w : WF h) {p x : Nat} (hps : p < h.size) (hxs : x < h.size)
    (hk : (h.node x).kind = .prop) (hpk : (h.node p).kind = .sec)
    (hnm : nameIn h (h.node p).props (h.node x).name = false) : WF (appendedP h p x) :=
  wf_placedP w hps hxs hk hpk (notp_of_nameP w hk hnm) hnm
    (List.perm_append_singleton x (h.node p).props)

/-- `adopt` after the object was put into a list of `p` (general list update `f` at `p`):
    on a well-formed `h` it succeeds and yields detach-then-attach. -/
theorem adopt_after_list_update {h : H} (w : WF h) {p x : Nat} (ls lp : List Nat)
    (hxp : x ≠ p) (hnotp : (h.node x).parent ≠ some p) (hkx : (h.node x).kind ≠ .doc) :
    adopt (upd h p (fun n => { n with secs := ls, props := lp })) p x =
      some (attach (detachIf h x) p x ls lp) := by
  unfold adopt
  have hx1 : ((upd h p (fun n => { n with secs := ls, props := lp })).node x) = h.node x := by
    simp [upd, hxp]
  rw [hx1]
  cases hpar : (h.node x).parent with
  | none =>
    simp only
    congr 1
    refine H.ext' (fun j => ?_) (by rw [attach_size, detachIf_size]; rfl)
    unfold attach detachIf upd
    simp only [hpar]
  | some q =>
    have hqp : q ≠ p := fun e => hnotp (e ▸ hpar)
    have hqx : q ≠ x := w.parent_ne hpar
    simp only [hqp, if_false]
    -- removeChild in the updated heap
    have hrem : removeChild (upd h p (fun n => { n with secs := ls, props := lp })) q x =
        some (detach (upd h p (fun n => { n with secs := ls, props := lp })) q x) := by
      unfold removeChild
      rw [hx1]
      have hq1 : ((upd h p (fun n => { n with secs := ls, props := lp })).node q) = h.node q := by
        simp [upd, hqp]
      rw [hq1]
      rcases w.kind_of_parent hpar with hk | hk
      · have hm : x ∈ (h.node q).secs := (w.memS q x).mpr ⟨hpar, hk⟩
        have hnp : x ∉ (h.node q).props := by
          intro hm'; have := ((w.memP q x).mp hm').2; rw [hk] at this; cases this
        obtain ⟨i, hi⟩ := indexOf?_of_mem hm
        simp only [hk, hi]
        congr 1
        refine H.ext' (fun j => ?_) rfl
        unfold detach upd
        dsimp only
        by_cases h1 : j = x
        · subst h1; simp [hqx.symm]
        · by_cases h2 : j = q
          · subst h2; simp [h1, hqp, delAt_indexOf hi, List.erase_of_not_mem hnp]
          · simp [h1, h2]
      · have hm : x ∈ (h.node q).props := (w.memP q x).mpr ⟨hpar, hk⟩
        have hnp : x ∉ (h.node q).secs := by
          intro hm'; have := ((w.memS q x).mp hm').2; rw [hk] at this; cases this
        have hqk : (h.node q).kind = .sec := w.parP x q hpar hk
        obtain ⟨i, hi⟩ := indexOf?_of_mem hm
        simp only [hk, hi, hqk]
        simp only [show ¬ (Kind.sec = Kind.doc) by decide, if_false]
        congr 1
        refine H.ext' (fun j => ?_) rfl
        unfold detach upd
        dsimp only
        by_cases h1 : j = x
        · subst h1; simp [hqx.symm]
        · by_cases h2 : j = q
          · subst h2; simp [h1, hqp, delAt_indexOf hi, List.erase_of_not_mem hnp]
          · simp [h1, h2]
    rw [hrem]
    simp only
    congr 1
    refine H.ext' (fun j => ?_) (by rw [attach_size, detachIf_size]; rfl)
    unfold attach detachIf detach upd
    simp only [hpar]
    by_cases h1 : j = x
    · subst h1; simp [hxp, hqx.symm]
    · by_cases h2 : j = p
      · subst h2; simp [h1, hqp.symm]
      · by_cases h3 : j = q
        · subst h3; simp [h1, h2]
        · simp [h1, h2, h3]

theorem append_sec_unfold {h : H} {p x : Nat} (hkx : (h.node x).kind = .sec)
    (hpk : (h.node p).kind ≠ .prop) :
    append h p x =
      if cycleCheck h p x then (h, .raised .valueError)
      else if nameIn h (h.node p).secs (h.node x).name then (h, .raised .keyError)
      else
        match adopt (upd h p (fun n => { n with secs := n.secs ++ [x] })) p x with
        | some h2 => (h2, .ok)
        | none => (upd h p (fun n => { n with secs := n.secs ++ [x] }), .raised .valueError) := by
  unfold append
  cases hp : (h.node p).kind
  · simp only [hkx]; rfl
  · simp only [hkx]; rfl
  · exact absurd hp hpk

theorem append_prop_unfold {h : H} {p x : Nat} (hkx : (h.node x).kind = .prop)
    (hpk : (h.node p).kind = .sec) :
    append h p x =
      if nameIn h (h.node p).props (h.node x).name then (h, .raised .keyError)
      else
        match adopt (upd h p (fun n => { n with props := n.props ++ [x] })) p x with
        | some h2 => (h2, .ok)
        | none => (upd h p (fun n => { n with props := n.props ++ [x] }), .raised .valueError) := by
  unfold append
  simp only [hkx, hpk]; rfl

theorem append_refused_kinds {h : H} {p x : Nat}
    (hk : (h.node p).kind = .prop ∨ (h.node x).kind = .doc ∨
      ((h.node p).kind = .doc ∧ (h.node x).kind = .prop)) :
    ∃ e, append h p x = (h, .raised e) := by
  unfold append
  cases hp : (h.node p).kind <;> cases hx : (h.node x).kind <;> simp_all

/-- `append`: refused without any change, or the object is moved to the end of the list. -/
theorem append_spec {h : H} (w : WF h) {p x : Nat} (hps : p < h.size) (hxs : x < h.size) :
    (∃ e, append h p x = (h, .raised e)) ∨
    ((h.node x).kind = .sec ∧ (h.node p).kind ≠ .prop ∧ cycleCheck h p x = false ∧
      nameIn h (h.node p).secs (h.node x).name = false ∧ append h p x = (appendedS h p x, .ok)) ∨
    ((h.node x).kind = .prop ∧ (h.node p).kind = .sec ∧
      nameIn h (h.node p).props (h.node x).name = false ∧ append h p x = (appendedP h p x, .ok)) := by
  by_cases hpp : (h.node p).kind = .prop
  · exact Or.inl (append_refused_kinds (Or.inl hpp))
  cases hkx : (h.node x).kind with
  | doc => exact Or.inl (append_refused_kinds (Or.inr (Or.inl hkx)))
  | sec =>
    rw [append_sec_unfold hkx hpp]
    by_cases hcyc : cycleCheck h p x = true
    · simp only [hcyc, if_true]; exact Or.inl ⟨_, rfl⟩
    · have hcyc' : cycleCheck h p x = false := by simpa using hcyc
      simp only [hcyc', Bool.false_eq_true, if_false]
      by_cases hnm : nameIn h (h.node p).secs (h.node x).name = true
      · simp only [hnm, if_true]; exact Or.inl ⟨_, rfl⟩
      · have hnm' : nameIn h (h.node p).secs (h.node x).name = false := by simpa using hnm
        simp only [hnm', Bool.false_eq_true, if_false]
        have hanc : ¬ Anc h x p := meetsUp_false w hcyc'
        have hxp : x ≠ p := fun e => hanc (e ▸ Anc.refl _)
        have hnotp : (h.node x).parent ≠ some p := by
          intro hp
          have hm := (w.memS p x).mpr ⟨hp, hkx⟩
          exact (nameIn_false.mp hnm') x hm rfl
        have hup : (upd h p (fun n => { n with secs := n.secs ++ [x] })) =
            (upd h p (fun n => { n with secs := (h.node p).secs ++ [x], props := (h.node p).props })) := by
          refine H.ext' (fun j => ?_) rfl
          unfold upd; dsimp only; split
          · rename_i e; subst e; rfl
          · rfl
        rw [hup, adopt_after_list_update w _ _ hxp hnotp (by rw [hkx]; decide)]
        exact Or.inr (Or.inl ⟨trivial, hpp, trivial, trivial, rfl⟩)
  | prop =>
    by_cases hpd : (h.node p).kind = .doc
    · exact Or.inl (append_refused_kinds (Or.inr (Or.inr ⟨hpd, hkx⟩)))
    have hpk : (h.node p).kind = .sec := by
      cases hk : (h.node p).kind <;> simp_all
    rw [append_prop_unfold hkx hpk]
    by_cases hnm : nameIn h (h.node p).props (h.node x).name = true
    · simp only [hnm, if_true]; exact Or.inl ⟨_, rfl⟩
    · have hnm' : nameIn h (h.node p).props (h.node x).name = false := by simpa using hnm
      simp only [hnm', Bool.false_eq_true, if_false]
      have hxp : x ≠ p := by intro e; subst e; rw [hkx] at hpk; cases hpk
      have hnotp : (h.node x).parent ≠ some p := by
        intro hp
        have hm := (w.memP p x).mpr ⟨hp, hkx⟩
        exact (nameIn_false.mp hnm') x hm rfl
      have hup : (upd h p (fun n => { n with props := n.props ++ [x] })) =
          (upd h p (fun n => { n with secs := (h.node p).secs, props := (h.node p).props ++ [x] })) := by
        refine H.ext' (fun j => ?_) rfl
        unfold upd; dsimp only; split
        · rename_i e; subst e; rfl
        · rfl
      rw [hup, adopt_after_list_update w _ _ hxp hnotp (by rw [hkx]; decide)]
      exact Or.inr (Or.inr ⟨trivial, hpk, trivial, rfl⟩)

/-! ### `insert` -/

theorem insert_sec_unfold {h : H} {p x : Nat} {pos : Int} (hkx : (h.node x).kind = .sec)
    (hpk : (h.node p).kind ≠ .prop) :
    insert h p pos x =
      if nameIn h (h.node p).secs (h.node x).name then (h, .raised .valueError)
      else if cycleCheck h p x then (h, .raised .valueError)
      else
        match adopt (upd h p (fun n => { n with secs := pyInsert n.secs pos x })) p x with
        | some h2 => (h2, .ok)
        | none => (upd h p (fun n => { n with secs := pyInsert n.secs pos x }), .raised .valueError) := by
  unfold insert
  cases hp : (h.node p).kind
  · simp only [hkx]; rfl
  · simp only [hkx]; rfl
  · exact absurd hp hpk

theorem insert_prop_unfold {h : H} {p x : Nat} {pos : Int} (hkx : (h.node x).kind = .prop)
    (hpk : (h.node p).kind = .sec) :
    insert h p pos x =
      if nameIn h (h.node p).props (h.node x).name then (h, .raised .valueError)
      else
        match adopt (upd h p (fun n => { n with props := pyInsert n.props pos x })) p x with
        | some h2 => (h2, .ok)
        | none => (upd h p (fun n => { n with props := pyInsert n.props pos x }), .raised .valueError) := by
  unfold insert
  simp only [hkx, hpk]; rfl

theorem insert_refused_kinds {h : H} {p x : Nat} {pos : Int}
    (hk : (h.node p).kind = .prop ∨ (h.node x).kind = .doc ∨
      ((h.node p).kind = .doc ∧ (h.node x).kind = .prop)) :
    ∃ e, insert h p pos x = (h, .raised e) := by
  unfold insert
  cases hp : (h.node p).kind <;> cases hx : (h.node x).kind <;> simp_all

/-- `insert`: refused without any change, or the object is moved to the given position. -/
theorem insert_spec {h : H} (w : WF h) {p x : Nat} (pos : Int) (hps : p < h.size) (hxs : x < h.size) :
    (∃ e, insert h p pos x = (h, .raised e)) ∨
    (∃ h', insert h p pos x = (h', .ok) ∧ WF h') := by
  by_cases hpp : (h.node p).kind = .prop
  · exact Or.inl (insert_refused_kinds (Or.inl hpp))
  cases hkx : (h.node x).kind with
  | doc => exact Or.inl (insert_refused_kinds (Or.inr (Or.inl hkx)))
  | sec =>
    rw [insert_sec_unfold hkx hpp]
    by_cases hnm : nameIn h (h.node p).secs (h.node x).name = true
    · simp only [hnm, if_true]; exact Or.inl ⟨_, rfl⟩
    · have hnm' : nameIn h (h.node p).secs (h.node x).name = false := by simpa using hnm
      simp only [hnm', Bool.false_eq_true, if_false]
      by_cases hcyc : cycleCheck h p x = true
      · simp only [hcyc, if_true]; exact Or.inl ⟨_, rfl⟩
      · have hcyc' : cycleCheck h p x = false := by simpa using hcyc
        simp only [hcyc', Bool.false_eq_true, if_false]
        have hanc : ¬ Anc h x p := meetsUp_false w hcyc'
        have hxp : x ≠ p := fun e => hanc (e ▸ Anc.refl _)
        have hnotp := notp_of_nameS w hkx hnm'
        have hup : (upd h p (fun n => { n with secs := pyInsert n.secs pos x })) =
            (upd h p (fun n => { n with secs := pyInsert (h.node p).secs pos x, props := (h.node p).props })) := by
          refine H.ext' (fun j => ?_) rfl
          unfold upd; dsimp only; split
          · rename_i e; subst e; rfl
          · rfl
        rw [hup, adopt_after_list_update w _ _ hxp hnotp (by rw [hkx]; decide)]
        exact Or.inr ⟨_, rfl, wf_placedS w hps hxs hkx hpp hanc hnotp hnm' (pyInsert_perm _ _ _)⟩
  | prop =>
    by_cases hpd : (h.node p).kind = .doc
    · exact Or.inl (insert_refused_kinds (Or.inr (Or.inr ⟨hpd, hkx⟩)))
    have hpk : (h.node p).kind = .sec := by
      cases hk : (h.node p).kind <;> simp_all
    rw [insert_prop_unfold hkx hpk]
    by_cases hnm : nameIn h (h.node p).props (h.node x).name = true
    · simp only [hnm, if_true]; exact Or.inl ⟨_, rfl⟩
    · have hnm' : nameIn h (h.node p).props (h.node x).name = false := by simpa using hnm
      simp only [hnm', Bool.false_eq_true, if_false]
      have hxp : x ≠ p := by intro e; subst e; rw [hkx] at hpk; cases hpk
      have hnotp := notp_of_nameP w hkx hnm'
      have hup : (upd h p (fun n => { n with props := pyInsert n.props pos x })) =
          (upd h p (fun n => { n with secs := (h.node p).secs, props := pyInsert (h.node p).props pos x })) := by
        refine H.ext' (fun j => ?_) rfl
        unfold upd; dsimp only; split
        · rename_i e; subst e; rfl
        · rfl
      rw [hup, adopt_after_list_update w _ _ hxp hnotp (by rw [hkx]; decide)]
      exact Or.inr ⟨_, rfl, wf_placedP w hps hxs hkx hpk hnotp hnm' (pyInsert_perm _ _ _)⟩

/-- `append` in the same shape. -/
theorem append_wf {h : H} (w : WF h) {p x : Nat} (hps : p < h.size) (hxs : x < h.size) :
    (∃ e, append h p x = (h, .raised e)) ∨ (∃ h', append h p x = (h', .ok) ∧ WF h') := by
  rcases append_spec w hps hxs with h1 | ⟨hk, hpk, hc, hn, he⟩ | ⟨hk, hpk, hn, he⟩
  · exact Or.inl h1
  · exact Or.inr ⟨_, he, wf_appendedS w hps hxs hk hpk hc hn⟩
  · exact Or.inr ⟨_, he, wf_appendedP w hps hxs hk hpk hn⟩

/-! ### The cycle check is exact on a well-formed heap (fuel `size + 1` is enough) -/

theorem length_le_of_nodup_lt {l : List Nat} {n : Nat} (hl : l.Nodup) (hb : ∀ x ∈ l, x < n) :
    l.length ≤ n := by
  induction n generalizing l with
  | zero =>
    cases l with
    | nil => simp
    | cons a _ => exact absurd (hb a (List.mem_cons_self)) (Nat.not_lt_zero _)
  | succ n ih =>
    have h1 : (l.erase n).Nodup := hl.erase n
    have h2 : ∀ x ∈ l.erase n, x < n := by
      intro x hx
      have := (hl.mem_erase_iff).mp hx
      have := hb x this.2
      omega
    have h3 := ih h1 h2
    have h4 := List.length_erase_le (a := n) (l := l)
    by_cases hm : n ∈ l
    · rw [List.length_erase_of_mem hm] at h3; omega
    · rw [List.erase_of_not_mem hm] at h3; omega

theorem meetsUp_exact_aux {h : H} (w : WF h) (d : Nat → Nat)
    (hd : ∀ c p, (h.node c).parent = some p → d p < d c) (obj : Nat) :
    ∀ (fuel cur : Nat) (seen : List Nat), seen.Nodup → (∀ s ∈ seen, s < h.size) →
      (∀ s ∈ seen, d cur < d s) → cur < h.size → h.size + 1 ≤ seen.length + fuel →
      ¬ Anc h obj cur → meetsUp h fuel (some cur) obj = false := by
  intro fuel
  induction fuel with
  | zero =>
    intro cur seen hn hb _ _ hlen _
    have := length_le_of_nodup_lt hn hb
    omega
  | succ fuel ih =>
    intro cur seen hn hb hdl hc hlen hanc
    simp only [meetsUp]
    have hne : cur ≠ obj := fun e => hanc (e ▸ Anc.refl _)
    simp only [hne, if_false]
    by_cases hk : (h.node cur).kind = .doc
    · simp only [hk, if_true]; cases fuel <;> rfl
    · simp only [hk, if_false]
      cases hp : (h.node cur).parent with
      | none => cases fuel <;> rfl
      | some p =>
        have hlt := hd cur p hp
        apply ih p (cur :: seen)
        · refine List.nodup_cons.mpr ⟨?_, hn⟩
          intro hm; have := hdl cur hm; omega
        · intro s hs
          rcases List.mem_cons.mp hs with e | e
          · rw [e]; exact hc
          · exact hb s e
        · intro s hs
          rcases List.mem_cons.mp hs with e | e
          · rw [e]; exact hlt
          · have := hdl s e; omega
        · exact w.parent_lt hp
        · simp only [List.length_cons]; omega
        · exact fun ha => hanc (Anc.step hp ha)

theorem cycleCheck_exact {h : H} (w : WF h) {p x : Nat} (hps : p < h.size) (hanc : ¬ Anc h x p) :
    cycleCheck h p x = false := by
  obtain ⟨d, hd⟩ := w.rank
  unfold cycleCheck
  exact meetsUp_exact_aux w d hd x (h.size + 1) p [] List.nodup_nil (by simp) (by simp) hps
    (by simp) hanc

/-- An object is not an ancestor of its own parent. -/
theorem not_anc_parent {h : H} (w : WF h) {x p : Nat} (hp : (h.node x).parent = some p) :
    ¬ Anc h x p := by
  obtain ⟨d, hd⟩ := w.rank
  intro ha
  have := Anc.rank_le hd ha
  have := hd x p hp
  omega

theorem meetsUp_congr {h h' : H}
    (hsame : ∀ i, (h'.node i).kind = (h.node i).kind ∧ (h'.node i).parent = (h.node i).parent)
    (fuel : Nat) (cur : Option Nat) (obj : Nat) :
    meetsUp h' fuel cur obj = meetsUp h fuel cur obj := by
  induction fuel generalizing cur with
  | zero => cases cur <;> rfl
  | succ fuel ih =>
    cases cur with
    | none => rfl
    | some c =>
      simp only [meetsUp]
      rw [(hsame c).1, (hsame c).2]
      split
      · rfl
      · exact ih _

/-! ### `parent` setter -/

/-- `p.append(x)` right after `x._parent = p` was written (the parent setter's last two
    statements), for a detached Section `x`. -/
theorem append_marked_sec {g : H} (w : WF g) {p x : Nat} (hx : (g.node x).parent = none)
    (hk : (g.node x).kind = .sec) (hpk : (g.node p).kind ≠ .prop) (hps : p < g.size)
    (hxs : x < g.size) (hanc : ¬ Anc g x p)
    (hnm : nameIn g (g.node p).secs (g.node x).name = false) :
    append (upd g x (fun n => { n with parent := some p })) p x =
      (attach g p x ((g.node p).secs ++ [x]) (g.node p).props, .ok) ∧
    WF (attach g p x ((g.node p).secs ++ [x]) (g.node p).props) := by
  have hxp : x ≠ p := fun e => hanc (e ▸ Anc.refl _)
  have hwf : WF (attach g p x ((g.node p).secs ++ [x]) (g.node p).props) :=
    wf_attachS w hx hk hpk hanc hxs hps (nameIn_false.mp hnm)
      (List.perm_append_singleton x _) rfl
  refine ⟨?_, hwf⟩
  -- the marked heap
  have hnode : ∀ j, j ≠ x → (upd g x (fun n => { n with parent := some p })).node j = g.node j := by
    intro j hj; simp [upd, hj]
  have hnodex : (upd g x (fun n => { n with parent := some p })).node x =
      { g.node x with parent := some p } := by simp [upd]
  have hkx2 : ((upd g x (fun n => { n with parent := some p })).node x).kind = .sec := by
    rw [hnodex]; exact hk
  have hpk2 : ((upd g x (fun n => { n with parent := some p })).node p).kind ≠ .prop := by
    rw [hnode p (Ne.symm hxp)]; exact hpk
  rw [append_sec_unfold hkx2 hpk2]
  have hc0 : cycleCheck g p x = false := cycleCheck_exact w hps hanc
  have hcyc : cycleCheck (upd g x (fun n => { n with parent := some p })) p x = false := by
    unfold cycleCheck at hc0 ⊢
    rw [upd_size, meetsUp_frame (z := x) _ hc0]; exact hc0
    intro i hi; rw [hnode i hi]; exact ⟨rfl, rfl⟩
  have hnm2 : nameIn (upd g x (fun n => { n with parent := some p }))
      ((upd g x (fun n => { n with parent := some p })).node p).secs
      ((upd g x (fun n => { n with parent := some p })).node x).name = false := by
    rw [hnode p (Ne.symm hxp), hnodex]
    rw [nameIn_false] at hnm ⊢
    intro c hc
    by_cases hcx : c = x
    · subst hcx
      have := ((w.memS p c).mp hc).1; rw [hx] at this; cases this
    · rw [hnode c hcx]; exact hnm c hc
  simp only [hcyc, hnm2, Bool.false_eq_true, if_false]
  -- adopt: the object already reports p
  have had : adopt (upd (upd g x (fun n => { n with parent := some p })) p
      (fun n => { n with secs := n.secs ++ [x] })) p x =
      some (attach g p x ((g.node p).secs ++ [x]) (g.node p).props) := by
    unfold adopt
    have : ((upd (upd g x (fun n => { n with parent := some p })) p
        (fun n => { n with secs := n.secs ++ [x] })).node x).parent = some p := by
      simp [upd, hxp]
    rw [this]
    simp only [if_true]
    congr 1
    refine H.ext' (fun j => ?_) rfl
    unfold attach upd
    by_cases h1 : j = x
    · subst h1; simp [hxp]
    · by_cases h2 : j = p
      · subst h2; simp [h1]
      · simp [h1, h2]
  rw [had]

/-- The same for a detached Property `x`. -/
theorem append_marked_prop {g : H} (w : WF g) {p x : Nat} (hx : (g.node x).parent = none)
    (hk : (g.node x).kind = .prop) (hpk : (g.node p).kind = .sec) (hps : p < g.size)
    (hxs : x < g.size)
    (hnm : nameIn g (g.node p).props (g.node x).name = false) :
    append (upd g x (fun n => { n with parent := some p })) p x =
      (attach g p x (g.node p).secs ((g.node p).props ++ [x]), .ok) ∧
    WF (attach g p x (g.node p).secs ((g.node p).props ++ [x])) := by
  have hxp : x ≠ p := by intro e; subst e; rw [hk] at hpk; cases hpk
  have hwf : WF (attach g p x (g.node p).secs ((g.node p).props ++ [x])) :=
    wf_attachP w hx hk hpk hxs hps (nameIn_false.mp hnm)
      (List.perm_append_singleton x _) rfl
  refine ⟨?_, hwf⟩
  have hnode : ∀ j, j ≠ x → (upd g x (fun n => { n with parent := some p })).node j = g.node j := by
    intro j hj; simp [upd, hj]
  have hnodex : (upd g x (fun n => { n with parent := some p })).node x =
      { g.node x with parent := some p } := by simp [upd]
  have hkx2 : ((upd g x (fun n => { n with parent := some p })).node x).kind = .prop := by
    rw [hnodex]; exact hk
  have hpk2 : ((upd g x (fun n => { n with parent := some p })).node p).kind = .sec := by
    rw [hnode p (Ne.symm hxp)]; exact hpk
  rw [append_prop_unfold hkx2 hpk2]
  have hnm2 : nameIn (upd g x (fun n => { n with parent := some p }))
      ((upd g x (fun n => { n with parent := some p })).node p).props
      ((upd g x (fun n => { n with parent := some p })).node x).name = false := by
    rw [hnode p (Ne.symm hxp), hnodex]
    rw [nameIn_false] at hnm ⊢
    intro c hc
    by_cases hcx : c = x
    · subst hcx
      have := ((w.memP p c).mp hc).1; rw [hx] at this; cases this
    · rw [hnode c hcx]; exact hnm c hc
  simp only [hnm2, Bool.false_eq_true, if_false]
  have had : adopt (upd (upd g x (fun n => { n with parent := some p })) p
      (fun n => { n with props := n.props ++ [x] })) p x =
      some (attach g p x (g.node p).secs ((g.node p).props ++ [x])) := by
    unfold adopt
    have : ((upd (upd g x (fun n => { n with parent := some p })) p
        (fun n => { n with props := n.props ++ [x] })).node x).parent = some p := by
      simp [upd, hxp]
    rw [this]
    simp only [if_true]
    congr 1
    refine H.ext' (fun j => ?_) rfl
    unfold attach upd
    by_cases h1 : j = x
    · subst h1; simp [hxp]
    · by_cases h2 : j = p
      · subst h2; simp [h1]
      · simp [h1, h2]
  rw [had]

theorem removeChild_detachIf {h : H} (w : WF h) {q x : Nat} (hx : (h.node x).parent = some q) :
    removeChild h q x = some (detachIf h x) := by
  rw [removeChild_some w hx]; unfold detachIf; rw [hx]

/-- names of the other children of the current parent differ from the object's name -/
theorem nameIn_erase_self_S {h : H} (w : WF h) {p x : Nat} (hp : (h.node x).parent = some p)
    (hk : (h.node x).kind = .sec) :
    nameIn h ((h.node p).secs.erase x) (h.node x).name = false := by
  rw [nameIn_false]
  intro c hc hn
  have hc' := (w.nodupS p).mem_erase_iff.mp hc
  have hx' := (w.memS p x).mpr ⟨hp, hk⟩
  exact hc'.1 (w.namesS p c x hc'.2 hx' hn)

theorem nameIn_erase_self_P {h : H} (w : WF h) {p x : Nat} (hp : (h.node x).parent = some p)
    (hk : (h.node x).kind = .prop) :
    nameIn h ((h.node p).props.erase x) (h.node x).name = false := by
  rw [nameIn_false]
  intro c hc hn
  have hc' := (w.nodupP p).mem_erase_iff.mp hc
  have hx' := (w.memP p x).mpr ⟨hp, hk⟩
  exact hc'.1 (w.namesP p c x hc'.2 hx' hn)

theorem nameIn_congr {h h' : H} {l : List Nat} {name : String}
    (hn : ∀ c ∈ l, (h'.node c).name = (h.node c).name) : nameIn h' l name = nameIn h l name := by
  unfold nameIn
  induction l with
  | nil => rfl
  | cons a t ih =>
    simp only [List.any_cons]
    rw [hn a (List.mem_cons_self), ih (fun c hc => hn c (List.mem_cons_of_mem _ hc))]

/-- `x.parent = np`: refused without any change, or a well-formed heap results. -/
theorem setParent_spec {h : H} (w : WF h) {x : Nat} (np : Option Nat) (hxs : x < h.size)
    (hnp : ∀ p, np = some p → p < h.size) :
    (∃ e, setParent h x np = (h, .raised e)) ∨ (∃ h', setParent h x np = (h', .ok) ∧ WF h') := by
  unfold setParent
  by_cases hkd : (h.node x).kind = .doc
  · simp only [hkd, if_true]; exact Or.inl ⟨_, rfl⟩
  simp only [hkd, if_false]
  cases np with
  | none =>
    cases hpar : (h.node x).parent with
    | none => exact Or.inr ⟨h, rfl, w⟩
    | some q =>
      simp only [removeChild_some w hpar]
      exact Or.inr ⟨_, rfl, wf_detach w hpar⟩
  | some p =>
    have hps := hnp p rfl
    simp only
    by_cases hval : ((h.node p).kind = .prop || ((h.node x).kind = .prop && (h.node p).kind = .doc)) = true
    · simp only [hval, if_true]; exact Or.inl ⟨_, rfl⟩
    simp only [hval, if_false]
    have hpk : (h.node p).kind ≠ .prop := by
      intro e; apply hval; simp [e]
    rcases (show (h.node x).kind = .sec ∨ (h.node x).kind = .prop by
      cases hk : (h.node x).kind <;> simp_all) with hk | hk
    · -- Section
      simp only [hk, if_true, show (Kind.sec = Kind.sec) = True from by simp]
      by_cases hsame : (h.node x).parent = some p
      · -- re-assigning the current parent: moved to the end
        simp only [hsame, ne_eq, not_true_eq_false, decide_false, Bool.false_and, Bool.false_eq_true,
          if_false]
        rw [removeChild_detachIf w hsame]
        simp only
        have wg := wf_detachIf w x
        have hgx : ((detachIf h x).node x).parent = none := by rw [detachIf_parent]; simp
        have hanc : ¬ Anc (detachIf h x) x p := fun ha => not_anc_parent w hsame (Anc.of_detachIf ha)
        have hnm : nameIn (detachIf h x) ((detachIf h x).node p).secs ((detachIf h x).node x).name = false := by
          have : ((detachIf h x).node p).secs = (h.node p).secs.erase x := by
            unfold detachIf; rw [hsame]; simp only; rw [detach_secs]; simp
          rw [this, detachIf_name, nameIn_congr (h := h) (fun c _ => detachIf_name h x c)]
          exact nameIn_erase_self_S w hsame hk
        have := append_marked_sec wg hgx (by rw [detachIf_kind]; exact hk)
          (by rw [detachIf_kind]; exact hpk) (by rw [detachIf_size]; exact hps)
          (by rw [detachIf_size]; exact hxs) hanc hnm
        rw [this.1]
        exact Or.inr ⟨_, rfl, this.2⟩
      · have hne : ((h.node x).parent ≠ some p) = True := by simp [hsame]
        simp only [ne_eq, hsame, not_false_eq_true, decide_true, Bool.true_and]
        by_cases hclash : nameIn h (h.node p).secs (h.node x).name = true
        · simp only [hclash, if_true]; exact Or.inl ⟨_, rfl⟩
        have hclash' : nameIn h (h.node p).secs (h.node x).name = false := by simpa using hclash
        simp only [hclash', Bool.false_eq_true, if_false]
        by_cases hcyc : cycleCheck h p x = true
        · simp only [hcyc, if_true]; exact Or.inl ⟨_, rfl⟩
        have hcyc' : cycleCheck h p x = false := by simpa using hcyc
        simp only [hcyc', Bool.false_eq_true, if_false]
        have hanc0 : ¬ Anc h x p := meetsUp_false w hcyc'
        have wg := wf_detachIf w x
        have hgx : ((detachIf h x).node x).parent = none := by rw [detachIf_parent]; simp
        have hanc : ¬ Anc (detachIf h x) x p := fun ha => hanc0 (Anc.of_detachIf ha)
        have hnm : nameIn (detachIf h x) ((detachIf h x).node p).secs ((detachIf h x).node x).name = false := by
          rw [detachIf_secs h x p hsame, detachIf_name, nameIn_congr (h := h) (fun c _ => detachIf_name h x c)]
          exact hclash'
        have hmark := append_marked_sec wg hgx (by rw [detachIf_kind]; exact hk)
          (by rw [detachIf_kind]; exact hpk) (by rw [detachIf_size]; exact hps)
          (by rw [detachIf_size]; exact hxs) hanc hnm
        cases hpar : (h.node x).parent with
        | none =>
          have hd : detachIf h x = h := by unfold detachIf; rw [hpar]
          simp only
          rw [hd] at hmark
          rw [hmark.1]; exact Or.inr ⟨_, rfl, hmark.2⟩
        | some q =>
          simp only [removeChild_detachIf w hpar]
          rw [hmark.1]; exact Or.inr ⟨_, rfl, hmark.2⟩
    · -- Property
      have hpsec : (h.node p).kind = .sec := by
        cases hkp : (h.node p).kind
        · exfalso; apply hval; simp [hk, hkp]
        · rfl
        · exact absurd hkp hpk
      simp only [hk, show (Kind.prop = Kind.sec) = False from by simp, if_false, decide_false,
        Bool.false_and, Bool.and_false]
      by_cases hsame : (h.node x).parent = some p
      · simp only [hsame, ne_eq, not_true_eq_false, decide_false, Bool.false_and, Bool.false_eq_true,
          if_false]
        rw [removeChild_detachIf w hsame]
        simp only
        have wg := wf_detachIf w x
        have hgx : ((detachIf h x).node x).parent = none := by rw [detachIf_parent]; simp
        have hnm : nameIn (detachIf h x) ((detachIf h x).node p).props ((detachIf h x).node x).name = false := by
          have : ((detachIf h x).node p).props = (h.node p).props.erase x := by
            unfold detachIf; rw [hsame]; simp only; rw [detach_props]; simp
          rw [this, detachIf_name, nameIn_congr (h := h) (fun c _ => detachIf_name h x c)]
          exact nameIn_erase_self_P w hsame hk
        have := append_marked_prop wg hgx (by rw [detachIf_kind]; exact hk)
          (by rw [detachIf_kind]; exact hpsec) (by rw [detachIf_size]; exact hps)
          (by rw [detachIf_size]; exact hxs) hnm
        rw [this.1]
        exact Or.inr ⟨_, rfl, this.2⟩
      · simp only [ne_eq, hsame, not_false_eq_true, decide_true, Bool.true_and]
        by_cases hclash : nameIn h (h.node p).props (h.node x).name = true
        · simp only [hclash, if_true]; exact Or.inl ⟨_, rfl⟩
        have hclash' : nameIn h (h.node p).props (h.node x).name = false := by simpa using hclash
        simp only [hclash', Bool.false_eq_true, if_false]
        have wg := wf_detachIf w x
        have hgx : ((detachIf h x).node x).parent = none := by rw [detachIf_parent]; simp
        have hnm : nameIn (detachIf h x) ((detachIf h x).node p).props ((detachIf h x).node x).name = false := by
          rw [detachIf_props h x p hsame, detachIf_name, nameIn_congr (h := h) (fun c _ => detachIf_name h x c)]
          exact hclash'
        have hmark := append_marked_prop wg hgx (by rw [detachIf_kind]; exact hk)
          (by rw [detachIf_kind]; exact hpsec) (by rw [detachIf_size]; exact hps)
          (by rw [detachIf_size]; exact hxs) hnm
        cases hpar : (h.node x).parent with
        | none =>
          have hd : detachIf h x = h := by unfold detachIf; rw [hpar]
          simp only
          rw [hd] at hmark
          rw [hmark.1]; exact Or.inr ⟨_, rfl, hmark.2⟩
        | some q =>
          simp only [removeChild_detachIf w hpar]
          rw [hmark.1]; exact Or.inr ⟨_, rfl, hmark.2⟩

/-! ### `reorder` -/

theorem reorder_spec {h : H} (w : WF h) (x : Nat) (ni : Int) :
    (∃ e, reorder h x ni = (h, .raised e)) ∨ (∃ h', reorder h x ni = (h', .ok) ∧ WF h') := by
  unfold reorder
  split
  · exact Or.inl ⟨_, rfl⟩
  · split
    · exact Or.inl ⟨_, rfl⟩
    · rename_i p hp
      split
      · exact Or.inl ⟨_, rfl⟩
      · split
        · split
          · exact Or.inl ⟨_, rfl⟩
          · rename_i l hl
            exact Or.inr ⟨_, rfl, wf_permS w (reorderList_perm hl)⟩
        · split
          · exact Or.inl ⟨_, rfl⟩
          · split
            · exact Or.inl ⟨_, rfl⟩
            · rename_i l hl
              exact Or.inr ⟨_, rfl, wf_permP w (reorderList_perm hl)⟩

/-! ### `name` setter -/

theorem rename_spec {h : H} (w : WF h) {x : Nat} (new : String) (hxs : x < h.size) :
    (∃ e, rename h x new = (h, .raised e)) ∨ (∃ h', rename h x new = (h', .ok) ∧ WF h') := by
  unfold rename
  by_cases hkd : (h.node x).kind = .doc
  · simp only [hkd, if_true]; exact Or.inl ⟨_, rfl⟩
  simp only [hkd, if_false]
  by_cases hsame : (h.node x).name = new
  · simp only [hsame, if_true]; exact Or.inr ⟨h, rfl, w⟩
  simp only [hsame, if_false]
  generalize (if new = "" then (h.node x).id else new) = new'
  by_cases hc2 : (decide (new = "") && decide ((h.node x).name = new')) = true
  · simp only [hc2, if_true]; exact Or.inr ⟨h, rfl, w⟩
  simp only [hc2, if_false]
  cases hpar : (h.node x).parent with
  | none =>
    simp only [Bool.false_eq_true, if_false]
    refine Or.inr ⟨_, rfl, wf_rename w hxs ?_ ?_⟩
    · intro _ p hp; rw [hpar] at hp; cases hp
    · intro _ p hp; rw [hpar] at hp; cases hp
  | some p =>
    simp only
    rcases (show (h.node x).kind = .sec ∨ (h.node x).kind = .prop by
      cases hk : (h.node x).kind <;> simp_all) with hk | hk
    · simp only [hk, if_true]
      by_cases hcl : nameIn h (h.node p).secs new' = true
      · simp only [hcl, if_true]; exact Or.inl ⟨_, rfl⟩
      · have hcl' : nameIn h (h.node p).secs new' = false := by simpa using hcl
        simp only [hcl', Bool.false_eq_true, if_false]
        refine Or.inr ⟨_, rfl, wf_rename w hxs ?_ ?_⟩
        · intro _ q hq c hc _
          rw [hpar] at hq; cases hq
          exact (nameIn_false.mp hcl') c hc
        · intro hk2; rw [hk] at hk2; cases hk2
    · have hpk : (h.node p).kind = .sec := w.parP x p hpar hk
      simp only [hk, hpk, show (Kind.prop = Kind.sec) = False from by simp,
        show (Kind.sec = Kind.doc) = False from by simp, if_false]
      by_cases hcl : nameIn h (h.node p).props new' = true
      · simp only [hcl, if_true]; exact Or.inl ⟨_, rfl⟩
      · have hcl' : nameIn h (h.node p).props new' = false := by simpa using hcl
        simp only [hcl', Bool.false_eq_true, if_false]
        refine Or.inr ⟨_, rfl, wf_rename w hxs ?_ ?_⟩
        · intro hk2; rw [hk] at hk2; cases hk2
        · intro _ q hq c hc _
          rw [hpar] at hq; cases hq
          exact (nameIn_false.mp hcl') c hc

/-! ### Constructors -/

theorem construct_spec {h : H} (w : WF h) (k : Kind) (name id : String) (parent : Option Nat)
    (argsOk : Bool) (hp : ∀ p, parent = some p → p < h.size) :
    (∃ e, construct h k name id parent argsOk = (h, .raised e)) ∨
    (∃ h', construct h k name id parent argsOk = (h', .ok) ∧ WF h') := by
  unfold construct
  split
  · exact Or.inl ⟨_, rfl⟩
  · have wa := wf_alloc w k name id
    have hx : (alloc h k name id).2 = h.size := rfl
    have hsz : (alloc h k name id).1.size = h.size + 1 := rfl
    simp only
    split
    · exact Or.inr ⟨_, rfl, wa⟩
    · exact Or.inr ⟨_, rfl, wa⟩
    · rename_i p _
      have hps := hp p rfl
      rcases setParent_spec wa (x := h.size) (some p) (by rw [hsz]; omega)
        (by intro q hq; cases hq; rw [hsz]; omega) with ⟨e, he⟩ | ⟨h', he, wh⟩
      · rw [hx, he]; exact Or.inl ⟨_, rfl⟩
      · rw [hx, he]; exact Or.inr ⟨_, rfl, wh⟩

/-! ### `extend` -/

/-- What the checking loop of `extend` establishes for the remaining entries, stated on the
    current heap. -/
def ExtOk (g : H) (p : Nat) : List Nat → Prop
  | [] => True
  | x :: xs =>
    x < g.size ∧
    (((g.node x).kind = .sec ∧ nameIn g (g.node p).secs (g.node x).name = false ∧
        cycleCheck g p x = false ∧
        ∀ y ∈ xs, (g.node y).kind = .sec → (g.node y).name ≠ (g.node x).name) ∨
     ((g.node x).kind = .prop ∧ (g.node p).kind = .sec ∧
        nameIn g (g.node p).props (g.node x).name = false ∧
        ∀ y ∈ xs, (g.node y).kind = .prop → (g.node y).name ≠ (g.node x).name)) ∧
    ExtOk g p xs

theorem extendCheck_ok {h : H} {p : Nat} (hpk : (h.node p).kind ≠ .prop) :
    ∀ (xs : List Nat) (sn pn : List String), (∀ x ∈ xs, x < h.size) →
      extendCheck h p xs sn pn = none →
      ExtOk h p xs ∧
      (∀ x ∈ xs, (h.node x).kind = .sec → (h.node x).name ∉ sn) ∧
      (∀ x ∈ xs, (h.node x).kind = .prop → (h.node x).name ∉ pn) := by
  intro xs
  induction xs with
  | nil => intro sn pn _ _; exact ⟨trivial, by simp, by simp⟩
  | cons x xs ih =>
    intro sn pn hlt hc
    have hxlt := hlt x (List.mem_cons_self)
    have hlt' : ∀ y ∈ xs, y < h.size := fun y hy => hlt y (List.mem_cons_of_mem _ hy)
    simp only [extendCheck] at hc
    cases hk : (h.node x).kind with
    | doc => simp [hk] at hc
    | sec =>
      simp only [hk] at hc
      by_cases h1 : (nameIn h (h.node p).secs (h.node x).name || sn.contains (h.node x).name) = true
      · have h1' : (nameIn h (h.node p).secs (h.node x).name = true ∨ (h.node x).name ∈ sn) := by
          simpa using h1
        simp [h1'] at hc
      · simp only [h1, if_false] at hc
        by_cases h2 : cycleCheck h p x = true
        · simp [h2] at hc
        · simp only [h2, if_false] at hc
          obtain ⟨ok, hs, hp'⟩ := ih _ _ hlt' hc
          simp only [Bool.or_eq_true, not_or, Bool.not_eq_true] at h1
          refine ⟨⟨hxlt, Or.inl ⟨hk, h1.1, by simpa using h2, ?_⟩, ok⟩, ?_, ?_⟩
          · intro y hy hky hn
            exact hs y hy hky (hn ▸ List.mem_cons_self)
          · intro y hy hky
            rcases List.mem_cons.mp hy with e | e
            · subst e; simpa using h1.2
            · exact fun hm => hs y e hky (List.mem_cons_of_mem _ hm)
          · intro y hy hky
            rcases List.mem_cons.mp hy with e | e
            · subst e; rw [hk] at hky; cases hky
            · exact hp' y e hky
    | prop =>
      simp only [hk] at hc
      by_cases h0 : (h.node p).kind = .doc
      · simp [h0] at hc
      · simp only [h0, if_false] at hc
        have hpsec : (h.node p).kind = .sec := by
          cases hkp : (h.node p).kind <;> simp_all
        by_cases h1 : (nameIn h (h.node p).props (h.node x).name || pn.contains (h.node x).name) = true
        · have h1' : (nameIn h (h.node p).props (h.node x).name = true ∨ (h.node x).name ∈ pn) := by
            simpa using h1
          simp [h1'] at hc
        · simp only [h1, if_false] at hc
          obtain ⟨ok, hs, hp'⟩ := ih _ _ hlt' hc
          simp only [Bool.or_eq_true, not_or, Bool.not_eq_true] at h1
          refine ⟨⟨hxlt, Or.inr ⟨hk, hpsec, h1.1, ?_⟩, ok⟩, ?_, ?_⟩
          · intro y hy hky hn
            exact hp' y hy hky (hn ▸ List.mem_cons_self)
          · intro y hy hky
            rcases List.mem_cons.mp hy with e | e
            · subst e; rw [hk] at hky; cases hky
            · exact hs y e hky
          · intro y hy hky
            rcases List.mem_cons.mp hy with e | e
            · subst e; simpa using h1.2
            · exact fun hm => hp' y e hky (List.mem_cons_of_mem _ hm)

/-- Field-level description of a successful append, enough to re-establish `ExtOk`. -/
theorem attach_detachIf_fields {h : H} {p x : Nat} {ls lp : List Nat} :
    (∀ c, ((attach (detachIf h x) p x ls lp).node c).kind = (h.node c).kind) ∧
    (∀ c, ((attach (detachIf h x) p x ls lp).node c).name = (h.node c).name) ∧
    (∀ c, c ≠ x → ((attach (detachIf h x) p x ls lp).node c).parent = (h.node c).parent) ∧
    ((attach (detachIf h x) p x ls lp).node p).secs = ls ∧
    ((attach (detachIf h x) p x ls lp).node p).props = lp ∧
    (attach (detachIf h x) p x ls lp).size = h.size := by
  refine ⟨?_, ?_, ?_, ?_, ?_, ?_⟩
  · intro c; rw [attach_kind, detachIf_kind]
  · intro c; rw [attach_name, detachIf_name]
  · intro c hc; rw [attach_parent, detachIf_parent]; simp [hc]
  · rw [attach_secs]; simp
  · rw [attach_props]; simp
  · rw [attach_size, detachIf_size]

theorem nameIn_append {h : H} {l : List Nat} {x : Nat} {name : String} :
    nameIn h (l ++ [x]) name = (nameIn h l name || ((h.node x).name == name)) := by
  simp [nameIn]

theorem extOk_transfer {g g' : H} {p x : Nat} (wg : WF g)
    (hkind : ∀ c, (g'.node c).kind = (g.node c).kind)
    (hname : ∀ c, (g'.node c).name = (g.node c).name)
    (hpar : ∀ c, c ≠ x → (g'.node c).parent = (g.node c).parent)
    (hsize : g'.size = g.size) (hps : p < g.size)
    (hwalk : cycleCheck g p x = false)
    (hsecs : (g'.node p).secs = (g.node p).secs ∨
      ((g.node x).kind = .sec ∧ (g'.node p).secs = (g.node p).secs ++ [x]))
    (hprops : (g'.node p).props = (g.node p).props ∨
      ((g.node x).kind = .prop ∧ (g'.node p).props = (g.node p).props ++ [x])) :
    ∀ xs, (∀ y ∈ xs, (g.node y).kind = (g.node x).kind → (g.node y).name ≠ (g.node x).name) →
      ExtOk g p xs → ExtOk g' p xs := by
  intro xs
  induction xs with
  | nil => intro _ _; trivial
  | cons y ys ih =>
    intro hdist hok
    obtain ⟨hylt, hcase, hrest⟩ := hok
    have hdist' : ∀ z ∈ ys, (g.node z).kind = (g.node x).kind → (g.node z).name ≠ (g.node x).name :=
      fun z hz => hdist z (List.mem_cons_of_mem _ hz)
    refine ⟨by rw [hsize]; exact hylt, ?_, ih hdist' hrest⟩
    have hnmS : ∀ name, (g.node x).name ≠ name ∨ (g.node x).kind ≠ .sec →
        nameIn g (g.node p).secs name = false → nameIn g' (g'.node p).secs name = false := by
      intro name hne hf
      rw [nameIn_congr (h := g) (fun c _ => hname c)]
      rcases hsecs with e | ⟨hkx, e⟩
      · rw [e]; exact hf
      · rw [e, nameIn_append, hf]
        rcases hne with hne | hne
        · simpa using hne
        · exact absurd hkx hne
    have hnmP : ∀ name, (g.node x).name ≠ name ∨ (g.node x).kind ≠ .prop →
        nameIn g (g.node p).props name = false → nameIn g' (g'.node p).props name = false := by
      intro name hne hf
      rw [nameIn_congr (h := g) (fun c _ => hname c)]
      rcases hprops with e | ⟨hkx, e⟩
      · rw [e]; exact hf
      · rw [e, nameIn_append, hf]
        rcases hne with hne | hne
        · simpa using hne
        · exact absurd hkx hne
    rcases hcase with ⟨hk, hnm, hcyc, hd⟩ | ⟨hk, hpk, hnm, hd⟩
    · refine Or.inl ⟨by rw [hkind]; exact hk, ?_, ?_, ?_⟩
      · rw [hname y]
        apply hnmS _ _ hnm
        by_cases hkx : (g.node x).kind = .sec
        · exact Or.inl (fun e => hdist y (List.mem_cons_self) (by rw [hk, hkx]) e.symm)
        · exact Or.inr hkx
      · unfold cycleCheck at hcyc hwalk ⊢
        rw [hsize, meetsUp_frame (z := x) (fun i hi => ⟨hkind i, hpar i hi⟩) hwalk]; exact hcyc
      · intro z hz hkz; rw [hkind] at hkz; rw [hname, hname]; exact hd z hz hkz
    · refine Or.inr ⟨by rw [hkind]; exact hk, by rw [hkind]; exact hpk, ?_, ?_⟩
      · rw [hname y]
        apply hnmP _ _ hnm
        by_cases hkx : (g.node x).kind = .prop
        · exact Or.inl (fun e => hdist y (List.mem_cons_self) (by rw [hk, hkx]) e.symm)
        · exact Or.inr hkx
      · intro z hz hkz; rw [hkind] at hkz; rw [hname, hname]; exact hd z hz hkz

theorem appendAll_ok {p : Nat} : ∀ (xs : List Nat) (g : H), WF g → p < g.size → (g.node p).kind ≠ .prop →
    ExtOk g p xs → ∃ g', appendAll g p xs = (g', .ok) ∧ WF g' := by
  intro xs
  induction xs with
  | nil => intro g wg _ _ _; exact ⟨g, rfl, wg⟩
  | cons x xs ih =>
    intro g wg hps hpk hok
    obtain ⟨hxlt, hcase, hrest⟩ := hok
    simp only [appendAll]
    rcases hcase with ⟨hk, hnm, hcyc, hd⟩ | ⟨hk, hpsec, hnm, hd⟩
    · rcases append_spec wg hps hxlt with ⟨e, he⟩ | ⟨_, _, _, _, he⟩ | ⟨hk2, _⟩
      · -- cannot be refused
        exfalso
        rw [append_sec_unfold hk hpk] at he
        simp only [hcyc, hnm, Bool.false_eq_true, if_false] at he
        have hanc : ¬ Anc g x p := meetsUp_false wg hcyc
        have hxp : x ≠ p := fun e' => hanc (e' ▸ Anc.refl _)
        have hup : (upd g p (fun n => { n with secs := n.secs ++ [x] })) =
            (upd g p (fun n => { n with secs := (g.node p).secs ++ [x], props := (g.node p).props })) := by
          refine H.ext' (fun j => ?_) rfl
          unfold upd; dsimp only; split
          · rename_i e'; subst e'; rfl
          · rfl
        rw [hup, adopt_after_list_update wg _ _ hxp (notp_of_nameS wg hk hnm) (by rw [hk]; decide)] at he
        exact absurd (congrArg Prod.snd he) (by simp)
      · rw [he]
        simp only
        have wg' := wf_appendedS wg hps hxlt hk hpk hcyc hnm
        obtain ⟨f1, f2, f3, f4, f5, f6⟩ := attach_detachIf_fields (h := g) (p := p) (x := x)
          (ls := (g.node p).secs ++ [x]) (lp := (g.node p).props)
        apply ih _ wg' (by unfold appendedS placedS; rw [f6]; exact hps)
          (by unfold appendedS placedS; rw [f1]; exact hpk)
        apply extOk_transfer wg f1 f2 f3 f6 hps hcyc (Or.inr ⟨hk, f4⟩) (Or.inl f5) xs _ hrest
        intro y hy hky; exact hd y hy (by rw [hky, hk])
      · rw [hk] at hk2; cases hk2
    · rcases append_spec wg hps hxlt with ⟨e, he⟩ | ⟨hk2, _⟩ | ⟨_, _, _, he⟩
      · exfalso
        rw [append_prop_unfold hk hpsec] at he
        simp only [hnm, Bool.false_eq_true, if_false] at he
        have hxp : x ≠ p := by intro e'; subst e'; rw [hk] at hpsec; cases hpsec
        have hup : (upd g p (fun n => { n with props := n.props ++ [x] })) =
            (upd g p (fun n => { n with secs := (g.node p).secs, props := (g.node p).props ++ [x] })) := by
          refine H.ext' (fun j => ?_) rfl
          unfold upd; dsimp only; split
          · rename_i e'; subst e'; rfl
          · rfl
        rw [hup, adopt_after_list_update wg _ _ hxp (notp_of_nameP wg hk hnm) (by rw [hk]; decide)] at he
        exact absurd (congrArg Prod.snd he) (by simp)
      · rw [hk] at hk2; cases hk2
      · rw [he]
        simp only
        have wg' := wf_appendedP wg hps hxlt hk hpsec hnm
        obtain ⟨f1, f2, f3, f4, f5, f6⟩ := attach_detachIf_fields (h := g) (p := p) (x := x)
          (ls := (g.node p).secs) (lp := (g.node p).props ++ [x])
        -- a Property is nobody's ancestor: the walk from p does not meet it
        have hleaf : ∀ c, (g.node c).parent ≠ some x := by
          intro c hc
          rcases wg.kind_of_parent hc with hkc | hkc
          · exact (wg.parS c x hc hkc) hk
          · have := wg.parP c x hc hkc; rw [hk] at this; cases this
        have hxp : x ≠ p := by intro e'; subst e'; rw [hk] at hpsec; cases hpsec
        have hwalk : cycleCheck g p x = false :=
          cycleCheck_exact wg hps (fun ha => hxp (anc_of_leaf hleaf ha).symm)
        apply ih _ wg' (by unfold appendedP placedP; rw [f6]; exact hps)
          (by unfold appendedP placedP; rw [f1]; exact hpk)
        apply extOk_transfer wg f1 f2 f3 f6 hps hwalk (Or.inl f4) (Or.inr ⟨hk, f5⟩) xs _ hrest
        intro y hy hky; exact hd y hy (by rw [hky, hk])

/-- `extend`: refused without any change, or every entry is appended. -/
theorem extend_spec {h : H} (w : WF h) {p : Nat} (xs : List Nat) (hps : p < h.size)
    (hxs : ∀ x ∈ xs, x < h.size) :
    (∃ e, extend h p xs = (h, .raised e)) ∨ (∃ h', extend h p xs = (h', .ok) ∧ WF h') := by
  unfold extend
  split
  · exact Or.inl ⟨_, rfl⟩
  · rename_i hpk
    split
    · exact Or.inl ⟨_, rfl⟩
    · rename_i hc
      obtain ⟨ok, _, _⟩ := extendCheck_ok hpk xs [] [] hxs hc
      obtain ⟨g', hg, wg'⟩ := appendAll_ok xs h w hps hpk ok
      exact Or.inr ⟨g', hg, wg'⟩

end Heap
