/-
Helper lemmas for C02: the bracketed text form of odML n-tuples, `[(a;b),(c;d)]`, is read back
to the same list of tuples when no item contains a comma.
-/
import OdmlModel.Model.Dict
import OdmlModel.Model.DictDoc
import OdmlModel.Proofs.Str

namespace Dict
open Py

/-- `sep.join(xs)` on character lists. -/
def joinSep (sep : Char) : List (List Char) → List Char
  | [] => []
  | [a] => a
  | a :: r => a ++ sep :: joinSep sep r

theorem splitOn_joinSep (sep : Char) (xs : List (List Char)) (hne : xs ≠ [])
    (h : ∀ a ∈ xs, ∀ c ∈ a, (c == sep) = false) : splitOn sep (joinSep sep xs) = xs := by
  induction xs with
  | nil => exact absurd rfl hne
  | cons a r ih =>
    cases r with
    | nil => exact splitOn_no_sep sep a (h a (by simp))
    | cons b r' =>
      simp only [joinSep]
      rw [splitOn_append_sep sep a _ (h a (by simp))]
      have := ih (by simp) (fun x hx => h x (by simp [hx]))
      rw [this]

/-- The characters of a string item. -/
def itemChars : J → List Char
  | .str s => s.toList
  | _ => []

theorem joinItems_eq (items : List J) (h : items.all tupleItemOk = true) :
    joinItems items = some (joinSep ';' (items.map itemChars)) := by
  induction items with
  | nil => rfl
  | cons x r ih =>
    simp only [List.all_cons, Bool.and_eq_true] at h
    obtain ⟨hx, hr⟩ := h
    cases x <;> simp [tupleItemOk] at hx
    rename_i s
    cases r with
    | nil => rfl
    | cons y r' =>
      have := ih hr
      simp only [joinItems, this, List.map_cons, joinSep, itemChars, Option.map_some]

/-- The text of one tuple, `(a;b;c)`. -/
def tupleText (items : List J) : List Char := '(' :: joinSep ';' (items.map itemChars) ++ [')']

theorem strip_tupleText (items : List J) : strip (tupleText items) = tupleText items := by
  have h1 : lstrip (tupleText items) = tupleText items := lstrip_of_head (by decide)
  have h2 : lstrip (tupleText items).reverse = (tupleText items).reverse := by
    simp only [tupleText, List.reverse_cons, List.reverse_append, List.reverse_nil, List.nil_append,
      List.singleton_append, List.cons_append]
    exact lstrip_of_head (by decide)
  simp [strip, rstrip, h1, h2]

theorem slice_wrap (a b : Char) (l : List Char) : slice1m1 (a :: l ++ [b]) = l := by
  simp [slice1m1, List.dropLast_concat]

theorem head_wrap (a b : Char) (l : List Char) : (a :: l ++ [b]).head? = some a := rfl

theorem last_wrap (a b : Char) (l : List Char) : (a :: l ++ [b]).getLast? = some b := by
  exact List.getLast?_concat ..

theorem ofList_ne_empty {l : List Char} (h : l ≠ []) : (String.ofList l != "") = true := by
  simp only [bne_iff_ne, ne_eq]
  intro e
  have : (String.ofList l).toList = "".toList := by rw [e]
  simp at this
  exact h this

theorem strItems_eq (items : List J) (h : items.all tupleItemOk = true) :
    (items.map itemChars).map (fun p => J.str (String.ofList p)) = items := by
  induction items with
  | nil => rfl
  | cons x r ih =>
    simp only [List.all_cons, Bool.and_eq_true] at h
    obtain ⟨hx, hr⟩ := h
    cases x <;> simp [tupleItemOk] at hx
    simp only [List.map_cons, itemChars, String.ofList_toList, ih hr]

/-- `tuple_get` reads the text of a tuple back to its items. -/
theorem tupleGet_tupleText (n : Nat) (items : List J) (hlen : items.length = n) (hn : 0 < n)
    (h : items.all tupleItemOk = true) :
    tupleGet n (.str (String.ofList (tupleText items))) = .ok (.arr items) := by
  have hne : items ≠ [] := by
    intro e; subst e; simp at hlen; omega
  have hsemi : ∀ a ∈ items.map itemChars, ∀ c ∈ a, (c == ';') = false := by
    intro a ha c hc
    simp only [List.mem_map] at ha
    obtain ⟨x, hx, rfl⟩ := ha
    have := (List.all_eq_true.1 h) x hx
    cases x <;> simp [tupleItemOk] at this
    simp only [itemChars] at hc
    simp only [beq_eq_false_iff_ne, ne_eq]
    rintro rfl
    exact this.2 hc
  have hstrip : (items.map itemChars).map strip = items.map itemChars := by
    have hs : ∀ a ∈ items.map itemChars, strip a = id a := by
      intro a ha
      simp only [List.mem_map] at ha
      obtain ⟨x, hx, rfl⟩ := ha
      have := (List.all_eq_true.1 h) x hx
      cases x <;> simp [tupleItemOk] at this
      simpa [itemChars, strippedStr] using this.1
    rw [List.map_congr_left hs, List.map_id]
  have htr : (J.str (String.ofList (tupleText items))).truthy = true := by
    simp only [J.truthy]
    exact ofList_ne_empty (by simp [tupleText])
  simp only [tupleGet, htr, Bool.not_true, Bool.false_eq_true, if_false, String.toList_ofList,
    strip_tupleText]
  simp only [tupleText, head_wrap, last_wrap, slice_wrap, beq_self_eq_true, Bool.and_self, if_true]
  rw [splitOn_joinSep ';' _ (by simpa using hne) hsemi, hstrip]
  simp [hlen, strItems_eq items h]

/-! ## A list of tuples -/

/-- The text of one stored tuple value. -/
def valText : J → List Char
  | .arr items => tupleText items
  | _ => []

def tupleValOk (n : Nat) : J → Bool
  | .arr items => items.length == n && 0 < n && items.all tupleItemOk
  | _ => false

theorem mem_joinSep {sep c : Char} {xs : List (List Char)} (h : c ∈ joinSep sep xs) :
    c = sep ∨ ∃ a ∈ xs, c ∈ a := by
  induction xs with
  | nil => simp [joinSep] at h
  | cons a r ih =>
    cases r with
    | nil => exact Or.inr ⟨a, by simp, h⟩
    | cons b r' =>
      simp only [joinSep, List.mem_append, List.mem_cons] at h
      rcases h with h | h | h
      · exact Or.inr ⟨a, by simp, h⟩
      · exact Or.inl h
      · rcases ih h with h' | ⟨x, hx, hc⟩
        · exact Or.inl h'
        · exact Or.inr ⟨x, by simp [hx], hc⟩

theorem valText_no_comma (n : Nat) (v : J) (hv : tupleValOk n v = true) (hr : valRepr v = true) :
    ∀ c ∈ valText v, (c == ',') = false := by
  cases v <;> simp [tupleValOk] at hv
  rename_i items
  intro c hc
  simp only [valText, tupleText, List.mem_cons, List.mem_append, List.mem_singleton] at hc
  simp only [beq_eq_false_iff_ne, ne_eq]
  rintro rfl
  rcases hc with (hc | hc) | hc
  · exact absurd hc (by decide)
  · rcases mem_joinSep hc with h | ⟨a, ha, hca⟩
    · exact absurd h (by decide)
    · simp only [List.mem_map] at ha
      obtain ⟨x, hx, rfl⟩ := ha
      have h1 := (List.all_eq_true.1 (by simpa [valRepr] using hr)) x hx
      have h2 := hv.2 x hx
      cases x <;> simp [tupleItemOk] at h2
      simp [tupleItemRepr] at h1
      exact h1 hca
  · exact absurd hc (by decide)

theorem tupleExportInner_eq (n : Nat) (vals : List J) (h : vals.all (tupleValOk n) = true) :
    tupleExportInner vals = some (joinSep ',' (vals.map valText)) := by
  induction vals with
  | nil => rfl
  | cons v r ih =>
    simp only [List.all_cons, Bool.and_eq_true] at h
    obtain ⟨hv, hr⟩ := h
    cases v <;> simp [tupleValOk] at hv
    rename_i items
    have hj := joinItems_eq items (List.all_eq_true.2 hv.2)
    simp only [tupleExportInner, hj, ih hr]
    cases r with
    | nil => simp [joinSep, valText, tupleText]
    | cons w r' => simp [joinSep, valText, tupleText]

theorem getAll_tupleTexts (lib : Lib) (n : Nat) (vals : List J) (h : vals.all (tupleValOk n) = true) :
    getAll lib (.tuple n) ((vals.map valText).map (fun t => J.str (String.ofList t))) = .ok vals := by
  induction vals with
  | nil => rfl
  | cons v r ih =>
    simp only [List.all_cons, Bool.and_eq_true] at h
    obtain ⟨hv, hr⟩ := h
    cases v <;> simp [tupleValOk] at hv
    rename_i items
    have hg := tupleGet_tupleText n items hv.1.1 hv.1.2 (List.all_eq_true.2 hv.2)
    simp only [List.map_cons, getAll, getVal, valText, hg, ih hr, Except.map]

/-- `_convert_value_input` on the bracketed text: the tuple texts, one string each. -/
theorem convertInput_bracket (ts : List (List Char)) (hne : ts ≠ [])
    (hc : ∀ a ∈ ts, ∀ c ∈ a, (c == ',') = false) (hs : ∀ a ∈ ts, strip a = a) :
    convertInput (.str (String.ofList ('[' :: joinSep ',' ts ++ [']']))) =
      some (ts.map (fun t => J.str (String.ofList t))) := by
  have hsm : ts.map strip = ts := by
    have : ∀ a ∈ ts, strip a = id a := hs
    rw [List.map_congr_left this, List.map_id]
  simp only [convertInput, String.toList_ofList, head_wrap, last_wrap, slice_wrap, beq_self_eq_true,
    Bool.and_self, if_true, splitOn_joinSep ',' ts hne hc, List.map_map]
  congr 1
  conv => rhs; rw [← hsm]
  simp [List.map_map]

end Dict
