/-
Helper lemmas for C02: the written dictionary, after transport through text, denotes the document.
-/
import OdmlModel.Model.Dict
import OdmlModel.Model.DictDoc
import OdmlModel.Proofs.Dict
import OdmlModel.Proofs.DictRead
import OdmlModel.Proofs.DictTuple
import OdmlModel.Props.C09

namespace Dict
open Py

/-! ## Transport on the pieces the writers emit -/

theorem apply_atom {t : Transport} (sc : ScalarCodec t) {v : J} (h : isAtom v = true) :
    t.apply v = v := by
  cases v <;> simp [isAtom] at h <;> simp [Transport.apply, sc.null, sc.bool, sc.int, sc.float, sc.str]

theorem apply_str {t : Transport} (sc : ScalarCodec t) (s : String) : t.apply (.str s) = .str s := by
  simp [Transport.apply, sc.str]

theorem apply_optIntJ {t : Transport} (sc : ScalarCodec t) (a : Option Int) :
    t.apply (optIntJ a) = optIntJ a := by
  cases a <;> simp [optIntJ, Transport.apply, sc.null, sc.int]

theorem apply_cardJ {t : Transport} (sc : ScalarCodec t) (c : Card.Card) :
    t.apply (cardJ c) = cardJ c := by
  cases c with
  | none => simp [cardJ, Transport.apply, sc.null]
  | some p =>
    obtain ⟨a, b⟩ := p
    simp [cardJ, Transport.apply, Transport.applyList, apply_optIntJ sc]

theorem apply_optStrJ {t : Transport} (sc : ScalarCodec t) (o : Option String) :
    t.apply (optStrJ o) = optStrJ o := by
  cases o <;> simp [optStrJ, Transport.apply, sc.null, sc.str]

theorem applyKvs_append (t : Transport) (a b : List (String × J)) :
    Transport.applyKvs t (a ++ b) = Transport.applyKvs t a ++ Transport.applyKvs t b := by
  induction a with
  | nil => simp [Transport.applyKvs]
  | cons kv r ih => obtain ⟨k, v⟩ := kv; simp [Transport.applyKvs, ih]

theorem keysOf_applyKvs (t : Transport) (kvs : List (String × J)) :
    keysOf (Transport.applyKvs t kvs) = keysOf kvs := by
  induction kvs with
  | nil => simp [Transport.applyKvs]
  | cons kv r ih => obtain ⟨k, v⟩ := kv; simp [Transport.applyKvs, ih]

theorem find_applyKvs (t : Transport) (k : String) (kvs : List (String × J)) :
    find k (Transport.applyKvs t kvs) = (find k kvs).map t.apply := by
  induction kvs with
  | nil => simp [Transport.applyKvs]
  | cons kv r ih =>
    obtain ⟨k', v⟩ := kv
    simp only [Transport.applyKvs, find_cons]
    split <;> simp [ih]

/-- Look-up in a transported dictionary whose keys are distinct. -/
theorem find_transport {t : Transport} (sc : ScalarCodec t) (k : String) (kvs : List (String × J))
    (hn : (keysOf kvs).Nodup) :
    find k (t.order (Transport.applyKvs t kvs)) = (find k kvs).map t.apply := by
  rw [find_perm (sc.order _) _ k, find_applyKvs]
  have := (keysOf_perm (sc.order (Transport.applyKvs t kvs))).nodup_iff
  rw [this, keysOf_applyKvs]
  exact hn

theorem keys_transport {t : Transport} (sc : ScalarCodec t) (kvs : List (String × J)) :
    (keysOf (t.order (Transport.applyKvs t kvs))).Perm (keysOf kvs) := by
  have := keysOf_perm (sc.order (Transport.applyKvs t kvs))
  rwa [keysOf_applyKvs] at this

/-- `v` if it is set, as an optional dictionary entry. -/
def optOf (v : J) : Option J := if v.isSet then some v else none

@[simp] theorem getD_optOf (v : J) : getD (optOf v) = v := by
  cases v <;> simp [optOf, J.isSet, getD]

theorem find_emit (k k' : String) (v : J) :
    find k (emit k' v) = if k' == k then optOf v else none := by
  unfold emit optOf
  by_cases h : v.isSet = true <;> simp [h, find_cons]

theorem optOf_str (s : String) : optOf (.str s) = some (.str s) := rfl

/-! ## Cardinalities (reusing C09) -/

theorem stored_of_cardOk {c : Card.Card} (h : cardOk c = true) : C09.Stored c := by
  cases c with
  | none => simp [C09.Stored, Card.Normal, Card.Strong]
  | some p =>
    obtain ⟨a, b⟩ := p
    cases a <;> cases b <;> simp [cardOk] at h <;>
      simp [C09.Stored, Card.Normal, Card.Strong] <;> omega

theorem toDIn_optIntJ (a : Option Int) : toDIn (optIntJ a) = Card.dinOfBound a := by
  cases a <;> rfl

theorem cardAsIn_eq (c : Card.Card) : cardAsIn c = C09.asIn c := by
  cases c with
  | none => rfl
  | some p => obtain ⟨a, b⟩ := p; rfl

theorem readCard_cardJ {t : Transport} (sc : ScalarCodec t) (c : Card.Card) (h : cardOk c = true) :
    readCard ((optOf (cardJ c)).map t.apply) = .ok c := by
  have hs := stored_of_cardOk h
  cases c with
  | none => rfl
  | some p =>
    obtain ⟨a, b⟩ := p
    have h1 : optOf (cardJ (some (a, b))) = some (cardJ (some (a, b))) := rfl
    rw [h1, Option.map_some, apply_cardJ sc]
    have hp : parseCard (cardJ (some (a, b))) = some (a, b) := by
      simp only [parseCard, cardJ, J.truthy, List.isEmpty_cons, Bool.not_false, Bool.not_true,
        Bool.false_eq_true, if_false, toDIn_optIntJ]
      exact C09.persist_list (a, b) hs
    simp only [readCard, hp, cardAsIn_eq, C09.stored_fixpoint _ hs]

/-! ## Values (every dtype class except n-tuples) -/

theorem getVal_transport {t : Transport} (sc : ScalarCodec t) (lib : Lib) (k : DtKind) (v : J)
    (hk : ∀ n, k ≠ .tuple n) (h : valOk lib k v = true) : getVal lib k (t.apply v) = .ok v := by
  cases k with
  | tuple n => exact absurd rfl (hk n)
  | strlike =>
    cases v <;> simp [valOk] at h
    rename_i s
    simp only [apply_str sc, getVal, strGet, isEmptyish, pyStr]
    by_cases hs : s = "" <;> simp [hs]
  | int =>
    cases v <;> simp [valOk] at h
    simp [Transport.apply, sc.int, getVal, intGet]
  | float =>
    cases v <;> simp [valOk] at h
    simp [Transport.apply, sc.float, getVal, floatGet]
  | bool =>
    cases v <;> simp [valOk] at h
    simp [Transport.apply, sc.bool, getVal, boolGet, isEmptyish]
  | date =>
    cases v <;> simp [valOk] at h
    rename_i s
    obtain ⟨hne, hd⟩ := h
    rcases sc.date s with h1 | h1 <;> simp [Transport.apply, h1, getVal, dateGet, hd, hne, ofOpt]
  | time =>
    cases v <;> simp [valOk] at h
    rename_i s
    obtain ⟨⟨hne, hn⟩, hd⟩ := h
    rcases sc.time s with h1 | h1 <;> simp [Transport.apply, h1, getVal, timeGet, hd, hn, hne, ofOpt]
  | datetime =>
    cases v <;> simp [valOk] at h
    rename_i s
    obtain ⟨⟨hne, hn⟩, hd⟩ := h
    rcases sc.datetime s with h1 | h1 <;>
      simp [Transport.apply, h1, getVal, datetimeGet, hd, hn, hne, ofOpt]

theorem getAll_transport {t : Transport} (sc : ScalarCodec t) (lib : Lib) (k : DtKind) (vs : List J)
    (hk : ∀ n, k ≠ .tuple n) (h : vs.all (valOk lib k) = true) :
    getAll lib k (Transport.applyList t vs) = .ok vs := by
  induction vs with
  | nil => rfl
  | cons v r ih =>
    simp only [List.all_cons, Bool.and_eq_true] at h
    simp [Transport.applyList, getAll, getVal_transport sc lib k v hk h.1, ih h.2, Except.map]

theorem classify_not_tuple {dt : String} (h : notTupleKind (classify dt) = true) :
    ∀ n, classify dt ≠ .tuple n := by
  intro n hn
  rw [hn] at h
  cases h

theorem valOk_tuple (lib : Lib) (n : Nat) (v : J) : valOk lib (.tuple n) v = tupleValOk n v := by
  cases v <;> rfl

theorem strip_valText (n : Nat) (v : J) (h : tupleValOk n v = true) : strip (valText v) = valText v := by
  cases v <;> simp [tupleValOk] at h
  exact strip_tupleText _

/-- The bracketed text written for a non-empty list of n-tuples is read back to the same list. -/
theorem setValues_tuple {t : Transport} (sc : ScalarCodec t) (lib : Lib) (dt : String) (n : Nat)
    (vals : List J) (hne : (dt == "") = false) (hk : classify dt = .tuple n)
    (hvals : vals.all (tupleValOk n) = true) (hrep : vals.all valRepr = true) (hnn : vals ≠ []) :
    ∃ s, tupleExport vals = some s ∧
      setValues lib (some dt) (t.apply (J.str s)) = .ok (some dt, vals) := by
  have hts : vals.map valText ≠ [] := by simpa using hnn
  have hexp : tupleExport vals =
      some (String.ofList ('[' :: joinSep ',' (vals.map valText) ++ [']'])) := by
    simp [tupleExport, tupleExportInner_eq n vals hvals]
  have hcomma : ∀ a ∈ vals.map valText, ∀ c ∈ a, (c == ',') = false := by
    intro a ha
    simp only [List.mem_map] at ha
    obtain ⟨v, hv, rfl⟩ := ha
    exact valText_no_comma n v (List.all_eq_true.1 hvals v hv) (List.all_eq_true.1 hrep v hv)
  have hstrip : ∀ a ∈ vals.map valText, strip a = a := by
    intro a ha
    simp only [List.mem_map] at ha
    obtain ⟨v, hv, rfl⟩ := ha
    exact strip_valText n v (List.all_eq_true.1 hvals v hv)
  have hconv := convertInput_bracket (vals.map valText) hts hcomma hstrip
  have hall := getAll_tupleTexts lib n vals hvals
  have hnes : (String.ofList ('[' :: joinSep ',' (vals.map valText) ++ [']']) == "") = false := by
    have := ofList_ne_empty (l := '[' :: joinSep ',' (vals.map valText) ++ [']']) (by simp)
    simpa using this
  refine ⟨_, hexp, ?_⟩
  simp only [apply_str sc, setValues, hnes, Bool.false_eq_true, if_false, hconv]
  cases hv : vals with
  | nil => exact absurd hv hnn
  | cons v r =>
    rw [hv] at hall
    simp only [List.map_cons] at hall ⊢
    simp only [hne, Bool.false_eq_true, if_false, hk, hall]

theorem normalize_lower {dt : String} (hl : lowerStr dt = dt) :
    normalizeDtype dt = (Gen.DTypes.dtypeMap.lookup dt).getD dt := by
  simp only [normalizeDtype]
  have : String.ofList (lower dt.toList) = dt := hl
  rw [this]

theorem classify_tuple_of {dt : String} (hl : lowerStr dt = dt) (h : isTupleDtype dt = true) :
    ∃ n, classify dt = .tuple n := by
  have hn : normalizeDtype dt = dt := by
    rw [normalize_lower hl]
    by_cases h1 : dt = "str"
    · subst h1; revert h; decide
    · by_cases h2 : dt = "bool"
      · subst h2; revert h; decide
      · have e1 : (dt == "str") = false := by simpa using h1
        have e2 : (dt == "bool") = false := by simpa using h2
        simp [Gen.DTypes.dtypeMap, List.lookup, e1, e2]
  exact ⟨natOfDigits (dt.toList.take (dt.toList.length - 6)), by simp only [classify, hn, h, if_true]⟩

theorem classify_not_tuple_of {dt : String} (hl : lowerStr dt = dt) (h : isTupleDtype dt = false) :
    notTupleKind (classify dt) = true := by
  have hn : isTupleDtype (normalizeDtype dt) = false := by
    rw [normalize_lower hl]
    by_cases h1 : dt = "str"
    · subst h1; decide
    · by_cases h2 : dt = "bool"
      · subst h2; decide
      · have e1 : (dt == "str") = false := by simpa using h1
        have e2 : (dt == "bool") = false := by simpa using h2
        simp [Gen.DTypes.dtypeMap, List.lookup, e1, e2, h]
  simp only [classify, hn, Bool.false_eq_true, if_false]
  repeat' split
  all_goals rfl

theorem setValues_transport {t : Transport} (sc : ScalarCodec t) (lib : Lib) (p : Prp)
    (hwf : (match p.dtype with
            | none => p.values.isEmpty
            | some dt => dt != "" && validType dt && lowerStr dt == dt &&
                p.values.all (valOk lib (classify dt))) = true)
    (hrep : p.values.all valRepr = true) :
    setValues lib p.dtype (t.apply (propValueJ p)) = .ok (p.dtype, p.values) := by
  cases hd : p.dtype with
  | none =>
    simp only [hd, List.isEmpty_iff] at hwf
    simp [propValueJ, hd, hwf, Transport.apply, Transport.applyList, setValues]
  | some dt =>
    simp only [hd, Bool.and_eq_true, bne_iff_ne, ne_eq] at hwf
    obtain ⟨⟨⟨hne, _⟩, hlow⟩, hvals⟩ := hwf
    have hlow' : lowerStr dt = dt := by simpa using hlow
    cases hv : p.values with
    | nil =>
      simp [propValueJ, hd, hv, Transport.apply, Transport.applyList, setValues]
    | cons v0 vs =>
      by_cases hnt : isTupleDtype dt = false
      case neg =>
        have hnt' : isTupleDtype dt = true := by simpa using hnt
        obtain ⟨n, hk⟩ := classify_tuple_of hlow' hnt'
        have hne' : (dt == "") = false := by simpa using hne
        have hvals' : p.values.all (tupleValOk n) = true := by
          rw [hk] at hvals
          simpa [valOk_tuple] using hvals
        obtain ⟨s, hs, hset⟩ := setValues_tuple sc lib dt n p.values hne' hk hvals' hrep (by simp [hv])
        have hne2 : (dt != "") = true := by simpa using hne
        rw [hv] at hs hset
        simpa [propValueJ, hd, hv, hnt', hne2, hs] using hset
      have hk := classify_not_tuple (classify_not_tuple_of hlow' hnt)
      have hall := getAll_transport sc lib (classify dt) (v0 :: vs) hk (by rw [← hv]; exact hvals)
      have hne' : (dt == "") = false := by simpa using hne
      simp only [propValueJ, hd, hv, hnt, Bool.and_false, Bool.false_and, Bool.false_eq_true, if_false,
        Transport.apply, Transport.applyList, setValues, List.isEmpty_cons, convertInput, hne']
      simp only [Transport.applyList] at hall
      rw [hall]

/-! ## Properties -/

/-- The pairs `get_properties` emits for one Property. -/
def propKvs (p : Prp) : List (String × J) :=
  [("id", J.str p.id)] ++ emit "name" p.name ++ [("value", propValueJ p)] ++
  emit "unit" p.unit ++ emit "definition" p.definition ++ emit "dependency" p.dependency ++
  emit "dependencyvalue" p.dependencyValue ++ emit "uncertainty" p.uncertainty ++
  emit "reference" p.reference ++ emit "type" (optStrJ p.dtype) ++
  emit "value_origin" p.valueOrigin ++ emit "val_cardinality" (cardJ p.valCard)

theorem propKvs_keys (p : Prp) :
    (∀ kv ∈ propKvs p, propLayoutKeys.contains kv.1 = true) ∧ (keysOf (propKvs p)).Nodup := by
  have h := layoutProp_write p
  rw [writeProp_eq] at h
  simp only [layoutProp, Bool.and_eq_true, List.all_eq_true] at h
  refine ⟨?_, (nodupKeys_iff _).1 h.2⟩
  have hsub : ∀ k, isValidAttr Gen.Format.propertyArgs Gen.Format.propertyMap k = true →
      k ∈ keysOf (propKvs p) → propLayoutKeys.contains k = true := by
    intro k _ hk
    have hs : (keysOf (propKvs p)).Sublist (["id"] ++ ["name"] ++ ["value"] ++ ["unit"] ++
        ["definition"] ++ ["dependency"] ++ ["dependencyvalue"] ++ ["uncertainty"] ++ ["reference"] ++
        ["type"] ++ ["value_origin"] ++ ["val_cardinality"]) := by
      simp only [propKvs, keysOf_append]
      refine List.Sublist.append (List.Sublist.append (List.Sublist.append (List.Sublist.append
        (List.Sublist.append (List.Sublist.append (List.Sublist.append (List.Sublist.append
        (List.Sublist.append (List.Sublist.append (List.Sublist.append ?_ ?_) ?_) ?_) ?_) ?_) ?_)
        ?_) ?_) ?_) ?_) ?_ <;>
        first | exact keysOf_emit_sublist _ _ | exact List.Sublist.refl _
    have hall : ∀ k ∈ (["id"] ++ ["name"] ++ ["value"] ++ ["unit"] ++
        ["definition"] ++ ["dependency"] ++ ["dependencyvalue"] ++ ["uncertainty"] ++ ["reference"] ++
        ["type"] ++ ["value_origin"] ++ ["val_cardinality"] : List String),
        propLayoutKeys.contains k = true := by decide
    exact hall k (hs.subset hk)
  intro kv hkv
  exact hsub kv.1 (h.1 kv hkv) (by simp only [keysOf, List.mem_map]; exact ⟨kv, hkv, rfl⟩)

theorem orElse_none_right (o : Option J) : (o.orElse fun _ => none) = o := by cases o <;> rfl
theorem orElse_none_left (f : Unit → Option J) : ((none : Option J).orElse f) = f () := rfl
theorem orElse_some_left (v : J) (f : Unit → Option J) : ((some v).orElse f) = some v := rfl

theorem map_apply_optOf {t : Transport} (sc : ScalarCodec t) {v : J} (h : isAtom v = true) :
    (optOf v).map t.apply = optOf v := by
  unfold optOf; split <;> simp [apply_atom sc h]

theorem layout_cond_transport {t : Transport} (sc : ScalarCodec t) (L : List String)
    (kvs : List (String × J)) (hL : ∀ kv ∈ kvs, L.contains kv.1 = true) (hn : (keysOf kvs).Nodup) :
    ((t.order (Transport.applyKvs t kvs)).all (fun kv => L.contains kv.1) &&
      nodupKeys (keysOf (t.order (Transport.applyKvs t kvs)))) = true := by
  have hp := keys_transport sc kvs
  simp only [Bool.and_eq_true, List.all_eq_true]
  constructor
  · intro kv hkv
    have : kv.1 ∈ keysOf kvs := hp.subset (by simp only [keysOf, List.mem_map]; exact ⟨kv, hkv, rfl⟩)
    simp only [keysOf, List.mem_map] at this
    obtain ⟨kv', hkv', he⟩ := this
    rw [← he]; exact hL kv' hkv'
  · exact (nodupKeys_iff _).2 (hp.nodup_iff.2 hn)

theorem denoteProp_write {t : Transport} (sc : ScalarCodec t) (lib : Lib) (p : Prp)
    (hwf : wfProp lib p = true) (hr : reprProp p = true) :
    denoteProp lib (t.apply (writeProp p)) = some p := by
  obtain ⟨hL, hn⟩ := propKvs_keys p
  rw [writeProp_eq]
  change denoteProp lib (t.apply (.obj (propKvs p))) = some p
  simp only [Transport.apply, denoteProp, layout_cond_transport sc propLayoutKeys (propKvs p) hL hn,
    if_true]
  simp only [wfProp, Bool.and_eq_true] at hwf
  obtain ⟨⟨⟨hid, hname⟩, hcard⟩, hvals⟩ := hwf
  simp only [reprProp, Bool.and_eq_true] at hr
  obtain ⟨⟨⟨⟨⟨⟨⟨hu, hdf⟩, hdp⟩, hdv⟩, hun⟩, hrf⟩, hvo⟩, hvr⟩ := hr
  have hargs : propArgsOf (fun py => find (odmlName Gen.Format.propertyMap py)
        (t.order (Transport.applyKvs t (propKvs p)))) =
      { oid := some (.str p.id), name := optOf p.name, values := some (t.apply (propValueJ p)),
        unit := optOf p.unit, definition := optOf p.definition, dependency := optOf p.dependency,
        dependencyValue := optOf p.dependencyValue, uncertainty := optOf p.uncertainty,
        reference := optOf p.reference, dtype := optOf (optStrJ p.dtype),
        valueOrigin := optOf p.valueOrigin, valCard := (optOf (cardJ p.valCard)).map t.apply } := by
    have hnm : isAtom p.name = true := by
      cases hp : p.name <;> simp [hp, isName] at hname <;> rfl
    have hty : isAtom (optStrJ p.dtype) = true := by cases p.dtype <;> rfl
    simp only [propArgsOf, find_transport sc _ (propKvs p) hn]
    simp [odmlName, Gen.Format.propertyMap, propKvs,
      find_append, find_cons, find_emit, map_apply_optOf sc, hu, hdf, hdp, hdv, hun, hrf, hvo, hnm,
      hty, apply_str sc, orElse_none_right, orElse_none_left, orElse_some_left]
  rw [hargs]
  have hidv : lib.uuid p.id = some p.id := by simpa [idOk] using hid
  have hnt : p.name.truthy = true := by
    cases hp : p.name <;> simp [hp, isName] at hname
    simp [J.truthy, hname]
  have hdt : ctorDtype (optOf (optStrJ p.dtype)) = p.dtype := by
    cases hd : p.dtype with
    | none => rfl
    | some dt =>
      simp only [hd, Bool.and_eq_true, beq_iff_eq] at hvals
      simp [optStrJ, optOf_str, ctorDtype, hvals.1.1.2, hvals.1.2]
  have hsv := setValues_transport sc lib p hvals hvr
  have hrc := readCard_cardJ sc p.valCard hcard
  simp only [createProp, makeId, hidv, Option.getD_some, getD_optOf, hnt, if_true, hdt]
  simp only [getD, Option.getD_some, hsv, hrc]

/-! ## The three transports satisfy the contract's structural part -/

theorem insertKey_perm (kv : String × J) (l : List (String × J)) : (insertKey kv l).Perm (kv :: l) := by
  induction l with
  | nil => exact List.Perm.refl _
  | cons x r ih =>
    simp only [insertKey]
    split
    · exact List.Perm.refl _
    · exact (List.Perm.cons x ih).trans (List.Perm.swap kv x r)

theorem sortKeys_perm (l : List (String × J)) : (sortKeys l).Perm l := by
  induction l with
  | nil => exact List.Perm.refl _
  | cons kv r ih => exact (insertKey_perm kv (sortKeys r)).trans (List.Perm.cons kv ih)

theorem direct_codec : ScalarCodec Transport.direct :=
  ⟨rfl, fun _ => rfl, fun _ => rfl, fun _ => rfl, fun _ => rfl, fun _ => Or.inl rfl,
   fun _ => Or.inl rfl, fun _ => Or.inl rfl, fun _ => List.Perm.refl _⟩

theorem json_codec : ScalarCodec Transport.json :=
  ⟨rfl, fun _ => rfl, fun _ => rfl, fun _ => rfl, fun _ => rfl, fun _ => Or.inr rfl,
   fun _ => Or.inr rfl, fun _ => Or.inr rfl, fun _ => List.Perm.refl _⟩

theorem yaml_codec : ScalarCodec Transport.yaml :=
  ⟨rfl, fun _ => rfl, fun _ => rfl, fun _ => rfl, fun _ => rfl, fun _ => Or.inl rfl,
   fun _ => Or.inr rfl, fun _ => Or.inl rfl, sortKeys_perm⟩

/-! ## Sections and the document -/

theorem propsOfKvs_find (lib : Lib) (kvs : List (String × J)) :
    propsOfKvs lib kvs = match find "properties" kvs with
      | some v => denoteProps lib v
      | none => some [] := by
  induction kvs with
  | nil => rfl
  | cons kv r ih =>
    obtain ⟨k, v⟩ := kv
    simp only [propsOfKvs, find_cons]
    split <;> simp [ih]

theorem secsOfKvs_find (lib : Lib) (kvs : List (String × J)) :
    secsOfKvs lib kvs = match find "sections" kvs with
      | some v => denoteSecsJ lib v
      | none => some [] := by
  induction kvs with
  | nil => simp [secsOfKvs]
  | cons kv r ih =>
    obtain ⟨k, v⟩ := kv
    simp only [secsOfKvs, find_cons]
    split <;> simp [ih]

theorem denotePropList_write {t : Transport} (sc : ScalarCodec t) (lib : Lib) (ps : List Prp)
    (hwf : ps.all (wfProp lib) = true) (hr : ps.all reprProp = true) :
    denotePropList lib (Transport.applyList t (ps.map writeProp)) = some ps := by
  induction ps with
  | nil => rfl
  | cons p r ih =>
    simp only [List.all_cons, Bool.and_eq_true] at hwf hr
    simp [Transport.applyList, denotePropList, denoteProp_write sc lib p hwf.1 hr.1,
      ih hwf.2 hr.2]

/-- The pairs `get_sections` emits for one Section. -/
def secKvs (id : String) (name type d r l rp inc : J) (sc pc : Card.Card)
    (props : List Prp) (secs : List Sec) : List (String × J) :=
  [("id", J.str id)] ++ emit "type" type ++ emit "name" name ++ emit "definition" d ++
  emit "reference" r ++ emit "link" l ++ emit "repository" rp ++
  [("sections", J.arr (writeSecs secs))] ++ emit "include" inc ++
  [("properties", J.arr (props.map writeProp))] ++
  emit "sec_cardinality" (cardJ sc) ++ emit "prop_cardinality" (cardJ pc)

theorem secKvs_keys (id : String) (name type d r l rp inc : J) (sc pc : Card.Card)
    (props : List Prp) (secs : List Sec) :
    (∀ kv ∈ secKvs id name type d r l rp inc sc pc props secs, secLayoutKeys.contains kv.1 = true) ∧
    (keysOf (secKvs id name type d r l rp inc sc pc props secs)).Nodup := by
  have hs : (keysOf (secKvs id name type d r l rp inc sc pc props secs)).Sublist
      (["id"] ++ ["type"] ++ ["name"] ++ ["definition"] ++ ["reference"] ++ ["link"] ++
       ["repository"] ++ ["sections"] ++ ["include"] ++ ["properties"] ++ ["sec_cardinality"] ++
       ["prop_cardinality"]) := by
    simp only [secKvs, keysOf_append]
    refine List.Sublist.append (List.Sublist.append (List.Sublist.append (List.Sublist.append
      (List.Sublist.append (List.Sublist.append (List.Sublist.append (List.Sublist.append
      (List.Sublist.append (List.Sublist.append (List.Sublist.append ?_ ?_) ?_) ?_) ?_) ?_) ?_)
      ?_) ?_) ?_) ?_) ?_ <;>
      first | exact keysOf_emit_sublist _ _ | exact List.Sublist.refl _
  constructor
  · intro kv hkv
    have hall : ∀ k ∈ (["id"] ++ ["type"] ++ ["name"] ++ ["definition"] ++ ["reference"] ++ ["link"] ++
       ["repository"] ++ ["sections"] ++ ["include"] ++ ["properties"] ++ ["sec_cardinality"] ++
       ["prop_cardinality"] : List String), secLayoutKeys.contains k = true := by decide
    exact hall kv.1 (hs.subset (by simp only [keysOf, List.mem_map]; exact ⟨kv, hkv, rfl⟩))
  · exact List.Nodup.sublist hs (by decide)

mutual
theorem denoteSec_write {t : Transport} (sc : ScalarCodec t) (lib : Lib) : (s : Sec) →
    wfSec lib s = true → reprSec s = true →
    denoteSec lib (t.apply (writeSec s)) = some s
  | .mk id name type d r l rp inc scd pcd props secs, hwf, hr => by
    obtain ⟨hL, hn⟩ := secKvs_keys id name type d r l rp inc scd pcd props secs
    rw [writeSec_eq]
    change denoteSec lib (t.apply (.obj (secKvs id name type d r l rp inc scd pcd props secs))) = _
    simp only [Transport.apply, denoteSec,
      layout_cond_transport sc secLayoutKeys _ hL hn, if_true]
    simp only [wfSec, Bool.and_eq_true, Bool.not_eq_true'] at hwf
    obtain ⟨⟨⟨⟨⟨⟨⟨⟨hid, hname⟩, htype⟩, hsc⟩, hpc⟩, hpw⟩, hpd⟩, hsw⟩, hsd⟩ := hwf
    simp only [reprSec, Bool.and_eq_true] at hr
    obtain ⟨⟨⟨⟨⟨⟨⟨hty, hdf⟩, hrf⟩, hlk⟩, hrp⟩, hic⟩, hpr⟩, hsr⟩ := hr
    have hnm : isAtom name = true := by
      cases name <;> simp [isName] at hname <;> rfl
    have hprops : propsOfKvs lib (t.order (Transport.applyKvs t
        (secKvs id name type d r l rp inc scd pcd props secs))) = some props := by
      rw [propsOfKvs_find, find_transport sc _ _ hn]
      simp [secKvs, find_append, find_cons, find_emit, orElse_none_left, orElse_some_left,
        Transport.apply, denoteProps, denotePropList_write sc lib props hpw hpr]
    have hsecs : secsOfKvs lib (t.order (Transport.applyKvs t
        (secKvs id name type d r l rp inc scd pcd props secs))) = some secs := by
      rw [secsOfKvs_find, find_transport sc _ _ hn]
      simp [secKvs, find_append, find_cons, find_emit, orElse_none_left, orElse_some_left,
        Transport.apply, denoteSecsJ, denoteSecList_write sc lib secs hsw hsr]
    have hargs : secArgsOf (fun py => find (odmlName Gen.Format.sectionMap py)
          (t.order (Transport.applyKvs t (secKvs id name type d r l rp inc scd pcd props secs)))) =
        { oid := some (.str id), name := optOf name, type := optOf type, definition := optOf d,
          reference := optOf r, link := optOf l, repository := optOf rp, incl := optOf inc,
          secCard := (optOf (cardJ scd)).map t.apply, propCard := (optOf (cardJ pcd)).map t.apply } := by
      simp only [secArgsOf, find_transport sc _ _ hn]
      simp [odmlName, Gen.Format.sectionMap, secKvs, find_append, find_cons, find_emit,
        map_apply_optOf sc, hty, hdf, hrf, hlk, hrp, hic, hnm, apply_str sc, orElse_none_right,
        orElse_none_left, orElse_some_left]
    have hidv : lib.uuid id = some id := by simpa [idOk] using hid
    have hnt : name.truthy = true := by
      cases name <;> simp [isName] at hname
      simp [J.truthy, hname]
    have htyo : optOf type = some type := by simp [optOf, htype]
    rw [hargs, hprops, hsecs]
    simp only [createSec, makeId, hidv, Option.getD_some, getD_optOf, hnt, if_true, htyo,
      readCard_cardJ sc scd hsc, readCard_cardJ sc pcd hpc, hpd, hsd]
    simp
theorem denoteSecList_write {t : Transport} (sc : ScalarCodec t) (lib : Lib) : (l : List Sec) →
    wfSecs lib l = true → reprSecs l = true →
    denoteSecList lib (Transport.applyList t (writeSecs l)) = some l
  | [], _, _ => by simp [writeSecs, Transport.applyList, denoteSecList]
  | s :: r, hwf, hr => by
    simp only [wfSecs, reprSecs, Bool.and_eq_true] at hwf hr
    simp [writeSecs, Transport.applyList, denoteSecList, denoteSec_write sc lib s hwf.1 hr.1,
      denoteSecList_write sc lib r hwf.2 hr.2]
end

/-- The pairs `to_dict` emits for the Document. -/
def docKvs (d : Doc) : List (String × J) :=
  [("id", J.str d.id)] ++ emit "version" d.version ++ emit "author" d.author ++
  emit "date" d.date ++ [("sections", J.arr (writeSecs d.secs))] ++ emit "repository" d.repository

theorem docKvs_keys (d : Doc) :
    (∀ kv ∈ docKvs d, docLayoutKeys.contains kv.1 = true) ∧ (keysOf (docKvs d)).Nodup := by
  have hs : (keysOf (docKvs d)).Sublist
      (["id"] ++ ["version"] ++ ["author"] ++ ["date"] ++ ["sections"] ++ ["repository"]) := by
    simp only [docKvs, keysOf_append]
    refine List.Sublist.append (List.Sublist.append (List.Sublist.append (List.Sublist.append
      (List.Sublist.append ?_ ?_) ?_) ?_) ?_) ?_ <;>
      first | exact keysOf_emit_sublist _ _ | exact List.Sublist.refl _
  constructor
  · intro kv hkv
    have hall : ∀ k ∈ (["id"] ++ ["version"] ++ ["author"] ++ ["date"] ++ ["sections"] ++
        ["repository"] : List String), docLayoutKeys.contains k = true := by decide
    exact hall kv.1 (hs.subset (by simp only [keysOf, List.mem_map]; exact ⟨kv, hkv, rfl⟩))
  · exact List.Nodup.sublist hs (by decide)

theorem denote_write {t : Transport} (sc : ScalarCodec t) (lib : Lib) (d : Doc)
    (hwf : wfDoc lib d = true) (hr : dictRepr d = true) :
    denote lib (t.apply (wrap (writeDoc d))) = some d := by
  obtain ⟨hL, hn⟩ := docKvs_keys d
  rw [writeDoc_eq]
  change denote lib (t.apply (.obj [("Document", .obj (docKvs d)),
    ("odml-version", .str Gen.Format.formatVersion)])) = some d
  have hroot : (keysOf [("Document", J.obj (docKvs d)),
      ("odml-version", J.str Gen.Format.formatVersion)]).Nodup := by
    simp only [keysOf, List.map_cons, List.map_nil]; decide
  simp only [Transport.apply, denote, find_transport sc _ _ hroot]
  simp only [find_cons, find_nil]
  simp only [show (("Document" : String) == "Document") = true from by decide,
    show (("Document" : String) == "odml-version") = false from by decide,
    show (("odml-version" : String) == "odml-version") = true from by decide, if_true,
    Bool.false_eq_true, if_false, Option.map_some, Transport.apply, sc.str]
  have hcond := layout_cond_transport sc docLayoutKeys (docKvs d) hL hn
  simp only [Bool.and_eq_true] at hcond
  simp only [hcond.1, hcond.2, beq_self_eq_true, Bool.and_self, if_true]
  simp only [wfDoc, Bool.and_eq_true, Bool.not_eq_true'] at hwf
  obtain ⟨⟨⟨hid, hdate⟩, hsw⟩, hsd⟩ := hwf
  simp only [dictRepr, Bool.and_eq_true] at hr
  obtain ⟨⟨⟨hv, ha⟩, hrp⟩, hsr⟩ := hr
  have hsecs : secsOfKvs lib (t.order (Transport.applyKvs t (docKvs d))) = some d.secs := by
    rw [secsOfKvs_find, find_transport sc _ _ hn]
    simp [docKvs, find_append, find_cons, find_emit, orElse_none_left, orElse_some_left,
      Transport.apply, denoteSecsJ, denoteSecList_write sc lib d.secs hsw hsr]
  have hargs : docArgsOf (fun py => find (odmlName Gen.Format.documentMap py)
        (t.order (Transport.applyKvs t (docKvs d)))) =
      { oid := some (.str d.id), version := optOf d.version, author := optOf d.author,
        date := (optOf d.date).map t.apply, repository := optOf d.repository } := by
    simp only [docArgsOf, find_transport sc _ _ hn]
    simp [odmlName, Gen.Format.documentMap, docKvs, find_append, find_cons, find_emit,
      map_apply_optOf sc, hv, ha, hrp, apply_str sc, orElse_none_right, orElse_none_left,
      orElse_some_left]
  have hidv : lib.uuid d.id = some d.id := by simpa [idOk] using hid
  rw [hargs, hsecs]
  simp only [createDoc, makeId, hidv, Option.getD_some, getD_optOf, hsd]
  cases hdt : d.date <;> simp [hdt] at hdate
  · simp only [optOf, J.isSet, getD, J.truthy, Option.map_none, Option.getD_none]
    cases d; simp_all
  · rename_i s
    obtain ⟨hne, hdate⟩ := hdate
    rcases sc.date s with h1 | h1 <;>
      simp only [optOf, J.isSet, getD, J.truthy, Transport.apply, h1, hdate, Option.map_some,
        Option.getD_some, if_true] <;> (cases d; simp_all)

end Dict
