/-
Which Sections `itersections` visits: exactly the valid positions at or below the start
whose depth is within `max_depth`.
-/
import OdmlModel.Proofs.PathIter

set_option linter.unusedSimpArgs false
set_option linter.unusedVariables false

namespace Path
open PathTree

/-- the Section reached from `s` through a relative position (`[]` is `s` itself) -/
def secBelow (s : Sec) (r : Pos) : Option Sec :=
  match r with
  | [] => some s
  | _ => secAt s.subs r

theorem secBelow_nil (s : Sec) : secBelow s [] = some s := rfl

theorem secBelow_cons (s : Sec) (j : Nat) (r : Pos) :
    secBelow s (j :: r) = (s.subs[j]?).bind (fun c => secBelow c r) := by
  cases r with
  | nil =>
    simp only [secBelow, secAt_single]
    cases s.subs[j]? <;> simp
  | cons k t =>
    simp only [secBelow]
    exact secAt_cons_cons _ _ _ _

theorem secAt_eq_secBelow (l : List Sec) (i : Nat) (r : Pos) :
    secAt l (i :: r) = (l[i]?).bind (fun c => secBelow c r) := by
  cases r with
  | nil =>
    simp only [secBelow, secAt_single]
    cases l[i]? <;> simp
  | cons k t =>
    simp only [secBelow]
    exact secAt_cons_cons _ _ _ _

theorem size_pos (s : Sec) : 1 ≤ s.size := by
  rw [Sec.size_eq]; omega

theorem size_le_sizeList {l : List Sec} {i : Nat} {s : Sec} (h : l[i]? = some s) :
    s.size ≤ sizeList l := by
  induction l generalizing i with
  | nil => simp at h
  | cons c r ih =>
    cases i with
    | zero => simp at h; subst h; simp
    | succ j =>
      simp at h
      have := ih h
      simp; omega

/-- a Section `k` levels below `s` needs `s` to have more than `k` Sections -/
theorem secBelow_depth (s t : Sec) (r : Pos) (h : secBelow s r = some t) : r.length < s.size := by
  induction r generalizing s with
  | nil => have := size_pos s; simp; omega
  | cons j r ih =>
    rw [secBelow_cons] at h
    cases hj : s.subs[j]? with
    | none => simp [hj] at h
    | some c =>
      simp only [hj, Option.bind_some] at h
      have h1 := ih c h
      have h2 := size_le_sizeList hj
      have h3 := Sec.size_eq s
      simp; omega

/-- `e` is reached from `x` through the relative position `r`, every level on the way expanding -/
def ReachVia (md : Option Int) (x e : Entry) (r : Pos) : Prop :=
  e.1 = x.1 ++ r ∧ e.2.2 = x.2.2 + r.length ∧ secBelow x.2.1 r = some e.2.1 ∧
    (∀ j, j < r.length → expands md (x.2.2 + j) = true)

theorem mem_levels (md : Option Int) (n : Nat) (xs : List Entry) (e : Entry) :
    e ∈ levelsUpTo md xs n ↔ ∃ x ∈ xs, ∃ r : Pos, r.length < n ∧ ReachVia md x e r := by
  induction n generalizing xs with
  | zero => simp [levelsUpTo]
  | succ n ih =>
    simp only [levelsUpTo, List.mem_append]
    constructor
    · rintro (he | he)
      · exact ⟨e, he, [], by simp, by simp [ReachVia, secBelow]⟩
      · obtain ⟨y, hy, r', hr', h1, h2, h3, h4⟩ := (ih _).1 he
        rw [List.mem_flatMap] at hy
        obtain ⟨x, hx, hy⟩ := hy
        rw [mem_pushed] at hy
        obtain ⟨hexp, j, s, hj, hy⟩ := hy
        subst hy
        refine ⟨x, hx, j :: r', by simp; omega, ?_, ?_, ?_, ?_⟩
        · simpa using h1
        · simp only at h2; simp; omega
        · rw [secBelow_cons, hj]; simpa using h3
        · intro j' hj'
          cases j' with
          | zero => simpa using hexp
          | succ m =>
            have := h4 m (by simp at hj'; omega)
            simp only at this
            rw [← this]; congr 1; omega
    · rintro ⟨x, hx, r, hr, h1, h2, h3, h4⟩
      cases r with
      | nil =>
        left
        have : e = x := by
          obtain ⟨e1, e2, e3⟩ := e
          obtain ⟨x1, x2, x3⟩ := x
          simp [secBelow] at h1 h2 h3
          simp [h1, h2, h3]
        rw [this]; exact hx
      | cons j r' =>
        right
        rw [secBelow_cons] at h3
        cases hj : x.2.1.subs[j]? with
        | none => simp [hj] at h3
        | some s =>
          simp only [hj, Option.bind_some] at h3
          have hexp := h4 0 (by simp)
          simp only [Nat.add_zero] at hexp
          apply (ih _).2
          refine ⟨(x.1 ++ [j], s, x.2.2 + 1), ?_, r', by simp at hr; omega, ?_, ?_, h3, ?_⟩
          · rw [List.mem_flatMap]
            exact ⟨x, hx, (mem_pushed md x _).2 ⟨hexp, j, s, hj, rfl⟩⟩
          · simpa using h1
          · simp only [List.length_cons] at h2; simp only; omega
          · intro m hm
            have := h4 (m + 1) (by simp; omega)
            simp only
            rw [← this]; congr 1; omega

/-- `max_depth` admits depth `k` (relative to the start) -/
def withinDepth (md : Option Int) (k : Nat) : Prop :=
  match md with
  | none => True
  | some m => (k : Int) ≤ m

theorem expands_all_iff (md : Option Int) (k : Nat) :
    (∀ j, j < k → expands md (0 + j) = true) ↔ k = 0 ∨ withinDepth md k := by
  cases md with
  | none => simp [expands, withinDepth]
  | some m =>
    simp only [expands, withinDepth, decide_eq_true_eq, Nat.zero_add]
    constructor
    · intro h
      cases k with
      | zero => left; rfl
      | succ k' =>
        right
        have := h k' (by omega)
        omega
    · rintro (h | h) j hj
      · omega
      · omega

theorem expands_all_doc_iff (md : Option Int) (k : Nat) :
    (docExpands md = true ∧ ∀ j, j < k → expands md (1 + j) = true) ↔ withinDepth md (k + 1) := by
  cases md with
  | none => simp [expands, withinDepth, docExpands]
  | some m =>
    simp only [expands, withinDepth, docExpands, decide_eq_true_eq]
    constructor
    · rintro ⟨h0, h⟩
      cases k with
      | zero => omega
      | succ k' =>
        have := h k' (by omega)
        omega
    · intro h
      refine ⟨by omega, ?_⟩
      intro j hj
      omega

theorem mem_filter_map_pos (l : List Entry) (g : Entry → Bool) (p : Pos) :
    p ∈ (l.filter g).map (·.1) ↔ ∃ e ∈ l, g e = true ∧ e.1 = p := by
  simp only [List.mem_map, List.mem_filter]
  constructor
  · rintro ⟨e, ⟨h1, h2⟩, h3⟩; exact ⟨e, h1, h2, h3⟩
  · rintro ⟨e, h1, h2, h3⟩; exact ⟨e, ⟨h1, h2⟩, h3⟩

/-- the Sections `itersections` yields when started on a Section -/
theorem mem_itersections_section (d : Doc) (start : Pos) (s0 : Sec) (md : Option Int) (ys : Bool)
    (f : Sec → Bool) (hs : secAt d.secs start = some s0) (p : Pos) :
    p ∈ itersections d start md ys f ↔
      ∃ r sec, p = start ++ r ∧ secAt d.secs p = some sec ∧ f sec = true ∧
        ((r = [] ∧ ys = true) ∨ (r ≠ [] ∧ withinDepth md r.length)) := by
  have hne := secAt_ne_nil _ _ _ hs
  have hq : initialQueue d start md = [(start, s0, 0)] := by
    unfold initialQueue
    cases start with
    | nil => exact absurd rfl hne
    | cons i t => simp [hs]
  have hbridge : ∀ r sec, secBelow s0 r = some sec ↔ secAt d.secs (start ++ r) = some sec := by
    intro r sec
    cases r with
    | nil => simp [secBelow, hs]
    | cons k t =>
      rw [secAt_append _ _ _ _ (by simp) (kidsAt_of_secAt _ _ _ hs)]
      simp [secBelow]
  unfold itersections
  rw [bfs_eq_levels md _ _ (Nat.lt_succ_self _), mem_filter_map_pos, hq]
  constructor
  · rintro ⟨e, he, hk, hp⟩
    obtain ⟨x, hx, r, hr, h1, h2, h3, h4⟩ := (mem_levels _ _ _ _).1 he
    simp only [List.mem_singleton] at hx
    subst hx
    simp only at h1 h2 h3 h4
    refine ⟨r, e.2.1, by rw [← hp, h1], ?_, ?_, ?_⟩
    · rw [← hp, h1]; exact (hbridge r _).1 h3
    · simp only [Bool.and_eq_true] at hk; exact hk.1
    · simp only [Bool.and_eq_true] at hk
      have h5 := (expands_all_iff md r.length).1 h4
      by_cases hr0 : r = []
      · left
        refine ⟨hr0, ?_⟩
        have : e.2.2 = 0 := by rw [h2, hr0]; simp
        simpa [this] using hk.2
      · right
        refine ⟨hr0, ?_⟩
        rcases h5 with h5 | h5
        · exact absurd (List.length_eq_zero_iff.1 h5) hr0
        · exact h5
  · rintro ⟨r, sec, hp, hsec, hf, hcond⟩
    have hb := (hbridge r sec).2 (by rw [← hp]; exact hsec)
    refine ⟨(p, sec, r.length), ?_, ?_, rfl⟩
    · apply (mem_levels _ _ _ _).2
      refine ⟨(start, s0, 0), by simp, r, ?_, hp, by simp, hb, ?_⟩
      · have := secBelow_depth _ _ _ hb
        simp [qsize]; omega
      · apply (expands_all_iff md r.length).2
        rcases hcond with ⟨h, _⟩ | ⟨_, h⟩
        · left; simp [h]
        · right; exact h
    · simp only [Bool.and_eq_true]
      refine ⟨hf, ?_⟩
      rcases hcond with ⟨h, hy⟩ | ⟨h, _⟩
      · simp [h, hy]
      · have : r.length ≠ 0 := fun h0 => h (List.length_eq_zero_iff.1 h0)
        simp [this]

/-- the Sections `itersections` yields when started on the Document -/
theorem mem_itersections_document (d : Doc) (md : Option Int) (ys : Bool) (f : Sec → Bool) (p : Pos) :
    p ∈ itersections d [] md ys f ↔
      ∃ sec, secAt d.secs p = some sec ∧ f sec = true ∧ withinDepth md p.length := by
  unfold itersections
  rw [bfs_eq_levels md _ _ (Nat.lt_succ_self _), mem_filter_map_pos]
  constructor
  · rintro ⟨e, he, hk, hp⟩
    obtain ⟨x, hx, r, hr, h1, h2, h3, h4⟩ := (mem_levels _ _ _ _).1 he
    unfold initialQueue at hx
    simp only at hx
    cases hde : docExpands md with
    | false => simp [hde] at hx
    | true =>
      simp only [hde, ↓reduceIte, mem_kidsFrom] at hx
      obtain ⟨i, s, hi, hx⟩ := hx
      subst hx
      simp only [List.nil_append, Nat.zero_add] at h1 h2 h3 h4
      refine ⟨e.2.1, ?_, ?_, ?_⟩
      · rw [← hp, h1]
        simp only [List.cons_append, List.nil_append]
        rw [secAt_eq_secBelow, hi]; simpa using h3
      · simp only [Bool.and_eq_true] at hk; exact hk.1
      · rw [← hp, h1]
        have := (expands_all_doc_iff md r.length).1 ⟨hde, h4⟩
        simpa using this
  · rintro ⟨sec, hsec, hf, hd⟩
    cases p with
    | nil => simp [secAt] at hsec
    | cons i r =>
      rw [secAt_eq_secBelow] at hsec
      cases hi : d.secs[i]? with
      | none => simp [hi] at hsec
      | some s =>
        simp only [hi, Option.bind_some] at hsec
        have hdd := (expands_all_doc_iff md r.length).2 (by simpa using hd)
        refine ⟨(i :: r, sec, 1 + r.length), ?_, ?_, rfl⟩
        · apply (mem_levels _ _ _ _).2
          refine ⟨([i], s, 1), ?_, r, ?_, by simp, by simp, hsec, hdd.2⟩
          · unfold initialQueue
            simp only [hdd.1, ↓reduceIte, mem_kidsFrom]
            exact ⟨i, s, hi, by simp⟩
          · have h1 := secBelow_depth _ _ _ hsec
            have h2 := size_le_sizeList hi
            unfold initialQueue
            simp only [hdd.1, ↓reduceIte, qsize_kidsFrom]
            omega
        · simp only [Bool.and_eq_true]
          refine ⟨hf, ?_⟩
          have : 1 + r.length ≠ 0 := by omega
          simp [this]

end Path

namespace Path
open PathTree

/-! ## iterproperties -/

theorem mem_propsOf (p : Pos) (f : PropT → Bool) (i : Nat) (l : List PropT) (x : Pos × Nat) :
    x ∈ propsOf p f i l ↔ x.1 = p ∧ ∃ j pr, l[j]? = some pr ∧ x.2 = i + j ∧ f pr = true := by
  induction l generalizing i with
  | nil => simp [propsOf]
  | cons c r ih =>
    simp only [propsOf, List.mem_append, ih]
    constructor
    · rintro (h | ⟨h1, j, pr, hj, hk, hf⟩)
      · split at h
        · rename_i hf
          simp at h
          exact ⟨by rw [h], 0, c, by simp, by rw [h]; simp, hf⟩
        · simp at h
      · exact ⟨h1, j + 1, pr, by simpa using hj, by omega, hf⟩
    · rintro ⟨h1, j, pr, hj, hk, hf⟩
      cases j with
      | zero =>
        left
        simp at hj; subst hj
        simp only [hf, ↓reduceIte, List.mem_singleton]
        obtain ⟨a, b⟩ := x
        simp at h1 hk
        simp [h1, hk]
      | succ j => right; exact ⟨h1, j, pr, by simpa using hj, by omega, hf⟩

theorem propsOf_pairwise (p : Pos) (f : PropT → Bool) (i : Nat) (l : List PropT) :
    (propsOf p f i l).Pairwise (fun a b => a.1.length ≤ b.1.length ∧ a ≠ b) := by
  induction l generalizing i with
  | nil => simp [propsOf]
  | cons c r ih =>
    simp only [propsOf]
    rw [List.pairwise_append]
    refine ⟨by split <;> simp, ih (i + 1), ?_⟩
    intro a ha b hb
    rw [mem_propsOf] at hb
    obtain ⟨hb1, j, pr, _, hbk, _⟩ := hb
    split at ha
    · simp at ha
      subst ha
      refine ⟨by rw [hb1]; exact Nat.le_refl _, ?_⟩
      intro h
      rw [← h] at hbk
      simp at hbk
      omega
    · simp at ha

theorem mem_iterproperties (d : Doc) (start : Pos) (md : Option Int) (f : PropT → Bool)
    (x : Pos × Nat) :
    x ∈ iterproperties d start md f ↔
      x.1 ∈ itersections d start md true (fun _ => true) ∧
      ∃ s pr, secAt d.secs x.1 = some s ∧ s.props[x.2]? = some pr ∧ f pr = true := by
  unfold iterproperties itersections
  rw [bfs_eq_levels md _ _ (Nat.lt_succ_self _), mem_filter_map_pos, List.mem_flatMap]
  have hv := levels_valid d md (qsize (initialQueue d start md) + 1) _ (initialQueue_valid d start md)
  constructor
  · rintro ⟨e, he, hx⟩
    rw [mem_propsOf] at hx
    obtain ⟨h1, j, pr, hj, hk, hf⟩ := hx
    refine ⟨⟨e, he, by simp, h1.symm⟩, e.2.1, pr, ?_, ?_, hf⟩
    · rw [h1]; exact hv e he
    · rw [hk]; simpa using hj
  · rintro ⟨⟨e, he, _, hp⟩, s, pr, hs, hk, hf⟩
    refine ⟨e, he, ?_⟩
    rw [mem_propsOf]
    have : e.2.1 = s := by
      have := hv e he
      unfold EntryValid at this
      rw [hp, hs] at this
      exact (Option.some.inj this).symm
    exact ⟨hp.symm, x.2, pr, by rw [this]; exact hk, by simp, hf⟩

theorem iterproperties_pairwise (d : Doc) (start : Pos) (md : Option Int) (f : PropT → Bool) :
    (iterproperties d start md f).Pairwise (fun a b => a.1.length ≤ b.1.length ∧ a ≠ b) := by
  unfold iterproperties
  rw [bfs_eq_levels md _ _ (Nat.lt_succ_self _)]
  obtain ⟨lvl, hl⟩ := initialQueue_levelOk d start md
  obtain ⟨h1, h2⟩ := levels_sorted_nodup md start.length
    (qsize (initialQueue d start md) + 1) lvl _ hl
  apply pairwise_flatMap
  · intro e _
    exact propsOf_pairwise _ _ _ _
  · refine List.Pairwise.imp_of_mem ?_ h1
    intro a b ha hb hab x hx y hy
    rw [mem_propsOf] at hx hy
    refine ⟨?_, ?_⟩
    · rw [hx.1, hy.1, (h2 a ha).2, (h2 b hb).2]
      omega
    · intro h
      apply hab.2
      rw [← hx.1, ← hy.1, h]

end Path
