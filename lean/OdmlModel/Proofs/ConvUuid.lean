/-
C15, whole-tree composition, part 2: `_add_id` run again on the same element.

`_check_add_ids` runs `_add_id` once per enclosing Section on every Property.  The second run finds
the id the first one stored: `uuid.UUID` accepts the canonical text it printed itself and prints
it the same way (`parseUuid_idem`), so the id does not change any more (`idOf_idem`).
-/
import OdmlModel.Proofs.Conv
namespace Conv
open Conv.Xml

def hexChars : List Char := "0123456789abcdefABCDEF".toList
def lowHexChars : List Char := "0123456789abcdef".toList

theorem char_of_toNat (c : Char) (n : Nat) (h : c.toNat = n) : c = Char.ofNat n := by
  rw [← h]; exact (Char.ofNat_toNat c).symm

theorem isHex_mem (c : Char) (h : isHex c = true) : c ∈ hexChars := by
  have hb : (48 ≤ c.toNat ∧ c.toNat ≤ 57) ∨ (97 ≤ c.toNat ∧ c.toNat ≤ 102) ∨
      (65 ≤ c.toNat ∧ c.toNat ≤ 70) := by
    simp only [isHex, Bool.or_eq_true, Bool.and_eq_true, decide_eq_true_eq] at h
    rcases h with (h | h) | h
    · exact Or.inl (Py.isDigit_bounds h)
    · right; left
      obtain ⟨h1, h2⟩ := h
      rw [Char.le_def, UInt32.le_iff_toNat_le] at h1 h2
      exact ⟨h1, h2⟩
    · right; right
      obtain ⟨h1, h2⟩ := h
      rw [Char.le_def, UInt32.le_iff_toNat_le] at h1 h2
      exact ⟨h1, h2⟩
  have hn : c.toNat = 48 ∨ c.toNat = 49 ∨ c.toNat = 50 ∨ c.toNat = 51 ∨ c.toNat = 52 ∨ c.toNat = 53 ∨
      c.toNat = 54 ∨ c.toNat = 55 ∨ c.toNat = 56 ∨ c.toNat = 57 ∨ c.toNat = 97 ∨ c.toNat = 98 ∨
      c.toNat = 99 ∨ c.toNat = 100 ∨ c.toNat = 101 ∨ c.toNat = 102 ∨ c.toNat = 65 ∨ c.toNat = 66 ∨
      c.toNat = 67 ∨ c.toNat = 68 ∨ c.toNat = 69 ∨ c.toNat = 70 := by omega
  rcases hn with h | h | h | h | h | h | h | h | h | h | h | h | h | h | h | h | h | h | h | h | h | h <;>
    (rw [char_of_toNat c _ h]; decide)

theorem hexChars_facts : ∀ c ∈ hexChars, c.toLower ∈ lowHexChars := by decide
theorem lowHexChars_facts : ∀ c ∈ lowHexChars,
    isHex c = true ∧ c.toLower = c ∧ c ≠ 'u' ∧ c ≠ '{' ∧ c ≠ '}' ∧ c ≠ '-' := by decide

theorem removeAllGo_no_head (c0 : Char) (rest s : List Char) (h : c0 ∉ s) :
    removeAllGo (c0 :: rest) 0 s = s := by
  induction s with
  | nil => rfl
  | cons c cs ih =>
    have hc : (c0 == c) = false := by
      simp only [beq_eq_false_iff_ne, ne_eq]; intro e; apply h; simp [e]
    have hp : (c0 :: rest).isPrefixOf (c :: cs) = false := by simp [List.isPrefixOf, hc]
    simp only [removeAllGo, hp, Bool.false_and, Bool.false_eq_true, ↓reduceIte]
    rw [ih (fun hm => h (List.mem_cons_of_mem _ hm))]

theorem dropWhile_of_all_false (p : Char → Bool) (s : List Char) (h : ∀ c ∈ s, p c = false) :
    s.dropWhile p = s := by
  cases s with
  | nil => rfl
  | cons c cs => simp [List.dropWhile, h c (by simp)]

theorem mem_uuidFmt (h : List Char) (c : Char) (hm : c ∈ uuidFmt h) : c ∈ h ∨ c = '-' := by
  simp only [uuidFmt, List.mem_append, List.mem_cons, or_assoc] at hm
  rcases hm with hm | hm | hm | hm | hm | hm | hm | hm | hm <;>
    first
    | exact Or.inr hm
    | exact Or.inl (List.mem_of_mem_take hm)
    | exact Or.inl (List.mem_of_mem_drop hm)
    | exact Or.inl (List.mem_of_mem_drop (List.mem_of_mem_take hm))

theorem uuidFmt_filter (h : List Char) (hc : ∀ c ∈ h, c ∈ lowHexChars) :
    (uuidFmt h).filter (· != '-') = h := by
  have hf : ∀ l : List Char, (∀ c ∈ l, c ∈ h) → l.filter (· != '-') = l := by
    intro l hl
    rw [List.filter_eq_self]
    intro c hm
    have := (lowHexChars_facts c (hc c (hl c hm))).2.2.2.2.2
    simpa using this
  have hjoin : h.take 8 ++ ((h.drop 8).take 4 ++ ((h.drop 12).take 4 ++ ((h.drop 16).take 4 ++ h.drop 20))) = h := by
    have e1 : h.drop 12 = (h.drop 8).drop 4 := by simp
    have e2 : h.drop 16 = ((h.drop 8).drop 4).drop 4 := by simp
    have e3 : h.drop 20 = (((h.drop 8).drop 4).drop 4).drop 4 := by simp
    rw [e1, e2, e3]
    simp only [List.take_append_drop]
  have hd : (('-' : Char) != '-') = false := by decide
  simp only [uuidFmt, List.filter_append, List.filter_cons, hd, Bool.false_eq_true, ↓reduceIte]
  rw [hf _ (fun c hm => List.mem_of_mem_take hm),
    hf ((h.drop 8).take 4) (fun c hm => List.mem_of_mem_drop (List.mem_of_mem_take hm)),
    hf ((h.drop 12).take 4) (fun c hm => List.mem_of_mem_drop (List.mem_of_mem_take hm)),
    hf ((h.drop 16).take 4) (fun c hm => List.mem_of_mem_drop (List.mem_of_mem_take hm)),
    hf (h.drop 20) (fun c hm => List.mem_of_mem_drop hm)]
  simp only [List.append_assoc]
  exact hjoin

theorem uuidHex_uuidFmt (h : List Char) (hl : h.length = 32) (hc : ∀ c ∈ h, c ∈ lowHexChars) :
    uuidHex (uuidFmt h) = some h := by
  have hne : ∀ c ∈ uuidFmt h, c ≠ 'u' ∧ c ≠ '{' ∧ c ≠ '}' := by
    intro c hm
    rcases mem_uuidFmt h c hm with hm | hm
    · have := lowHexChars_facts c (hc c hm)
      exact ⟨this.2.2.1, this.2.2.2.1, this.2.2.2.2.1⟩
    · subst hm; decide
  have hu : 'u' ∉ uuidFmt h := fun hm => (hne _ hm).1 rfl
  have e1 : "urn:".toList = 'u' :: ['r', 'n', ':'] := by decide
  have e2 : "uuid:".toList = 'u' :: ['u', 'i', 'd', ':'] := by decide
  have hb : ∀ c ∈ uuidFmt h, (c == '{' || c == '}') = false := by
    intro c hm; have := hne c hm; simp [this.2.1, this.2.2]
  have hb' : ∀ c ∈ (uuidFmt h).reverse, (c == '{' || c == '}') = false := by
    intro c hm; exact hb c (List.mem_reverse.1 hm)
  have hall : h.all isHex = true := by
    simp only [List.all_eq_true]; intro c hm; exact (lowHexChars_facts c (hc c hm)).1
  have hmap : h.map Char.toLower = h := by
    calc h.map Char.toLower = h.map id :=
          List.map_congr_left (fun c hm => (lowHexChars_facts c (hc c hm)).2.1)
      _ = h := by simp
  simp only [uuidHex, removeAll, e1, e2, removeAllGo_no_head _ _ _ hu, stripBraces]
  rw [dropWhile_of_all_false _ _ hb, dropWhile_of_all_false _ _ hb', List.reverse_reverse,
    uuidFmt_filter h hc]
  simp [hl, hall, hmap]

/-- `uuid.UUID(str(uuid.UUID(t)))` is `uuid.UUID(t)`: the printed form is accepted and printed
    the same way. -/
theorem parseUuid_idem (t u : List Char) (h : parseUuid t = some u) : parseUuid u = some u := by
  unfold parseUuid at h ⊢
  cases hh : uuidHex t with
  | none => rw [hh] at h; cases h
  | some g =>
    rw [hh] at h
    simp only [Option.map_some, Option.some.injEq] at h
    subst h
    have hg : g.length = 32 ∧ ∀ c ∈ g, c ∈ lowHexChars := by
      unfold uuidHex at hh
      simp only [] at hh
      split at hh
      · rename_i hcond
        simp only [Bool.and_eq_true, decide_eq_true_eq, List.all_eq_true] at hcond
        simp only [Option.some.injEq] at hh
        subst hh
        refine ⟨by simpa using hcond.1, ?_⟩
        intro c hm
        simp only [List.mem_map] at hm
        obtain ⟨c', hc', rfl⟩ := hm
        exact hexChars_facts c' (isHex_mem c' (hcond.2 c' hc'))
      · cases hh
    rw [uuidHex_uuidFmt g hg.1 hg.2]
    rfl

/-- A second `_add_id` on the same element stores the same id. -/
theorem idOf_idem (fresh t : List Char) (hf : idOf fresh fresh = fresh) :
    idOf fresh (idOf fresh t) = idOf fresh t := by
  cases hp : parseUuid t with
  | none => simp only [idOf, hp]; exact hf
  | some u =>
    have := parseUuid_idem t u hp
    simp only [idOf, hp, this]

end Conv
