/-
Whole-document XML round trip (C01), part 1: generic machinery.

* `readKids_append`      the node loop of `parse_tag` over a concatenation;
* `KeySpec`, `readKids_keys`, `lookup_foldl`  the fold of per-key steps over ANY list of keys whose
  argument names are pairwise distinct (no dependence on the order of the format tables);
* `readKids_leaf`, `leafStep_text / _vals / _card`  the leaf branch on an element the writer emitted;
* `step_text / step_optText / step_card / step_vals`  one key of any class, under decidable table
  facts about that key (`textKeyOK` …, discharged by `decide` on the regenerated tables);
* `prop_step`  every key of a Property.
-/
import OdmlModel.Model.Xml
import OdmlModel.Model.XmlRepr
import OdmlModel.Proofs.Xml
set_option linter.unusedSimpArgs false
namespace Xml
open Py

theorem readKids_append (m : Mode) (lib : TokLib) (k : Kind) (tag : String) (a b : List X) :
    ∀ st, readKids m lib k tag (a ++ b) st =
      match readKids m lib k tag a st with
      | .error e => .error e
      | .ok st' => readKids m lib k tag b st' := by
  induction a with
  | nil => intro st; simp [readKids]
  | cons x xs ih =>
    intro st
    obtain ⟨t, at_, tx, ks⟩ := x
    simp only [List.cons_append]
    rw [readKids.eq_2, readKids.eq_2]
    split
    · split
      · split <;> simp only [ih]
      · split <;> simp only [ih]
    · split
      · rfl
      · split
        · rfl
        · simp only [ih]

/-! ### lookup in an association list with distinct keys -/

theorem lookup_of_mem_nodup {β} : ∀ (l : List (String × β)) (a : String) (v : β),
    (l.map (·.1)).Nodup → (a, v) ∈ l → l.lookup a = some v := by
  intro l
  induction l with
  | nil => intro a v _ h; simp at h
  | cons x xs ih =>
    intro a v hn hm
    obtain ⟨b, w⟩ := x
    simp only [List.map_cons, List.nodup_cons] at hn
    rcases List.mem_cons.mp hm with h | h
    · cases h; simp [List.lookup]
    · have hne : a ≠ b := by
        rintro rfl
        exact hn.1 (List.mem_map.mpr ⟨(a, v), h, rfl⟩)
      have : (a == b) = false := by simpa using hne
      simp [List.lookup, this, ih a v hn.2 h]

theorem lookup_none_of_not_mem {β} : ∀ (l : List (String × β)) (a : String),
    a ∉ l.map (·.1) → l.lookup a = none := by
  intro l
  induction l with
  | nil => intro a _; rfl
  | cons x xs ih =>
    intro a h
    obtain ⟨b, w⟩ := x
    simp only [List.map_cons, List.mem_cons, not_or] at h
    have : (a == b) = false := by simpa using h.1
    simp [List.lookup, this, ih a h.2]

/-- What the reader's node loop does with the elements the writer emitted for one key:
    at most one argument is assigned, children are collected, nothing is warned about. -/
structure KeySpec where
  arg : String → Option ArgV
  extra : String → List String → List String
  secs : String → List SecT
  props : String → List PropT

def KeySpec.entry (S : KeySpec) (f : Fmt) (k : String) : Option (String × ArgV) :=
  (S.arg k).map fun v => (f.pyName k, v)

def KeySpec.apply (S : KeySpec) (f : Fmt) (st : PT) (k : String) : PT :=
  { args := (S.entry f k).toList ++ st.args, extra := S.extra k st.extra,
    secs := st.secs ++ S.secs k, props := st.props ++ S.props k, warns := st.warns }

theorem KeySpec.lookup_apply (S : KeySpec) (f : Fmt) (st : PT) (k : String) (n : String)
    (hne : f.pyName k ≠ n) : (S.apply f st k).args.lookup n = st.args.lookup n := by
  have : (n == f.pyName k) = false := by simpa using Ne.symm hne
  cases h : S.arg k <;> simp [KeySpec.apply, KeySpec.entry, h, List.lookup, this]

/-- The fold of the per-key steps over any list of keys with pairwise distinct argument names. -/
theorem readKids_keys (m : Mode) (lib : TokLib) (κ : Kind) (tag : String) (S : KeySpec)
    (emit : String → List X) (rest : List X) :
    ∀ (L : List String) (st : PT),
      (L.map (fmtOf κ).pyName).Nodup →
      (∀ k ∈ L, st.args.lookup ((fmtOf κ).pyName k) = none) →
      (∀ k ∈ L, ∀ rest' st', st'.args.lookup ((fmtOf κ).pyName k) = none →
        readKids m lib κ tag (emit k ++ rest') st' =
          readKids m lib κ tag rest' (S.apply (fmtOf κ) st' k)) →
      readKids m lib κ tag (L.flatMap emit ++ rest) st =
        readKids m lib κ tag rest (L.foldl (S.apply (fmtOf κ)) st) := by
  intro L
  induction L with
  | nil => intro st _ _ _; simp
  | cons k ks ih =>
    intro st hn hfree hstep
    simp only [List.map_cons, List.nodup_cons] at hn
    simp only [List.flatMap_cons, List.append_assoc, List.foldl_cons]
    rw [hstep k (by simp) _ st (hfree k (by simp))]
    apply ih _ hn.2
    · intro k' hk'
      rw [S.lookup_apply]
      · exact hfree k' (by simp [hk'])
      · intro he
        exact hn.1 (List.mem_map.mpr ⟨k', hk', he.symm⟩)
    · intro k' hk'; exact hstep k' (by simp [hk'])

theorem foldl_apply_warns (S : KeySpec) (f : Fmt) : ∀ (L : List String) (st : PT),
    (L.foldl (S.apply f) st).warns = st.warns := by
  intro L; induction L with
  | nil => intro st; rfl
  | cons k ks ih => intro st; simp [ih, KeySpec.apply]

theorem foldl_apply_secs (S : KeySpec) (f : Fmt) : ∀ (L : List String) (st : PT),
    (L.foldl (S.apply f) st).secs = st.secs ++ L.flatMap S.secs := by
  intro L; induction L with
  | nil => intro st; simp
  | cons k ks ih => intro st; simp [ih, KeySpec.apply]

theorem foldl_apply_props (S : KeySpec) (f : Fmt) : ∀ (L : List String) (st : PT),
    (L.foldl (S.apply f) st).props = st.props ++ L.flatMap S.props := by
  intro L; induction L with
  | nil => intro st; simp
  | cons k ks ih => intro st; simp [ih, KeySpec.apply]

theorem foldl_apply_args (S : KeySpec) (f : Fmt) : ∀ (L : List String) (st : PT),
    (L.foldl (S.apply f) st).args = (L.filterMap (S.entry f)).reverse ++ st.args := by
  intro L; induction L with
  | nil => intro st; simp
  | cons k ks ih =>
    intro st
    cases h : S.entry f k <;> simp [ih, KeySpec.apply, h, List.filterMap_cons]

theorem entries_keys_sublist (S : KeySpec) (f : Fmt) : ∀ (L : List String),
    ((L.filterMap (S.entry f)).map (·.1)).Sublist (L.map f.pyName) := by
  intro L; induction L with
  | nil => simp
  | cons k ks ih =>
    cases h : S.arg k with
    | none => simp [List.filterMap_cons, KeySpec.entry, h]; exact List.Sublist.cons _ ih
    | some v => simp [List.filterMap_cons, KeySpec.entry, h]; exact ih

/-- After the fold every argument name holds exactly what its key contributed. -/
theorem lookup_foldl (S : KeySpec) (f : Fmt) (L : List String) (w : Nat)
    (hn : (L.map f.pyName).Nodup) (k : String) (hk : k ∈ L) :
    (L.foldl (S.apply f) ⟨[], [], [], [], w⟩).args.lookup (f.pyName k) = S.arg k := by
  rw [foldl_apply_args]
  simp only [List.append_nil]
  have hnd : (((L.filterMap (S.entry f)).reverse).map (·.1)).Nodup := by
    rw [List.map_reverse]
    have h0 := (entries_keys_sublist S f L).nodup hn
    simp only [List.Nodup, List.pairwise_reverse] at h0 ⊢
    exact h0.imp fun h => Ne.symm h
  cases h : S.arg k with
  | some v =>
    apply lookup_of_mem_nodup _ _ _ hnd
    simp only [List.mem_reverse, List.mem_filterMap]
    exact ⟨k, hk, by simp [KeySpec.entry, h]⟩
  | none =>
    apply lookup_none_of_not_mem
    simp only [List.map_reverse, List.mem_reverse, List.mem_map, List.mem_filterMap, not_exists, not_and]
    rintro ⟨n, v⟩ ⟨k', hk', he⟩ hnk
    simp only [KeySpec.entry, Option.map_eq_some_iff] at he
    obtain ⟨v', hv', he⟩ := he
    cases he
    simp only at hnk
    -- pyName k' = pyName k with both in L: k' = k
    have : k' = k := by
      clear hnd
      induction L with
      | nil => simp at hk
      | cons a as ih =>
        simp only [List.map_cons, List.nodup_cons] at hn
        rcases List.mem_cons.mp hk with rfl | hk1 <;> rcases List.mem_cons.mp hk' with rfl | hk2
        · rfl
        · exact absurd (List.mem_map.mpr ⟨k', hk2, hnk⟩) hn.1
        · exact absurd (List.mem_map.mpr ⟨k, hk1, hnk.symm⟩) hn.1
        · exact ih hn.2 hk1 hk2
    subst this
    rw [h] at hv'; cases hv'


theorem readKids_leaf (m : Mode) (lib : TokLib) (κ : Kind) (tag k : String) (s : Str)
    (rest : List X) (st : PT)
    (h1 : (fmtOf κ).keys.contains (lowerS k) = true)
    (h2 : (readerTags.contains (lowerS k) && (fmtOf κ).mapKeys.contains (lowerS k)) = false) :
    readKids m lib κ tag (leaf k s :: rest) st =
      match leafStep m (fmtOf κ) (lowerS k) (if s.isEmpty then none else some s) st with
      | .error e => .error e
      | .ok st' => readKids m lib κ tag rest st' := by
  rw [leaf, readKids.eq_2]
  simp only [h1, h2, if_true, Bool.false_eq_true, if_false]
  rfl

theorem strip_nil' : strip ([] : Str) = [] := by decide

theorem ne_nil_of_strip {s : Str} (h : (strip s).isEmpty = false) : s.isEmpty = false := by
  cases s with
  | nil => simp [strip_nil'] at h
  | cons c cs => rfl

theorem suffix_false {a b : List Char} (h : a.isSuffixOf b = false) : ¬ (a <:+ b) := by
  intro h'
  rw [List.isSuffixOf_iff_suffix.mpr h'] at h
  exact Bool.false_ne_true h.symm

/-- a text attribute: trimmed text, empty text = absent -/
theorem leafStep_text (m : Mode) (f : Fmt) (t : String) (s : Str) (st : PT)
    (hq : (strip s).isEmpty = true ∨
      ((f.pyName t == "values") = false ∧ "_cardinality".toList.isSuffixOf (f.pyName t).toList = false))
    (hn : st.args.lookup (f.pyName t) = none) :
    leafStep m f t (if s.isEmpty then none else some s) st =
      .ok { st with args := (f.pyName t, .text (normText (some s))) :: st.args } := by
  by_cases he : s.isEmpty = true
  · simp [leafStep, he, hn, normText]
  · rcases hq with hq | ⟨hv, hc⟩
    · simp [leafStep, he, hn, normText, hq]
    · have hc' := suffix_false hc
      have hc'' : ¬ (['_', 'c', 'a', 'r', 'd', 'i', 'n', 'a', 'l', 'i', 't', 'y'] <:+ (f.pyName t).toList) := hc'
      simp [leafStep, he, hn, hv, hc'', normText]

/-- the `<value>` element -/
theorem leafStep_vals (m : Mode) (f : Fmt) (t : String) (s : Str) (vs : List Str) (st : PT)
    (hv : f.pyName t = "values") (hs : (strip s).isEmpty = false) (hcsv : fromCsv s = .ok vs)
    (hn : st.args.lookup (f.pyName t) = none) :
    leafStep m f t (if s.isEmpty then none else some s) st =
      .ok { st with args := (f.pyName t, .vals vs) :: st.args } := by
  have he := ne_nil_of_strip hs
  rw [hv] at hn ⊢
  simp [leafStep, he, hn, hv, hs, hcsv]

/-- a cardinality element -/
theorem leafStep_card (m : Mode) (f : Fmt) (t : String) (s : Str) (st : PT)
    (hv : (f.pyName t == "values") = false)
    (hc : "_cardinality".toList.isSuffixOf (f.pyName t).toList = true)
    (hs : (strip s).isEmpty = false)
    (hn : st.args.lookup (f.pyName t) = none) :
    leafStep m f t (if s.isEmpty then none else some s) st =
      .ok { st with args := (f.pyName t, .card (Card.parseCardText s)) :: st.args } := by
  have he := ne_nil_of_strip hs
  have hc' : ['_', 'c', 'a', 'r', 'd', 'i', 'n', 'a', 'l', 'i', 't', 'y'] <:+ (f.pyName t).toList :=
    List.isSuffixOf_iff_suffix.mp hc
  simp [leafStep, he, hn, hv, hs, hc']


/-! ### the elements the writer emits for one key -/

def textArg (s : Str) : ArgV := .text (normText (some s))
def cardArg (c : Option Int × Option Int) : ArgV := .card (Card.parseCardText (Card.renderCardText c))
def valsArg (s : Str) (vs : List Str) : ArgV := if s.isEmpty then .text none else .vals vs

/-- table facts about one key that is read through the leaf branch -/
def leafKeyOK (κ : Kind) (k : String) : Bool :=
  lowerS k == k && (fmtOf κ).keys.contains k &&
  !(readerTags.contains k && (fmtOf κ).mapKeys.contains k)
def textKeyOK (κ : Kind) (k : String) : Bool :=
  leafKeyOK κ k && !((fmtOf κ).pyName k == "values") &&
  !("_cardinality".toList.isSuffixOf ((fmtOf κ).pyName k).toList)
def cardKeyOK (κ : Kind) (k : String) : Bool :=
  leafKeyOK κ k && !((fmtOf κ).pyName k == "values") &&
  "_cardinality".toList.isSuffixOf ((fmtOf κ).pyName k).toList
def valsKeyOK (κ : Kind) (k : String) : Bool :=
  leafKeyOK κ k && (fmtOf κ).pyName k == "values"

theorem readKids_leaf' (m : Mode) (lib : TokLib) (κ : Kind) (tag k : String) (s : Str)
    (rest : List X) (st : PT) (h : leafKeyOK κ k = true) :
    readKids m lib κ tag (leaf k s :: rest) st =
      match leafStep m (fmtOf κ) k (if s.isEmpty then none else some s) st with
      | .error e => .error e
      | .ok st' => readKids m lib κ tag rest st' := by
  simp only [leafKeyOK, Bool.and_eq_true, beq_iff_eq, Bool.not_eq_true'] at h
  obtain ⟨⟨h0, h1⟩, h2⟩ := h
  have := readKids_leaf m lib κ tag k s rest st (by rw [h0]; exact h1) (by rw [h0]; exact h2)
  rw [h0] at this
  exact this

theorem step_text (m : Mode) (lib : TokLib) (κ : Kind) (tag k : String) (h : textKeyOK κ k = true)
    (s : Str) (rest : List X) (st : PT) (hn : st.args.lookup ((fmtOf κ).pyName k) = none) :
    readKids m lib κ tag (leaf k s :: rest) st =
      readKids m lib κ tag rest { st with args := ((fmtOf κ).pyName k, textArg s) :: st.args } := by
  simp only [textKeyOK, Bool.and_eq_true, Bool.not_eq_true'] at h
  rw [readKids_leaf' _ _ _ _ _ _ _ _ h.1.1, leafStep_text m _ k s st (Or.inr ⟨h.1.2, h.2⟩) hn]
  rfl

theorem step_optText (m : Mode) (lib : TokLib) (κ : Kind) (tag k : String) (h : textKeyOK κ k = true)
    (o : Option Str) (rest : List X) (st : PT) (hn : st.args.lookup ((fmtOf κ).pyName k) = none) :
    readKids m lib κ tag (optLeaf k o ++ rest) st =
      readKids m lib κ tag rest
        { st with args := ((o.map textArg).map fun v => ((fmtOf κ).pyName k, v)).toList ++ st.args } := by
  cases o with
  | none => simp [optLeaf]
  | some s => simpa [optLeaf] using step_text m lib κ tag k h s rest st hn

theorem renderCardText_strip (c : Option Int × Option Int) :
    (strip (Card.renderCardText c)).isEmpty = false := by
  obtain ⟨a, b⟩ := c
  have : Card.renderCardText (a, b) =
      '(' :: ((Card.renderBound a ++ [',', ' '] ++ Card.renderBound b) ++ [')']) := by
    simp [Card.renderCardText]
  rw [this, strip_of_ends '(' ')' _ (by decide) (by decide)]
  rfl

theorem step_card (m : Mode) (lib : TokLib) (κ : Kind) (tag k : String) (h : cardKeyOK κ k = true)
    (c : Card.Card) (rest : List X) (st : PT) (hn : st.args.lookup ((fmtOf κ).pyName k) = none) :
    readKids m lib κ tag (cardLeaf k c ++ rest) st =
      readKids m lib κ tag rest
        { st with args := ((c.map cardArg).map fun v => ((fmtOf κ).pyName k, v)).toList ++ st.args } := by
  simp only [cardKeyOK, Bool.and_eq_true, Bool.not_eq_true'] at h
  cases c with
  | none => simp [cardLeaf]
  | some c =>
    simp only [cardLeaf, List.singleton_append, Option.map_some, Option.toList_some]
    rw [readKids_leaf' _ _ _ _ _ _ _ _ h.1.1,
      leafStep_card m _ k _ st h.1.2 h.2 (renderCardText_strip c) hn]
    rfl

theorem step_vals (m : Mode) (lib : TokLib) (κ : Kind) (tag k : String) (h : valsKeyOK κ k = true)
    (s : Str) (vs : List Str)
    (hv : s.isEmpty = true ∨ ((strip s).isEmpty = false ∧ fromCsv s = .ok vs))
    (rest : List X) (st : PT) (hn : st.args.lookup ((fmtOf κ).pyName k) = none) :
    readKids m lib κ tag (leaf k s :: rest) st =
      readKids m lib κ tag rest { st with args := ((fmtOf κ).pyName k, valsArg s vs) :: st.args } := by
  simp only [valsKeyOK, Bool.and_eq_true, beq_iff_eq] at h
  rw [readKids_leaf' _ _ _ _ _ _ _ _ h.1]
  rcases hv with he | ⟨hs, hc⟩
  · have hs : (strip s).isEmpty = true := by
      have : s = [] := by simpa using he
      subst this; rfl
    rw [leafStep_text m _ k s st (Or.inl hs) hn]
    simp [valsArg, he, normText]
  · rw [leafStep_vals m _ k s vs st h.2 hs hc hn]
    simp [valsArg, ne_nil_of_strip hs]

/-! ### One Property element -/

def propArg (vs : List Str) (p : PropT) (k : String) : Option ArgV :=
  match k with
  | "id" => some (textArg (shown p.id))
  | "name" => some (textArg (shown (p.name <|> p.id)))
  | "value" => some (valsArg (valueText p) vs)
  | "unit" => p.unit.map textArg
  | "definition" => p.definition.map textArg
  | "dependency" => p.dependency.map textArg
  | "dependencyvalue" => p.dependencyValue.map textArg
  | "uncertainty" => (p.uncertainty.map (·.text)).map textArg
  | "reference" => p.reference.map textArg
  | "type" => p.dtype.map textArg
  | "value_origin" => p.valueOrigin.map textArg
  | "val_cardinality" => p.valCard.map cardArg
  | _ => none

def propSpec (vs : List Str) (p : PropT) : KeySpec :=
  { arg := propArg vs p, extra := fun _ e => e, secs := fun _ => [], props := fun _ => [] }

theorem apply_leafOnly (S : KeySpec) (f : Fmt) (st : PT) (k : String)
    (h1 : S.extra k st.extra = st.extra) (h2 : S.secs k = []) (h3 : S.props k = []) :
    S.apply f st k = { st with args := ((S.arg k).map fun v => (f.pyName k, v)).toList ++ st.args } := by
  simp [KeySpec.apply, KeySpec.entry, h1, h2, h3]

theorem prop_step (m : Mode) (lib : TokLib) (tag : String) (p : PropT) (vs : List Str)
    (hv : (valueText p).isEmpty = true ∨
      ((strip (valueText p)).isEmpty = false ∧ fromCsv (valueText p) = .ok vs))
    (k : String) (rest : List X) (st : PT)
    (hn : st.args.lookup ((fmtOf .prop).pyName k) = none) :
    readKids m lib .prop tag (propKey p k ++ rest) st =
      readKids m lib .prop tag rest ((propSpec vs p).apply (fmtOf .prop) st k) := by
  rw [apply_leafOnly _ _ _ _ rfl rfl rfl]
  unfold propKey
  split
  · exact step_text m lib .prop tag "id" (by decide) _ rest st hn
  · exact step_text m lib .prop tag "name" (by decide) _ rest st hn
  · exact step_vals m lib .prop tag "value" (by decide) _ vs hv rest st hn
  · exact step_optText m lib .prop tag "unit" (by decide) _ rest st hn
  · exact step_optText m lib .prop tag "definition" (by decide) _ rest st hn
  · exact step_optText m lib .prop tag "dependency" (by decide) _ rest st hn
  · exact step_optText m lib .prop tag "dependencyvalue" (by decide) _ rest st hn
  · exact step_optText m lib .prop tag "uncertainty" (by decide) _ rest st hn
  · exact step_optText m lib .prop tag "reference" (by decide) _ rest st hn
  · exact step_optText m lib .prop tag "type" (by decide) _ rest st hn
  · exact step_optText m lib .prop tag "value_origin" (by decide) _ rest st hn
  · exact step_card m lib .prop tag "val_cardinality" (by decide) _ rest st hn
  · rename_i h1 h2 h3 h4 h5 h6 h7 h8 h9 h10 h11 h12
    have : propArg vs p k = none := by
      unfold propArg
      split <;> first | rfl | (exfalso; simp_all)
    simp [propSpec, this]

end Xml
