/-
Helper lemmas about `Model/Link.lean`: merging a target that shares no child name appends
copies; `unmerge` removes exactly those copies; `BaseObject.__eq__` holds between a copy and
its original.
-/
import OdmlModel.Model.Link
import OdmlModel.Proofs.Merge
import OdmlModel.Proofs.Str

set_option linter.unusedSimpArgs false
set_option linter.unusedVariables false

namespace Link
open Merge
variable {V : Type}

/-- Python `==` is reflexive on the stored values (no NaN in the universe) -/
def EqRefl (cv : Conv V) : Prop := ∀ v, cv.eq v v = true

/-! ## Merging a target that shares no child name -/

def clones (r : Ref) (os : List (Sec V)) : List (Sec V) :=
  os.map (fun o => cloneMerged (r.child o.name) o)

theorem mergeSecs_disjoint (cv : Conv V) (k : Bool) (r : Ref) (os : List (Sec V)) :
    ∀ dsecs : List (Sec V), wfSecs cv os = true → (∀ o ∈ os, secNameIn dsecs o.name = false) →
      mergeSecs cv k r dsecs os = (dsecs ++ clones r os, .ok) := by
  induction os with
  | nil => intro dsecs _ _; simp [mergeSecs, clones]
  | cons o os ih =>
    intro dsecs hwf hd
    rw [wfSecs_cons] at hwf
    obtain ⟨_, hno, hwos⟩ := hwf
    have hn := hd o (List.mem_cons_self ..)
    have hf : findSec dsecs o.name o.type = none := by
      rw [findSec_none_iff]
      intro c hc h
      exact (secNameIn_false_iff _ _).1 hn c hc h.1
    rw [mergeSecs_cons_new cv k r dsecs os o hf hn, ih _ hwos]
    · simp [clones]
    · intro o' ho'
      rw [secNameIn_append, hd o' (List.mem_cons_of_mem _ ho')]
      simp
      intro he
      exact (secNameIn_false_iff _ _).1 hno o' ho' he.symm

theorem mergeProps_disjoint (cv : Conv V) (k : Bool) (os : List (PropT V)) :
    ∀ dprops : List (PropT V), namesNodup (os.map (·.name)) = true →
      (∀ o ∈ os, propNameIn dprops o.name = false) →
      mergeProps cv k dprops os = (dprops ++ os, .ok) := by
  induction os with
  | nil => intro dprops _ _; simp [mergeProps]
  | cons o os ih =>
    intro dprops hnd hd
    rw [List.map_cons, namesNodup_cons] at hnd
    have hn := hd o (List.mem_cons_self ..)
    have hf : findProp dprops o.name = none := (findProp_none_iff _ _).2 hn
    rw [mergeProps_cons_new cv k dprops os o hf, ih _ hnd.2]
    · simp
    · intro o' ho'
      unfold propNameIn
      have := hd o' (List.mem_cons_of_mem _ ho')
      unfold propNameIn at this
      simp at this ⊢
      refine ⟨this, ?_⟩
      intro he
      exact hnd.1 (he ▸ List.mem_map_of_mem (f := (·.name)) ho')

theorem mergeCheckSecs_disjoint (cv : Conv V) (k : Bool) (dsecs os : List (Sec V))
    (hd : ∀ o ∈ os, secNameIn dsecs o.name = false) : mergeCheckSecs cv k dsecs os = .ok := by
  rw [mergeCheckSecs_ok_iff]
  intro o ho mine hf
  have := findSec_some hf
  exact absurd this.2.1 ((secNameIn_false_iff _ _).1 (hd o ho) mine this.1)

theorem mergeCheckProps_disjoint (cv : Conv V) (k : Bool) (dprops os : List (PropT V))
    (hd : ∀ o ∈ os, propNameIn dprops o.name = false) : mergeCheckProps cv k dprops os = .ok := by
  rw [mergeCheckProps_ok_iff]
  intro o ho mine hf
  rw [(findProp_none_iff _ _).2 (hd o ho)] at hf; cases hf

theorem noClash_iff (l t : Sec V) :
    noClash l t = true ↔ (∀ o ∈ t.secs, secNameIn l.secs o.name = false) ∧
                         (∀ o ∈ t.props, propNameIn l.props o.name = false) := by
  unfold noClash; simp

/-- the lenient merge of a target sharing no child name: attributes filled, copies appended -/
theorem merge_noClash (cv : Conv V) (r : Ref) (l t : Sec V) (hwf : wfSec cv t = true)
    (hnc : noClash l t = true) :
    merge cv false r l t =
      (.mk { l.attrs with definition := fillText l.attrs.definition t.attrs.definition
                          reference := fillText l.attrs.reference t.attrs.reference
                          filledDef := (r.eff l.attrs).pick
                            (recFill l.attrs.definition t.attrs.definition l.attrs.filledDef)
                            l.attrs.filledDef
                          filledRef := (r.eff l.attrs).pick
                            (recFill l.attrs.reference t.attrs.reference l.attrs.filledRef)
                            l.attrs.filledRef
                          merged := (r.eff l.attrs).pick (some r) l.attrs.merged }
           (l.props ++ t.props) (l.secs ++ clones (r.eff l.attrs) t.secs), .ok) := by
  rw [noClash_iff] at hnc
  cases t with
  | mk ta tp ts =>
    rw [wfSec_mk] at hwf
    simp only [Sec.secs_mk, Sec.props_mk, Sec.attrs_mk] at hnc ⊢
    have hck : mergeCheck cv false l (.mk ta tp ts) = .ok := by
      unfold mergeCheck
      simp [mergeCheckSecs_disjoint cv false l.secs ts hnc.1,
            mergeCheckProps_disjoint cv false l.props tp hnc.2]
    have hcl : typeClash l (.mk ta tp ts) = false := by
      rw [typeClash]; exact typeClashSecs_disjoint l.secs ts hnc.1
    unfold merge
    rw [hck]
    simp only [hcl, Bool.false_eq_true, if_false,
               mergeSecs_disjoint cv false (r.eff l.attrs) ts l.secs hwf.2.2 hnc.1,
               mergeProps_disjoint cv false tp l.props hwf.1 hnc.2]

/-! ## A copy equals its original (`BaseObject.__eq__`) -/

theorem valuesEq_refl (cv : Conv V) (h : EqRefl cv) (vs : List V) : valuesEq cv vs vs = true := by
  induction vs with
  | nil => rfl
  | cons v vs ih => simp [valuesEq, h v, ih]

theorem propEq_refl (cv : Conv V) (h : EqRefl cv) (p : PropT V) : propEq cv p p = true := by
  simp [propEq, valuesEq_refl cv h]

theorem findProp_self (ps : List (PropT V)) (hnd : namesNodup (ps.map (·.name)) = true) :
    ∀ p ∈ ps, findProp ps p.name = some p := by
  induction ps with
  | nil => intro p hp; cases hp
  | cons p0 ps ih =>
    intro p hp
    rw [List.map_cons, namesNodup_cons] at hnd
    rcases List.mem_cons.1 hp with rfl | hp'
    · simp [findProp, List.find?]
    · have hne : p0.name ≠ p.name := fun he => hnd.1 (he ▸ List.mem_map_of_mem (f := (·.name)) hp')
      have : (p0.name == p.name) = false := by simpa using hne
      unfold findProp; rw [List.find?_cons, this]
      exact ih hnd.2 p hp'

theorem propsEq_refl (cv : Conv V) (h : EqRefl cv) (ps : List (PropT V))
    (hnd : namesNodup (ps.map (·.name)) = true) : propsEq cv ps ps = true := by
  unfold propsEq
  simp only [beq_self_eq_true, Bool.true_and, List.all_eq_true]
  intro p hp
  rw [findProp_self ps hnd p hp]
  exact propEq_refl cv h p

theorem find_nameIs_self (cv : Conv V) (ss : List (Sec V)) (hwf : wfSecs cv ss = true) :
    ∀ o ∈ ss, ss.find? (nameIs o.name) = some o := by
  induction ss with
  | nil => intro o ho; cases ho
  | cons o0 os ih =>
    intro o ho
    rw [wfSecs_cons] at hwf
    obtain ⟨_, hno, hwos⟩ := hwf
    rcases List.mem_cons.1 ho with rfl | ho'
    · simp [List.find?, nameIs]
    · have hne : o0.name ≠ o.name := fun he => (secNameIn_false_iff _ _).1 hno o ho' he.symm
      have : nameIs o.name o0 = false := by simp [nameIs]; exact hne
      rw [List.find?_cons, this]
      exact ih hwos o ho'

mutual
/-- a Section with the same content, differing at most in `_merged`, is `==` -/
theorem secEq_same (cv : Conv V) (h : EqRefl cv) :
    ∀ (s s' : Sec V), wfSec cv s = true → attrsEq s'.attrs s.attrs = true → s'.props = s.props →
      s'.secs = s.secs → secEq cv s' s = true
  | .mk a ps ss, s', hwf, ha, hp, hs => by
    rw [wfSec_mk] at hwf
    cases s' with
    | mk a' ps' ss' =>
      simp only [Sec.props_mk, Sec.secs_mk, Sec.attrs_mk] at ha hp hs
      subst hp; subst hs
      unfold secEq
      simp only [Sec.attrs_mk, Sec.props_mk, Sec.secs_mk, ha, propsEq_refl cv h _ hwf.1,
                 beq_self_eq_true, Bool.true_and]
      exact secsEqIn_self cv h ss' ss' hwf.2.2 (fun o ho => find_nameIs_self cv ss' hwf.2.2 o ho)
theorem secsEqIn_self (cv : Conv V) (h : EqRefl cv) :
    ∀ (os bs : List (Sec V)), wfSecs cv os = true →
      (∀ o ∈ os, bs.find? (nameIs o.name) = some o) → secsEqIn cv os bs = true
  | [], bs, _, _ => by unfold secsEqIn; rfl
  | o :: os, bs, hwf, hf => by
    rw [wfSecs_cons] at hwf
    unfold secsEqIn
    rw [hf o (List.mem_cons_self ..)]
    simp only [Bool.and_eq_true]
    refine ⟨secEq_same cv h o o hwf.1 ?_ rfl rfl,
            secsEqIn_self cv h os bs hwf.2.2 (fun o' ho' => hf o' (List.mem_cons_of_mem _ ho'))⟩
    simp [attrsEq]
end

theorem secEq_clone (cv : Conv V) (h : EqRefl cv) (r : Ref) (o : Sec V) (hwf : wfSec cv o = true) :
    secEq cv (cloneMerged r o) o = true :=
  secEq_same cv h o (cloneMerged r o) hwf (by simp [attrsEq, cloneMerged]) rfl rfl

/-! ## `unmerge` removes exactly the copies -/

theorem eraseFirst_append_single {α : Type} (p : α → Bool) (A : List α) (c : α)
    (hA : ∀ a ∈ A, p a = false) (hc : p c = true) : eraseFirst p (A ++ [c]) = A := by
  induction A with
  | nil => simp [eraseFirst, hc]
  | cons a A ih =>
    have := hA a (List.mem_cons_self ..)
    simp only [List.cons_append, eraseFirst, this]
    rw [ih (fun x hx => hA x (List.mem_cons_of_mem _ hx))]
    simp

theorem unmergeSecs_clones (cv : Conv V) (h : EqRefl cv) (r : Ref) (os : List (Sec V)) :
    ∀ A : List (Sec V), wfSecs cv os = true → (∀ o ∈ os, secNameIn A o.name = false) →
      unmergeSecs cv (A ++ clones r os) os = A := by
  induction os with
  | nil => intro A _ _; simp [unmergeSecs, clones]
  | cons o os ih =>
    intro A hwf hd
    rw [wfSecs_cons] at hwf
    obtain ⟨hwo, hno, hwos⟩ := hwf
    have hn := hd o (List.mem_cons_self ..)
    have hA : ∀ a ∈ A, secMatch o.name o.type a = false := by
      intro a ha
      have := (secNameIn_false_iff _ _).1 hn a ha
      simp [secMatch]; intro h1; exact absurd h1 this
    have hlist : A ++ clones r (o :: os) = (A ++ [cloneMerged (r.child o.name) o]) ++ clones r os := by
      simp [clones]
    have hf : findSec (A ++ clones r (o :: os)) o.name o.type =
        some (cloneMerged (r.child o.name) o) := by
      unfold findSec
      rw [List.find?_append]
      have : A.find? (secMatch o.name o.type) = none := by
        rw [List.find?_eq_none]; intro a ha; simp [hA a ha]
      rw [this]
      simp [clones, List.find?, secMatch]
    unfold unmergeSecs
    rw [hf]
    simp only [secEq_clone cv h _ o hwo, if_true]
    rw [hlist, ih (A ++ [cloneMerged (r.child o.name) o]) hwos]
    · exact eraseFirst_append_single _ A _ hA (by simp [secMatch])
    · intro o' ho'
      rw [secNameIn_append, hd o' (List.mem_cons_of_mem _ ho')]
      simp
      intro he
      exact (secNameIn_false_iff _ _).1 hno o' ho' he.symm

theorem unmergeProps_copies (cv : Conv V) (h : EqRefl cv) (os : List (PropT V)) :
    ∀ A : List (PropT V), namesNodup (os.map (·.name)) = true →
      (∀ o ∈ os, propNameIn A o.name = false) → unmergeProps cv (A ++ os) os = A := by
  induction os with
  | nil => intro A _ _; simp [unmergeProps]
  | cons o os ih =>
    intro A hnd hd
    rw [List.map_cons, namesNodup_cons] at hnd
    have hn := hd o (List.mem_cons_self ..)
    have hA : ∀ a ∈ A, (fun p : PropT V => p.name == o.name) a = false := by
      intro a ha
      unfold propNameIn at hn
      simp at hn ⊢
      exact hn a ha
    have hf : findProp (A ++ o :: os) o.name = some o := by
      unfold findProp
      rw [List.find?_append]
      have : A.find? (fun p => p.name == o.name) = none := by
        rw [List.find?_eq_none]; intro a ha; simp [hA a ha]
      rw [this]; simp [List.find?]
    have hlist : A ++ o :: os = (A ++ [o]) ++ os := by simp
    unfold unmergeProps
    rw [hf]
    simp only [propEq_refl cv h o, if_true]
    rw [hlist, ih (A ++ [o]) hnd.2]
    · exact eraseFirst_append_single _ A _ hA (by simp)
    · intro o' ho'
      have := hd o' (List.mem_cons_of_mem _ ho')
      unfold propNameIn at this ⊢
      simp at this ⊢
      refine ⟨this, ?_⟩
      intro he
      exact hnd.1 (he ▸ List.mem_map_of_mem (f := (·.name)) ho')

/-! ## Frame: an in-place update at one position leaves disjoint positions alone -/

theorem find_updFirst_other (n m : Str) (g : Sec V → Sec V) (l : List (Sec V))
    (hg : ∀ s, s.name = n → (g s).name = s.name) (hne : n ≠ m) :
    (updFirst (nameIs n) g l).find? (nameIs m) = l.find? (nameIs m) := by
  induction l with
  | nil => rfl
  | cons y ys ih =>
    unfold updFirst
    by_cases hp : nameIs n y = true
    · have hy : y.name = n := by simpa [nameIs] using hp
      have h1 : nameIs m (g y) = false := by simp [nameIs, hg y hy, hy]; exact hne
      have h2 : nameIs m y = false := by simp [nameIs, hy]; exact hne
      simp [hp, List.find?, h1, h2]
    · simp [hp, List.find?, ih]

theorem find_updFirst_same (n : Str) (g : Sec V → Sec V) (l : List (Sec V))
    (hg : ∀ s, s.name = n → (g s).name = s.name) :
    (updFirst (nameIs n) g l).find? (nameIs n) = (l.find? (nameIs n)).map g := by
  induction l with
  | nil => rfl
  | cons y ys ih =>
    unfold updFirst
    by_cases hp : nameIs n y = true
    · have hy : y.name = n := by simpa [nameIs] using hp
      have h1 : nameIs n (g y) = true := by simp [nameIs, hg y hy, hy]
      simp [hp, List.find?, h1]
    · simp [hp, List.find?, ih]

theorem isPrefix_cons (a b : Str) (as bs : List Str) :
    isPrefix (a :: as) (b :: bs) = (a == b && isPrefix as bs) := rfl

/-- `f` keeps the name of the Section it is applied to (the one named by the last step of the
    position): true of `fun _ => (merge … l t).1` at the position of `l` -/
def KeepsName (f : Sec V → Sec V) (p : List Str) : Prop :=
  ∀ nm, p.getLast? = some nm → ∀ s : Sec V, s.name = nm → (f s).name = s.name

theorem keepsName_tail (f : Sec V → Sec V) (n n2 : Str) (p2 : List Str)
    (h : KeepsName f (n :: n2 :: p2)) : KeepsName f (n2 :: p2) := by
  intro nm hl; exact h nm (by simpa [List.getLast?_cons_cons] using hl)

theorem secAt_updAt_diverge (f : Sec V → Sec V) :
    ∀ (p q : List Str) (l : List (Sec V)), KeepsName f p → p ≠ [] → q ≠ [] →
      diverge p q = true → secAt (updAt f p l) q = secAt l q := by
  intro p
  induction p with
  | nil => intro q l _ hp; exact absurd rfl hp
  | cons n p' ih =>
    intro q l hf _ hq hd
    cases q with
    | nil => exact absurd rfl hq
    | cons m q' =>
      unfold diverge at hd
      simp only [isPrefix_cons, Bool.and_eq_true, Bool.not_eq_true', Bool.and_eq_false_iff,
                 beq_eq_false_iff_ne, ne_eq] at hd
      by_cases hnm : n = m
      · subst hnm
        have hd1 : isPrefix p' q' = false := by
          rcases hd.1 with h | h
          · exact absurd rfl h
          · exact h
        have hd2 : isPrefix q' p' = false := by
          rcases hd.2 with h | h
          · exact absurd rfl h
          · exact h
        cases p' with
        | nil => simp [isPrefix] at hd1
        | cons n2 p2 =>
          cases q' with
          | nil => simp [isPrefix] at hd2
          | cons m2 q2 =>
            have hg : ∀ s : Sec V, s.name = n →
                (Sec.mk s.attrs s.props (updAt f (n2 :: p2) s.secs)).name = s.name :=
              fun s _ => rfl
            rw [updAt, secAt, secAt, find_updFirst_same n _ l hg]
            cases hfind : l.find? (nameIs n) with
            | none => rfl
            | some s =>
              simp only [Option.map_some, Sec.secs_mk]
              apply ih (m2 :: q2) s.secs (keepsName_tail f n n2 p2 hf) (by simp) (by simp)
              unfold diverge; simp [hd1, hd2]
      · have hgen : ∀ g : Sec V → Sec V, (∀ s, s.name = n → (g s).name = s.name) →
            secAt (updFirst (nameIs n) g l) (m :: q') = secAt l (m :: q') := by
          intro g hg
          cases q' with
          | nil => rw [secAt, secAt, find_updFirst_other n m g l hg hnm]
          | cons m2 q2 => rw [secAt, secAt, find_updFirst_other n m g l hg hnm]
        cases p' with
        | nil => rw [updAt]; exact hgen f (fun s hs => hf n rfl s hs)
        | cons n2 p2 => rw [updAt]; exact hgen _ (fun s _ => rfl)

theorem secAt_updAt_same (f : Sec V → Sec V) :
    ∀ (p : List Str) (l : List (Sec V)) (s : Sec V), KeepsName f p → secAt l p = some s →
      secAt (updAt f p l) p = some (f s) := by
  intro p
  induction p with
  | nil => intro l s _ h; simp [secAt] at h
  | cons n p' ih =>
    intro l s hf h
    cases p' with
    | nil =>
      rw [secAt] at h
      rw [updAt, secAt, find_updFirst_same n f l (fun s hs => hf n rfl s hs), h]; rfl
    | cons n2 p2 =>
      rw [secAt] at h
      have hg : ∀ s : Sec V, s.name = n →
          (Sec.mk s.attrs s.props (updAt f (n2 :: p2) s.secs)).name = s.name :=
        fun s _ => rfl
      rw [updAt, secAt, find_updFirst_same n _ l hg]
      cases hfind : l.find? (nameIs n) with
      | none => rw [hfind] at h; cases h
      | some c =>
        rw [hfind] at h
        simp only [Option.map_some, Sec.secs_mk]
        exact ih c.secs s (keepsName_tail f n n2 p2 hf) h

/-- the Section found at a position carries the name of the last step -/
theorem secAt_name : ∀ (p : List Str) (l : List (Sec V)) (s : Sec V) (nm : Str),
    secAt l p = some s → p.getLast? = some nm → s.name = nm := by
  intro p
  induction p with
  | nil => intro l s nm h; simp [secAt] at h
  | cons n p' ih =>
    intro l s nm h hl
    cases p' with
    | nil =>
      rw [secAt] at h
      have := List.find?_some h
      simp at hl; subst hl
      simpa [nameIs] using this
    | cons n2 p2 =>
      rw [secAt] at h
      cases hfind : l.find? (nameIs n) with
      | none => rw [hfind] at h; cases h
      | some c =>
        rw [hfind] at h
        exact ih c.secs s nm h (by simpa [List.getLast?_cons_cons] using hl)

theorem keepsName_const (p : List Str) (doc : List (Sec V)) (l x : Sec V)
    (hl : secAt doc p = some l) (hx : x.name = l.name) : KeepsName (fun _ => x) p := by
  intro nm hlast s hs
  rw [hx, secAt_name p doc l nm hl hlast, hs]

/-- the shape of one step of `finalize`: the document is untouched, or the Section at the
    position is replaced by its merge with the target -/
theorem linkStep_shape (cv : Conv V) (fetch : Str → Option (Doc V)) (doc : Doc V) (p : List Str) :
    (linkStep cv fetch doc p).1 = doc ∨
    ∃ l x, secAt doc p = some l ∧ x.name = l.name ∧ x.type = l.type ∧
      (linkStep cv fetch doc p).1 = updAt (fun _ => x) p doc := by
  unfold linkStep
  cases hl : secAt doc p with
  | none => exact Or.inl rfl
  | some l =>
    simp only
    have hc : ∀ n, (cleanSec cv (deref fetch doc) n l).name = l.name ∧
        (cleanSec cv (deref fetch doc) n l).type = l.type := by
      intro n
      cases n with
      | zero => exact ⟨rfl, rfl⟩
      | succ n =>
        unfold cleanSec
        simp only [Sec.name, Sec.type, Sec.attrs_mk]
        cases l.attrs.merged with
        | none => exact ⟨rfl, rfl⟩
        | some r =>
          simp only
          cases deref fetch doc r with
          | none => exact ⟨rfl, rfl⟩
          | some t => cases t; exact ⟨rfl, rfl⟩
    split
    · split
      · exact Or.inl rfl
      · rename_i t _
        refine Or.inr ⟨l, _, rfl, ?_, ?_, rfl⟩
        · exact (merge_name_type cv false _ _ t).1.trans (hc _).1
        · exact (merge_name_type cv false _ _ t).2.trans (hc _).2
    · split
      · exact Or.inl rfl
      · split
        · exact Or.inl rfl
        · rename_i t _
          refine Or.inr ⟨l, _, rfl, ?_, ?_, rfl⟩
          · exact (merge_name_type cv false _ _ _).1.trans (hc _).1
          · exact (merge_name_type cv false _ _ _).2.trans (hc _).2
    · exact Or.inl rfl

/-- one step of `finalize` changes at most the Section it is applied to: every Section at a
    disjoint position (the target, unrelated Sections) is untouched — whatever the outcome -/
theorem linkStep_frame (cv : Conv V) (fetch : Str → Option (Doc V)) (doc : Doc V)
    (p q : List Str) (hp : p ≠ []) (hq : q ≠ []) (hd : diverge p q = true) :
    secAt (linkStep cv fetch doc p).1 q = secAt doc q := by
  rcases linkStep_shape cv fetch doc p with h | ⟨l, x, hl, hx, _, h⟩
  · rw [h]
  · rw [h]
    exact secAt_updAt_diverge _ p q doc (keepsName_const p doc l x hl hx) hp hq hd

/-- the whole loop of `finalize`: a Section whose position is disjoint from every position the
    loop visits is untouched — whatever the outcome -/
theorem linkSteps_frame (cv : Conv V) (fetch : Str → Option (Doc V)) (ps : List (List Str)) :
    ∀ (doc : Doc V) (q : List Str), q ≠ [] → (∀ p ∈ ps, p ≠ [] ∧ diverge p q = true) →
      secAt (linkSteps cv fetch doc ps).1 q = secAt doc q := by
  induction ps with
  | nil => intro doc q _ _; rfl
  | cons p ps ih =>
    intro doc q hq h
    have hp := h p (List.mem_cons_self ..)
    unfold linkSteps
    split
    · rename_i doc' e he
      have := linkStep_frame cv fetch doc p q hp.1 hq hp.2
      rw [he] at this; exact this
    · rename_i doc' he
      rw [ih doc' q hq (fun p' hp' => h p' (List.mem_cons_of_mem _ hp'))]
      have := linkStep_frame cv fetch doc p q hp.1 hq hp.2
      rw [he] at this; exact this


/-- a Section without link and include is skipped by `finalize` -/
theorem linkStep_nolink (cv : Conv V) (fetch : Str → Option (Doc V)) (doc : Doc V) (p : List Str)
    (l : Sec V) (hl : secAt doc p = some l) (h1 : l.attrs.link = none) (h2 : l.attrs.incl = none) :
    linkStep cv fetch doc p = (doc, .ok) := by
  unfold linkStep
  simp only [hl, h1, h2]

/-- at a linking Section (link inside the document): the Section is replaced, in place, by the
    lenient merge of (its cleaned self) with the target found by the stored path -/
theorem linkStep_at_link (cv : Conv V) (fetch : Str → Option (Doc V)) (doc : Doc V)
    (p : List Str) (l t : Sec V) (txt : Str) (hl : secAt doc p = some l)
    (hk : l.attrs.link = some txt) (ht : secAt doc (parsePath txt) = some t) :
    let l1 := cleanSec cv (deref fetch doc) (height l + 1) l
    let r := merge cv false { url := none, path := parsePath txt } l1 t
    (linkStep cv fetch doc p).2 = r.2 ∧ secAt (linkStep cv fetch doc p).1 p = some r.1 := by
  simp only
  have hstep : linkStep cv fetch doc p =
      (updAt (fun _ => (merge cv false { url := none, path := parsePath txt }
          (cleanSec cv (deref fetch doc) (height l + 1) l) t).1) p doc,
       (merge cv false { url := none, path := parsePath txt }
          (cleanSec cv (deref fetch doc) (height l + 1) l) t).2) := by
    unfold linkStep
    simp only [hl, hk, ht]
  rw [hstep]
  refine ⟨rfl, ?_⟩
  have hc : (cleanSec cv (deref fetch doc) (height l + 1) l).name = l.name := by
    unfold cleanSec
    simp only [Sec.name, Sec.attrs_mk]
    cases l.attrs.merged with
    | none => rfl
    | some r =>
      simp only
      cases deref fetch doc r with
      | none => rfl
      | some t' => cases t'; rfl
  have hx := (merge_name_type cv false { url := none, path := parsePath txt }
      (cleanSec cv (deref fetch doc) (height l + 1) l) t).1.trans hc
  exact secAt_updAt_same _ p doc l (keepsName_const p doc l _ hl hx) hl



/-! ### The text of an include: `URL#path` -/

/-- a text without the separator is not split -/
theorem splitFirst_no_sep (sep : Char) (s : Str) (h : ∀ c ∈ s, (c == sep) = false) :
    splitFirst sep s = (s, none) := by
  induction s with
  | nil => rfl
  | cons c cs ih =>
    have hc : (c == sep) = false := h c (List.mem_cons_self ..)
    have := ih (fun d hd => h d (List.mem_cons_of_mem _ hd))
    simp [splitFirst, hc, this]

/-- the split is at the FIRST separator: whatever follows it — further separators included —
    is the second part -/
theorem splitFirst_append_sep (sep : Char) (s t : Str) (h : ∀ c ∈ s, (c == sep) = false) :
    splitFirst sep (s ++ sep :: t) = (s, some t) := by
  induction s with
  | nil => simp [splitFirst]
  | cons c cs ih =>
    have hc : (c == sep) = false := h c (List.mem_cons_self ..)
    have := ih (fun d hd => h d (List.mem_cons_of_mem _ hd))
    simp [splitFirst, hc, this]

theorem splitOn_absPath (n : Str) (ns : List Str)
    (h : ∀ m ∈ n :: ns, ∀ c ∈ m, (c == '/') = false) :
    Py.splitOn '/' (n ++ absPath ns) = n :: ns := by
  induction ns generalizing n with
  | nil =>
    simp only [absPath, List.flatMap_nil, List.append_nil]
    exact Py.splitOn_no_sep '/' n (h n (List.mem_cons_self ..))
  | cons m ms ih =>
    have hn := h n (List.mem_cons_self ..)
    have : absPath (m :: ms) = '/' :: (m ++ absPath ms) := by
      simp [absPath, List.flatMap_cons]
    rw [this, Py.splitOn_append_sep '/' n _ hn,
      ih m (fun x hx => h x (List.mem_cons_of_mem _ hx))]

/-- `parsePath` reads back the position a canonical path text was written from, for names
    without `/` (names with `/` cannot be addressed by a path at all: C14) -/
theorem parsePath_absPath (ns : List Str) (h : ∀ m ∈ ns, ∀ c ∈ m, (c == '/') = false) :
    parsePath (absPath ns) = ns := by
  cases ns with
  | nil => simp [parsePath, absPath, Py.splitOn]
  | cons n ms =>
    have : absPath (n :: ms) = '/' :: (n ++ absPath ms) := by
      simp [absPath, List.flatMap_cons]
    rw [parsePath, this]
    have hs : Py.splitOn '/' ('/' :: (n ++ absPath ms)) = [] :: Py.splitOn '/' (n ++ absPath ms) := by
      simp [Py.splitOn]
    rw [hs, splitOn_absPath n ms h]
    rfl

/-- at a Section with an include `url#path` (no link): the Section is replaced, in place, by the
    lenient merge of (its cleaned self) with the Section of the fetched document at that path -/
theorem linkStep_at_include (cv : Conv V) (fetch : Str → Option (Doc V)) (doc : Doc V)
    (p : List Str) (l t : Sec V) (txt u : Str) (tp : List Str) (term : Doc V)
    (hl : secAt doc p = some l) (h1 : l.attrs.link = none) (hk : l.attrs.incl = some txt)
    (hp : parseInclude txt = (u, some tp)) (hf : fetch u = some term)
    (ht : secAt term tp = some t) :
    let l1 := cleanSec cv (deref fetch doc) (height l + 1) l
    let r := merge cv false { url := some u, path := tp } l1 t
    (linkStep cv fetch doc p).2 = r.2 ∧ secAt (linkStep cv fetch doc p).1 p = some r.1 := by
  simp only
  have hstep : linkStep cv fetch doc p =
      (updAt (fun _ => (merge cv false { url := some u, path := tp }
          (cleanSec cv (deref fetch doc) (height l + 1) l) t).1) p doc,
       (merge cv false { url := some u, path := tp }
          (cleanSec cv (deref fetch doc) (height l + 1) l) t).2) := by
    unfold linkStep
    simp only [hl, h1, hk, hp, hf, ht, Option.map]
  rw [hstep]
  refine ⟨rfl, ?_⟩
  have hc : (cleanSec cv (deref fetch doc) (height l + 1) l).name = l.name := by
    unfold cleanSec
    simp only [Sec.name, Sec.attrs_mk]
    cases l.attrs.merged with
    | none => rfl
    | some r =>
      simp only
      cases deref fetch doc r with
      | none => rfl
      | some t' => cases t'; rfl
  have hx := (merge_name_type cv false { url := some u, path := tp }
      (cleanSec cv (deref fetch doc) (height l + 1) l) t).1.trans hc
  exact secAt_updAt_same _ p doc l (keepsName_const p doc l _ hl hx) hl


end Link
