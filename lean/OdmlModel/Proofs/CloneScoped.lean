/-
C11 helper lemmas, part 9: well-formedness of the store is an invariant of every operation.

`WFG K h`: every reference held by an allocated object or value list points to something allocated
(`K = false`: exactly `Scoped h`), and for `K = true` also the typing SmartList / `append` enforce in
the code: `_sections` holds Sections, `_props` holds Properties, the parent of a Property is a
Section, the parent of a Section is a Section or a Document.  One pass over the operations, generic in
`K`, proves both.
-/
import OdmlModel.Proofs.CloneIds
namespace Clone

def NodeWf (K : Bool) (h : H) (n : Node) : Prop :=
  (n.kind ≠ .doc → ∀ p, n.parent = some p →
    p < h.nN ∧ (K = true → (h.node p).kind ≠ .prop ∧ (n.kind = .prop → (h.node p).kind = .sec))) ∧
  (n.kind ≠ .prop → ∀ c, c ∈ n.secs → c < h.nN ∧ (K = true → (h.node c).kind = .sec)) ∧
  (n.kind = .sec → ∀ c, c ∈ n.props → c < h.nN ∧ (K = true → (h.node c).kind = .prop)) ∧
  (n.kind = .prop → ∀ c, n.vals = some c → c < h.nV)

structure WFG (K : Bool) (h : H) : Prop where
  node : ∀ a, a < h.nN → NodeWf K h (h.node a)
  cell : ∀ c, c < h.nV → ∀ t, Item.ref t ∈ h.vcell c → t < h.nT

/-- Well-formed store: no dangling references, child lists and parents well-typed. -/
abbrev WF (h : H) : Prop := WFG true h

theorem wfg_false_iff_scoped (h : H) : WFG false h ↔ Scoped h := by
  constructor
  · intro w
    refine ⟨fun a ha _ => ?_, fun c hc _ t ht => w.cell c hc t ht⟩
    obtain ⟨w1, w2, w3, w4⟩ := w.node a ha
    exact ⟨fun k p hp => (w1 k p hp).1, fun k c hc => (w2 k c hc).1, fun k c hc => (w3 k c hc).1, w4⟩
  · intro sc
    refine ⟨fun a ha => ?_, fun c hc t ht => sc.2 c hc hc t ht⟩
    obtain ⟨w1, w2, w3, w4⟩ := sc.1 a ha ha
    exact ⟨fun k p hp => ⟨w1 k p hp, fun hK => by cases hK⟩, fun k c hc => ⟨w2 k c hc, fun hK => by cases hK⟩,
      fun k c hc => ⟨w3 k c hc, fun hK => by cases hK⟩, w4⟩

theorem WFG.weaken {K h} (w : WFG K h) : WFG false h := by
  refine ⟨fun a ha => ?_, w.cell⟩
  obtain ⟨w1, w2, w3, w4⟩ := w.node a ha
  exact ⟨fun k p hp => ⟨(w1 k p hp).1, fun hK => by cases hK⟩, fun k c hc => ⟨(w2 k c hc).1, fun hK => by cases hK⟩,
    fun k c hc => ⟨(w3 k c hc).1, fun hK => by cases hK⟩, w4⟩

theorem WFG.scoped {K h} (w : WFG K h) : Scoped h := (wfg_false_iff_scoped h).1 w.weaken

theorem wfg_empty (K) : WFG K empty :=
  ⟨fun a ha => by simp [empty] at ha, fun c hc => by simp [empty] at hc⟩

/-- `NodeWf` only looks at the sizes and at the kinds of the allocated objects. -/
theorem NodeWf.mono {K h h' n} (mN : h.nN ≤ h'.nN) (mV : h.nV ≤ h'.nV)
    (hk : ∀ a, a < h.nN → (h'.node a).kind = (h.node a).kind) (w : NodeWf K h n) : NodeWf K h' n := by
  obtain ⟨w1, w2, w3, w4⟩ := w
  refine ⟨fun k p hp => ?_, fun k c hc => ?_, fun k c hc => ?_, fun k c hc => ?_⟩
  · obtain ⟨a, b⟩ := w1 k p hp
    exact ⟨by omega, fun hK => by rw [hk p a]; exact b hK⟩
  · obtain ⟨a, b⟩ := w2 k c hc
    exact ⟨by omega, fun hK => by rw [hk c a]; exact b hK⟩
  · obtain ⟨a, b⟩ := w3 k c hc
    exact ⟨by omega, fun hK => by rw [hk c a]; exact b hK⟩
  · have := w4 k c hc; omega

/-- The general transfer lemma: sizes grow, kinds of existing objects are kept, every object / list is
    either untouched or well-formed in the new store. -/
theorem wfg_of {K h h'} (w : WFG K h) (m : Mono h h')
    (hk : ∀ a, a < h.nN → (h'.node a).kind = (h.node a).kind)
    (hn : ∀ a, a < h'.nN → (a < h.nN ∧ h'.node a = h.node a) ∨ NodeWf K h' (h'.node a))
    (hc : ∀ c, c < h'.nV → (c < h.nV ∧ h'.vcell c = h.vcell c) ∨ ∀ t, Item.ref t ∈ h'.vcell c → t < h'.nT) :
    WFG K h' := by
  unfold Mono at m
  refine ⟨fun a ha => ?_, fun c hlt t ht => ?_⟩
  · rcases hn a ha with ⟨hl, he⟩ | hw
    · rw [he]; exact (w.node a hl).mono m.1 m.2.1 hk
    · exact hw
  · rcases hc c hlt with ⟨hl, he⟩ | hw
    · rw [he] at ht; have := w.cell c hl t ht; omega
    · exact hw t ht

/-! ### Primitive writes -/

theorem wfg_updN {K h} (w : WFG K h) (i : Nat) (f : Node → Node) (hi : i < h.nN)
    (hk : (f (h.node i)).kind = (h.node i).kind)
    (hf : NodeWf K h (h.node i) → NodeWf K h (f (h.node i))) : WFG K (updN h i f) := by
  have hk' : ∀ a, a < h.nN → ((updN h i f).node a).kind = (h.node a).kind := by
    intro a _; rw [updN_node]; split
    · rename_i e; subst e; exact hk
    · rfl
  refine wfg_of w (Mono.refl _) hk' (fun a ha => ?_) (fun c hc => Or.inl ⟨hc, rfl⟩)
  by_cases e : a = i
  · subst e
    right
    rw [updN_same]
    exact NodeWf.mono (h := h) (Nat.le_refl _) (Nat.le_refl _) hk' (hf (w.node a hi))
  · exact Or.inl ⟨ha, updN_other _ _ _ _ e⟩

theorem wfg_updV {K h} (w : WFG K h) (i : Nat) (f : List Item → List Item)
    (hf : (∀ t, Item.ref t ∈ h.vcell i → t < h.nT) → ∀ t, Item.ref t ∈ f (h.vcell i) → t < h.nT) (hi : i < h.nV) :
    WFG K (updV h i f) := by
  refine wfg_of w (Mono.refl _) (fun _ _ => rfl) (fun a ha => Or.inl ⟨ha, rfl⟩) (fun c hc => ?_)
  by_cases e : c = i
  · subst e; right
    rw [updV_vcell, if_pos rfl]
    exact hf (w.cell c hi)
  · left; exact ⟨hc, by rw [updV_vcell, if_neg e]⟩

theorem wfg_updT {K h} (w : WFG K h) (i : Nat) (f : List String → List String) : WFG K (updT h i f) :=
  wfg_of w (Mono.refl _) (fun _ _ => rfl) (fun _ ha => Or.inl ⟨ha, rfl⟩) (fun _ hc => Or.inl ⟨hc, rfl⟩)

theorem wfg_newId {K h} (w : WFG K h) (i : Nat) : WFG K (newId h i) := by
  have hk' : ∀ a, a < h.nN → ((newId h i).node a).kind = (h.node a).kind := by
    intro a _; rw [newId_node]; split <;> rfl
  refine wfg_of w ⟨Nat.le_refl _, Nat.le_refl _, Nat.le_refl _, by simp⟩ hk' (fun a ha => ?_)
    (fun c hc => Or.inl ⟨hc, rfl⟩)
  by_cases e : a = i
  · right
    rw [newId_node, if_pos e]
    exact NodeWf.mono (h := h) (h' := newId h i) (Nat.le_refl _) (Nat.le_refl _) hk' (w.node a ha)
  · exact Or.inl ⟨ha, by rw [newId_node, if_neg e]⟩

/-- Only the sizes of the inner-list space / the id counter grow. -/
theorem wfg_same {K h h'} (w : WFG K h) (hn : h'.node = h.node) (hv : h'.vcell = h.vcell) (eN : h'.nN = h.nN)
    (eV : h'.nV = h.nV) (mT : h.nT ≤ h'.nT) : WFG K h' := by
  refine ⟨fun a ha => ?_, fun c hc t ht => ?_⟩
  · rw [hn]; rw [eN] at ha
    exact (w.node a ha).mono (by omega) (by omega) (fun b _ => by rw [hn])
  · rw [hv] at ht; rw [eV] at hc; have := w.cell c hc t ht; omega

theorem wfg_allocT {K h} (w : WFG K h) (l : List String) : WFG K (allocT h l).1 :=
  wfg_same w rfl rfl rfl rfl (by simp)

theorem wfg_allocV {K h} (w : WFG K h) (l : List Item) (hl : ∀ t, Item.ref t ∈ l → t < h.nT) :
    WFG K (allocV h l).1 := by
  refine wfg_of w (ext_allocV h l).1 (fun _ _ => rfl) (fun a ha => Or.inl ⟨ha, rfl⟩) (fun c hc => ?_)
  by_cases e : c = h.nV
  · right; rw [allocV_vcell, if_pos e]; exact hl
  · left; simp at hc; exact ⟨by omega, by rw [allocV_vcell, if_neg e]⟩

theorem wfg_allocN {K h} (w : WFG K h) (n : Node) (hn : NodeWf K (allocN h n).1 n) : WFG K (allocN h n).1 := by
  have hk' : ∀ a, a < h.nN → ((allocN h n).1.node a).kind = (h.node a).kind := by
    intro a ha; rw [allocN_node, if_neg (by omega)]
  refine wfg_of w (ext_allocN h n).1 hk' (fun a ha => ?_) (fun c hc => Or.inl ⟨hc, rfl⟩)
  by_cases e : a = h.nN
  · right; rw [allocN_node, if_pos e]; exact hn
  · left; simp at ha; exact ⟨by omega, by rw [allocN_node, if_neg e]⟩

theorem wfg_conv {K h} (w : WFG K h) (src : List Item) :
    WFG K (convertItems h src).1 ∧ ∀ t, Item.ref t ∈ (convertItems h src).2 → t < (convertItems h src).1.nT := by
  have r := convertItems_spec src h
  exact ⟨wfg_same w r.node r.vcell r.nN r.nV r.ext.1.2.2.1, fun t ht => (r.fresh t ht).2⟩

theorem wfg_lit {K h} (w : WFG K h) (src : List Lit) :
    WFG K (litItems h src).1 ∧ ∀ t, Item.ref t ∈ (litItems h src).2 → t < (litItems h src).1.nT := by
  obtain ⟨e, a, b, _, d, f, g, _⟩ := litItems_spec src h
  exact ⟨wfg_same w d f a b e.1.2.2.1, fun t ht => (g t ht).2⟩

theorem wfg_set {K h h' p} (w : WFG K h) (sp : SetSpec h h' p) (hp : p < h.nN) : WFG K h' := by
  have hk' : ∀ a, a < h.nN → (h'.node a).kind = (h.node a).kind := by
    intro a _
    by_cases e : a = p
    · subst e; rw [sp.nodeP]
    · rw [sp.nodeO a e]
  have m := sp.mono
  refine wfg_of w m hk' (fun a ha => ?_) (fun c hc => ?_)
  · rw [sp.nN] at ha
    by_cases e : a = p
    · subst e; right
      rw [sp.nodeP]
      obtain ⟨w1, w2, w3, w4⟩ := (w.node a hp).mono (h' := h') (by rw [sp.nN]; exact Nat.le_refl _)
        (by rw [sp.nV]; omega) hk'
      refine ⟨w1, w2, w3, fun _ c hc => ?_⟩
      simp only [Option.some.injEq] at hc
      subst hc; rw [sp.nV]; omega
    · exact Or.inl ⟨ha, sp.nodeO a e⟩
  · rw [sp.nV] at hc
    by_cases e : c < h.nV
    · exact Or.inl ⟨e, sp.vB c e⟩
    · have : c = h.nV := by omega
      subst this
      right; intro t ht; exact (sp.cell t ht).2

/-! ### Value operations -/

/-- Bound on the inner-list references of a value list, as an `ItemsIn` statement. -/
def Rt (N : Nat) : Reg := ⟨fun _ => True, fun _ => True, fun t => t < N⟩

theorem lit_sizes (h : H) (src : List Lit) :
    (litItems h src).1.nN = h.nN ∧ (litItems h src).1.nV = h.nV ∧ (litItems h src).1.node = h.node ∧
    (litItems h src).1.vcell = h.vcell ∧ h.nT ≤ (litItems h src).1.nT := by
  obtain ⟨e, a, b, _, d, f, _, _⟩ := litItems_spec src h
  exact ⟨a, b, d, f, e.1.2.2.1⟩

theorem wfg_vals_lt {K h} (w : WFG K h) {p c : Nat} (hp : p < h.nN) (hk : (h.node p).kind = .prop)
    (hv : (h.node p).vals = some c) : c < h.nV := (w.node p hp).2.2.2 hk c hv

theorem wfg_getValues {K h} (w : WFG K h) (p : Nat) : WFG K (getValues h p).1 := by
  simp only [getValues]
  obtain ⟨w1, i1⟩ := wfg_conv w (valsOf h p)
  exact wfg_allocV w1 _ i1

theorem wfg_newList {K h} (w : WFG K h) (vs : List Lit) : WFG K (newList h vs).1 := by
  simp only [newList]
  obtain ⟨w1, i1⟩ := wfg_lit w vs
  exact wfg_allocV w1 _ i1

theorem wfg_litAppend {K h} (w : WFG K h) (c : Nat) (v : Lit) (hc : c < h.nV) :
    WFG K (updV (litItems h [v]).1 c (fun l => l ++ (litItems h [v]).2)) := by
  obtain ⟨w1, i1⟩ := wfg_lit w [v]
  have sz := lit_sizes h [v]
  refine wfg_updV w1 c _ (fun hin => ?_) (by rw [sz.2.1]; exact hc)
  exact itemsIn_append (R := Rt _) hin i1

theorem wfg_litSet {K h} (w : WFG K h) (c i : Nat) (v : Lit) (hc : c < h.nV) :
    WFG K (updV (litItems h [v]).1 c (fun l => match (litItems h [v]).2 with | it :: _ => l.set i it | [] => l)) := by
  obtain ⟨w1, i1⟩ := wfg_lit w [v]
  have sz := lit_sizes h [v]
  refine wfg_updV w1 c _ (fun hin => ?_) (by rw [sz.2.1]; exact hc)
  exact itemsIn_head (R := Rt _) i1 _ hin i

theorem wfg_appendValue {K h} (w : WFG K h) (p : Nat) (v : Lit) (hp : p < h.nN)
    (hk : (h.node p).kind = .prop) : WFG K (appendValue h p v) := by
  unfold appendValue
  split
  · exact w
  · rename_i c hv
    split
    · exact wfg_set w (setValuesLits_spec h p [v]) hp
    · exact wfg_litAppend w c v (wfg_vals_lt w hp hk hv)

theorem wfg_setValueAt {K h} (w : WFG K h) (p i : Nat) (v : Lit) (hp : p < h.nN)
    (hk : (h.node p).kind = .prop) : WFG K (setValueAt h p i v).1 := by
  unfold setValueAt
  split
  · exact w
  · rename_i c hv
    split
    · exact w
    · exact wfg_litSet w c i v (wfg_vals_lt w hp hk hv)

theorem wfg_setAttr {K h} (w : WFG K h) (x i : Nat) (v : String) (hx : x < h.nN) : WFG K (setAttr h x i v) :=
  wfg_updN w x _ hx rfl (fun hn => hn)

theorem wfg_setDtype {K h} (w : WFG K h) (p : Nat) (v : String) (hp : p < h.nN) : WFG K (setDtype h p v) := by
  unfold setDtype
  exact wfg_set (wfg_setAttr w p 0 v hp) (setValuesItems_spec _ p _).1 (by simpa [setAttr] using hp)

theorem wfg_listAppend {K h} (w : WFG K h) (c : Nat) (v : Lit) (hc : c < h.nV) : WFG K (listAppend h c v) := by
  unfold listAppend
  exact wfg_litAppend w c v hc

theorem wfg_listSet {K h} (w : WFG K h) (c i : Nat) (v : Lit) (hc : c < h.nV) : WFG K (listSet h c i v).1 := by
  unfold listSet
  split
  · exact w
  · exact wfg_litSet w c i v hc

theorem wfg_listDel {K h} (w : WFG K h) (c i : Nat) (hc : c < h.nV) : WFG K (listDel h c i).1 := by
  unfold listDel
  split
  · exact w
  · exact wfg_updV w c (fun l => l.eraseIdx i) (fun hin => itemsIn_erase (R := Rt _) hin i) hc

theorem wfg_listInnerSet {K h} (w : WFG K h) (c i j : Nat) (s : String) : WFG K (listInnerSet h c i j s).1 := by
  unfold listInnerSet
  split
  · split
    · exact w
    · exact wfg_updT w _ (fun l => l.set j s)
  · exact w
  · exact w

theorem wfg_valueInnerSet {K h} (w : WFG K h) (p i j : Nat) (s : String) : WFG K (valueInnerSet h p i j s).1 := by
  unfold valueInnerSet
  split
  · exact w
  · split
    · exact w
    · exact wfg_listInnerSet w _ i j s

theorem wfg_initRecord {K h} (w : WFG K h) (x : Nat) (hx : x < h.nN) : WFG K (initRecord h x) := by
  unfold initRecord
  have w1 : WFG K (allocD h []).1 := wfg_same w rfl rfl rfl rfl (Nat.le_refl _)
  exact wfg_updN w1 x _ hx rfl (fun hn => hn)

theorem wfg_newObj {K h} (w : WFG K h) (k : Kind) (name : String) (attrs : List String) (vals : List Lit) :
    WFG K (newObj h k name attrs vals).1 := by
  unfold newObj
  simp only
  have w0 : WFG K { h with nextId := h.nextId + 1 } := wfg_same w rfl rfl rfl rfl (Nat.le_refl _)
  have w1 := wfg_allocN w0 (Node.mk k name h.nextId attrs none [] [] none none 0)
    ⟨fun _ p hp => by simp at hp, fun _ c hc => by simp at hc, fun _ c hc => by simp at hc,
     fun _ c hc => by simp at hc⟩
  split
  · exact wfg_set w1 (setValuesLits_spec _ _ vals) (by simp)
  · split
    · exact wfg_initRecord w1 _ (by simp)
    · exact w1

/-! ### The record of a merge: only the attributes, the record address and `_merged` of one object -/

theorem wfg_fillAttr {K h} (w : WFG K h) (x t d k : Nat) (hx : x < h.nN) : WFG K (fillAttr h x t d k) := by
  unfold fillAttr
  split
  · rename_i v _ _
    have w1 := wfg_updN w x (fun n => { n with attrs := n.attrs.set k v }) hx rfl (fun hn => hn)
    exact wfg_same w1 rfl rfl rfl rfl (Nat.le_refl _)
  · exact w

theorem fillAttr_nN (h : H) (x t d k : Nat) : (fillAttr h x t d k).nN = h.nN := by
  unfold fillAttr; split <;> rfl

theorem wfg_takeBack {K} (x : Nat) : ∀ (l : List (Nat × String)) (h : H), WFG K h → x < h.nN →
    WFG K (takeBack h x l) ∧ (takeBack h x l).nN = h.nN := by
  intro l
  induction l with
  | nil => intro h w _; exact ⟨w, rfl⟩
  | cons kv rest ih =>
    intro h w hx
    obtain ⟨k, v⟩ := kv
    simp only [takeBack]
    split
    · have w1 := wfg_updN w x (fun n => { n with attrs := n.attrs.set k "None" }) hx rfl (fun hn => hn)
      exact ih _ w1 hx
    · exact ih _ w hx

theorem wfg_mergeOp {K h} (w : WFG K h) (x t : Nat) (record : Bool) (hx : x < h.nN) :
    WFG K (mergeOp h x t record).1 := by
  unfold mergeOp
  split
  · exact w
  · unfold mergeAttrs
    simp only
    have w1 : WFG K (allocD h (recOf h x)).1 := wfg_same w rfl rfl rfl rfl (Nat.le_refl _)
    have w2 := wfg_fillAttr w1 x t (allocD h (recOf h x)).2 defAttr hx
    have n2 := fillAttr_nN (allocD h (recOf h x)).1 x t (allocD h (recOf h x)).2 defAttr
    have w3 := wfg_fillAttr w2 x t (allocD h (recOf h x)).2 refAttr (by rw [n2]; exact hx)
    have n3 := fillAttr_nN (fillAttr (allocD h (recOf h x)).1 x t (allocD h (recOf h x)).2 defAttr) x t
      (allocD h (recOf h x)).2 refAttr
    cases record with
    | false => simpa using w3
    | true =>
      simp only [if_true]
      have w4 := wfg_updN w3 x (fun n => { n with mattrs := (allocD h (recOf h x)).2 }) (by rw [n3, n2]; exact hx) rfl
        (fun hn => hn)
      exact wfg_updN w4 x (fun n => { n with merged := some t }) (by rw [updN_nN, n3, n2]; exact hx) rfl (fun hn => hn)

theorem wfg_unmergeOp {K h} (w : WFG K h) (x : Nat) (hx : x < h.nN) : WFG K (unmergeOp h x).1 := by
  unfold unmergeOp
  split
  · exact w
  · unfold unmergeAttrs
    simp only
    obtain ⟨w1, n1⟩ := wfg_takeBack x (recOf h x) h w hx
    have w2 : WFG K (allocD (takeBack h x (recOf h x)) []).1 := wfg_same w1 rfl rfl rfl rfl (Nat.le_refl _)
    have w3 := wfg_updN w2 x (fun n => { n with mattrs := (allocD (takeBack h x (recOf h x)) []).2 })
      (by simp [n1]; exact hx) rfl (fun hn => hn)
    exact wfg_updN w3 x (fun n => { n with merged := none }) (by simp [n1]; exact hx) rfl (fun hn => hn)

/-! ### Structural operations -/

/-- What `append` / `_adopt` check before listing `x` under `p` (kinds of parent and child). -/
def AttachOk (kp kx : Kind) : Prop := kx ≠ .doc ∧ kp ≠ .prop ∧ (kx = .prop → kp = .sec)

theorem wfg_childAppend {K h} (w : WFG K h) (p x : Nat) (hp : p < h.nN) (hx : x < h.nN)
    (hk : K = true → AttachOk (h.node p).kind (h.node x).kind) :
    WFG K (setChildList h p ((h.node x).kind != .prop) (fun l => l ++ [x])) := by
  unfold setChildList
  by_cases hb : ((h.node x).kind != .prop) = true
  · simp only [hb, if_true]
    refine wfg_updN w p _ hp rfl (fun hn => ⟨hn.1, fun k c hc => ?_, hn.2.2.1, hn.2.2.2⟩)
    simp only [List.mem_append, List.mem_singleton] at hc
    rcases hc with hc | hc
    · exact hn.2.1 k c hc
    · subst hc
      refine ⟨hx, fun hK => ?_⟩
      obtain ⟨a, _, _⟩ := hk hK
      simp only [bne_iff_ne, ne_eq] at hb
      cases hkx : (h.node c).kind <;> simp_all
  · have hb' : ((h.node x).kind != .prop) = false := by simpa using hb
    simp only [hb', Bool.false_eq_true, if_false]
    refine wfg_updN w p _ hp rfl (fun hn => ⟨hn.1, hn.2.1, fun k c hc => ?_, hn.2.2.2⟩)
    simp only [List.mem_append, List.mem_singleton] at hc
    rcases hc with hc | hc
    · exact hn.2.2.1 k c hc
    · subst hc
      refine ⟨hx, fun _ => ?_⟩
      simpa using hb

theorem wfg_childErase {K h} (w : WFG K h) (p : Nat) (b : Bool) (i : Nat) (hp : p < h.nN) :
    WFG K (setChildList h p b (fun l => l.eraseIdx i)) := by
  unfold setChildList
  refine wfg_updN w p _ hp (by split <;> rfl) (fun hn => ?_)
  split
  · exact ⟨hn.1, fun k c hc => hn.2.1 k c (List.mem_of_mem_eraseIdx hc), hn.2.2.1, hn.2.2.2⟩
  · exact ⟨hn.1, hn.2.1, fun k c hc => hn.2.2.1 k c (List.mem_of_mem_eraseIdx hc), hn.2.2.2⟩

theorem wfg_setParent {K h} (w : WFG K h) (x : Nat) (np : Option Nat) (hx : x < h.nN)
    (hnp : ∀ p, np = some p → p < h.nN ∧ (K = true → AttachOk (h.node p).kind (h.node x).kind)) :
    WFG K (updN h x (fun n => { n with parent := np })) := by
  refine wfg_updN w x _ hx rfl (fun hn => ⟨fun _ p hp => ?_, hn.2.1, hn.2.2.1, hn.2.2.2⟩)
  obtain ⟨a, b⟩ := hnp p hp
  exact ⟨a, fun hK => ⟨(b hK).2.1, (b hK).2.2⟩⟩

theorem wfg_attach {K h h'} (w : WFG K h) (c child : Nat) (hc : c < h.nN) (hch : child < h.nN)
    (hk : K = true → AttachOk (h.node c).kind (h.node child).kind)
    (ha : attach h c child = (h', none)) : WFG K h' := by
  rw [attach_ok ha]
  have w1 := wfg_childAppend w c child hc hch hk
  refine wfg_setParent w1 child (some c) (by simpa [setChildList] using hch) (fun p hp => ?_)
  simp only [Option.some.injEq] at hp
  subst hp
  refine ⟨by simpa [setChildList] using hc, fun hK => ?_⟩
  rw [setChildList_kind, setChildList_kind]
  exact hk hK

theorem wfg_removeChild {K h h'} (w : WFG K h) (q x : Nat) (hq : q < h.nN) (hx : x < h.nN)
    (hr : removeChild h q x = some h') : WFG K h' := by
  unfold removeChild at hr
  split at hr
  · cases hr
  · split at hr
    · cases hr
    · simp only at hr
      split at hr
      · cases hr
      · rename_i idx _
        simp only [Option.some.injEq] at hr
        subst hr
        have w1 := wfg_childErase w q ((h.node x).kind != .prop) idx hq
        exact wfg_setParent w1 x none (by simpa [setChildList] using hx) (fun p hp => by cases hp)

theorem removeChild_sizes {h h' : H} {q x : Nat} (hr : removeChild h q x = some h') :
    h'.nN = h.nN ∧ ∀ a, (h'.node a).kind = (h.node a).kind := by
  unfold removeChild at hr
  split at hr
  · cases hr
  · split at hr
    · cases hr
    · simp only at hr
      split at hr
      · cases hr
      · simp only [Option.some.injEq] at hr
        subst hr
        refine ⟨by simp [setChildList], fun a => ?_⟩
        rw [updN_node]
        split
        · simp only; rw [setChildList_kind]
        · rw [setChildList_kind]

theorem wfg_remove {K h} (w : WFG K h) (p x : Nat) (hp : p < h.nN) (hx : x < h.nN) : WFG K (remove h p x).1 := by
  unfold remove
  split
  · exact w
  · split
    · rename_i h1 hr
      exact wfg_removeChild w p x hp hx hr
    · exact w

theorem wfg_ite {K} {c : Prop} [Decidable c] {a b : H × Option Err} (ha : WFG K a.1) (hb : WFG K b.1) :
    WFG K (if c then a else b).1 := by
  split <;> assumption

theorem wfg_rename {K h} (w : WFG K h) (x : Nat) (new : String) (hx : x < h.nN) : WFG K (rename h x new).1 := by
  unfold rename
  split
  · exact w
  · split
    · exact w
    · simp only
      exact wfg_ite w (wfg_updN w x (fun n => { n with name := new }) hx rfl (fun hn => hn))

theorem wfg_append {K h} (w : WFG K h) (p x : Nat) (hp : p < h.nN) (hx : x < h.nN) :
    WFG K (append h p x).1 := by
  unfold append
  split
  · exact w
  · exact w
  · exact w
  · rename_i k h1 h2 h3
    have hk : AttachOk (h.node p).kind (h.node x).kind := by
      refine ⟨fun e => h2 e, fun e => h1 e, fun e => ?_⟩
      cases hkp : (h.node p).kind with
      | doc => exact (h3 hkp e).elim
      | sec => rfl
      | prop => exact (h1 hkp).elim
    simp only
    split
    · exact w
    · split
      · exact w
      · have w1 := wfg_childAppend w p x hp hx (fun _ => hk)
        have setp : ∀ hh : H, WFG K hh → hh.nN = h.nN → (∀ a, (hh.node a).kind = (h.node a).kind) →
            WFG K (updN hh x (fun n => { n with parent := some p })) := by
          intro hh wh en ek
          refine wfg_setParent wh x (some p) (by omega) (fun q hq => ?_)
          simp only [Option.some.injEq] at hq
          subst hq
          exact ⟨by omega, fun _ => by rw [ek, ek]; exact hk⟩
        have sk := setChildList_kind h p ((h.node x).kind != .prop) (fun l => l ++ [x])
        split
        · exact setp _ w1 (by simp [setChildList]) sk
        · rename_i q hpar
          split
          · exact setp _ w1 (by simp [setChildList]) sk
          · split
            · exact w1
            · rename_i h2' hrm
              have hq : q < h.nN := by
                have := ((w1.node x (by simpa [setChildList] using hx)).1 (by rw [sk]; exact fun e => h2 e) q hpar).1
                simpa [setChildList] using this
              have w2 := wfg_removeChild w1 q x (by simpa [setChildList] using hq) (by simpa [setChildList] using hx) hrm
              obtain ⟨sN, sK⟩ := removeChild_sizes hrm
              exact setp _ w2 (by rw [sN]; simp [setChildList]) (fun a => by rw [sK, sk])

/-! ### clone() keeps the store well-formed -/

/-- Every successful (recursive) clone call satisfies `CloneOk`. -/
def RecOk (rec : H → Nat → H × Res) : Prop :=
  ∀ h s h1 sc, rec h s = (h1, .ok sc) → CloneOk h h1 s sc

theorem RecOk.toSpec {rec} (r : RecOk rec) : RecSpec rec := fun h s h1 sc hr => (r h s h1 sc hr).toRec

theorem cloneF_recOk (f : Nat) (keep : Bool) : RecOk (fun h s => cloneF f h s true keep) :=
  fun h s h1 sc hr => cloneF_spec f h s true keep h1 sc hr

/-- Every successful (recursive) clone call keeps the store well-formed. -/
def RecWf (K : Bool) (rec : H → Nat → H × Res) : Prop :=
  ∀ h s h1 sc, WFG K h → s < h.nN → rec h s = (h1, .ok sc) → WFG K h1

theorem attach_kind {h h' : H} {c child : Nat} (ha : attach h c child = (h', none)) (a : Nat) :
    (h'.node a).kind = (h.node a).kind := by
  rw [attach_ok ha, updN_node]
  split
  · simp only; rw [setChildList_kind]
  · rw [setChildList_kind]

theorem attach_sizes {h h' : H} {c child : Nat} (ha : attach h c child = (h', none)) :
    h'.nN = h.nN ∧ h'.nV = h.nV ∧ h'.nT = h.nT ∧ h'.nextId = h.nextId ∧ h'.vcell = h.vcell ∧ h'.tcell = h.tcell := by
  rw [attach_ok ha]; simp [setChildList]

theorem attach_other {h h' : H} {c child : Nat} (ha : attach h c child = (h', none)) (a : Nat)
    (h1 : a ≠ c) (h2 : a ≠ child) : h'.node a = h.node a := by
  rw [attach_ok ha, updN_other _ _ _ _ h2]
  simp only [setChildList]
  rw [updN_other _ _ _ _ h1]

/-- What the cloning loop writes among the locations that existed when it started: the object `c`
    the copies are appended to, nothing else. -/
structure LoopFrame (c : Nat) (h h' : H) : Prop where
  mono : Mono h h'
  node : ∀ a, a < h.nN → a ≠ c → h'.node a = h.node a
  vcell : ∀ v, v < h.nV → h'.vcell v = h.vcell v
  tcell : ∀ t, t < h.nT → h'.tcell t = h.tcell t
  kind : (h'.node c).kind = (h.node c).kind

theorem LoopFrame.refl (c : Nat) (h : H) : LoopFrame c h h :=
  ⟨Mono.refl h, fun _ _ _ => rfl, fun _ _ => rfl, fun _ _ => rfl, rfl⟩

theorem LoopFrame.trans {c : Nat} {h1 h2 h3 : H} (a : LoopFrame c h1 h2) (b : LoopFrame c h2 h3) :
    LoopFrame c h1 h3 := by
  have m := a.mono
  unfold Mono at m
  exact ⟨a.mono.trans b.mono, fun x hx hne => by rw [b.node x (by omega) hne, a.node x hx hne],
    fun v hv => by rw [b.vcell v (by omega), a.vcell v hv], fun t ht => by rw [b.tcell t (by omega), a.tcell t ht],
    by rw [b.kind, a.kind]⟩

theorem cloneLoop_frame {rec} (hrec : RecSpec rec) (c : Nat) :
    ∀ (l : List Nat) (h h' : H), cloneLoop rec h c l = (h', none) → c < h.nN → LoopFrame c h h' := by
  intro l
  induction l with
  | nil =>
    intro h h' hl _
    simp only [cloneLoop, Prod.mk.injEq, and_true] at hl
    subst hl; exact LoopFrame.refl c h
  | cons s rest ih =>
    intro h h' hl hc
    simp only [cloneLoop] at hl
    split at hl
    · simp at hl
    · rename_i h1 sc hr
      split at hl
      · simp at hl
      · rename_i h2 hat
        obtain ⟨e1, _, hsc, hlt, _⟩ := hrec h s h1 sc hr
        have sz := attach_sizes hat
        have f12 : LoopFrame c h h2 := by
          refine ⟨?_, fun a ha hne => ?_, fun v hv => ?_, fun t ht => ?_, ?_⟩
          · have := e1.1; unfold Mono at *; omega
          · rw [attach_other hat a hne (by omega)]; exact e1.2.1 a ha
          · rw [sz.2.2.2.2.1]; exact e1.2.2.1 v hv
          · rw [sz.2.2.2.2.2]; exact e1.2.2.2 t ht
          · rw [attach_kind hat, e1.2.1 c hc]
        exact f12.trans (ih h2 h' hl (by have := f12.mono.1; omega))

theorem loopOpt_frame {rec} (hrec : RecSpec rec) (c : Nat) (ch : Bool) (l : List Nat) (h h' : H)
    (hl : (if ch = true then cloneLoop rec h c l else (h, none)) = (h', none)) (hc : c < h.nN) :
    LoopFrame c h h' := by
  cases ch with
  | true => exact cloneLoop_frame hrec c l h h' (by simpa using hl) hc
  | false =>
    simp only [Bool.false_eq_true, if_false, Prod.mk.injEq, and_true] at hl
    subst hl; exact LoopFrame.refl c h

theorem cloneLoop_wf {K rec} (hrec : RecOk rec) (hwf : RecWf K rec) (c : Nat) :
    ∀ (l : List Nat) (h h' : H), WFG K h → c < h.nN →
      (∀ s, s ∈ l → s < h.nN ∧ s ≠ c ∧ (K = true → AttachOk (h.node c).kind (h.node s).kind)) →
      cloneLoop rec h c l = (h', none) → WFG K h' := by
  intro l
  induction l with
  | nil =>
    intro h h' w _ _ hl
    simp only [cloneLoop, Prod.mk.injEq, and_true] at hl
    subst hl; exact w
  | cons s rest ih =>
    intro h h' w hc hs hl
    simp only [cloneLoop] at hl
    split at hl
    · simp at hl
    · rename_i h1 sc hr
      split at hl
      · simp at hl
      · rename_i h2 hat
        have ok := hrec h s h1 sc hr
        obtain ⟨hs1, hs2, hs3⟩ := hs s (List.mem_cons_self ..)
        have w1 := hwf h s h1 sc w hs1 hr
        have m1 := ok.ext.1
        unfold Mono at m1
        have hsc := ok.c_eq
        have w2 : WFG K h2 := by
          refine wfg_attach w1 c sc (by omega) (by have := ok.lt; omega) (fun hK => ?_) hat
          rw [ok.kind, ok.ext.2.1 c hc]; exact hs3 hK
        have sz := attach_sizes hat
        refine ih h2 h' w2 (by omega) (fun s' hs' => ?_) hl
        obtain ⟨a, b, d⟩ := hs s' (List.mem_cons_of_mem _ hs')
        refine ⟨by omega, b, fun hK => ?_⟩
        rw [attach_kind hat, attach_kind hat, ok.ext.2.1 c hc, ok.ext.2.1 s' a]
        exact d hK

theorem loopOpt_wf {K rec} (hrec : RecOk rec) (hwf : RecWf K rec) (c : Nat) (ch : Bool) (l : List Nat) (h h' : H)
    (w : WFG K h) (hc : c < h.nN)
    (hs : ∀ s, s ∈ l → s < h.nN ∧ s ≠ c ∧ (K = true → AttachOk (h.node c).kind (h.node s).kind))
    (hl : (if ch = true then cloneLoop rec h c l else (h, none)) = (h', none)) : WFG K h' := by
  cases ch with
  | true => exact cloneLoop_wf hrec hwf c l h h' w hc hs (by simpa using hl)
  | false =>
    simp only [Bool.false_eq_true, if_false, Prod.mk.injEq, and_true] at hl
    subst hl; exact w

theorem cloneProp_wf {K h} (w : WFG K h) (x : Nat) (keep : Bool) (hx : x < h.nN) :
    WFG K (cloneProp h x keep).1 := by
  simp only [cloneProp, allocN_ret]
  have w1 := wfg_allocN w (h.node x) (NodeWf.mono (h := h) (by simp) (by simp)
    (fun a ha => by rw [allocN_node, if_neg (by omega)]) (w.node x hx))
  have w2 := wfg_setParent w1 h.nN none (by simp) (fun p hp => by cases hp)
  have w3 := fun src => wfg_set w2 (setValuesItems_spec _ h.nN src).1 (by simp)
  split
  · exact w3 _
  · exact wfg_newId (w3 _) _



theorem kind_sec_of {k : Kind} (h1 : k ≠ .prop) (h2 : k ≠ .doc) : k = .sec := by
  cases k <;> simp_all

theorem cloneBody_wf {K rec} (hrec : RecOk rec) (hwf : RecWf K rec) (h : H) (x : Nat) (ch keep : Bool) (h' : H)
    (c : Nat) (w : WFG K h) (hx : x < h.nN) (hk : (h.node x).kind ≠ .prop)
    (hb : cloneBody rec h x ch keep = (h', .ok c)) : WFG K h' := by
  unfold cloneBody at hb
  simp only [allocN_ret] at hb
  generalize hh3 : updN (updN (allocN h (h.node x)).1 h.nN (fun n => { n with parent := none })) h.nN
      (fun n => { n with secs := [] }) = h3 at hb
  have w3 : WFG K h3 := by
    rw [← hh3]
    have w1 := wfg_allocN w (h.node x) (NodeWf.mono (h := h) (by simp) (by simp)
      (fun a ha => by rw [allocN_node, if_neg (by omega)]) (w.node x hx))
    have w2 := wfg_setParent w1 h.nN none (by simp) (fun p hp => by cases hp)
    exact wfg_updN w2 h.nN _ (by simp) rfl (fun hn => ⟨hn.1, fun _ c hc => by simp at hc, hn.2.2.1, hn.2.2.2⟩)
  have k3 : (h3.node h.nN).kind = (h.node x).kind := by rw [← hh3]; simp [allocN_node]
  have o3 : ∀ a, a < h.nN → h3.node a = h.node a := by
    intro a ha
    rw [← hh3, updN_other _ _ _ _ (by omega), updN_other _ _ _ _ (by omega), allocN_node, if_neg (by omega)]
  have sz3 : h3.nN = h.nN + 1 := by rw [← hh3]; simp
  have wx := w.node x hx
  split at hb
  · simp at hb
  · rename_i h4 hl4
    have w4 : WFG K h4 := by
      refine loopOpt_wf hrec hwf h.nN ch _ h3 h4 w3 (by omega) (fun s hs => ?_) hl4
      rw [o3 x hx] at hs
      obtain ⟨a, b⟩ := wx.2.1 hk s hs
      refine ⟨by omega, by omega, fun hK => ?_⟩
      rw [k3, o3 s a, b hK]
      exact ⟨by simp, hk, by simp⟩
    have f4 := loopOpt_frame hrec.toSpec h.nN ch _ h3 h4 hl4 (by omega)
    generalize hh5 : (if keep = true then h4 else newId h4 h.nN) = h5 at hb
    have w5 : WFG K h5 := by
      rw [← hh5]; split
      · exact w4
      · exact wfg_newId w4 _
    split at hb
    · simp only [Prod.mk.injEq, Res.ok.injEq] at hb
      obtain ⟨rfl, rfl⟩ := hb
      exact w5
    · rename_i hnd
      have hsec : (h.node x).kind = .sec := kind_sec_of hk hnd
      have m4 := f4.mono
      unfold Mono at m4
      have n5 : ∀ a, (h5.node a).kind = (h4.node a).kind ∧ (a ≠ h.nN → h5.node a = h4.node a) := by
        intro a; rw [← hh5]; split
        · exact ⟨rfl, fun _ => rfl⟩
        · rw [newId_node]; split
          · exact ⟨rfl, fun hne => absurd (by assumption) hne⟩
          · exact ⟨rfl, fun _ => rfl⟩
      have sz5 : h5.nN = h4.nN := by rw [← hh5]; split <;> simp
      generalize hh6 : updN h5 h.nN (fun n => { n with props := [] }) = h6 at hb
      have w6 : WFG K h6 := by
        rw [← hh6]
        exact wfg_updN w5 h.nN _ (by omega) rfl (fun hn => ⟨hn.1, hn.2.1, fun _ c hc => by simp at hc, hn.2.2.2⟩)
      have k6 : (h6.node h.nN).kind = .sec := by
        rw [← hh6, updN_same]; simp only; rw [(n5 _).1, f4.kind, k3, hsec]
      have o6 : ∀ a, a < h.nN → h6.node a = h.node a := by
        intro a ha
        rw [← hh6, updN_other _ _ _ _ (by omega), (n5 a).2 (by omega), f4.node a (by omega) (by omega), o3 a ha]
      split at hb
      · simp at hb
      · rename_i h7 hl7
        simp only [Prod.mk.injEq, Res.ok.injEq] at hb
        obtain ⟨rfl, rfl⟩ := hb
        refine loopOpt_wf hrec hwf h.nN ch _ h6 _ w6 (by rw [← hh6]; simp; omega) (fun s hs => ?_) hl7
        rw [o6 x hx] at hs
        obtain ⟨a, b⟩ := wx.2.2.1 hsec s hs
        refine ⟨by rw [← hh6]; simp; omega, by omega, fun hK => ?_⟩
        rw [k6, o6 s a, b hK]
        exact ⟨by simp, by simp, fun _ => rfl⟩

theorem cloneF_wf {K} : ∀ (f : Nat) (h : H) (x : Nat) (ch keep : Bool) (h' : H) (c : Nat),
    WFG K h → x < h.nN → cloneF f h x ch keep = (h', .ok c) → WFG K h' := by
  intro f
  induction f with
  | zero => intro h x ch keep h' c _ _ hc; simp [cloneF] at hc
  | succ f ih =>
    intro h x ch keep h' c w hx hc
    simp only [cloneF] at hc
    split at hc
    · simp only [Prod.mk.injEq, Res.ok.injEq] at hc
      obtain ⟨rfl, rfl⟩ := hc
      exact cloneProp_wf w x keep hx
    · rename_i hk
      exact cloneBody_wf (cloneF_recOk f keep) (fun h s h1 sc w hs hr => ih h s true keep h1 sc w hs hr)
        h x ch keep h' c w hx hk hc

theorem cloneF_recWf (K : Bool) (f : Nat) (keep : Bool) : RecWf K (fun h s => cloneF f h s true keep) :=
  fun h s h1 sc w hs hr => cloneF_wf f h s true keep h1 sc w hs hr

theorem wfg_dropOnErr {K h} (w : WFG K h) (r : H × Res)
    (hr : ∀ h' c, r = (h', .ok c) → WFG K h') : WFG K (dropOnErr h r).1 := by
  obtain ⟨h', res⟩ := r
  cases res with
  | ok c => exact hr h' c rfl
  | err e => exact w

theorem wfg_clone {K h} (w : WFG K h) (x : Nat) (ch keep : Bool) (hx : x < h.nN) :
    WFG K (clone h x ch keep).1 := by
  unfold clone
  exact wfg_dropOnErr w _ (fun h' c hc => cloneF_wf _ h x ch keep h' c w hx hc)


/-! ### export_leaf() keeps the store well-formed -/

theorem ext_of_frame {b h h' : H} {c : Nat} (e : Ext b h) (f : LoopFrame c h h') (hc : b.nN ≤ c) : Ext b h' := by
  obtain ⟨m, n, v, t⟩ := e
  unfold Mono at m
  exact ⟨Mono.trans (by unfold Mono; omega) f.mono, fun a ha => by rw [f.node a (by omega) (by omega), n a ha],
    fun a ha => by rw [f.vcell a (by omega), v a ha], fun a ha => by rw [f.tcell a (by omega), t a ha]⟩

theorem ext_attach {b h h' : H} {c child : Nat} (e : Ext b h) (ha : attach h c child = (h', none))
    (hc : b.nN ≤ c) (hch : b.nN ≤ child) : Ext b h' := by
  rw [attach_ok ha]
  exact ext_updN (ext_updN e _ _ hc) _ _ hch

theorem exportLoop_wf {K} (b : H) (wb : WFG K b) : ∀ (fuel : Nat) (h : H) (self curr child : Nat) (h' : H) (r : Nat),
    WFG K h → Ext b h → curr < b.nN → (K = true → (b.node curr).kind ≠ .prop) →
    (curr ≠ self → b.nN ≤ child ∧ child < h.nN ∧ (K = true → (h.node child).kind = .sec)) →
    exportLoop fuel h self curr child = (h', .ok r) → WFG K h' := by
  intro fuel
  induction fuel with
  | zero => intro h self curr child h' r _ _ _ _ _ he; simp [exportLoop] at he
  | succ fuel ih =>
    intro h self curr child h' r w e hcur hkc hch he
    simp only [exportLoop] at he
    have mb := e.1
    unfold Mono at mb
    split at he
    · simp at he
    · rename_i h1 par hcl
      have ok := cloneF_spec 1 h curr false true h1 par hcl
      have w1 := cloneF_wf 1 h curr false true h1 par w (by omega) hcl
      have m1 := ok.ext.1
      unfold Mono at m1
      have hpar := ok.c_eq
      have kpar : (h1.node par).kind = (b.node curr).kind := by rw [ok.kind, e.2.1 curr hcur]
      have e1 : Ext b h1 := e.trans ok.ext
      split at he
      · simp at he
      · rename_i h2 hr2
        have s2 : WFG K h2 ∧ Ext b h2 ∧ h2.nN = h1.nN ∧ (h2.node par).kind = (b.node curr).kind := by
          split at hr2
          · rename_i hne
            obtain ⟨c1, c2, c3⟩ := hch hne
            refine ⟨wfg_attach w1 par child (by have := ok.lt; omega) (by omega) (fun hK => ?_) hr2,
              ext_attach e1 hr2 (by omega) c1, (attach_sizes hr2).1, by rw [attach_kind hr2]; exact kpar⟩
            rw [kpar, ok.ext.2.1 child c2, c3 hK]
            exact ⟨by simp, hkc hK, by simp⟩
          · simp only [Prod.mk.injEq, and_true] at hr2
            subst hr2; exact ⟨w1, e1, rfl, kpar⟩
        obtain ⟨w2, e2, n2, k2⟩ := s2
        have hparlt : par < h2.nN := by have := ok.lt; omega
        split at he
        · simp at he
        · rename_i h3 hr3
          have s3 : WFG K h3 ∧ LoopFrame par h2 h3 := by
            split at hr3
            · rename_i hsec
              rw [e2.2.1 curr hcur] at hsec
              refine ⟨cloneLoop_wf (cloneF_recOk 1 true) (cloneF_recWf K 1 true) par _ h2 h3 w2 hparlt
                (fun s hs => ?_) hr3, cloneLoop_frame (cloneF_recSpec 1 true) par _ h2 h3 hr3 hparlt⟩
              rw [e2.2.1 curr hcur] at hs
              obtain ⟨a, c⟩ := (wb.node curr hcur).2.2.1 hsec s hs
              have m2 := e2.1
              unfold Mono at m2
              refine ⟨by omega, by omega, fun hK => ?_⟩
              rw [k2, hsec, e2.2.1 s a, c hK]
              exact ⟨by simp, by simp, fun _ => rfl⟩
            · simp only [Prod.mk.injEq, and_true] at hr3
              subst hr3; exact ⟨w2, LoopFrame.refl _ _⟩
          obtain ⟨w3, f3⟩ := s3
          have e3 : Ext b h3 := ext_of_frame e2 f3 (by omega)
          split at he
          · simp only [Prod.mk.injEq, Res.ok.injEq] at he
            obtain ⟨rfl, rfl⟩ := he
            exact w3
          · rename_i q hq
            have hq' : parentOf b curr = some q := by
              simpa [parentOf, e3.2.1 curr hcur] using hq
            unfold parentOf at hq'
            split at hq'
            · cases hq'
            · rename_i hnd
              obtain ⟨q1, q2⟩ := (wb.node curr hcur).1 hnd q hq'
              have m3 := f3.mono
              unfold Mono at m3
              refine ih h3 self q par h' r w3 e3 q1 (fun hK => (q2 hK).1) (fun _ => ⟨by omega, by omega, fun hK => ?_⟩) he
              rw [f3.kind, k2]
              exact kind_sec_of (hkc hK) hnd

theorem wfg_exportLeaf {K h} (w : WFG K h) (x : Nat) (hx : x < h.nN) : WFG K (exportLeaf h x).1 := by
  unfold exportLeaf
  refine wfg_dropOnErr w _ (fun h' c hc => ?_)
  unfold exportLeafF at hc
  split at hc
  · rename_i hk
    split at hc
    · rename_i p hp
      obtain ⟨p1, p2⟩ := (w.node x hx).1 (by rw [hk]; simp) p hp
      exact exportLoop_wf h w _ h p p p h' c w (Ext.refl h) p1 (fun hK => (p2 hK).1) (fun hne => absurd rfl hne) hc
    · simp only [Prod.mk.injEq, Res.ok.injEq] at hc
      obtain ⟨rfl, rfl⟩ := hc
      exact cloneProp_wf w x true hx
  · rename_i hk
    exact exportLoop_wf h w _ h x x x h' c w (Ext.refl h) hx (fun _ e => hk e) (fun hne => absurd rfl hne) hc

/-! ### Every operation, every run -/

theorem step_wfg {K h} (w : WFG K h) (op : Op) : WFG K (step h op).1 := by
  unfold step
  split
  · exact w
  · rename_i hguard
    simp only [Bool.or_eq_true, List.any_eq_true, decide_eq_true_eq, not_or, not_exists, not_and, Nat.not_le] at hguard
    split
    · exact w
    · rename_i hkind
      simp only [List.any_eq_true, bne_iff_ne, ne_eq, not_exists, not_and, Decidable.not_not] at hkind
      cases op with
      | clone x ch keep => exact wfg_clone w x ch keep (hguard.1 x (by simp [Op.objs]))
      | exportLeaf x => exact wfg_exportLeaf w x (hguard.1 x (by simp [Op.objs]))
      | getValues p => exact wfg_getValues w p
      | setValuesFrom p c => exact wfg_set w (setValuesItems_spec h p _).1 (hguard.1 p (by simp [Op.objs]))
      | setValuesLits p vs => exact wfg_set w (setValuesLits_spec h p vs) (hguard.1 p (by simp [Op.objs]))
      | appendValue p v =>
        exact wfg_appendValue w p v (hguard.1 p (by simp [Op.objs])) (hkind p (by simp [Op.props]))
      | setValueAt p i v =>
        have := wfg_setValueAt w p i v (hguard.1 p (by simp [Op.objs])) (hkind p (by simp [Op.props]))
        simp only [optErr]; split <;> simp_all
      | setDtype p v => exact wfg_setDtype w p v (hguard.1 p (by simp [Op.objs]))
      | newList vs => exact wfg_newList w vs
      | listAppend c v => exact wfg_listAppend w c v (hguard.2 c (by simp [Op.lists]))
      | listSet c i v =>
        have := wfg_listSet w c i v (hguard.2 c (by simp [Op.lists]))
        simp only [optErr]; split <;> simp_all
      | listDel c i =>
        have := wfg_listDel w c i (hguard.2 c (by simp [Op.lists]))
        simp only [optErr]; split <;> simp_all
      | listInnerSet c i j str =>
        have := wfg_listInnerSet w c i j str
        simp only [optErr]; split <;> simp_all
      | valueInnerSet p i j str =>
        have := wfg_valueInnerSet w p i j str
        simp only [optErr]; split <;> simp_all
      | newObj k name attrs vals => exact wfg_newObj w k name attrs vals
      | append p x =>
        have := wfg_append w p x (hguard.1 p (by simp [Op.objs])) (hguard.1 x (by simp [Op.objs]))
        simp only [optErr]; split <;> simp_all
      | remove p x =>
        have := wfg_remove w p x (hguard.1 p (by simp [Op.objs])) (hguard.1 x (by simp [Op.objs]))
        simp only [optErr]; split <;> simp_all
      | rename x new =>
        have := wfg_rename w x new (hguard.1 x (by simp [Op.objs]))
        simp only [optErr]; split <;> simp_all
      | setAttr x i v => exact wfg_setAttr w x i v (hguard.1 x (by simp [Op.objs]))
      | mergeAttrs x t record =>
        have := wfg_mergeOp w x t record (hguard.1 x (by simp [Op.objs]))
        simp only [optErr]; split <;> simp_all
      | unmergeAttrs x =>
        have := wfg_unmergeOp w x (hguard.1 x (by simp [Op.objs]))
        simp only [optErr]; split <;> simp_all
      | newId x => exact wfg_newId w x

theorem run_wfg {K} : ∀ (ops : List Op) (h : H), WFG K h → WFG K (run h ops) := by
  intro ops
  induction ops with
  | nil => intro h w; exact w
  | cons op rest ih =>
    intro h w
    have := ih (step h op).1 (step_wfg w op)
    simpa only [run, List.foldl_cons] using this

/-- `Scoped` (no dangling references) is an invariant of every operation ... -/
theorem step_scoped' {h : H} (sc : Scoped h) (op : Op) : Scoped (step h op).1 :=
  (wfg_false_iff_scoped _).1 (step_wfg ((wfg_false_iff_scoped h).2 sc) op)

/-- ... and of every run. -/
theorem run_scoped' {h : H} (sc : Scoped h) (ops : List Op) : Scoped (run h ops) :=
  (wfg_false_iff_scoped _).1 (run_wfg ops h ((wfg_false_iff_scoped h).2 sc))

/-- Every store that can be built from nothing is well-formed. -/
theorem run_empty_wf (ops : List Op) : WF (run empty ops) := run_wfg ops empty (wfg_empty true)

theorem run_empty_scoped (ops : List Op) : Scoped (run empty ops) := (run_empty_wf ops).scoped

end Clone
