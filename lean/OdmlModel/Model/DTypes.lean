/-
M-Val / C05: odml/dtypes.py (valid_type, infer_dtype, get, set and the converters) and the
value-editing part of odml/property.py (values setter with _convert_value_input /
_validate_values / odml_tuple_import, dtype setter with rollback, append, extend, insert,
__setitem__, remove, merge and clone as far as values are concerned, the constructor).

Every definition follows the Python statement order; a raising statement gives
`Outcome.raised cls` together with the state as it is at the raise point.
`now` is what `datetime.now().replace(microsecond=0)` returns (default_values of
date/time/datetime).  No Mathlib.
-/
import OdmlModel.Model.Val
import OdmlModel.Generated.DTypeTables

namespace DT
open Py

/-! ## dtype names -/

/-- `Property._dtype`: `None` or a `str` (DType members are `str` instances equal to their name). -/
abbrev DType := Option (List Char)

/-- what a caller can pass as a dtype -/
inductive DtIn where
  | none
  | str (s : List Char)
  | other                      -- any non-`str` object
  deriving DecidableEq, Repr, Inhabited

/-- what the constructor / the dtype setter store for an accepted dtype: `dtype.lower()` -/
def DtIn.toDType : DtIn → DType
  | .str s => some (lower s)
  | _ => Option.none

/-- `if dtype in _dtype_map: dtype = _dtype_map[dtype]` -/
def mapShorthand (l : List Char) : List Char :=
  match Gen.DTypes.dtypeMap.find? (fun p => p.1.toList == l) with
  | some p => p.2.toList
  | Option.none => l

/-- `dtypes._normalize_dtype`: lower case, shorthands `str`/`bool` resolved. -/
def normDtype (d : List Char) : List Char := mapShorthand (lower d)

/-- `name in DType.__members__` -/
def isMember (d : List Char) : Bool := Gen.DTypes.members.any (fun p => p.1.toList == d)

def tupleSuffix : List Char := ['-', 't', 'u', 'p', 'l', 'e']

/-- `d.endswith("-tuple")` -/
def endsWithTuple (d : List Char) : Bool := d.drop (d.length - 6) == tupleSuffix

/-- `re.fullmatch("[1-9][0-9]*-tuple", d)` -/
def isTupleName (d : List Char) : Bool :=
  endsWithTuple d &&
    (match d.take (d.length - 6) with
     | c :: cs => c.isDigit && c != '0' && cs.all Char.isDigit
     | [] => false)

/-- `dtypes.valid_type` -/
def validType : DtIn → Bool
  | .none => true
  | .other => false
  | .str d => let n := normDtype d; isMember n || isTupleName n

def validDType : DType → Bool
  | Option.none => true
  | some d => validType (.str d)

/-- `int(self._dtype.split("-")[0])` in property.py.  `_dtype` always satisfies `valid_type`
    (theorem `C05.conforms_step`), and for a valid name that ends in `-tuple` the first segment is
    a positive decimal number; the model is total by reading the leading digits. -/
def rawCount (d : List Char) : Nat := natOfDigits (d.takeWhile Char.isDigit)

/-! ## the converters of dtypes.py -/

def sAtom (s : List Char) : Elem := .atom (.str s)

/-- `str_get` (= `str_set`, `string_get`, `string_set`) -/
def strGet (v : Elem) : Elem := if v.isBlank then sAtom [] else sAtom v.pyStr

def noneOrEmpty : Elem → Bool
  | .atom .none => true
  | .atom (.str s) => s.isEmpty
  | _ => false

def ofTrunc : TruncRes → R Elem
  | .ok i => .ok (.atom (.int i))
  | .overflow => .error .overflow
  | .value => .error .value

/-- `int_get` -/
def intGet (v : Elem) : R Elem :=
  if noneOrEmpty v then .ok (.atom (.int 0))
  else
    match v with
    | .atom (.int i) => .ok (.atom (.int i))
    | .atom (.bool b) => .ok (.atom (.int (if b then 1 else 0)))
    | .atom (.float f) =>
      -- int(f): OverflowError for inf is not caught; ValueError for nan is, and is raised again
      ofTrunc f.toInt
    | .atom (.str s) =>
      match parseInt s with
      | some i => .ok (.atom (.int i))
      | Option.none =>
        match parseFloat s with
        | some f => ofTrunc f.toInt
        | Option.none => .error .value
    | _ => .error .type

/-- `float_get` -/
def floatGet (v : Elem) : R Elem :=
  if noneOrEmpty v then .ok (.atom (.float (Flt.ofInt 0)))
  else
    match v with
    | .atom (.float f) => .ok (.atom (.float f))
    | .atom (.int i) => .ok (.atom (.float (Flt.ofInt i)))
    | .atom (.bool b) => .ok (.atom (.float (Flt.ofInt (if b then 1 else 0))))
    | .atom (.str s) =>
      match parseFloat s with
      | some f => .ok (.atom (.float f))
      | Option.none => .error .value
    | _ => .error .type

/-- `time_get` (= `time_set`) -/
def timeGet (now : DateTime) (v : Elem) : R Elem :=
  if noneOrEmpty v then .ok (.atom (.time { now.time with us := 0 }))
  else
    match v with
    | .atom (.time t) =>
      match parseTime t.hms with
      | some r => .ok (.atom (.time r))
      | Option.none => .error .value
    | .atom (.str s) =>
      match parseTime s with
      | some r => .ok (.atom (.time r))
      | Option.none => .error .value
    | _ => .error .type

/-- `date_get` (= `date_set`); a `datetime` is a `date` instance -/
def dateGet (now : DateTime) (v : Elem) : R Elem :=
  if noneOrEmpty v then .ok (.atom (.date now.date))
  else
    match v with
    | .atom (.date d) =>
      match parseDate d.iso with
      | some r => .ok (.atom (.date r))
      | Option.none => .error .value
    | .atom (.datetime x) =>
      match parseDate x.iso with
      | some r => .ok (.atom (.date r))
      | Option.none => .error .value
    | .atom (.str s) =>
      match parseDate s with
      | some r => .ok (.atom (.date r))
      | Option.none => .error .value
    | _ => .error .type

/-- `datetime_get` (= `datetime_set`); a datetime object loses its sub-second part -/
def datetimeGet (now : DateTime) (v : Elem) : R Elem :=
  if noneOrEmpty v then .ok (.atom (.datetime { now with time := { now.time with us := 0 } }))
  else
    match v with
    | .atom (.datetime x) => .ok (.atom (.datetime { x with time := { x.time with us := 0 } }))
    | .atom (.str s) =>
      match parseDateTime s with
      | some r => .ok (.atom (.datetime r))
      | Option.none => .error .value
    | _ => .error .type

def truthWords : List (List Char) := [['t','r','u','e'], ['1'], ['t']]
def falseWords : List (List Char) := [['f','a','l','s','e'], ['0'], ['f']]

/-- `x == True` / `x == False` for a non-`str` value -/
def eqBool (v : Elem) (b : Bool) : Bool :=
  match v with
  | .atom a => a.pyEq (.bool b)
  | _ => false

/-- `boolean_get` (= `boolean_set`, `bool_get`, `bool_set`) -/
def booleanGet (v : Elem) : R Elem :=
  if v.isBlank then .ok (.atom (.bool false))
  else
    match v with
    | .atom (.str s) =>
      let l := lower s
      if truthWords.contains l then .ok (.atom (.bool true))
      else if falseWords.contains l then .ok (.atom (.bool false))
      else .error .value
    | _ =>
      if eqBool v true then .ok (.atom (.bool true))
      else if eqBool v false then .ok (.atom (.bool false))
      else .error .value

/-- `tuple_get(string, count)` -/
def tupleGet (v : Elem) (count : Option Int) : R Elem :=
  if !v.truthy then .ok (.atom .none)
  else
    match v with
    | .atom (.str s0) =>
      let s := strip s0
      if !(s.head? == some '(' && s.getLast? == some ')') then .error .value
      else
        let res := (splitOn ';' (slice1m1 s)).map strip
        match count with
        | some c => if (res.length : Int) == c then .ok (.seq false (res.map Atom.str)) else .error .value
        | Option.none => .ok (.seq false (res.map Atom.str))
    | _ => .error .attr            -- `.strip()` on a non-str

/-- `self.get(dtype + "_get", str_get)` -/
def convGet (now : DateTime) (d : List Char) (v : Elem) : R Elem :=
  if d == "int".toList then intGet v
  else if d == "float".toList then floatGet v
  else if d == "time".toList then timeGet now v
  else if d == "date".toList then dateGet now v
  else if d == "datetime".toList then datetimeGet now v
  else if d == "boolean".toList || d == "bool".toList then booleanGet v
  else if d == "tuple".toList then tupleGet v Option.none
  else .ok (strGet v)                 -- string_get, str_get and the fallback

/-- `dtypes.get(string, dtype)` -/
def get (now : DateTime) (v : Elem) (dtype : DType) : R Elem :=
  match dtype with
  | Option.none => .ok (strGet v)
  | some d0 =>
    if d0.isEmpty then .ok (strGet v)
    else
      let d := normDtype d0
      if endsWithTuple d then
        match parseInt (d.take (d.length - 6)) with      -- int(dtype[:-6])
        | some n => tupleGet v (some n)
        | Option.none => .error .value
      else convGet now d v

def joinSemi : List (List Char) → List Char
  | [] => []
  | [x] => x
  | x :: xs => x ++ [';'] ++ joinSemi xs

def atomStr? : Atom → Option (List Char)
  | .str s => some s
  | _ => Option.none

/-- `tuple_set(value)`: `"(%s)" % ";".join(value)` -/
def tupleSet (v : Elem) : R Elem :=
  if !v.truthy then .ok (.atom .none)
  else
    match v with
    | .seq _ xs =>
      match xs.mapM atomStr? with
      | some ss => .ok (sAtom (['('] ++ joinSemi ss ++ [')']))
      | Option.none => .error .type
    | .atom (.str s) => .ok (sAtom (['('] ++ joinSemi (s.map (fun c => [c])) ++ [')']))
    | _ => .error .type

/-- `self.get(dtype + "_set", str_set)` -/
def convSet (now : DateTime) (d : List Char) (v : Elem) : R Elem :=
  if d == "time".toList then timeGet now v
  else if d == "date".toList then dateGet now v
  else if d == "datetime".toList then datetimeGet now v
  else if d == "boolean".toList || d == "bool".toList then booleanGet v
  else if d == "tuple".toList then tupleSet v
  else .ok (strGet v)                 -- there is no int_set / float_set

/-- `if isinstance(value, str): return str_set(value)` else the `_set` function of the dtype -/
def setScalar (now : DateTime) (d : List Char) (v : Elem) : R Elem :=
  match v with
  | .atom (.str _) => .ok (strGet v)
  | _ => convSet now d v

/-- `dtypes.set(value, dtype)` -/
def set (now : DateTime) (v : Elem) (dtype : DType) : R Elem :=
  match dtype with
  | Option.none => .ok (strGet v)
  | some d0 =>
    if d0.isEmpty then .ok (strGet v)
    else
      let d := normDtype d0
      if endsWithTuple d then tupleSet v
      else setScalar now d v

/-- `dtypes.infer_dtype` -/
def hasNewline : Elem → Bool
  | .atom (.str s) => s.contains '\n'
  | _ => false

def inferDtype (v : Elem) : List Char :=
  let name := mapShorthand v.typeName
  if validType (.str name) then
    if name == "string".toList && hasNewline v then "text".toList else name
  else "string".toList

/-! ## property.py: value input -/

/-- `BaseProperty._convert_value_input` -/
def convertValueInput : Inp → List Elem
  | .one (.str s) =>
    if s.isEmpty then []
    else if s.head? == some '[' && s.getLast? == some ']' then
      (splitOn ',' (slice1m1 s)).map (fun x => sAtom (strip x))
    else [sAtom s]
  | .one (.dict t) => [sAtom t]
  | .seq _ xs => xs
  | .one a => [.atom a]

def countChar (c : Char) (s : List Char) : Nat := (s.filter (· == c)).length

/-- the text `odml_tuple_import` builds for a list/tuple item: `"(" + "a; b; " [:-2] + ")"` -/
def tupleText (xs : List Atom) : List Char :=
  let body := (xs.map (fun a => a.pyStr ++ [';', ' '])).flatten
  ['('] ++ body.take (body.length - 2) ++ [')']

/-- one iteration of the loop of `odml_tuple_import` -/
def importStep (n : Nat) (single : Bool) (acc : List Elem) (v : Elem) : List Elem :=
  match v with
  | .seq _ xs => if xs.length == n then acc ++ [sAtom (tupleText xs)] else acc ++ [v]
  | .atom (.str s) =>
    let cln := strip s
    let br := countChar '(' cln == countChar ')' cln
    -- `count("(") == count(";") / (t_count - 1)` is a float comparison: exact iff the product matches
    let sep := n == 1 || countChar '(' cln * (n - 1) == countChar ';' cln
    if single && cln.head? == some '[' then
      let l := cln.getLast? == some ']'
      let com := countChar '(' cln == countChar ',' cln + 1
      if l && br && com && sep then (splitOn ',' (slice1m1 cln)).map sAtom else acc
    else if br && sep then acc ++ [sAtom cln]
    else acc ++ [v]
  | other => acc ++ [other]

/-- `odml_tuple_import(t_count, new_value)` for a list `new_value` -/
def tupleImport (n : Nat) (vals : List Elem) : List Elem :=
  let rv := vals.foldl (importStep n (vals.length == 1)) []
  if rv.isEmpty then vals else rv

/-! ## property.py: the state and the operations -/

structure PropState where
  values : List Elem
  dtype : DType
  deriving DecidableEq, Repr, Inhabited

inductive Outcome where
  | ok
  | raised (e : Exc)
  deriving DecidableEq, Repr, Inhabited

def isOk {α : Type} : R α → Bool
  | .ok _ => true
  | .error _ => false

/-- `BaseProperty._validate_values` -/
def validate (now : DateTime) (dtype : DType) (vals : List Elem) : Bool :=
  vals.all (fun v => isOk (get now v dtype))

/-- `[dtypes.get(v, self.dtype) for v in new_value]` -/
def getAll (now : DateTime) (dtype : DType) : List Elem → R (List Elem)
  | [] => .ok []
  | v :: vs =>
    match get now v dtype with
    | .error e => .error e
    | .ok w =>
      match getAll now dtype vs with
      | .error e => .error e
      | .ok ws => .ok (w :: ws)

/-- `new_value is None or (isinstance(new_value, (list, tuple, str)) and len(new_value) == 0)` -/
def Inp.isEmptyInput : Inp → Bool
  | .one .none => true
  | .one (.str s) => s.isEmpty
  | .seq _ xs => xs.isEmpty
  | _ => false

def isTupleRaw : DType → Bool
  | some d => endsWithTuple d
  | Option.none => false

def countOf : DType → Nat
  | some d => rawCount d
  | Option.none => 0

/-- `if self._dtype is None: self._dtype = dtypes.infer_dtype(new_value[0])` -/
def inferIfNone (dt : DType) (v0 : Elem) : DType :=
  match dt with
  | Option.none => some (inferDtype v0)
  | some d => some d

/-- `if self._dtype.endswith("-tuple") and not self._validate_values(new_value): import` -/
def importIfNeeded (now : DateTime) (d1 : DType) (nv : List Elem) : List Elem :=
  if isTupleRaw d1 && !validate now d1 nv then tupleImport (countOf d1) nv else nv

/-- the `values` setter -/
def setValues (now : DateTime) (s : PropState) (inp : Inp) : PropState × Outcome :=
  if inp.isEmptyInput then ({ s with values := [] }, .ok)
  else
    match convertValueInput inp with
    | [] => ({ s with values := [] }, .ok)                   -- `if len(new_value) == 0` (646f02a): other empty
                                                             -- iterables; not reachable from `Inp`
    | v0 :: rest =>
      let d1 : DType := inferIfNone s.dtype v0
      let nv2 := importIfNeeded now d1 (v0 :: rest)
      if !validate now d1 nv2 then (s, .raised .value)       -- `_dtype` is restored before the raise
      else
        match getAll now d1 nv2 with
        | .ok vs => ({ values := vs, dtype := d1 }, .ok)
        | .error e => ({ s with dtype := d1 }, .raised e)    -- not reachable after the validation

/-- the strict check shared by append / extend / insert:
    `strict and infer_dtype(v0) != self.dtype and not (string into a special dtype) and not tuple` -/
def strictRefuses (strict : Bool) (d : List Char) (v0 : Elem) : Bool :=
  strict && inferDtype v0 != d &&
    !(inferDtype v0 == "string".toList && Gen.DTypes.special.any (fun x => x.toList == d)) &&
    !endsWithTuple d

/-- `if self._dtype.endswith("-tuple"): new_value = odml_tuple_import(t_count, new_value)` -/
def importAlways (d : List Char) (nv : List Elem) : List Elem :=
  if endsWithTuple d then tupleImport (rawCount d) nv else nv

/-- the tail of `append` / `insert`: strict check, validation, conversion of `new_value[0]` -/
def addCore (now : DateTime) (s : PropState) (at? : Option Int) (d : List Char) (strict : Bool) :
    List Elem → PropState × Outcome
  | [] => (s, .raised .index)                                -- not reachable
  | v0 :: rest =>
    if strictRefuses strict d v0 then (s, .raised .value)
    else if !validate now s.dtype (v0 :: rest) then (s, .raised .value)
    else
      match get now v0 s.dtype with
      | .ok w =>
        let vals := match at? with
          | Option.none => s.values ++ [w]
          | some i => pyInsert s.values i w
        ({ s with values := vals }, .ok)
      | .error e => (s, .raised e)

/-- `append` (`at = none`) and `insert` (`at = some index`) -/
def addOne (now : DateTime) (s : PropState) (at? : Option Int) (inp : Inp) (strict : Bool) :
    PropState × Outcome :=
  if inp.isBlank then (s, .ok)
  else if s.values.isEmpty then setValues now s inp
  else if (convertValueInput inp).length > 1 then (s, .raised .value)
  else if (convertValueInput inp).isEmpty then (s, .ok)
  else
    match s.dtype with
    | Option.none => (s, .raised .attr)                      -- `None.endswith`; not reachable
    | some d => addCore now s at? d strict (importAlways d (convertValueInput inp))

/-- `len(new_value) > 0 and strict and …` on the first item -/
def firstRefuses (strict : Bool) (d : List Char) : List Elem → Bool
  | v0 :: _ => strictRefuses strict d v0
  | [] => false

/-- the tail of `extend` -/
def extendCore (now : DateTime) (s : PropState) (d : List Char) (strict : Bool)
    (nv : List Elem) : PropState × Outcome :=
  if firstRefuses strict d nv then (s, .raised .value)
  else if !validate now s.dtype nv then (s, .raised .value)
  else
    match getAll now s.dtype nv with
    | .ok ws => ({ s with values := s.values ++ ws }, .ok)
    | .error e => (s, .raised e)

/-- `extend` for a non-Property argument -/
def extend (now : DateTime) (s : PropState) (inp : Inp) (strict : Bool) : PropState × Outcome :=
  if s.values.isEmpty then setValues now s inp
  else
    match s.dtype with
    | Option.none => (s, .raised .attr)                      -- not reachable
    | some d => extendCore now s d strict (importAlways d (convertValueInput inp))

/-- `__setitem__(key, item)` for an int key -/
def setItem (now : DateTime) (s : PropState) (k : Int) (item : Elem) : PropState × Outcome :=
  if k < 0 || k > s.values.length then (s, .raised .index)
  else
    match get now item s.dtype with
    | .error _ => (s, .raised .value)
    | .ok w =>
      if k == s.values.length then (s, .raised .value)       -- IndexError inside the try
      else ({ s with values := s.values.set k.toNat w }, .ok)

/-- the `dtype` setter -/
def setDtype (now : DateTime) (s : PropState) (d : DtIn) : PropState × Outcome :=
  if !validType d then (s, .raised .attr)
  else
    let r := setValues now { s with dtype := d.toDType } (.seq false s.values)
    match r.2 with
    | .ok => r
    | .raised _ => ({ r.1 with dtype := s.dtype }, .raised .value)

/-- `merge(other, strict)` as far as values and dtype are concerned (all other attributes unset) -/
def merge (now : DateTime) (s : PropState) (ovals : List Elem) (odtype : DType) (strict : Bool) :
    PropState × Outcome :=
  -- merge_check
  if !validate now s.dtype ovals then (s, .raised .value)
  else if strict && s.dtype.isSome && odtype.isSome && s.dtype != odtype then (s, .raised .value)
  else
    let toAdd := ovals.filter (fun v => !pyMem v s.values)
    -- `self.extend(to_add, strict=False)`: merge_check has compared the dtypes already (fix b7c69ea)
    extend now s (.seq false toAdd) false

inductive Op where
  | setValues (v : Inp)
  | setDtype (d : DtIn)
  | append (v : Inp) (strict : Bool)
  | extend (v : Inp) (strict : Bool)
  | extendProp (vals : List Elem) (sameUnit : Bool)      -- `extend(other_property)`
  | insert (i : Int) (v : Inp) (strict : Bool)
  | setItem (k : Int) (v : Elem)
  | remove (v : Elem)
  | merge (ovals : List Elem) (odtype : DType) (strict : Bool)
  | clone                                                  -- continue with `self.clone()`
  deriving Repr, Inhabited

/-- one public value-editing call on a Property -/
def step (now : DateTime) (s : PropState) : Op → PropState × Outcome
  | .setValues v => setValues now s v
  | .setDtype d => setDtype now s d
  | .append v strict => addOne now s Option.none v strict
  | .insert i v strict => addOne now s (some i) v strict
  | .extend v strict => extend now s v strict
  | .extendProp vals sameUnit =>
    if !sameUnit then (s, .raised .value) else extend now s (.seq false vals) true
  | .setItem k v => setItem now s k v
  | .remove v => (if pyMem v s.values then { s with values := removeFirst v s.values } else s, .ok)
  | .merge ov od strict => merge now s ov od strict
  | .clone =>
    -- copy.copy(self), then `obj.values = self._values`; a raise leaves no clone
    let r := setValues now s (.seq false s.values)
    match r.2 with
    | .ok => r
    | .raised e => (s, .raised e)

/-- `isinstance(value, (bool, int))` -/
def Inp.isBoolOrInt : Inp → Bool
  | .one (.bool _) => true
  | .one (.int _) => true
  | _ => false

/-- `Property(values=…, dtype=…, value=…)`: the new object's state, or the exception -/
def ctor (now : DateTime) (d : DtIn) (values value : Inp) : Except Exc PropState :=
  let s0 : PropState := { values := [], dtype := if validType d then d.toDType else Option.none }
  let r1 := setValues now s0 values
  match r1.2 with
  | .raised e => .error e
  | .ok =>
    if !values.truthy && (value.truthy || value.isBoolOrInt) then
      let r2 := setValues now r1.1 value
      match r2.2 with
      | .raised e => .error e
      | .ok => .ok r2.1
    else .ok r1.1

/-- a history of calls on one object; refused calls are part of the history -/
def run (now : DateTime) (s : PropState) : List Op → PropState
  | [] => s
  | op :: ops => run now (step now s op).1 ops

end DT
