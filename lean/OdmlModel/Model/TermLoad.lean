/-
M-TermLoad: the table of loaded terminologies of odml/terminology.py and what the two rules the
library ships "for use on demand" (section_repository_present, property_terminology_check) see
through it.  (Added after seeded round 5 of C19: a custom validation with these rules is the one
place where a validation reads process-wide state that an earlier validation may have written.)

  odml/terminology.py   Terminologies (a dict url -> Document or None), load, _load, deferred_load:
                          load(url):  url in the table -> the cached value
                                      otherwise _load(url)
                          _load(url): cache_load(url) is None (the file cannot be fetched or decoded)
                                         -> return None, nothing is entered into the table
                                      XMLReader(...).from_file raises ParserException
                                         -> None is entered into the table and returned
                                      term.finalize() raises (a link of the file cannot be resolved)
                                         -> the exception leaves _load, nothing is entered
                                      otherwise the finalized Document is entered and returned
                          deferred_load(url): a thread that runs _load(url); load joins it first;
                                      an exception ends the thread and is seen by nobody
  odml/section.py       get_terminology_equivalent: terminology.load(get_repository()), find_related
  odml/validation.py    section_repository_present: one warning if the Section has no repository, if the
                        load raises, if nothing is loaded or the type is not in the loaded Document

URLs are numbers; a file is described by the stage at which loading it ends (`FileState`); the
Document a good file yields is identified by its URL.
-/

namespace TermLoad

/-- Where loading a terminology file ends. -/
inductive FileState where
  /-- `cache_load` returns None: the URL cannot be fetched, or the bytes are no UTF-8 text -/
  | unreachable
  /-- fetched, but the reader raises a ParserException (syntax, root element, format version) -/
  | unparsable
  /-- parsed, but `finalize()` raises: a link of the file cannot be resolved -/
  | unfinalizable
  /-- parsed and finalized -/
  | good
  deriving DecidableEq, Repr

/-- What `terminology.load(url)` hands to its caller. -/
inductive Outcome where
  | doc            -- the Document of this URL
  | none           -- None
  | raised         -- an exception of `finalize`
  deriving DecidableEq, Repr

/-- The dict: url -> cached value (`true`: a Document, `false`: None), newest entry first. -/
abbrev Table := List (Nat × Bool)

def lookup (t : Table) (url : Nat) : Option Bool := List.lookup url t

/-- `Terminologies.load(url)`, statement by statement. -/
def load (files : Nat → FileState) (t : Table) (url : Nat) : Outcome × Table :=
  match lookup t url with
  | some true => (.doc, t)
  | some false => (.none, t)
  | none =>
    match files url with
    | .unreachable => (.none, t)
    | .unparsable => (.none, (url, false) :: t)
    | .unfinalizable => (.raised, t)
    | .good => (.doc, (url, true) :: t)

/-- `deferred_load(url)` followed by the end of its thread: `_load` in the background, its result
    and its exception are dropped. -/
def deferredLoad (files : Nat → FileState) (t : Table) (url : Nat) : Table :=
  match lookup t url with
  | some _ => t
  | none => (load files t url).2

/-- Something that enters the loader: a validation rule, `get_terminology_equivalent`, an include,
    `terminology.load` itself (`load`), or a repository / include setter (`deferred`). -/
inductive Op where
  | load (url : Nat)
  | deferred (url : Nat)
  deriving DecidableEq, Repr

def step (files : Nat → FileState) (t : Table) : Op → Table
  | .load url => (load files t url).2
  | .deferred url => deferredLoad files t url

def run (files : Nat → FileState) (t : Table) (ops : List Op) : Table := ops.foldl (step files) t

/-- What a load of the URL yields in a process that has loaded nothing yet. -/
def outcomeOf : FileState → Outcome
  | .unreachable => .none
  | .unparsable => .none
  | .unfinalizable => .raised
  | .good => .doc

/-- Number of warnings of `section_repository_present` on a Section whose repository is `url`
    (`hasType`: the loaded Document holds a Section of the Section's type). -/
def sectionWarnings (o : Outcome) (hasType : Bool) : Nat :=
  match o with
  | .doc => if hasType then 0 else 1
  | .none => 1
  | .raised => 1

/-- `property_terminology_check` on a Property of that Section: it fails with the loader's
    exception (`none`), or reports one warning if the terminology Section lacks the name. -/
def propertyWarnings (o : Outcome) (hasType hasName : Bool) : Option Nat :=
  match o with
  | .doc => some (if hasType && !hasName then 1 else 0)
  | .none => some 0
  | .raised => none

/-- The table holds nothing but what the files yield: the invariant of every history. -/
def Consistent (files : Nat → FileState) (t : Table) : Prop :=
  ∀ url v, lookup t url = some v →
    (v = true ∧ files url = .good) ∨ (v = false ∧ files url = .unparsable)

end TermLoad
