/-
M-Clone (C11): the object graph of python-odml as an explicit store in which *aliasing is
expressible*, and the operations that hand out copies, in Python statement order.

  odml/base.py      BaseObject.clone (copy.copy), Sectionable.clone, Sectionable.append/_adopt/
                    _check_no_cycle/remove, SmartList.append (name clash)
  odml/section.py   BaseSection.clone, append, remove, export_leaf, name setter, new_id
  odml/doc.py       BaseDocument.clone
  odml/property.py  BaseProperty.clone, values getter / setter (_convert_value_input, tuple
                    re-import, dtypes.get per item), dtype setter, append, __setitem__, remove,
                    export_leaf, name setter, new_id
  odml/templates.py TemplateHandler.clone_section (= Section.clone on a cached document)

Four address spaces:
  node  : Nat → Node          objects (Document / Section / Property) by handle
  vcell : Nat → List Item     Python lists holding values: `_values` of a Property, a list returned
                              by `Property.values`, a list the caller passes in as `values`
  tcell : Nat → List String   the inner lists of n-tuple values (`['a', 'b']` of `"(a;b)"`)
  dcell : Nat → List (Nat × String)   the dicts `_merged_attrs` of Sections (attribute position ↦ the
                              value `merge` has filled in from the merged Section); `copy.copy` copies the
                              ADDRESS, so a Section and its clone share one dict until one of them binds
                              a new one. Cell 0 is the class-level `_merged_attrs = {}` of `BaseSection`.
An `Item` is an immutable atom or a reference to an inner list, so a shallow copy of a value list
(`list(self._values)`) shares the inner lists with the original - which is what the property
"independent" is about.  Ids are natural numbers; `uuid.uuid4()` is `nextId` (contract: fresh).
Atoms and attribute values are opaque texts: dtype conversion is C05's business, the values
given to this model are in the normal form of the dtype, on which `dtypes.get` is the identity.
No Mathlib.
-/
namespace Clone

inductive Kind where
  | doc | sec | prop
  deriving DecidableEq, Repr, Inhabited

inductive Item where
  | atom (s : String)
  | ref (t : Nat)
  deriving DecidableEq, Repr, Inhabited

/-- A value as the caller writes it (already in the normal form of the dtype). -/
inductive Lit where
  | atom (s : String)
  | tup (xs : List String)
  deriving DecidableEq, Repr, Inhabited

structure Node where
  kind : Kind
  name : String
  id : Nat
  attrs : List String        -- every other attribute `==` compares (type, definition, dtype, unit,
                             -- cardinalities, …), position = attribute
  parent : Option Nat
  secs : List Nat            -- `_sections`
  props : List Nat           -- `_props`
  vals : Option Nat          -- address of `_values` (Properties)
  merged : Option Nat        -- `_merged`: a reference that is read, never written through
  mattrs : Nat := 0          -- address of `_merged_attrs` (Sections): copied by `copy.copy` as an address
  deriving Repr, Inhabited

structure H where
  node : Nat → Node
  vcell : Nat → List Item
  tcell : Nat → List String
  nN : Nat                   -- handles `< nN` are allocated
  nV : Nat
  nT : Nat
  nextId : Nat
  dcell : Nat → List (Nat × String) := fun _ => []   -- the `_merged_attrs` dicts
  nD : Nat := 0

/-- Nothing but the class attribute `BaseSection._merged_attrs = {}` (cell 0 of `dcell`). -/
def empty : H :=
  { node := fun _ => default, vcell := fun _ => [], tcell := fun _ => [], nN := 0, nV := 0, nT := 0,
    nextId := 0, dcell := fun _ => [], nD := 1 }

/-! ### Primitive writes -/

def updN (h : H) (i : Nat) (f : Node → Node) : H :=
  { h with node := fun j => if j = i then f (h.node j) else h.node j }

def updV (h : H) (i : Nat) (f : List Item → List Item) : H :=
  { h with vcell := fun j => if j = i then f (h.vcell j) else h.vcell j }

def updT (h : H) (i : Nat) (f : List String → List String) : H :=
  { h with tcell := fun j => if j = i then f (h.tcell j) else h.tcell j }

/-- A new object with the given fields; its handle is the old `nN`. -/
def allocN (h : H) (n : Node) : H × Nat :=
  ({ h with node := fun j => if j = h.nN then n else h.node j, nN := h.nN + 1 }, h.nN)

/-- A new Python list of values. -/
def allocV (h : H) (l : List Item) : H × Nat :=
  ({ h with vcell := fun j => if j = h.nV then l else h.vcell j, nV := h.nV + 1 }, h.nV)

/-- A new inner (tuple) list. -/
def allocT (h : H) (l : List String) : H × Nat :=
  ({ h with tcell := fun j => if j = h.nT then l else h.tcell j, nT := h.nT + 1 }, h.nT)

/-- A new dict. -/
def allocD (h : H) (l : List (Nat × String)) : H × Nat :=
  ({ h with dcell := fun j => if j = h.nD then l else h.dcell j, nD := h.nD + 1 }, h.nD)

/-- A write INTO a dict (item assignment, `.clear()`). -/
def updD (h : H) (i : Nat) (f : List (Nat × String) → List (Nat × String)) : H :=
  { h with dcell := fun j => if j = i then f (h.dcell j) else h.dcell j }

/-- `obj.new_id()`: `str(uuid.uuid4())`. -/
def newId (h : H) (x : Nat) : H :=
  { updN h x (fun n => { n with id := h.nextId }) with nextId := h.nextId + 1 }

inductive Err where
  | keyError | valueError | indexError | typeError | attributeError
  | fuel                     -- the recursion did not end (only on a cyclic store)
  deriving DecidableEq, Repr

inductive Res where
  | ok (ret : Nat)           -- returned object / list
  | err (e : Err)
  deriving DecidableEq, Repr

/-! ### Values -/

/-- `[dtypes.get(v, dtype) for v in new_value]` on stored values: an atom converts to itself; an
    inner list is turned into the text `"(a; b)"` by `odml_tuple_import` and parsed back by
    `tuple_get`, i.e. into a *new* list with the same items. -/
def convertItems (h : H) : List Item → H × List Item
  | [] => (h, [])
  | .atom s :: rest =>
    let (h1, out) := convertItems h rest
    (h1, .atom s :: out)
  | .ref t :: rest =>
    let (h1, t') := allocT h (h.tcell t)
    let (h2, out) := convertItems h1 rest
    (h2, .ref t' :: out)

/-- The same for values the caller writes: `"(a;b)"` is parsed into a new list. -/
def litItems (h : H) : List Lit → H × List Item
  | [] => (h, [])
  | .atom s :: rest =>
    let (h1, out) := litItems h rest
    (h1, .atom s :: out)
  | .tup xs :: rest =>
    let (h1, t') := allocT h xs
    let (h2, out) := litItems h1 rest
    (h2, .ref t' :: out)

/-- `prop.values = <list object>` (setter): empty → `self._values = []`; otherwise
    `self._values = [dtypes.get(v, self.dtype) for v in new_value]`. In both cases `_values` is
    bound to a new list; the list given is only read. -/
def setValuesItems (h : H) (p : Nat) (src : List Item) : H :=
  match src with
  | [] =>
    let (h1, c) := allocV h []
    updN h1 p (fun n => { n with vals := some c })
  | _ =>
    let (h1, items) := convertItems h src
    let (h2, c) := allocV h1 items
    updN h2 p (fun n => { n with vals := some c })

def setValuesLits (h : H) (p : Nat) (src : List Lit) : H :=
  match src with
  | [] =>
    let (h1, c) := allocV h []
    updN h1 p (fun n => { n with vals := some c })
  | _ =>
    let (h1, items) := litItems h src
    let (h2, c) := allocV h1 items
    updN h2 p (fun n => { n with vals := some c })

/-- The stored value list of a Property (`[]` for an object without one). -/
def valsOf (h : H) (p : Nat) : List Item :=
  match (h.node p).vals with
  | some c => h.vcell c
  | none => []

/-- `prop.values` (getter): a new list; the inner lists of n-tuple values are copied as well
    (`[list(val) if isinstance(val, list) else val for val in self._values]`). -/
def getValues (h : H) (p : Nat) : H × Nat :=
  let (h1, items) := convertItems h (valsOf h p)
  allocV h1 items

/-- The getter as it was before the fix (`list(self._values)`): a new outer list whose items are
    the very inner lists of the Property. Kept for the counterexample theorem only. -/
def getValuesShallow (h : H) (p : Nat) : H × Nat :=
  allocV h (valsOf h p)

/-! ### Child lists -/

def nameIn (h : H) (l : List Nat) (name : String) : Bool :=
  l.any (fun o => (h.node o).name == name)

def childList (h : H) (p : Nat) (secList : Bool) : List Nat :=
  if secList then (h.node p).secs else (h.node p).props

def setChildList (h : H) (p : Nat) (secList : Bool) (f : List Nat → List Nat) : H :=
  updN h p (fun n => if secList then { n with secs := f n.secs } else { n with props := f n.props })

/-- `obj.append(child)` for a `child` that has just been created by `clone` (its `_parent` is None,
    so `_adopt` has nothing to remove and `_check_no_cycle` walks from the equally new, parentless
    `obj`): `SmartList.append` refuses a used name with KeyError, otherwise the child is listed and
    `child._parent = obj`. -/
def attach (h : H) (c child : Nat) : H × Option Err :=
  let secList := (h.node child).kind != .prop
  if nameIn h (childList h c secList) (h.node child).name then (h, some .keyError)
  else
    let h1 := setChildList h c secList (fun l => l ++ [child])
    (updN h1 child (fun n => { n with parent := some c }), none)

/-- `for child in self._sections: obj.append(child.clone(...))` with the recursive call abstracted. -/
def cloneLoop (rec : H → Nat → H × Res) (h : H) (c : Nat) : List Nat → H × Option Err
  | [] => (h, none)
  | s :: rest =>
    match rec h s with
    | (h1, .err e) => (h1, some e)
    | (h1, .ok sc) =>
      match attach h1 c sc with
      | (h2, some e) => (h2, some e)
      | (h2, none) => cloneLoop rec h2 c rest

/-- `Property.clone(keep_id)`. -/
def cloneProp (h : H) (x : Nat) (keep : Bool) : H × Nat :=
  let (h1, c) := allocN h (h.node x)                       -- obj = copy.copy(self)
  let h2 := updN h1 c (fun n => { n with parent := none })  -- obj._parent = None
  let h3 := setValuesItems h2 c (valsOf h2 x)               -- obj.values = self._values
  let h4 := if keep then h3 else newId h3 c                 -- if not keep_id: obj.new_id()
  (h4, c)

/-- `Sectionable.clone` followed by the rest of `BaseSection.clone` / `BaseDocument.clone`, with the
    recursive call (`child.clone(keep_id=keep_id)`) abstracted as `rec`. -/
def cloneBody (rec : H → Nat → H × Res) (h : H) (x : Nat) (children keep : Bool) : H × Res :=
  -- Sectionable.clone
  let (h1, c) := allocN h (h.node x)                       -- obj = copy.copy(self)
  let h2 := updN h1 c (fun n => { n with parent := none })  -- obj._parent = None
  let h3 := updN h2 c (fun n => { n with secs := [] })      -- obj._sections = SmartList(BaseSection)
  let r4 : H × Option Err :=
    if children then cloneLoop rec h3 c (h3.node x).secs     -- for sec in self._sections: obj.append(…)
    else (h3, none)
  match r4 with
  | (h4, some e) => (h4, .err e)
  | (h4, none) =>
    -- BaseSection.clone / BaseDocument.clone
    let h5 := if keep then h4 else newId h4 c               -- if not keep_id: obj.new_id()
    if (h.node x).kind = .doc then (h5, .ok c)
    else
      let h6 := updN h5 c (fun n => { n with props := [] }) -- obj._props = SmartList(BaseProperty)
      let r7 : H × Option Err :=
        if children then cloneLoop rec h6 c (h6.node x).props -- for prop in self._props: obj.append(…)
        else (h6, none)
      match r7 with
      | (h7, some e) => (h7, .err e)
      | (h7, none) => (h7, .ok c)

/-- `clone(children, keep_id)` of any object; `fuel` bounds the nesting depth of the recursion. -/
def cloneF : Nat → H → Nat → Bool → Bool → H × Res
  | 0, h, _, _, _ => (h, .err .fuel)
  | fuel + 1, h, x, children, keep =>
    if (h.node x).kind = .prop then
      let (h1, c) := cloneProp h x keep
      (h1, .ok c)
    else cloneBody (fun h s => cloneF fuel h s true keep) h x children keep

/-- The fuel the executable model gives to a top-level call: more than any nesting depth of a
    store with `nN` objects that is a forest. -/
def fuelOf (h : H) : Nat := h.nN + 2

/-- A call that raises has only written objects nobody can reach (the half-built copy); the store
    is returned as it was. -/
def dropOnErr (h : H) : H × Res → H × Res
  | (h', .ok c) => (h', .ok c)
  | (_, .err e) => (h, .err e)

def clone (h : H) (x : Nat) (children keep : Bool) : H × Res :=
  dropOnErr h (cloneF (fuelOf h) h x children keep)

/-- `Section.parent` / `Property.parent` / `Document.parent` (always None for a Document). -/
def parentOf (h : H) (x : Nat) : Option Nat :=
  if (h.node x).kind = .doc then none else (h.node x).parent

/-- The `while curr is not None` loop of `Section.export_leaf`; `child` is the copy built for the
    previous (lower) element of the chain. `curr != self` is a deep comparison in the code; an
    ancestor has more descendants than `self`, so it differs from `self` exactly when it is
    another object. -/
def exportLoop : Nat → H → Nat → Nat → Nat → H × Res
  | 0, h, _, _, _ => (h, .err .fuel)
  | fuel + 1, h, self, curr, child =>
    match cloneF 1 h curr false true with                 -- par = curr.clone(children=False, keep_id=True)
    | (h1, .err e) => (h1, .err e)
    | (h1, .ok par) =>
      let r2 : H × Option Err :=
        if curr ≠ self then attach h1 par child            -- if curr != self: par.append(child)
        else (h1, none)
      match r2 with
      | (h2, some e) => (h2, .err e)
      | (h2, none) =>
        let r3 : H × Option Err :=
          if (h2.node curr).kind = .sec then                -- if hasattr(curr, 'properties'):
            cloneLoop (fun h p => cloneF 1 h p true true) h2 par (h2.node curr).props
          else (h2, none)
        match r3 with
        | (h3, some e) => (h3, .err e)
        | (h3, none) =>
          match parentOf h3 curr with                       -- child = par; curr = curr.parent
          | none => (h3, .ok par)
          | some q => exportLoop fuel h3 self q par

/-- `obj.export_leaf()`; a Property delegates to its Section, a Property without a parent is
    cloned with its id. -/
def exportLeafF (h : H) (x : Nat) : H × Res :=
  match (h.node x).kind with
  | .prop =>
    match (h.node x).parent with
    | some p => exportLoop (fuelOf h) h p p p
    | none =>
      let (h1, c) := cloneProp h x true
      (h1, .ok c)
  | _ => exportLoop (fuelOf h) h x x x

def exportLeaf (h : H) (x : Nat) : H × Res := dropOnErr h (exportLeafF h x)

/-! ### Editing operations (what a user can do to a copy or to the original afterwards) -/

/-- `_check_no_cycle`: walk from `start` along `.parent`; `true` = `obj` met (ValueError). -/
def meetsUp (h : H) : Nat → Option Nat → Nat → Bool
  | _, none, _ => false
  | 0, some _, _ => true
  | fuel + 1, some cur, obj =>
    if cur = obj then true else meetsUp h fuel (parentOf h cur) obj

def cycleCheck (h : H) (self obj : Nat) : Bool := meetsUp h (h.nN + 1) (some self) obj

def indexOf? (l : List Nat) (x : Nat) : Option Nat :=
  match l with
  | [] => none
  | y :: ys => if y = x then some 0 else (indexOf? ys x).map (· + 1)

/-- `container.remove(obj)` for the list of the right sort; `none` = ValueError, nothing changed. -/
def removeChild (h : H) (p x : Nat) : Option H :=
  match (h.node x).kind with
  | .doc => none
  | k =>
    if k = .prop ∧ (h.node p).kind = .doc then none
    else
    let secList := k != .prop
    match indexOf? (childList h p secList) x with
    | none => none
    | some i =>
      let h1 := setChildList h p secList (fun l => l.eraseIdx i)
      some (updN h1 x (fun n => { n with parent := none }))

/-- `Section.append(obj)` / `Document.append(section)` for arbitrary objects. -/
def append (h : H) (p x : Nat) : H × Option Err :=
  match (h.node p).kind, (h.node x).kind with
  | .prop, _ => (h, some .typeError)
  | _, .doc => (h, some .valueError)
  | .doc, .prop => (h, some .valueError)
  | _, k =>
    let secList := k != .prop
    if secList && cycleCheck h p x then (h, some .valueError)
    else if nameIn h (childList h p secList) (h.node x).name then (h, some .keyError)
    else
      let h1 := setChildList h p secList (fun l => l ++ [x])
      -- _adopt
      match (h1.node x).parent with
      | none => (updN h1 x (fun n => { n with parent := some p }), none)
      | some q =>
        if q = p then (updN h1 x (fun n => { n with parent := some p }), none)
        else match removeChild h1 q x with
          | none => (h1, some .valueError)
          | some h2 => (updN h2 x (fun n => { n with parent := some p }), none)

/-- `container.remove(obj)` -/
def remove (h : H) (p x : Nat) : H × Option Err :=
  if (h.node p).kind = .prop then (h, some .typeError)
  else match removeChild h p x with
    | some h1 => (h1, none)
    | none => (h, some .valueError)

/-- `obj.name = new` (a non-empty text). -/
def rename (h : H) (x : Nat) (new : String) : H × Option Err :=
  if (h.node x).kind = .doc then (h, some .attributeError)
  else if (h.node x).name = new then (h, none)
  else
    let clash : Bool := match (h.node x).parent with
      | none => false
      | some p =>
        if (h.node x).kind = .sec then nameIn h (h.node p).secs new
        else if (h.node p).kind = .doc then false
        else nameIn h (h.node p).props new
    if clash then (h, some .keyError)
    else (updN h x (fun n => { n with name := new }), none)

/-- An attribute setter without side effects on other objects (definition, type, unit,
    cardinalities, author, …): stores the text at position `i`. -/
def setAttr (h : H) (x : Nat) (i : Nat) (v : String) : H :=
  updN h x (fun n => { n with attrs := n.attrs.set i v })

/-- `prop.dtype = new_type` where the stored values convert to themselves:
    `self._dtype = new_type; self.values = old_values` (position 0 of `attrs` is the dtype). -/
def setDtype (h : H) (p : Nat) (v : String) : H :=
  let h1 := setAttr h p 0 v
  setValuesItems h1 p (valsOf h1 p)

/-- In-place edits of the stored list: `prop.append(v)` (`self._values.append`; on an empty
    Property it is `self.values = v`). -/
def appendValue (h : H) (p : Nat) (v : Lit) : H :=
  match (h.node p).vals with
  | none => h
  | some c =>
    if (h.vcell c).isEmpty then setValuesLits h p [v]
    else
      let (h1, items) := litItems h [v]
      updV h1 c (fun l => l ++ items)

/-- `prop[i] = v` (`self._values[int(key)] = val`); `i ≥ len` is the IndexError of the guard or
    of the list assignment, nothing changed. -/
def setValueAt (h : H) (p : Nat) (i : Nat) (v : Lit) : H × Option Err :=
  match (h.node p).vals with
  | none => (h, some .attributeError)
  | some c =>
    if i ≥ (h.vcell c).length then (h, some .indexError)
    else
      let (h1, items) := litItems h [v]
      (updV h1 c (fun l => match items with | it :: _ => l.set i it | [] => l), none)

/-- Edits of a list the caller holds (returned by `values`, or passed in as `values`). -/
def listAppend (h : H) (c : Nat) (v : Lit) : H :=
  let (h1, items) := litItems h [v]
  updV h1 c (fun l => l ++ items)

def listSet (h : H) (c : Nat) (i : Nat) (v : Lit) : H × Option Err :=
  if i ≥ (h.vcell c).length then (h, some .indexError)
  else
    let (h1, items) := litItems h [v]
    (updV h1 c (fun l => match items with | it :: _ => l.set i it | [] => l), none)

def listDel (h : H) (c : Nat) (i : Nat) : H × Option Err :=
  if i ≥ (h.vcell c).length then (h, some .indexError)
  else (updV h c (fun l => l.eraseIdx i), none)

/-- `lst[i][j] = s`: writes into the inner list the item refers to. -/
def listInnerSet (h : H) (c : Nat) (i j : Nat) (s : String) : H × Option Err :=
  match (h.vcell c)[i]? with
  | some (.ref t) =>
    if j ≥ (h.tcell t).length then (h, some .indexError)
    else (updT h t (fun l => l.set j s), none)
  | some (.atom _) => (h, some .typeError)
  | none => (h, some .indexError)

/-- `prop[i][j] = s`: `Property.__getitem__` is `self._values[key]`, it hands out the stored inner
    list itself (the "direct access (using brackets)" of the `values` docstring), the assignment
    writes into it. `c ≥ nV` (a dangling `_values` reference) cannot happen on a store built by the
    operations; it is answered like a bad handle. -/
def valueInnerSet (h : H) (p i j : Nat) (s : String) : H × Option Err :=
  match (h.node p).vals with
  | none => (h, some .attributeError)
  | some c => if c ≥ h.nV then (h, some .typeError) else listInnerSet h c i j s

/-! ### The record of what a merge has filled in (`_merged_attrs`)

`Section._merge` / `Section.unmerge` (odml/section.py) as far as they touch the Section's own attributes
and the record; statement order of the code. The recursion over the children of the merged Section
(copies of missing children, removal of equal ones) is C12's `Model/Merge.lean`; here the merged Section
is one without children, for which these statements are all that is executed. -/

/-- Positions of `definition` and `reference` among the compared attributes of a Section. -/
def defAttr : Nat := 1
def refAttr : Nat := 2

/-- The object's own value of attribute `k`; the attribute texts are Python `repr`s, `None` is
    "no value". -/
def ownAttr (h : H) (x k : Nat) : Option String :=
  match (h.node x).attrs[k]? with
  | some v => if v = "None" then none else some v
  | none => none

/-- What the Section's `_merged_attrs` holds. -/
def recOf (h : H) (x : Nat) : List (Nat × String) := h.dcell (h.node x).mattrs

/-- `d[k] = v` on the items of a dict. -/
def dictSet (l : List (Nat × String)) (k : Nat) (v : String) : List (Nat × String) :=
  if l.any (fun p => p.1 == k) then l.map (fun p => if p.1 = k then (k, v) else p) else l ++ [(k, v)]

/-- `self._merged_attrs = {}` of `Section.__init__`: a new dict is bound. -/
def initRecord (h : H) (x : Nat) : H :=
  let (h1, d) := allocD h []
  updN h1 x (fun n => { n with mattrs := d })

/-- `if self.<attr> is None and section.<attr> is not None: self.<attr> = section.<attr>;
    filled["<attr>"] = self.<attr>` with `filled` the dict at `d`. -/
def fillAttr (h : H) (x s d k : Nat) : H :=
  match ownAttr h x k, ownAttr h s k with
  | none, some v =>
    let h1 := updN h x (fun n => { n with attrs := n.attrs.set k v })
    updD h1 d (fun l => dictSet l k v)
  | _, _ => h

/-- `Section._merge(section, strict=False, record)` for a `section` without children:
    `filled = dict(self._merged_attrs)` is a NEW dict, the two attributes are filled in and noted in it,
    `if record: self._merged_attrs = filled` BINDS it (the dict bound before is not written), the loop over
    the children of `section` does nothing, `if record: self._merged = section`. -/
def mergeAttrs (h : H) (x s : Nat) (record : Bool) : H :=
  let (h1, d) := allocD h (recOf h x)                                   -- filled = dict(self._merged_attrs)
  let h2 := fillAttr h1 x s d defAttr
  let h3 := fillAttr h2 x s d refAttr
  let h4 := if record then updN h3 x (fun n => { n with mattrs := d }) else h3   -- self._merged_attrs = filled
  if record then updN h4 x (fun n => { n with merged := some s }) else h4        -- self._merged = section

/-- `for attr, value in self._merged_attrs.items(): if value is not None and getattr(self, attr) == value:
    setattr(self, attr, None)` -/
def takeBack (h : H) (x : Nat) : List (Nat × String) → H
  | [] => h
  | (k, v) :: rest =>
    let h1 := if ownAttr h x k = some v then updN h x (fun n => { n with attrs := n.attrs.set k "None" }) else h
    takeBack h1 x rest

/-- `Section.unmerge(section)` for a `section` without children, from the comment "Take back the
    definition and the reference" on (no child is removed; `_link` is None): what is recorded and still
    unchanged is taken back, `self._merged_attrs = {}` BINDS a new empty dict, `self._merged = None`. -/
def unmergeAttrs (h : H) (x : Nat) : H :=
  let h1 := takeBack h x (recOf h x)
  let (h2, d) := allocD h1 []                                           -- self._merged_attrs = {}
  let h3 := updN h2 x (fun n => { n with mattrs := d })
  updN h3 x (fun n => { n with merged := none })                        -- self._merged = None

/-- The variants that write INTO the dict that is bound (not the code; seeded changes C11-G: `unmerge` ends
    with `self._merged_attrs.clear()`, C12-G: `merge` does `self._merged_attrs[attr] = …`). Kept for the
    counterexample theorems only; `step` does not use them. -/
def unmergeAttrsInPlace (h : H) (x : Nat) : H :=
  let h1 := takeBack h x (recOf h x)
  let h2 := updD h1 (h1.node x).mattrs (fun _ => [])                    -- self._merged_attrs.clear()
  updN h2 x (fun n => { n with merged := none })

def mergeAttrsInPlace (h : H) (x s : Nat) : H :=
  let d := (h.node x).mattrs                                            -- self._merged_attrs[attr] = …
  let h2 := fillAttr h x s d defAttr
  let h3 := fillAttr h2 x s d refAttr
  updN h3 x (fun n => { n with merged := some s })

/-- `sec.merge(section, strict=False)` / `sec.unmerge(section)` as operations: both objects are Sections
    (anything else has no such method or is refused). -/
def mergeOp (h : H) (x s : Nat) (record : Bool) : H × Option Err :=
  if (h.node x).kind != .sec || decide (s ≥ h.nN) || (h.node s).kind != .sec then (h, some .attributeError)
  else (mergeAttrs h x s record, none)

def unmergeOp (h : H) (x : Nat) : H × Option Err :=
  if (h.node x).kind != .sec then (h, some .attributeError) else (unmergeAttrs h x, none)

/-- `Section(name)` / `Property(name, values)`: a new detached object. -/
def newObj (h : H) (k : Kind) (name : String) (attrs : List String) (vals : List Lit) : H × Nat :=
  let id := h.nextId
  let h0 := { h with nextId := h.nextId + 1 }
  let (h1, x) := allocN h0 { kind := k, name := name, id := id, attrs := attrs, parent := none,
                             secs := [], props := [], vals := none, merged := none, mattrs := 0 }
  if k = .prop then (setValuesLits h1 x vals, x)
  else if k = .sec then (initRecord h1 x, x)                 -- Section.__init__: self._merged_attrs = {}
  else (h1, x)

/-- A list the caller builds (`lst = ["(a;b)", …]` in converted form). -/
def newList (h : H) (vals : List Lit) : H × Nat :=
  let (h1, items) := litItems h vals
  allocV h1 items

inductive Op where
  | clone (x : Nat) (children keep : Bool)
  | exportLeaf (x : Nat)
  | getValues (p : Nat)
  | setValuesFrom (p : Nat) (c : Nat)          -- `p.values = lst` with a list the caller holds
  | setValuesLits (p : Nat) (vs : List Lit)
  | appendValue (p : Nat) (v : Lit)
  | setValueAt (p : Nat) (i : Nat) (v : Lit)
  | setDtype (p : Nat) (v : String)
  | newList (vs : List Lit)
  | listAppend (c : Nat) (v : Lit)
  | listSet (c : Nat) (i : Nat) (v : Lit)
  | listDel (c : Nat) (i : Nat)
  | listInnerSet (c : Nat) (i j : Nat) (s : String)
  | valueInnerSet (p : Nat) (i j : Nat) (s : String)   -- `p[i][j] = s` (bracket access to the stored value)
  | newObj (k : Kind) (name : String) (attrs : List String) (vals : List Lit)
  | append (p x : Nat)
  | remove (p x : Nat)
  | rename (x : Nat) (new : String)
  | setAttr (x : Nat) (i : Nat) (v : String)
  | newId (x : Nat)
  | mergeAttrs (x s : Nat) (record : Bool)     -- `x._merge(s, False, record)`, `s` without children
  | unmergeAttrs (x : Nat)                     -- the attribute part of `x.unmerge(…)`
  deriving Repr

/-- The objects an operation is applied to. -/
def Op.objs : Op → List Nat
  | .clone x _ _ => [x]
  | .exportLeaf x => [x]
  | .getValues p => [p]
  | .setValuesFrom p _ => [p]
  | .setValuesLits p _ => [p]
  | .appendValue p _ => [p]
  | .setValueAt p _ _ => [p]
  | .setDtype p _ => [p]
  | .valueInnerSet p _ _ _ => [p]
  | .append p x => [p, x]
  | .remove p x => [p, x]
  | .rename x _ => [x]
  | .setAttr x _ _ => [x]
  | .newId x => [x]
  | .mergeAttrs x _ _ => [x]                   -- the merged Section is only read
  | .unmergeAttrs x => [x]
  | _ => []

/-- The caller-held lists an operation is applied to. -/
def Op.lists : Op → List Nat
  | .setValuesFrom _ c => [c]
  | .listAppend c _ => [c]
  | .listSet c _ _ => [c]
  | .listDel c _ => [c]
  | .listInnerSet c _ _ _ => [c]
  | _ => []

def optErr : H × Option Err → H × Res
  | (h, none) => (h, .ok 0)
  | (h, some e) => (h, .err e)

/-- The Properties an operation reads or writes the values of (a Section has no `values`). -/
def Op.props : Op → List Nat
  | .getValues p => [p]
  | .setValuesFrom p _ => [p]
  | .setValuesLits p _ => [p]
  | .appendValue p _ => [p]
  | .setValueAt p _ _ => [p]
  | .setDtype p _ => [p]
  | .valueInnerSet p _ _ _ => [p]
  | _ => []

def step (h : H) (op : Op) : H × Res :=
  if op.objs.any (fun i => i ≥ h.nN) || op.lists.any (fun c => c ≥ h.nV) then (h, .err .typeError)
  else if op.props.any (fun p => (h.node p).kind != .prop) then (h, .err .attributeError)
  else
  match op with
  | .clone x children keep => clone h x children keep
  | .exportLeaf x => exportLeaf h x
  | .getValues p => let (h1, c) := getValues h p; (h1, .ok c)
  | .setValuesFrom p c => (setValuesItems h p (h.vcell c), .ok 0)
  | .setValuesLits p vs => (setValuesLits h p vs, .ok 0)
  | .appendValue p v => (appendValue h p v, .ok 0)
  | .setValueAt p i v => optErr (setValueAt h p i v)
  | .setDtype p v => (setDtype h p v, .ok 0)
  | .newList vs => let (h1, c) := newList h vs; (h1, .ok c)
  | .listAppend c v => (listAppend h c v, .ok 0)
  | .listSet c i v => optErr (listSet h c i v)
  | .listDel c i => optErr (listDel h c i)
  | .listInnerSet c i j s => optErr (listInnerSet h c i j s)
  | .valueInnerSet p i j s => optErr (valueInnerSet h p i j s)
  | .newObj k name attrs vals => let (h1, x) := newObj h k name attrs vals; (h1, .ok x)
  | .append p x => optErr (append h p x)
  | .remove p x => optErr (remove h p x)
  | .rename x new => optErr (rename h x new)
  | .setAttr x i v => (setAttr h x i v, .ok 0)
  | .newId x => (newId h x, .ok 0)
  | .mergeAttrs x s record => optErr (mergeOp h x s record)
  | .unmergeAttrs x => optErr (unmergeOp h x)

def run (h : H) (ops : List Op) : H := ops.foldl (fun h op => (step h op).1) h

/-! ### Attributes answered from the surroundings (`get_repository`) -/

/-- Position of `repository` among the compared attributes of a Document and of a Section (the
    harness lists them in this order for both kinds). -/
def repoAttr : Nat := 3

/-- `Section.get_repository()`: `if self._repository is None and self.parent is not None: return
    self.parent.get_repository()`, otherwise the object's own value (`Sectionable.get_repository`
    of the Document returns its own). The fuel bounds the walk up the parents. -/
def inherited (h : H) : Nat → Nat → Nat → Option String
  | 0, _, _ => none
  | fuel + 1, x, k =>
    match ownAttr h x k with
    | some v => some v
    | none =>
      match (h.node x).parent with
      | some p => inherited h fuel p k
      | none => none

end Clone
