/-
Model of link / include resolution and cleaning on pure document trees:
`Document.finalize` (odml/doc.py), the `link` / `include` setters, `Section.clean`,
`Section.unmerge` (odml/section.py), `Sectionable.clean`, `BaseObject.__eq__`,
`SmartList.__eq__` (odml/base.py). `Section.merge` is `Merge.merge` (Model/Merge.lean).

* A document is the list of its top-level Sections (`Doc V`), the same `Sec V` trees as in
  Model/Merge.lean (`link`, `incl`, `merged : Option Ref` are attributes of a Section).
* Object references are positions by names: `Ref.url = none` is this document, `some u` the
  document served for URL `u`; `Ref.path` the Section names from the document.
* Path *text* arithmetic (`get_relative_path`, `posixpath`) belongs to property C14: here a
  stored link is kept in canonical absolute form `/a/b` (the harness canonicalises the
  implementation's link text by resolving it with the implementation's own
  `get_section_by_path`), and an include as `url#/a/b`. `resolvePath` only has to read that
  canonical form. "The stored link still designates the same target" is therefore checked by
  the tie (and is C14's theorem for the text), not proved here.
* Other documents are a parameter `fetch : Str → Option (Doc V)` (`terminology.load`).

Regime (the property's quantifier, decidable as `inRegime`): targets are not linking Sections,
do not contain one and do not lie inside one, linking Sections are not nested. Outside it the
real `finalize` (a BFS generator interleaved with the mutation) also visits copied Sections
that carry links of their own; the model does not, and claims nothing there.
-/
import OdmlModel.Model.Merge

namespace Link
open Merge Py

variable {V : Type}

abbrev Doc (V : Type) := List (Sec V)

def nameIs (n : Str) (s : Sec V) : Bool := s.name == n

/-- `_get_section_by_path` for a list of names: first child of that name at every step -/
def secAt : List (Sec V) → List Str → Option (Sec V)
  | _, [] => none
  | l, [n] => l.find? (nameIs n)
  | l, n :: m :: rest =>
    match l.find? (nameIs n) with
    | some s => secAt s.secs (m :: rest)
    | none => none

/-- apply `f` to the first element satisfying `p` -/
def updFirst {α : Type} (p : α → Bool) (f : α → α) : List α → List α
  | [] => []
  | y :: ys => if p y then f y :: ys else y :: updFirst p f ys

/-- in-place update of the Section at a position -/
def updAt (f : Sec V → Sec V) : List Str → List (Sec V) → List (Sec V)
  | [], l => l
  | [n], l => updFirst (nameIs n) f l
  | n :: m :: rest, l =>
    updFirst (nameIs n) (fun s => .mk s.attrs s.props (updAt f (m :: rest) s.secs)) l

/-- remove the first element satisfying `p` (`SmartList.remove(obj)` of the object found) -/
def eraseFirst {α : Type} (p : α → Bool) : List α → List α
  | [] => []
  | y :: ys => if p y then ys else y :: eraseFirst p ys

/-! ## `BaseObject.__eq__` (ids, `_merged` and `_merged_attrs` are not compared; child lists by name) -/

def valuesEq (cv : Conv V) : List V → List V → Bool
  | [], [] => true
  | a :: as, b :: bs => cv.eq a b && valuesEq cv as bs
  | _, _ => false

def propEq (cv : Conv V) (a b : PropT V) : Bool :=
  a.name == b.name && a.dtype == b.dtype && valuesEq cv a.values b.values && a.unit == b.unit &&
  a.uncertainty == b.uncertainty && a.definition == b.definition &&
  a.reference == b.reference && a.origin == b.origin

/-- `SmartList.__eq__` (sorted by name, then pairwise) for lists with unique names:
    same length and every element has an equal element of the same name -/
def propsEq (cv : Conv V) (as bs : List (PropT V)) : Bool :=
  as.length == bs.length &&
  as.all (fun a => match findProp bs a.name with
    | some b => propEq cv a b
    | none => false)

def attrsEq (a b : SecAttrs) : Bool :=
  a.name == b.name && a.type == b.type && a.definition == b.definition &&
  a.reference == b.reference && a.link == b.link && a.incl == b.incl

mutual
def secEq (cv : Conv V) : Sec V → Sec V → Bool
  | .mk a ps ss, b =>
    attrsEq a b.attrs && propsEq cv ps b.props && ss.length == b.secs.length &&
    secsEqIn cv ss b.secs
def secsEqIn (cv : Conv V) : List (Sec V) → List (Sec V) → Bool
  | [], _ => true
  | c :: cs, bs =>
    (match bs.find? (nameIs c.name) with
     | some c' => secEq cv c c'
     | none => false) && secsEqIn cv cs bs
end

/-! ## `Section.unmerge(section)` -/

/-- `for attr, value in self._merged_attrs.items():
       if value is not None and getattr(self, attr) == value: setattr(self, attr, None)`
    for one attribute: the value `merge` filled in is taken back unless it was changed since -/
def unfill (cur filled : Option Str) : Option Str :=
  match filled with
  | none => cur
  | some v => if cur == some v then none else cur

/-- the Properties part of the loop of `unmerge`: a Property equal to the target's is removed,
    another one of the same name is kept (`Property.unmerge` does nothing) -/
def unmergeProps (cv : Conv V) (own : List (PropT V)) : List (PropT V) → List (PropT V)
  | [] => own
  | o :: os =>
    match findProp own o.name with
    | none => unmergeProps cv own os
    | some mine =>
      if propEq cv mine o then eraseFirst (fun p => p.name == o.name) (unmergeProps cv own os)
      else unmergeProps cv own os

mutual
/-- `self.unmerge(section)`: children equal to the target's are removed, others of the same
    name (and type) are unmerged recursively; the definition / reference recorded in
    `_merged_attrs` are taken back and the record is emptied; `_merged = None`. (The stored link
    is kept in canonical form, see the header.) -/
def unmerge (cv : Conv V) : Sec V → Sec V → Sec V
  | self, .mk _ tprops tsecs =>
    .mk { self.attrs with definition := unfill self.attrs.definition self.attrs.filledDef
                          reference := unfill self.attrs.reference self.attrs.filledRef
                          filledDef := none, filledRef := none, merged := none }
        (unmergeProps cv self.props tprops) (unmergeSecs cv self.secs tsecs)
/-- the Sections part of the loop; the removals are done after the loop in the code, which is
    the same list for unique sibling names -/
def unmergeSecs (cv : Conv V) (own : List (Sec V)) : List (Sec V) → List (Sec V)
  | [] => own
  | o :: os =>
    match findSec own o.name o.type with
    | none => unmergeSecs cv own os
    | some mine =>
      if secEq cv mine o then eraseFirst (secMatch o.name o.type) (unmergeSecs cv own os)
      else unmergeSecs cv (replaceFirst (secMatch o.name o.type) (unmerge cv mine o) own) os
end

/-! ## `Section.clean()` / `Document.clean()` -/

/-- `Section.clean`: `if self._merged is not None: self.unmerge(self._merged)`, then
    `Sectionable.clean`: every remaining child Section is cleaned. `fuel` bounds the depth
    (the recursion is on the result of `unmerge`); `deref` finds the merged-with object. -/
def cleanSec (cv : Conv V) (deref : Ref → Option (Sec V)) : Nat → Sec V → Sec V
  | 0, s => s
  | fuel + 1, s =>
    let s1 := match s.attrs.merged with
      | some r =>
        match deref r with
        | some t => unmerge cv s t
        | none => .mk { s.attrs with merged := none } s.props s.secs
      | none => s
    .mk s1.attrs s1.props (s1.secs.map (cleanSec cv deref fuel))

mutual
def height : Sec V → Nat
  | .mk _ _ ss => 1 + heightList ss
def heightList : List (Sec V) → Nat
  | [] => 0
  | s :: r => max (height s) (heightList r)
end

def docHeight (d : Doc V) : Nat := heightList d

/-- the object a `Ref` names -/
def deref (fetch : Str → Option (Doc V)) (doc : Doc V) (r : Ref) : Option (Sec V) :=
  match r.url with
  | none => secAt doc r.path
  | some u =>
    match fetch u with
    | some d => secAt d r.path
    | none => none

/-- `Document.clean()` -/
def cleanDoc (cv : Conv V) (fetch : Str → Option (Doc V)) (doc : Doc V) : Doc V :=
  doc.map (cleanSec cv (deref fetch doc) (docHeight doc + 1))

/-! ## The `link` / `include` setters and `Document.finalize()` -/

/-- canonical absolute path text `/a/b` → names -/
def parsePath (s : Str) : List Str := (splitOn '/' s).drop 1

/-- `url, path = new_value.split('#', 1)` of the include setter: the text in front of the FIRST
    `sep` and, if there is one, everything behind it (further `sep`s included) -/
def splitFirst (sep : Char) : Str → Str × Option Str
  | [] => ([], none)
  | c :: cs =>
    if c == sep then ([], some cs)
    else ((c :: (splitFirst sep cs).1), (splitFirst sep cs).2)

/-- the text `/a/b` of a position given by names (what `parsePath` reads) -/
def absPath (ns : List Str) : Str := ns.flatMap (fun n => '/' :: n)

/-- canonical include text `url#/a/b` (or `url` alone: first Section of the document). The path
    is what follows the first `#`: a Section name may hold a `#` itself (`shank #1`), a URL
    cannot (it would start the fragment). -/
def parseInclude (s : Str) : Str × Option (List Str) :=
  ((splitFirst '#' s).1, (splitFirst '#' s).2.map parsePath)

/-- the names of the Sections of a sub-tree, level by level (order of `itersections`) -/
def pathsAtDepth : Nat → List Str → List (Sec V) → List (List Str)
  | 0, pre, l => l.map (fun s => pre ++ [s.name])
  | n + 1, pre, l => l.flatMap (fun s => pathsAtDepth n (pre ++ [s.name]) s.secs)

def bfsPaths (doc : Doc V) : List (List Str) :=
  (List.range (docHeight doc)).flatMap (fun n => pathsAtDepth n [] doc)

/-- one step of `finalize`: `sec.link = sec._link` / `sec.include = sec._include` -/
def linkStep (cv : Conv V) (fetch : Str → Option (Doc V)) (doc : Doc V) (p : List Str) :
    Doc V × Outcome :=
  match secAt doc p with
  | none => (doc, .ok)
  | some l =>
    match l.attrs.link, l.attrs.incl with
    | some txt, _ =>
      -- new_section = self.get_section_by_path(new_value)     (ValueError when not found)
      let tp := parsePath txt
      match secAt doc tp with
      | none => (doc, .raised .valueError)
      | some t =>
        -- if self._link is not None: self.clean();  self._link = new_value
        let l1 := cleanSec cv (deref fetch doc) (height l + 1) l
        -- self._merge(new_section, False, True): always recorded (`record := true`; `l1` is
        -- cleaned, not merged, so `Ref.eff` leaves the flag on)
        let r := merge cv false { url := none, path := tp } l1 t
        (updAt (fun _ => r.1) p doc, r.2)
    | none, some txt =>
      let (u, op) := parseInclude txt
      -- term = terminology.load(url); term.get_section_by_path(path) / term.sections[0]
      match fetch u with
      | none => (doc, .raised .attributeError)
      | some term =>
        let tgt : Option (List Str × Sec V) := match op with
          | some tp => (secAt term tp).map (fun t => (tp, t))
          | none => term.head?.map (fun t => ([t.name], t))
        match tgt with
        | none => (doc, .raised .valueError)
        | some (tp, t) =>
          let l1 := cleanSec cv (deref fetch doc) (height l + 1) l
          let r := merge cv false { url := some u, path := tp } l1 t
          (updAt (fun _ => r.1) p doc, r.2)
    | none, none => (doc, .ok)

/-- the loop of `finalize` over the Sections in `itersections` order; stops at the first raise -/
def linkSteps (cv : Conv V) (fetch : Str → Option (Doc V)) : Doc V → List (List Str) →
    Doc V × Outcome
  | doc, [] => (doc, .ok)
  | doc, p :: ps =>
    match linkStep cv fetch doc p with
    | (doc', .raised e) => (doc', .raised e)
    | (doc', .ok) => linkSteps cv fetch doc' ps

/-- `Document.finalize()` (in the regime: the Sections visited are those of the document as
    it is when `finalize` starts; copies made on the way carry no links) -/
def finalize (cv : Conv V) (fetch : Str → Option (Doc V)) (doc : Doc V) : Doc V × Outcome :=
  linkSteps cv fetch doc (bfsPaths doc)

/-! ## The regime, decidable -/

def isPrefix : List Str → List Str → Bool
  | [], _ => true
  | _ :: _, [] => false
  | a :: as, b :: bs => a == b && isPrefix as bs

/-- neither path is a prefix of the other (the two sub-trees are disjoint) -/
def diverge (p q : List Str) : Bool := !isPrefix p q && !isPrefix q p

/-- positions of the linking Sections -/
def linkers (doc : Doc V) : List (List Str) :=
  (bfsPaths doc).filter (fun p => match secAt doc p with
    | some l => l.attrs.link.isSome || l.attrs.incl.isSome
    | none => false)

/-- targets of the links inside the document (includes point elsewhere) -/
def linkTargets (doc : Doc V) : List (List Str) :=
  (linkers doc).filterMap (fun p => match secAt doc p with
    | some l => l.attrs.link.map parsePath
    | none => none)

/-- a Section that is not merged: no `_merged` object and nothing recorded as filled in — the
    state of every Section that was built, loaded or cleaned (`unmerge` re-establishes it) -/
def notMerged (s : Sec V) : Bool :=
  s.attrs.merged.isNone && s.attrs.filledDef.isNone && s.attrs.filledRef.isNone

mutual
def noLinks : Sec V → Bool
  | .mk a _ ss => a.link.isNone && a.incl.isNone && a.merged.isNone && noLinksList ss
def noLinksList : List (Sec V) → Bool
  | [] => true
  | s :: r => noLinks s && noLinksList r
end

def allPairs {α : Type} (p : α → α → Bool) : List α → Bool
  | [] => true
  | a :: r => r.all (p a) && allPairs p r

/-- linking Sections pairwise disjoint; every link target disjoint from every linking Section;
    a linking Section is not merged; its children and every target carry no link / include /
    merge mark -/
def inRegime (fetch : Str → Option (Doc V)) (doc : Doc V) : Bool :=
  let ls := linkers doc
  allPairs diverge ls &&
  (linkTargets doc).all (fun t => ls.all (fun p => diverge t p)) &&
  ls.all (fun p => match secAt doc p with
    | some l => noLinksList l.secs && notMerged l &&
      (match l.attrs.link, l.attrs.incl with
       | some txt, _ => (match secAt doc (parsePath txt) with | some t => noLinks t | none => false)
       | none, some txt =>
         (match fetch (parseInclude txt).1 with
          | some term =>
            (match (parseInclude txt).2 with
             | some tp => (match secAt term tp with | some t => noLinks t | none => false)
             | none => (match term.head? with | some t => noLinks t | none => false))
          | none => false)
       | none, none => true)
    | none => false)

/-- the linking Section shares no child name with its target (the restoration law's premise) -/
def noClash (l t : Sec V) : Bool :=
  t.secs.all (fun o => !secNameIn l.secs o.name) && t.props.all (fun o => !propNameIn l.props o.name)

/-- nothing to fill: each of definition / reference is set in the linking Section or unset in the
    target. Its complement was the region of the former finding
    `C12/definition-reference-filled-not-restored` (fixed: `merge` records what it fills in,
    `unmerge` takes it back); no theorem needs it any more, the driver still reports it so that
    the witnesses of the finding are known to lie in that region. -/
def noFill (l t : Sec V) : Bool :=
  (l.attrs.definition.isSome || t.attrs.definition.isNone || t.attrs.definition == some []) &&
  (l.attrs.reference.isSome || t.attrs.reference.isNone || t.attrs.reference == some [])

end Link
