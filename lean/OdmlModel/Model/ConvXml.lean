/-
Abstract XML trees for the model of the 1.0 -> 1.1 version converter (C15).

An element is `elem tag attrs text kids`:
  * `tag`   the lxml tag (a `String`: tags are only compared, never edited character-wise),
  * `attrs` XML attributes in document order,
  * `text`  `element.text` as a list of code points; `[]` stands for Python's `None`
            (lxml never yields `''` for parsed documents; the dict front ends of the
            converter are kept away from empty strings by the harness),
  * `kids`  the child elements in document order.
Tail text, comments and processing instructions are not represented: a well-formed odML 1.0
document has no mixed content, and the generator of the tie does not emit any.

String <-> tree is the lxml contract (DESIGN section 6); it is exercised by the tie.
-/
import OdmlModel.Py.Str

namespace Conv

inductive Xml where
  | elem (tag : String) (attrs : List (String × List Char)) (text : List Char) (kids : List Xml)
  deriving Repr, Inhabited

namespace Xml

def tag : Xml → String | elem t _ _ _ => t
def attrs : Xml → List (String × List Char) | elem _ a _ _ => a
def text : Xml → List Char | elem _ _ x _ => x
def kids : Xml → List Xml | elem _ _ _ k => k

/-- A leaf element without attributes: what `ET.Element(tag); e.text = text` builds. -/
def leaf (t : String) (x : List Char) : Xml := elem t [] x []

mutual
def decEq : (a b : Xml) → Decidable (a = b)
  | elem t1 a1 x1 k1, elem t2 a2 x2 k2 =>
    if ht : t1 = t2 then
      if ha : a1 = a2 then
        if hx : x1 = x2 then
          match decEqL k1 k2 with
          | isTrue hk => isTrue (by subst ht ha hx hk; rfl)
          | isFalse hk => isFalse (by intro h; injection h with _ _ _ h4; exact hk h4)
        else isFalse (by intro h; injection h with _ _ h3 _; exact hx h3)
      else isFalse (by intro h; injection h with _ h2 _ _; exact ha h2)
    else isFalse (by intro h; injection h with h1 _ _ _; exact ht h1)
def decEqL : (a b : List Xml) → Decidable (a = b)
  | [], [] => isTrue rfl
  | [], _ :: _ => isFalse (by intro h; cases h)
  | _ :: _, [] => isFalse (by intro h; cases h)
  | a :: as, b :: bs =>
    match decEq a b with
    | isTrue h1 =>
      match decEqL as bs with
      | isTrue h2 => isTrue (by subst h1 h2; rfl)
      | isFalse h2 => isFalse (by intro h; injection h with _ h4; exact h2 h4)
    | isFalse h1 => isFalse (by intro h; injection h with h3 _; exact h1 h3)
end

instance : DecidableEq Xml := decEq

/-- Induction over trees of any size: a statement holds for an element as soon as it holds
    for all its children. -/
theorem ind {P : Xml → Prop}
    (h : ∀ t a x ks, (∀ k ∈ ks, P k) → P (elem t a x ks)) : ∀ e, P e := by
  intro e
  induction e using Xml.rec (motive_2 := fun l => ∀ k ∈ l, P k) with
  | elem t a x ks ih => exact h t a x ks ih
  | nil => rename_i k hk; cases hk
  | cons k ks ihk ihks =>
    rename_i k' hk'
    cases hk' with
    | head => exact ihk
    | tail _ hm => exact ihks k' hm

end Xml

/-- `parent.find(tag)`: the first direct child with that tag. -/
def find (t : String) : List Xml → Option Xml
  | [] => none
  | k :: ks => if k.tag = t then some k else find t ks

/-- `parent.find(tag).text` with `None` for a missing child or an empty element. -/
def findText (t : String) (ks : List Xml) : List Char :=
  match find t ks with
  | some k => k.text
  | none => []

/-- `"%s" % text`: Python renders a missing text as `None`. -/
def pyStr (x : List Char) : List Char := if x = [] then "None".toList else x

mutual
/-- `element.iter()` without the element itself: all descendants in document order. -/
def descendants : Xml → List Xml
  | .elem _ _ _ ks => descendantsL ks
def descendantsL : List Xml → List Xml
  | [] => []
  | k :: ks => k :: (descendants k ++ descendantsL ks)
end

/-- Removes the first child with the given tag (`element.remove(element.find(tag))`). -/
def removeFirst (t : String) : List Xml → List Xml
  | [] => []
  | k :: ks => if k.tag = t then ks else k :: removeFirst t ks

/-- `element.set(key, value)`: replaces in place or appends. -/
def setAttr (k : String) (v : List Char) : List (String × List Char) → List (String × List Char)
  | [] => [(k, v)]
  | (k', v') :: rest => if k' = k then (k, v) :: rest else (k', v') :: setAttr k v rest

end Conv
