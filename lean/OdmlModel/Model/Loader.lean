/-
M-Loader: small-step interleaving semantics of background loading.

  odml/terminology.py   cache_load, Terminologies.load / _load / deferred_load / refresh
  odml/templates.py     cache_load, TemplateHandler.load / _load / deferred_load
  odml/section.py       include setter (deferred_load, then load, None target left unresolved)
  odml/base.py          repository setter (deferred_load)
  odml/doc.py           finalize (one include after the other, document order)

One transition = what one thread does from one scheduling point to the next.  Scheduling
points are: every acquisition of the handler lock (all accesses to the two shared tables
`loaded` (the dict itself) and `loading` happen inside such a critical section; `Thread.start`
happens inside the one of `deferred_load`), every `Thread.join`, and thread exit.  Fetching,
writing the cache file, parsing and merging are thread-local computation between two
scheduling points (the property's quantifier interleaves at table accesses, thread start,
run and join only).  The statement order of the Python code is kept inside each transition.

The include graph `g` (what fetching+parsing a URL yields) is a parameter.  Tables are keyed
by (handler, url): templates have their own two tables but resolve includes through the
terminology handler (section.py calls `terminology.deferred_load/load`).  No Mathlib.
-/

namespace Loader

abbrev Url := Nat

/-- What fetching and parsing a URL gives: nothing (fetch fails), something that is not
    odML (ParserException), or a document with include URLs in document order. -/
inductive Res where
  | missing
  | garbage
  | doc (incs : List Url)
  deriving Repr, DecidableEq, Inhabited

/-- Key of the shared tables: which handler (`tpl = true`: TemplateHandler) and which URL. -/
structure Key where
  tpl : Bool
  url : Url
  deriving Repr, DecidableEq, Inhabited

/-- The terminology key of an include URL. -/
def tkey (u : Url) : Key := ⟨false, u⟩

/-- Content of a load result.  `fail` is Python's `None` (also: an include left unresolved);
    `node u kids`: the document of `u` with the content its includes were resolved to. -/
inductive Tree where
  | fail
  | node (url : Url) (kids : List Tree)
  deriving Repr, Inhabited

/-- A parsed document object: identity and content. -/
structure Obj where
  id : Nat
  tree : Tree
  deriving Repr, Inhabited

/-- A Python value returned by `load`: `none` = `None`. -/
abbrev Val := Option Obj

def Val.content : Val → Tree
  | none => .fail
  | some o => o.tree

/-- The specification: parse directly and finalise, sequentially (fuel = depth bound). -/
def resolveF (g : Url → Res) : Nat → Url → Tree
  | 0, _ => .fail
  | n + 1, u =>
    match g u with
    | .doc incs => .node u (incs.map (resolveF g n))
    | _ => .fail

/-- `rank` witnesses that the include graph has no cycle. -/
def Acyclic (g : Url → Res) (rank : Url → Nat) : Prop :=
  ∀ u incs v, g u = .doc incs → v ∈ incs → rank v < rank u

def resolve (g : Url → Res) (rank : Url → Nat) (u : Url) : Tree := resolveF g (rank u + 1) u

/-- State of one cache file. -/
inductive CacheSt where
  | absent
  | fresh
  | stale
  deriving Repr, DecidableEq, Inhabited

/-- Function update. -/
def upd {α β : Type} [DecidableEq α] (f : α → β) (a : α) (b : β) : α → β :=
  fun x => if x = a then b else f x

/-- Control points of a thread (top of stack first).  Every frame is a scheduling point. -/
inductive Frame where
  /-- body of a loader thread: `_load(k)` not begun yet -/
  | start (k : Key)
  /-- `load(k)`: before `with lock: if k in self: return self[k]; thread = loading.get(k)` -/
  | load (k : Key)
  /-- `load(k)`: at `thread.join()` -/
  | join (k : Key) (t : Nat)
  /-- `load(k)`: before `with lock: loading.pop(k, None)`; then `return self.load(k)` -/
  | pop (k : Key)
  /-- `_load(k)` inside `finalize` of document `id`: includes still to resolve (head = current),
      resolved contents so far (newest first); `await = false`: before the critical section of
      `deferred_load(head)`, `await = true`: `load(head)` is running in the frames above -/
  | fin (k : Key) (todo : List Url) (acc : List Tree) (id : Nat) (await : Bool)
  /-- `_load(k)`: before `with lock: if k in self: return self[k]; self[k] = v` -/
  | pub (k : Key) (v : Val)
  /-- caller: `deferred_load(k)` before its critical section -/
  | defer (k : Key)
  /-- caller: `refresh(k)` before `with lock: self.clear()` -/
  | clear (k : Key)
  deriving Repr, Inhabited

def Frame.key : Frame → Key
  | .start k | .load k | .join k _ | .pop k | .fin k _ _ _ _ | .pub k _ | .defer k | .clear k => k

/-- What the caller asks for. -/
inductive Op where
  | load (k : Key)
  | deferred (k : Key)
  | refresh (k : Key)
  deriving Repr, DecidableEq, Inhabited

def Op.key : Op → Key
  | .load k | .deferred k | .refresh k => k

/-- A completed caller operation: the value it returned and the refresh epoch it ran in. -/
structure Result where
  op : Op
  val : Val
  epoch : Nat
  deriving Repr, Inhabited

/-- The state shared by all threads. -/
structure Shared where
  loaded : Key → Option Val
  loading : Key → Option Nat
  cache : Url → CacheSt
  wcount : Url → Nat          -- how often the cache file of a URL has been (re)written
  reload : Bool               -- Terminologies.reload_cache
  nextId : Nat
  epoch : Nat                 -- number of `clear()`s so far
  err : Bool                  -- a Python exception would have been raised
  deriving Inhabited

/-- A loader thread: the key it was started for and its stack ([] = finished). -/
structure Thr where
  root : Key
  stack : List Frame
  deriving Repr, Inhabited

structure State where
  sh : Shared
  caller : List Frame         -- stack of thread 0
  prog : List Op              -- head = operation in progress (when `caller ≠ []`) / next
  results : List Result       -- newest first
  threads : List Thr          -- loader thread `i` has thread id `i + 1`
  deriving Inhabited

/-- Outcome of running the top frame of a thread up to its next scheduling point. -/
inductive Next where
  | cont (fs : List Frame)    -- the top frame is replaced by `fs`
  | ret (v : Val)             -- the top frame returns `v` to the frame below
  deriving Repr, Inhabited

/-! ## cache_load -/

/-- `cache_load(url)`: use a fresh cache file unless a reload is asked for; otherwise fetch,
    and only after the fetch succeeded (re)write the cache file. -/
def fetch (g : Url → Res) (sh : Shared) (k : Key) : Shared × Res :=
  if sh.cache k.url = .fresh ∧ ¬ (sh.reload ∧ k.tpl = false) then (sh, g k.url)
  else
    match g k.url with
    | .missing => (sh, .missing)               -- `return` / re-raise before the file is opened
    | r => ({ sh with cache := upd sh.cache k.url .fresh,
                      wcount := upd sh.wcount k.url (sh.wcount k.url + 1) }, r)

/-- After an include is resolved (or when there is none): go on with the next include or
    get ready to publish. -/
def advance (k : Key) (todo : List Url) (acc : List Tree) (id : Nat) : Frame :=
  match todo with
  | [] => .pub k (some ⟨id, .node k.url acc.reverse⟩)
  | _ :: _ => .fin k todo acc id false

/-- `_load(k)` up to its first scheduling point: cache_load, parse. -/
def beginLoad (g : Url → Res) (sh : Shared) (k : Key) : Shared × Next :=
  let (sh1, r) := fetch g sh k
  match r with
  | .missing => (sh1, .ret none)
  | .garbage => if k.tpl then (sh1, .ret none) else (sh1, .cont [.pub k none])
  | .doc incs => ({ sh1 with nextId := sh1.nextId + 1 }, .cont [advance k incs [] sh1.nextId])

/-- The critical section of `deferred_load(k)`; `ntid` is the id a new thread gets. -/
def deferSection (sh : Shared) (ntid : Nat) (k : Key) : Shared × Option Key :=
  if (sh.loaded k).isSome ∨ (sh.loading k).isSome then (sh, none)
  else ({ sh with loading := upd sh.loading k (some ntid) }, some k)

/-- One transition of the thread whose top frame is `f`.  Returns the new shared state, what
    happens to the frame, and the root key of a thread started in this transition. -/
def topStep (g : Url → Res) (sh : Shared) (ntid : Nat) (f : Frame) : Shared × Next × Option Key :=
  match f with
  | .start k => let (s, n) := beginLoad g sh k; (s, n, none)
  | .load k =>
    match sh.loaded k with
    | some v => (sh, .ret v, none)
    | none =>
      match sh.loading k with
      | some t => (sh, .cont [.join k t], none)
      | none => let (s, n) := beginLoad g sh k; (s, n, none)
  | .join k _ => (sh, .cont [.pop k], none)
  | .pop k => ({ sh with loading := upd sh.loading k none }, .cont [.load k], none)
  | .fin k (u :: todo) acc id false =>
    let (s, sp) := deferSection sh ntid (tkey u)
    (s, .cont [.load (tkey u), .fin k (u :: todo) acc id true], sp)
  | .fin k [] acc id false => (sh, .cont [advance k [] acc id], none)
  | .fin _ _ _ _ true => ({ sh with err := true }, .cont [f], none)
  | .pub k v =>
    match sh.loaded k with
    | some v' => (sh, .ret v', none)
    | none => ({ sh with loaded := upd sh.loaded k (some v) }, .ret v, none)
  | .defer k => let (s, sp) := deferSection sh ntid k; (s, .ret none, sp)
  | .clear k =>
    ({ sh with loaded := fun k' => if k'.tpl then sh.loaded k' else none, epoch := sh.epoch + 1 },
     .cont [.load k], none)

/-- A value returned into the frame below (the include setter: merge, or leave unresolved). -/
def deliver (v : Val) : List Frame → Option (List Frame)
  | .fin k (_ :: todo) acc id true :: rest => some (advance k todo (v.content :: acc) id :: rest)
  | _ => none

/-- New stack of the thread, and the value returned by its bottom frame (if it returned). -/
def applyNext (nx : Next) (rest : List Frame) : Option (List Frame × Option Val) :=
  match nx with
  | .cont fs => some (fs ++ rest, none)
  | .ret v =>
    match rest with
    | [] => some ([], some v)
    | _ :: _ => (deliver v rest).map fun st => (st, none)

/-- The caller turns to its next operation (up to the first scheduling point). -/
def startOp (s : State) : State :=
  match s.caller, s.prog with
  | [], .load k :: _ => { s with caller := [.load k] }
  | [], .deferred k :: _ => { s with caller := [.defer k] }
  | [], .refresh k :: _ => { s with caller := [.clear k], sh := { s.sh with reload := true } }
  | _, _ => s

/-- The operation in progress returned `v`. -/
def finishOp (s : State) (v : Val) : State :=
  match s.prog with
  | [] => s
  | op :: rest =>
    let sh := match op with
      | .refresh _ => { s.sh with reload := false }
      | _ => s.sh
    startOp { s with sh := sh, prog := rest, caller := [],
                     results := ⟨op, v, s.sh.epoch⟩ :: s.results }

def finished (s : State) (t : Nat) : Bool :=
  match t with
  | 0 => false
  | i + 1 => match s.threads[i]? with
    | some th => th.stack.isEmpty
    | none => false

/-- The stack of thread `t`. -/
def stackOf (s : State) (t : Nat) : List Frame :=
  match t with
  | 0 => s.caller
  | i + 1 => match s.threads[i]? with
    | some th => th.stack
    | none => []

/-- Can thread `t` take a step? -/
def enabled (s : State) (t : Nat) : Bool :=
  match stackOf s t with
  | [] => false
  | .join _ j :: _ => finished s j
  | _ :: _ => true

/-- Replace the stack of loader thread `i`. -/
def setThr : List Thr → Nat → List Frame → List Thr
  | [], _, _ => []
  | th :: ts, 0, st => { th with stack := st } :: ts
  | th :: ts, i + 1, st => th :: setThr ts i st

def setStack (s : State) (t : Nat) (st : List Frame) : State :=
  match t with
  | 0 => { s with caller := st }
  | i + 1 => { s with threads := setThr s.threads i st }

def spawnThread (s : State) (sp : Option Key) : State :=
  match sp with
  | none => s
  | some k => { s with threads := s.threads ++ [⟨k, [.start k]⟩] }

/-- One step of thread `t` (a pick of a thread that is not enabled changes nothing). -/
def step (g : Url → Res) (s : State) (t : Nat) : State :=
  if enabled s t then
    match stackOf s t with
    | [] => s
    | f :: rest =>
      let (sh, nx, sp) := topStep g s.sh (s.threads.length + 1) f
      match applyNext nx rest with
      | none => { s with sh := { s.sh with err := true } }   -- a return nobody waits for
      | some (st, bottom) =>
        let s1 := spawnThread (setStack { s with sh := sh } t st) sp
        match bottom, t with
        | some v, 0 => finishOp s1 v
        | _, _ => s1
  else s

/-- A schedule is a list of thread picks. -/
def runSched (g : Url → Res) (s : State) : List Nat → State
  | [] => s
  | t :: ts => runSched g (step g s t) ts

def initShared (cache0 : Url → CacheSt) : Shared :=
  { loaded := fun _ => none, loading := fun _ => none, cache := cache0, wcount := fun _ => 0,
    reload := false, nextId := 0, epoch := 0, err := false }

def init (cache0 : Url → CacheSt) (prog : List Op) : State :=
  startOp { sh := initShared cache0, caller := [], prog := prog, results := [], threads := [] }

/-- Has every thread finished (caller through its whole program)? -/
def allDone (s : State) : Bool :=
  s.caller.isEmpty && s.prog.isEmpty && s.threads.all fun th => th.stack.isEmpty

end Loader
