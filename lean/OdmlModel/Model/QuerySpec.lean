/-
M-QuerySpec: the direct specification of a search, for all searchable attributes, and the decidable
scopes of `C20.query_sound_complete_full` - executable definitions only (the driver evaluates them
on every case; the theorems about them are in `Proofs/QueryFull.lean`, `Proofs/QueryRepo.lean`,
`Props/C20.lean`).

  `directEval' ds q`   rows `(?d, ?s, ?p)` of objects related by direct containment that carry all
                       requested pairs (`id`, `value`, `repository` included)
  `queryFullB q`       every pair sits under its own key and asks for a searchable attribute
  `repoOKB ds`         every repository that is set is exported and is not an odML class IRI
No Mathlib.
-/
import OdmlModel.Model.Query

namespace Query
open Rdf List

/-! ## Direct specification for all searchable attributes -/

/-- The attributes a query may ask for: every attribute name the query parsers accept for the
    kind of object, except the two lists of children (`sections`, `properties`). -/
def fullAttrs : Kind → List String
  | .doc => ["author", "version", "date", "id", "repository"]
  | .sec => ["name", "type", "definition", "reference", "id", "repository"]
  | .prop => ["name", "definition", "dtype", "unit", "reference", "value_origin", "uncertainty",
              "id", "value"]

def fullPairB (k : Kind) (x : Pair) : Bool :=
  x.kind == k && (fullAttrs k).contains (String.ofList x.attr)

/-- Decidable form of `QueryFull`. -/
def queryFullB (q : QParams) : Bool :=
  q.doc.all (fullPairB .doc) && q.sec.all (fullPairB .sec) && q.prop.all (fullPairB .prop)

/-- The object with this id and these attributes carries the requested value: for `id` the id is
    the searched string, otherwise the attribute's Python value, as text, is (`carries`). -/
def objCarries (id : Str) (a : Attrs) (x : Pair) : Bool :=
  if x.attr == "id".toList then id == x.val else carries a x

/-- A Property carries a pair: for `value` every searched value is the text of one of its values
    (`carriesValues`), otherwise as for every object. -/
def propCarries (p : PropT) (x : Pair) : Bool :=
  if x.attr == "value".toList then carriesValues p x else objCarries p.id p.attrs x

/-- `?d` is a Document that carries all requested Document pairs. -/
def partD' (ds : List DocT) (q : QParams) (od : Option Term) : Bool :=
  q.doc.isEmpty || ds.any fun d => od == some (node d.id) && q.doc.all (objCarries d.id d.attrs)

/-- `?s` is a Section that carries all requested Section pairs and `?d` is what directly
    contains it. -/
def partS' (ds : List DocT) (q : QParams) (od os : Option Term) : Bool :=
  q.sec.isEmpty || (allSecsWithParent ds).any fun ps =>
    od == some ps.1 && os == some (node ps.2.id) && q.sec.all (objCarries ps.2.id ps.2.attrs)

/-- `?p` is a Property that carries all requested Property pairs and `?s` is the Section that
    directly contains it. -/
def partP' (ds : List DocT) (q : QParams) (os op : Option Term) : Bool :=
  q.prop.isEmpty || (allSecsWithParent ds).any fun ps =>
    os == some (node ps.2.id) && ps.2.props.any fun p => op == some (node p.id) && q.prop.all (propCarries p)

def rowOK' (ds : List DocT) (q : QParams) (row : Row) : Bool :=
  partD' ds q row.1 && partS' ds q row.1 row.2.1 && partP' ds q row.2.1 row.2.2 &&
    unboundOK q row.1 row.2.1 row.2.2

/-- Rows `(?d, ?s, ?p)` of objects related by direct containment that carry all requested pairs,
    for queries over all searchable attributes (same candidates and same relations between the
    variables as `directEval`). -/
def directEval' (ds : List DocT) (q : QParams) : List Row := (candidates ds).filter (rowOK' ds q)

/-! ## The same two specifications, evaluated with the cheap test first

`rowOK` / `rowOK'` end with the conjunct `unboundOK` (a variable the query does not mention stays
unbound), which needs no look at the documents and rejects most candidate rows of a query over one
or two kinds of object.  The driver evaluates the specifications in this order
(`Proofs/QueryFull.lean`: `directEvalU_eq`, `directEvalU'_eq` - the same lists). -/

def directEvalU (ds : List DocT) (q : QParams) : List Row :=
  (candidates ds).filter fun r => unboundOK q r.1 r.2.1 r.2.2 && rowOK ds q r

def directEvalU' (ds : List DocT) (q : QParams) : List Row :=
  (candidates ds).filter fun r => unboundOK q r.1 r.2.1 r.2.2 && rowOK' ds q r

/-! ## The hypothesis on repositories -/

/-- The repository values of the Documents and Sections (the ones that are set). -/
def repoVals (ds : List DocT) : List PyVal :=
  ds.filterMap (fun d => d.attrs.lookup "repository") ++
    (docSecs ds).filterMap (fun s => s.attrs.lookup "repository")

def classIris : List Str :=
  [Gen.Format.documentRdfType.toList, Gen.Format.sectionRdfType.toList, Gen.Format.propertyRdfType.toList]

/-- Decidable form of `RepoOK`. -/
def repoOKB (ds : List DocT) : Bool :=
  (repoVals ds).all fun v => v.truthy && !classIris.contains v.lex

end Query
