/-
Pure tree of an odML document as far as paths and traversals look at it:
Document -> Sections (name, type, Properties (name, values), sub-Sections).
Object identity is the *position* (index path from the Document): `[]` is the Document,
`[i, j]` is `doc.sections[i].sections[j]`; a Property is (position of its Section, index).
-/
namespace PathTree

abbrev Str := List Char
abbrev Pos := List Nat

structure PropT where
  name : Str
  vals : List Int
  deriving DecidableEq, Repr

inductive Sec where
  | mk (name : Str) (type : Str) (props : List PropT) (subs : List Sec)
  deriving Repr

def Sec.name : Sec → Str | .mk n _ _ _ => n
def Sec.type : Sec → Str | .mk _ t _ _ => t
def Sec.props : Sec → List PropT | .mk _ _ p _ => p
def Sec.subs : Sec → List Sec | .mk _ _ _ s => s

@[simp] theorem Sec.name_mk (n t p s) : (Sec.mk n t p s).name = n := rfl
@[simp] theorem Sec.type_mk (n t p s) : (Sec.mk n t p s).type = t := rfl
@[simp] theorem Sec.props_mk (n t p s) : (Sec.mk n t p s).props = p := rfl
@[simp] theorem Sec.subs_mk (n t p s) : (Sec.mk n t p s).subs = s := rfl

/-- number of Sections in a sub-tree / forest (termination measure of the traversals) -/
def Sec.size : Sec → Nat
  | .mk _ _ _ ss => 1 + sizeList ss
where sizeList : List Sec → Nat
  | [] => 0
  | s :: r => s.size + sizeList r

abbrev sizeList := Sec.size.sizeList

theorem Sec.size_eq (s : Sec) : s.size = 1 + sizeList s.subs := by
  cases s; simp [Sec.size, Sec.subs]

@[simp] theorem sizeList_nil : sizeList [] = 0 := rfl
@[simp] theorem sizeList_cons (s : Sec) (r : List Sec) : sizeList (s :: r) = s.size + sizeList r := rfl

theorem sizeList_append (a b : List Sec) : sizeList (a ++ b) = sizeList a + sizeList b := by
  induction a with
  | nil => simp
  | cons s r ih => simp [ih]; omega

structure Doc where
  secs : List Sec
  deriving Repr

/-- child Sections of the node at a position, starting from a forest (`none`: no such node) -/
def kidsAt : List Sec → Pos → Option (List Sec)
  | l, [] => some l
  | l, i :: rest =>
    match l[i]? with
    | some s => kidsAt s.subs rest
    | none => none

/-- the Section at a non-empty position -/
def secAt : List Sec → Pos → Option Sec
  | _, [] => none
  | l, [i] => l[i]?
  | l, i :: rest =>
    match l[i]? with
    | some s => secAt s.subs rest
    | none => none

/-- names of the Sections along a position (root first) -/
def namesAlong : List Sec → Pos → Option (List Str)
  | _, [] => some []
  | l, i :: rest =>
    match l[i]? with
    | some s => (namesAlong s.subs rest).map (s.name :: ·)
    | none => none

/-- `node.parent` in terms of positions: `none` for the Document -/
def parentOf (p : Pos) : Option Pos := if p = [] then none else some p.dropLast

/-! ## Well-formedness (what C03/C04 guarantee, plus the path-safety of names the property assumes) -/

/-- a name the property quantifies over: non-empty, free of `/` and `:`, not `.` or `..` -/
def plainName (n : Str) : Bool :=
  n ≠ [] && !n.contains '/' && !n.contains ':' && n ≠ ['.'] && n ≠ ['.', '.']

def distinct (l : List Str) : Bool :=
  match l with
  | [] => true
  | n :: r => !r.contains n && distinct r

def propsOk (ps : List PropT) : Bool :=
  (ps.map (·.name)).all plainName && distinct (ps.map (·.name))

/-- every Section of the sub-tree has plain, pairwise distinct child names (Sections and Properties) -/
def Sec.wf : Sec → Bool
  | .mk _ _ ps ss =>
    propsOk ps && (wfList ss && (ss.map (·.name)).all plainName && distinct (ss.map (·.name)))
where
  wfList : List Sec → Bool
    | [] => true
    | s :: r => s.wf && wfList r

abbrev wfList := Sec.wf.wfList

/-- a forest whose sibling names are plain and pairwise distinct, recursively -/
def wfForest (l : List Sec) : Bool :=
  wfList l && (l.map (·.name)).all plainName && distinct (l.map (·.name))

def Doc.wf (d : Doc) : Bool := wfForest d.secs

/-- all Sections strictly below a forest in the order `find_related(children=True)` visits
    them (each child, then its descendants), with positions relative to the forest -/
def Sec.pre : Sec → Pos → List (Pos × Sec)
  | .mk n t ps ss, p => (p, .mk n t ps ss) :: preList ss p 0
where
  preList : List Sec → Pos → Nat → List (Pos × Sec)
    | [], _, _ => []
    | s :: r, p, i => s.pre (p ++ [i]) ++ preList r p (i + 1)

abbrev preList := Sec.pre.preList

end PathTree
