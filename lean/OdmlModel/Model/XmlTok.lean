/-
C01 — date / time / datetime values as *objects handed to the public API* (round 4).

`Model/XmlDoc.lean` treats a stored float / date / time / datetime value as an opaque token whose
text the reader re-types to itself (`TokLib`).  For the three temporal dtypes this file makes the
contract concrete:

* the objects a caller can hand over: `datetime.time` / `datetime.datetime` with microseconds,
  `fold`, and a `tzinfo` whose `utcoffset()` is a whole number of seconds (`Off`), `datetime.date`;
* `str(obj)` (`isoformat`, with the `+HH:MM[:SS]` suffix of an aware object);
* what `dtypes.time_get / datetime_get / date_get` make of such an object before it is stored
  (odml/dtypes.py, the `isinstance` branches):
      time      strptime(obj.strftime("%H:%M:%S"), "%H:%M:%S").time()
      datetime  datetime(obj.year, obj.month, obj.day, obj.hour, obj.minute, obj.second)
      date      strptime(obj.isoformat(), "%Y-%m-%d").date()      (a datetime is a date, too)
* `stdLib`: the `TokLib` of the library for these dtypes = `str(dtypes.get(text, dtype))`
  (`strptime` models of `Py/Time.lean`); float tokens stay opaque.

Tied to /repo by the stream `tokobj` of `harness/c01.py`.
-/
import OdmlModel.Py.Time
import OdmlModel.Model.XmlDoc

namespace Xml
open Py

/-- `tzinfo.utcoffset(...)` of an aware object: `-24h < offset < 24h`, whole seconds
    (`neg` with `secs = 0` does not occur: `timedelta(0)` is not negative). -/
structure Off where
  neg : Bool
  secs : Nat
  deriving DecidableEq, Repr, Inhabited

/-- the `+HH:MM[:SS]` suffix of `isoformat()` (CPython `_format_offset`) -/
def Off.str (o : Off) : Str :=
  (if o.neg then '-' else '+') :: (pad2 (o.secs / 3600) ++ [':'] ++ pad2 (o.secs % 3600 / 60) ++
    (if o.secs % 60 == 0 then [] else ':' :: pad2 (o.secs % 60)))

def offStr : Option Off → Str
  | none => []
  | some o => o.str

/-- a `datetime.time` as a caller can hand it over; `off = none`: naive (no tzinfo, or a tzinfo
    without offset) -/
structure TimeObj where
  t : Time
  off : Option Off
  fold : Bool
  deriving DecidableEq, Repr, Inhabited

/-- a `datetime.datetime` as a caller can hand it over -/
structure DateTimeObj where
  x : DateTime
  off : Option Off
  fold : Bool
  deriving DecidableEq, Repr, Inhabited

/-- `str(obj)` = `obj.isoformat()` -/
def TimeObj.str (o : TimeObj) : Str := o.t.iso ++ offStr o.off

/-- `str(obj)` = `obj.isoformat(sep=" ")` -/
def DateTimeObj.str (o : DateTimeObj) : Str := o.x.str ++ offStr o.off

/-- `obj.isoformat()` (what `date_get` looks at) -/
def DateTimeObj.iso (o : DateTimeObj) : Str := o.x.iso ++ offStr o.off

/-- `time_get(obj)`: `"%H:%M:%S"` has no field for microseconds, offset or fold -/
def timeGetObj (o : TimeObj) : Option Time := parseTime o.t.hms

/-- `datetime_get(obj)`: a new naive datetime from the six fields of the format -/
def datetimeGetObj (o : DateTimeObj) : Option DateTime :=
  some ⟨o.x.date, { o.x.time with us := 0 }⟩

/-- `date_get(obj)` for a date that is no datetime -/
def dateGetObj (d : Date) : Option Date := parseDate d.iso

/-- `date_get(obj)` for a datetime (`isinstance(obj, date)` holds): the `T..` part does not parse -/
def dateGetDateTimeObj (o : DateTimeObj) : Option Date := parseDate o.iso

/-- `str(dtypes.get(text, dtype))` for the temporal dtypes (`none`: `dtypes.get` raises);
    float tokens stay opaque (identity) -/
def stdTok (dtype : String) (t : Str) : Option Str :=
  if dtype == "time" then (parseTime t).map Time.iso
  else if dtype == "date" then (parseDate t).map Date.iso
  else if dtype == "datetime" then (parseDateTime t).map DateTime.str
  else some t

/-- the token contract of the library, concrete for date / time / datetime -/
def stdLib : TokLib := ⟨stdTok⟩

end Xml
