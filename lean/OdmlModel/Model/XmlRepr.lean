/-
M-Xml, part 4: what the property compares (`trimDoc`: text after trimming surrounding white
space) and the two decidable side conditions of the round-trip theorem:

* `wfDoc lib d`   — `d` is a document the public API can build and `Validation` accepts:
  canonical ids, names present, Section types present, stored (normal-form) cardinalities,
  values that conform to the dtype;
* `xmlRepr d`     — `d` is representable in odML-XML as the code stands: names not blank and
  distinct among siblings after trimming, n-tuple items free of `,` and line breaks, and no
  numeric `uncertainty` (known finding: it comes back as a string).

Both are evaluated by the driver on every generated case (never re-implemented in Python).
-/
import OdmlModel.Model.Xml

namespace Xml
open Py

/-- An optional text attribute after a save/load cycle: an empty text is not written with
    content and comes back as absent, anything else comes back trimmed. -/
def normText : Option Str → Option Str
  | none => none
  | some s => if s.isEmpty then none else some (strip s)

def normUnc : Option Unc → Option Unc
  | none => none
  | some u => if u.text.isEmpty then none else some ⟨u.isNum, strip u.text⟩

def trimVal : Val → Val
  | .str s => .str (strip s)
  | v => v

def trimProp (p : PropT) : PropT :=
  { p with name := p.name.map strip, values := p.values.map trimVal, dtype := normText p.dtype,
           unit := normText p.unit, definition := normText p.definition,
           dependency := normText p.dependency, dependencyValue := normText p.dependencyValue,
           uncertainty := normUnc p.uncertainty, reference := normText p.reference,
           valueOrigin := normText p.valueOrigin }

mutual
def trimSec : SecT → SecT
  | .mk id name type defn ref link repo incl secs props sc pc =>
    .mk id (name.map strip) (normText type) (normText defn) (normText ref) (normText link)
      (normText repo) (normText incl) (trimSecs secs) (props.map trimProp) sc pc
def trimSecs : List SecT → List SecT
  | [] => []
  | s :: ss => trimSec s :: trimSecs ss
end

def trimDoc (d : DocT) : DocT :=
  { d with version := normText d.version, author := normText d.author,
           repository := normText d.repository, secs := trimSecs d.secs }

/-! ### Well-formed (buildable, valid) documents -/

def idOk (i : Option Str) : Bool :=
  match i with
  | some s => canonicalUuid s && strip s == s
  | none => false

/-- a stored cardinality: what `format_cardinality` can leave in the slot (C09 `Stored`) -/
def cardOk (c : Card.Card) : Bool :=
  match c with
  | none => true
  | some (none, none) => false
  | some (none, some y) => decide (0 < y)
  | some (some x, none) => decide (0 < x)
  | some (some x, some y) => decide (0 ≤ x) && decide (x ≤ y) && decide (0 < y)

def tokKinds : List String := ["float", "date", "time", "datetime"]
def strKinds : List String := ["string", "text", "url", "person"]

def tokOk (lib : TokLib) (d : String) (t : Str) : Bool :=
  !t.isEmpty && strip t == t && lib.parse d t == some t

/-- item of an n-tuple as `tuple_get` leaves it: trimmed, no `;` -/
def itemOk (x : Str) : Bool := strip x == x && !x.contains ';'

def valOk (lib : TokLib) (d : Str) : Val → Bool
  | .str _ => !endsWith "-tuple" d && strKinds.contains (String.ofList d)
  | .int _ => String.ofList d == "int"
  | .bool _ => String.ofList d == "boolean"
  | .tok t => tokKinds.contains (String.ofList d) && tokOk lib (String.ofList d) t
  | .tuple xs =>
    endsWith "-tuple" d && xs.length == natOfDigits (d.take (d.length - 6)) && xs.all itemOk
  | .nul => false

def propWf (lib : TokLib) (p : PropT) : Bool :=
  idOk p.id && p.name.isSome && cardOk p.valCard &&
  (match p.dtype with
    | none => p.values.isEmpty
    | some d => validType (some d) && strip d == d && !d.isEmpty && p.values.all (valOk lib d))

mutual
def secWf (lib : TokLib) : SecT → Bool
  | .mk id name type _ _ _ _ _ secs props sc pc =>
    idOk id && name.isSome && type.isSome && cardOk sc && cardOk pc &&
    props.all (propWf lib) && secsWf lib secs
def secsWf (lib : TokLib) : List SecT → Bool
  | [] => true
  | s :: ss => secWf lib s && secsWf lib ss
end

def dateOk (lib : TokLib) (d : Option Str) : Bool :=
  match d with
  | none => true
  | some t => tokOk lib "date" t

def wfDoc (lib : TokLib) (d : DocT) : Bool :=
  idOk d.id && dateOk lib d.date && secsWf lib d.secs

/-! ### Representable in odML-XML -/

def nameRepr (n : Option Str) : Bool :=
  match n with
  | some s => !(strip s).isEmpty
  | none => false

/-- sibling names stay distinct after trimming -/
def distinctTrimmed (names : List (Option Str)) : Bool :=
  let ts := names.map (Option.map strip)
  decide ts.Nodup

def itemRepr (x : Str) : Bool := !x.any fun c => c == ',' || c == '\r' || c == '\n'

def valRepr : Val → Bool
  | .tuple xs => xs.all itemRepr
  | _ => true

def uncRepr (u : Option Unc) : Bool :=
  match u with
  | none => true
  | some u => !u.isNum

def propRepr (p : PropT) : Bool :=
  nameRepr p.name && p.values.all valRepr && uncRepr p.uncertainty

mutual
def secRepr : SecT → Bool
  | .mk _ name _ _ _ _ _ _ secs props _ _ =>
    nameRepr name && props.all propRepr && distinctTrimmed (props.map (·.name)) &&
    distinctTrimmed (secNames secs) && secsRepr secs
def secsRepr : List SecT → Bool
  | [] => true
  | s :: ss => secRepr s && secsRepr ss
def secNames : List SecT → List (Option Str)
  | [] => []
  | .mk _ name _ _ _ _ _ _ _ _ _ _ :: ss => name :: secNames ss
end

def xmlRepr (d : DocT) : Bool := distinctTrimmed (secNames d.secs) && secsRepr d.secs

end Xml
