/-
C15 - the text entry point of the version converter.

  odml/tools/converters/version_converter.py, VersionConverter._parse_xml, branch
  `isinstance(self.filename, io.StringIO)`:

      doc = self.filename.getvalue()
      doc = re.sub(r'^<\?xml[^>]*\?>', '', doc, count=1)
      tree = ET.ElementTree(ET.fromstring(doc, parser))

A StringIO holds text that is already decoded.  The only thing the code does to that text before
the XML parser sees it is to take the XML declaration off its front (lxml refuses a `str` whose
declaration names an encoding); in particular the encoding the declaration names is not looked
at.  `dropDecl` is that `re.sub`, character by character: the pattern is anchored at the start,
`[^>]*` cannot run over a `>`, so the only candidate for the closing `?>` is the first `>` of the
text after `<?xml`, and it closes the declaration iff the character in front of it is a `?`
that lies after the `<?xml`.  Text = `List Char` (code points, as Python's `str`).  No Mathlib.
-/

namespace Conv

/-- `<?xml` -/
def declOpen : List Char := ['<', '?', 'x', 'm', 'l']

/-- `?>` -/
def declClose : List Char := ['?', '>']

/-- Scan to the first `>`: the character in front of it (`prev`: the one in front of the text)
    and the text behind it; `none` when there is no `>`. -/
def afterGt : Option Char → List Char → Option (Option Char × List Char)
  | _, [] => none
  | prev, c :: cs => if c = '>' then some (prev, cs) else afterGt (some c) cs

/-- `re.sub(r'^<\?xml[^>]*\?>', '', doc, count=1)` -/
def dropDecl (doc : List Char) : List Char :=
  if declOpen.isPrefixOf doc then
    match afterGt none (doc.drop declOpen.length) with
    | some (some '?', rest) => rest
    | _ => doc
  else doc

end Conv
