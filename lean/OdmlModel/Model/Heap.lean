/-
M-Heap: the mutable object graph of python-odml (Documents, Sections, Properties) as an
explicit heap, and every structural editing operation of the public API as a total function
`step : H → Op → H × Outcome` that follows the Python statement order, so that the state
returned with `.raised` is the state at the raise point.

  odml/base.py      SmartList (append, __setitem__, remove/index, __contains__),
                    Sectionable (append, insert, extend, remove, _check_no_cycle, _adopt)
  odml/section.py   BaseSection (constructor, name/parent setters, append, insert, extend,
                    remove, _reorder/reorder, create_section/create_property)
  odml/property.py  BaseProperty (constructor, name/parent setters, _reorder/reorder)
  odml/doc.py       BaseDocument (constructor; parent is always None)

Objects are handles (`Nat`); `node` maps a handle to its fields. No Mathlib.
-/
namespace Heap

inductive Kind where
  | doc | sec | prop
  deriving DecidableEq, Repr, Inhabited

structure Node where
  kind : Kind
  name : String            -- not used for documents
  id : String              -- only its role as fallback name matters here
  parent : Option Nat
  secs : List Nat          -- `_sections` (documents and sections)
  props : List Nat         -- `_props` (sections)
  deriving Repr, Inhabited

structure H where
  node : Nat → Node
  size : Nat               -- handles `< size` are allocated

def upd (h : H) (i : Nat) (f : Node → Node) : H :=
  { h with node := fun j => if j = i then f (h.node j) else h.node j }

@[simp] theorem upd_size (h : H) (i f) : (upd h i f).size = h.size := rfl
@[simp] theorem upd_same (h : H) (i f) : (upd h i f).node i = f (h.node i) := by simp [upd]
@[simp] theorem upd_other (h : H) (i j f) (hne : j ≠ i) : (upd h i f).node j = h.node j := by
  simp [upd, hne]

def empty : H := { node := fun _ => default, size := 0 }

/-- Exception classes that matter to the properties (C06 talks about "raises"). -/
inductive Exc where
  | valueError | keyError | indexError | typeError | attributeError
  deriving DecidableEq, Repr

inductive Outcome where
  | ok
  | raised (e : Exc)
  deriving DecidableEq, Repr

/-! ### Python list primitives -/

/-- Position at which `list.insert(i, _)` inserts into a list of length `len` (Python's clamping). -/
def pyPos (len : Nat) (i : Int) : Nat :=
  (if i < 0 then (if i + (len : Int) < 0 then 0 else i + (len : Int))
   else (if i > (len : Int) then (len : Int) else i)).toNat

/-- `list.insert(i, x)` -/
def pyInsert (l : List Nat) (i : Int) (x : Nat) : List Nat :=
  l.take (pyPos l.length i) ++ x :: l.drop (pyPos l.length i)

/-- `l[i]` index normalisation: `none` = IndexError. -/
def pyIndex (len : Nat) (i : Int) : Option Nat :=
  if i < 0 then (if i + (len : Int) < 0 then none else some (i + (len : Int)).toNat)
  else (if i ≥ (len : Int) then none else some i.toNat)

/-- `SmartList.index(obj)`: position by identity. -/
def indexOf? (l : List Nat) (x : Nat) : Option Nat :=
  match l with
  | [] => none
  | y :: ys => if y = x then some 0 else (indexOf? ys x).map (· + 1)

/-- `del l[i]` -/
def delAt (l : List Nat) (i : Nat) : List Nat := l.eraseIdx i

/-- `l[i] = x` -/
def setAt (l : List Nat) (i : Nat) (x : Nat) : List Nat := l.set i x

/-! ### Reading the heap -/

/-- `name in smartlist` for a string key: some listed object has that name. -/
def nameIn (h : H) (l : List Nat) (name : String) : Bool :=
  l.any (fun o => (h.node o).name == name)

/-- `_check_no_cycle`: walk from `start` along `.parent` (a Document's parent is None);
    `true` = `obj` met (ValueError). The loop of the implementation has no bound; the model
    gives it `size + 1` steps and answers "met" when they are used up, which can only happen
    on a cyclic heap. -/
def meetsUp (h : H) : Nat → Option Nat → Nat → Bool
  | _, none, _ => false
  | 0, some _, _ => true
  | fuel + 1, some cur, obj =>
    if cur = obj then true
    else meetsUp h fuel (if (h.node cur).kind = .doc then none else (h.node cur).parent) obj

def cycleCheck (h : H) (self obj : Nat) : Bool := meetsUp h (h.size + 1) (some self) obj

/-- `container.remove(obj)` for the list of the right sort; `none` = ValueError (not in list),
    nothing changed. -/
def removeChild (h : H) (p x : Nat) : Option H :=
  match (h.node x).kind with
  | .sec =>
    match indexOf? (h.node p).secs x with
    | none => none
    | some i =>
      let h1 := upd h p (fun n => { n with secs := delAt n.secs i })
      some (upd h1 x (fun n => { n with parent := none }))
  | .prop =>
    if (h.node p).kind = .doc then none    -- Document.remove searches `_sections` only
    else
    match indexOf? (h.node p).props x with
    | none => none
    | some i =>
      let h1 := upd h p (fun n => { n with props := delAt n.props i })
      some (upd h1 x (fun n => { n with parent := none }))
  | .doc => none

/-- `_adopt`: remove from the previous parent's list (if it is another object), then set
    `_parent`. `none` = the old parent's `remove` raised (only on an ill-formed heap). -/
def adopt (h : H) (p x : Nat) : Option H :=
  match (h.node x).parent with
  | some q =>
    if q = p then some (upd h x (fun n => { n with parent := some p }))
    else match removeChild h q x with
      | none => none
      | some h1 => some (upd h1 x (fun n => { n with parent := some p }))
  | none => some (upd h x (fun n => { n with parent := some p }))

/-- `Section.append(obj)` / `Document.append(section)`. -/
def append (h : H) (p x : Nat) : H × Outcome :=
  match (h.node p).kind, (h.node x).kind with
  | .prop, _ => (h, .raised .typeError)            -- a Property's append takes values, not objects
  | _, .doc => (h, .raised .valueError)
  | .doc, .prop => (h, .raised .valueError)
  | _, .sec =>
    if cycleCheck h p x then (h, .raised .valueError)
    else if nameIn h (h.node p).secs (h.node x).name then (h, .raised .keyError)
    else
      let h1 := upd h p (fun n => { n with secs := n.secs ++ [x] })
      match adopt h1 p x with
      | some h2 => (h2, .ok)
      | none => (h1, .raised .valueError)
  | .sec, .prop =>
    if nameIn h (h.node p).props (h.node x).name then (h, .raised .keyError)
    else
      let h1 := upd h p (fun n => { n with props := n.props ++ [x] })
      match adopt h1 p x with
      | some h2 => (h2, .ok)
      | none => (h1, .raised .valueError)

/-- `Section.insert(position, obj)` / `Document.insert(position, section)`. -/
def insert (h : H) (p : Nat) (pos : Int) (x : Nat) : H × Outcome :=
  match (h.node p).kind, (h.node x).kind with
  | .prop, _ => (h, .raised .typeError)
  | _, .doc => (h, .raised .valueError)
  | .doc, .prop => (h, .raised .valueError)
  | _, .sec =>
    if nameIn h (h.node p).secs (h.node x).name then (h, .raised .valueError)
    else if cycleCheck h p x then (h, .raised .valueError)
    else
      let h1 := upd h p (fun n => { n with secs := pyInsert n.secs pos x })
      match adopt h1 p x with
      | some h2 => (h2, .ok)
      | none => (h1, .raised .valueError)
  | .sec, .prop =>
    if nameIn h (h.node p).props (h.node x).name then (h, .raised .valueError)
    else
      let h1 := upd h p (fun n => { n with props := pyInsert n.props pos x })
      match adopt h1 p x with
      | some h2 => (h2, .ok)
      | none => (h1, .raised .valueError)

/-- The checking loop of `extend`: `none` = passed, `some e` = raised `e`. -/
def extendCheck (h : H) (p : Nat) : List Nat → List String → List String → Option Exc
  | [], _, _ => none
  | x :: xs, secNames, propNames =>
    match (h.node x).kind with
    | .doc => some .valueError
    | .sec =>
      if nameIn h (h.node p).secs (h.node x).name || secNames.contains (h.node x).name then
        some .keyError
      else if cycleCheck h p x then some .valueError
      else extendCheck h p xs ((h.node x).name :: secNames) propNames
    | .prop =>
      if (h.node p).kind = .doc then some .valueError
      else if nameIn h (h.node p).props (h.node x).name || propNames.contains (h.node x).name then
        some .keyError
      else extendCheck h p xs secNames ((h.node x).name :: propNames)

/-- The appending loop of `extend`: stops at the first `append` that raises. -/
def appendAll (h : H) (p : Nat) : List Nat → H × Outcome
  | [] => (h, .ok)
  | x :: xs =>
    match append h p x with
    | (h1, .ok) => appendAll h1 p xs
    | (h1, .raised e) => (h1, .raised e)

def extend (h : H) (p : Nat) (xs : List Nat) : H × Outcome :=
  if (h.node p).kind = .prop then (h, .raised .typeError)
  else match extendCheck h p xs [] [] with
    | some e => (h, .raised e)
    | none => appendAll h p xs

/-- `container.remove(obj)` -/
def remove (h : H) (p x : Nat) : H × Outcome :=
  if (h.node p).kind = .prop then (h, .raised .typeError)
  else match removeChild h p x with
    | some h1 => (h1, .ok)
    | none => (h, .raised .valueError)

/-- `obj.parent = new_parent` (Section and Property setters; a Document has no setter). -/
def setParent (h : H) (x : Nat) (np : Option Nat) : H × Outcome :=
  if (h.node x).kind = .doc then (h, .raised .attributeError)
  else
  match np, (h.node x).parent with
  | none, none => (h, .ok)
  | none, some q =>
    match removeChild h q x with
    | some h1 => (h1, .ok)           -- `remove` already set `_parent = None`
    | none => (h, .raised .valueError)
  | some p, old =>
    -- _validate_parent
    if (h.node p).kind = .prop || ((h.node x).kind = .prop && (h.node p).kind = .doc) then
      (h, .raised .valueError)
    else
      let clash : Bool := if (h.node x).kind = .sec then nameIn h (h.node p).secs (h.node x).name
                   else nameIn h (h.node p).props (h.node x).name
      if old ≠ some p && clash then (h, .raised .keyError)
      else if old ≠ some p && (h.node x).kind = .sec && cycleCheck h p x then
        (h, .raised .valueError)
      else
        -- detach from the current parent
        let r : Option H := match old with
          | some q => removeChild h q x
          | none => some h
        match r with
        | none => (h, .raised .valueError)
        | some h1 =>
          let h2 := upd h1 x (fun n => { n with parent := some p })
          append h2 p x

/-- `owner.sections[key] = value` / `owner.properties[key] = value` (`SmartList.__setitem__`).
    `secList = true` addresses the Section list. -/
def setItem (h : H) (p : Nat) (secList : Bool) (key : Int) (v : Nat) : H × Outcome :=
  if (h.node p).kind = .prop || (!secList && (h.node p).kind = .doc) then (h, .raised .attributeError)
  else
  let lst := if secList then (h.node p).secs else (h.node p).props
  if (h.node v).kind ≠ (if secList then Kind.sec else Kind.prop) then (h, .raised .valueError)
  else
  match pyIndex lst.length key with
  | none => (h, .raised .indexError)
  | some idx =>
    match lst[idx]? with
    | none => (h, .raised .indexError)
    | some replaced =>
      if replaced = v then (h, .ok)
      else if lst.any (fun o => o != replaced && (h.node o).name == (h.node v).name) then
        (h, .raised .keyError)
      else if meetsUp h (h.size + 1) (h.node replaced).parent v then (h, .raised .valueError)
      else
        let r : Option H := match (h.node v).parent with
          | some q => removeChild h q v
          | none => some h
        match r with
        | none => (h, .raised .valueError)
        | some h1 =>
          let h2 := upd h1 v (fun n => { n with parent := (h1.node replaced).parent })
          let h3 := upd h2 replaced (fun n => { n with parent := none })
          let h4 := upd h3 p (fun n =>
            if secList then { n with secs := setAt n.secs idx v }
            else { n with props := setAt n.props idx v })
          (h4, .ok)

/-- `_reorder(childlist, new_index)` on a plain list. `none` = ValueError from `index`. -/
def reorderList (lst : List Nat) (self : Nat) (newIndex : Int) : Option (List Nat) :=
  match indexOf? lst self with
  | none => none
  | some oldIndex =>
    let ni : Int := if newIndex < 0 then
        (if (lst.length : Int) + newIndex < 0 then 0 else (lst.length : Int) + newIndex) else newIndex
    let ni2 : Int := if ni > oldIndex then ni + 1 else ni
    let l1 := pyInsert lst ni2 self
    if ni2 < oldIndex then some (delAt l1 (oldIndex + 1)) else some (delAt l1 oldIndex)

/-- `obj.reorder(new_index)` -/
def reorder (h : H) (x : Nat) (newIndex : Int) : H × Outcome :=
  if (h.node x).kind = .doc then (h, .raised .attributeError)
  else
  match (h.node x).parent with
  | none => (h, .raised .valueError)
  | some p =>
    -- `if not self.parent`: a container without children is falsy
    if (h.node p).secs.length + (h.node p).props.length = 0 then (h, .raised .valueError)
    else if (h.node x).kind = .sec then
      match reorderList (h.node p).secs x newIndex with
      | none => (h, .raised .valueError)
      | some l => (upd h p (fun n => { n with secs := l }), .ok)
    else if (h.node p).kind = .doc then (h, .raised .attributeError)
    else
      match reorderList (h.node p).props x newIndex with
      | none => (h, .raised .valueError)
      | some l => (upd h p (fun n => { n with props := l }), .ok)

/-- `obj.name = new` (`""` stands for None / empty). -/
def rename (h : H) (x : Nat) (new : String) : H × Outcome :=
  if (h.node x).kind = .doc then (h, .raised .attributeError)
  else if (h.node x).name = new then (h, .ok)
  else
    let new' := if new = "" then (h.node x).id else new
    if new = "" && (h.node x).name = new' then (h, .ok)
    else
      let clash : Bool := match (h.node x).parent with
        | none => false
        | some p =>
          if (h.node x).kind = .sec then nameIn h (h.node p).secs new'
          else if (h.node p).kind = .doc then false      -- hasattr(parent, "properties") fails
          else nameIn h (h.node p).props new'
      if clash then (h, .raised .keyError)
      else (upd h x (fun n => { n with name := new' }), .ok)

/-- Allocation of a fresh detached object. -/
def alloc (h : H) (k : Kind) (name id : String) : H × Nat :=
  let n : Node := { kind := k, name := if name = "" then id else name, id := id,
                    parent := none, secs := [], props := [] }
  ({ node := fun j => if j = h.size then n else h.node j, size := h.size + 1 }, h.size)

/-- Constructors `Section(name, parent=…, sec_cardinality=…)`, `Property(name, parent=…, …)`,
    `create_section`, `create_property`; `argsOk = false` stands for any argument the
    constructor refuses *before* it attaches (invalid cardinality, unconvertible values).
    A constructor that raises leaves only an unreachable object: the heap is returned as it was. -/
def construct (h : H) (k : Kind) (name id : String) (parent : Option Nat) (argsOk : Bool) :
    H × Outcome :=
  if !argsOk then (h, .raised .valueError)
  else
    let (h1, x) := alloc h k name id
    match k, parent with
    | .doc, _ => (h1, .ok)
    | _, none => (h1, .ok)
    | _, some p =>
      match setParent h1 x (some p) with
      | (h2, .ok) => (h2, .ok)
      | (_, .raised e) => (h, .raised e)

/-- `obj.new_id(oid)`: `idText = none` stands for a malformed `oid` (`uuid.UUID` raises ValueError,
    nothing is assigned); otherwise `idText` is the canonical text of the given or fresh id. -/
def newId (h : H) (x : Nat) (idText : Option String) : H × Outcome :=
  match idText with
  | none => (h, .raised .valueError)
  | some s => (upd h x (fun n => { n with id := s }), .ok)

/-- The public structural editing operations. Handles must be allocated (`< size`). -/
inductive Op where
  | construct (k : Kind) (name id : String) (parent : Option Nat) (argsOk : Bool)
  | append (p x : Nat)
  | insert (p : Nat) (pos : Int) (x : Nat)
  | extend (p : Nat) (xs : List Nat)
  | remove (p x : Nat)
  | setParent (x : Nat) (np : Option Nat)
  | setItem (p : Nat) (secList : Bool) (key : Int) (v : Nat)
  | reorder (x : Nat) (newIndex : Int)
  | rename (x : Nat) (new : String)
  | newId (x : Nat) (idText : Option String)
  deriving Repr

def Op.handles : Op → List Nat
  | .construct _ _ _ p _ => p.toList
  | .append p x => [p, x]
  | .insert p _ x => [p, x]
  | .extend p xs => p :: xs
  | .remove p x => [p, x]
  | .setParent x np => x :: np.toList
  | .setItem p _ _ v => [p, v]
  | .reorder x _ => [x]
  | .rename x _ => [x]
  | .newId x _ => [x]

def step (h : H) (op : Op) : H × Outcome :=
  if op.handles.any (fun i => i ≥ h.size) then (h, .raised .typeError)   -- not an object
  else
  match op with
  | .construct k name id parent argsOk => construct h k name id parent argsOk
  | .append p x => append h p x
  | .insert p pos x => insert h p pos x
  | .extend p xs => extend h p xs
  | .remove p x => remove h p x
  | .setParent x np => setParent h x np
  | .setItem p s key v => setItem h p s key v
  | .reorder x i => reorder h x i
  | .rename x new => rename h x new
  | .newId x idText => newId h x idText

def run (h : H) (ops : List Op) : H := ops.foldl (fun h op => (step h op).1) h

end Heap
