/-
M-Registry: the handler registry of odml/validation.py and everything that touches it.

  odml/validation.py   Validation._handlers (class attribute, klass -> set of functions),
                       Validation.__init__ (reset=True: `self._handlers = {}` shadows the class
                       dict on the instance), register_handler (static, class dict),
                       register_custom_handler (`self._handlers`: the instance dict if there is
                       one, otherwise the *class* dict), validate (iterates the set)
  odml/section.py      __init__, sec_cardinality / prop_cardinality setters
  odml/property.py     __init__, values / val_cardinality setters
  odml/tools/odmlparser.py   write_file (Validation + report), the readers (Validation.report)

The state is the class-level table plus, per `Validation` object ever created, its own table if
it was created with reset=True.  Operations change only these tables; what a validation
*reports* is `Valid.issuesWith` on the effective table of the object (Model/Valid.lean).
-/
import OdmlModel.Model.Valid

namespace Registry
open Valid

/-- A handler function object: one of the rule functions of odml/validation.py, or a
    user-defined function (identified by a number). -/
inductive Handler where
  | rule (r : Rule)
  | custom (n : Nat)
  deriving DecidableEq, Repr

/-- `dict: klass -> set(handler)`; a `set` is kept as a duplicate-free list in insertion order
    (Python iterates it in an arbitrary order: see `C19.validate_order_independent`). -/
abbrev Table := Klass → List Handler

def Table.empty : Table := fun _ => []

/-- `table.setdefault(klass, set()).add(handler)` -/
def Table.add (t : Table) (k : Klass) (h : Handler) : Table :=
  fun k' => if k' = k then (if (t k).contains h then t k else t k ++ [h]) else t k'

structure State where
  /-- `Validation._handlers`, the class attribute -/
  global : Table
  /-- per `Validation` object, in creation order: `some t` = it has its own `_handlers`
      (created with reset=True), `none` = attribute lookup falls through to the class dict -/
  insts : List (Option Table)

/-- `self._handlers` as attribute lookup resolves it for object `i`. -/
def effective (st : State) (i : Nat) : Table :=
  match st.insts[i]? with
  | some (some t) => t
  | _ => st.global

def isReset (st : State) (i : Nat) : Bool :=
  match st.insts[i]? with
  | some (some _) => true
  | _ => false

inductive Op where
  /-- `Validation(obj, validate=…, reset=…)`: the object is created (running it is `run`) -/
  | newValidation (reset : Bool)
  /-- `inst.register_custom_handler(klass, handler)` -/
  | registerCustom (i : Nat) (k : Klass) (h : Handler)
  /-- `Validation.register_handler(klass, handler)`: the explicit, global registration -/
  | registerGlobal (k : Klass) (h : Handler)
  /-- `inst.run_validation()` / `inst.report()` / the run inside `__init__` -/
  | run (i : Nat)
  deriving DecidableEq, Repr

def step (st : State) : Op → State
  | .newValidation true => { st with insts := st.insts ++ [some Table.empty] }
  | .newValidation false => { st with insts := st.insts ++ [none] }
  | .registerCustom i k h =>
    match st.insts[i]? with
    | some (some t) => { st with insts := st.insts.set i (some (t.add k h)) }
    | some none => { st with global := st.global.add k h }   -- `self._handlers` is the class dict
    | none => st
  | .registerGlobal k h => { st with global := st.global.add k h }
  | .run _ => st

def runOps (st : State) (ops : List Op) : State := ops.foldl step st

/-- The registry right after `import odml`: the registrations at module level of
    odml/validation.py, i.e. the regenerated table. -/
def init : State := { global := fun k => (defaultReg k).map Handler.rule, insts := [] }

/-! ## What the library itself does with validations (macro operations) -/

/-- A private validation with exactly one rule, as the cardinality setters create it:
    `Validation(self, validate=False, reset=True)`, `register_custom_handler(klass, rule)`,
    `run_validation()`.  `i` = the number of validation objects created so far. -/
def privateCheck (i : Nat) (k : Klass) (r : Rule) : List Op :=
  [.newValidation true, .registerCustom i k (.rule r), .run i]

/-- `Validation(obj)`: created without reset, runs at once. -/
def defaultCheck (i : Nat) : List Op := [.newValidation false, .run i]

inductive Macro where
  | defaultValidation                 -- user: `Validation(obj)` / `doc.validate()`
  | customValidation                  -- user: `Validation(obj, validate=False, reset=True)`
  | constructSection                  -- `Section(...)`
  | constructProperty (values : Bool) -- `Property(...)`, with or without values
  | setSecCardinality
  | setPropCardinality
  | setValCardinality
  | assignValues                      -- `prop.values = [...]` (non-empty)
  | save                              -- `ODMLWriter.write_file`: `Validation(doc)`, `.report()`
  | load                              -- readers: `Validation(doc).report()`
  deriving DecidableEq, Repr

/-- The primitive operations a macro performs when `i` validation objects exist already. -/
def Macro.expand (i : Nat) : Macro → List Op
  | .defaultValidation => defaultCheck i
  | .customValidation => [.newValidation true]
  | .constructSection =>
    privateCheck i .section .sectionSectionsCardinality ++
    privateCheck (i + 1) .section .sectionPropertiesCardinality ++ defaultCheck (i + 2)
  | .constructProperty true =>
    privateCheck i .property .propertyValuesCardinality ++
    privateCheck (i + 1) .property .propertyValuesCardinality ++ defaultCheck (i + 2)
  | .constructProperty false =>
    privateCheck i .property .propertyValuesCardinality ++ defaultCheck (i + 1)
  | .setSecCardinality => privateCheck i .section .sectionSectionsCardinality
  | .setPropCardinality => privateCheck i .section .sectionPropertiesCardinality
  | .setValCardinality => privateCheck i .property .propertyValuesCardinality
  | .assignValues => privateCheck i .property .propertyValuesCardinality
  | .save => defaultCheck i ++ [.run i]
  | .load => defaultCheck i ++ [.run i]

/-- A history step: a primitive operation of the user, or something the library does. -/
inductive Act where
  | op (o : Op)
  | lib (m : Macro)
  deriving DecidableEq, Repr

def act (st : State) : Act → State
  | .op o => step st o
  | .lib m => runOps st (m.expand st.insts.length)

def runActs (st : State) (as : List Act) : State := as.foldl act st

/-! ## What a validation object reports -/

/-- Behaviour of the handlers: the rule functions are `Valid.applyRule`; user functions are
    arbitrary (`cust`). -/
def applyH (cust : Nat → Visit → List Issue) : Handler → Visit → List Issue
  | .rule r => applyRule r
  | .custom n => cust n

/-- The issues validation object `i` reports for `n` in state `st`. -/
def report (cust : Nat → Visit → List Issue) (st : State) (i : Nat) (n : Node) : List Issue :=
  issuesWith (applyH cust) (effective st i) n

end Registry
