/-
Model of `Section.merge_check` / `Section.merge` (odml/section.py), `Property.merge_check` /
`Property.merge` / `Property.extend` / the `values` setter (odml/property.py) and
`Sectionable.contains` / `SmartList.append` (odml/base.py) on pure trees.

* A Section is `Sec V` (nested inductive): attributes, Properties, sub-Sections, in list order.
* Values are abstract: the model is parametrised by `cv : Conv V`
  (`get` = `dtypes.get(v, dtype)` with `none` = "raises", `infer` = `dtypes.infer_dtype`,
  `eq` = Python `==` as used by `v not in self._values`). Every theorem holds for every `cv`.
  The concrete instance `convC` over the tagged values `Val` is what the driver runs; the
  harness validates it against the real `dtypes.get / infer_dtype / ==` on the whole value pool
  the generator draws from (stream `conv` of harness/c13.py).
* A raising Python statement is `Outcome.raised` *with the tree as it is at the raise point*:
  there is no rollback in the code, so "a merge that raises has changed nothing" is a theorem
  about `mergeCheck`, not a fact by construction.
* Statement order follows the Python source; comments name the statements.
* `Section.merge` runs two checks before it changes anything: `merge_check` (`mergeCheck`,
  attribute conflicts of the objects that will be merged) and `_merge_name_check` (`typeClash`,
  a source sub-Section that would have to be added under a name the destination already uses
  for a Section of another type); the second one is the fix of finding
  `C13/section-name-clash-other-type`.

Assumed (kept out of the generated universe, see design.d/C13.md): n-tuple dtypes,
non-numeric `uncertainty` strings, non-canonical dtype spellings ("Int"), the empty string as a
value (date/time defaults depend on the clock), text attributes whose `.lower()` is not ASCII.
-/
import OdmlModel.Py.Str

namespace Merge
open Py

abbrev Str := List Char

/-- `odml.DType` (without n-tuples). -/
inductive DType
  | string | text | int | float | url | datetime | date | time | boolean | person
  deriving DecidableEq, Repr, Inhabited

/-- `dtypes.special_dtypes = ["url", "person", "text"]` -/
def DType.special : DType → Bool
  | .url | .person | .text => true
  | _ => false

/-- The three value-level functions of `odml.dtypes` / Python the merge code calls. -/
structure Conv (V : Type) where
  /-- `dtypes.get(v, dtype)`; `none` = the call raises -/
  get : Option DType → V → Option V
  /-- `dtypes.infer_dtype(v)` -/
  infer : V → DType
  /-- Python `a == b` on stored values -/
  eq : V → V → Bool

/-- Identity of the object a Section was merged with (`Section._merged`): the document it lives
    in (`none` = the same document / a free-standing tree) and the names from its root.
    `record` is not part of the identity: it is the flag that travels with the reference down the
    recursion of a merge (`Section._merge(section, strict, record)`, fix dccf4ba) - whether the
    merge this reference is handed to leaves a trace in `_merged` / `_merged_attrs`. A reference
    that is stored in `_merged` always has it set. -/
structure Ref where
  url : Option Str
  path : List Str
  record : Bool := true
  deriving DecidableEq, Repr

instance : Inhabited Ref := ⟨{ url := none, path := [] }⟩

def Ref.child (r : Ref) (n : Str) : Ref := { r with path := r.path ++ [n] }

/-- `new if record else old` -/
def Ref.pick {α : Type} (r : Ref) (new old : α) : α := if r.record then new else old

inductive Exc
  | valueError | keyError | attributeError
  deriving DecidableEq, Repr

inductive Outcome
  | ok
  | raised (e : Exc)
  deriving DecidableEq, Repr

structure PropT (V : Type) where
  name : Str
  dtype : Option DType
  values : List V
  unit : Option Str
  uncertainty : Option Int        -- a numeric token (index into the generator's pool of floats)
  definition : Option Str
  reference : Option Str
  origin : Option Str
  deriving Repr

structure SecAttrs where
  name : Str
  type : Str
  definition : Option Str
  reference : Option Str
  link : Option Str
  incl : Option Str
  merged : Option Ref
  /-- `_merged_attrs.get("definition")`: the definition `merge` has filled in from the Section
      this one is merged with (`none` = nothing recorded; a recorded `None` behaves the same) -/
  filledDef : Option Str := none
  /-- `_merged_attrs.get("reference")` -/
  filledRef : Option Str := none
  deriving DecidableEq, Repr

/-- `self._merged is not None and self.can_be_merged`: the link or include of the Section is
    resolved -/
def SecAttrs.resolved (a : SecAttrs) : Bool := a.merged.isSome && (a.link.isSome || a.incl.isSome)

/-- The record flag in force at a Section: what the caller handed down, and - `Section.merge`, the
    public method, through which every recorded merge reaches a Section the destination has
    already - `not (self._merged is not None and self.can_be_merged)`: a Section whose link or
    include is resolved stays merged with the Section it refers to. Once off, the flag stays off
    further down (`mine._merge(obj, strict, False)`). The link and include setters call
    `_merge(new_section, False, True)` on a Section they have cleaned (not merged, hence not
    resolved): the same value. -/
def Ref.eff (r : Ref) (a : SecAttrs) : Ref := { r with record := r.record && !a.resolved }

inductive Sec (V : Type) where
  | mk (a : SecAttrs) (props : List (PropT V)) (secs : List (Sec V))

variable {V : Type}

def Sec.attrs : Sec V → SecAttrs | .mk a _ _ => a
def Sec.props : Sec V → List (PropT V) | .mk _ p _ => p
def Sec.secs : Sec V → List (Sec V) | .mk _ _ s => s
def Sec.name (s : Sec V) : Str := s.attrs.name
def Sec.type (s : Sec V) : Str := s.attrs.type

@[simp] theorem Sec.attrs_mk (a : SecAttrs) (p : List (PropT V)) (s) : (Sec.mk a p s).attrs = a := rfl
@[simp] theorem Sec.props_mk (a : SecAttrs) (p : List (PropT V)) (s) : (Sec.mk a p s).props = p := rfl
@[simp] theorem Sec.secs_mk (a : SecAttrs) (p : List (PropT V)) (s) : (Sec.mk a p s).secs = s := rfl
@[simp] theorem Sec.name_mk (a : SecAttrs) (p : List (PropT V)) (s) : (Sec.mk a p s).name = a.name := rfl
@[simp] theorem Sec.type_mk (a : SecAttrs) (p : List (PropT V)) (s) : (Sec.mk a p s).type = a.type := rfl
theorem Sec.eta (s : Sec V) : Sec.mk s.attrs s.props s.secs = s := by cases s; rfl

/-! ## Text comparison used by the strict checks -/

/-- `''.join(map(str.strip, s.split())).lower()`: all whitespace removed, lower-cased
    (for `reference`/`value_origin` the code lower-cases first; same result on ASCII). -/
def normText (s : Str) : Str := lower (s.filter (fun c => !isSpace c))

/-- both set and different after normalisation -/
def textConflict (a b : Option Str) : Bool :=
  match a, b with
  | some x, some y => normText x != normText y
  | _, _ => false

/-- both set and different (`!=`) -/
def exactConflict {α : Type} [DecidableEq α] (a b : Option α) : Bool :=
  match a, b with
  | some x, some y => x != y
  | _, _ => false

/-- `if self.x is None and other.x is not None: self.x = other.x` where the setter of `x`
    turns `""` into `None`. -/
def fillText (a b : Option Str) : Option Str :=
  match a with
  | some _ => a
  | none => match b with
    | some [] => none
    | _ => b

/-- the record kept next to `fillText` in `Section.merge`:
    `if self.x is None and other.x is not None: self.x = other.x; filled["x"] = self.x`
    (`old` = what `_merged_attrs` held for `x` before) -/
def recFill (a b old : Option Str) : Option Str :=
  match a, b with
  | none, some _ => fillText a b
  | _, _ => old

def fillOpt {α : Type} (a b : Option α) : Option α :=
  match a with
  | some _ => a
  | none => b

/-! ## Property level -/

/-- `Property._validate_values(values)`: every value converts to the given dtype -/
def validate (cv : Conv V) (dt : Option DType) (vs : List V) : Bool :=
  vs.all (fun v => (cv.get dt v).isSome)

/-- the attribute conflicts `Property.merge_check` tests in strict mode, in source order -/
def propConflict (d s : PropT V) : Bool :=
  exactConflict d.dtype s.dtype || exactConflict d.unit s.unit ||
  exactConflict d.uncertainty s.uncertainty || textConflict d.definition s.definition ||
  textConflict d.reference s.reference || textConflict d.origin s.origin

/-- `Property.merge_check(source, strict)` -/
def propMergeCheck (cv : Conv V) (strict : Bool) (d s : PropT V) : Outcome :=
  -- new_value = self._convert_value_input(source.values); if not self._validate_values(new_value): raise
  if !validate cv d.dtype s.values then .raised .valueError
  -- if not strict: return
  else if !strict then .ok
  -- dtype / unit / uncertainty / definition / reference / value_origin
  else if propConflict d s then .raised .valueError
  else .ok

/-- `if self._dtype is None: self._dtype = dtypes.infer_dtype(new_value[0])` -/
def dtypeFor (cv : Conv V) (p : PropT V) (v0 : V) : Option DType :=
  match p.dtype with
  | none => some (cv.infer v0)
  | some t => some t

/-- the `values` setter (`self.values = new_value`) -/
def setValues (cv : Conv V) (p : PropT V) (nv : List V) : PropT V × Outcome :=
  match nv with
  -- if new_value is None or len(new_value) == 0: self._values = []; return
  | [] => ({ p with values := [] }, .ok)
  | v0 :: _ =>
    -- if not self._validate_values(new_value): raise ValueError   (the dtype is already assigned)
    if !validate cv (dtypeFor cv p v0) nv then ({ p with dtype := dtypeFor cv p v0 }, .raised .valueError)
    -- self._values = [dtypes.get(v, self.dtype) for v in new_value]
    else ({ p with dtype := dtypeFor cv p v0, values := nv.filterMap (cv.get (dtypeFor cv p v0)) }, .ok)

/-- the strict dtype inference of `extend`:
    `len(new_value) > 0 and strict and dtypes.infer_dtype(new_value[0]) != self.dtype and
     not (type_check == "string" and self.dtype in special_dtypes)` -/
def extendRefuses (cv : Conv V) (t : DType) (obj : List V) (strict : Bool) : Bool :=
  match obj with
  | [] => false
  | v0 :: _ => strict && cv.infer v0 != t && !(cv.infer v0 == .string && t.special)

/-- `Property.extend(obj, strict)` for a list of values -/
def extend (cv : Conv V) (p : PropT V) (obj : List V) (strict : Bool) : PropT V × Outcome :=
  -- if self.__len__() == 0: self.values = obj; return
  if p.values.isEmpty then setValues cv p obj
  else
    match p.dtype with
    -- self._dtype.endswith("-tuple") on None (cannot happen for a Property holding values)
    | none => (p, .raised .attributeError)
    | some t =>
      -- the strict dtype inference: raise ValueError
      if extendRefuses cv t obj strict then (p, .raised .valueError)
      -- if not self._validate_values(new_value): raise ValueError
      else if !validate cv (some t) obj then (p, .raised .valueError)
      -- self._values.extend([dtypes.get(v, self.dtype) for v in new_value])
      else ({ p with values := p.values ++ obj.filterMap (cv.get (some t)) }, .ok)

/-- `[v for v in other.values if v not in self._values]` -/
def toAdd (cv : Conv V) (own src : List V) : List V :=
  src.filter (fun v => !(own.any (fun w => cv.eq w v)))

/-- the five `if self.x is None and other.x is not None: self.x = other.x` statements -/
def fillProp (d s : PropT V) : PropT V :=
  { d with
    origin := fillText d.origin s.origin
    uncertainty := fillOpt d.uncertainty s.uncertainty
    reference := fillText d.reference s.reference
    definition := fillText d.definition s.definition
    unit := fillText d.unit s.unit }

/-- `Property.merge(other, strict)`.
    The values are appended with `extend(to_add, strict=False)`: `merge_check` has already
    compared the declared dtypes (fix on branch work-C13; before it the call passed `strict`
    on and `extend` re-inferred the dtype from the first value, see design.d/C13.md). -/
def propMerge (cv : Conv V) (strict : Bool) (d s : PropT V) : PropT V × Outcome :=
  -- self.merge_check(other, strict)
  match propMergeCheck cv strict d s with
  | .raised e => (d, .raised e)
  | .ok =>
    -- the five fill statements; to_add = [...]; self.extend(to_add, strict=False)
    extend cv (fillProp d s) (toAdd cv d.values s.values) false

/-! ## Child lists -/

/-- `Sectionable.contains(obj)` for Sections: first child with the same name **and** type -/
def secMatch (n t : Str) (c : Sec V) : Bool := c.name == n && c.type == t

def findSec (l : List (Sec V)) (n t : Str) : Option (Sec V) := l.find? (secMatch n t)

/-- `Section.contains(obj)` for Properties: first child with the same name -/
def findProp (l : List (PropT V)) (n : Str) : Option (PropT V) := l.find? (fun p => p.name == n)

/-- `name in smartlist` -/
def secNameIn (l : List (Sec V)) (n : Str) : Bool := l.any (fun c => c.name == n)
def propNameIn (l : List (PropT V)) (n : Str) : Bool := l.any (fun p => p.name == n)

/-- in-place update of the object `contains` returned: the first element satisfying `p` -/
def replaceFirst {α : Type} (p : α → Bool) (x : α) : List α → List α
  | [] => []
  | y :: ys => if p y then x :: ys else y :: replaceFirst p x ys

/-! ## Section level -/

/-- the Section-level conflicts `Section.merge_check` tests in strict mode -/
def secConflict (d s : SecAttrs) : Bool :=
  textConflict d.definition s.definition || textConflict d.reference s.reference

/-- the loop over the source's Properties in `Section.merge_check` -/
def mergeCheckProps (cv : Conv V) (strict : Bool) (dprops : List (PropT V)) :
    List (PropT V) → Outcome
  | [] => .ok
  | o :: os =>
    match findProp dprops o.name with
    | some mine =>
      match propMergeCheck cv strict mine o with
      | .raised e => .raised e
      | .ok => mergeCheckProps cv strict dprops os
    | none => mergeCheckProps cv strict dprops os

mutual
/-- `Section.merge_check(source_section, strict)` -/
def mergeCheck (cv : Conv V) (strict : Bool) : Sec V → Sec V → Outcome
  | d, .mk sa sprops ssecs =>
    -- definition / reference conflicts (strict only)
    if strict && secConflict d.attrs sa then .raised .valueError
    else
      -- for obj in source_section: (Sections first, then Properties)
      match mergeCheckSecs cv strict d.secs ssecs with
      | .raised e => .raised e
      | .ok => mergeCheckProps cv strict d.props sprops
/-- the loop over the source's sub-Sections -/
def mergeCheckSecs (cv : Conv V) (strict : Bool) (dsecs : List (Sec V)) : List (Sec V) → Outcome
  | [] => .ok
  | o :: os =>
    match findSec dsecs o.name o.type with
    | some mine =>
      -- mine.merge_check(obj, strict)
      match mergeCheck cv strict mine o with
      | .raised e => .raised e
      | .ok => mergeCheckSecs cv strict dsecs os
    -- nothing is checked for a source child `contains` does not find (also when a child of the
    -- same name but another type exists: that is `_merge_name_check`'s business, see `typeClash`)
    | none => mergeCheckSecs cv strict dsecs os
end

mutual
/-- `Section._merge_name_check(source_section)`; `true` = it raises `ValueError`.
    Somewhere in the pairs of Sections `merge` will visit, the source has a sub-Section whose
    name is used in the destination by a Section of **another type**: `contains` does not find
    it and `SmartList.append` would refuse the clone. (Before the fix of finding
    `C13/section-name-clash-other-type` nothing looked at this before the merge loop ran.) -/
def typeClash : Sec V → Sec V → Bool
  | d, .mk _ _ ssecs => typeClashSecs d.secs ssecs
/-- the loop `for obj in source_section.sections` of `_merge_name_check` -/
def typeClashSecs (dsecs : List (Sec V)) : List (Sec V) → Bool
  | [] => false
  | o :: os =>
    -- mine = self.contains(obj)
    (match findSec dsecs o.name o.type with
     -- mine._merge_name_check(obj)
     | some mine => typeClash mine o
     -- elif obj.name in self.sections: raise ValueError
     | none => secNameIn dsecs o.name) || typeClashSecs dsecs os
end

/-- `mine = obj.clone(); mine._merged = obj if record else None` for a Section (clone is the
    identity on the pure tree, `_merged_attrs` included; ids are not modelled) -/
def cloneMerged (r : Ref) (o : Sec V) : Sec V :=
  .mk { o.attrs with merged := r.pick (some r) none } o.props o.secs

/-- the loop over the source's Properties in `Section.merge` -/
def mergeProps (cv : Conv V) (strict : Bool) : List (PropT V) → List (PropT V) →
    List (PropT V) × Outcome
  | dprops, [] => (dprops, .ok)
  | dprops, o :: os =>
    match findProp dprops o.name with
    | some mine =>
      -- mine.merge(obj, strict)
      match propMerge cv strict mine o with
      | (m', .raised e) => (replaceFirst (fun p => p.name == o.name) m' dprops, .raised e)
      | (m', .ok) => mergeProps cv strict (replaceFirst (fun p => p.name == o.name) m' dprops) os
    | none =>
      -- mine = obj.clone(); self.append(mine)   (SmartList.append: KeyError on a used name)
      if propNameIn dprops o.name then (dprops, .raised .keyError)
      else mergeProps cv strict (dprops ++ [o]) os

mutual
/-- `Section.merge(section, strict)` / `Section._merge(section, strict, record)`; `r` identifies
    `section` (stored in `_merged`) and carries the record flag handed down (`Ref.eff`: the flag in
    force here). With the flag off the merge is carried out all the same, but `_merged` and
    `_merged_attrs` stay as they are and the copies carry no `_merged` mark. -/
def merge (cv : Conv V) (strict : Bool) : Ref → Sec V → Sec V → Sec V × Outcome
  | r, d, .mk sa sprops ssecs =>
    -- self.merge_check(section, strict)
    match mergeCheck cv strict d (.mk sa sprops ssecs) with
    | .raised e => (d, .raised e)
    | .ok =>
      -- self._merge_name_check(section)
      if typeClash d (.mk sa sprops ssecs) then (d, .raised .valueError)
      else
      -- filled = dict(self._merged_attrs)
      -- if self.definition is None and ...: self.definition = section.definition;
      --   filled["definition"] = self.definition; same for reference
      -- if record: self._merged_attrs = filled
      let a1 := { d.attrs with definition := fillText d.attrs.definition sa.definition
                               reference := fillText d.attrs.reference sa.reference
                               filledDef := (r.eff d.attrs).pick
                                 (recFill d.attrs.definition sa.definition d.attrs.filledDef)
                                 d.attrs.filledDef
                               filledRef := (r.eff d.attrs).pick
                                 (recFill d.attrs.reference sa.reference d.attrs.filledRef)
                                 d.attrs.filledRef }
      -- for obj in section: Sections first ...
      match mergeSecs cv strict (r.eff d.attrs) d.secs ssecs with
      | (secs', .raised e) => (.mk a1 d.props secs', .raised e)
      | (secs', .ok) =>
        -- ... then Properties
        match mergeProps cv strict d.props sprops with
        | (props', .raised e) => (.mk a1 props' secs', .raised e)
        -- if record: self._merged = section
        | (props', .ok) =>
          (.mk { a1 with merged := (r.eff d.attrs).pick (some r) d.attrs.merged } props' secs', .ok)
/-- the loop over the source's sub-Sections in `Section.merge` -/
def mergeSecs (cv : Conv V) (strict : Bool) : Ref → List (Sec V) → List (Sec V) →
    List (Sec V) × Outcome
  | _, dsecs, [] => (dsecs, .ok)
  | r, dsecs, o :: os =>
    match findSec dsecs o.name o.type with
    | some mine =>
      -- mine.merge(obj, strict) if record else mine._merge(obj, strict, False)
      match merge cv strict (r.child o.name) mine o with
      | (m', .raised e) => (replaceFirst (secMatch o.name o.type) m' dsecs, .raised e)
      | (m', .ok) => mergeSecs cv strict r (replaceFirst (secMatch o.name o.type) m' dsecs) os
    | none =>
      -- mine = obj.clone(); mine._merged = obj if record else None; self.append(mine)
      -- (SmartList.append: KeyError on a used name; excluded by `_merge_name_check` for a source
      -- with unique sibling names, theorem C13.merge_all_or_nothing)
      if secNameIn dsecs o.name then (dsecs, .raised .keyError)
      else mergeSecs cv strict r (dsecs ++ [cloneMerged (r.child o.name) o]) os
end

/-! ## Decidable side conditions used by the theorems (evaluated by the driver too) -/

/-- sibling names are unique (`SmartList` keys) -/
def namesNodup (names : List Str) : Bool :=
  match names with
  | [] => true
  | n :: r => !r.contains n && namesNodup r

/-- a Property whose values are all convertible to the dtype inferred from the first one
    (true of every Property built through the API: its values are of one Python type) -/
def propHomog (cv : Conv V) (p : PropT V) : Bool :=
  match p.values with
  | [] => true
  | v0 :: _ => validate cv (some (cv.infer v0)) p.values

mutual
/-- well-formed source tree: unique sibling names and homogeneous values, at every level -/
def wfSec (cv : Conv V) : Sec V → Bool
  | .mk _ props secs =>
    namesNodup (props.map (·.name)) && props.all (propHomog cv) && wfSecs cv secs
/-- `wfSec` for every Section of a list, plus unique names within the list -/
def wfSecs (cv : Conv V) : List (Sec V) → Bool
  | [] => true
  | o :: os => wfSec cv o && !secNameIn os o.name && wfSecs cv os
end

/-- a Property that holds values has a dtype (the `values` setter infers one) -/
def typedProp (p : PropT V) : Bool := p.values.isEmpty || p.dtype.isSome

mutual
/-- every Property of the tree that holds values has a dtype -/
def typedSec : Sec V → Bool
  | .mk _ props secs => props.all typedProp && typedSecs secs
def typedSecs : List (Sec V) → Bool
  | [] => true
  | o :: os => typedSec o && typedSecs os
end

/-! ## "A conflict anywhere in the two trees" (vocabulary of the property statement) -/

/-- some Property of the source conflicts with the destination Property of the same name -/
def propsConflict (dprops : List (PropT V)) : List (PropT V) → Bool
  | [] => false
  | o :: os =>
    (match findProp dprops o.name with
     | some mine => propConflict mine o
     | none => false) || propsConflict dprops os

mutual
/-- a strict-mode conflict (dtype, unit, uncertainty, definition, reference, value origin of
    Properties; definition, reference of Sections) between corresponding objects anywhere in
    the two trees; corresponding = same name (and type, for Sections) under corresponding parents -/
def treeConflict : Sec V → Sec V → Bool
  | d, .mk sa sprops ssecs =>
    secConflict d.attrs sa || propsConflict d.props sprops || secsConflict d.secs ssecs
def secsConflict (dsecs : List (Sec V)) : List (Sec V) → Bool
  | [] => false
  | o :: os =>
    (match findSec dsecs o.name o.type with
     | some mine => treeConflict mine o
     | none => false) || secsConflict dsecs os
end

/-! ## "dest has for every child of src a child of the same name (and type), recursively" -/

mutual
/-- `Covers r s`: every Property of `s` has a Property of the same name in `r`, every
    sub-Section of `s` has a sub-Section of the same name and type in `r` (the one `contains`
    finds) which covers it in turn -/
def Covers : Sec V → Sec V → Prop
  | r, .mk _ sprops ssecs =>
    (∀ p ∈ sprops, propNameIn r.props p.name = true) ∧ CoversList r.secs ssecs
def CoversList (rs : List (Sec V)) : List (Sec V) → Prop
  | [] => True
  | o :: os => (∃ c, findSec rs o.name o.type = some c ∧ Covers c o) ∧ CoversList rs os
end

/-! ## Concrete values (driver instance; validated against `odml.dtypes` by the `conv` stream) -/

/-- Tagged Python values: `str`, `int`, `float` (half-integers only: `flt h` is `h/2`), `bool`,
    and `datetime.date / time / datetime` objects named by their canonical text. -/
inductive Val
  | str (s : Str) | int (i : Int) | flt (h : Int) | bool (b : Bool)
  | date (s : Str) | time (s : Str) | dtime (s : Str)
  deriving DecidableEq, Repr

def boolInt (b : Bool) : Int := if b then 1 else 0

/-- numeric value, in halves, of the values Python compares numerically (`True == 1 == 1.0`) -/
def Val.halves : Val → Option Int
  | .int i => some (2 * i)
  | .flt h => some h
  | .bool b => some (2 * boolInt b)
  | _ => none

/-- Python `a == b` -/
def eqC (a b : Val) : Bool :=
  match a.halves, b.halves with
  | some x, some y => x == y
  | none, none => a == b
  | _, _ => false

/-- `str(float)` for a half-integer -/
def fltStr (h : Int) : Str :=
  let n := h.natAbs
  let body := natToDigits (n / 2) ++ (if n % 2 == 0 then ".0".toList else ".5".toList)
  if h < 0 then '-' :: body else body

/-- decimal texts `[-]digits[.0|.5]` → value in halves (what `int()` / `float()` accept from
    the generator's pool) -/
def parseNum (s : Str) : Option Int :=
  let (neg, body) := match s with
    | '-' :: r => (true, r)
    | r => (false, r)
  let (ip, fp) := match splitOn '.' body with
    | [a] => (a, some 0)
    | [a, ['0']] => (a, some 0)
    | [a, ['5']] => (a, some 1)
    | _ => ([], none)
  match fp with
  | none => none
  | some f =>
    if isDigitStr ip then
      let h : Int := Int.ofNat (2 * natOfDigits ip + f)
      some (if neg then -h else h)
    else none

def num2 (a b : Char) : Option Nat :=
  if a.isDigit && b.isDigit then some ((a.toNat - 48) * 10 + (b.toNat - 48)) else none

/-- `YYYY-MM-DD`, month 01-12, day 01-28 -/
def isDateText : Str → Bool
  | [y1, y2, y3, y4, '-', m1, m2, '-', d1, d2] =>
    y1.isDigit && y2.isDigit && y3.isDigit && y4.isDigit && !(y1 == '0') &&
    (match num2 m1 m2 with | some m => 1 ≤ m && m ≤ 12 | none => false) &&
    (match num2 d1 d2 with | some d => 1 ≤ d && d ≤ 28 | none => false)
  | _ => false

/-- `HH:MM:SS` -/
def isTimeText : Str → Bool
  | [h1, h2, ':', m1, m2, ':', s1, s2] =>
    (match num2 h1 h2 with | some h => h ≤ 23 | none => false) &&
    (match num2 m1 m2 with | some m => m ≤ 59 | none => false) &&
    (match num2 s1 s2 with | some x => x ≤ 59 | none => false)
  | _ => false

def isDateTimeText (s : Str) : Bool :=
  s.length == 19 && isDateText (s.take 10) && s.getD 10 'x' == ' ' && isTimeText (s.drop 11)

/-- `str(v)` -/
def strOf : Val → Str
  | .str s => s
  | .int i => intToStr i
  | .flt h => fltStr h
  | .bool b => if b then "True".toList else "False".toList
  | .date s => s
  | .time s => s
  | .dtime s => s

/-- `dtypes.get(v, dtype)` on the tagged values -/
def getC (dt : Option DType) (v : Val) : Option Val :=
  match dt with
  | none | some .string | some .text | some .url | some .person => some (.str (strOf v))
  | some .int =>
    match v with
    | .int i => some (.int i)
    | .bool b => some (.int (boolInt b))
    | .flt h => some (.int (h.tdiv 2))
    | .str s => (parseNum s).map (fun h => .int (h.tdiv 2))
    | _ => none
  | some .float =>
    match v with
    | .int i => some (.flt (2 * i))
    | .bool b => some (.flt (2 * boolInt b))
    | .flt h => some (.flt h)
    | .str s => (parseNum s).map .flt
    | _ => none
  | some .boolean =>
    match v with
    | .str s =>
      let l := lower s
      if l == "true".toList || l == "1".toList || l == "t".toList then some (.bool true)
      else if l == "false".toList || l == "0".toList || l == "f".toList then some (.bool false)
      else none
    | w =>
      match w.halves with
      | some 2 => some (.bool true)
      | some 0 => some (.bool false)
      | _ => none
  | some .date =>
    match v with
    | .date s => some (.date s)
    | .str s => if isDateText s then some (.date s) else none
    | _ => none
  | some .time =>
    match v with
    | .time s => some (.time s)
    | .str s => if isTimeText s then some (.time s) else none
    | _ => none
  | some .datetime =>
    match v with
    | .dtime s => some (.dtime s)
    | .str s => if isDateTimeText s then some (.dtime s) else none
    | _ => none

/-- `dtypes.infer_dtype(v)` -/
def inferC : Val → DType
  | .str s => if s.contains '\n' then .text else .string
  | .int _ => .int
  | .flt _ => .float
  | .bool _ => .boolean
  | .date _ => .date
  | .time _ => .time
  | .dtime _ => .datetime

def convC : Conv Val := { get := getC, infer := inferC, eq := eqC }

end Merge
