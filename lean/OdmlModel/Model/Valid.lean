/-
M-Valid: the validation framework of odml/validation.py.

  odml/validation.py   Validation.run_validation / validate (the walk), every default rule,
                       ValidationError ranks, IssueID
  odml/dtypes.py       get / infer_dtype and the *_get converters, as far as the rule
                       `property_values_check` can tell their outcomes apart (raises / does not)
  odml/base.py         SmartList.__getitem__ by name (first match), Sectionable.itersections

A document is a pure tree (`Doc` / `Sec` / `Prp`); objects are addressed by `Ref` (the path of
child indices from the validated root).  A validation is a list of *visits* (object + the
context a rule can reach from it) and, per visit, the handlers registered for the object's
class.  The registry is a parameter (`runWith`); the default registry is read from the
regenerated table `Gen.Validation.handlers`.

Deviations that are not observable through the issue *multiset* (the only thing the property
and the correspondence look at): sections are visited depth-first here, breadth-first in
`itersections`; `object_unique_names` first compares `len(set(keys))` with `len(children)`
and returns early when there is no duplicate (the loop would report nothing in that case).

No Mathlib.  Every definition follows the Python statement order.
-/
import OdmlModel.Py.Str
import OdmlModel.Model.Card
import OdmlModel.Generated.ValidationTables
import OdmlModel.Generated.FormatTables

namespace Valid
open Py

abbrev Str := List Char

/-! ## Stored values, as far as the rules can tell them apart -/

/-- A Python `float`: the rules only look at `== 0`, `== 1`, finiteness. -/
inductive FloatK where
  | zero | one | finite | inf | nan
  deriving DecidableEq, Repr

/-- One element of `Property.values` (the Python type decides which converter accepts it). -/
inductive Val where
  | none
  | int (i : Int)
  | float (k : FloatK)
  | bool (b : Bool)
  | str (s : Str)
  | date | time | datetime           -- `datetime.date` / `.time` / `.datetime` instances
  | list (n : Nat)                   -- a list (odML tuple value) of length n
  deriving DecidableEq, Repr

/-! ### The pieces of Python's `int()`, `float()`, `strptime` the converters rely on
    (ASCII digits, no `_` digit separators: see design.d/C08.md, "assumed") -/

def dropSign : Str → Str
  | '+' :: r => r
  | '-' :: r => r
  | r => r

/-- The whitespace `int()` / `float()` skip around an ASCII `str` (C `Py_ISSPACE`: TAB..CR and the
    space).  Unlike `str.strip()` they do not skip the separators U+001C..U+001F:
    `"1\x1f".strip() == "1"`, but `int("1\x1f")` and `float("1\x1f")` raise `ValueError`. -/
def isCSpace (c : Char) : Bool :=
  let n := c.toNat
  (9 ≤ n && n ≤ 13) || n == 32

def stripC (s : Str) : Str := ((s.dropWhile isCSpace).reverse.dropWhile isCSpace).reverse

/-- `int(s)` on a `str`: surrounding whitespace, one optional sign, decimal digits. -/
def pyIntParse (s : Str) : Option Int :=
  let t := stripC s
  let body := dropSign t
  if isDigitStr body then
    some (match t with
          | '-' :: _ => - (natOfDigits body : Int)
          | _ => (natOfDigits body : Int))
  else none

inductive FParse where
  | bad | finite | inf | nan
  deriving DecidableEq, Repr

def takeDigits (s : Str) : Str × Str := (s.takeWhile Char.isDigit, s.dropWhile Char.isDigit)

/-- `float(s)` on a `str`: does it parse, and to which kind of float.
    (Decimal exponents are assumed small enough not to overflow to `inf`.) -/
def pyFloatParse (s : Str) : FParse :=
  let t := lower (dropSign (stripC s))
  if t == ['i', 'n', 'f'] || t == ['i', 'n', 'f', 'i', 'n', 'i', 't', 'y'] then .inf
  else if t == ['n', 'a', 'n'] then .nan
  else
    let ip := takeDigits t
    let fp := match ip.2 with
      | '.' :: r => takeDigits r
      | r => ([], r)
    if ip.1.isEmpty && fp.1.isEmpty then .bad
    else match fp.2 with
      | [] => .finite
      | 'e' :: r => if isDigitStr (dropSign r) then .finite else .bad
      | _ => .bad

/-- A run of digits as a `strptime` field: one digit (`one` tells whether `0` is allowed) or
    two digits with value in `[lo, hi]`. -/
def field2 (zeroOk : Bool) (lo hi : Nat) (r : Str) : Option Nat :=
  match r with
  | [c] => if c.isDigit && (zeroOk || c != '0') then some (c.toNat - 48) else none
  | [a, b] =>
    if a.isDigit && b.isDigit then
      let n := natOfDigits [a, b]
      if lo ≤ n && n ≤ hi then some n else none
    else none
  | _ => none

def isLeap (y : Nat) : Bool := (y % 4 == 0 && y % 100 != 0) || y % 400 == 0

def daysIn (y m : Nat) : Nat :=
  if m == 2 then (if isLeap y then 29 else 28)
  else if m == 4 || m == 6 || m == 9 || m == 11 then 30 else 31

/-- `%Y-%m-%d` at the start of `s`: whether the date is a real one, and the unconsumed rest. -/
def parseDatePart (s : Str) : Option (Bool × Str) :=
  let y := takeDigits s
  if y.1.length != 4 then none else
  match y.2 with
  | '-' :: r1 =>
    let m := takeDigits r1
    match field2 false 1 12 m.1, m.2 with
    | some mm, '-' :: r2 =>
      let yy := natOfDigits y.1
      match r2 with
      | ' ' :: c :: rest =>           -- the `" [1-9]"` alternative of `%d`
        if c.isDigit && c != '0' then some (decide (1 ≤ yy), rest) else none
      | _ =>
        let d := takeDigits r2
        match field2 false 1 31 d.1 with
        | some dd => some (decide (1 ≤ yy) && decide (dd ≤ daysIn yy mm), d.2)
        | none => none
    | _, _ => none
  | _ => none

/-- `%H:%M:%S` matching all of `s` (seconds 60/61 pass the regex but not `datetime()`). -/
def timeStrOk (s : Str) : Bool :=
  let h := takeDigits s
  match field2 true 0 23 h.1, h.2 with
  | some _, ':' :: r1 =>
    let m := takeDigits r1
    match field2 true 0 59 m.1, m.2 with
    | some _, ':' :: r2 =>
      let sec := takeDigits r2
      (field2 true 0 59 sec.1).isSome && sec.2.isEmpty
    | _, _ => false
  | _, _ => false

def dateStrOk (s : Str) : Bool :=
  match parseDatePart s with
  | some (ok, rest) => ok && rest.isEmpty
  | none => false

/-- `%Y-%m-%d %H:%M:%S`: the blank of the format is `\s+`. -/
def datetimeStrOk (s : Str) : Bool :=
  match parseDatePart s with
  | some (ok, rest) =>
    let r := lstrip rest
    ok && decide (r.length < rest.length) && timeStrOk r
  | none => false

/-! ### odml/dtypes.py -/

/-- `dtypes.infer_dtype(value)` -/
def inferDtype : Val → Str
  | .none => ['s', 't', 'r', 'i', 'n', 'g']
  | .int _ => ['i', 'n', 't']
  | .float _ => ['f', 'l', 'o', 'a', 't']
  | .bool _ => ['b', 'o', 'o', 'l', 'e', 'a', 'n']
  | .str s => if s.contains '\n' then ['t', 'e', 'x', 't'] else ['s', 't', 'r', 'i', 'n', 'g']
  | .date => ['d', 'a', 't', 'e']
  | .time => ['t', 'i', 'm', 'e']
  | .datetime => ['d', 'a', 't', 'e', 't', 'i', 'm', 'e']
  | .list _ => ['s', 't', 'r', 'i', 'n', 'g']

def boolWords : List Str :=
  [['t', 'r', 'u', 'e'], ['1'], ['t'], ['f', 'a', 'l', 's', 'e'], ['0'], ['f']]

/-- `dtypes.get(val, dtype)` for a non-empty `dtype` that does not end in `-tuple`:
    `true` iff the call returns, `false` iff it raises (anything). -/
def getOk (dtype : Str) (v : Val) : Bool :=
  if dtype == ['i', 'n', 't'] then
    match v with
    | .none => true
    | .int _ | .bool _ => true
    | .float k => k != .inf && k != .nan
    | .str s => s.isEmpty || (pyIntParse s).isSome || pyFloatParse s == .finite
    | _ => false
  else if dtype == ['f', 'l', 'o', 'a', 't'] then
    match v with
    | .none | .int _ | .bool _ | .float _ => true
    | .str s => s.isEmpty || pyFloatParse s != .bad
    | _ => false
  else if dtype == ['b', 'o', 'o', 'l', 'e', 'a', 'n'] || dtype == ['b', 'o', 'o', 'l'] then
    match v with
    | .none | .bool _ => true
    | .int i => i == 0 || i == 1
    | .float k => k == .zero || k == .one
    | .str s => s.isEmpty || boolWords.contains (lower s)
    | .list n => n == 0
    | _ => false
  else if dtype == ['d', 'a', 't', 'e'] then
    match v with
    | .none | .date => true
    | .str s => s.isEmpty || dateStrOk s
    | _ => false                      -- a `datetime` is a `date`, but its isoformat has a time part
  else if dtype == ['t', 'i', 'm', 'e'] then
    match v with
    | .none | .time => true
    | .str s => s.isEmpty || timeStrOk s
    | _ => false
  else if dtype == ['d', 'a', 't', 'e', 't', 'i', 'm', 'e'] then
    match v with
    | .none | .datetime => true
    | .str s => s.isEmpty || datetimeStrOk s
    | _ => false
  else if dtype == ['t', 'u', 'p', 'l', 'e'] then   -- `tuple_get(string)` without a count
    match v with
    | .none => true
    | .int i => i == 0
    | .float k => k == .zero
    | .bool b => !b
    | .list n => n == 0
    | .str s =>
      s.isEmpty ||
        (let t := strip s
         t.head? == some '(' && t.getLast? == some ')')
    | _ => false
  else true                               -- `str_get` (string, text, url, person, str, ...)

/-! ## The document tree -/

structure Prp where
  id : Str
  name : Str
  dtype : Option Str
  values : List Val
  dependency : Option Str
  depValue : Option Str
  valCard : Card.Card
  deriving Repr

inductive Sec where
  | mk (id name : Str) (type : Option Str) (secCard propCard : Card.Card)
       (props : List Prp) (subs : List Sec)

namespace Sec
def id : Sec → Str | .mk i _ _ _ _ _ _ => i
def name : Sec → Str | .mk _ n _ _ _ _ _ => n
def type : Sec → Option Str | .mk _ _ t _ _ _ _ => t
def secCard : Sec → Card.Card | .mk _ _ _ c _ _ _ => c
def propCard : Sec → Card.Card | .mk _ _ _ _ c _ _ => c
def props : Sec → List Prp | .mk _ _ _ _ _ p _ => p
def subs : Sec → List Sec | .mk _ _ _ _ _ _ s => s
end Sec

structure Doc where
  id : Str
  secs : List Sec

/-- What `Validation(obj)` can be handed. -/
inductive Node where
  | doc (d : Doc)
  | sec (s : Sec)
  | prop (p : Prp)

/-- An object of the validated tree: the path of child-Section indices from the root, and for a
    Property its index in the `properties` list of the Section at that path.
    The validated root is `doc`, `sec []` or `prop [] 0`. -/
inductive Ref where
  | doc
  | sec (path : List Nat)
  | prop (path : List Nat) (i : Nat)
  deriving DecidableEq, Repr

/-! ### Addressing (the vocabulary of the specifications) -/

/-- The Section reached from `s` by the child indices `p`. -/
def Sec.secAt : Sec → List Nat → Option Sec
  | s, [] => some s
  | s, i :: p =>
    match s.subs[i]? with
    | some t => t.secAt p
    | none => none

def Node.secAt : Node → List Nat → Option Sec
  | .doc _, [] => none
  | .doc d, i :: p =>
    match d.secs[i]? with
    | some t => t.secAt p
    | none => none
  | .sec s, p => s.secAt p
  | .prop _, _ => none

/-- The child Sections of the container at path `p` (the Document itself for `[]`). -/
def Node.childSecs : Node → List Nat → Option (List Sec)
  | .doc d, [] => some d.secs
  | n, p => (n.secAt p).map Sec.subs

/-- The Properties of the Section at path `p`. -/
def Node.propsAt (n : Node) (p : List Nat) : Option (List Prp) := (n.secAt p).map Sec.props

/-! ## Issues -/

inductive Rank where
  | error | warning
  deriving DecidableEq, Repr

def Rank.label : Rank → String
  | .error => "error"
  | .warning => "warning"

/-- The members of `IssueID` the default rules use. -/
inductive IssueId where
  | objectRequiredAttributes
  | sectionTypeMustBeDefined
  | sectionUniqueIds
  | propertyUniqueIds
  | sectionUniqueNameType
  | propertyUniqueName
  | objectNameReadable
  | propertyDependencyCheck
  | propertyValuesCheck
  | propertyValuesStringCheck
  | sectionPropertiesCardinality
  | sectionSectionsCardinality
  | propertyValuesCardinality
  | custom
  deriving DecidableEq, Repr

def IssueId.name : IssueId → String
  | .objectRequiredAttributes => "object_required_attributes"
  | .sectionTypeMustBeDefined => "section_type_must_be_defined"
  | .sectionUniqueIds => "section_unique_ids"
  | .propertyUniqueIds => "property_unique_ids"
  | .sectionUniqueNameType => "section_unique_name_type"
  | .propertyUniqueName => "property_unique_name"
  | .objectNameReadable => "object_name_readable"
  | .propertyDependencyCheck => "property_dependency_check"
  | .propertyValuesCheck => "property_values_check"
  | .propertyValuesStringCheck => "property_values_string_check"
  | .sectionPropertiesCardinality => "section_properties_cardinality"
  | .sectionSectionsCardinality => "section_sections_cardinality"
  | .propertyValuesCardinality => "property_values_cardinality"
  | .custom => "custom_validation"

def IssueId.code : IssueId → Nat
  | .objectRequiredAttributes => 101
  | .sectionTypeMustBeDefined => 102
  | .sectionUniqueIds => 200
  | .propertyUniqueIds => 201
  | .sectionUniqueNameType => 202
  | .propertyUniqueName => 203
  | .objectNameReadable => 300
  | .propertyDependencyCheck => 401
  | .propertyValuesCheck => 402
  | .propertyValuesStringCheck => 403
  | .sectionPropertiesCardinality => 500
  | .sectionSectionsCardinality => 501
  | .propertyValuesCardinality => 502
  | .custom => 701

def IssueId.all : List IssueId :=
  [.objectRequiredAttributes, .sectionTypeMustBeDefined, .sectionUniqueIds, .propertyUniqueIds,
   .sectionUniqueNameType, .propertyUniqueName, .objectNameReadable, .propertyDependencyCheck,
   .propertyValuesCheck, .propertyValuesStringCheck, .sectionPropertiesCardinality,
   .sectionSectionsCardinality, .propertyValuesCardinality, .custom]

/-- `ValidationError(obj, msg, rank, validation_id)` without the message. -/
structure Issue where
  ref : Ref
  id : IssueId
  rank : Rank
  deriving DecidableEq, Repr

/-! ## Visits: which objects `run_validation` hands to `validate`, with their context -/

inductive Klass where
  | odML | section | property
  deriving DecidableEq, Repr

def Klass.name : Klass → String
  | .odML => "odML"
  | .section => "section"
  | .property => "property"

/-- A validated object together with what a rule can reach from it
    (a Property reaches its parent's `properties`). -/
inductive Obj where
  | doc (d : Doc)
  | sec (s : Sec)
  | prop (parentProps : Option (List Prp)) (p : Prp)

def Obj.klass : Obj → Klass
  | .doc _ => .odML
  | .sec _ => .section
  | .prop _ _ => .property

structure Visit where
  ref : Ref
  obj : Obj

/-- `for prop in sec.properties: self.validate(prop)` -/
def propVisits (path : List Nat) (all : List Prp) (i : Nat) : List Prp → List Visit
  | [] => []
  | p :: ps => ⟨.prop path i, .prop (some all) p⟩ :: propVisits path all (i + 1) ps

mutual
/-- `self.validate(sec)`, its Properties, then its sub-Sections. -/
def secVisits (path : List Nat) : Sec → List Visit
  | .mk i n t sc pc props subs =>
    ⟨.sec path, .sec (.mk i n t sc pc props subs)⟩ ::
      (propVisits path props 0 props ++ secsVisits path 0 subs)
def secsVisits (path : List Nat) (i : Nat) : List Sec → List Visit
  | [] => []
  | s :: ss => secVisits (path ++ [i]) s ++ secsVisits path (i + 1) ss
end

/-- `Validation.run_validation`: the root, then (unless it is a Property) every Section that
    `itersections(recursive=True)` yields — which never includes the root itself — each with
    its Properties.  A stand-alone root Section therefore gets its own Properties *not*
    validated. -/
def visits : Node → List Visit
  | .doc d => ⟨.doc, .doc d⟩ :: secsVisits [] 0 d.secs
  | .sec s => ⟨.sec [], .sec s⟩ :: secsVisits [] 0 s.subs
  | .prop p => [⟨.prop [] 0, .prop none p⟩]

/-! ## The default rules -/

/-- The rule functions registered by odml/validation.py (names = Python function names). -/
inductive Rule where
  | documentUniqueIds
  | objectNameReadable
  | objectRequiredAttributes
  | propertyDependencyCheck
  | propertyUniqueNames
  | propertyValuesCardinality
  | propertyValuesCheck
  | propertyValuesStringCheck
  | sectionPropertiesCardinality
  | sectionSectionsCardinality
  | sectionTypeMustBeDefined
  | sectionUniqueNameType
  deriving DecidableEq, Repr

def Rule.name : Rule → String
  | .documentUniqueIds => "document_unique_ids"
  | .objectNameReadable => "object_name_readable"
  | .objectRequiredAttributes => "object_required_attributes"
  | .propertyDependencyCheck => "property_dependency_check"
  | .propertyUniqueNames => "property_unique_names"
  | .propertyValuesCardinality => "property_values_cardinality"
  | .propertyValuesCheck => "property_values_check"
  | .propertyValuesStringCheck => "property_values_string_check"
  | .sectionPropertiesCardinality => "section_properties_cardinality"
  | .sectionSectionsCardinality => "section_sections_cardinality"
  | .sectionTypeMustBeDefined => "section_type_must_be_defined"
  | .sectionUniqueNameType => "section_unique_name_type"

def Rule.all : List Rule :=
  [.documentUniqueIds, .objectNameReadable, .objectRequiredAttributes, .propertyDependencyCheck,
   .propertyUniqueNames, .propertyValuesCardinality, .propertyValuesCheck,
   .propertyValuesStringCheck, .sectionPropertiesCardinality, .sectionSectionsCardinality,
   .sectionTypeMustBeDefined, .sectionUniqueNameType]

def Rule.ofName (s : String) : Option Rule := Rule.all.find? (fun r => r.name == s)

/-- Python truthiness of a `str`-or-`None` attribute. -/
def falsy : Option Str → Bool
  | none => true
  | some s => s.isEmpty

/-! ### object_required_attributes -/

/-- The required arguments (`arg[1] == 1`) of the format of the object's class, from the
    regenerated format tables. -/
def requiredArgs : Klass → List String
  | .odML => (Gen.Format.documentArgs.filter (·.2 == 1)).map (·.1)
  | .section => (Gen.Format.sectionArgs.filter (·.2 == 1)).map (·.1)
  | .property => (Gen.Format.propertyArgs.filter (·.2 == 1)).map (·.1)

/-- `not hasattr(obj, arg) or (not getattr(obj, arg) and not isinstance(.., bool))` for the
    attributes the model carries; an attribute the model does not know counts as missing. -/
def attrMissing : Obj → String → Bool
  | .sec s, "name" => s.name.isEmpty
  | .sec s, "type" => falsy s.type
  | .prop _ p, "name" => p.name.isEmpty
  | _, _ => true

def ruleRequired (v : Visit) : List Issue :=
  ((requiredArgs v.obj.klass).filter (attrMissing v.obj)).map
    (fun _ => ⟨v.ref, .objectRequiredAttributes, .error⟩)

/-! ### section_type_must_be_defined, object_name_readable -/

def ruleTypeDefined (v : Visit) : List Issue :=
  match v.obj with
  | .sec s => if s.type == some ['n', '.', 's', '.'] then [⟨v.ref, .sectionTypeMustBeDefined, .warning⟩] else []
  | _ => []

def ruleNameReadable (v : Visit) : List Issue :=
  match v.obj with
  | .sec s => if s.name == s.id then [⟨v.ref, .objectNameReadable, .warning⟩] else []
  | .prop _ p => if p.name == p.id then [⟨v.ref, .objectNameReadable, .warning⟩] else []
  | .doc _ => []

/-! ### duplicate detection: `id_map` / `names` scans -/

/-- One pass over labelled keys with a set of keys seen so far: an entry whose key was seen is
    reported, otherwise its key is recorded.  (`section_unique_ids`, `property_unique_ids`,
    and the loop of `object_unique_names`, where `names.add` of a present key changes nothing.) -/
def scanM {R K : Type} [BEq K] (seen : List K) : List (R × K) → List R × List K
  | [] => ([], seen)
  | (r, k) :: xs =>
    if seen.contains k then
      let rest := scanM seen xs
      (r :: rest.1, rest.2)
    else scanM (k :: seen) xs

/-- labels `lab i x` for the elements of a child list, counted from `i`. -/
def labelled {α R K : Type} (lab : Nat → R) (key : α → K) (i : Nat) : List α → List (R × K)
  | [] => []
  | x :: xs => (lab i, key x) :: labelled lab key (i + 1) xs

/-- `section_unique_name_type`: children = `obj.sections`, key = `(name, type)`;
    the *child* is the reported object. -/
def ruleUniqueNameType (v : Visit) : List Issue :=
  let go (path : List Nat) (l : List Sec) : List Issue :=
    (scanM [] (labelled (fun i => Ref.sec (path ++ [i])) (fun s : Sec => (s.name, s.type)) 0 l)).1.map
      (fun r => ⟨r, .sectionUniqueNameType, .error⟩)
  match v.ref, v.obj with
  | .doc, .doc d => go [] d.secs
  | .sec path, .sec s => go path s.subs
  | _, _ => []

/-- `property_unique_names`: children = `obj.properties`, key = `name`. -/
def ruleUniquePropNames (v : Visit) : List Issue :=
  match v.ref, v.obj with
  | .sec path, .sec s =>
    (scanM [] (labelled (fun i => Ref.prop path i) (fun p : Prp => p.name) 0 s.props)).1.map
      (fun r => ⟨r, .propertyUniqueName, .error⟩)
  | _, _ => []

/-! ### document_unique_ids -/

/-- The order in which `section_unique_ids` meets the objects below a container: per Section
    first its Properties (`property_unique_ids`), then the Section itself, then its
    sub-Sections. -/
def propIdEntries (path : List Nat) (i : Nat) : List Prp → List (Ref × Str)
  | [] => []
  | p :: ps => (.prop path i, p.id) :: propIdEntries path (i + 1) ps

mutual
def secIdEntries (path : List Nat) : Sec → List (Ref × Str)
  | .mk i _ _ _ _ props subs =>
    propIdEntries path 0 props ++ ((.sec path, i) :: secsIdEntries path 0 subs)
def secsIdEntries (path : List Nat) (i : Nat) : List Sec → List (Ref × Str)
  | [] => []
  | s :: ss => secIdEntries (path ++ [i]) s ++ secsIdEntries path (i + 1) ss
end

/-- `property_unique_ids(section, id_map)` with the shared, non-empty `id_map`. -/
def propUniqueIds (path : List Nat) (seen : List Str) (i : Nat) : List Prp → List Ref × List Str
  | [] => ([], seen)
  | p :: ps =>
    if seen.contains p.id then
      let rest := propUniqueIds path seen (i + 1) ps
      (.prop path i :: rest.1, rest.2)
    else propUniqueIds path (p.id :: seen) (i + 1) ps

mutual
/-- The body of the loop of `section_unique_ids` for one `sec`. -/
def secUniqueIds (path : List Nat) (seen : List Str) : Sec → List Ref × List Str
  | .mk i _ _ _ _ props subs =>
    let a := propUniqueIds path seen 0 props
    if a.2.contains i then
      let c := secsUniqueIds path a.2 0 subs
      (a.1 ++ (.sec path :: c.1), c.2)
    else
      let c := secsUniqueIds path (i :: a.2) 0 subs
      (a.1 ++ c.1, c.2)
/-- `section_unique_ids(parent, id_map)`: `for sec in parent.sections`. -/
def secsUniqueIds (path : List Nat) (seen : List Str) (i : Nat) : List Sec → List Ref × List Str
  | [] => ([], seen)
  | s :: ss =>
    let a := secUniqueIds (path ++ [i]) seen s
    let b := secsUniqueIds path a.2 (i + 1) ss
    (a.1 ++ b.1, b.2)
end

def idIssue : Ref → Issue
  | .prop path i => ⟨.prop path i, .propertyUniqueIds, .error⟩
  | r => ⟨r, .sectionUniqueIds, .error⟩

/-- `document_unique_ids`: `id_map = {doc.id: ...}` then `section_unique_ids(doc, id_map)`.
    Both helpers build `ValidationError` without a rank: the default, `LABEL_ERROR`. -/
def ruleDocumentUniqueIds (v : Visit) : List Issue :=
  match v.obj with
  | .doc d => (secsUniqueIds [] [d.id] 0 d.secs).1.map idIssue
  | _ => []

/-! ### property_dependency_check -/

/-- `SmartList.__getitem__(name)`: the first element with that name. -/
def findProp (l : List Prp) (name : Str) : Option Prp := l.find? (fun q => q.name == name)

def ruleDependency (v : Visit) : List Issue :=
  match v.obj with
  | .prop (some siblings) p =>
    match p.dependency with
    | none => []
    | some dep =>
      match findProp siblings dep with
      | none => [⟨v.ref, .propertyDependencyCheck, .warning⟩]
      | some q =>
        match p.depValue with
        | none => []
        | some dv =>
          if q.values.contains (.str dv) then [] else [⟨v.ref, .propertyDependencyCheck, .warning⟩]
  | _ => []

/-! ### property_values_check -/

/-- The dtype the values are checked against: the Property's, or inferred from the first value. -/
def effDtype (p : Prp) : Option Str :=
  let inferred := match p.values with
    | v :: _ => some (inferDtype v)
    | [] => none
  match p.dtype with
  | some d => if d != [] then some d else inferred
  | none => inferred

def tupleSuffix : Str := ['-', 't', 'u', 'p', 'l', 'e']

def isTupleDtype (d : Str) : Bool := tupleSuffix.isSuffixOf d

/-- `len(val) if hasattr(val, "__len__") else None` -/
def valLen : Val → Option Nat
  | .str s => some s.length
  | .list n => some n
  | _ => none

/-- The loop over the values: `none` = an exception leaves the rule (`int(dtype[:-6])` on a
    malformed tuple dtype), `some k` = `k` warnings. -/
def valuesLoop (d : Str) : List Val → Option Nat
  | [] => some 0
  | .none :: _ => some 0
  | v :: vs =>
    if isTupleDtype d then
      match pyIntParse (d.take (d.length - 6)) with
      | none => none
      | some n =>
        (valuesLoop d vs).map (· + (if (valLen v).map Int.ofNat == some n then 0 else 1))
    else (valuesLoop d vs).map (· + (if getOk d v then 0 else 1))

def valuesCheckCount (p : Prp) : Option Nat :=
  match effDtype p with
  | none => some 0
  | some d => valuesLoop d p.values

def ruleValuesCheck (v : Visit) : List Issue :=
  match v.obj with
  | .prop _ p => List.replicate ((valuesCheckCount p).getD 0) ⟨v.ref, .propertyValuesCheck, .warning⟩
  | _ => []

/-! ### property_values_string_check -/

inductive StrClass where
  | string | int | date | datetime | time | float | tuple (semis : Nat) | boolean | text
  deriving DecidableEq, Repr

/-- `\d{lo,hi}` followed by something that is not a digit: the run of digits at the start. -/
def digitRun (lo hi : Nat) (s : Str) : Option Str :=
  let d := takeDigits s
  if lo ≤ d.1.length && d.1.length ≤ hi then some d.2 else none

/-- `\d{2}:\d{2}(:\d{2})?$` -/
def reTime (s : Str) : Bool :=
  match digitRun 2 2 s with
  | some (':' :: r) =>
    match digitRun 2 2 r with
    | some [] => true
    | some (':' :: r2) => digitRun 2 2 r2 == some []
    | _ => false
  | _ => false

/-- `\d{2,4}-\d{1,2}-\d{1,2}` at the start; the rest. -/
def reDatePrefix (s : Str) : Option Str :=
  match digitRun 2 4 s with
  | some ('-' :: r) =>
    match digitRun 1 2 r with
    | some ('-' :: r2) => digitRun 1 2 r2
    | _ => none
  | _ => none

def dropMinus : Str → Str
  | '-' :: r => dropMinus r
  | r => r

/-- `(-+)?\d+$` -/
def reInt (s : Str) : Bool := isDigitStr (dropMinus s)

/-- `(-+)?\d+\.\d+$` -/
def reFloat (s : Str) : Bool :=
  let d := takeDigits (dropMinus s)
  !d.1.isEmpty && (match d.2 with
    | '.' :: r => isDigitStr r
    | _ => false)

/-- `^\((.*?)\)`: an opening bracket, and a closing one before the next line break. -/
def reTuple (s : Str) : Bool :=
  match s with
  | '(' :: r => (r.takeWhile (· != '\n')).contains ')'
  | _ => false

/-- `^TRUE|FALSE|True|False|t|f+$` under `re.match` -/
def reBool (s : Str) : Bool :=
  ['T', 'R', 'U', 'E'].isPrefixOf s || ['F', 'A', 'L', 'S', 'E'].isPrefixOf s || ['T', 'r', 'u', 'e'].isPrefixOf s ||
  ['F', 'a', 'l', 's', 'e'].isPrefixOf s || ['t'].isPrefixOf s || (!s.isEmpty && s.all (· == 'f'))

/-- The dtype guessed for one string value (first matching entry of `dtype_checks`). -/
def strClass (val : Str) : StrClass :=
  let t := strip val
  if reInt t then .int
  else if reDatePrefix t == some [] then .date
  else if (match reDatePrefix t with
           | some (' ' :: r) => reTime r
           | _ => false) then .datetime
  else if reTime t then .time
  else if reFloat t then .float
  else if reTuple t then .tuple (val.count ';')
  else if reBool t then .boolean
  else if t.contains '\r' || t.contains '\n' then .text
  else .string

/-- The loop `for val in prop.values`: `none` = left the rule at a value that is not a string. -/
def strClasses : List Val → Option (List StrClass)
  | [] => some []
  | .str s :: vs => (strClasses vs).map (strClass s :: ·)
  | _ :: _ => none

def stringCheckFires (p : Prp) : Bool :=
  p.dtype == some ['s', 't', 'r', 'i', 'n', 'g'] &&
    (match p.values, strClasses p.values with
     | _ :: _, some (c :: cs) => cs.all (· == c) && c != .string
     | _, _ => false)

def ruleValuesStringCheck (v : Visit) : List Issue :=
  match v.obj with
  | .prop _ p => if stringCheckFires p then [⟨v.ref, .propertyValuesStringCheck, .warning⟩] else []
  | _ => []

/-! ### the three cardinality rules (`_cardinality_validation` is `Card.cardIssue`) -/

def cardRule (ref : Ref) (id : IssueId) (c : Card.Card) (n : Nat) : List Issue :=
  match Card.cardIssue c n with
  | some _ => [⟨ref, id, .warning⟩]
  | none => []

def rulePropsCard (v : Visit) : List Issue :=
  match v.obj with
  | .sec s => cardRule v.ref .sectionPropertiesCardinality s.propCard s.props.length
  | _ => []

def ruleSecsCard (v : Visit) : List Issue :=
  match v.obj with
  | .sec s => cardRule v.ref .sectionSectionsCardinality s.secCard s.subs.length
  | _ => []

def ruleValsCard (v : Visit) : List Issue :=
  match v.obj with
  | .prop _ p => cardRule v.ref .propertyValuesCardinality p.valCard p.values.length
  | _ => []

/-! ## Running a validation -/

/-- The issues a rule yields for a visited object (`[]` where it raises: see `ruleCrashes`). -/
def applyRule : Rule → Visit → List Issue
  | .documentUniqueIds => ruleDocumentUniqueIds
  | .objectNameReadable => ruleNameReadable
  | .objectRequiredAttributes => ruleRequired
  | .propertyDependencyCheck => ruleDependency
  | .propertyUniqueNames => ruleUniquePropNames
  | .propertyValuesCardinality => ruleValsCard
  | .propertyValuesCheck => ruleValuesCheck
  | .propertyValuesStringCheck => ruleValuesStringCheck
  | .sectionPropertiesCardinality => rulePropsCard
  | .sectionSectionsCardinality => ruleSecsCard
  | .sectionTypeMustBeDefined => ruleTypeDefined
  | .sectionUniqueNameType => ruleUniqueNameType

/-- Where a default rule raises instead of returning (the exception leaves `Validation(obj)`). -/
def ruleCrashes : Rule → Visit → Bool
  | .propertyValuesCheck, ⟨_, .prop _ p⟩ => (valuesCheckCount p).isNone
  | _, _ => false

inductive Result where
  | ok (issues : List Issue)
  | crash
  deriving DecidableEq, Repr

/-- `Validation(obj)` for an arbitrary handler collection: for every visited object, every
    handler registered for its class (in the order given: Python iterates a `set`). -/
def issuesWith {ρ : Type} (apply : ρ → Visit → List Issue) (reg : Klass → List ρ) (n : Node) :
    List Issue :=
  (visits n).flatMap fun v => (reg v.obj.klass).flatMap fun r => apply r v

def crashesWith {ρ : Type} (crashes : ρ → Visit → Bool) (reg : Klass → List ρ) (n : Node) : Bool :=
  (visits n).any fun v => (reg v.obj.klass).any fun r => crashes r v

def runWith {ρ : Type} (apply : ρ → Visit → List Issue) (crashes : ρ → Visit → Bool)
    (reg : Klass → List ρ) (n : Node) : Result :=
  if crashesWith crashes reg n then .crash else .ok (issuesWith apply reg n)

/-- `Validation._handlers` as the source registers it (regenerated table), read as rules.
    `registry_modelled` (Props/C08) shows no registered name is lost here. -/
def defaultReg (k : Klass) : List Rule :=
  ((Gen.Validation.handlers.lookup k.name).getD []).filterMap Rule.ofName

/-- `Validation(obj)` with the default registry. -/
def validate (n : Node) : Result := runWith applyRule ruleCrashes defaultReg n

/-- The issues of a default validation (the list the theorems talk about). -/
def issues (n : Node) : List Issue := issuesWith applyRule defaultReg n

/-- `ODMLWriter.write_file` refuses to write iff some issue `is_error`. -/
def blocksSave (d : Doc) : Bool := (issues (.doc d)).any (·.rank == .error)

end Valid
