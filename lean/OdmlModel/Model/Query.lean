/-
M-Query: searches over the exported RDF graph.

  odml/rdf/query_creator.py   QueryCreator._prepare_query (SPARQL text from a query dictionary;
                              here: the list of triple patterns of its basic graph pattern and
                              the list of its FILTERs on the variables ?d ?s ?p ?v)
  odml/rdf/fuzzy_finder.py    FuzzyFinder._generate_parameters_pairs(_fuzzy),
                              _generate_parameters_subsets / _subsets_util_dfs /
                              _check_duplicate_attrs, _prepare_query (grouping), _output_query_results
  rdflib                      SPARQL basic-graph-pattern matching with RDF term equality
                              (`evalBGP`, validated against `graph.query` by the harness)

The regex front ends (`QueryParser`, `QueryParserFuzzy`) are not modelled: the model starts from
the parsed query dictionary; the harness checks on every case that the string form of a query
and its dictionary form give the same answer.  No Mathlib.
-/
import OdmlModel.Model.Rdf

namespace Query
open Rdf

/-! ## Query dictionaries -/

inductive Kind where
  | doc | sec | prop
  deriving DecidableEq, Repr, Inhabited

/-- Position of the dictionary keys in Python's string order: "Doc" < "Prop" < "Sec". -/
def Kind.rank : Kind → Nat
  | .doc => 0
  | .prop => 1
  | .sec => 2

/-- One `(key, (attribute, value))` pair.  For the attribute `value` the searched values are the
    list `vals` (and `val` is unused). -/
structure Pair where
  kind : Kind
  attr : Str
  val : Str
  vals : List Str := []
  deriving DecidableEq, Repr, Inhabited

/-- Python `a <= b` on `str`: lexicographic by code point. -/
def strLe : Str → Str → Bool
  | [], _ => true
  | _ :: _, [] => false
  | a :: as, b :: bs =>
    if a.toNat < b.toNat then true
    else if b.toNat < a.toNat then false
    else strLe as bs

/-- Tuple comparison `('Sec', ('name', 'x')) <= …` used by `sorted(attrs)`. -/
def pairLe (a b : Pair) : Bool :=
  if a.kind.rank != b.kind.rank then a.kind.rank < b.kind.rank
  else if a.attr != b.attr then strLe a.attr b.attr
  else strLe a.val b.val

/-- Match-mode parameters `{'Doc': [(attr, value), …], 'Sec': […], 'Prop': […]}`. -/
structure QParams where
  doc : List Pair := []
  sec : List Pair := []
  prop : List Pair := []
  deriving Repr, Inhabited

/-- `_generate_parameters_pairs`: keys in the order Doc, Sec, Prop. -/
def matchPairs (q : QParams) : List Pair := q.doc ++ q.sec ++ q.prop

/-- Fuzzy-mode parameters `{'Doc': [attr, …], 'Sec': […], 'Prop': […], 'Search': [value, …]}`. -/
structure FParams where
  doc : List Str := []
  sec : List Str := []
  prop : List Str := []
  search : List Str := []
  deriving Repr, Inhabited

/-- `_generate_parameters_pairs_fuzzy`: every attribute with every search value. -/
def fuzzyPairs (f : FParams) : List Pair :=
  (f.doc.flatMap fun a => f.search.map fun v => ⟨.doc, a, v, []⟩) ++
  (f.sec.flatMap fun a => f.search.map fun v => ⟨.sec, a, v, []⟩) ++
  (f.prop.flatMap fun a => f.search.map fun v => ⟨.prop, a, v, []⟩)

/-- The match-mode dictionary that asks for the same pairs. -/
def fuzzyAsMatch (f : FParams) : QParams :=
  ⟨f.doc.flatMap fun a => f.search.map fun v => ⟨.doc, a, v, []⟩,
   f.sec.flatMap fun a => f.search.map fun v => ⟨.sec, a, v, []⟩,
   f.prop.flatMap fun a => f.search.map fun v => ⟨.prop, a, v, []⟩⟩

/-! ## Combinations -/

/-- `_check_duplicate_attrs` (after the `fix:` commit): no pair of the path has the same
    attribute of the same kind of object. -/
def noClash (path : List Pair) (x : Pair) : Bool :=
  path.all (fun i => !(x.kind == i.kind && x.attr == i.attr))

/-- `_subsets_util_dfs(index, path, …)` without the leading `res.append(path)`: the `for` loop
    over the remaining attributes; every recursive call first records its (non-empty) path. -/
def dfsLoop : List Pair → List Pair → List (List Pair)
  | [], _ => []
  | x :: rest, path =>
    (if noClash path x then (path ++ [x]) :: dfsLoop rest (path ++ [x]) else []) ++
    dfsLoop rest path

def lenGe (a b : List Pair) : Bool := b.length ≤ a.length

/-- `_generate_parameters_subsets`: DFS over `sorted(attrs)`, then a stable sort by length,
    longest first. -/
def subsets (pairs : List Pair) : List (List Pair) :=
  (dfsLoop (pairs.mergeSort pairLe) []).mergeSort lenGe

/-- `FuzzyFinder._prepare_query`: group the pairs of one combination by key. -/
def groupPairs (l : List Pair) : QParams :=
  ⟨l.filter (·.kind == .doc), l.filter (·.kind == .sec), l.filter (·.kind == .prop)⟩

/-! ## Triple patterns -/

inductive Var where
  | d | s | p | v
  deriving DecidableEq, Repr, Inhabited

/-- A position of a triple pattern.  `str s` stands for a helper variable `?t1, ?t2, …` that occurs
    at this one position only, together with its `FILTER (STR(?t) = "s")`: any term whose text is
    `s` (the helper variables are not part of the rows). -/
inductive PT where
  | var (x : Var)
  | const (t : Term)
  | str (s : Str)
  deriving DecidableEq, Repr, Inhabited

structure Pat where
  s : PT
  p : PT
  o : PT
  deriving DecidableEq, Repr, Inhabited

/-- SPARQL `STR(term)`: the IRI text, the lexical form of a literal whatever its datatype.  The
    fresh nodes of the writer are IRIs named by a uuid4 in the implementation; the model names them
    canonically and has no text for them (nobody can ask for that text). -/
def strOf : Term → Option Str
  | .iri s => some s
  | .lit l _ => some l
  | .seqn _ => none
  | .tnode _ => none

/-- `STRSTARTS(STR(p), str(RDF) + "_")`: a membership predicate `rdf:_1, rdf:_2, …` -/
def isMemberPred (p : Term) : Bool :=
  match strOf p with
  | some u => (stripPrefix liPrefix u).isSome
  | none => false

/-- The FILTERs `_prepare_query` puts on the variables of the rows.
    * `strEq x s`          `FILTER (STR(?x) = "s")`
    * `member x s`         `FILTER EXISTS { ?x ?t1 ?t2 . FILTER (STRSTARTS(STR(?t1), "…rdf-syntax-ns#_")
                                                              && STR(?t2) = "s") }`
    * `typedBy x pred s`   `FILTER EXISTS { ?x pred ?t1 . ?t1 rdf:type ?t2 . FILTER (STR(?t2) = "s") }` -/
inductive Flt where
  | strEq (x : Var) (s : Str)
  | member (x : Var) (s : Str)
  | typedBy (x : Var) (pred : Term) (s : Str)
  deriving DecidableEq, Repr, Inhabited

inductive QErr where
  | parse       -- rdflib refuses the SPARQL text (unknown attribute name)
  deriving DecidableEq, Repr

def tableOf : Kind → List (String × String)
  | .doc => Gen.Format.documentRdfMap
  | .sec => Gen.Format.sectionRdfMap
  | .prop => Gen.Format.propertyRdfMap

def varOf : Kind → Var
  | .doc => .d
  | .sec => .s
  | .prop => .p

def odmlIri (local_ : String) : Term := .iri (ns ++ local_.toList)
def rdfBag : Term := .iri (rdfNs ++ "Bag".toList)
def rdfLi : Term := .iri (rdfNs ++ "li".toList)

/-- How `_prepare_query` asks for an attribute of a kind of object (the `if` / `elif` chains of
    the three branches): the node itself (`id`), the terminology node (`repository`), an object
    compared by its text (`date`, `uncertainty`: typed literals in the export), or a plain string
    literal. -/
inductive Shape where
  | id | repo | text | plain
  deriving DecidableEq, Repr

def shapeOf (k : Kind) (a : Str) : Shape :=
  match k with
  | .doc => if a == "id".toList then .id else if a == "repository".toList then .repo
            else if a == "date".toList then .text else .plain
  | .sec => if a == "id".toList then .id else if a == "repository".toList then .repo else .plain
  | .prop => if a == "id".toList then .id else if a == "uncertainty".toList then .text else .plain

/-- The triple patterns of one `(attribute, value)` entry: `fmt.rdf_map(name)` is the predicate, or
    the name itself when it is no key of the map — which is then no valid SPARQL term (`parse`); an
    empty name is skipped (`if attr:`).  A plain attribute asks for a plain string literal, `date`
    and `uncertainty` for any object with that text; `id` and `repository` only add a FILTER
    (`attrFlt`); `value` asks for the value node, the members are FILTERs. -/
def attrPat (x : Pair) : Except QErr (List Pat) :=
  if x.kind == .prop && x.attr == "value".toList then
    if x.vals.isEmpty then .ok []
    else .ok [⟨.var .p, .const (odmlIri "hasValue"), .var .v⟩]
  else match (tableOf x.kind).lookup (String.ofList x.attr) with
    | some pred =>
      match shapeOf x.kind x.attr with
      | .id => .ok []
      | .repo => .ok []
      | .text => .ok [⟨.var (varOf x.kind), .const (.iri pred.toList), .str x.val⟩]
      | .plain => .ok [⟨.var (varOf x.kind), .const (.iri pred.toList), .const (.lit x.val [])⟩]
    | none => if x.attr.isEmpty then .ok [] else .error .parse

/-- The FILTERs of one entry: the node IRI for `id` (`odml namespace + id`), the type of the
    terminology node for `repository`, one member of the value node per searched value. -/
def attrFlt (x : Pair) : List Flt :=
  if x.kind == .prop && x.attr == "value".toList then x.vals.map fun v => .member .v v
  else match (tableOf x.kind).lookup (String.ofList x.attr) with
    | some pred =>
      match shapeOf x.kind x.attr with
      | .id => [.strEq (varOf x.kind) (ns ++ x.val)]
      | .repo => [.typedBy (varOf x.kind) (.iri pred.toList) x.val]
      | .text => []
      | .plain => []
    | none => []

def attrPats : List Pair → Except QErr (List Pat)
  | [] => .ok []
  | x :: r =>
    match attrPat x, attrPats r with
    | .ok a, .ok b => .ok (a ++ b)
    | .error e, _ => .error e
    | _, .error e => .error e

/-- `QueryCreator._prepare_query`: the basic graph pattern of the generated query. -/
def prepareQuery (q : QParams) : Except QErr (List Pat) :=
  match attrPats q.doc, attrPats q.sec, attrPats q.prop with
  | .ok dp, .ok sp, .ok pp =>
    .ok ((if q.doc.isEmpty then [] else
            ⟨.var .d, .const rdfType, .const (odmlIri "Document")⟩ :: dp) ++
         (if q.sec.isEmpty then [] else
            ⟨.var .d, .const (odmlIri "hasSection"), .var .s⟩ ::
            ⟨.var .s, .const rdfType, .const (odmlIri "Section")⟩ :: sp) ++
         (if q.prop.isEmpty then [] else
            ⟨.var .s, .const (odmlIri "hasProperty"), .var .p⟩ ::
            ⟨.var .p, .const rdfType, .const (odmlIri "Property")⟩ :: pp))
  | .error e, _, _ => .error e
  | _, .error e, _ => .error e
  | _, _, .error e => .error e

/-- The FILTERs of the generated query, in the order of the text.  (A FILTER restricts the
    solutions of the whole group, wherever it stands.) -/
def prepareFilters (q : QParams) : List Flt :=
  q.doc.flatMap attrFlt ++ q.sec.flatMap attrFlt ++ q.prop.flatMap attrFlt

/-! ## Basic graph pattern evaluation -/

/-- A solution mapping for the four variables the generated queries use. -/
structure Binding where
  d : Option Term := none
  s : Option Term := none
  p : Option Term := none
  v : Option Term := none
  deriving DecidableEq, Repr, Inhabited

def Binding.get (b : Binding) : Var → Option Term
  | .d => b.d
  | .s => b.s
  | .p => b.p
  | .v => b.v

def Binding.set (b : Binding) (x : Var) (t : Term) : Binding :=
  match x with
  | .d => { b with d := some t }
  | .s => { b with s := some t }
  | .p => { b with p := some t }
  | .v => { b with v := some t }

/-- Extend the binding so that the pattern term denotes `t` (RDF term equality). -/
def matchPT (b : Binding) (pt : PT) (t : Term) : Option Binding :=
  match pt with
  | .const c => if c = t then some b else none
  | .var x =>
    match b.get x with
    | some u => if u = t then some b else none
    | none => some (b.set x t)
  | .str s => if strOf t = some s then some b else none

def matchPat (b : Binding) (pat : Pat) (t : Triple) : Option Binding :=
  match matchPT b pat.s t.s with
  | none => none
  | some b1 =>
    match matchPT b1 pat.p t.p with
    | none => none
    | some b2 => matchPT b2 pat.o t.o

/-- Nested-loop evaluation of a basic graph pattern. -/
def evalBGP (g : Graph) : List Pat → List Binding → List Binding
  | [], bs => bs
  | pat :: rest, bs => evalBGP g rest (bs.flatMap fun b => g.filterMap (matchPat b pat))

def solutions (g : Graph) (pats : List Pat) : List Binding := evalBGP g pats [{}]

/-- Is the variable bound to the node (an unbound variable of an EXISTS group is free)? -/
def boundTo (b : Binding) (x : Var) (n : Term) : Bool :=
  match b.get x with
  | some u => u == n
  | none => true

/-- A FILTER holds for a solution (an error - `STR` of an unbound variable - counts as false). -/
def Flt.holds (g : Graph) (b : Binding) : Flt → Bool
  | .strEq x s =>
    match b.get x with
    | some t => strOf t == some s
    | none => false
  | .member x s => g.any fun t => boundTo b x t.s && isMemberPred t.p && strOf t.o == some s
  | .typedBy x pred s => g.any fun t => boundTo b x t.s && t.p == pred &&
      g.any fun u => u.s == t.o && u.p == rdfType && strOf u.o == some s

/-- The solutions of the group: basic graph pattern, then the FILTERs. -/
def filtered (g : Graph) (pats : List Pat) (fs : List Flt) : List Binding :=
  (solutions g pats).filter fun b => fs.all (Flt.holds g b)

/-! ## Direct evaluation on the documents -/

/-- The object carries the requested value for the attribute: its Python value, as text, is the
    searched string. -/
def carries (a : Attrs) (x : Pair) : Bool :=
  match a.lookup (String.ofList x.attr) with
  | some v => v.lex == x.val
  | none => false

def carriesAll (a : Attrs) (xs : List Pair) : Bool := xs.all (carries a)

/-- A Property carries the values `vals` when each of them is the text of one of its values. -/
def carriesValues (p : PropT) (x : Pair) : Bool :=
  x.vals.all fun v => p.values.any fun l => l.lex == v

def propCarriesAll (p : PropT) (xs : List Pair) : Bool :=
  xs.all fun x => if x.attr == "value".toList then carriesValues p x else carries p.attrs x

mutual
/-- Every Section below (and including) the given ones, with the node of its parent. -/
def secsWithParent (parent : Term) : SecT → List (Term × SecT)
  | .mk id a ps ss => (parent, .mk id a ps ss) :: secsWithParentL (node id) ss
def secsWithParentL (parent : Term) : List SecT → List (Term × SecT)
  | [] => []
  | s :: r => secsWithParent parent s ++ secsWithParentL parent r
end

def allSecsWithParent (ds : List DocT) : List (Term × SecT) :=
  ds.flatMap fun d => secsWithParentL (node d.id) d.secs

abbrev Row := Option Term × Option Term × Option Term

/-- `?d` is a Document that carries all requested Document pairs. -/
def partD (ds : List DocT) (q : QParams) (od : Option Term) : Bool :=
  q.doc.isEmpty || ds.any fun d => od == some (node d.id) && carriesAll d.attrs q.doc

/-- `?s` is a Section that carries all requested Section pairs and `?d` is what directly
    contains it. -/
def partS (ds : List DocT) (q : QParams) (od os : Option Term) : Bool :=
  q.sec.isEmpty || (allSecsWithParent ds).any fun ps =>
    od == some ps.1 && os == some (node ps.2.id) && carriesAll ps.2.attrs q.sec

/-- `?p` is a Property that carries all requested Property pairs and `?s` is the Section that
    directly contains it. -/
def partP (ds : List DocT) (q : QParams) (os op : Option Term) : Bool :=
  q.prop.isEmpty || (allSecsWithParent ds).any fun ps =>
    os == some (node ps.2.id) && ps.2.props.any fun p => op == some (node p.id) && propCarriesAll p q.prop

/-- A variable the query does not mention stays unbound. -/
def unboundOK (q : QParams) (od os op : Option Term) : Bool :=
  ((!q.doc.isEmpty || !q.sec.isEmpty) || od == none) &&
  ((!q.sec.isEmpty || !q.prop.isEmpty) || os == none) &&
  (!q.prop.isEmpty || op == none)

def rowOK (ds : List DocT) (q : QParams) (row : Row) : Bool :=
  partD ds q row.1 && partS ds q row.1 row.2.1 && partP ds q row.2.1 row.2.2 &&
    unboundOK q row.1 row.2.1 row.2.2

/-- All candidate rows: `?d` ranges over the Documents and over whatever holds a Section,
    `?s` over the Sections, `?p` over the Properties (each may also stay unbound). -/
def candidates (ds : List DocT) : List Row :=
  let w := allSecsWithParent ds
  let dcol : List (Option Term) := none :: (ds.map fun d => some (node d.id)) ++ w.map fun ps => some ps.1
  let scol : List (Option Term) := none :: w.map fun ps => some (node ps.2.id)
  let pcol : List (Option Term) := none :: w.flatMap fun ps => ps.2.props.map fun p => some (node p.id)
  dcol.flatMap fun d => scol.flatMap fun s => pcol.map fun p => (d, s, p)

/-- Rows `(?d, ?s, ?p)` of objects related by direct containment that carry all requested
    pairs.  Without a Section part a Document and a Property are not related (all combinations
    are returned, `?s` is the Section holding the Property); without a Document part `?d` is
    whatever holds the Section (a Document or a Section). -/
def directEval (ds : List DocT) (q : QParams) : List Row := (candidates ds).filter (rowOK ds q)

/-- The rows of the generated query on the exported graph. -/
def queryRows (g : Graph) (q : QParams) : Except QErr (List (Option Term × Option Term × Option Term)) :=
  match prepareQuery q with
  | .error e => .error e
  | .ok pats => .ok ((filtered g pats (prepareFilters q)).map fun b => (b.d, b.s, b.p))

/-- `FuzzyFinder.find`: the combinations that are executed, most specific first, each with its
    rows; combinations without a hit are omitted. -/
def findRows (g : Graph) (pairs : List Pair) :
    Except QErr (List (QParams × List (Option Term × Option Term × Option Term))) :=
  let rec go : List (List Pair) → Except QErr (List (QParams × List (Option Term × Option Term × Option Term)))
    | [] => .ok []
    | c :: r =>
      match queryRows g (groupPairs c), go r with
      | .error e, _ => .error e
      | _, .error e => .error e
      | .ok rows, .ok rest => .ok (if rows.isEmpty then rest else (groupPairs c, rows) :: rest)
  go (subsets pairs)

/-! ## Hypotheses of `C20.query_sound_complete`, in decidable form (evaluated by the driver) -/

/-- The attributes a search is proved exact for: the string-valued ones and the two that are
    exported as typed literals (the Document's date, the Property's uncertainty). -/
def safeAttrs : Kind → List String
  | .doc => ["author", "version", "date"]
  | .sec => ["name", "type", "definition", "reference"]
  | .prop => ["name", "definition", "dtype", "unit", "reference", "value_origin", "uncertainty"]

def safePairB (k : Kind) (x : Pair) : Bool := x.kind == k && (safeAttrs k).contains (String.ofList x.attr)

def querySafeB (q : QParams) : Bool :=
  q.doc.all (safePairB .doc) && q.sec.all (safePairB .sec) && q.prop.all (safePairB .prop)

def noRepoB (ds : List DocT) : Bool :=
  ds.all (fun d => (d.attrs.lookup "repository").isNone) &&
  (docSecs ds).all (fun s => (s.attrs.lookup "repository").isNone)

end Query
