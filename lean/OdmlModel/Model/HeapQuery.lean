/-
M-HeapQuery: the derived query `.document` over the heap of `Model/Heap.lean`, following the
Python statements (it is a *query*: it reads the heap and never changes it, so whatever it answered
before an operation plays no role for what it answers afterwards).

  odml/base.py  BaseObject.document    (Properties)
                    if self.parent is None: return None
                    return self.parent.document
                Sectionable.document   (Sections and Documents)
                    par = self
                    while par.parent:          # truthiness: a container without children is falsy
                        par = par.parent
                    if isinstance(par, BaseDocument): return par     # else None

No Mathlib.
-/
import OdmlModel.Model.Heap

namespace Heap

/-- `bool(obj)` of a container: `Sectionable.__len__` counts the Sections (Documents),
    `BaseSection.__len__` the Sections and the Properties. (A Property is never a parent:
    `_validate_parent`; its child lists are empty in the model.) -/
def truthy (h : H) (i : Nat) : Bool :=
  match (h.node i).kind with
  | .doc => !(h.node i).secs.isEmpty
  | _ => !((h.node i).secs.isEmpty && (h.node i).props.isEmpty)

/-- The loop `while par.parent: par = par.parent`. The implementation has no bound; the model gives
    it `fuel` rounds and answers `none` when they are used up (only possible on a cyclic heap, see
    `C03.document_query_is_chain_root`). -/
def rootWalk (h : H) : Nat → Nat → Option Nat
  | 0, _ => none
  | fuel + 1, cur =>
    match (h.node cur).parent with
    | none => some cur
    | some p => if truthy h p then rootWalk h fuel p else some cur

/-- `Sectionable.document` -/
def secDocument (h : H) (c : Nat) : Option Nat :=
  match rootWalk h (h.size + 1) c with
  | some r => if (h.node r).kind = .doc then some r else none
  | none => none

/-- `obj.document` for an object of any kind. -/
def document (h : H) (c : Nat) : Option Nat :=
  match (h.node c).kind with
  | .prop =>
    match (h.node c).parent with
    | none => none
    | some p => secDocument h p
  | _ => secDocument h c

end Heap
