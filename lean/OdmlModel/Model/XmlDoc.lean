/-
M-Xml, part 2: the document universe of the XML model and the abstract XML tree.

Value universe (stated restriction): strings, unbounded ints, bools, n-tuples of strings are
modelled exactly; float / date / time / datetime values are *opaque tokens* carrying their
`str()` text — how the library re-types such a text is the parameter `TokLib` (a contract,
exercised end to end by the harness).
-/
import OdmlModel.Py.Str
import OdmlModel.Model.Card

namespace Xml

abbrev Str := List Char

/-- A typed odML value. -/
inductive Val where
  | str (s : Str)            -- dtype string / text / url / person
  | int (i : Int)            -- dtype int
  | bool (b : Bool)          -- dtype boolean
  | tok (s : Str)            -- dtype float / date / time / datetime: opaque, `s = str(value)`
  | tuple (xs : List Str)    -- dtype n-tuple
  | nul                      -- `None` inside a value list (`tuple_get("")`)
  deriving Repr, DecidableEq, Inhabited

/-- `Property.uncertainty`: a number (float/int, set through the setter or given to the
    constructor) or any other string given to the constructor; `text = str(value)`. -/
structure Unc where
  isNum : Bool
  text : Str
  deriving Repr, DecidableEq

/-- odml.Property.  `id = none`: a fresh uuid4 nobody knows; `name = none`: the name is the id. -/
structure PropT where
  id : Option Str
  name : Option Str
  values : List Val
  dtype : Option Str
  unit : Option Str
  definition : Option Str
  dependency : Option Str
  dependencyValue : Option Str
  uncertainty : Option Unc
  reference : Option Str
  valueOrigin : Option Str
  valCard : Card.Card
  deriving Repr, DecidableEq

/-- odml.Section with its sub-Sections and Properties (in order). -/
inductive SecT where
  | mk (id name type definition reference link repository incl : Option Str)
       (secs : List SecT) (props : List PropT) (secCard propCard : Card.Card)
  deriving Repr

/-- odml.Document.  `date` is the `str()` text of the stored `datetime.date`. -/
structure DocT where
  id : Option Str
  version : Option Str
  author : Option Str
  date : Option Str
  repository : Option Str
  secs : List SecT
  deriving Repr

def SecT.id : SecT → Option Str | .mk i _ _ _ _ _ _ _ _ _ _ _ => i
def SecT.name : SecT → Option Str | .mk _ n _ _ _ _ _ _ _ _ _ _ => n
def SecT.secs : SecT → List SecT | .mk _ _ _ _ _ _ _ _ s _ _ _ => s
def SecT.props : SecT → List PropT | .mk _ _ _ _ _ _ _ _ _ p _ _ => p

/-- The abstract XML tree: what lxml hands to the reader / gets from the writer.  Tails,
    comments (removed by the parser) and the text of container elements are not represented. -/
inductive X where
  | elem (tag : String) (attrs : List (String × Str)) (text : Option Str) (kids : List X)
  deriving Repr

/-- How the library re-types the text of a float / date / time / datetime value:
    `parse dtype text = some t` iff `dtypes.get(text, dtype)` succeeds with a value whose
    `str()` is `t`; `none` iff it raises. -/
structure TokLib where
  parse : String → Str → Option Str

end Xml
