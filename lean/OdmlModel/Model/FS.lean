/-
M-FS: what saving a document does to the file system.

  odml/fileio.py                 save
  odml/tools/odmlparser.py       ODMLWriter.__init__, ODMLWriter.write_file, ODMLWriter.to_string
  odml/tools/xmlparser.py        XMLWriter.write_file
  odml/tools/rdf_converter.py    RDFWriter.get_rdf_str, RDFWriter.write_file
  odml/validation.py             Validation(doc).errors, ValidationError.is_error, Validation.report

The file system is `Path → Option Bytes` (regular files by path).  Everything whose inside the
property does not talk about is a *parameter that may fail*: running the validation, rendering
the document in a format, wrapping XML text with header and style sheet, opening the target.
Each entry point is the exact sequence of these steps in the Python statement order, returning
the file system *as it is at the point where a statement raises*.

`…Legacy` is the statement order of `ODMLWriter.write_file` before the `fix:` commit on branch
work-C07 (open-truncate first, render second); it is kept so that the counterexample stays a
theorem (`C07.legacy_open_first_truncates`).

No Mathlib.
-/
import OdmlModel.Py.Str
import OdmlModel.Py.Uuid
import OdmlModel.Generated.MiscTables
import OdmlModel.Generated.ValidationTables

namespace FS

abbrev Path := List Char
abbrev Bytes := List Char

/-- Regular files by path; `none` = no such file. -/
def Fs := Path → Option Bytes

def Fs.empty : Fs := fun _ => none

/-- The content of `p` becomes `b` (created if absent); nothing else changes. -/
def Fs.write (fs : Fs) (p : Path) (b : Bytes) : Fs := fun q => if q = p then some b else fs q

/-- Files listed first win. -/
def Fs.ofList : List (Path × Bytes) → Fs
  | [] => Fs.empty
  | (p, b) :: rest => (Fs.ofList rest).write p b

inductive Backend where
  | xml | json | yaml | rdf
  deriving DecidableEq, Repr

/-- Exception classes, as far as the property tells them apart. -/
inductive Exc where
  | parserException            -- odml.tools.parser_utils.ParserException
  | notImplemented             -- ODMLWriter.__init__: unknown backend name
  | valueError                 -- RDFWriter.get_rdf_str: format not in RDF_CONVERSION_FORMATS
  | userWarning                -- warnings.warn under an "error" filter
  | osError                    -- open() refused (missing directory, target is a directory, …)
  | other (cls : String)       -- whatever a validator / serialiser raises
  deriving DecidableEq, Repr

inductive Outcome where
  | ok (warned : Bool)         -- returned; `warned` = warnings.warn was called
  | raised (e : Exc)
  deriving DecidableEq, Repr

/-- Rank of a validation issue (`ValidationError.rank`). -/
inductive Rank where
  | error | warning
  deriving DecidableEq, Repr

/-- `any(err.is_error for err in validation.errors)` -/
def hasError (issues : List Rank) : Bool := issues.any (· == .error)

/-- The parts of a save whose inside is arbitrary. Every one of them may fail. -/
structure Env (Doc : Type) where
  /-- `Validation(doc)`: runs every registered rule; a rule may itself raise. -/
  validate : Doc → Except Exc (List Rank)
  /-- `str(XMLWriter(doc))`, `json.dumps(...)`, `yaml.dump(...)` (by backend). -/
  render : Backend → Doc → Except Exc Bytes
  /-- `RDFWriter(doc).convert_to_rdf().serialize(format=fmt)` -/
  serialize : List Char → Doc → Except Exc Bytes
  /-- XML only: header, style sheet header, template substitution (`%` formatting). -/
  decorate : Bytes → Except Exc Bytes
  /-- does `open(path, "w")` succeed? -/
  canOpen : Path → Bool
  /-- is the warnings filter set to turn `warnings.warn` into an exception? -/
  warnRaises : Bool

/-- `open(p, "w")`: refuses without touching anything, or truncates/creates. -/
def openW {Doc} (env : Env Doc) (p : Path) (fs : Fs) : Except Exc Fs :=
  if env.canOpen p then .ok (fs.write p []) else .error .osError

/-! ### RDF format table (regenerated from parser_utils.RDF_CONVERSION_FORMATS) -/

def rdfExt (fmt : List Char) : Option (List Char) :=
  match Gen.Misc.rdfFormats.find? (fun e => e.1.toList == fmt) with
  | some (_, ext :: _) => some ext.toList
  | _ => none

def rdfFormatKnown (fmt : List Char) : Bool :=
  Gen.Misc.rdfFormats.any (fun e => e.1.toList == fmt)

/-- `RDFWriter.get_rdf_str(rdf_format)`: format check, then rdflib. -/
def getRdfStr {Doc} (env : Env Doc) (fmt : List Char) (d : Doc) : Except Exc Bytes :=
  if !rdfFormatKnown fmt then .error .valueError
  else env.serialize fmt d

/-- `ODMLWriter.to_string(doc, **kwargs)`; `rdfFormat` = `kwargs["rdf_format"]` when it is a
    `str`, otherwise the default `"xml"`. -/
def toStr {Doc} (env : Env Doc) (b : Backend) (rdfFormat : Option (List Char)) (d : Doc) :
    Except Exc Bytes :=
  match b with
  | .xml => env.render .xml d
  | .rdf => getRdfStr env (rdfFormat.getD "xml".toList) d
  | .yaml => env.render .yaml d
  | .json => env.render .json d

/-! ### The writers -/

/-- `XMLWriter(doc).write_file(filename, local_style, custom_template)`:
    data, then header/template, then open, then write. -/
def xmlWriterWriteFile {Doc} (env : Env Doc) (d : Doc) (p : Path) (fs : Fs) (warned : Bool := false) :
    Fs × Outcome :=
  match env.render .xml d with                     -- data = str(self)
  | .error e => (fs, .raised e)
  | .ok data =>
    match env.decorate data with                   -- header += …; data = data.replace(…)
    | .error e => (fs, .raised e)
    | .ok text =>
      match openW env p fs with                    -- with open(filename, "w", encoding="utf-8")
      | .error e => (fs, .raised e)
      | .ok fs1 => (fs1.write p text, .ok warned)  -- file.write(header); file.write(data)

/-- `s.find(sub) >= 0` -/
def hasSub (s sub : List Char) : Bool :=
  match s with
  | [] => sub.isEmpty
  | c :: cs => sub.isPrefixOf (c :: cs) || hasSub cs sub

/-- `RDFWriter(doc).write_file(filename, rdf_format)`: renders first, then appends the format's
    extension unless the file name contains it, then opens and writes. No validation. -/
def rdfWriterWriteFile {Doc} (env : Env Doc) (fmt : List Char) (d : Doc) (filename : Path)
    (fs : Fs) : Fs × Outcome :=
  match getRdfStr env fmt d with                   -- data = self.get_rdf_str(rdf_format)
  | .error e => (fs, .raised e)
  | .ok data =>
    match rdfExt fmt with
    | none => (fs, .raised (.other "TypeError"))   -- str.find(None); unreachable after the check
    | some ext =>
      let p := if hasSub filename ext then filename else filename ++ ext
      match openW env p fs with
      | .error e => (fs, .raised e)
      | .ok fs1 => (fs1.write p data, .ok false)

/-- The path `RDFWriter.write_file` writes to. -/
def rdfTarget (fmt : List Char) (filename : Path) : Path :=
  match rdfExt fmt with
  | none => filename
  | some ext => if hasSub filename ext then filename else filename ++ ext

/-- The first half of `ODMLWriter.write_file`: validate, refuse on errors, warn.
    `.ok warned` = go on writing. -/
def gate {Doc} (env : Env Doc) (d : Doc) : Except Exc Bool :=
  match env.validate d with                        -- validation = Validation(odml_document)
  | .error e => .error e
  | .ok issues =>
    if hasError issues then .error .parserException     -- raise ParserException(msg)
    else
      -- report = validation.report() (runs the same rules again: same result);
      -- non-empty iff there is an issue
      let warned := !issues.isEmpty
      if warned && env.warnRaises then .error .userWarning   -- warnings.warn(msg)
      else .ok warned

/-- `ODMLWriter(parser).write_file(doc, filename, **kwargs)` (after the fix: the non-XML branch
    renders before it opens). -/
def odmlWriterWriteFile {Doc} (env : Env Doc) (b : Backend) (rdfFormat : Option (List Char))
    (d : Doc) (p : Path) (fs : Fs) : Fs × Outcome :=
  match gate env d with
  | .error e => (fs, .raised e)
  | .ok warned =>
    match b with
    | .xml => xmlWriterWriteFile env d p fs warned
    | _ =>
      match toStr env b rdfFormat d with           -- data = self.to_string(odml_document, **kwargs)
      | .error e => (fs, .raised e)
      | .ok data =>
        match openW env p fs with                  -- with open(filename, 'w') as file:
        | .error e => (fs, .raised e)
        | .ok fs1 => (fs1.write p data, .ok warned)  --     file.write(data)

/-- Statement order before the fix: `with open(filename,'w') as file: file.write(self.to_string(…))`. -/
def odmlWriterWriteFileLegacy {Doc} (env : Env Doc) (b : Backend) (rdfFormat : Option (List Char))
    (d : Doc) (p : Path) (fs : Fs) : Fs × Outcome :=
  match gate env d with
  | .error e => (fs, .raised e)
  | .ok warned =>
    match b with
    | .xml => xmlWriterWriteFile env d p fs warned
    | _ =>
      match openW env p fs with
      | .error e => (fs, .raised e)
      | .ok fs1 =>
        match toStr env b rdfFormat d with
        | .error e => (fs1, .raised e)             -- the `with` block closes the truncated file
        | .ok data => (fs1.write p data, .ok warned)

/-! ### odml.fileio.save -/

def upper (s : List Char) : List Char := s.map Char.toUpper

/-- `parser.upper()` looked up in SUPPORTED_PARSERS. -/
def parseBackend (name : List Char) : Option Backend :=
  let u := upper name
  if !Gen.Misc.supportedParsers.any (fun s => s.toList == u) then none
  else if u == "XML".toList then some .xml
  else if u == "RDF".toList then some .rdf
  else if u == "YAML".toList then some .yaml
  else some .json                                  -- the `else` arm of to_string

/-- `filename.split(os.pathsep)[-1]` (os.pathsep is ':' on POSIX) -/
def lastField (sep : Char) (s : List Char) : List Char :=
  ((Py.splitOn sep s).getLast?).getD []

/-- `if "." not in filename.split(os.pathsep)[-1]: filename = filename + ".%s" % backend` -/
def savePath (filename backend : List Char) : Path :=
  if (lastField ':' filename).contains '.' then filename else filename ++ '.' :: backend

/-- `odml.save(obj, filename, backend, **kwargs)` -/
def fileioSave {Doc} (env : Env Doc) (backend : List Char) (rdfFormat : Option (List Char))
    (d : Doc) (filename : Path) (fs : Fs) : Fs × Outcome :=
  match parseBackend backend with                  -- writer = ODMLWriter(backend)
  | none => (fs, .raised .notImplemented)
  | some b => odmlWriterWriteFile env b rdfFormat d (savePath filename backend) fs

/-! ### The same with a `file.write` that can fail

`file.write(chunk)` raises when the chunk cannot be encoded in the codec the file was opened
with, or when the device is full — *after* `open` has created / truncated the target. Nothing in
`write_file` can prevent that (short of writing elsewhere and renaming); this layer makes the
residual risk explicit. `Env` above is the special case "every write succeeds"
(`C07.saveW_refines`). -/

structure WEnv (Doc : Type) extends Env Doc where
  /-- does `file.write(chunk)` succeed? -/
  writeOk : Bytes → Bool
  /-- XML only: the text is written as two chunks, header lines and data. -/
  split : Bytes → Bytes × Bytes
  split_ok : ∀ t, (split t).1 ++ (split t).2 = t

/-- `file.write(c)` for each chunk in turn; `acc` is what the file holds so far. -/
def writeChunks {Doc} (env : WEnv Doc) (p : Path) : List Bytes → Bytes → Fs → Fs × Option Exc
  | [], _, fs => (fs, none)
  | c :: cs, acc, fs =>
    if env.writeOk c then writeChunks env p cs (acc ++ c) (fs.write p (acc ++ c))
    else (fs, some (.other "write failed"))

/-- The chunks a save writes: one for JSON/YAML/RDF, header and data for XML. -/
def chunksOf {Doc} (env : WEnv Doc) (b : Backend) (rdfFormat : Option (List Char)) (d : Doc) :
    Except Exc (List Bytes) :=
  match b with
  | .xml => ((env.render .xml d).bind env.decorate).map (fun t => [(env.split t).1, (env.split t).2])
  | _ => (toStr env.toEnv b rdfFormat d).map (fun t => [t])

/-- `ODMLWriter.write_file` with fallible writes. -/
def saveW {Doc} (env : WEnv Doc) (b : Backend) (rdfFormat : Option (List Char)) (d : Doc)
    (p : Path) (fs : Fs) : Fs × Outcome :=
  match gate env.toEnv d with
  | .error e => (fs, .raised e)
  | .ok warned =>
    match chunksOf env b rdfFormat d with
    | .error e => (fs, .raised e)
    | .ok cs =>
      match openW env.toEnv p fs with
      | .error e => (fs, .raised e)
      | .ok fs1 =>
        match writeChunks env p cs [] fs1 with
        | (fs2, none) => (fs2, .ok warned)
        | (fs2, some e) => (fs2, .raised e)       -- the `with` block closes the file as it is

/-! ### Declarative reading (no order of effects), used as the specification -/

/-- What a save writes, if anything: the text, provided every step succeeds. -/
def wouldWrite {Doc} (env : Env Doc) (b : Backend) (rdfFormat : Option (List Char)) (d : Doc)
    (p : Path) : Option (Bytes × Bool) :=
  match gate env d with
  | .error _ => none
  | .ok warned =>
    match (match b with
           | .xml => (env.render .xml d).bind env.decorate
           | _ => toStr env b rdfFormat d) with
    | .error _ => none
    | .ok text => if env.canOpen p then some (text, warned) else none

/-! ### The rank of an issue by the rule it comes from

`Validation(doc).errors` is the concatenation of what the registered rules yield; whether an issue
is an error or a warning is fixed by the rule. The table is regenerated on every run from the
source of each rule registered in `Validation._handlers` (the rank labels the rule mentions;
`ValidationError(obj, msg)` without a rank is an error). -/

/-- Every rule name registered for a Document, a Section or a Property. -/
def registeredRules : List String := Gen.Validation.handlers.flatMap (·.2)

/-- The rules that detect the ways of being invalid the property names: an attribute the format
    requires is missing (Section type, Section / Property name), duplicate ids, sibling Sections
    of one name and type, sibling Properties of one name. -/
def blockingRules : List String :=
  ["object_required_attributes", "document_unique_ids", "section_unique_name_type",
   "property_unique_names"]

/-- The rank a rule gives its issues, where its source decides it: `warning` when the only label
    it mentions is LABEL_WARNING, `error` when it does not mention LABEL_WARNING at all (explicit
    LABEL_ERROR, the default of `ValidationError`, or delegation to such a rule), undecided when
    it mentions both or is not registered. -/
def ruleRank (r : String) : Option Rank :=
  match Gen.Validation.ranks.find? (fun e => e.1 == r) with
  | none => none
  | some (_, labels) =>
    if labels.contains "LABEL_WARNING" then
      (if labels.contains "LABEL_ERROR" then none else some .warning)
    else some .error

/-- The ranks of a list of issues given by the rule each comes from (an undecided rule counts as
    an error: nothing is promised for it). -/
def ranksOf (rules : List String) : List Rank := rules.map (fun r => (ruleRank r).getD .error)

/-! ### The rule behind "duplicate ids" (`odml/validation.py`, `document_unique_ids` →
`section_unique_ids` → `property_unique_ids`) and the ids it gets to see

The rule walks the document with one dictionary `id_map` (the Document's id is in it from the
start; of a Section first the ids of its Properties, then its own, then its sub-Sections) and
yields one issue - rank error, the default of `ValidationError` - for every object whose id *text*
is a key already. `ids` below is the list of id texts in that order, the Document's first.
The texts are what the public doors stored: `Py.Uuid.ctorId` (constructor argument `oid`, also the
readers) and `Py.Uuid.newId` (`new_id`), both `str(uuid.UUID(oid))`. -/

/-- The ids the rule reports, given the keys `seen` of `id_map`. -/
def dupIds (seen : List (List Char)) : List (List Char) → List (List Char)
  | [] => []
  | x :: xs => if seen.contains x then x :: dupIds seen xs else dupIds (x :: seen) xs

/-- `document_unique_ids(doc)`: the ids of the issues, in the order they are yielded. -/
def uniqueIdIssues (ids : List (List Char)) : List (List Char) := dupIds [] ids

/-- Their ranks. -/
def idRanks (ids : List (List Char)) : List Rank := (uniqueIdIssues ids).map (fun _ => Rank.error)

/-- The text one of the public doors leaves as the id of an object when it is handed `s`:
    the constructor argument (`fresh` are the bits of the `uuid4()` it falls back to) or `new_id`. -/
def StoredFrom (s : List Char) (x : List Char) : Prop :=
  (∃ fresh, x = Py.Uuid.ctorId (some s) fresh) ∨ (∃ fresh, Py.Uuid.newId (some s) fresh = some x)

/-! ### Histories of saves -/

/-- One call of `ODMLWriter.write_file`, with its own circumstances. -/
structure Call (Doc : Type) where
  env : Env Doc
  b : Backend
  rdfFormat : Option (List Char)
  d : Doc
  p : Path

def Call.run {Doc} (c : Call Doc) (fs : Fs) : Fs × Outcome :=
  odmlWriterWriteFile c.env c.b c.rdfFormat c.d c.p fs

/-- Any sequence of saves (failed ones included), one after the other. -/
def runCalls {Doc} : List (Call Doc) → Fs → Fs
  | [], fs => fs
  | c :: cs, fs => runCalls cs (c.run fs).1

/-- The text of the last call in the list that targets `q` and succeeds. -/
def lastWritten {Doc} : List (Call Doc) → Path → Option Bytes
  | [], _ => none
  | c :: cs, q =>
    match lastWritten cs q with
    | some t => some t
    | none =>
      if c.p = q then (wouldWrite c.env c.b c.rdfFormat c.d c.p).map (·.1) else none

end FS
