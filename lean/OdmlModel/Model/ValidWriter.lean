/-
C08 - the save gate: `ODMLWriter` of odml/tools/odmlparser.py as an object with state.

"Only errors block saving" is a statement about `ODMLWriter.write_file`, and a writer is an object
that is used more than once: the same instance is asked to write a document it has refused before
(after the document has been repaired), another document, a document that has been broken since
the last successful write.  `Model/Valid.lean` has `blocksSave d` (one call of a fresh writer);
this file models the writer object with the attributes `__init__` creates and `write_file` /
`to_string` assign, in the statement order of the Python, and a *session* - one writer, a list of
documents handed to `write_file` one after the other.

    def __init__(self, parser='XML'):
        self.parsed_doc = None
        ...
        self.parser = parser

    def write_file(self, odml_document, filename, **kwargs):
        validation = Validation(odml_document)            # may raise: leaves write_file
        msg = ""
        for err in validation.errors:
            if err.is_error: msg += ...
        if msg != "": raise ParserException(msg)          # refused; nothing assigned so far
        ...
        if self.parser == 'XML': xmlparser.XMLWriter(doc).write_file(...)
        else: data = self.to_string(odml_document, **kwargs); ... file.write(data)

    def to_string(self, odml_document, **kwargs):
        if XML: ...  elif RDF: ...
        else: self.parsed_doc = DictWriter().to_dict(odml_document)      # JSON, YAML

The serialisation itself (what the backends put into the file, and the content they cannot write)
is not part of this property and not modelled: a document that passes the gate counts as written.
-/
import OdmlModel.Model.Valid

namespace Valid

/-- `SUPPORTED_PARSERS` as far as `write_file` / `to_string` branch on them. -/
inductive Backend where
  | xml | json | yaml | rdf
  deriving DecidableEq, Repr

/-- The attributes of an `ODMLWriter` instance.  `parsedDoc` is `self.parsed_doc`: `None` after
    `__init__`, the document last rendered by `to_string` of a JSON / YAML writer afterwards
    (the model keeps the document the dictionary was made from). -/
structure Writer where
  parser : Backend
  parsedDoc : Option Doc

/-- `ODMLWriter(parser)`. -/
def Writer.fresh (b : Backend) : Writer := { parser := b, parsedDoc := none }

/-- How one call of `write_file` ends. -/
inductive SaveOutcome where
  | raised     -- `Validation(doc)` itself raised (see `validate_total` for when it cannot)
  | refused    -- `ParserException`: the document has an issue that `is_error`
  | written    -- the gate was passed, the backend was asked to write
  deriving DecidableEq, Repr

/-- `to_string`: the only assignment to an attribute after `__init__`. -/
def Writer.toString (w : Writer) (d : Doc) : Writer :=
  match w.parser with
  | .json | .yaml => { w with parsedDoc := some d }
  | .xml | .rdf => w

/-- `write_file(doc, filename)` on a writer in state `w`: the new state and the outcome. -/
def Writer.writeFile (w : Writer) (d : Doc) : Writer × SaveOutcome :=
  match validate (.doc d) with
  | .crash => (w, .raised)
  | .ok iss =>
    if iss.any (·.rank == .error) then (w, .refused)
    else
      match w.parser with
      | .xml => (w, .written)
      | _ => (w.toString d, .written)

/-- One writer object, the documents handed to `write_file` one after the other
    (the states of one document between edits, or different documents): the outcomes. -/
def Writer.session : Writer → List Doc → List SaveOutcome
  | _, [] => []
  | w, d :: ds => (w.writeFile d).2 :: Writer.session (w.writeFile d).1 ds

/-- What the property prescribes for a document, without any writer: raised where the validation
    raises, refused where an issue of rank error exists, written otherwise. -/
def saveOutcome (d : Doc) : SaveOutcome :=
  match validate (.doc d) with
  | .crash => .raised
  | .ok iss => if iss.any (·.rank == .error) then .refused else .written

end Valid
