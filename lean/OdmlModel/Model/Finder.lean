/-
M-Finder: the `FuzzyFinder` OBJECT - what it keeps between two calls of `find`.

  odml/rdf/fuzzy_finder.py    FuzzyFinder.__init__ (graph, q_params, _subsets), find,
                              _validate_find_input_attributes (statement order: the graph is taken
                              over before the parameters are looked at, so a call that is refused
                              for its parameters has already replaced the graph),
                              _generate_parameters_subsets (replaces `_subsets`),
                              _output_query_results (runs `_subsets` on `self.graph`)

`Model/Query.lean` has the search itself as a function of a graph and the pairs (`findRows`); this
file adds the object around it, so that histories of calls on ONE finder can be stated: searches
with a dictionary the caller changes in between, refused calls, calls that fail while their
queries are built, calls that leave the graph out.

The parameters of a call are what the dictionary (or the parsed string) SAYS WHEN `find` IS
CALLED: Python's `self.q_params = q_params` keeps a reference to the caller's dictionary, and
`_generate_parameters_pairs(_fuzzy)` reads it during the call. A pure model has no aliasing; the
harness (stream `pedit`) hands the very same dictionary object, changed in place, to the library
and the contents of the moment to the model.  No Mathlib.
-/
import OdmlModel.Model.Query

namespace Query
open Rdf

/-- What a `FuzzyFinder` keeps: `self.graph`, the pairs `self.q_params` said when it was last
    read, `self._subsets`. -/
structure Finder where
  graph : Option Graph := none
  params : List Pair := []
  subsets : List (List Pair) := []
  deriving Inhabited

/-- The arguments of one call of `find`, after the mode has chosen the pair generator
    (`matchPairs` / `fuzzyPairs`).  `qStr` / `qParams`: `none` = not passed or empty (Python
    truthiness), `some pairs` = the pairs the parsed string / the dictionary says at this moment. -/
structure Call where
  modeOk : Bool := true
  graph : Option Graph := none
  qStr : Option (List Pair) := none
  qParams : Option (List Pair) := none

inductive FindErr where
  | mode | noGraph | both | neither
  | query (e : QErr)

abbrev Blocks := List (QParams × List (Option Term × Option Term × Option Term))

/-- An exception out of the query text (`QueryCreator.get_query`) goes through `find` as it is. -/
def liftQ : Except QErr Blocks → Except FindErr Blocks
  | .ok out => .ok out
  | .error e => .error (.query e)

/-- `FuzzyFinder.find`, statement by statement; the first component is the finder after the call
    (also when the call raises). -/
def Finder.find (f : Finder) (c : Call) : Finder × Except FindErr Blocks :=
  -- mode check: raises before anything is stored
  if !c.modeOk then (f, .error .mode) else
  -- _validate_find_input_attributes
  match c.graph, f.graph with
  | none, none => (f, .error .noGraph)
  | cg, _ =>
    let f1 : Finder := match cg with
      | some g => { f with graph := some g }
      | none => f
    match c.qStr, c.qParams with
    | some _, some _ => (f1, .error .both)
    | none, none => (f1, .error .neither)
    | sp, dp =>
      let p : List Pair := match sp with
        | some p => p
        | none => dp.getD []
      let f2 : Finder := { f1 with params := p }
      -- _generate_parameters_subsets
      let f3 : Finder := { f2 with subsets := Query.subsets f2.params }
      -- _output_query_results: `self._subsets` on `self.graph`
      match f3.graph with
      | none => (f3, .error .noGraph)      -- cannot happen (cg or fg is a graph)
      | some g =>
        (f3, liftQ (findRows.go g f3.subsets))

/-- A history of calls on one finder; the answers are dropped. -/
def Finder.run (f : Finder) : List Call → Finder
  | [] => f
  | c :: rest => (f.find c).1.run rest

end Query
