/-
Model of the path and traversal code of `odml/base.py` (class `Sectionable`) and
`odml/property.py` (`get_path`) over the pure tree of `Model/PathTree.lean`:

  get_path, _get_section_by_path / get_section_by_path, get_property_by_path, _match_iterable,
  _get_relative_path / get_relative_path (through the `posixpath` model of `Py/Posix.lean`),
  itersections / iterproperties / itervalues, _matches, find, find_related.

Objects are identified by positions (index paths). The root of the tree is a Document
(the property quantifies over Sections and Properties "of a document").
Tied to /repo by `harness/c14.py` on every run.
-/
import OdmlModel.Py.Str
import OdmlModel.Py.Posix
import OdmlModel.Model.PathTree

namespace Path
open PathTree Py.Posix

/-! ## get_path -/

/-- `Sectionable.get_path()`: `"/" + "/".join(names from the root)`; `/` for the Document. -/
def getPath (d : Doc) (p : Pos) : Option Str :=
  (namesAlong d.secs p).map (fun ns => '/' :: joinSlash ns)

/-- `Property.get_path()`: `self.parent.get_path() + ":" + self.name`
    (the `if not self.parent` branch is never taken: a Section holding a Property is non-empty). -/
def propPath (d : Doc) (p : Pos) (k : Nat) : Option Str :=
  match secAt d.secs p, getPath d p with
  | some s, some path =>
    match s.props[k]? with
    | some pr => some (path ++ ':' :: pr.name)
    | none => none
  | _, _ => none

/-! ## _get_section_by_path -/

inductive Res (α : Type) where
  | ok (a : α)
  | valueError
  | attributeError
  deriving Repr, DecidableEq

/-- `_match_iterable(self.sections, key)`: index of the first Section named `key`
    (`_matches(obj, key)` with `otype=None` compares the name only). -/
def matchIdx (l : List Sec) (key : Str) : Option Nat := l.findIdx? (fun s => s.name = key)

/--
`_get_section_by_path(self, path)` on the already split path (`pathlist = path.split("/")`;
the recursion re-joins and re-splits `pathlist[1:]`, which is the identity on split results).

* `path.startswith("/")`  ⇔  first component empty and more than one component;
  `len(path) == 1` ⇔ components `["", ""]`; then continue from the Document with `path[1:]`.
* first component `..` → `self.parent`, `.` → `self`, otherwise the child Section of that name;
  `None` (parent of the Document) → ValueError; a **last** component is resolved the same way
  (this is the `fix:` commit; before it, a last `.` / `..` was looked up as a Section *name*).
-/
def resolveSegs (d : Doc) : Pos → List Str → Res Pos
  | _, [] => .valueError
  | cur, seg :: rest =>
    if seg = [] ∧ rest ≠ [] then
      if rest = [[]] then .valueError else resolveSegs d [] rest
    else
      let found : Option Pos :=
        if seg = ['.', '.'] then parentOf cur
        else if seg = ['.'] then some cur
        else match kidsAt d.secs cur with
          | some l => (matchIdx l seg).map (fun i => cur ++ [i])
          | none => none
      match found with
      | some f => if rest = [] then .ok f else resolveSegs d f rest
      | none => .valueError

/-- `get_section_by_path(path)` called on the node at `cur` -/
def getSectionByPath (d : Doc) (cur : Pos) (path : Str) : Res Pos :=
  resolveSegs d cur (Py.splitOn '/' path)

/-- the behaviour before the fix: a last component is always looked up as a child name -/
def resolveSegsLegacy (d : Doc) : Pos → List Str → Res Pos
  | _, [] => .valueError
  | cur, seg :: rest =>
    if seg = [] ∧ rest ≠ [] then
      if rest = [[]] then .valueError else resolveSegsLegacy d [] rest
    else if rest = [] then
      match kidsAt d.secs cur with
      | some l => match matchIdx l seg with
        | some i => .ok (cur ++ [i])
        | none => .valueError
      | none => .valueError
    else
      let found : Option Pos :=
        if seg = ['.', '.'] then parentOf cur
        else if seg = ['.'] then some cur
        else match kidsAt d.secs cur with
          | some l => (matchIdx l seg).map (fun i => cur ++ [i])
          | none => none
      match found with
      | some f =>
        -- `if found:` an empty Section is falsy
        let truthy := match f with
          | [] => !d.secs.isEmpty
          | _ => match secAt d.secs f with
            | some s => !(s.subs.isEmpty && s.props.isEmpty)
            | none => false
        if truthy then resolveSegsLegacy d f rest else .valueError
      | none => .valueError

/-- `":".join(parts)` -/
def joinColon : List Str → Str
  | [] => []
  | [s] => s
  | s :: rest => s ++ ':' :: joinColon rest

/-- `_match_iterable(found.properties, key)` for the node at `f`
    (a Document has no `properties`: AttributeError). Result: (Section position, index). -/
def lookupProp (d : Doc) (f : Pos) (key : Str) : Res (Pos × Nat) :=
  if f = [] then .attributeError else
  match secAt d.secs f with
  | some s =>
    match s.props.findIdx? (fun pr => pr.name = key) with
    | some k => .ok (f, k)
    | none => .valueError
  | none => .valueError

/-- `get_property_by_path(path)`: `laststep = path.split(":")`, Section through `laststep[0]`,
    then the first Property named `":".join(laststep[1:])` in `found.properties`. -/
def getPropertyByPath (d : Doc) (cur : Pos) (path : Str) : Res (Pos × Nat) :=
  match Py.splitOn ':' path with
  | [] => .valueError
  | first :: more =>
    match getSectionByPath d cur first with
    | .ok f => lookupProp d f (joinColon more)
    | .valueError => .valueError
    | .attributeError => .attributeError

/-! ## _get_relative_path -/

/-- `Sectionable._get_relative_path(path_a, path_b)` (both starting with `/`). -/
def relativePath (pathA pathB : Str) : Str :=
  let a := pathA ++ ['/']
  let b := pathB ++ ['/']
  let parent := dirname (commonPrefix a b)
  if parent = ['/'] then pathB          -- path_b[:-1]
  else
    let ra := relpath a parent
    let rb := relpath b parent
    if ra = ['.'] then rb
    else normpath (dotdotSlash (countSlash ra + 1) ++ rb)

/-- `a.get_relative_path(b)` -/
def getRelativePath (d : Doc) (a b : Pos) : Option Str :=
  match getPath d a, getPath d b with
  | some pa, some pb => some (relativePath pa pb)
  | _, _ => none

/-! ## itersections / iterproperties / itervalues -/

/-- queue entry of `itersections`: (position, Section, level) -/
abbrev Entry := Pos × Sec × Nat

/-- the children of a queue entry, one level deeper, in child-list order -/
def kidsFrom (p : Pos) (lvl : Nat) : Nat → List Sec → List Entry
  | _, [] => []
  | i, s :: r => (p ++ [i], s, lvl) :: kidsFrom p lvl (i + 1) r

/-- `max_depth is None or level < max_depth` -/
def expands (md : Option Int) (lvl : Nat) : Bool :=
  match md with
  | none => true
  | some m => (lvl : Int) < m

def pushed (md : Option Int) (e : Entry) : List Entry :=
  if expands md e.2.2 then kidsFrom e.1 (e.2.2 + 1) 0 e.2.1.subs else []

def qsize (q : List Entry) : Nat := sizeList (q.map (·.2.1))

theorem qsize_kidsFrom (p : Pos) (lvl i : Nat) (l : List Sec) :
    qsize (kidsFrom p lvl i l) = sizeList l := by
  induction l generalizing i with
  | nil => rfl
  | cons s r ih =>
    have := ih (i + 1)
    simp only [qsize] at this
    simp [kidsFrom, qsize, this]

theorem qsize_step (md : Option Int) (e : Entry) (q : List Entry) :
    qsize (q ++ pushed md e) < qsize (e :: q) := by
  have h1 : qsize (q ++ pushed md e) = qsize q + qsize (pushed md e) := by
    simp [qsize, sizeList_append]
  have h2 : qsize (e :: q) = e.2.1.size + qsize q := by simp [qsize]
  have h3 : qsize (pushed md e) ≤ sizeList e.2.1.subs := by
    unfold pushed
    split
    · rw [qsize_kidsFrom]; exact Nat.le_refl _
    · simp [qsize]
  have h4 := Sec.size_eq e.2.1
  omega

/-- the `while len(stack) > 0` loop: pop the front, visit, push the children at the back.
    Returns the visited entries in order (the `filter_func`/`yield_self` test is applied
    to this sequence afterwards; it does not influence the queue). -/
def bfs (md : Option Int) : List Entry → List Entry
  | [] => []
  | e :: q => e :: bfs md (q ++ pushed md e)
termination_by q => qsize q
decreasing_by exact qsize_step md e q

/-- `(max_depth is None) or (max_depth > 0)` -/
def docExpands (md : Option Int) : Bool :=
  match md with
  | none => true
  | some m => decide (0 < m)

/-- the initial `stack` of `itersections` for the node at `start` -/
def initialQueue (d : Doc) (start : Pos) (md : Option Int) : List Entry :=
  match start with
  | [] =>        -- `self == self.document`
    if docExpands md then kidsFrom [] 1 0 d.secs else []
  | _ =>
    match secAt d.secs start with
    | some s => [(start, s, 0)]
    | none => []

/-- `itersections(yield_self, filter_func, max_depth)` → positions in yield order -/
def itersections (d : Doc) (start : Pos) (md : Option Int) (yieldSelf : Bool)
    (f : Sec → Bool) : List Pos :=
  ((bfs md (initialQueue d start md)).filter
      (fun e => f e.2.1 && (if e.2.2 = 0 then yieldSelf else true))).map (·.1)

/-- the Properties of one Section passing the filter, as (Section position, index) -/
def propsOf (p : Pos) (f : PropT → Bool) : Nat → List PropT → List (Pos × Nat)
  | _, [] => []
  | k, pr :: r => (if f pr then [(p, k)] else []) ++ propsOf p f (k + 1) r

/-- `iterproperties(max_depth, filter_func)` -/
def iterproperties (d : Doc) (start : Pos) (md : Option Int) (f : PropT → Bool) : List (Pos × Nat) :=
  (bfs md (initialQueue d start md)).flatMap (fun e => propsOf e.1 f 0 e.2.1.props)

/-- `itervalues(max_depth, filter_func)`: a yielded value list is identified by its Property -/
def itervalues (d : Doc) (start : Pos) (md : Option Int) (f : List Int → Bool) : List (Pos × Nat) :=
  iterproperties d start md (fun pr => f pr.vals)

/-! ## _matches / find / find_related

`lw` stands for `str.lower`. The definitions (and every theorem about them) take it as a
parameter: nothing in `_matches` / `find` / `find_related` depends on *how* the standard library
maps a string to lower case, only on the fact that the requested type and the type of the
Section go through the **same** function (`type.lower()` in `find` / `find_related`,
`obj.type.lower()` in `_matches`). The driver instantiates `lw` with `Py.lower` (ASCII),
extended by the table of `str.lower` results that the harness sends for the strings of a case
that contain letters outside ASCII (sharp s, dotted capital I, final sigma, ...). -/

/-- `_matches(obj, key, otype, include_subtype)`; `obj = none` is the Document, which has
    neither `name` nor `type`. `otype` is already lower-cased by the caller. -/
def matchesObj (lw : Str → Str) (obj : Option Sec) (key otype : Option Str) (includeSubtype : Bool) : Bool :=
  let nameMatch := match key, obj with
    | none, _ => true
    | some k, some s => s.name = k
    | some _, none => false
  let exact := match otype, obj with
    | none, _ => true
    | some t, some s => lw s.type = t
    | some _, none => false
  if !includeSubtype then nameMatch && exact
  else
    let sub := match otype, obj with
      | none, _ => true
      | some t, some s => (Py.splitOn '/' (lw s.type)).dropLast.contains t
      | some _, none => false
    nameMatch && (exact || sub)

/-- `if type: type = type.lower()` at the top of `find` and `find_related`: `None` and the empty
    string are falsy and stay as they are. -/
def lowerReq (lw : Str → Str) (type : Option Str) : Option Str :=
  type.map (fun t => if t = [] then t else lw t)

inductive Found where
  | none
  | one (p : Pos)
  | many (ps : List Pos)
  deriving Repr, DecidableEq

def Found.ofList (findAll : Bool) (l : List Pos) : Found :=
  if findAll then (if l = [] then .none else .many l)
  else match l with
    | [] => .none
    | p :: _ => .one p

/-- matching direct children, in order -/
def findAllIn (lw : Str → Str) (p : Pos) (key otype : Option Str) (sub : Bool) : Nat → List Sec → List Pos
  | _, [] => []
  | i, s :: r =>
    (if matchesObj lw (some s) key otype sub then [p ++ [i]] else []) ++ findAllIn lw p key otype sub (i + 1) r

/-- `find(key, type, findAll, include_subtype)` on the node at `cur` -/
def find (lw : Str → Str) (d : Doc) (cur : Pos) (key type : Option Str) (findAll sub : Bool) : Found :=
  match kidsAt d.secs cur with
  | some l => Found.ofList findAll (findAllIn lw cur key (lowerReq lw type) sub 0 l)
  | Option.none => .none

/-- the ancestors of `cur`, nearest first, ending with the Document `[]` -/
def ancestors (p : Pos) : List Pos := (List.range p.length).reverse.map (fun k => p.take k)

/-- every object `find_related(..., findAll=True)` collects, in order -/
def findRelatedAll (lw : Str → Str) (d : Doc) (cur : Pos) (key type : Option Str)
    (children siblings parents recursive : Bool) : List Pos :=
  let otype := lowerReq lw type
  let cs :=
    if children then
      match kidsAt d.secs cur with
      | some l => ((preList l cur 0).filter (fun e =>
          (recursive || e.1.length = cur.length + 1) && matchesObj lw (some e.2) key otype false)).map (·.1)
      | Option.none => []
    else []
  let ss :=
    if siblings then
      match parentOf cur with
      | some par =>
        match kidsAt d.secs par with
        | some l => findAllIn lw par key (lowerReq lw otype) false 0 l
        | Option.none => []
      | Option.none => []
    else []
  let ps :=
    if parents then
      ((if recursive then ancestors cur else (ancestors cur).take 1).filter (fun a =>
        matchesObj lw (match a with | [] => Option.none | _ => secAt d.secs a) key otype false))
    else []
  cs ++ ss ++ ps

/-- `find_related(key, type, children, siblings, parents, recursive, findAll)` -/
def findRelated (lw : Str → Str) (d : Doc) (cur : Pos) (key type : Option Str)
    (children siblings parents recursive findAll : Bool) : Found :=
  Found.ofList findAll (findRelatedAll lw d cur key type children siblings parents recursive)

end Path
