/-
C16 — input and output types of the reader models (`Model/Reader.lean`).

* `Xml`  : what lxml hands to `XMLReader.parse_tag` — elements with tag, attributes, text and
           children, plus the non-element nodes (`node.tag` is not a string for those).
* `J`    : what `json.loads` / `yaml.safe_load` hand to `DictReader.to_odml` — JSON-like values.
* `Obj`  : the part of a created odML object the property talks about: kind, name, children.
* `Err`  : how a reader call can end other than with a document. `.leak cls` stands at every
           point where the Python code can raise something it does not convert.

Text → tree (lxml, json, yaml) is a library contract and not modelled (`Parsed` only names the
three ways `lxml.etree.XML` can end).
-/
namespace Reader

abbrev Str := List Char

/-- Kinds of lxml nodes that are not elements (their `.tag` is a function, not a `str`). -/
inductive NodeKind where
  | pi | comment | entity
  deriving DecidableEq, Repr

inductive Xml where
  | elem (tag : Str) (attrs : List (Str × Str)) (text : Option Str) (kids : List Xml)
  | other (k : NodeKind)
  deriving Repr

/-- JSON-like values. `flt` carries the `repr` of a float (floats are opaque to the reader). -/
inductive J where
  | null
  | bool (b : Bool)
  | num (i : Int)
  | flt (repr : Str)
  | str (s : Str)
  | arr (xs : List J)
  | obj (kvs : List (Str × J))
  deriving Repr

/-- The three odML object kinds (`format.Document / Section / Property`). -/
inductive Kind where
  | doc | sec | prop
  deriving DecidableEq, Repr

/-- Name of a created object: the given one, or the object's own fresh uuid. -/
inductive Name (ν : Type) where
  | given (n : ν)
  | fresh
  deriving Repr, DecidableEq

/-- A created object: kind, name, whether it was created from the parsed arguments
    (`false`: the default object the XML reader falls back to), Property and Section children. -/
inductive Obj (ν : Type) where
  | mk (kind : Kind) (name : Name ν) (made : Bool) (props secs : List (Obj ν))
  deriving Repr

namespace Obj
def kind : Obj ν → Kind | mk k _ _ _ _ => k
def name : Obj ν → Name ν | mk _ n _ _ _ => n
def made : Obj ν → Bool | mk _ _ m _ _ => m
def props : Obj ν → List (Obj ν) | mk _ _ _ p _ => p
def secs : Obj ν → List (Obj ν) | mk _ _ _ _ s => s
end Obj

/-- Exception classes other than ParserException that the modelled code can let escape. -/
inductive Leak where
  | attributeError | keyError | csvError | valueError | typeError
  | ctorError      -- whatever class an odML constructor raised
  deriving DecidableEq, Repr

inductive Err where
  | parserException
  | invalidVersion
  | leak (c : Leak)
  deriving DecidableEq, Repr

inductive Mode where
  | strict | lenient
  deriving DecidableEq, Repr

/-- Result of a reader call: the value and the number of collected warnings, or an error. -/
abbrev R (α : Type) := Except Err (α × Nat)

/-- `self.error(msg)`: ParserException in strict mode, one more warning with `ignore_errors`. -/
def raiseOrWarn (m : Mode) (w : Nat) : Except Err Nat :=
  match m with
  | .strict => .error .parserException
  | .lenient => .ok (w + 1)

/-- How `lxml.etree.XML(string, parser)` can end. -/
inductive Parsed where
  | syntaxError            -- `XMLSyntaxError`
  | valueError             -- e.g. unicode string with an encoding declaration
  | tree (x : Xml)

/-! ### Python equality and truthiness on JSON-like values (names may be any value) -/

/-- `bool` is a subclass of `int`: `True == 1`. -/
def J.norm : J → J
  | .bool b => .num (if b then 1 else 0)
  | v => v

mutual
def J.beq : J → J → Bool
  | .null, .null => true
  | .bool a, .bool b => a == b
  | .num a, .num b => a == b
  | .flt a, .flt b => a == b
  | .str a, .str b => a == b
  | .arr a, .arr b => J.beqList a b
  | .obj a, .obj b => J.beqPairs a b
  | _, _ => false
def J.beqList : List J → List J → Bool
  | [], [] => true
  | x :: xs, y :: ys => J.beq x y && J.beqList xs ys
  | _, _ => false
def J.beqPairs : List (Str × J) → List (Str × J) → Bool
  | [], [] => true
  | (k, x) :: xs, (l, y) :: ys => k == l && J.beq x y && J.beqPairs xs ys
  | _, _ => false
end

/-- Python `a == b` on the values the generator puts into name positions
    (top-level `True == 1`; dictionaries compared in key order). -/
def J.pyEq (a b : J) : Bool := J.beq a.norm b.norm

/-- Python truthiness. -/
def J.truthy : J → Bool
  | .null => false
  | .bool b => b
  | .num i => i != 0
  | .flt r => !(r == "0.0".toList || r == "-0.0".toList)
  | .str s => !s.isEmpty
  | .arr xs => !xs.isEmpty
  | .obj kvs => !kvs.isEmpty

def J.isDict : J → Bool
  | .obj _ => true
  | _ => false

def J.isList : J → Bool
  | .arr _ => true
  | _ => false

end Reader
