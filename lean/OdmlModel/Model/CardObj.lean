/-
M-CardObj: the Python objects `format_cardinality` stores as bounds.

  odml/util.py            format_cardinality   (the `int(...)` around every returned bound)

`Model/Card.lean` describes a stored cardinality by the *values* of its bounds (`Option Int`), which
cannot tell `True` from `1` (`True == 1`, `isinstance(True, int)`).  The writers can: `str((True, 5))`
is `'(True, 5)'`, which `parse_cardinality` does not read back.  This file follows the same Python
statements once more, this time returning the objects themselves: `None`, an exact `int`, or a
`bool`.  The function is parametrised by what the `return` statements do with an accepted bound:

  * `pyInt`   - `return int(v_min), int(v_max)`  (the code since the repair): a bool becomes the int
                it equals;
  * `asGiven` - `return v_min, v_max`            (the code before the repair): handed back as it came.

`formatCardObj conv` and `Card.formatCard` agree on the values for every such `conv`
(`C09.fmt_obj_view`), so everything proved about `formatCard` holds for the stored objects as well.
No Mathlib.
-/
import OdmlModel.Model.Card

namespace Card
open Py

/-- A cardinality bound as the Python object that is stored. -/
inductive PyBound where
  | nul
  | int (i : Int)          -- an exact `int`
  | bool (b : Bool)        -- a `bool` (an `int` instance, but written as `True` / `False`)
  deriving Repr, DecidableEq, Inhabited

/-- The value of the bound (`True == 1`, `False == 0`). -/
def PyBound.val : PyBound → Option Int
  | .nul => none
  | .int i => some i
  | .bool b => some (if b then 1 else 0)

/-- `None` or an exact `int`: what the property calls "an integer or None". -/
def PyBound.exact : PyBound → Bool
  | .bool _ => false
  | _ => true

/-- A stored cardinality as Python object: `None` or a 2-tuple of bounds. -/
abbrev ObjCard := Option (PyBound × PyBound)

/-- The value view used by `Model/Card.lean`. -/
def ObjCard.view : ObjCard → Card
  | none => none
  | some (a, b) => some (a.val, b.val)

inductive ObjRes where
  | ok (c : ObjCard)
  | valueError
  deriving Repr, DecidableEq

def ObjRes.view : ObjRes → Res
  | .ok c => .ok c.view
  | .valueError => .valueError

/-- `int(x)` for an `int` instance `x` (only ever applied to one): the exact int it equals. -/
def pyInt (v : In) : PyBound :=
  match v.asInt with
  | some i => .int i
  | none => .nul

/-- The bound handed back as it came (the `return` statements before the repair). -/
def asGiven : In → PyBound
  | .bool b => .bool b
  | .int i => .int i
  | _ => .nul

/-- odml/util.py `format_cardinality`, statement by statement, returning the stored objects.
    All tests are made on the value as given; `conv` is applied in the `return` statements only. -/
def formatCardObj (conv : In → PyBound) (v : In) : ObjRes :=
  if !v.truthy then .ok none
  else
    match v with
    | .seq _ [a, b] =>
      if !a.truthy && !b.truthy then .ok none
      else
        match nonnegInt a, nonnegInt b with
        | some x, some y =>
          if y ≥ x then .ok (some (conv a, conv b))                -- return int(v_min), int(v_max)
          else if !a.truthy then .ok (some (.nul, conv b))         -- return None, int(v_max)
          else if !b.truthy then .ok (some (conv a, .nul))         -- return int(v_min), None
          else .valueError
        | none, some _ => if !a.truthy then .ok (some (.nul, conv b)) else .valueError
        | some _, none => if !b.truthy then .ok (some (conv a, .nul)) else .valueError
        | none, none => .valueError
    | _ =>
      match v.asInt with
      | some i => if i > 0 then .ok (some (.nul, conv v)) else .valueError   -- return None, int(in_val)
      | none => .valueError

/-- What `conv` may be: an int instance is turned into a bound of the same value. -/
def KeepsValue (conv : In → PyBound) : Prop := ∀ v i, v.asInt = some i → (conv v).val = some i

/-- The int a bool equals; everything else unchanged. -/
def In.unboolAtom : In → In
  | .bool b => .int (if b then 1 else 0)
  | v => v

/-- The same setting with every bool bound replaced by the int it equals
    (`True` -> `1`, `(True, 5)` -> `(1, 5)`, `[None, False]` -> `[None, 0]`). -/
def In.unbool : In → In
  | .seq t xs => .seq t (xs.map In.unboolAtom)
  | v => v.unboolAtom

/-- The three setters with the stored objects: a raise keeps the old object. -/
def setCardObj (conv : In → PyBound) (old : ObjCard) (v : In) : ObjCard × Bool :=
  match formatCardObj conv v with
  | .ok c => (c, true)
  | .valueError => (old, false)

/-! ### What the writers make of the stored objects -/

/-- `str(bound)`: `None`, the digits, `True` / `False`. -/
def renderPyBound : PyBound → List Char
  | .nul => "None".toList
  | .int i => intToStr i
  | .bool b => if b then "True".toList else "False".toList

/-- `str(card)` of the stored tuple, as the XML writer emits it. -/
def renderObjText : PyBound × PyBound → List Char
  | (a, b) => ['('] ++ renderPyBound a ++ [',', ' '] ++ renderPyBound b ++ [')']

/-- What the JSON / YAML writers put into a slot of the list (and the loaders read back). -/
def dinOfPyBound : PyBound → DIn
  | .nul => .nul
  | .int i => .int i
  | .bool b => .bool b

end Card
