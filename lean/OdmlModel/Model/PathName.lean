/-
The `name` setters of `odml/section.py` (`BaseSection.name`) and `odml/property.py`
(`BaseProperty.name`) - the two are twins - as far as the sibling names go, which is what the path
theorems of C14 depend on (`Doc.wf`: sibling names pairwise distinct and plain).
Added after seeded round 5: the property's hypothesis "sibling names are distinct" is kept by the
library's own setter only because the "an empty name falls back to the id" step comes BEFORE the
sibling check.

    if self.name == new_value: return
    if not new_value:                       # None, ""
        new_value = self._id
        if self.name == new_value: return
    if new_value in parent.sections: raise KeyError     # (parent.properties for a Property)
    self._name = new_value

The child list is seen as the list of its names; the object is the entry at index `i`.
Tied to /repo by `harness/c14.py` (stream `setname`) on every run.
-/
import OdmlModel.Model.PathTree

namespace PathName
open PathTree

/-- `not new_value` for the values a name is set to: `None` and `""` -/
def falsy : Option Str → Bool
  | none => true
  | some s => s == []

inductive SetRes where
  | ok (names : List Str)
  | keyError
  deriving DecidableEq, Repr

/-- the name that ends up stored: the id when the given one is empty -/
def stored (oid : Str) (new : Option Str) : Str :=
  if falsy new then oid else new.getD []

/-- `child.name = new` for the child at index `i` of a child list whose entries are called `sibs`;
    `oid` is the id of that child. `keyError`: refused, nothing changed. -/
def setName (sibs : List Str) (i : Nat) (oid : Str) (new : Option Str) : SetRes :=
  match sibs[i]? with
  | none => .ok sibs
  | some cur =>
    if new = some cur then .ok sibs
    else if falsy new && cur == stored oid new then .ok sibs
    else if sibs.contains (stored oid new) then .keyError
    else .ok (sibs.set i (stored oid new))

/-- The variant seeded in round 5 (kept for the counterexample theorem only): the sibling check
    runs on the value as given, the fall-back to the id happens in the final assignment. -/
def setNameLate (sibs : List Str) (i : Nat) (oid : Str) (new : Option Str) : SetRes :=
  match sibs[i]? with
  | none => .ok sibs
  | some cur =>
    if new = some cur then .ok sibs
    else if (match new with | some n => sibs.contains n | none => false) then .keyError
    else .ok (sibs.set i (stored oid new))

end PathName
