/-
M-Rdf: RDF export and import of odML documents.

  odml/tools/rdf_converter.py   RDFWriter.convert_to_rdf / save_document / save_section /
                                save_property / save_odml_values / save_odml_list /
                                save_repository_node / _get_section_subclass /
                                _parse_custom_subclasses / get_rdf_str (format check)
                                RDFReader.to_odml / parse_document / parse_section /
                                parse_property / _check_mandatory_attrs
  odml/format.py                the `_rdf_map` tables and `_rdf_type` (regenerated into
                                `Gen.Format.*RdfMap`, `*RdfType` on every run)
  odml/tools/dict_parser.py     DictReader.to_odml (attribute-name mapping, constructors)
  rdflib                        Graph = *set* of triples; `graph.objects(s, p)`; `Seq(graph, s)`

An rdflib graph is a set of triples with unspecified iteration order.  The writer is modelled
as the *list* of triples it adds (statement order); the reader only looks triples up by
subject/predicate, which is modelled by filters over the list, so that every statement about
the reader can be (and is, see `Proofs/Rdf.lean`) proved for every permutation of the list.

Fresh nodes: the writer names the `rdf:Seq` node of a Property and the terminology node of a
repository URL `ns + uuid4()`.  The model names them canonically (`Term.seqn <property id>`,
`Term.tnode <url>`); the harness renames the implementation's nodes the same way.

No Mathlib.  Strings are `List Char`; table keys stay `String` (they index the generated tables).
-/
import OdmlModel.Py.Str
import OdmlModel.Generated.FormatTables

namespace Rdf

abbrev Str := List Char

/-! ## Terms, triples, graphs -/

inductive Term where
  | iri (s : Str)
  | seqn (pid : Str)            -- fresh node: value sequence of Property `pid`
  | tnode (url : Str)           -- fresh node: terminology with URL `url`
  | lit (lex : Str) (dt : Str)  -- literal; `dt = []` is a plain literal
  deriving DecidableEq, Repr, Inhabited

structure Triple where
  s : Term
  p : Term
  o : Term
  deriving DecidableEq, Repr, Inhabited

abbrev Graph := List Triple

/-! ## Vocabulary -/

def ns : Str := "https://g-node.org/odml-rdf#".toList
def rdfNs : Str := "http://www.w3.org/1999/02/22-rdf-syntax-ns#".toList
def rdfsNs : Str := "http://www.w3.org/2000/01/rdf-schema#".toList
def xsdNs : Str := "http://www.w3.org/2001/XMLSchema#".toList

def rdfType : Term := .iri (rdfNs ++ "type".toList)
def rdfSeq : Term := .iri (rdfNs ++ "Seq".toList)
def rdfsClass : Term := .iri (rdfsNs ++ "Class".toList)
def rdfsSubClassOf : Term := .iri (rdfsNs ++ "subClassOf".toList)
def xsdDate : Str := xsdNs ++ "date".toList
def xsdDouble : Str := xsdNs ++ "double".toList
def xsdInteger : Str := xsdNs ++ "integer".toList
def xsdBoolean : Str := xsdNs ++ "boolean".toList

/-- `URIRef(ODML_NS.Hub)` -/
def hub : Term := .iri (ns ++ "Hub".toList)
def hasDocument : Term := .iri (ns ++ "hasDocument".toList)
def hasTerminology : Term := .iri (ns ++ "hasTerminology".toList)
def hasFileName : Term := .iri (ns ++ "hasFileName".toList)

/-- `URIRef(ODML_NS + str(obj.id))` -/
def node (id : Str) : Term := .iri (ns ++ id)

/-- The prefix `str(RDF) + "_"` of the membership predicates `rdf:_1, rdf:_2, …`. -/
def liPrefix : Str := rdfNs ++ ['_']
/-- `URIRef(str(RDF) + "_" + str(n))` -/
def li (n : Nat) : Term := .iri (liPrefix ++ Py.natToDigits n)

/-! ## Documents as the writer sees them -/

/-- The Python values of the non-list attributes that reach `Literal(...)`. -/
inductive PyVal where
  | str (s : Str)
  | float (repr : Str)          -- a float, given by its `repr`
  | int (i : Int)
  | date (iso : Str)            -- a `datetime.date`, given by `isoformat()`
  deriving DecidableEq, Repr, Inhabited

/-- `repr(0.0)`, `repr(-0.0)` -/
def reprIsZero (r : Str) : Bool := r == "0.0".toList || r == "-0.0".toList

/-- Python truthiness (`not curr_val` is `!truthy`). -/
def PyVal.truthy : PyVal → Bool
  | .str s => !s.isEmpty
  | .float r => !reprIsZero r
  | .int i => i != 0
  | .date _ => true

/-- `not (v is None or v == "" or v == [])` for a value that is not `None` (save_property). -/
def PyVal.isSet : PyVal → Bool
  | .str s => !s.isEmpty
  | _ => true

/-- `Literal(v)`: the lexical form and datatype rdflib chooses for a Python value
    (library contract, validated by the harness on every graph). -/
def PyVal.toLit : PyVal → Term
  | .str s => .lit s []
  | .float r => .lit r xsdDouble
  | .int i => .lit (Py.intToStr i) xsdInteger
  | .date d => .lit d xsdDate

/-- `Literal(v, datatype=XSD.date)` -/
def PyVal.toDateLit : PyVal → Term
  | .str s => .lit s xsdDate
  | .float r => .lit r xsdDate
  | .int i => .lit (Py.intToStr i) xsdDate
  | .date d => .lit d xsdDate

/-- A value of a Property, as the literal `Literal(value)` produces (lexical form, datatype). -/
structure Lit where
  lex : Str
  dt : Str
  deriving DecidableEq, Repr, Inhabited

def Lit.toTerm (v : Lit) : Term := .lit v.lex v.dt

/-- Attribute dictionary: python attribute name ↦ value; an absent key is `None`. -/
abbrev Attrs := List (String × PyVal)

structure PropT where
  id : Str
  attrs : Attrs           -- name, definition, dtype, unit, uncertainty, reference, value_origin
  values : List Lit
  deriving Repr, Inhabited

inductive SecT where
  | mk (id : Str) (attrs : Attrs) (props : List PropT) (subs : List SecT)
  deriving Repr, Inhabited

def SecT.id : SecT → Str | .mk i _ _ _ => i
def SecT.attrs : SecT → Attrs | .mk _ a _ _ => a
def SecT.props : SecT → List PropT | .mk _ _ p _ => p
def SecT.subs : SecT → List SecT | .mk _ _ _ s => s

structure DocT where
  id : Str
  attrs : Attrs           -- author, date, version, repository
  origin : Option Str     -- `origin_file_name`
  secs : List SecT
  deriving Repr, Inhabited

/-! ## Writer -/

/-- Writer configuration: the `rdf_subclassing` flag and the default `section_subclasses`
    dictionary (as loaded from the yaml resource) before the custom entries are merged in. -/
structure Cfg where
  subclassing : Bool
  subclasses : List (Str × Str)
  deriving Repr, Inhabited

/-- Python `dict.__setitem__` on an association list (position of an existing key is kept). -/
def dictSet (d : List (Str × Str)) (k v : Str) : List (Str × Str) :=
  if d.any (fun e => e.1 == k) then d.map (fun e => if e.1 == k then (k, v) else e)
  else d ++ [(k, v)]

/-- `string.whitespace` -/
def isAsciiWs (c : Char) : Bool := c == ' ' || c == '\t' || c == '\n' || c == '\r' || c.toNat == 11 || c.toNat == 12

/-- `_parse_custom_subclasses`: `none` = `ValueError` (a value contains whitespace), otherwise
    the updated dictionary. -/
def parseCustomSubclasses (dflt custom : List (Str × Str)) : Option (List (Str × Str)) :=
  if custom.any (fun e => e.2.any isAsciiWs) then none
  else some (custom.foldl (fun d e => dictSet d e.1 e.2) dflt)

/-- `RDFWriter.__init__`: `custom_subclasses and isinstance(custom_subclasses, dict)` -/
def mkCfg (subclassing : Bool) (dflt custom : List (Str × Str)) : Option Cfg :=
  if custom.isEmpty then some ⟨subclassing, dflt⟩
  else (parseCustomSubclasses dflt custom).map (fun d => ⟨subclassing, d⟩)

/-- `_get_section_subclass` -/
def sectionSubclass (cfg : Cfg) (attrs : Attrs) : Option Term :=
  match attrs.lookup "type" with
  | some (.str t) =>
    if t.isEmpty then none
    else match cfg.subclasses.lookup t with
      | some c => some (.iri (ns ++ c))
      | none => none
  | _ => none

/-- The numbered membership triples `rdf:_n, rdf:_n+1, …` of a sequence node. -/
def seqItems (seq : Term) : Nat → List Lit → Graph
  | _, [] => []
  | n, v :: vs => ⟨seq, li n, v.toTerm⟩ :: seqItems seq (n + 1) vs

/-- `save_odml_values` -/
def saveValues (parent pred : Term) (pid : Str) (vals : List Lit) : Graph :=
  let seq := Term.seqn pid
  ⟨seq, rdfType, rdfSeq⟩ :: ⟨parent, pred, seq⟩ :: seqItems seq 1 vals

/-- `save_repository_node`.  The node typed `URIRef(url)` is looked up in the graph and created
    (with its Hub link) when missing; with the canonical name `tnode url` for that node the set
    of triples in the graph is the same whether or not it existed before.
    (Assumes `url` is not the IRI of an RDF class that occurs as a type in the graph.) -/
def saveRepositoryNode (parent pred : Term) (url : Str) : Graph :=
  let tn := Term.tnode url
  [⟨tn, rdfType, .iri url⟩, ⟨hub, hasTerminology, tn⟩, ⟨parent, pred, tn⟩]

/-- lexical form of `Literal(v)` used as a repository URL -/
def PyVal.lex : PyVal → Str
  | .str s => s
  | .float r => r
  | .int i => Py.intToStr i
  | .date d => d

/-- One step of the `for k in fmt.rdf_map_keys` loop of `save_property`. -/
def savePropertyKey (p : PropT) (kp : String × String) : Graph :=
  let n := node p.id
  let pred := Term.iri kp.2.toList
  if kp.1 == "value" then
    -- `getattr(prop, "values")`; skipped when `[]`
    if p.values.isEmpty then [] else saveValues n pred p.id p.values
  else if kp.1 == "id" then []
  else match p.attrs.lookup kp.1 with
    | none => []
    | some v => if v.isSet then [⟨n, pred, v.toLit⟩] else []

/-- `save_property` -/
def saveProperty (p : PropT) : Graph :=
  ⟨node p.id, rdfType, .iri Gen.Format.propertyRdfType.toList⟩ ::
    Gen.Format.propertyRdfMap.flatMap (savePropertyKey p)

/-- `save_odml_list` for Properties. -/
def savePropList (parent pred : Term) (ps : List PropT) : Graph :=
  ps.flatMap (fun p => ⟨parent, pred, node p.id⟩ :: saveProperty p)

/-- The class triples and the type of a Section node. -/
def sectionTypeTriples (cfg : Cfg) (n : Term) (attrs : Attrs) : Graph :=
  let base := Term.iri Gen.Format.sectionRdfType.toList
  match (if cfg.subclassing then sectionSubclass cfg attrs else none) with
  | some sub => [⟨base, rdfType, rdfsClass⟩, ⟨sub, rdfType, rdfsClass⟩,
                 ⟨sub, rdfsSubClassOf, base⟩, ⟨n, rdfType, sub⟩]
  | none => [⟨n, rdfType, base⟩]

/-- A literal-valued attribute step of `save_section` (not `id`, lists or repository). -/
def saveSecAttr (n : Term) (attrs : Attrs) (kp : String × String) : Graph :=
  match attrs.lookup kp.1 with
  | none => []
  | some v =>
    if !v.truthy then []
    else if kp.1 == "repository" then saveRepositoryNode n (.iri kp.2.toList) v.lex
    else [⟨n, .iri kp.2.toList, v.toLit⟩]

mutual
/-- `save_section` -/
def saveSection (cfg : Cfg) : SecT → Graph
  | .mk id attrs props subs =>
    sectionTypeTriples cfg (node id) attrs ++
    Gen.Format.sectionRdfMap.flatMap (fun kp =>
      if kp.1 == "id" then []
      else if kp.1 == "sections" then saveSecList cfg (node id) (.iri kp.2.toList) subs
      else if kp.1 == "properties" then savePropList (node id) (.iri kp.2.toList) props
      else saveSecAttr (node id) attrs kp)
/-- `save_odml_list` for Sections. -/
def saveSecList (cfg : Cfg) (parent pred : Term) : List SecT → Graph
  | [] => []
  | s :: ss => (⟨parent, pred, node s.id⟩ :: saveSection cfg s) ++ saveSecList cfg parent pred ss
end

/-- A literal-valued attribute step of `save_document`. -/
def saveDocAttr (n : Term) (attrs : Attrs) (kp : String × String) : Graph :=
  match attrs.lookup kp.1 with
  | none => []
  | some v =>
    if !v.truthy then []
    else if kp.1 == "repository" then saveRepositoryNode n (.iri kp.2.toList) v.lex
    else if kp.1 == "date" then [⟨n, .iri kp.2.toList, v.toDateLit⟩]
    else [⟨n, .iri kp.2.toList, v.toLit⟩]

/-- `str(None)` -/
def noneStr : Str := "None".toList

/-- `save_document` -/
def saveDocument (cfg : Cfg) (d : DocT) : Graph :=
  let n := node d.id
  [⟨n, rdfType, .iri Gen.Format.documentRdfType.toList⟩,
   ⟨hub, hasDocument, n⟩,
   -- `hasattr(doc, "origin_file_name")` holds for every Document; `Literal(None)` is "None"
   ⟨n, hasFileName, .lit (d.origin.getD noneStr) []⟩] ++
  Gen.Format.documentRdfMap.flatMap (fun kp =>
    if kp.1 == "id" then []
    else if kp.1 == "sections" then saveSecList cfg n (.iri kp.2.toList) d.secs
    else saveDocAttr n d.attrs kp)

/-- `convert_to_rdf` -/
def exportRdf (cfg : Cfg) (ds : List DocT) : Graph := ds.flatMap (saveDocument cfg)

/-- `get_rdf_str`: the format check against `RDF_CONVERSION_FORMATS` precedes the conversion. -/
def formatAccepted (formats : List String) (fmt : String) : Bool := formats.contains fmt

/-! ## Reader -/

inductive RErr where
  | parser        -- ParserException (missing name)
  | recursion     -- cyclic hasSection chain: RecursionError
  | other         -- a node that is not `…#id`, a malformed `rdf:_x` predicate
  deriving DecidableEq, Repr

/-- `list(graph.objects(subject=s, predicate=p))`, in the iteration order of the graph. -/
def objects (g : Graph) (s p : Term) : List Term :=
  (g.filter (fun t => t.s == s && t.p == p)).map (·.o)

/-- `uri.split("#", 1)[1]` : the text after the first `#`. -/
def afterHash : Str → Option Str
  | [] => none
  | c :: cs => if c == '#' then some cs else afterHash cs

def termText : Term → Str
  | .iri s => s
  | .seqn p => "_:seq:".toList ++ p
  | .tnode u => "_:term:".toList ++ u
  | .lit l _ => l

/-- `str(term.toPython())` (library contract for typed literals with canonical lexical form). -/
def pyStrOf : Term → Str
  | .lit l dt =>
    if dt == xsdBoolean then
      (if l == "true".toList || l == "1".toList then "True".toList else "False".toList)
    else l
  | t => termText t

/-- `p.startswith(LI_INDEX)`, `int(p.replace(LI_INDEX, ""))` -/
def stripPrefix : Str → Str → Option Str
  | [], s => some s
  | _ :: _, [] => none
  | a :: as, b :: bs => if a == b then stripPrefix as bs else none

def liIndex : Term → Option (Option Nat)
  | .iri s =>
    match stripPrefix liPrefix s with
    | some d => if Py.isDigitStr d then some (some (Py.natOfDigits d)) else some none
    | none => none
  | _ => none

def leIdx (a b : Nat × Term) : Bool := a.1 ≤ b.1

/-- `Seq(graph, subject)`: the `(index, object)` pairs of the `rdf:_n` predicates of the
    subject, sorted by index.  `none`: a predicate `rdf:_x` whose `x` is not a number. -/
def seqPairs (g : Graph) (s : Term) : List (Option (Nat × Term)) :=
  (g.filter (fun t => t.s == s)).filterMap (fun t =>
    match liIndex t.p with
    | none => none
    | some none => some none
    | some (some i) => some (some (i, t.o)))

def allSome {α} : List (Option α) → Option (List α)
  | [] => some []
  | none :: _ => none
  | some a :: r => (allSome r).map (a :: ·)

def readSeq (g : Graph) (s : Term) : Except RErr (List Term) :=
  match allSome (seqPairs g s) with
  | none => .error .other
  | some ps => .ok ((ps.mergeSort leIdx).map (·.2))

def mapE {α β ε} (f : α → Except ε β) : List α → Except ε (List β)
  | [] => .ok []
  | a :: as =>
    match f a with
    | .error e => .error e
    | .ok b =>
      match mapE f as with
      | .error e => .error e
      | .ok bs => .ok (b :: bs)

def termToLit : Term → Lit
  | .lit l dt => ⟨l, dt⟩
  | t => ⟨termText t, []⟩

/-- What the odML constructor makes of the string the reader hands over for attribute `k`:
    `Document.date` (setter) parses it to a date; everything else is stored as the string it is
    — including `Property.uncertainty`, because `Property.__init__` bypasses the setter. -/
def importAttr (k : String) (o : Term) : PyVal :=
  if k == "date" then .date (pyStrOf o)
  else .str (pyStrOf o)

/-- The keys whose value is taken as `str(elems[0].toPython())`. -/
def plainKeys (table : List (String × String)) : List (String × String) :=
  table.filter (fun kp => !(kp.1 == "id" || kp.1 == "sections" || kp.1 == "properties" || kp.1 == "value"))

/-- The `elif elems:` branch for all plain keys, in table order. -/
def readAttrs (g : Graph) (uri : Term) (table : List (String × String)) : Attrs :=
  (plainKeys table).filterMap (fun kp =>
    match objects g uri (.iri kp.2.toList) with
    | [] => none
    | o :: _ => some (kp.1, importAttr kp.1 o))

/-- `uri.split("#", 1)[1]` for the `id` key of a table (absent key: no id, the constructor
    would invent one — reported as `other`). -/
def readId (uri : Term) (table : List (String × String)) : Except RErr Str :=
  match table.lookup "id", uri with
  | some _, .iri s => match afterHash s with
    | some i => .ok i
    | none => .error .other
  | _, _ => .error .other

def childObjects (g : Graph) (uri : Term) (table : List (String × String)) (k : String) : List Term :=
  match table.lookup k with
  | some pred => objects g uri (.iri pred.toList)
  | none => []

/-- `_check_mandatory_attrs` -/
def hasName (a : Attrs) : Bool := (a.lookup "name").isSome

/-- `parse_property` followed by `Property(**attrs)` -/
def parseProperty (g : Graph) (uri : Term) : Except RErr PropT :=
  match readId uri Gen.Format.propertyRdfMap with
  | .error e => .error e
  | .ok id =>
    let attrs := readAttrs g uri Gen.Format.propertyRdfMap
    match childObjects g uri Gen.Format.propertyRdfMap "value" with
    | [] => if hasName attrs then .ok ⟨id, attrs, []⟩ else .error .parser
    | seq :: _ =>
      match readSeq g seq with
      | .error e => .error e
      | .ok vs => if hasName attrs then .ok ⟨id, attrs, vs.map termToLit⟩ else .error .parser

/-- `Section(...)`: `type` defaults to "n.s." -/
def withDefaultType (a : Attrs) : Attrs :=
  if (a.lookup "type").isSome then a else a ++ [("type", .str "n.s.".toList)]

/-- `parse_section` followed by `Section(**attrs)` and the `append`s.  The recursion follows
    `hasSection` edges of the graph; `fuel` bounds its depth (a cyclic graph exhausts it). -/
def parseSection (g : Graph) : Nat → Term → Except RErr SecT
  | 0, _ => .error .recursion
  | fuel + 1, uri =>
    match readId uri Gen.Format.sectionRdfMap with
    | .error e => .error e
    | .ok id =>
      let attrs := readAttrs g uri Gen.Format.sectionRdfMap
      match mapE (parseSection g fuel) (childObjects g uri Gen.Format.sectionRdfMap "sections") with
      | .error e => .error e
      | .ok subs =>
        match mapE (parseProperty g) (childObjects g uri Gen.Format.sectionRdfMap "properties") with
        | .error e => .error e
        | .ok props =>
          if hasName attrs then .ok (.mk id (withDefaultType attrs) props subs) else .error .parser

/-- `parse_document` followed by `Document(**attrs)`; `origin_file_name` is not read back. -/
def parseDocument (g : Graph) (fuel : Nat) (uri : Term) : Except RErr DocT :=
  match readId uri Gen.Format.documentRdfMap with
  | .error e => .error e
  | .ok id =>
    let attrs := readAttrs g uri Gen.Format.documentRdfMap
    match mapE (parseSection g fuel) (childObjects g uri Gen.Format.documentRdfMap "sections") with
    | .error e => .error e
    | .ok secs => .ok ⟨id, attrs, none, secs⟩

/-- `RDFReader.to_odml` -/
def importRdf (g : Graph) : Except RErr (List DocT) :=
  mapE (parseDocument g (g.length + 1)) (objects g hub hasDocument)

/-! ## Specification vocabulary (computable; also evaluated by the driver per case) -/

mutual
/-- A Section and all Sections below it. -/
def allSecs : SecT → List SecT
  | .mk id a ps ss => .mk id a ps ss :: allSecsL ss
def allSecsL : List SecT → List SecT
  | [] => []
  | s :: r => allSecs s ++ allSecsL r
end

def docSecs (ds : List DocT) : List SecT := allSecsL (ds.flatMap (·.secs))
def docProps (ds : List DocT) : List PropT := (docSecs ds).flatMap (·.props)

def hubName : Str := "Hub".toList

def allIds (ds : List DocT) : List Str :=
  ds.map (·.id) ++ ((docSecs ds).map (·.id) ++ (docProps ds).map (·.id))

/-- The attributes the property compares: names, types, definitions, references, units,
    uncertainties, value origins, dtypes (and the Document's author, version, date). -/
def cmpKeys : List String :=
  ["name", "type", "definition", "reference", "unit", "uncertainty", "value_origin", "dtype",
   "author", "version", "date"]

/-- A value the RDF route can carry for attribute `k`: a non-empty string (not for the date),
    a date for the Document's date, a float for the uncertainty. -/
def reprVal (k : String) : PyVal → Bool
  | .str s => !s.isEmpty && k != "date"
  | .date _ => k == "date"
  | .float _ => k == "uncertainty"
  | .int _ => false

def attrsReprB (tbl : List (String × String)) (a : Attrs) : Bool :=
  a.all (fun e => ((plainKeys tbl).map (·.1)).contains e.1 &&
    (!cmpKeys.contains e.1 || reprVal e.1 e.2))

def propReprB (p : PropT) : Bool :=
  attrsReprB Gen.Format.propertyRdfMap p.attrs && (p.attrs.lookup "name").isSome
def secReprB (s : SecT) : Bool :=
  attrsReprB Gen.Format.sectionRdfMap s.attrs && (s.attrs.lookup "name").isSome &&
    (s.attrs.lookup "type").isSome
def docReprB (d : DocT) : Bool := attrsReprB Gen.Format.documentRdfMap d.attrs

/-- Decidable form of `RdfRepr`. -/
def rdfReprB (ds : List DocT) : Bool :=
  ds.all docReprB && (docSecs ds).all secReprB && (docProps ds).all propReprB

/-- Decidable form of `WFDocs`. -/
def wfDocsB (ds : List DocT) : Bool := decide ((hubName :: allIds ds).Nodup)

def noUncB (ds : List DocT) : Bool :=
  ds.all (fun d => (d.attrs.lookup "uncertainty").isNone) &&
  (docSecs ds).all (fun s => (s.attrs.lookup "uncertainty").isNone &&
    s.props.all (fun p => (p.attrs.lookup "uncertainty").isNone))

end Rdf
