/-
M-Batch: the batch conversion tools and what they do to the file system.

  odml/scripts/odml_convert.py                 run_conversion, main
  odml/scripts/odml_to_rdf.py                  run_rdf_export, run_conversion, main
  odml/tools/converters/format_converter.py    FormatConverter.convert_dir, _convert_file
  odml/tools/converters/version_converter.py   VersionConverter.write_to_file

The file system is `FS.Fs`.  What happens *inside* one file's conversion is arbitrary and may
fail: `Tool.loads` (does `odml.load` return), `Tool.convert` (VersionConverter.convert: raises, or
yields text with / without an `<odML ` root), `Tool.render` (reading a current-version file and
rendering it as RDF / odML), all of them functions of the path and of the bytes found there.
What is modelled exactly is the control flow around them — the nested `try/except` of the two
command line tools, the absence of one in `convert_dir` — and where the outputs go.

Inputs are an arbitrary list of paths (any order, any nesting).  No Mathlib.
-/
import OdmlModel.Model.FS

namespace Batch
open FS

/-! ### Path arithmetic (os.path on POSIX) -/

/-- `os.path.basename(p)` -/
def basename (p : Path) : List Char := (p.reverse.takeWhile (· != '/')).reverse

/-- `p[:len(p) - len(basename(p))]`: the directory part, with its trailing `/`. -/
def dirPart (p : Path) : List Char := (p.reverse.dropWhile (· != '/')).reverse

/-- `os.path.splitext(name)` for a name without `/`: the extension starts at the last dot,
    unless only dots precede it. -/
def splitext (n : List Char) : List Char × List Char :=
  let r := n.reverse
  let extRev := r.takeWhile (· != '.')
  if extRev.length == n.length then (n, [])
  else
    let root := (r.drop (extRev.length + 1)).reverse
    if root.all (· == '.') then (n, []) else (root, '.' :: extRev.reverse)

/-- `os.path.splitext(p)` for a full path. -/
def splitextPath (p : Path) : Path × List Char :=
  let s := splitext (basename p)
  (dirPart p ++ s.1, s.2)

/-- `os.path.splitext(os.path.basename(p))[0]` -/
def stem (p : Path) : List Char := (splitext (basename p)).1

def endsWith (s suffix : List Char) : Bool := suffix.isSuffixOf s

/-- `os.path.join(a, b)` -/
def pyJoin (a b : Path) : Path :=
  if b.head? == some '/' then b
  else if a.isEmpty || a.getLast? == some '/' then a ++ b
  else a ++ '/' :: b

/-! ### Per-file conversions: arbitrary -/

structure Tool where
  /-- `odml.load(file_path, source_format)` returns (whatever it returns). -/
  loads : Path → Option Bytes → Bool
  /-- `VersionConverter(file).convert(source_format)`: raises, or returns the converted text;
      `none` = text without an `<odML ` root (nothing is written then). -/
  convert : Path → Option Bytes → Except Exc (Option Bytes)
  /-- reading the current-version file at a path and rendering it (RDF export / odml.save /
      RDFWriter): raises or returns the text. Nothing is written when it raises (C07). -/
  render : Path → Option Bytes → Except Exc Bytes

inductive Report where
  | skipped | converted | nothing | convError
  | exported | convertedExported | rdfError
  | done
  deriving DecidableEq, Repr

abbrev Step := Path → Fs → Fs × Except Exc Report

/-- `if not filename.endswith((".xml", ".odml")): filename = "%s.xml" % filename` -/
def ensureXmlExt (p : Path) : Path :=
  if endsWith p ".xml".toList || endsWith p ".odml".toList then p else p ++ ".xml".toList

/-- `VersionConverter(src).write_to_file(dst, source_format)`: convert, then (only if there is
    an `<odML ` root) open and write. `.ok wrote`. -/
def writeToFile (T : Tool) (src dst : Path) (fs : Fs) : Fs × Except Exc Bool :=
  match T.convert src (fs src) with                  -- data = self.convert(backend)
  | .error e => (fs, .error e)
  | .ok none => (fs, .ok false)                      -- if data and "<odML " in data:
  | .ok (some data) => (fs.write (ensureXmlExt dst) data, .ok true)

/-- `os.path.join(output_dir, "%s_conv.xml" % splitext(basename(file_path))[0])` -/
def convOut (outDir f : Path) : Path := outDir ++ '/' :: (stem f ++ "_conv.xml".toList)

/-- `os.path.join(export_dir, "%s.rdf" % out_name)` with `out_name = splitext(basename(named))[0]`:
    the RDF file is named after the file `named`. -/
def rdfOut (rdfDir named : Path) : Path := rdfDir ++ '/' :: (stem named ++ ".rdf".toList)

/-! ### odmlconvert: run_conversion, one file -/

def convStep (T : Tool) (outDir : Path) : Step := fun f fs =>
  if T.loads f (fs f) then (fs, .ok .skipped)        -- try: odml.load(...) ; "Skip recent version"
  else                                               -- except Exception:
    match writeToFile T f (convOut outDir f) fs with --   try: VerConf(file_path).write_to_file(outfile, fmt)
    | (fs1, .ok wrote) => (fs1, .ok (if wrote then .converted else .nothing))
    | (fs1, .error _) => (fs1, .ok .convError)       --   except Exception: report.write("[Error] …")

/-! ### odmltordf: run_rdf_export, run_conversion, one file -/

/-- `run_rdf_export(src, rdf_dir, out_name=stem(named))`: read `src`, render, write
    `<stem of named>.rdf` (`out_name=None`: `named = src`). -/
def rdfExport (T : Tool) (rdfDir src named : Path) (fs : Fs) : Fs × Except Exc Unit :=
  match T.render src (fs src) with
  | .error e => (fs, .error e)
  | .ok data => (fs.write (rdfOut rdfDir named) data, .ok ())

/-- The `except` arm of odmltordf's loop body: convert, then export the converted file **under the
    name of the original file** (`run_rdf_export(outfile, rdf_dir, out_name=out_name)`, fix b7276cb;
    before it the RDF file was named after the intermediate `<stem>_conv.xml`, see
    `rdfViaConversionLegacy`). -/
def rdfViaConversion (T : Tool) (outDir rdfDir f : Path) (fs : Fs) : Fs × Except Exc Report :=
  match writeToFile T f (convOut outDir f) fs with
  | (fs1, .error _) => (fs1, .ok .convError)         -- outer except: "[Error] version converting"
  | (fs1, .ok _) =>
    match rdfExport T rdfDir (convOut outDir f) f fs1 with
    | (fs2, .error _) => (fs2, .ok .rdfError)        -- inner except: "[Error] converting … to RDF"
    | (fs2, .ok _) => (fs2, .ok .convertedExported)

def rdfStep (T : Tool) (outDir rdfDir : Path) : Step := fun f fs =>
  if T.loads f (fs f) then                           -- try: odml.load(...)
    match rdfExport T rdfDir f f fs with             --      run_rdf_export(file_path, rdf_dir, fmt)
    | (fs1, .ok _) => (fs1, .ok .exported)
    | (fs1, .error _) => rdfViaConversion T outDir rdfDir f fs1
  else rdfViaConversion T outDir rdfDir f fs

/-- odmltordf before fix b7276cb: `run_rdf_export(outfile, rdf_dir)` named the RDF file of a
    converted file after the intermediate file, `<stem>_conv.rdf`. -/
def rdfViaConversionLegacy (T : Tool) (outDir rdfDir f : Path) (fs : Fs) : Fs × Except Exc Report :=
  match writeToFile T f (convOut outDir f) fs with
  | (fs1, .error _) => (fs1, .ok .convError)
  | (fs1, .ok _) =>
    match rdfExport T rdfDir (convOut outDir f) (convOut outDir f) fs1 with
    | (fs2, .error _) => (fs2, .ok .rdfError)
    | (fs2, .ok _) => (fs2, .ok .convertedExported)

def rdfStepLegacy (T : Tool) (outDir rdfDir : Path) : Step := fun f fs =>
  if T.loads f (fs f) then
    match rdfExport T rdfDir f f fs with
    | (fs1, .ok _) => (fs1, .ok .exported)
    | (fs1, .error _) => rdfViaConversionLegacy T outDir rdfDir f fs1
  else rdfViaConversionLegacy T outDir rdfDir f fs

/-! ### The loop -/

/-- `for curr_file in file_list:` — an exception that escapes the body ends the loop there. -/
def loop (step : Step) : List Path → Fs → Fs × Except Exc (List Report)
  | [], fs => (fs, .ok [])
  | f :: rest, fs =>
    match step f fs with
    | (fs1, .error e) => (fs1, .error e)
    | (fs1, .ok r) =>
      match loop step rest fs1 with
      | (fs2, .ok rs) => (fs2, .ok (r :: rs))
      | (fs2, .error e) => (fs2, .error e)

/-- What one file may write. -/
def convOuts (outDir : Path) (f : Path) : List Path := [convOut outDir f]
def rdfOuts (outDir rdfDir : Path) (f : Path) : List Path :=
  [convOut outDir f, rdfOut rdfDir f]

/-! ### FormatConverter.convert_dir -/

inductive ResFormat where
  | v1_1
  | odml
  | rdf (ext : List Char)        -- CONVERSION_FORMATS[res_format]
  deriving DecidableEq, Repr

/-- The output path `_convert_file` (and the writer it calls) ends up writing to. -/
def outName (fmt : ResFormat) (p : Path) : Path :=
  match fmt with
  | .v1_1 => ensureXmlExt p
  | .odml => if endsWith p ".odml".toList then p else (splitextPath p).1 ++ ".odml".toList
  | .rdf ext => if endsWith p ext then p else (splitextPath p).1 ++ ext

/-- `s.rstrip('/')` -/
def rstripSlash (s : List Char) : List Char := (s.reverse.dropWhile (· == '/')).reverse

/-- `os.path.dirname(p)` (posixpath): everything up to the last separator, trailing separators
    removed unless that is all there is. -/
def dirname (p : Path) : Path :=
  let head := dirPart p
  if !head.isEmpty && !head.all (· == '/') then rstripSlash head else head

/-- The output directory `convert_dir` makes up when none is given:
    `join(dirname(dirname(input_dir)), basename(dirname(input_dir)) + "_" + res_format)`
    with `input_dir = os.path.join(input_dir, '')`. -/
def implicitOutDir (inputDir fmt : List Char) : Path :=
  let inDir := pyJoin inputDir []
  pyJoin (dirname (dirname inDir)) (basename (dirname inDir) ++ '_' :: fmt)

/-- `out_dir = os.path.join(output_dir, dir_path[len(input_dir):])` (after the fix). -/
def mapDir (inDir outDir dirPath : Path) : Path := pyJoin outDir (dirPath.drop inDir.length)

/-- One `(dir_path, file_name)` of the walk. -/
def convertDirStep (T : Tool) (fmt : ResFormat) (mapd : Path → Path) : Path × List Char → Fs → Fs × Except Exc Report :=
  fun e fs =>
    let inFile := pyJoin e.1 e.2
    let outFile := outName fmt (pyJoin (mapd e.1) e.2)
    match fmt with
    | .v1_1 =>
      match T.convert inFile (fs inFile) with          -- VersionConverter(input).write_to_file(output)
      | .error x => (fs, .error x)
      | .ok none => (fs, .ok .nothing)
      | .ok (some data) => (fs.write outFile data, .ok .done)
    | _ =>
      match T.render inFile (fs inFile) with           -- odml.save(odml.load(in), out) / RDFWriter(...).write_file
      | .error x => (fs, .error x)
      | .ok data => (fs.write outFile data, .ok .done)

/-- No `try` around a file: the first exception ends the run. -/
def convertDirLoop (T : Tool) (fmt : ResFormat) (mapd : Path → Path) :
    List (Path × List Char) → Fs → Fs × Except Exc Unit
  | [], fs => (fs, .ok ())
  | e :: rest, fs =>
    match convertDirStep T fmt mapd e fs with
    | (fs1, .error x) => (fs1, .error x)
    | (fs1, .ok _) => convertDirLoop T fmt mapd rest fs1

/-- `re.sub(pattern, repl, s)` for a pattern without metacharacters: every non-overlapping
    occurrence, left to right (the statement before the fix, on harmless names). -/
def replaceAll (pat repl : List Char) (fuel : Nat) (s : List Char) : List Char :=
  match fuel with
  | 0 => s
  | fuel + 1 =>
    match s with
    | [] => []
    | c :: cs =>
      if !pat.isEmpty && pat.isPrefixOf (c :: cs) then repl ++ replaceAll pat repl fuel ((c :: cs).drop pat.length)
      else c :: replaceAll pat repl fuel cs

/-! ### File discovery of the two `main` functions

`main` collects its file lists with `pathlib.Path(SEARCHDIR).glob(pat)` (`-r`: `.rglob(pat)`) for the
patterns `*.odml`, `*.xml`, `*.json`, `*.yaml`, in this order (the `.odml` and `.xml` lists are
joined, the three lists are handed to `run_conversion` one after the other: one loop over the
concatenation).  The tree below SEARCHDIR is given as its entries `(directory, name)` in the
order the file system lists them (`directory` spelled as pathlib spells it: SEARCHDIR for the top).
A name matches `*<ext>` when it ends in `<ext>` (fnmatch on POSIX: case-sensitive, a leading
dot is nothing special for pathlib); `glob` looks at the top directory only, `rglob` at every
directory.  **The names of the directories play no part.** -/

/-- The endings `main` looks for, in the order of its lists. -/
def mainExts : List (List Char) := [".odml".toList, ".xml".toList, ".json".toList, ".yaml".toList]

/-- `Path(root).glob('*' + ext)` / `Path(root).rglob('*' + ext)` over the entries of the tree. -/
def globExt (root : Path) (recursive : Bool) (tree : List (Path × List Char)) (ext : List Char) :
    List Path :=
  (tree.filter fun e => endsWith e.2 ext && (recursive || e.1 == root)).map fun e => pyJoin e.1 e.2

/-- `xfiles + jfiles + yfiles` of `main`. -/
def discover (root : Path) (recursive : Bool) (tree : List (Path × List Char)) : List Path :=
  mainExts.flatMap (globExt root recursive tree)

/-- odmlconvert's `main` after the argument checks and `mkdtemp` (`outDir`). -/
def mainConvert (T : Tool) (outDir root : Path) (recursive : Bool) (tree : List (Path × List Char))
    (fs : Fs) : Fs × Except Exc (List Report) :=
  loop (convStep T outDir) (discover root recursive tree) fs

/-- odmltordf's `main` after the argument checks and the two `mkdtemp` (`outDir`, `rdfDir`). -/
def mainRdf (T : Tool) (outDir rdfDir root : Path) (recursive : Bool)
    (tree : List (Path × List Char)) (fs : Fs) : Fs × Except Exc (List Report) :=
  loop (rdfStep T outDir rdfDir) (discover root recursive tree) fs

end Batch
