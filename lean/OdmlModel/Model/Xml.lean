/-
M-Xml, part 3: XMLWriter.save_element and XMLReader on the abstract XML tree.

  odml/tools/xmlparser.py   XMLWriter.save_element, XMLReader._handle_version / parse_element /
                            parse_tag / check_mandatory_arguments / is_valid_argument / error / warn
  odml/tools/parser_utils.py odml_tuple_export
  odml/property.py, section.py, doc.py   the constructors as the reader calls them
  odml/dtypes.py            valid_type, get, int_get, boolean_get, str_get, tuple_get
  odml/format.py            tables, regenerated as Gen.Format.*

Writer and reader walk the regenerated format tables.  The text <-> tree step is lxml's
(contract).  Every definition follows the Python statement order.
-/
import OdmlModel.Py.Str
import OdmlModel.Py.Csv
import OdmlModel.Model.Card
import OdmlModel.Model.XmlCsv
import OdmlModel.Model.XmlDoc
import OdmlModel.Generated.FormatTables
import OdmlModel.Generated.DTypeTables

namespace Xml
open Py

/-! ## Format tables -/

structure Fmt where
  name : String
  args : List (String × Nat)
  map : List (String × String)

inductive Kind where | doc | sec | prop deriving DecidableEq, Repr

def fmtOf : Kind → Fmt
  | .doc => ⟨Gen.Format.documentName, Gen.Format.documentArgs, Gen.Format.documentMap⟩
  | .sec => ⟨Gen.Format.sectionName, Gen.Format.sectionArgs, Gen.Format.sectionMap⟩
  | .prop => ⟨Gen.Format.propertyName, Gen.Format.propertyArgs, Gen.Format.propertyMap⟩

/-- `fmt.arguments_keys` -/
def Fmt.keys (f : Fmt) : List String := f.args.map (·.1)
/-- `fmt.map_keys` -/
def Fmt.mapKeys (f : Fmt) : List String := f.map.map (·.1)
/-- `fmt.map(k)` -/
def Fmt.pyName (f : Fmt) (k : String) : String := (f.map.lookup k).getD k

/-- keys of `XMLReader.tags` -/
def readerTags : List String :=
  [Gen.Format.documentName, Gen.Format.sectionName, Gen.Format.propertyName]

def lowerS (s : String) : String := String.ofList (lower s.toList)

def endsWith (suf : String) (s : Str) : Bool := suf.toList.isSuffixOf s

/-! ## Writer -/

def intercal (sep : Str) : List Str → Str
  | [] => []
  | [x] => x
  | x :: xs => x ++ sep ++ intercal sep xs

/-- `str(v)` of one value. -/
def valStr : Val → Str
  | .str s => s
  | .int i => intToStr i
  | .bool b => if b then "True".toList else "False".toList
  | .tok s => s
  | .tuple xs => '(' :: (intercal [';'] xs ++ [')'])   -- only reached for malformed objects
  | .nul => "None".toList

def tupleItems : Val → List Str
  | .tuple xs => xs
  | v => [valStr v]

/-- `odml_tuple_export` -/
def tupleExport (vals : List Val) : Str :=
  '[' :: (intercal [','] (vals.map fun v => '(' :: (intercal [';'] (tupleItems v) ++ [')'])) ++ [']'])

/-- The text of the `<value>` element. -/
def valueText (p : PropT) : Str :=
  if (match p.dtype with | some d => endsWith "-tuple" d | none => false) && !p.values.isEmpty
  then tupleExport p.values
  else toCsv (p.values.map valStr)

/-- `E(k, text)` as the reader will see it again: an empty text is no text. -/
def leaf (k : String) (s : Str) : X := .elem k [] (if s.isEmpty then none else some s) []

def optLeaf (k : String) : Option Str → List X
  | none => []
  | some s => [leaf k s]

def cardLeaf (k : String) : Card.Card → List X
  | none => []
  | some c => [leaf k (Card.renderCardText c)]

/-- The id / name an in-memory object has; the writer never sees the `none` placeholders. -/
def shown (o : Option Str) : Str := o.getD []

/-- What `save_element` emits for key `k` of a Property. -/
def propKey (p : PropT) (k : String) : List X :=
  match k with
  | "id" => [leaf k (shown p.id)]
  | "name" => [leaf k (shown (p.name <|> p.id))]
  | "value" => [leaf k (valueText p)]
  | "unit" => optLeaf k p.unit
  | "definition" => optLeaf k p.definition
  | "dependency" => optLeaf k p.dependency
  | "dependencyvalue" => optLeaf k p.dependencyValue
  | "uncertainty" => optLeaf k (p.uncertainty.map (·.text))
  | "reference" => optLeaf k p.reference
  | "type" => optLeaf k p.dtype
  | "value_origin" => optLeaf k p.valueOrigin
  | "val_cardinality" => cardLeaf k p.valCard
  | _ => []

def writeProp (p : PropT) : X :=
  .elem Gen.Format.propertyName [] none (Gen.Format.propertyArgs.flatMap fun kv => propKey p kv.1)

/-- What `save_element` emits for key `k` of a Section (children already converted). -/
def secKey (id name type defn ref link repo incl : Option Str) (secs props : List X)
    (sc pc : Card.Card) (k : String) : List X :=
  match k with
  | "id" => [leaf k (shown id)]
  | "type" => optLeaf k type
  | "name" => [leaf k (shown (name <|> id))]
  | "definition" => optLeaf k defn
  | "reference" => optLeaf k ref
  | "link" => optLeaf k link
  | "repository" => optLeaf k repo
  | "section" => secs
  | "include" => optLeaf k incl
  | "property" => props
  | "sec_cardinality" => cardLeaf k sc
  | "prop_cardinality" => cardLeaf k pc
  | _ => []

mutual
def writeSec : SecT → X
  | .mk id name type defn ref link repo incl secs props sc pc =>
    .elem Gen.Format.sectionName [] none
      (Gen.Format.sectionArgs.flatMap fun kv =>
        secKey id name type defn ref link repo incl (writeSecs secs) (props.map writeProp) sc pc kv.1)
def writeSecs : List SecT → List X
  | [] => []
  | s :: ss => writeSec s :: writeSecs ss
end

def docKey (d : DocT) (k : String) : List X :=
  match k with
  | "id" => [leaf k (shown d.id)]
  | "version" => optLeaf k d.version
  | "author" => optLeaf k d.author
  | "date" => optLeaf k d.date
  | "section" => writeSecs d.secs
  | "repository" => optLeaf k d.repository
  | _ => []

/-- `XMLWriter.save_element(doc)` as a tree. -/
def writeTree (d : DocT) : X :=
  .elem Gen.Format.documentName [("version", Gen.Format.formatVersion.toList)] none
    (Gen.Format.documentArgs.flatMap fun kv => docKey d kv.1)

/-- lxml refuses these characters when an element is built (`ValueError`). -/
def xmlChar (c : Char) : Bool :=
  let n := c.toNat
  !(n < 32 && n != 9 && n != 10 && n != 13) && n != 0xFFFE && n != 0xFFFF

mutual
def xmlOk : X → Bool
  | .elem _ attrs text kids =>
    attrs.all (fun kv => kv.2.all xmlChar) && (text.getD []).all xmlChar && xmlOkList kids
def xmlOkList : List X → Bool
  | [] => true
  | x :: xs => xmlOk x && xmlOkList xs
end

/-- `any(sep in item for sep in ",\r\n")` -/
def itemHasSep (x : Str) : Bool := x.any fun c => c == ',' || c == '\r' || c == '\n'

/-- `curr_val and any(isinstance(item, str) and … for item in curr_val)` for one stored value -/
def valHasSep : Val → Bool
  | .tuple xs => xs.any itemHasSep
  | _ => false

/-- `save_element` raises `ParserException` on this Property: a non-empty n-tuple Property one of
    whose tuple items contains a comma or a line break (fix fc8b891; before, the text
    `[(a,b;c)]` was written, which no reader can load). -/
def propRefused (p : PropT) : Bool :=
  (match p.dtype with | some d => endsWith "-tuple" d | none => false) && !p.values.isEmpty &&
    p.values.any valHasSep

/-- The names of a child list as the writer's name check sees them: `isinstance(name, str)`
    names, trimmed. -/
def trimmedNames (names : List (Option Str)) : List Str := names.filterMap (fun n => n.map strip)

/-- `save_element` raises `ParserException` on this child list: a name that is blank, or equal
    after trimming to the name of an earlier sibling (fix e87b2d6; before, such a document was
    written and loaded to another document, or was refused by the strict reader). -/
def namesRefused (names : List (Option Str)) : Bool :=
  (trimmedNames names).any (fun t => t.isEmpty) || !decide (trimmedNames names).Nodup

def secNameOf : SecT → Option Str
  | .mk _ name _ _ _ _ _ _ _ _ _ _ => name

mutual
def secRefused : SecT → Bool
  | .mk _ _ _ _ _ _ _ _ secs props _ _ =>
    props.any propRefused || namesRefused (props.map (·.name)) ||
    namesRefused (secs.map secNameOf) || secsRefused secs
def secsRefused : List SecT → Bool
  | [] => false
  | s :: ss => secRefused s || secsRefused ss
end

def docRefused (d : DocT) : Bool := namesRefused (d.secs.map secNameOf) || secsRefused d.secs

inductive WErr where | valueError | parser deriving Repr, DecidableEq

/-- The writer: the tree; `ParserException` for an n-tuple item the text form cannot carry;
    `ValueError` from lxml when a text is not XML compatible. -/
def writeXml (d : DocT) : Except WErr X :=
  if docRefused d then .error .parser
  else
    let t := writeTree d
    if xmlOk t then .ok t else .error .valueError

/-! ## Reader -/

inductive Mode where | strict | lenient deriving DecidableEq, Repr

inductive RErr where
  | parser            -- odml ParserException
  | invalidVersion    -- InvalidVersionException (a ParserException)
  | leak              -- any other exception escaping the reader (KeyError, _csv.Error, …)
  | unmodelled        -- the model makes no statement about this input
  deriving DecidableEq, Repr

/-- `XMLReader.error`: raise in strict mode, one more warning in lenient mode. -/
def err (m : Mode) (w : Nat) : Except RErr Nat :=
  match m with
  | .strict => .error .parser
  | .lenient => .ok (w + 1)

/-- What `parse_tag` stores in `arguments`. -/
inductive ArgV where
  | text (t : Option Str)
  | vals (vs : List Str)
  | card (c : Card.Card)
  deriving Repr

abbrev Args := List (String × ArgV)

def getText (a : Args) (k : String) : Option Str :=
  match a.lookup k with
  | some (.text t) => t
  | _ => none

/-- Canonical text of a uuid (8-4-4-4-12 lower-case hex).  `uuid.UUID` accepts more spellings
    and normalises them; those are outside the modelled stream. -/
def isHexLower (c : Char) : Bool := c.isDigit || ('a' ≤ c && c ≤ 'f')
def canonicalUuid (s : Str) : Bool :=
  s.length == 36 &&
  (List.range 36).all fun i =>
    match s[i]? with
    | some c => if i == 8 || i == 13 || i == 18 || i == 23 then c == '-' else isHexLower c
    | none => false

/-- `str(uuid.UUID(oid))`, or a fresh uuid4 (`none`). -/
def loadId (o : Option Str) : Option Str :=
  match o with
  | some s => if canonicalUuid s then some s else none
  | none => none

/-- `if not name: name = self._id` -/
def loadName (o : Option Str) : Option Str :=
  match o with
  | some s => if s.isEmpty then none else some s
  | none => none

/-- The tuple the reader hands to `format_cardinality`. -/
def cardAsIn : Card.Card → Card.In
  | none => .nul
  | some (a, b) => .seq true [match a with | none => .nul | some i => .int i,
                              match b with | none => .nul | some i => .int i]

/-- the cardinality constructor argument: `None`, `''` or the parsed tuple -/
def loadCard (a : Args) (k : String) : Option Card.Card :=
  match a.lookup k with
  | some (.card c) =>
    match Card.formatCard (cardAsIn c) with
    | .ok c' => some c'
    | .valueError => none
  | _ => some none

/-- `dtypes.valid_type` (members of `DType` and n-tuples; other attribute names of the enum
    class, which `hasattr` also accepts, are outside the modelled stream). -/
def tupleName (l : Str) : Bool :=
  match l.span Char.isDigit with
  | (ds, rest) => !ds.isEmpty && ds.head? != some '0' && rest == "-tuple".toList

def validType (d : Option Str) : Bool :=
  match d with
  | none => true
  | some s =>
    let l := String.ofList (lower s)
    let l' := (Gen.DTypes.dtypeMap.lookup l).getD l
    (Gen.DTypes.members.map (·.1)).contains l' || tupleName (lower s)

/-- `int(s)` for a plain decimal literal with optional `-`; other spellings: unmodelled. -/
def parseInt (s : Str) : Option Int :=
  match s with
  | '-' :: ds => if isDigitStr ds then some (-(natOfDigits ds : Int)) else none
  | ds => if isDigitStr ds then some (natOfDigits ds : Int) else none

inductive ConvErr where | raises | unmodelled deriving Repr, DecidableEq

/-- `boolean_get` on a string -/
def parseBool (s : Str) : Except ConvErr Bool :=
  if s.isEmpty then .ok false
  else
    let l := String.ofList (lower s)
    if ["true", "1", "t"].contains l then .ok true
    else if ["false", "0", "f"].contains l then .ok false
    else .error .raises

/-- `tuple_get(string, count)` on a non-empty string -/
def tupleGet (s : Str) (count : Nat) : Except ConvErr Val :=
  if s.isEmpty then .ok .nul
  else
    let t := strip s
    if !(t.head? == some '(' && t.getLast? == some ')') then .error .raises
    else
      let res := (splitOn ';' (slice1m1 t)).map strip
      if res.length != count then .error .raises else .ok (.tuple res)

/-- `dtypes._normalize_dtype`: lower case, `str` / `bool` resolved -/
def normName (dtype : Str) : String :=
  let l := String.ofList (lower dtype)
  (Gen.DTypes.dtypeMap.lookup l).getD l

/-- `dtypes.get(text, dtype)` for a non-tuple dtype (the converter is looked up by the
    normalised name). -/
def getTyped (lib : TokLib) (dtype : Str) (s : Str) : Except ConvErr Val :=
  let d := normName dtype
  if d == "int" then
    if s.isEmpty then .ok (.int 0)
    else match parseInt s with
      | some i => .ok (.int i)
      | none => .error .unmodelled
  else if d == "boolean" || d == "bool" then (parseBool s).map .bool
  else if d == "float" || d == "date" || d == "time" || d == "datetime" then
    if s.isEmpty then .error .unmodelled
    else match lib.parse d s with
      | some t => .ok (.tok t)
      | none => .error .raises
  else .ok (.str s)        -- str_get: string, text, url, person and every other name

def mapExcept {α β ε} (f : α → Except ε β) : List α → Except ε (List β)
  | [] => .ok []
  | x :: xs =>
    match f x with
    | .error e => .error e
    | .ok y =>
      match mapExcept f xs with
      | .error e => .error e
      | .ok ys => .ok (y :: ys)

/-- The `values` setter on the list of strings the reader passes; returns the dtype (possibly
    inferred) and the converted values. -/
def loadValues (lib : TokLib) (dtype : Option Str) (vs : List Str) :
    Except ConvErr (Option Str × List Val) :=
  match vs with
  | [] => .ok (dtype, [])
  | v0 :: _ =>
    let d := match dtype with
      | some d => d
      | none => if v0.contains '\n' then "text".toList else "string".toList   -- infer_dtype
    if endsWith "-tuple" d then
      let count := natOfDigits (d.take (d.length - 6))
      match mapExcept (fun v => tupleGet v count) vs with
      | .ok vals => .ok (some d, vals)
      | .error _ =>
        -- odml_tuple_import keeps every item that does not fit, so the assignment is refused;
        -- its one repair (a single item that is itself a bracketed list) is not modelled
        if vs.length == 1 && (strip v0).head? == some '[' then .error .unmodelled
        else .error .raises
    else
      match mapExcept (getTyped lib d) vs with
      | .ok vals => .ok (some d, vals)
      | .error e => .error e

def defaultProp : PropT :=
  { id := none, name := none, values := [], dtype := none, unit := none, definition := none,
    dependency := none, dependencyValue := none, uncertainty := none, reference := none,
    valueOrigin := none, valCard := none }

/-- `odml.Property(**arguments)` -/
def createProp (lib : TokLib) (a : Args) : Except ConvErr PropT :=
  let dt0 := getText a "dtype"
  let dtype := if validType dt0 then dt0.map lower else none      -- stored lower case
  let vs := match a.lookup "values" with
    | some (.vals vs) => vs
    | _ => []
  match loadValues lib dtype vs with
  | .error e => .error e
  | .ok (dtype', vals) =>
    match loadCard a "val_cardinality" with
    | none => .error .raises
    | some card =>
      .ok { id := loadId (getText a "oid"), name := loadName (getText a "name"),
            values := vals, dtype := dtype',
            unit := getText a "unit", definition := getText a "definition",
            dependency := getText a "dependency",
            dependencyValue := getText a "dependency_value",
            uncertainty := (getText a "uncertainty").map fun t => ⟨false, t⟩,
            reference := getText a "reference", valueOrigin := getText a "value_origin",
            valCard := card }

def defaultSec : SecT :=
  .mk none none (some "n.s.".toList) none none none none none [] [] none none

/-- `odml.Section(**arguments)` (no children yet) -/
def createSec (a : Args) : Except ConvErr SecT :=
  let type := match a.lookup "type" with
    | none => some "n.s.".toList
    | some (.text t) => t
    | some _ => none
  match loadCard a "sec_cardinality", loadCard a "prop_cardinality" with
  | some sc, some pc =>
    .ok (.mk (loadId (getText a "oid")) (loadName (getText a "name")) type
          (getText a "definition") (getText a "reference") (getText a "link")
          (getText a "repository") (getText a "include") [] [] sc pc)
  | _, _ => .error .raises

def defaultDoc : DocT :=
  { id := none, version := none, author := none, date := none, repository := none, secs := [] }

/-- `odml.Document(**arguments)` -/
def createDoc (lib : TokLib) (a : Args) : Except ConvErr DocT :=
  let date : Except ConvErr (Option Str) :=
    match getText a "date" with
    | none => .ok none
    | some s =>
      if s.isEmpty then .ok none
      else match lib.parse "date" s with
        | some t => .ok (some t)
        | none => .error .raises
  match date with
  | .error e => .error e
  | .ok dt =>
    .ok { id := loadId (getText a "oid"), version := getText a "version",
          author := getText a "author", date := dt, repository := getText a "repository",
          secs := [] }

/-- The object `parse_tag` returns. -/
inductive Obj where
  | doc (d : DocT) | sec (s : SecT) | prop (p : PropT)
  deriving Repr

/-- State of the `for node in root` loop of `parse_tag`. -/
structure PT where
  args : Args                 -- `arguments` (most recent assignment first)
  extra : List String         -- keys of `extra_args`
  secs : List SecT            -- `children`, the Sections among them, in order
  props : List PropT          -- `children`, the Properties among them, in order
  warns : Nat

/-- The name other objects see (`none`: a fresh uuid, clashes with nothing). -/
def effName (name id : Option Str) : Option Str := name <|> id

def SecT.effName (s : SecT) : Option Str := Xml.effName s.name s.id
def PropT.effName (p : PropT) : Option Str := Xml.effName p.name p.id

/-- `obj.append(child)` for each child; a refused child (`KeyError` of `SmartList.append` when
    the name is taken) goes through `XMLReader.error`: the strict reader raises, the lenient
    reader counts a warning and leaves the child out. -/
def appendSecs (m : Mode) (have_ : List SecT) : List SecT → Nat → Except RErr (List SecT × Nat)
  | [], w => .ok (have_, w)
  | c :: cs, w =>
    if c.effName.isSome && (have_.map SecT.effName).contains c.effName then
      match err m w with
      | .error e => .error e
      | .ok w' => appendSecs m have_ cs w'
    else appendSecs m (have_ ++ [c]) cs w

def appendProps (m : Mode) (have_ : List PropT) : List PropT → Nat → Except RErr (List PropT × Nat)
  | [], w => .ok (have_, w)
  | c :: cs, w =>
    if c.effName.isSome && (have_.map PropT.effName).contains c.effName then
      match err m w with
      | .error e => .error e
      | .ok w' => appendProps m have_ cs w'
    else appendProps m (have_ ++ [c]) cs w

/-- The attribute loop of `parse_tag`: only `version` on the root is tolerated. -/
def attrLoop (m : Mode) (tag : String) : List (String × Str) → Nat → Except RErr Nat
  | [], w => .ok w
  | (k, _) :: rest, w =>
    if lowerS k == "version" && tag == "odML" then attrLoop m tag rest w
    else match err m w with
      | .error e => .error e
      | .ok w' => attrLoop m tag rest w'

/-- `check_mandatory_arguments` -/
def mandatoryLoop (m : Mode) (f : Fmt) (present : List String) :
    List (String × Nat) → Nat → Except RErr Nat
  | [], w => .ok w
  | (k, req) :: rest, w =>
    if req != 0 && !present.contains (f.pyName k) then
      match err m w with
      | .error e => .error e
      | .ok w' => mandatoryLoop m f present rest w'
    else mandatoryLoop m f present rest w

/-- The leaf branch of the node loop: one element that carries an attribute as text. -/
def leafStep (m : Mode) (f : Fmt) (t : String) (text : Option Str) (st : PT) : Except RErr PT :=
  let py := f.pyName t
  let w := if (st.args.lookup py).isSome then st.warns + 1 else st.warns   -- `warn`, never raises
  -- `curr_text = node.text.strip() if node.text else None`
  let cur : Option Str := match text with
    | none => none
    | some s => if s.isEmpty then none else some (strip s)
  let truthy := match cur with
    | some s => !s.isEmpty
    | none => false
  if py == "values" && truthy then
    match fromCsv (text.getD []) with
    | .ok vs => .ok { st with args := (py, .vals vs) :: st.args, warns := w }
    | .error .csvError =>            -- `except csv.Error: self.error(...)`; nothing is assigned
      match err m w with
      | .error e => .error e
      | .ok w' => .ok { st with warns := w' }
    | .error .noRecord => .error .leak
  else if "_cardinality".toList.isSuffixOf py.toList && truthy then
    .ok { st with args := (py, .card (Card.parseCardText (text.getD []))) :: st.args, warns := w }
  else .ok { st with args := (py, .text cur) :: st.args, warns := w }

/-- which `parse_<tag>` method a child element is sent to -/
def kindOfTag (t : String) : Kind :=
  if t == Gen.Format.sectionName then .sec
  else if t == Gen.Format.propertyName then .prop else .doc

mutual
/-- `parse_tag(root, fmt)` (via `parse_element`), with the warning count threaded through. -/
def readTag (m : Mode) (lib : TokLib) (k : Kind) (tag : String) :
    X → Nat → Except RErr (Obj × Nat)
  | .elem _ attrs _ kids, w =>
    let f := fmtOf k
    match attrLoop m tag attrs w with
    | .error e => .error e
    | .ok w1 =>
      match readKids m lib k tag kids ⟨[], [], [], [], w1⟩ with
      | .error e => .error e
      | .ok st =>
        match mandatoryLoop m f (st.args.map (·.1) ++ st.extra) f.args st.warns with
        | .error e => .error e
        | .ok w2 =>
          -- obj = fmt.create(); try: obj = fmt.create(**arguments) except: self.error(...)
          match k with
          | .prop =>
            match createProp lib st.args with
            | .ok p => .ok (.prop p, w2)
            | .error .unmodelled => .error .unmodelled
            | .error .raises =>
              match err m w2 with
              | .error e => .error e
              | .ok w3 => .ok (.prop defaultProp, w3)
          | .sec =>
            let made : Except RErr (SecT × Nat) :=
              match createSec st.args with
              | .ok s => .ok (s, w2)
              | .error .unmodelled => .error .unmodelled
              | .error .raises =>
                match err m w2 with
                | .error e => .error e
                | .ok w3 => .ok (defaultSec, w3)
            match made with
            | .error e => .error e
            | .ok (.mk i n t d r l rp inc _ _ sc pc, w3) =>
              match appendSecs m [] st.secs w3 with
              | .error e => .error e
              | .ok (ss, w4) =>
                match appendProps m [] st.props w4 with
                | .error e => .error e
                | .ok (ps, w5) => .ok (.sec (.mk i n t d r l rp inc ss ps sc pc), w5)
          | .doc =>
            let made : Except RErr (DocT × Nat) :=
              match createDoc lib st.args with
              | .ok d => .ok (d, w2)
              | .error .unmodelled => .error .unmodelled
              | .error .raises =>
                match err m w2 with
                | .error e => .error e
                | .ok w3 => .ok (defaultDoc, w3)
            match made with
            | .error e => .error e
            | .ok (d, w3) =>
              match appendSecs m [] st.secs w3 with
              | .ok (ss, w4) => .ok (.doc { d with secs := ss }, w4)
              | .error e => .error e
termination_by structural x => x
/-- the `for node in root` loop -/
def readKids (m : Mode) (lib : TokLib) (k : Kind) (rootTag : String) :
    List X → PT → Except RErr PT
  | [], st => .ok st
  | x :: rest, st =>
    let f := fmtOf k
    let tag := match x with | .elem tag _ _ _ => tag
    let text := match x with | .elem _ _ text _ => text
    let t := lowerS tag                                   -- node.tag = node.tag.lower()
    if f.keys.contains t then
      if readerTags.contains t && f.mapKeys.contains t then
        -- sub_obj = self.parse_element(node)
        match readTag m lib (kindOfTag t) t x st.warns with
        | .error e => .error e
        | .ok (.sec s, w) =>
          readKids m lib k rootTag rest
            { st with extra := f.pyName t :: st.extra, secs := st.secs ++ [s], warns := w }
        | .ok (.prop p, w) =>
          readKids m lib k rootTag rest
            { st with extra := f.pyName t :: st.extra, props := st.props ++ [p], warns := w }
        | .ok (.doc _, _) => .error .unmodelled
      else
        match leafStep m f t text st with
        | .error e => .error e
        | .ok st' => readKids m lib k rootTag rest st'
    else
      -- is_valid_argument -> error; then the `else` branch -> error again
      match err m st.warns with
      | .error e => .error e
      | .ok w1 =>
        match err m w1 with
        | .error e => .error e
        | .ok w2 => readKids m lib k rootTag rest { st with warns := w2 }
termination_by structural xs => xs
end

/-- `_handle_version` followed by `parse_element(root)`. -/
def readXml (m : Mode) (lib : TokLib) (x : X) : Except RErr (DocT × Nat) :=
  match x with
  | .elem tag attrs _ _ =>
    if tag != "odML" then .error .parser
    else match attrs.lookup "version" with
      | none => .error .parser
      | some v =>
        if v != Gen.Format.formatVersion.toList then .error .invalidVersion
        else
          match readTag m lib .doc tag x 0 with
          | .error e => .error e
          | .ok (.doc d, w) => .ok (d, w)
          | .ok _ => .error .unmodelled

end Xml
