/-
M-Xml, part 1: the value text node.

  odml/tools/xmlparser.py  to_csv / from_csv

`toCsv` / `fromCsv` model the code as it is on branch work-C01 (after the `fix:` commit that
keeps the csv quoting intact).  `toCsvLegacy` is the function as it was before the fix
(`.strip().strip('"')`), kept only so that the defect stays documented by witness theorems.
-/
import OdmlModel.Py.Str
import OdmlModel.Py.Csv

namespace Xml
open Py Py.Csv

/-- `s[0] == "[" and s[-1] == "]"` for a non-empty string. -/
def bracketed (s : List Char) : Bool := s.head? == some '[' && s.getLast? == some ']'

/-- `csv_string[:-len(lineterminator)]` -/
def dropLast2 (s : List Char) : List Char := s.dropLast.dropLast

/-- `to_csv(val)` where `val` are the `str()` forms of the values. -/
def toCsv (vals : List (List Char)) : List Char :=
  let uv := vals.map strip                      -- list(map(str.strip, map(str, val)))
  let csvString := dropLast2 (writeRow uv)      -- stream.getvalue()[:-2]
  match uv with
  | [single] =>
    if !single.isEmpty && !bracketed single then single
    else '[' :: (csvString ++ [']'])
  | [] => csvString
  | _ => '[' :: (csvString ++ [']'])

/-- Errors `from_csv` can leak. -/
abbrev CsvErr := Py.Csv.Err

/-- `from_csv(value_string)` -/
def fromCsv (s : List Char) : Except CsvErr (List (List Char)) :=
  if s.isEmpty then .ok []
  else if bracketed s then
    let inner := slice1m1 s
    if inner.isEmpty then .ok [] else readFirst inner
  else .ok [s]

/-- `to_csv` before the fix: `stream.getvalue().strip().strip('"')`, bracketed iff more than
    one value. -/
def toCsvLegacy (vals : List (List Char)) : List Char :=
  let uv := vals.map strip
  let csvString := stripChar '"' (strip (writeRow uv))
  if uv.length > 1 then '[' :: (csvString ++ [']']) else csvString

end Xml
