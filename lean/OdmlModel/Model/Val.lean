/-
M-Val: the universe of Python values that reach `Property.values`, `dtypes.get/set`.

Two levels are enough for the modelled API (deeper nesting is kept out of the compared stream):
  `Atom`  a scalar (None, bool, int, float, str, date, time, datetime, dict — opaque, given by its `str`)
  `Elem`  one *value* : an atom or a list/tuple of atoms  (what is stored in `_values`)
  `Inp`   what a caller hands to `values=`, `append`, `extend`, … : an atom or a list/tuple of Elems

Python's subclassing `bool ⊂ int` and `datetime ⊂ date` is made explicit in the functions that
ask `isinstance` (`DTypes.lean`).
-/
import OdmlModel.Py.Str
import OdmlModel.Py.Num
import OdmlModel.Py.Time

namespace DT
open Py

inductive Atom where
  | none
  | bool (b : Bool)
  | int (i : Int)
  | float (f : Flt)
  | str (s : List Char)
  | date (d : Date)
  | time (t : Time)
  | datetime (d : DateTime)
  | dict (text : List Char)        -- a dict, given by `str(d)`; empty iff the text is `{}`
  deriving DecidableEq, Repr, Inhabited

inductive Elem where
  | atom (a : Atom)
  | seq (tup : Bool) (xs : List Atom)     -- list (`tup = false`) or tuple of atoms
  deriving DecidableEq, Repr, Inhabited

inductive Inp where
  | one (a : Atom)
  | seq (tup : Bool) (xs : List Elem)
  deriving DecidableEq, Repr, Inhabited

/-- exception classes that the modelled code can raise -/
inductive Exc where
  | value | type | attr | index | overflow
  deriving DecidableEq, Repr, Inhabited

abbrev R (α : Type) := Except Exc α

def emptyDictText : List Char := ['{', '}']

/-! ### truthiness, type names -/

def Atom.truthy : Atom → Bool
  | .none => false
  | .bool b => b
  | .int i => i != 0
  | .float (.fin d) => !d.isZero
  | .float _ => true
  | .str s => !s.isEmpty
  | .date _ => true
  | .time _ => true            -- Python ≥ 3.5: midnight is truthy
  | .datetime _ => true
  | .dict t => t != emptyDictText

def Elem.truthy : Elem → Bool
  | .atom a => a.truthy
  | .seq _ xs => !xs.isEmpty

def Inp.truthy : Inp → Bool
  | .one a => a.truthy
  | .seq _ xs => !xs.isEmpty

/-- `type(v).__name__` -/
def Atom.typeName : Atom → List Char
  | .none => "NoneType".toList
  | .bool _ => "bool".toList
  | .int _ => "int".toList
  | .float _ => "float".toList
  | .str _ => "str".toList
  | .date _ => "date".toList
  | .time _ => "time".toList
  | .datetime _ => "datetime".toList
  | .dict _ => "dict".toList

def Elem.typeName : Elem → List Char
  | .atom a => a.typeName
  | .seq tup _ => if tup then "tuple".toList else "list".toList

/-! ### `str()` and `repr()` -/

def hexDigit (n : Nat) : Char := if n < 10 then Char.ofNat (48 + n) else Char.ofNat (87 + n)

/-- `repr` of one character inside a string literal delimited by `q`.
    Exact for U+0000–U+00FF; other code points are taken to be printable (documented
    restriction of the modelled stream). -/
def reprChar (q : Char) (c : Char) : List Char :=
  let n := c.toNat
  if c == '\\' then ['\\', '\\']
  else if c == q then ['\\', q]
  else if c == '\n' then ['\\', 'n']
  else if c == '\r' then ['\\', 'r']
  else if c == '\t' then ['\\', 't']
  else if n < 32 || n == 127 || (128 ≤ n && n ≤ 160) || n == 173 then
    ['\\', 'x', hexDigit (n / 16), hexDigit (n % 16)]
  else [c]

/-- `repr(s)` for a `str`: single quotes unless the text has a `'` and no `"`. -/
def reprStr (s : List Char) : List Char :=
  let q : Char := if s.contains '\'' && !s.contains '"' then '"' else '\''
  [q] ++ (s.map (reprChar q)).flatten ++ [q]

def commaSep : List (List Char) → List Char
  | [] => []
  | [x] => x
  | x :: xs => x ++ [',', ' '] ++ commaSep xs

def natStr (n : Nat) : List Char := natToDigits n

def Date.repr (d : Date) : List Char :=
  "datetime.date(".toList ++ commaSep [natStr d.y, natStr d.m, natStr d.d] ++ [')']

/-- the trailing `second`, `microsecond` arguments are printed only when needed -/
def timeArgs (t : Time) : List (List Char) :=
  if t.us != 0 then [natStr t.h, natStr t.mi, natStr t.s, natStr t.us]
  else if t.s != 0 then [natStr t.h, natStr t.mi, natStr t.s]
  else [natStr t.h, natStr t.mi]

def Atom.pyStr : Atom → List Char
  | .none => "None".toList
  | .bool b => if b then "True".toList else "False".toList
  | .int i => intToStr i
  | .float f => f.repr
  | .str s => s
  | .date d => d.iso
  | .time t => t.iso
  | .datetime d => d.str
  | .dict t => t

def Atom.pyRepr : Atom → List Char
  | .str s => reprStr s
  | .date d => Date.repr d
  | .time t => "datetime.time(".toList ++ commaSep (timeArgs t) ++ [')']
  | .datetime d =>
    "datetime.datetime(".toList ++
      commaSep ([natStr d.date.y, natStr d.date.m, natStr d.date.d] ++ timeArgs d.time) ++ [')']
  | a => a.pyStr

/-- `str(v)` -/
def Elem.pyStr : Elem → List Char
  | .atom a => a.pyStr
  | .seq false xs => ['['] ++ commaSep (xs.map Atom.pyRepr) ++ [']']
  | .seq true [x] => ['('] ++ x.pyRepr ++ [',', ')']
  | .seq true xs => ['('] ++ commaSep (xs.map Atom.pyRepr) ++ [')']

/-! ### `==` -/

/-- the numeric value of bool/int atoms -/
def Atom.asInt : Atom → Option Int
  | .bool b => some (if b then 1 else 0)
  | .int i => some i
  | _ => Option.none

/-- Python `a == b` on atoms: numbers compare across bool/int/float, `nan` equals nothing,
    `date` and `datetime` are never equal, dicts are compared by their text. -/
def Atom.pyEq (a b : Atom) : Bool :=
  match a.asInt, b.asInt with
  | some x, some y => x == y
  | some x, Option.none => (match b with | .float f => f.eqInt x | _ => false)
  | Option.none, some y => (match a with | .float f => f.eqInt y | _ => false)
  | Option.none, Option.none =>
    match a, b with
    | .float f, .float g => f.eq g
    | .none, .none => true
    | .str s, .str t => s == t
    | .date d, .date e => d == e
    | .time s, .time t => s == t
    | .datetime d, .datetime e => d == e
    | .dict s, .dict t => s == t
    | _, _ => false

def listEq : List Atom → List Atom → Bool
  | [], [] => true
  | x :: xs, y :: ys => x.pyEq y && listEq xs ys
  | _, _ => false

def Elem.pyEq : Elem → Elem → Bool
  | .atom a, .atom b => a.pyEq b
  | .seq t xs, .seq u ys => t == u && listEq xs ys
  | _, _ => false

/-- `v in lst` -/
def pyMem (v : Elem) (lst : List Elem) : Bool := lst.any (fun w => v.pyEq w)

/-- `obj in [None, "", [], {}]` for an element -/
def Elem.isBlank : Elem → Bool
  | .atom .none => true
  | .atom (.str s) => s.isEmpty
  | .atom (.dict t) => t == emptyDictText
  | .seq false xs => xs.isEmpty
  | _ => false

/-- `obj in [None, "", [], {}]` for a caller's input -/
def Inp.isBlank : Inp → Bool
  | .one .none => true
  | .one (.str s) => s.isEmpty
  | .one (.dict t) => t == emptyDictText
  | .seq false xs => xs.isEmpty
  | _ => false

/-- `list.remove(v)`: drop the first element equal to `v` -/
def removeFirst (v : Elem) : List Elem → List Elem
  | [] => []
  | w :: ws => if v.pyEq w then ws else w :: removeFirst v ws

/-- `list.insert(i, x)` with Python's index normalisation -/
def pyInsert (l : List Elem) (i : Int) (x : Elem) : List Elem :=
  let n : Int := l.length
  let j : Int := if i < 0 then (if i + n < 0 then 0 else i + n) else (if i > n then n else i)
  l.take j.toNat ++ [x] ++ l.drop j.toNat

end DT
