/-
M-HeapExt: clone, Section.merge, the `link` setter and clean/unmerge of python-odml as *programs
over the primitive structural operations* of `Model/Heap.lean`.

  odml/base.py      BaseObject.clone (copy.copy), Sectionable.clone, Sectionable.clean,
                    Sectionable.contains
  odml/section.py   BaseSection.clone, contains, merge_check, merge, clean, unmerge, link setter
  odml/property.py  BaseProperty.clone, merge (only whether it raises), unmerge / clean (stubs)
  odml/doc.py       BaseDocument.clone

Every change of the object graph made by these methods goes through a public structural operation
(`Section(...)`-like allocation of the copy, `obj.append(child)`, `self.remove(obj)`, `new_id()`),
and so does the model: the heap component is only ever changed by `Heap.step` (see `X.prim`), in
Python statement order, so that the state returned together with a raise is the state at the
raise point (e.g. a KeyError of `append` in the middle of a merge; the one of finding
C13/section-name-clash-other-type is now refused up front by `_merge_name_check`, `nameCheck`).

What the tree structure does not determine is *abstract*: an `Oracle` gives, for the objects that
exist before the operation, the Section types (`contains` compares name *and* type), whether the
attribute comparison of `merge_check` passes for a pair, whether `Property.merge` raises for a
pair, deep equality `==` (used by `unmerge`), whether `get_relative_path` succeeds, and the texts
of the uuid4 ids drawn for the copies. All theorems hold for every oracle. Copies made during an
operation share every attribute with their original (`copy.copy`), so the oracle is consulted
through `orig`.

Loops over a child list that may grow or shrink while it is iterated (`for obj in section`, a
generator over the live `_sections` / `_props` lists) are index loops over the *current* list
(`liveLoop`). Recursion over the tree takes a fuel argument; `.fuel` is the answer when it is
used up (Python: RecursionError or no termination). No Mathlib.
-/
import OdmlModel.Model.Heap

namespace Heap

/-- Outcome of an extended operation. -/
inductive XOut where
  | ok
  | raised (e : Exc)
  | runtime          -- RuntimeError("cannot unmerge myself?")
  | fuel             -- recursion budget used up
  deriving DecidableEq, Repr

def XOut.ofOutcome : Outcome → XOut
  | .ok => .ok
  | .raised e => .raised e

/-- The heap together with the two attributes of Sections that steer link resolution.
    `orig` is scratch space of one extended operation (copy ↦ the object it was copied from). -/
structure X where
  h : H
  merged : Nat → Option Nat     -- `_merged`
  link : Nat → Bool             -- `_link is not None`
  orig : Nat → Nat

def X.empty : X := { h := Heap.empty, merged := fun _ => none, link := fun _ => false, orig := id }

/-- What the tree structure does not determine (see the header). -/
structure Oracle where
  ty : Nat → String             -- Section type
  secOk : Nat → Nat → Bool      -- definition/reference comparison of merge_check(dest, src) passes
  propOk : Nat → Nat → Bool     -- Property.merge(dest, src) does not raise
  eq : Nat → Nat → Bool         -- dest == src
  relOk : Nat → Nat → Bool      -- self.get_relative_path(target) does not raise
  ids : Nat → String            -- uuid4 text drawn for the copy with this handle
  /-- what `get_section_by_path(x._link)` finds for the link a Section `x` has stored already
      (`none` = it raises); only looked at when a new link is refused by the merge -/
  oldLink : Nat → Option Nat := fun _ => none

/-- One public structural operation on the heap component. The only way the heap changes. -/
def X.prim (s : X) (op : Op) : X × XOut :=
  ({ s with h := (step s.h op).1 }, XOut.ofOutcome (step s.h op).2)

def X.setMerged (s : X) (i : Nat) (v : Option Nat) : X :=
  { s with merged := fun j => if j = i then v else s.merged j }

def X.setLink (s : X) (i : Nat) (v : Bool) : X :=
  { s with link := fun j => if j = i then v else s.link j }

/-! ### clone -/

/-- `copy.copy(x)`, `obj._parent = None` and new empty child lists: a detached object with the
    kind, name and id of `x`. `_merged`, `_link` and all other attributes are those of `x`. -/
def copyObj (s : X) (x : Nat) : X × Nat × XOut :=
  let c := s.h.size
  let n := s.h.node x
  match s.prim (.construct n.kind n.name n.id none true) with
  | (s1, .ok) =>
    ({ s1 with merged := fun j => if j = c then s.merged x else s1.merged j,
               link := fun j => if j = c then s.link x else s1.link j,
               orig := fun j => if j = c then s.orig x else s1.orig j }, c, .ok)
  | (s1, o) => (s1, c, o)

/-- `for k in kids: obj.append(k.clone(keep_id=keep_id))` -/
def kidsLoop (rec : X → Nat → X × Nat × XOut) (c : Nat) : List Nat → X → X × XOut
  | [], s => (s, .ok)
  | k :: ks, s =>
    match rec s k with
    | (s1, ck, .ok) =>
      match s1.prim (.append c ck) with
      | (s2, .ok) => kidsLoop rec c ks s2
      | (s2, o) => (s2, o)
    | (s1, _, o) => (s1, o)

def kidsIf (children : Bool) (rec : X → Nat → X × Nat × XOut) (c : Nat) (ks : List Nat) (s : X) :
    X × XOut :=
  if children then kidsLoop rec c ks s else (s, .ok)

/-- `if not keep_id: obj.new_id()` -/
def newIdUnless (keepId : Bool) (O : Oracle) (s : X) (c : Nat) : X × XOut :=
  if keepId then (s, .ok) else s.prim (.newId c (some (O.ids c)))

/-- `x.clone(children, keep_id)` for a Document, Section or Property; answers the handle of the
    copy. The child lists of `x` are read once: the loop only touches objects allocated after
    the copy (`cloneAux_spec` in Proofs/HeapExt.lean), so `x`'s lists do not change while it runs. -/
def cloneAux (O : Oracle) : Nat → X → Nat → Bool → Bool → X × Nat × XOut
  | 0, s, _, _, _ => (s, s.h.size, .fuel)
  | fuel + 1, s, x, children, keepId =>
    match copyObj s x with
    | (s1, c, .ok) =>
      if (s.h.node x).kind = .prop then
        -- BaseProperty.clone
        match newIdUnless keepId O s1 c with
        | (s2, o) => (s2, c, o)
      else
        -- Sectionable.clone: the child Sections
        match kidsIf children (fun t k => cloneAux O fuel t k true keepId) c (s.h.node x).secs s1 with
        | (s2, .ok) =>
          -- BaseSection.clone / BaseDocument.clone: `if not keep_id: obj.new_id()`
          match newIdUnless keepId O s2 c with
          | (s3, .ok) =>
            -- BaseSection.clone: the child Properties
            if (s.h.node x).kind = .sec ∧ children then
              match kidsLoop (fun t k => cloneAux O fuel t k true keepId) c (s.h.node x).props s3 with
              | (s4, o) => (s4, c, o)
            else (s3, c, .ok)
          | (s3, o) => (s3, c, o)
        | (s2, o) => (s2, c, o)
    | r => r

/-! ### contains / merge_check -/

/-- `Sectionable.contains`: first child Section with the name and type of `obj`. -/
def containsS (O : Oracle) (s : X) (dest obj : Nat) : Option Nat :=
  (s.h.node dest).secs.find? (fun i =>
    (s.h.node obj).name == (s.h.node i).name && O.ty (s.orig obj) == O.ty (s.orig i))

/-- `BaseSection.contains` for a Property: first child Property with the name of `obj`. -/
def containsP (s : X) (dest obj : Nat) : Option Nat :=
  (s.h.node dest).props.find? (fun i => (s.h.node obj).name == (s.h.node i).name)

/-- A checking loop: `none` = out of fuel, `some false` = raised. -/
def checkAll (rec : Nat → Option Bool) : List Nat → Option Bool
  | [] => some true
  | o :: os =>
    match rec o with
    | some true => checkAll rec os
    | r => r

/-- `dest.merge_check(src, strict)` (no side effects): `some true` = passes. -/
def mergeCheck (O : Oracle) : Nat → X → Nat → Nat → Option Bool
  | 0, _, _, _ => none
  | fuel + 1, s, dest, src =>
    if !O.secOk (s.orig dest) (s.orig src) then some false
    else
      match checkAll (fun obj =>
          match containsS O s dest obj with
          | some mine => mergeCheck O fuel s mine obj
          | none => some true) (s.h.node src).secs with
      | some true =>
        checkAll (fun obj =>
          match containsP s dest obj with
          | some mine => some (O.propOk (s.orig mine) (s.orig obj))
          | none => some true) (s.h.node src).props
      | r => r

/-- `dest._merge_name_check(src)` (no side effects): `some true` = passes. A child Section of
    the source that `contains` does not find would be added as a copy; if its name is already used
    in the destination (by a Section of another type) the check raises ValueError. -/
def nameCheck (O : Oracle) : Nat → X → Nat → Nat → Option Bool
  | 0, _, _, _ => none
  | fuel + 1, s, dest, src =>
    checkAll (fun obj =>
      match containsS O s dest obj with
      | some mine => nameCheck O fuel s mine obj
      | none => some (!nameIn s.h (s.h.node dest).secs (s.h.node obj).name)) (s.h.node src).secs

/-! ### merge -/

/-- `for obj in lst: body` over a list that is re-read before every step (Python's list iterator
    on a list that may change during the loop). -/
def liveLoop {σ : Type} (lst : σ → List Nat) (body : σ → Nat → σ × XOut) : Nat → Nat → σ → σ × XOut
  | 0, _, t => (t, .fuel)
  | fuel + 1, i, t =>
    match (lst t)[i]? with
    | none => (t, .ok)
    | some obj =>
      match body t obj with
      | (t1, .ok) => liveLoop lst body fuel (i + 1) t1
      | r => r

/-- `self._merged is not None and self.can_be_merged`: the link of the Section is resolved (no
    `include` is set anywhere). -/
def X.resolved (s : X) (x : Nat) : Bool := (s.merged x).isSome && s.link x

/-- `mine = obj.clone(); mine._merged = obj if record else None; dest.append(mine)`
    (`mark = none`: a Property, on which the attribute plays no role; `some record` a Section). -/
def X.markCopy (t : X) (c obj : Nat) : Option Bool → X
  | some record => t.setMerged c (if record then some obj else none)
  | none => t

def cloneAppend (O : Oracle) (fuel : Nat) (t : X) (dest obj : Nat) (mark : Option Bool) : X × XOut :=
  match cloneAux O fuel t obj true false with
  | (t1, c, .ok) => (t1.markCopy c obj mark).prim (.append dest c)
  | (t1, _, o) => (t1, o)

/-- Body of the loop of `_merge` over the child Sections of the source. A child the destination
    has already is merged through the public `merge` when the merge is recorded - which does not
    record for a child whose own link is resolved - and through `_merge(obj, strict, False)`
    otherwise. -/
def mergeSecBody (O : Oracle) (fuel : Nat) (rec : X → Bool → Nat → Nat → X × XOut) (record : Bool)
    (dest : Nat) (t : X) (obj : Nat) : X × XOut :=
  match containsS O t dest obj with
  | some mine => rec t (record && !t.resolved mine) mine obj
  | none => cloneAppend O fuel t dest obj (some record)

/-- Body of the loop of `merge` over the child Properties of the source. -/
def mergePropBody (O : Oracle) (fuel : Nat) (dest : Nat) (t : X) (obj : Nat) : X × XOut :=
  match containsP t dest obj with
  | some mine =>                                       -- `Property.merge`: no structure
    if O.propOk (t.orig mine) (t.orig obj) then (t, .ok) else (t, .raised .valueError)
  | none => cloneAppend O fuel t dest obj none

/-- `dest._merge(src, strict, record)`; strictness is part of the oracle (`secOk`, `propOk`).
    `record = false` (fix dccf4ba: an explicit merge into a Section whose link is resolved): the
    merge is carried out but leaves no trace in `_merged`, here and below. -/
def mergeAux (O : Oracle) : Nat → X → Bool → Nat → Nat → X × XOut
  | 0, s, _, _, _ => (s, .fuel)
  | fuel + 1, s, record, dest, src =>
    match mergeCheck O fuel s dest src with
    | none => (s, .fuel)
    | some false => (s, .raised .valueError)
    | some true =>
      -- `self._merge_name_check(section)`: still nothing changed when it raises
      match nameCheck O fuel s dest src with
      | none => (s, .fuel)
      | some false => (s, .raised .valueError)
      | some true =>
      -- (definition / reference are taken over here: no structure)
      match liveLoop (fun t => (t.h.node src).secs)
          (mergeSecBody O fuel (mergeAux O fuel) record dest) fuel 0 s with
      | (s1, .ok) =>
        match liveLoop (fun t => (t.h.node src).props) (mergePropBody O fuel dest) fuel 0 s1 with
        | (s2, .ok) =>
          -- `if record: self._merged = section`
          (if record then s2.setMerged dest (some src) else s2, .ok)
        | r => r
      | r => r

/-- `dest.merge(src, strict)`, the public method: a Section whose link is resolved stays merged
    with the Section it refers to, what is merged into it on top is not recorded. -/
def mergePub (O : Oracle) (fuel : Nat) (s : X) (dest src : Nat) : X × XOut :=
  mergeAux O fuel s (!s.resolved dest) dest src

/-! ### unmerge / clean -/

/-- `for obj in removals: self.remove(obj)` -/
def removeAll (self : Nat) : List Nat → X → X × XOut
  | [], s => (s, .ok)
  | o :: os, s =>
    match s.prim (.remove self o) with
    | (s1, .ok) => removeAll self os s1
    | r => r

/-- Body of the loop of `unmerge` over the child Sections of the target; the state carries the
    `removals` list. -/
def unmergeSecBody (O : Oracle) (rec : X → Nat → Nat → X × XOut) (self : Nat)
    (t : X × List Nat) (obj : Nat) : (X × List Nat) × XOut :=
  match containsS O t.1 self obj with
  | none => (t, .ok)
  | some mine =>
    if O.eq (t.1.orig mine) (t.1.orig obj) then ((t.1, t.2 ++ [mine]), .ok)
    else (((rec t.1 mine obj).1, t.2), (rec t.1 mine obj).2)        -- `mine.unmerge(obj)`

/-- The same over the child Properties (`Property.unmerge` is a stub). -/
def unmergePropBody (O : Oracle) (self : Nat) (t : X × List Nat) (obj : Nat) :
    (X × List Nat) × XOut :=
  match containsP t.1 self obj with
  | none => (t, .ok)
  | some mine =>
    if O.eq (t.1.orig mine) (t.1.orig obj) then ((t.1, t.2 ++ [mine]), .ok) else (t, .ok)

/-- `self.unmerge(target)` -/
def unmergeAux (O : Oracle) : Nat → X → Nat → Nat → X × XOut
  | 0, s, _, _ => (s, .fuel)
  | fuel + 1, s, self, target =>
    if O.eq (s.orig self) (s.orig target) then (s, .runtime)
    else
      match liveLoop (fun t => (t.1.h.node target).secs)
          (unmergeSecBody O (unmergeAux O fuel) self) fuel 0 (s, []) with
      | (t1, .ok) =>
        match liveLoop (fun t => (t.1.h.node target).props) (unmergePropBody O self) fuel 0 t1 with
        | (t2, .ok) =>
          match removeAll self t2.2 t2.1 with
          | (s3, .ok) =>
            -- `if self._link is not None: self._link = self.get_relative_path(section)`
            if s3.link self && !O.relOk (s3.orig self) (s3.orig target) then (s3, .raised .valueError)
            else (s3.setMerged self none, .ok)
          | r => r
        | (t2, o) => (t2.1, o)
      | (t1, o) => (t1.1, o)

/-- `if self._merged is not None: self.unmerge(self._merged)` (Sections only). -/
def unmergeIfMerged (O : Oracle) (fuel : Nat) (s : X) (x : Nat) : X × XOut :=
  match (s.h.node x).kind, s.merged x with
  | .sec, some t => unmergeAux O fuel s x t
  | _, _ => (s, .ok)

/-- `x.clean()` for a Section or Document (`Property.clean` is a stub). -/
def cleanAux (O : Oracle) : Nat → X → Nat → X × XOut
  | 0, s, _ => (s, .fuel)
  | fuel + 1, s, x =>
    match unmergeIfMerged O fuel s x with
    | (s1, .ok) =>
      -- Sectionable.clean: `for i in self: i.clean()`
      liveLoop (fun t => (t.h.node x).secs) (fun t i => cleanAux O fuel t i) fuel 0 s1
    | r => r

/-! ### the `link` setter -/

/-- The value assigned to `.link`: `None`, another falsy value (`""`), or a non-empty path together
    with what `get_section_by_path` finds for it (`none` = it raises). -/
inductive LinkVal where
  | none
  | falsy
  | path (target : Option Nat)
  deriving Repr

/-- `if self._link is not None: self.clean()` -/
def cleanIfLinked (O : Oracle) (fuel : Nat) (s : X) (x : Nat) : X × XOut :=
  if s.link x then cleanAux O fuel s x else (s, .ok)

/-- `self.merge()` in the `except` branch of the link setter (fix 06cfd75): the link the Section
    had before is assigned once more - `self.link = self._link`: the path is looked up again
    (`O.oldLink x`), the Section is cleaned (`_link` is not None) and the previous target merged.
    Were *that* merge refused too, its `except` branch would assign the same link again only if
    the link was resolved when this assignment began (fix 592a7e3: `was_resolved`); before that
    fix it did so whenever a link was stored, without end (`relinkLegacy`). -/
def relinkAux (O : Oracle) : Nat → X → Nat → X × XOut
  | 0, s, _ => (s, .fuel)
  | fuel + 1, s, x =>
    match O.oldLink x with
    | Option.none => (s, .raised .valueError)
    | some t0 =>
      match cleanIfLinked O fuel s x with
      | (s1, .ok) =>
        match mergeAux O fuel s1 true x t0 with
        | (s2, .ok) => (s2, .ok)                 -- `self._link = new_value` (the value it has)
        | (s2, .fuel) => (s2, .fuel)
        | (s2, out) =>
          -- `except Exception: if was_resolved: self.merge(); raise`, where
          -- `was_resolved = self._link is not None and self._merged is not None` was noted
          -- before the `clean()`
          if s.resolved x then
            match relinkAux O fuel s2 x with
            | (s3, .ok) => (s3, out)
            | r => r
          else (s2, out)
      | r => r

/-- The `except` branch as it was between fix 06cfd75 and fix 592a7e3
    (`if self._link is not None: self.merge()`): a stored link is assigned again whether or not it
    had been resolved. Kept as the witness of the former finding
    C03/refused-link-reresolved-without-end (`C03.legacy_relink_runs_out_of_budget`). -/
def relinkLegacy (O : Oracle) : Nat → X → Nat → X × XOut
  | 0, s, _ => (s, .fuel)
  | fuel + 1, s, x =>
    match O.oldLink x with
    | Option.none => (s, .raised .valueError)
    | some t0 =>
      match cleanIfLinked O fuel s x with
      | (s1, .ok) =>
        match mergeAux O fuel s1 true x t0 with
        | (s2, .ok) => (s2, .ok)
        | (s2, .fuel) => (s2, .fuel)
        | (s2, _) => relinkLegacy O fuel s2 x
      | r => r

/-- `x.link = value` (no `include` is set anywhere). The new link is stored only after the merge
    of the referenced Section has succeeded; when the merge is refused, a link the Section had
    before and that was resolved (unresolved by the `clean()` above) is resolved again and the
    exception raised; a link that was only stored stays stored. The setter resolves the reference
    through `_merge(new_section, False, True)`: always recorded. -/
def setLinkAux (O : Oracle) (fuel : Nat) (s : X) (x : Nat) (v : LinkVal) : X × XOut :=
  match (s.h.node x).parent with
  | Option.none =>
    -- "we cannot possibly know where the link goes": only `_link` is stored
    (s.setLink x (match v with | .none => false | _ => true), .ok)
  | some _ =>
    match v with
    | .none => cleanAux O fuel (s.setLink x false) x
    | .falsy => cleanAux O fuel (s.setLink x false) x
    | .path Option.none => (s, .raised .valueError)
    | .path (some t) =>
      match cleanIfLinked O fuel s x with
      | (s1, .ok) =>
        match mergeAux O fuel s1 true x t with
        | (s2, .ok) => (s2.setLink x true, .ok)
        | (s2, .fuel) => (s2, .fuel)
        | (s2, out) =>
          -- `except Exception: if was_resolved: self.merge(); raise`, where
          -- `was_resolved = self._link is not None and self._merged is not None` was noted
          -- before the `clean()`
          if s.resolved x then
            match relinkAux O fuel s2 x with
            | (s3, .ok) => (s3, out)
            | r => r
          else (s2, out)
      | r => r

/-! ### histories -/

/-- The extended operation set: every primitive operation, plus clone (the copy is the object
    with the next free handle; attaching it is a following primitive operation), merge, the
    link setter and clean. -/
inductive XOp where
  | prim (op : Op)
  | clone (x : Nat) (children keepId : Bool)
  | merge (dest src : Nat)
  | setLink (x : Nat) (v : LinkVal)
  | clean (x : Nat)
  deriving Repr

def XOp.handles : XOp → List Nat
  | .prim op => op.handles
  | .clone x _ _ => [x]
  | .merge d s => [d, s]
  | .setLink x (.path (some t)) => [x, t]
  | .setLink x _ => [x]
  | .clean x => [x]

/-- One operation of a history. `fuel` bounds the recursion depth and the loop lengths. -/
def stepX (fuel : Nat) (s0 : X) (O : Oracle) (op : XOp) : X × XOut :=
  let s := { s0 with orig := id }
  if op.handles.any (fun i => i ≥ s.h.size) then (s, .raised .typeError)
  else
  match op with
  | .prim p => s.prim p
  | .clone x children keepId =>
    match cloneAux O fuel s x children keepId with
    | (s1, _, o) => (s1, o)
  | .merge dest src =>
    -- `merge` is a method of Sections; the source is read as a Section (`.definition`)
    if (s.h.node dest).kind ≠ .sec ∨ (s.h.node src).kind ≠ .sec then (s, .raised .attributeError)
    else mergePub O fuel s dest src
  | .setLink x v =>
    if (s.h.node x).kind ≠ .sec then (s, .raised .attributeError)
    else setLinkAux O fuel s x v
  | .clean x =>
    if (s.h.node x).kind = .prop then (s, .ok) else cleanAux O fuel s x

def runX (fuel : Nat) (s : X) (ops : List (Oracle × XOp)) : X :=
  ops.foldl (fun s op => (stepX fuel s op.1 op.2).1) s

end Heap
