/-
M-Card: cardinalities.

  odml/util.py            format_cardinality
  odml/validation.py      _cardinality_validation (+ the three rules that call it)
  odml/tools/xmlparser.py parse_cardinality  (text form  "(2, 3)")
  odml/tools/dict_parser.py parse_cardinality (list form  [2, 3])
  odml/property.py, odml/section.py   the three cardinality setters

Every definition follows the Python statement order.  No Mathlib.
-/
import OdmlModel.Py.Str

namespace Card

/-- The Python values a caller can hand to a cardinality setter, as far as
    `format_cardinality` can tell them apart. -/
inductive In where
  | nul
  | bool (b : Bool)
  | int (i : Int)
  | float (isZero : Bool)          -- a float: never an `int` instance; truthy iff non-zero
  | str (s : String)
  | seq (isTuple : Bool) (xs : List In)   -- tuple or list
  | other (truthy : Bool)          -- any other object (dict, set, odml object, …)
  deriving Repr, Inhabited

/-- Python truthiness (`not v` is `!truthy v`). -/
def In.truthy : In → Bool
  | .nul => false
  | .bool b => b
  | .int i => i != 0
  | .float z => !z
  | .str s => s != ""
  | .seq _ xs => !xs.isEmpty
  | .other t => t

/-- `isinstance(v, int)` together with the integer value (`bool ⊂ int`). -/
def In.asInt : In → Option Int
  | .bool b => some (if b then 1 else 0)
  | .int i => some i
  | _ => none

/-- A stored cardinality: unset, or a (min, max) pair. -/
abbrev Card := Option (Option Int × Option Int)

/-- `ValueError` is the only exception `format_cardinality` raises. -/
inductive Res where
  | ok (c : Card)
  | valueError
  deriving Repr, DecidableEq

/-- `isinstance(v, int) and v >= 0` -/
def nonnegInt (v : In) : Option Int :=
  match v.asInt with
  | some i => if i ≥ 0 then some i else none
  | none => none

/-- odml/util.py `format_cardinality`, statement by statement. -/
def formatCard (v : In) : Res :=
  if !v.truthy then .ok none
  else
    match v with
    | .seq _ [a, b] =>
      if !a.truthy && !b.truthy then .ok none
      else
        -- `isinstance(in_val, int)` is false for a tuple/list: third `if` skipped
        match nonnegInt a, nonnegInt b with
        | some x, some y =>
          if y ≥ x then .ok (some (some x, some y))
          else if !a.truthy then .ok (some (none, some y))   -- max_int and not v_min
          else if !b.truthy then .ok (some (some x, none))   -- min_int and not v_max
          else .valueError
        | none, some y => if !a.truthy then .ok (some (none, some y)) else .valueError
        | some x, none => if !b.truthy then .ok (some (some x, none)) else .valueError
        | none, none => .valueError
    | _ =>
      match v.asInt with
      | some i => if i > 0 then .ok (some (none, some i)) else .valueError
      | none => .valueError

/-- The three setters: `self._x_cardinality = format_cardinality(new)`; a raise keeps the old. -/
def setCard (old : Card) (v : In) : Card × Bool :=
  match formatCard v with
  | .ok c => (c, true)
  | .valueError => (old, false)

/-- The issue `_cardinality_validation` produces: none, or which bound is violated. -/
inductive Cause where
  | minimum (m : Int)
  | maximum (m : Int)
  deriving Repr, DecidableEq

/-- odml/validation.py `_cardinality_validation` for a child count `n`.
    (`if cardinality and isinstance(cardinality, tuple)`, `if val_min and …`, `elif val_max and …`) -/
def cardIssue (c : Card) (n : Nat) : Option Cause :=
  match c with
  | none => none
  | some (mn, mx) =>
    match mn with
    | some m =>
      if m != 0 && (n : Int) < m then some (.minimum m)
      else match mx with
        | some x => if x != 0 && (n : Int) > x then some (.maximum x) else none
        | none => none
    | none =>
      match mx with
      | some x => if x != 0 && (n : Int) > x then some (.maximum x) else none
      | none => none

/-- Normal form promised by C09: non-negative, min ≤ max, not both empty. -/
def Normal : Card → Prop
  | none => True
  | some (a, b) =>
    (∀ x, a = some x → 0 ≤ x) ∧ (∀ y, b = some y → 0 ≤ y) ∧
    (∀ x y, a = some x → b = some y → x ≤ y) ∧ ¬ (a = none ∧ b = none)

/-- What `format_cardinality` actually guarantees in addition: a stored maximum is positive. -/
def Strong : Card → Prop
  | none => True
  | some (_, b) => ∀ y, b = some y → 0 < y

/-- The child count lies outside [min, max]. -/
def Outside (c : Card) (n : Nat) : Prop :=
  match c with
  | none => False
  | some (a, b) => (∃ x, a = some x ∧ (n : Int) < x) ∨ (∃ y, b = some y ∧ (n : Int) > y)

/-! ### Text form (XML) -/

open Py

/-- `str(card)` of a stored tuple, as the XML writer emits it: `"(2, 3)"`, `"(None, 3)"`. -/
def renderBound : Option Int → List Char
  | none => "None".toList
  | some i => intToStr i

def renderCardText : Option Int × Option Int → List Char
  | (a, b) => ['('] ++ renderBound a ++ [',', ' '] ++ renderBound b ++ [')']

/-- odml/tools/xmlparser.py `parse_cardinality` on a string. -/
def parseCardText (val : List Char) : Card :=
  if val.isEmpty then none
  else
    match splitOn ',' (slice1m1 (strip val)) with
    | [p0, p1] =>
      let mn := strip p0
      let mx := strip p1
      let minInt := isDigitStr mn      -- `int(x) >= 0` is always true for digit strings
      let maxInt := isDigitStr mx
      if minInt && maxInt && natOfDigits mx ≥ natOfDigits mn then
        some (some (natOfDigits mn : Nat), some (natOfDigits mx : Nat))
      else if minInt && mx == "None".toList then some (some (natOfDigits mn : Nat), none)
      else if maxInt && mn == "None".toList then some (none, some (natOfDigits mx : Nat))
      else none
    | _ => none

/-! ### List form (JSON / YAML) -/

/-- What a JSON/YAML loader can put into one slot of the cardinality list. -/
inductive DIn where
  | nul
  | bool (b : Bool)
  | int (i : Int)
  | str (s : String)               -- `str(x).strip() == "None"` is honoured
  | other (truthy : Bool)
  deriving Repr

def DIn.isNoneLike : DIn → Bool
  | .nul => true
  | .str s => strip s.toList == "None".toList
  | _ => false

def DIn.truthy : DIn → Bool
  | .nul => false
  | .bool b => b
  | .int i => i != 0
  | .str s => s != ""
  | .other t => t

def DIn.nonnegInt : DIn → Option Int
  | .bool b => some (if b then 1 else 0)
  | .int i => if i ≥ 0 then some i else none
  | _ => none

/-- odml/tools/dict_parser.py `parse_cardinality` on a two-element list/tuple.
    (`not vals` and the length test are done by the caller of this function in the driver.) -/
def parseCardList (a b : DIn) : Card :=
  let a' := if a.isNoneLike then DIn.nul else a
  let b' := if b.isNoneLike then DIn.nul else b
  match a'.nonnegInt, b'.nonnegInt with
  | some x, some y =>
    if y ≥ x then some (some x, some y)
    else if !b'.truthy then some (some x, none)
    else if !a'.truthy then some (none, some y)
    else none
  | some x, none => if !b'.truthy then some (some x, none) else none
  | none, some y => if !a'.truthy then some (none, some y) else none
  | none, none => none

def dinOfBound : Option Int → DIn
  | none => .nul
  | some i => .int i

end Card
