/-
M-Dict, second part: the vocabulary of property C02 over the model of Model/Dict.lean.

  * `Transport`   what `json.dumps/loads`, `yaml.dump/safe_load` do to the dictionary: a scalar
                  re-typing and a key order (YAML sorts keys), applied to every node
  * `layoutOK`    the odML 1.1 dictionary layout, decided independently of writer and reader
  * `denote`      the document a dictionary in that layout describes (by key look-up, no loops)
  * `wfDoc`, `dictRepr`  valid documents / what the dictionary formats can represent

No Mathlib.
-/
import OdmlModel.Model.Dict

namespace Dict
open Py

/-! ## Transport through text -/

structure Transport where
  /-- what a scalar becomes after dump + load -/
  scalar : J → J
  /-- the key order of a loaded dictionary -/
  order : List (String × J) → List (String × J)

mutual
def Transport.apply (t : Transport) : J → J
  | .arr xs => .arr (Transport.applyList t xs)
  | .obj kvs => .obj (t.order (Transport.applyKvs t kvs))
  | .null => t.scalar .null
  | .bool b => t.scalar (.bool b)
  | .int i => t.scalar (.int i)
  | .float s => t.scalar (.float s)
  | .str s => t.scalar (.str s)
  | .date s => t.scalar (.date s)
  | .time s => t.scalar (.time s)
  | .datetime s => t.scalar (.datetime s)
def Transport.applyList (t : Transport) : List J → List J
  | [] => []
  | x :: r => Transport.apply t x :: Transport.applyList t r
def Transport.applyKvs (t : Transport) : List (String × J) → List (String × J)
  | [] => []
  | (k, v) :: r => (k, Transport.apply t v) :: Transport.applyKvs t r
end

/-- The in-memory dictionary handed straight to `DictReader` (no text in between). -/
def Transport.direct : Transport := { scalar := id, order := id }

/-- `json.dumps(cls=JSONDateTimeSerializer)` then `json.loads`: date, time and datetime objects
    come back as their `str()`; key order is kept. -/
def Transport.json : Transport :=
  { scalar := fun v => match v with
      | .date s => .str s
      | .time s => .str s
      | .datetime s => .str s
      | v => v,
    order := id }

/-- Insertion of a pair into a key-sorted list. -/
def insertKey (kv : String × J) : List (String × J) → List (String × J)
  | [] => [kv]
  | x :: r => if kv.1 < x.1 then kv :: x :: r else x :: insertKey kv r

def sortKeys : List (String × J) → List (String × J)
  | [] => []
  | kv :: r => insertKey kv (sortKeys r)

/-- `yaml.dump` (with `yaml_time_serializer`) then `yaml.safe_load`: time objects come back as
    strings, dates and datetimes as objects; `yaml.dump` sorts the keys. -/
def Transport.yaml : Transport :=
  { scalar := fun v => match v with
      | .time s => .str s
      | v => v,
    order := sortKeys }

/-! ## The 1.1 dictionary layout -/

def nodupKeys : List String → Bool
  | [] => true
  | k :: r => !r.contains k && nodupKeys r

def keysOf (kvs : List (String × J)) : List String := kvs.map (·.1)

def layoutProp : J → Bool
  | .obj kvs =>
    kvs.all (fun kv => isValidAttr Gen.Format.propertyArgs Gen.Format.propertyMap kv.1) &&
    nodupKeys (keysOf kvs)
  | _ => false

def layoutProps : J → Bool
  | .arr xs => xs.all layoutProp
  | _ => false

mutual
def layoutSec : J → Bool
  | .obj kvs => layoutSecKvs kvs && nodupKeys (keysOf kvs)
  | _ => false
def layoutSecsJ : J → Bool
  | .arr xs => layoutSecList xs
  | _ => false
def layoutSecList : List J → Bool
  | [] => true
  | s :: r => layoutSec s && layoutSecList r
def layoutSecKvs : List (String × J) → Bool
  | [] => true
  | (k, v) :: r =>
    isValidAttr Gen.Format.sectionArgs Gen.Format.sectionMap k &&
    (if k == "sections" then layoutSecsJ v
     else if k == "properties" then layoutProps v
     else true) && layoutSecKvs r
end

def layoutDocKvs : List (String × J) → Bool
  | [] => true
  | (k, v) :: r =>
    isValidAttr Gen.Format.documentArgs Gen.Format.documentMap k &&
    (if k == "sections" then layoutSecsJ v else true) && layoutDocKvs r

/-- Root keys exactly `Document` and `odml-version` (= FORMAT_VERSION), format-defined keys only
    below, no key twice. -/
def layoutOK : J → Bool
  | .obj [("Document", .obj kvs), ("odml-version", .str v)] =>
    v == Gen.Format.formatVersion && layoutDocKvs kvs && nodupKeys (keysOf kvs)
  | _ => false

/-! ## The document a dictionary in the 1.1 layout describes -/

/-- `fmt.revmap(name) or name`: the file key of a constructor argument. -/
def odmlName (m : KMap) (py : String) : String :=
  match m.find? (fun p => p.2 == py) with
  | some p => p.1
  | none => py

/-- The keys a Property dictionary may have in the layout: the `_args` keys. -/
def propLayoutKeys : List String := Gen.Format.propertyArgs.map (·.1)

/-- Section / Document dictionaries use the mapped name for their child lists. -/
def childKey (m : KMap) (k : String) : String :=
  if k == "section" || k == "property" then mapKey m k else k

def secLayoutKeys : List String := Gen.Format.sectionArgs.map (fun a => childKey Gen.Format.sectionMap a.1)
def docLayoutKeys : List String := Gen.Format.documentArgs.map (fun a => childKey Gen.Format.documentMap a.1)

def denoteProp (lib : Lib) : J → Option Prp
  | .obj kvs =>
    if kvs.all (fun kv => propLayoutKeys.contains kv.1) && nodupKeys (keysOf kvs) then
      match createProp lib (propArgsOf (fun py => find (odmlName Gen.Format.propertyMap py) kvs)) with
      | .ok p => some p
      | _ => none
    else none
  | _ => none

def denotePropList (lib : Lib) : List J → Option (List Prp)
  | [] => some []
  | p :: r =>
    match denoteProp lib p, denotePropList lib r with
    | some x, some xs => some (x :: xs)
    | _, _ => none

def denoteProps (lib : Lib) : J → Option (List Prp)
  | .arr xs => denotePropList lib xs
  | _ => none

def propsOfKvs (lib : Lib) : List (String × J) → Option (List Prp)
  | [] => some []
  | (k, v) :: r => if k == "properties" then denoteProps lib v else propsOfKvs lib r

mutual
def denoteSec (lib : Lib) : J → Option Sec
  | .obj kvs =>
    if kvs.all (fun kv => secLayoutKeys.contains kv.1) && nodupKeys (keysOf kvs) then
      match createSec lib (secArgsOf (fun py => find (odmlName Gen.Format.sectionMap py) kvs)),
            propsOfKvs lib kvs, secsOfKvs lib kvs with
      | .ok (.mk id name type d r l rp inc sc pc _ _), some props, some secs =>
        if hasDupNames (props.map (·.name)) || hasDupNames (secs.map Sec.name) then none
        else some (.mk id name type d r l rp inc sc pc props secs)
      | _, _, _ => none
    else none
  | _ => none
def denoteSecsJ (lib : Lib) : J → Option (List Sec)
  | .arr xs => denoteSecList lib xs
  | _ => none
def denoteSecList (lib : Lib) : List J → Option (List Sec)
  | [] => some []
  | s :: r =>
    match denoteSec lib s, denoteSecList lib r with
    | some x, some xs => some (x :: xs)
    | _, _ => none
def secsOfKvs (lib : Lib) : List (String × J) → Option (List Sec)
  | [] => some []
  | (k, v) :: r => if k == "sections" then denoteSecsJ lib v else secsOfKvs lib r
end

/-- The document described by a dictionary in the odML 1.1 layout; `none` when the dictionary is
    not in that layout (foreign key, key twice, wrong version, a value its dtype does not admit,
    sibling names clash). -/
def denote (lib : Lib) : J → Option Doc
  | .obj root =>
    match find "Document" root, find "odml-version" root with
    | some (.obj kvs), some (.str v) =>
      if v == Gen.Format.formatVersion &&
         kvs.all (fun kv => docLayoutKeys.contains kv.1) && nodupKeys (keysOf kvs) then
        match createDoc lib (docArgsOf (fun py => find (odmlName Gen.Format.documentMap py) kvs)),
              secsOfKvs lib kvs with
        | .ok d, some secs => if hasDupNames (secs.map Sec.name) then none else some { d with secs := secs }
        | _, _ => none
      else none
    | _, _ => none
  | _ => none

/-! ## Valid documents and what the dictionary formats can represent -/

/-- `None`, bool, int, float, str: the attribute values json and yaml keep as they are. -/
def isAtom : J → Bool
  | .null => true
  | .bool _ => true
  | .int _ => true
  | .float _ => true
  | .str _ => true
  | _ => false

/-- A non-empty string (names). -/
def isName : J → Bool
  | .str s => s != ""
  | _ => false

/-- What the cardinality setters can leave in a slot (C09.Stored, as a Bool). -/
def cardOk : Card.Card → Bool
  | none => true
  | some (none, none) => false
  | some (none, some y) => 0 < y
  | some (some x, none) => 0 < x
  | some (some x, some y) => 0 ≤ x && x ≤ y && 0 < y

def strippedStr (s : String) : Bool := strip s.toList == s.toList

/-- An item of an odML tuple as `tuple_get` leaves it: stripped text without `;`. -/
def tupleItemOk : J → Bool
  | .str s => strippedStr s && !s.toList.contains ';'
  | _ => false

/-- A stored value of the given dtype class (what `dtypes.get` returns). -/
def valOk (lib : Lib) (k : DtKind) (v : J) : Bool :=
  match k, v with
  | .strlike, .str _ => true
  | .int, .int _ => true
  | .float, .float _ => true
  | .bool, .bool _ => true
  | .date, .date s => s != "" && lib.dateOfStr s == some s
  | .time, .time s => s != "" && lib.timeNorm s == some s && lib.timeOfStr s == some s
  | .datetime, .datetime s => s != "" && lib.datetimeNorm s == some s && lib.datetimeOfStr s == some s
  | .tuple n, .arr items => items.length == n && 0 < n && items.all tupleItemOk
  | _, _ => false

def idOk (lib : Lib) (id : String) : Bool := lib.uuid id == some id

def wfProp (lib : Lib) (p : Prp) : Bool :=
  idOk lib p.id && isName p.name && cardOk p.valCard &&
  (match p.dtype with
   | none => p.values.isEmpty
   | some dt => dt != "" && validType dt && lowerStr dt == dt && p.values.all (valOk lib (classify dt)))

mutual
def wfSec (lib : Lib) : Sec → Bool
  | .mk id name type _ _ _ _ _ sc pc props secs =>
    idOk lib id && isName name && type.isSet && cardOk sc && cardOk pc &&
    props.all (wfProp lib) && !hasDupNames (props.map (·.name)) &&
    wfSecs lib secs && !hasDupNames (secs.map Sec.name)
def wfSecs (lib : Lib) : List Sec → Bool
  | [] => true
  | s :: r => wfSec lib s && wfSecs lib r
end

/-- A valid document as the public API can build it: canonical ids, non-empty string names unique
    among siblings, section types set, stored cardinalities in normal form, values typed by the
    dtype, the document date unset or a date. -/
def wfDoc (lib : Lib) (d : Doc) : Bool :=
  idOk lib d.id &&
  (match d.date with
   | .null => true
   | .date s => s != "" && lib.dateOfStr s == some s
   | _ => false) &&
  wfSecs lib d.secs && !hasDupNames (d.secs.map Sec.name)

/-- A tuple item the bracketed text form `[(a;b),(c;d)]` can carry: no comma. -/
def tupleItemRepr : J → Bool
  | .str s => !s.toList.contains ','
  | _ => true

def valRepr : J → Bool
  | .arr items => items.all tupleItemRepr
  | _ => true

def reprProp (p : Prp) : Bool :=
  isAtom p.unit && isAtom p.definition && isAtom p.dependency && isAtom p.dependencyValue &&
  isAtom p.uncertainty && isAtom p.reference && isAtom p.valueOrigin && p.values.all valRepr

mutual
def reprSec : Sec → Bool
  | .mk _ _ type d r l rp inc _ _ props secs =>
    isAtom type && isAtom d && isAtom r && isAtom l && isAtom rp && isAtom inc &&
    props.all reprProp && reprSecs secs
def reprSecs : List Sec → Bool
  | [] => true
  | s :: r => reprSec s && reprSecs r
end

/-- What the JSON / YAML dictionary can represent: optional attributes hold `None`, bool, int,
    float or str (no date / container objects), and no item of an odML tuple contains a comma. -/
def dictRepr (d : Doc) : Bool :=
  isAtom d.version && isAtom d.author && isAtom d.repository && reprSecs d.secs

/-- The attribute part of `dictRepr` alone: optional attributes hold `None`, bool, int, float or
    str. (What is left of `dictRepr` is decided by the writer itself: `writeRefused`.) -/
def atomsProp (p : Prp) : Bool :=
  isAtom p.unit && isAtom p.definition && isAtom p.dependency && isAtom p.dependencyValue &&
  isAtom p.uncertainty && isAtom p.reference && isAtom p.valueOrigin

mutual
def atomsSec : Sec → Bool
  | .mk _ _ type d r l rp inc _ _ props secs =>
    isAtom type && isAtom d && isAtom r && isAtom l && isAtom rp && isAtom inc &&
    props.all atomsProp && atomsSecs secs
def atomsSecs : List Sec → Bool
  | [] => true
  | s :: r => atomsSec s && atomsSecs r
end

def atomsDoc (d : Doc) : Bool :=
  isAtom d.version && isAtom d.author && isAtom d.repository && atomsSecs d.secs

/-- No Property holds odML n-tuples (the bracketed text form of tuples is outside the proved
    round trip; it is covered by the correspondence run only). -/
def notTupleKind : DtKind → Bool
  | .tuple _ => false
  | _ => true

def tupleFreeProp (p : Prp) : Bool :=
  match p.dtype with
  | some dt => (!isTupleDtype dt && notTupleKind (classify dt)) || p.values.isEmpty
  | none => true

mutual
def tupleFreeSec : Sec → Bool
  | .mk _ _ _ _ _ _ _ _ _ _ props secs => props.all tupleFreeProp && tupleFreeSecs secs
def tupleFreeSecs : List Sec → Bool
  | [] => true
  | s :: r => tupleFreeSec s && tupleFreeSecs r
end

def tupleFree (d : Doc) : Bool := tupleFreeSecs d.secs

/-- The contract of a text codec (json, PyYAML) as far as the dictionary pipeline relies on it:
    `None`, bool, int, float and str scalars come back unchanged - in particular no string is
    re-typed -, date / time / datetime objects come back as themselves or as their `str()`,
    containers keep their shape, and a dictionary comes back with the same pairs in some order. -/
structure ScalarCodec (t : Transport) : Prop where
  null : t.scalar .null = .null
  bool : ∀ b, t.scalar (.bool b) = .bool b
  int : ∀ i, t.scalar (.int i) = .int i
  float : ∀ s, t.scalar (.float s) = .float s
  str : ∀ s, t.scalar (.str s) = .str s
  date : ∀ s, t.scalar (.date s) = .date s ∨ t.scalar (.date s) = .str s
  time : ∀ s, t.scalar (.time s) = .time s ∨ t.scalar (.time s) = .str s
  datetime : ∀ s, t.scalar (.datetime s) = .datetime s ∨ t.scalar (.datetime s) = .str s
  order : ∀ l, (t.order l).Perm l

end Dict
