/-
M-Dict: the dictionary (JSON / YAML) pipeline.

  odml/tools/dict_parser.py   DictWriter.to_dict / get_sections / get_properties
                              DictReader.to_odml / parse_sections / parse_properties /
                              is_valid_attribute / error / warn, module-level parse_cardinality
  odml/tools/odmlparser.py    ODMLWriter.to_string: {'Document': ..., 'odml-version': FORMAT_VERSION}
  odml/tools/parser_utils.py  odml_tuple_export
  odml/property.py            BaseProperty.__init__, values setter, _convert_value_input,
                              odml_tuple_import
  odml/section.py, doc.py     the two constructors (as far as the reader calls them)
  odml/dtypes.py              get / infer_dtype / valid_type and the *_get converters

The key loops are driven by the regenerated tables `Gen.Format.*` (format.py `_args`, `_map`).
Library functions whose semantics live in CPython (`uuid.UUID`, `int()`, `float()`, `strptime`)
are parameters (`Lib`); theorems quantify over every `Lib` and name the contract they need.
json / yaml text encoding is *not* in this file: the reader is applied to the dictionary the
text decodes to (see `Transport` in Model/DictDoc.lean).

Every definition follows the Python statement order.  No Mathlib.
-/
import OdmlModel.Py.Str
import OdmlModel.Model.Card
import OdmlModel.Generated.FormatTables
import OdmlModel.Generated.DTypeTables

namespace Dict
open Py

/-! ## JSON-like values (what `json.loads` / `yaml.safe_load` can return, and what DictWriter emits) -/

inductive J where
  | null
  | bool (b : Bool)
  | int (i : Int)
  | float (tok : String)        -- a float, named by its `repr`
  | str (s : String)
  | date (iso : String)         -- `datetime.date`, named by `isoformat()`
  | time (iso : String)         -- `datetime.time`, named by `str()`
  | datetime (iso : String)     -- `datetime.datetime`, named by `str()`
  | arr (xs : List J)
  | obj (kvs : List (String × J))
  deriving Repr, Inhabited

/-- `repr` of the two float zeros. -/
def floatIsZero (tok : String) : Bool := tok == "0.0" || tok == "-0.0"

/-- Python truthiness. -/
def J.truthy : J → Bool
  | .null => false
  | .bool b => b
  | .int i => i != 0
  | .float t => !floatIsZero t
  | .str s => s != ""
  | .date _ => true
  | .time _ => true
  | .datetime _ => true
  | .arr xs => !xs.isEmpty
  | .obj kvs => !kvs.isEmpty

/-- `x is not None` -/
def J.isSet : J → Bool
  | .null => false
  | _ => true

/-- First binding of a key (Python dicts have unique keys; lists decoded from text keep the
    last duplicate, which the decoder of the driver normalises). -/
def find (k : String) : List (String × J) → Option J
  | [] => none
  | (k', v) :: r => if k' == k then some v else find k r

/-- `d[k] = v` on an insertion-ordered dict. -/
def assocSet (l : List (String × J)) (k : String) (v : J) : List (String × J) :=
  match l with
  | [] => [(k, v)]
  | (k', v') :: r => if k' == k then (k', v) :: r else (k', v') :: assocSet r k v

/-! ## The document tree (what the properties observe of `odml.Document`) -/

/-- Marker for an id produced by `uuid.uuid4()` while loading (never compared literally). -/
def freshId : String := "<fresh>"

structure Prp where
  id : String
  name : J
  values : List J
  unit : J
  definition : J
  dependency : J
  dependencyValue : J
  uncertainty : J
  reference : J
  dtype : Option String
  valueOrigin : J
  valCard : Card.Card
  deriving Repr, Inhabited

inductive Sec where
  | mk (id : String) (name type definition reference link repository incl : J)
       (secCard propCard : Card.Card) (props : List Prp) (secs : List Sec)
  deriving Repr, Inhabited

structure Doc where
  id : String
  version : J
  author : J
  date : J
  repository : J
  secs : List Sec
  deriving Repr, Inhabited

namespace Sec
def id : Sec → String | mk i _ _ _ _ _ _ _ _ _ _ _ => i
def name : Sec → J | mk _ n _ _ _ _ _ _ _ _ _ _ => n
def type : Sec → J | mk _ _ t _ _ _ _ _ _ _ _ _ => t
def definition : Sec → J | mk _ _ _ d _ _ _ _ _ _ _ _ => d
def reference : Sec → J | mk _ _ _ _ r _ _ _ _ _ _ _ => r
def link : Sec → J | mk _ _ _ _ _ l _ _ _ _ _ _ => l
def repository : Sec → J | mk _ _ _ _ _ _ r _ _ _ _ _ => r
def incl : Sec → J | mk _ _ _ _ _ _ _ i _ _ _ _ => i
def secCard : Sec → Card.Card | mk _ _ _ _ _ _ _ _ c _ _ _ => c
def propCard : Sec → Card.Card | mk _ _ _ _ _ _ _ _ _ c _ _ => c
def props : Sec → List Prp | mk _ _ _ _ _ _ _ _ _ _ p _ => p
def secs : Sec → List Sec | mk _ _ _ _ _ _ _ _ _ _ _ s => s
end Sec

/-! ## Format tables -/

abbrev Args := List (String × Nat)
abbrev KMap := List (String × String)

/-- `fmt.map(name)` -/
def mapKey (m : KMap) (k : String) : String := (m.lookup k).getD k

/-- `attr in fmt.arguments_keys or fmt.revmap(attr)` -/
def isValidAttr (args : Args) (m : KMap) (k : String) : Bool :=
  args.any (fun a => a.1 == k) || m.any (fun p => p.2 == k)

/-- `attr.endswith("_cardinality")` -/
def endsWithCardinality (k : String) : Bool := "_cardinality".toList.isSuffixOf k.toList

/-! ## Writer -/

def optIntJ : Option Int → J
  | none => .null
  | some i => .int i

/-- A stored cardinality as the attribute value the writer sees (`None` or a 2-tuple, which it
    turns into a list). -/
def cardJ : Card.Card → J
  | none => .null
  | some (a, b) => .arr [optIntJ a, optIntJ b]

def optStrJ : Option String → J
  | none => .null
  | some s => .str s

/-- `";".join(val)`; `none` when the value is not a list of strings (`TypeError`). -/
def joinItems : List J → Option (List Char)
  | [] => some []
  | [.str s] => some s.toList
  | .str s :: r => (joinItems r).map (fun t => s.toList ++ ';' :: t)
  | _ => none

/-- odml/tools/parser_utils.py `odml_tuple_export` (without the outer brackets). -/
def tupleExportInner : List J → Option (List Char)
  | [] => some []
  | .arr items :: r =>
    match joinItems items, tupleExportInner r with
    | some s, some t => some (if r.isEmpty then '(' :: s ++ [')'] else '(' :: s ++ ')' :: ',' :: t)
    | _, _ => none
  | _ => none

def tupleExport (vals : List J) : Option String :=
  (tupleExportInner vals).map (fun s => String.ofList ('[' :: s ++ [']']))

/-- `dtype.endswith("-tuple")` -/
def isTupleDtype (s : String) : Bool := "-tuple".toList.isSuffixOf s.toList

/-- `if tag is not None: d[key] = tag` -/
def emit (k : String) (v : J) : List (String × J) := if v.isSet then [(k, v)] else []

/-- What `get_properties` stores under `value`: the bracketed tuple text for a non-empty n-tuple
    Property, the list of values otherwise. -/
def propValueJ (p : Prp) : J :=
  if (match p.dtype with | some dt => dt != "" && isTupleDtype dt | none => false) &&
      !p.values.isEmpty then
    match tupleExport p.values with | some s => .str s | none => .null
  else .arr p.values

/-- `getattr(prop, attr)` for the attribute names of the format; `none` = `hasattr` is false. -/
def propAttr (p : Prp) (attr : String) : Option J :=
  if attr == "oid" then some (.str p.id)
  else if attr == "name" then some p.name
  else if attr == "values" then some (.arr p.values)
  else if attr == "unit" then some p.unit
  else if attr == "definition" then some p.definition
  else if attr == "dependency" then some p.dependency
  else if attr == "dependency_value" then some p.dependencyValue
  else if attr == "uncertainty" then some p.uncertainty
  else if attr == "reference" then some p.reference
  else if attr == "dtype" then some (optStrJ p.dtype)
  else if attr == "value_origin" then some p.valueOrigin
  else if attr == "val_cardinality" then some (cardJ p.valCard)
  else none

/-- Whether `get_properties` can finish on this Property (the tuple export joins strings). -/
def propWriteOk (p : Prp) : Bool :=
  match p.dtype with
  | some dt => if isTupleDtype dt && !p.values.isEmpty then (tupleExport p.values).isSome else true
  | none => true

/-- One iteration of the key loop of `DictWriter.get_properties`. -/
def writePropKey (p : Prp) (i : String) : List (String × J) :=
  let attr := mapKey Gen.Format.propertyMap i
  match propAttr p attr with
  | none => []
  | some tag =>
    if attr == "val_cardinality" then
      -- the only tuple-valued attribute: `isinstance(tag, tuple)` -> `prop_dict[attr] = list(tag)`
      emit attr tag
    else if attr == "values" then
      -- never None; the n-tuple branch stores under the literal key "value"
      if (match p.dtype with | some dt => dt != "" && isTupleDtype dt | none => false) &&
          !p.values.isEmpty then [("value", propValueJ p)]
      else [(i, propValueJ p)]
    else emit i tag

def writeProp (p : Prp) : J :=
  .obj (Gen.Format.propertyArgs.flatMap (fun a => writePropKey p a.1))

def secAttr (s : Sec) (attr : String) : Option J :=
  if attr == "oid" then some (.str s.id)
  else if attr == "type" then some s.type
  else if attr == "name" then some s.name
  else if attr == "definition" then some s.definition
  else if attr == "reference" then some s.reference
  else if attr == "link" then some s.link
  else if attr == "repository" then some s.repository
  else if attr == "include" then some s.incl
  else if attr == "sec_cardinality" then some (cardJ s.secCard)
  else if attr == "prop_cardinality" then some (cardJ s.propCard)
  else none

mutual
/-- `DictWriter.get_sections`, one Section. -/
def writeSec : Sec → J
  | .mk id name type definition reference link repository incl secCard propCard props secs =>
    .obj (Gen.Format.sectionArgs.flatMap (fun a =>
      let i := a.1
      let attr := mapKey Gen.Format.sectionMap i
      if attr == "properties" then [(attr, J.arr (props.map writeProp))]
      else if attr == "sections" then [(attr, J.arr (writeSecs secs))]
      else
        match secAttr (.mk id name type definition reference link repository incl
                        secCard propCard [] []) attr with
        | none => []
        | some tag => emit i tag))
def writeSecs : List Sec → List J
  | [] => []
  | s :: r => writeSec s :: writeSecs r
end

def docAttr (d : Doc) (attr : String) : Option J :=
  if attr == "oid" then some (.str d.id)
  else if attr == "version" then some d.version
  else if attr == "author" then some d.author
  else if attr == "date" then some d.date
  else if attr == "repository" then some d.repository
  else none

/-- `DictWriter.to_dict` -/
def writeDoc (d : Doc) : J :=
  .obj (Gen.Format.documentArgs.flatMap (fun a =>
    let i := a.1
    let attr := mapKey Gen.Format.documentMap i
    if attr == "sections" then [(attr, J.arr (writeSecs d.secs))]
    else
      match docAttr d attr with
      | none => []
      | some tag => emit i tag))

/-- `ODMLWriter.to_string`: the dictionary handed to `json.dumps` / `yaml.dump`. -/
def wrap (doc : J) : J :=
  .obj [("Document", doc), ("odml-version", .str Gen.Format.formatVersion)]

mutual
def secWriteOk : Sec → Bool
  | .mk _ _ _ _ _ _ _ _ _ _ props secs => props.all propWriteOk && secsWriteOk secs
def secsWriteOk : List Sec → Bool
  | [] => true
  | s :: r => secWriteOk s && secsWriteOk r
end

/-- The writer returns (it raises `TypeError` only on a tuple value that is not a list of strings). -/
def writeOk (d : Doc) : Bool := secsWriteOk d.secs

/-- `isinstance(item, str) and "," in item` -/
def itemHasComma : J → Bool
  | .str s => s.toList.contains ','
  | _ => false

/-- `val and any(isinstance(item, str) and "," in item for item in val)` for one stored value. -/
def valHasComma : J → Bool
  | .arr items => items.any itemHasComma
  | _ => false

/-- `DictWriter.get_properties` raises `ParserException` on this Property: a non-empty n-tuple
    Property one of whose tuple items contains a comma (the bracketed text form separates the
    tuples by commas and could not be loaded again). -/
def propWriteRefused (p : Prp) : Bool :=
  (match p.dtype with | some dt => dt != "" && isTupleDtype dt | none => false) &&
    !p.values.isEmpty && p.values.any valHasComma

mutual
def secWriteRefused : Sec → Bool
  | .mk _ _ _ _ _ _ _ _ _ _ props secs => props.any propWriteRefused || secsWriteRefused secs
def secsWriteRefused : List Sec → Bool
  | [] => false
  | s :: r => secWriteRefused s || secsWriteRefused r
end

/-- `DictWriter.to_dict` raises `ParserException` (nothing is written). -/
def writeRefused (d : Doc) : Bool := secsWriteRefused d.secs

/-! ## Library functions the reader calls (CPython semantics, supplied as parameters) -/

structure Lib where
  /-- `str(uuid.UUID(s))`; `none` = `ValueError` -/
  uuid : String → Option String
  /-- `int(s)` on a str; `none` = `ValueError` -/
  pyInt : String → Option Int
  /-- `repr(float(s))` on a str; `none` = `ValueError` -/
  pyFloat : String → Option String
  /-- `repr(float(i))`; `none` = `OverflowError` -/
  floatOfInt : Int → Option String
  /-- `int(f)` of the float with this repr; `none` = nan / inf -/
  intOfFloat : String → Option Int
  /-- `strptime(s, "%Y-%m-%d").date().isoformat()` -/
  dateOfStr : String → Option String
  /-- `str(strptime(s, "%H:%M:%S").time())` -/
  timeOfStr : String → Option String
  /-- `str(strptime(s, "%Y-%m-%d %H:%M:%S"))` -/
  datetimeOfStr : String → Option String
  /-- `time_get(t)` for a `time` object named by `str(t)` (strftime then strptime) -/
  timeNorm : String → Option String
  /-- `datetime_get(t)` for a `datetime` object named by `str(t)` -/
  datetimeNorm : String → Option String

/-! ## dtypes -/

inductive DtKind where
  | strlike | int | float | bool | date | time | datetime
  | tuple (n : Nat)
  deriving Repr, DecidableEq

/-- `^[1-9][0-9]*-tuple$` -/
def isTupleName (l : List Char) : Bool :=
  "-tuple".toList.isSuffixOf l &&
  (let d := l.take (l.length - 6)
   match d with
   | [] => false
   | c :: _ => c != '0' && d.all Char.isDigit)

/-- odml/dtypes.py `_normalize_dtype`: lower case, shorthands `str` / `bool` resolved
    (ASCII case mapping; no non-ASCII letter lower-cases into a member name). -/
def normalizeDtype (s : String) : String :=
  let low := String.ofList (lower s.toList)
  (Gen.DTypes.dtypeMap.lookup low).getD low

/-- `dtype.lower()` as the constructor stores it. -/
def lowerStr (s : String) : String := String.ofList (lower s.toList)

/-- odml/dtypes.py `valid_type` on a str: a member name of `DType` or `^[1-9][0-9]*-tuple$`,
    after normalisation. -/
def validType (s : String) : Bool :=
  let n := normalizeDtype s
  Gen.DTypes.members.any (fun m => m.1 == n) || isTupleName n.toList

/-- Which converter `dtypes.get(_, dtype)` selects (`dtype` non-empty): the name is normalised,
    then `<name>_get` is looked up with `str_get` as the default. -/
def classify (s : String) : DtKind :=
  let n := normalizeDtype s
  if isTupleDtype n then .tuple (natOfDigits (n.toList.take (n.toList.length - 6)))
  else if n == "int" then .int
  else if n == "float" then .float
  else if n == "boolean" || n == "bool" then .bool
  else if n == "date" then .date
  else if n == "time" then .time
  else if n == "datetime" then .datetime
  else .strlike

/-- The result of one conversion. -/
inductive Got where
  | ok (v : J)
  | invalid          -- the converter raised
  | unmodelled       -- outside the model (e.g. `str()` of a container, `datetime.now()`)
  deriving Repr, Inhabited

/-- `str(v)` for scalars. -/
def pyStr : J → Option String
  | .null => some "None"
  | .bool b => some (if b then "True" else "False")
  | .int i => some (String.ofList (intToStr i))
  | .float t => some t
  | .str s => some s
  | .date s => some s
  | .time s => some s
  | .datetime s => some s
  | _ => none

/-- `v in [None, "", [], {}]` -/
def isEmptyish : J → Bool
  | .null => true
  | .str s => s == ""
  | .arr xs => xs.isEmpty
  | .obj kvs => kvs.isEmpty
  | _ => false

def strGet (v : J) : Got :=
  if isEmptyish v then .ok (.str "")
  else match pyStr v with
    | some s => .ok (.str s)
    | none => .unmodelled

def ofOpt (f : α → J) : Option α → Got
  | some x => .ok (f x)
  | none => .invalid

def intGet (lib : Lib) : J → Got
  | .null => .ok (.int 0)
  | .str s =>
    if s == "" then .ok (.int 0)
    else match lib.pyInt s with
      | some i => .ok (.int i)
      | none => ofOpt .int ((lib.pyFloat s).bind lib.intOfFloat)
  | .int i => .ok (.int i)
  | .bool b => .ok (.int (if b then 1 else 0))
  | .float t => ofOpt .int (lib.intOfFloat t)
  | _ => .invalid

def floatGet (lib : Lib) : J → Got
  | .null => .ok (.float "0.0")
  | .str s => if s == "" then .ok (.float "0.0") else ofOpt .float (lib.pyFloat s)
  | .int i => ofOpt .float (lib.floatOfInt i)
  | .bool b => .ok (.float (if b then "1.0" else "0.0"))
  | .float t => .ok (.float t)
  | _ => .invalid

def boolGet (v : J) : Got :=
  if isEmptyish v then .ok (.bool false)
  else match v with
    | .str s =>
      let l := String.ofList (lower s.toList)
      if l == "true" || l == "1" || l == "t" then .ok (.bool true)
      else if l == "false" || l == "0" || l == "f" then .ok (.bool false)
      else .invalid
    | .bool b => .ok (.bool b)
    | .int i => if i == 1 then .ok (.bool true) else if i == 0 then .ok (.bool false) else .invalid
    | .float t => if t == "1.0" then .ok (.bool true) else if floatIsZero t then .ok (.bool false)
                  else .invalid
    | _ => .invalid

def dateGet (lib : Lib) : J → Got
  | .null => .unmodelled
  | .str s => if s == "" then .unmodelled else ofOpt .date (lib.dateOfStr s)
  | .date s => ofOpt .date (lib.dateOfStr s)
  | _ => .invalid

def timeGet (lib : Lib) : J → Got
  | .null => .unmodelled
  | .str s => if s == "" then .unmodelled else ofOpt .time (lib.timeOfStr s)
  | .time s => ofOpt .time (lib.timeNorm s)
  | _ => .invalid

def datetimeGet (lib : Lib) : J → Got
  | .null => .unmodelled
  | .str s => if s == "" then .unmodelled else ofOpt .datetime (lib.datetimeOfStr s)
  | .datetime s => ofOpt .datetime (lib.datetimeNorm s)
  | _ => .invalid

/-- odml/dtypes.py `tuple_get(string, count)` -/
def tupleGet (n : Nat) (v : J) : Got :=
  if !v.truthy then .ok .null
  else match v with
    | .str s =>
      let l := strip s.toList
      if l.head? == some '(' && l.getLast? == some ')' then
        let parts := (splitOn ';' (slice1m1 l)).map strip
        if parts.length == n then .ok (.arr (parts.map (fun p => .str (String.ofList p))))
        else .invalid
      else .invalid
    | _ => .invalid

/-- odml/dtypes.py `get(value, dtype)` for a non-empty dtype. -/
def getVal (lib : Lib) (k : DtKind) (v : J) : Got :=
  match k with
  | .strlike => strGet v
  | .int => intGet lib v
  | .float => floatGet lib v
  | .bool => boolGet v
  | .date => dateGet lib v
  | .time => timeGet lib v
  | .datetime => datetimeGet lib v
  | .tuple n => tupleGet n v

/-- odml/dtypes.py `infer_dtype` -/
def inferDtype : J → String
  | .str s => if s.toList.contains '\n' then "text" else "string"
  | .bool _ => "boolean"
  | .int _ => "int"
  | .float _ => "float"
  | .date _ => "date"
  | .time _ => "time"
  | .datetime _ => "datetime"
  | _ => "string"

/-- `[dtypes.get(v, dtype) for v in vals]`; `invalid` as soon as one conversion raises
    (this is `_validate_values` and the final comprehension in one pass). -/
def getAll (lib : Lib) (k : DtKind) : List J → Except Got (List J)
  | [] => .ok []
  | v :: r =>
    match getVal lib k v with
    | .ok x => (getAll lib k r).map (x :: ·)
    | g => .error g

/-- odml/property.py `_convert_value_input` (for a value that is not None and not empty). -/
def convertInput : J → Option (List J)
  | .str s =>
    let l := s.toList
    if l.head? == some '[' && l.getLast? == some ']' then
      some ((splitOn ',' (slice1m1 l)).map (fun p => .str (String.ofList (strip p))))
    else some [.str s]
  | .obj _ => none             -- `[str(dict)]`: not modelled
  | .arr xs => some xs
  | v => some [v]

def countChar (c : Char) (l : List Char) : Nat := l.count c

/-- The text `odml_tuple_import` builds from a list item: `"(a; b; c)"`. -/
def tupleItemText : List J → Option (List Char)
  | [] => some []
  | [x] => (pyStr x).map (·.toList)
  | x :: r =>
    match pyStr x, tupleItemText r with
    | some s, some t => some (s.toList ++ ';' :: ' ' :: t)
    | _, _ => none

/-- odml/property.py `odml_tuple_import(t_count, new_value)` on a list. An item that does not
    fit is kept as it is (the value validation of the caller then refuses the input).
    `Except Got`: `.unmodelled` for `str()` of containers. -/
def tupleImportLoop (t : Nat) (single : Bool) : List J → List J → Except Got (List J)
  | [], acc => .ok acc
  | .arr items :: r, acc =>
    if items.length == t then
      match tupleItemText items with
      | some s => tupleImportLoop t single r (acc ++ [.str (String.ofList ('(' :: s ++ [')']))])
      | none => .error .unmodelled
    else tupleImportLoop t single r (acc ++ [.arr items])
  | .str s :: r, acc =>
    let cln := strip s.toList
    let brCheck := countChar '(' cln == countChar ')' cln
    let sepCheck := t == 1 || countChar '(' cln * (t - 1) == countChar ';' cln
    if single && cln.head? == some '[' then
      let lCheck := cln.getLast? == some ']'
      let comCheck := countChar '(' cln == countChar ',' cln + 1
      if lCheck && brCheck && comCheck && sepCheck then
        tupleImportLoop t single r
          ((splitOn ',' (slice1m1 cln)).map (fun p => .str (String.ofList p)))
      else tupleImportLoop t single r acc
    else if brCheck && sepCheck then tupleImportLoop t single r (acc ++ [.str (String.ofList cln)])
    else tupleImportLoop t single r (acc ++ [.str s])
  | v :: r, acc => tupleImportLoop t single r (acc ++ [v])

def tupleImport (t : Nat) (vals : List J) : Except Got (List J) :=
  match tupleImportLoop t (vals.length == 1) vals [] with
  | .ok [] => .ok vals
  | r => r

/-- The `values` setter of `BaseProperty`: new dtype and stored values, or the exception. -/
def setValues (lib : Lib) (dtype : Option String) (content : J) : Except Got (Option String × List J) :=
  let isEmpty := match content with
    | .null => true
    | .arr xs => xs.isEmpty
    | .str s => s == ""
    | _ => false
  if isEmpty then .ok (dtype, [])
  else
    match convertInput content with
    | none => .error .unmodelled
    | some [] => .error .unmodelled          -- unreachable (kept total)
    | some (v0 :: vs) =>
      let dt := match dtype with | some d => d | none => inferDtype v0
      if dt == "" then .error .unmodelled    -- unreachable: "" is never a valid dtype
      else
        let k := classify dt
        let vals := v0 :: vs
        match k with
        | .tuple n =>
          match getAll lib k vals with
          | .ok xs => .ok (some dt, xs)
          | .error .unmodelled => .error .unmodelled
          | .error _ =>
            match tupleImport n vals with
            | .error g => .error g
            | .ok vals' =>
              match getAll lib k vals' with
              | .ok xs => .ok (some dt, xs)
              | .error g => .error g
        | _ =>
          match getAll lib k vals with
          | .ok xs => .ok (some dt, xs)
          | .error g => .error g

/-! ## Constructors, as the reader calls them (`fmt.create(**attrs)`) -/

/-- Outcome of a constructor call. -/
inductive Created (α : Type) where
  | ok (x : α)
  | raised          -- any exception (`ValueError`, `TypeError`, `AttributeError`, `KeyError`)
  | unmodelled
  deriving Repr, Inhabited

/-- `oid` handling shared by the three constructors. -/
def makeId (lib : Lib) : Option J → Created String
  | none => .ok freshId
  | some .null => .ok freshId
  | some (.str s) => .ok ((lib.uuid s).getD freshId)    -- `ValueError` is caught: new uuid4
  | some _ => .raised                                    -- `uuid.UUID(5)`: AttributeError

def toDIn : J → Card.DIn
  | .null => .nul
  | .bool b => .bool b
  | .int i => .int i
  | .str s => .str s
  | v => .other v.truthy

/-- dict_parser.py `parse_cardinality(vals)` -/
def parseCard (v : J) : Card.Card :=
  if !v.truthy then none
  else match v with
    | .arr [a, b] => Card.parseCardList (toDIn a) (toDIn b)
    | _ => none

/-- A parsed cardinality as the value handed to the cardinality setter. -/
def cardAsIn : Card.Card → Card.In
  | none => .nul
  | some (a, b) => .seq true [match a with | none => .nul | some i => .int i,
                              match b with | none => .nul | some i => .int i]

/-- reader: `parse_cardinality(content)`, then the setter's `format_cardinality`. -/
def readCard : Option J → Created Card.Card
  | none => .ok none
  | some v =>
    match Card.formatCard (cardAsIn (parseCard v)) with
    | .ok c => .ok c
    | .valueError => .raised

def getD (o : Option J) : J := o.getD .null

/-- Keyword arguments of `Property.__init__` that the reader can pass. -/
structure PropArgs where
  oid : Option J
  name : Option J
  values : Option J
  unit : Option J
  definition : Option J
  dependency : Option J
  dependencyValue : Option J
  uncertainty : Option J
  reference : Option J
  dtype : Option J
  valueOrigin : Option J
  valCard : Option J

def propKwargs : List String :=
  ["oid", "name", "values", "unit", "definition", "dependency", "dependency_value",
   "uncertainty", "reference", "dtype", "value_origin", "val_cardinality"]

def propArgsOf (g : String → Option J) : PropArgs :=
  { oid := g "oid", name := g "name", values := g "values", unit := g "unit",
    definition := g "definition", dependency := g "dependency",
    dependencyValue := g "dependency_value", uncertainty := g "uncertainty",
    reference := g "reference", dtype := g "dtype", valueOrigin := g "value_origin",
    valCard := g "val_cardinality" }

/-- `self._dtype = dtype.lower() if dtypes.valid_type(dtype) else None` (non-str: not valid). -/
def ctorDtype : Option J → Option String
  | some (.str s) => if validType s then some (lowerStr s) else none
  | _ => none

/-- odml/property.py `BaseProperty.__init__` (parent is None). -/
def createProp (lib : Lib) (a : PropArgs) : Created Prp :=
  match makeId lib a.oid with
  | .raised => .raised
  | .unmodelled => .unmodelled
  | .ok id =>
    let name := if (getD a.name).truthy then getD a.name else .str id
    let dtype : Option String := ctorDtype a.dtype
    match setValues lib dtype (getD a.values) with
    | .error .unmodelled => .unmodelled
    | .error _ => .raised
    | .ok (dt, vals) =>
      match readCard a.valCard with
      | .raised => .raised
      | .unmodelled => .unmodelled
      | .ok c =>
        .ok { id := id, name := name, values := vals, unit := getD a.unit,
              definition := getD a.definition, dependency := getD a.dependency,
              dependencyValue := getD a.dependencyValue, uncertainty := getD a.uncertainty,
              reference := getD a.reference, dtype := dt, valueOrigin := getD a.valueOrigin,
              valCard := c }

structure SecArgs where
  oid : Option J
  name : Option J
  type : Option J
  definition : Option J
  reference : Option J
  link : Option J
  repository : Option J
  incl : Option J
  secCard : Option J
  propCard : Option J

def secKwargs : List String :=
  ["oid", "type", "name", "definition", "reference", "link", "repository", "include",
   "sec_cardinality", "prop_cardinality"]

def secArgsOf (g : String → Option J) : SecArgs :=
  { oid := g "oid", name := g "name", type := g "type", definition := g "definition",
    reference := g "reference", link := g "link", repository := g "repository",
    incl := g "include", secCard := g "sec_cardinality", propCard := g "prop_cardinality" }

/-- odml/section.py `BaseSection.__init__` (parent is None); children are added by the caller. -/
def createSec (lib : Lib) (a : SecArgs) : Created Sec :=
  match makeId lib a.oid with
  | .raised => .raised
  | .unmodelled => .unmodelled
  | .ok id =>
    let name := if (getD a.name).truthy then getD a.name else .str id
    let type := match a.type with | none => J.str "n.s." | some t => t
    match readCard a.secCard with
    | .raised => .raised
    | .unmodelled => .unmodelled
    | .ok sc =>
      match readCard a.propCard with
      | .raised => .raised
      | .unmodelled => .unmodelled
      | .ok pc =>
        .ok (.mk id name type (getD a.definition) (getD a.reference) (getD a.link)
              (getD a.repository) (getD a.incl) sc pc [] [])

structure DocArgs where
  oid : Option J
  version : Option J
  author : Option J
  date : Option J
  repository : Option J

def docKwargs : List String := ["oid", "version", "author", "date", "repository"]

def docArgsOf (g : String → Option J) : DocArgs :=
  { oid := g "oid", version := g "version", author := g "author", date := g "date",
    repository := g "repository" }

/-- odml/doc.py `BaseDocument.__init__`; the date goes through the `date` setter. -/
def createDoc (lib : Lib) (a : DocArgs) : Created Doc :=
  match makeId lib a.oid with
  | .raised => .raised
  | .unmodelled => .unmodelled
  | .ok id =>
    let dv := getD a.date
    let date : Created J :=
      if !dv.truthy then .ok .null
      else match dv with
        | .date s => (match lib.dateOfStr s with | some d => .ok (.date d) | none => .raised)
        | .str s => (match lib.dateOfStr s with | some d => .ok (.date d) | none => .raised)
        | _ => .raised
    match date with
    | .raised => .raised
    | .unmodelled => .unmodelled
    | .ok d =>
      .ok { id := id, version := getD a.version, author := getD a.author, date := d,
            repository := getD a.repository, secs := [] }

/-! ## Reader -/

inductive Mode where
  | strict      -- ignore_errors=False
  | lenient     -- ignore_errors=True
  deriving Repr, DecidableEq

inductive Err where
  | parser            -- ParserException
  | invalidVersion    -- InvalidVersionException
  | leak              -- another exception escapes `to_odml` (no longer produced)
  | unmodelled        -- the input leaves the modelled domain
  deriving Repr, DecidableEq

/-- Entries of `DictReader.warnings` (all carry the label "Error"). -/
inductive Warn where
  | invalidAttr (key : String)
  | propNotCreated
  | secNotCreated
  | docNotCreated
  | childRefused        -- `append` raised (a sibling with the same name is already there)
  | badEntry            -- a `sections` / `properties` value that is no list, an entry that is no dict
  deriving Repr, DecidableEq

abbrev R (α : Type) := Except Err α

/-- `DictReader.error(msg)` -/
def errorM (m : Mode) (w : Warn) (ws : List Warn) : R (List Warn) :=
  match m with
  | .strict => .error .parser
  | .lenient => .ok (ws ++ [w])

/-- Python `==` on names, restricted to same-kind scalars (names are strings in practice). -/
def nameEq : J → J → Bool
  | .str a, .str b => a == b
  | .int a, .int b => a == b
  | .bool a, .bool b => a == b
  | .float a, .float b => a == b
  | .null, .null => true
  | _, _ => false

/-- `obj.name in smartlist` is true for some appended object. -/
def hasDupNames : List J → Bool
  | [] => false
  | n :: r => r.any (nameEq n) || hasDupNames r

/-- The key loop of `parse_properties` for one property dictionary. -/
def scanPropKeys (m : Mode) : List (String × J) → List (String × J) → List Warn →
    R (List (String × J) × List Warn)
  | [], attrs, ws => .ok (attrs, ws)
  | (k, v) :: r, attrs, ws =>
    if isValidAttr Gen.Format.propertyArgs Gen.Format.propertyMap k then
      scanPropKeys m r (assocSet attrs (mapKey Gen.Format.propertyMap k) v) ws
    else
      match errorM m (.invalidAttr k) ws with
      | .error e => .error e
      | .ok ws' => scanPropKeys m r attrs ws'

/-- `for child in …: try: parent.append(child) except: self.error(…)`: a child whose name is
    already among the appended ones is refused (`KeyError`), the others are kept in order. -/
def appendAll {α : Type} (m : Mode) (nameOf : α → J) : List α → List α → List Warn →
    R (List α × List Warn)
  | kept, [], ws => .ok (kept, ws)
  | kept, c :: r, ws =>
    if kept.any (fun k => nameEq (nameOf k) (nameOf c)) then
      match errorM m .childRefused ws with
      | .error e => .error e
      | .ok ws' => appendAll m nameOf kept r ws'
    else appendAll m nameOf (kept ++ [c]) r ws

/-- One property dictionary: key loop, then `Property.create(**prop_attrs)` inside `try`. -/
def parseProp (lib : Lib) (m : Mode) (p : J) (ws : List Warn) : R (Option Prp × List Warn) :=
  match p with
  | .obj kvs =>
    match scanPropKeys m kvs [] ws with
    | .error e => .error e
    | .ok (attrs, ws1) =>
      if !attrs.all (fun kv => propKwargs.contains kv.1) then
        -- unexpected keyword argument: TypeError inside the `try`
        (errorM m .propNotCreated ws1).map (fun w => (none, w))
      else
        match createProp lib (propArgsOf (fun k => find k attrs)) with
        | .ok x => .ok (some x, ws1)
        | .raised => (errorM m .propNotCreated ws1).map (fun w => (none, w))
        | .unmodelled => .error .unmodelled
  | _ => (errorM m .badEntry ws).map (fun w => (none, w))     -- not a dictionary: reported, skipped

/-- `parse_properties(props_list)` -/
def parsePropList (lib : Lib) (m : Mode) : List J → List Warn → R (List Prp × List Warn)
  | [], ws => .ok ([], ws)
  | p :: r, ws =>
    match parseProp lib m p ws with
    | .error e => .error e
    | .ok (po, ws1) =>
      match parsePropList lib m r ws1 with
      | .error e => .error e
      | .ok (ps, ws2) => .ok (po.toList ++ ps, ws2)

def parseProps (lib : Lib) (m : Mode) (v : J) (ws : List Warn) : R (List Prp × List Warn) :=
  match v with
  | .arr xs => parsePropList lib m xs ws
  | _ => (errorM m .badEntry ws).map (fun w => ([], w))       -- not a list: reported, no properties

/-- State of the key loop of `parse_sections` for one section dictionary. -/
structure SecAcc where
  attrs : List (String × J)
  props : List Prp
  secs : List Sec

/-- After the key loop: `Section.create(**sec_attrs)` (a failure skips the Section), then the
    properties and the sub-sections are appended one by one (a refused child is left out). -/
def finishSec (lib : Lib) (m : Mode) (acc : SecAcc) (ws : List Warn) : R (Option Sec × List Warn) :=
  if !acc.attrs.all (fun kv => secKwargs.contains kv.1) then
    (errorM m .secNotCreated ws).map (fun w => (none, w))
  else
    match createSec lib (secArgsOf (fun k => find k acc.attrs)) with
    | .unmodelled => .error .unmodelled
    | .raised => (errorM m .secNotCreated ws).map (fun w => (none, w))
    | .ok (.mk id name type d r l rp inc sc pc _ _) =>
      match appendAll m (fun p : Prp => p.name) [] acc.props ws with
      | .error e => .error e
      | .ok (ps, ws1) =>
        match appendAll m Sec.name [] acc.secs ws1 with
        | .error e => .error e
        | .ok (ss, ws2) => .ok (some (.mk id name type d r l rp inc sc pc ps ss), ws2)

mutual
/-- `parse_sections(section_list)` on the value found under a `sections` key. -/
def parseSecsJ (lib : Lib) (m : Mode) : J → List Warn → R (List Sec × List Warn)
  | .arr xs, ws => parseSecList lib m xs ws
  | _, ws => (errorM m .badEntry ws).map (fun w => ([], w))
def parseSecList (lib : Lib) (m : Mode) : List J → List Warn → R (List Sec × List Warn)
  | [], ws => .ok ([], ws)
  | s :: r, ws =>
    match parseSec lib m s ws with
    | .error e => .error e
    | .ok (so, ws1) =>
      match parseSecList lib m r ws1 with
      | .error e => .error e
      | .ok (ss, ws2) => .ok (so.toList ++ ss, ws2)
def parseSec (lib : Lib) (m : Mode) : J → List Warn → R (Option Sec × List Warn)
  | .obj kvs, ws =>
    match scanSecKeys lib m kvs { attrs := [], props := [], secs := [] } ws with
    | .error e => .error e
    | .ok (acc, ws1) => finishSec lib m acc ws1
  | _, ws => (errorM m .badEntry ws).map (fun w => (none, w))
/-- The key loop of `parse_sections` for one section dictionary. -/
def scanSecKeys (lib : Lib) (m : Mode) : List (String × J) → SecAcc → List Warn →
    R (SecAcc × List Warn)
  | [], acc, ws => .ok (acc, ws)
  | (k, v) :: r, acc, ws =>
    if isValidAttr Gen.Format.sectionArgs Gen.Format.sectionMap k then
      if k == "properties" then
        match parseProps lib m v ws with
        | .error e => .error e
        | .ok (ps, ws1) => scanSecKeys lib m r { acc with props := ps } ws1
      else if k == "sections" then
        match parseSecsJ lib m v ws with
        | .error e => .error e
        | .ok (ss, ws1) => scanSecKeys lib m r { acc with secs := ss } ws1
      else
        scanSecKeys lib m r
          { acc with attrs := assocSet acc.attrs (mapKey Gen.Format.sectionMap k) v } ws
    else
      match errorM m (.invalidAttr k) ws with
      | .error e => .error e
      | .ok ws' => scanSecKeys lib m r acc ws'
end

/-- The key loop of `to_odml` over the `Document` dictionary. -/
def scanDocKeys (lib : Lib) (m : Mode) : List (String × J) → List (String × J) → List Sec →
    List Warn → R (List (String × J) × List Sec × List Warn)
  | [], attrs, secs, ws => .ok (attrs, secs, ws)
  | (k, v) :: r, attrs, secs, ws =>
    if isValidAttr Gen.Format.documentArgs Gen.Format.documentMap k then
      if k == "sections" then
        match parseSecsJ lib m v ws with
        | .error e => .error e
        | .ok (ss, ws1) => scanDocKeys lib m r attrs ss ws1
      else scanDocKeys lib m r (assocSet attrs (mapKey Gen.Format.documentMap k) v) secs ws
    else
      match errorM m (.invalidAttr k) ws with
      | .error e => .error e
      | .ok ws' => scanDocKeys lib m r attrs secs ws'

/-- `Document.create()`: what the reader falls back to when the real call raises. -/
def defaultDoc : Doc :=
  { id := freshId, version := .null, author := .null, date := .null, repository := .null, secs := [] }

/-- `Document.create(**doc_attrs)` inside `try`; on failure `error(…)` and the default Document. -/
def makeDoc (lib : Lib) (m : Mode) (attrs : List (String × J)) (ws : List Warn) : R (Doc × List Warn) :=
  if !attrs.all (fun kv => docKwargs.contains kv.1) then
    (errorM m .docNotCreated ws).map (fun w => (defaultDoc, w))
  else
    match createDoc lib (docArgsOf (fun k => find k attrs)) with
    | .unmodelled => .error .unmodelled
    | .raised => (errorM m .docNotCreated ws).map (fun w => (defaultDoc, w))
    | .ok d => .ok (d, ws)

/-- `DictReader.to_odml(parsed_doc)` -/
def readDict (lib : Lib) (m : Mode) (j : J) : R (Doc × List Warn) :=
  match j with
  | .obj root =>
    match find "Document" root with
    | none => .error .parser
    | some docJ =>
      match find "odml-version" root with
      | none => .error .parser
      | some ver =>
        let sameVersion := match ver with
          | .str s => s == Gen.Format.formatVersion
          | _ => false
        if !sameVersion then .error .invalidVersion
        else
          match docJ with
          | .obj kvs =>
            match scanDocKeys lib m kvs [] [] [] with
            | .error e => .error e
            | .ok (attrs, secs, ws) =>
              match makeDoc lib m attrs ws with
              | .error e => .error e
              | .ok (d, ws1) =>
                match appendAll m Sec.name [] secs ws1 with
                | .error e => .error e
                | .ok (ss, ws2) => .ok ({ d with secs := ss }, ws2)
          | _ => .error .parser        -- 'Document' is not a dictionary
  | _ => .error .parser                -- the root is not a dictionary

end Dict
